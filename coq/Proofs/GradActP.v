(* GradActP.v — property C15: back-propagation through the ACTIVATIONS
   (component/layers/activations: Tanh, Relu, LeakyRelu, Sigmoid) delivers to the input the
   upstream gradient times the activation's derivative.

   FORMULATION (one, used throughout; Softmax in GradSoftmaxP.v uses the same).
   [h] is any heap, [x] a tracked, not-spent node of it (a leaf OR the result of earlier tracked
   operations: nothing is assumed about x's own edges), [(h1, Ok y)] the outcome of the component.
   [hh] is ANY heap with the structure of [h1] (same values, flags, edges: [sameS h1 hh]) in which
   a back-propagation from some root above y has already delivered the final gradient [gy] to [y],
   the internal nodes of the component hold no gradient yet, and [x] holds an arbitrary prior
   gradient [gx0] (none, or a tensor of x's shape: contributions of other consumers of x).
   The theorem runs the model's own [process_node] over the nodes of the component in the order
   in which [bp_topo] meets them (its depth-first reverse post-order; checked on instances by the
   examples [*_order_ex] below),
     fold_left (process_node rd (fun _ g => g)) [y; internal nodes ...] (hh, log, Ok tt)
   and concludes: the fold is [Ok] (no rule evaluation, no accumulation fails), the structure of
   the heap is unchanged, every node outside {x} ∪ internals keeps its gradient, and x holds a
   gradient [gx] of x's shape with
        elt gx i = prior gx0 i + elt gy i * <derivative factor at x_i>.

   1. generic (any scalar): symbolic execution of [process_edge]/[process_node] on a heap seen
      through its observers ([HS h0 G hh]: structure of h0, gradients G) — [edges_run], [node_run];
      exact heaps of the tracked methods on a tracked, not-spent operand ([op1_step], [elsel_step],
      [arith_step]); the exact heaps of the four components ([*_structure]).
   2. reals: [tanh_grad], [relu_grad], [leaky_grad], [sigmoid_grad]; scalar identities
      [tanh_deriv_identity], [sigmoid_deriv_identity]; examples. *)
From Coq Require Import List Arith ZArith Bool Lia Reals Lra.
From Coquelicot Require Import Coquelicot.
From Qeep Require Import Model.Scalar Model.Nd Model.Fill Model.Data Model.Valid Model.Api Model.Grad
  Model.Backprop Model.Components.
From Qeep Require Import Proofs.NdP Proofs.ElemP Proofs.BroadcastP Proofs.ArithP Proofs.TrackP Proofs.CompP
  Proofs.BackpropP.
From Qeep Require Import Spec.RScalar Spec.ScalarDeriv Spec.VjpSpec Proofs.VjpElemP.
Import ListNotations.
Local Open Scope nat_scope.

Lemma Forall2_impl' {X Y} (P Q : X -> Y -> Prop) l r :
  (forall a b, P a b -> Q a b) -> Forall2 P l r -> Forall2 Q l r.
Proof. intros H F. induction F; constructor; auto. Qed.

(* ===================================================================================== *)
(* 1. generic part                                                                         *)
(* ===================================================================================== *)
Section Gen.
Context {A : Type} {SA : Scalar A}.
Notation T := (tensor A).
Notation heap := (@heap A).
Notation rule := (@rule A).
Notation node := (@node A).
Notation hres := (@hres A).

(* ---------- 1a. heaps seen through their observers ---------- *)

Definition upd (G : nat -> option T) (t : nat) (o : option T) : nat -> option T :=
  fun i => if i =? t then o else G i.

(* hh has the structure of h0 and the gradients G *)
Definition HS (h0 : heap) (G : nat -> option T) (hh : heap) : Prop :=
  sameS h0 hh /\ forall i, gradOf hh i = G i.

Lemma HS_init (h0 hh : heap) : sameS h0 hh -> HS h0 (gradOf hh) hh.
Proof. intros H. split; [exact H|reflexivity]. Qed.

Lemma HS_ext (h0 : heap) G G' hh : (forall i, G i = G' i) -> HS h0 G hh -> HS h0 G' hh.
Proof. intros E [S Hg]. split; [exact S|]. intros i. rewrite Hg. apply E. Qed.

Lemma HS_len (h0 : heap) G hh : HS h0 G hh -> length hh = length h0.
Proof. intros [[L _] _]. symmetry. exact L. Qed.

Lemma HS_val (h0 : heap) G hh i : HS h0 G hh -> valOf hh i = valOf h0 i.
Proof. intros [S _]. symmetry. apply (sameS_val _ _ S). Qed.

Lemma HS_setGrad (h0 : heap) G hh t o : HS h0 G hh -> t < length h0 -> HS h0 (upd G t o) (setGrad hh t o).
Proof.
  intros [S Hg] Hl. split; [eapply sameS_trans; [exact S|apply sameS_setGrad]|].
  intros i. rewrite gradOf_setGrad. unfold upd. destruct (i =? t); [|apply Hg].
  rewrite <- (proj1 S). apply Nat.ltb_lt in Hl. rewrite Hl. reflexivity.
Qed.

Lemma HS_eval rd (h0 : heap) G hh1 hh2 r : HS h0 G hh1 -> HS h0 G hh2 -> eval_rule rd hh1 r = eval_rule rd hh2 r.
Proof.
  intros [S1 G1] [S2 G2]. apply eval_rule_ext.
  - intros i. rewrite <- (sameS_val _ _ S1), <- (sameS_val _ _ S2). reflexivity.
  - rewrite G1, G2. reflexivity.
Qed.

Section Run.
Variable rd : bred.
Notation idseal := (fun (_ : option nat) (g : T) => g).

(* accumulateGrad on the gradient map *)
Fixpoint accEdges (G : nat -> option T) (l : list (nat * T)) : option (nat -> option T) :=
  match l with
  | [] => Some G
  | (t, g) :: r => match acc1 (G t) g with Some o => accEdges (upd G t o) r | None => None end
  end.

(* edge e of node c is tracked, owned by c, and evaluates (in hh) to the gradient paired with it *)
Definition edge_ev (h0 hh : heap) (c : nat) (e : nat * rule) (tg : nat * T) : Prop :=
  fst tg = fst e /\ trackedOf h0 (fst e) = true /\ fst e <> c /\ rule_y (snd e) = c /\
  eval_rule rd hh (snd e) = Ok (snd tg).

Lemma edges_run (h0 : heap) c es : forall G hh tgs G',
  HS h0 G hh -> Forall2 (edge_ev h0 hh c) es tgs -> accEdges G tgs = Some G' ->
  exists hh', fold_left (process_edge rd c) es (hh, Ok tt) = (hh', Ok tt) /\ HS h0 G' hh' /\ G' c = G c.
Proof.
  induction es as [|e es IH]; intros G hh tgs G' H F Hacc.
  - inversion F; subst. cbn in Hacc. inversion Hacc; subst. exists hh. auto.
  - inversion F as [|e0 tg es0 tgs0 He Frest]; subst. destruct tg as [t g]. destruct e as [t' r].
    destruct He as (Et & Htr & Hne & Hy & Hev). cbn [fst snd] in *. subst t.
    cbn [accEdges] in Hacc. destruct (acc1 (G t') g) as [o|] eqn:Ea; [|discriminate].
    assert (Hlt : t' < length h0) by (apply tracked_lt; exact Htr).
    pose proof (HS_setGrad h0 G hh t' o H Hlt) as H1.
    assert (Estep : process_edge rd c (hh, Ok tt) (t', r) = (setGrad hh t' o, Ok tt)).
    { cbn [process_edge fst snd]. rewrite <- (sameS_trk _ _ (proj1 H)), Htr, Hev.
      unfold accumulate. rewrite (proj2 H t'). unfold acc1 in Ea. destruct (G t') as [g0|].
      - destruct (v_arith BiAdd g0 g) as [s| |]; inversion Ea; reflexivity.
      - inversion Ea; reflexivity. }
    assert (Ec : upd G t' o c = G c).
    { unfold upd. destruct (c =? t') eqn:E; [apply Nat.eqb_eq in E; congruence|reflexivity]. }
    destruct (IH (upd G t' o) (setGrad hh t' o) tgs0 G' H1) as (hh' & Ef & H' & Ec'); [|exact Hacc|].
    + eapply Forall2_impl'; [|exact Frest]. intros e1 tg1 (a1 & a2 & a3 & a4 & a5).
      repeat (split; [assumption|]). rewrite <- a5. apply eval_rule_ext.
      * intros i. rewrite (HS_val _ _ _ i H1), (HS_val _ _ _ i H). reflexivity.
      * rewrite a4, (proj2 H1 c), (proj2 H c). exact Ec.
    + exists hh'. split; [cbn [fold_left]; rewrite Estep; exact Ef|]. split; [exact H'|congruence].
Qed.

(* one node holding a gradient: seal (identity), then every edge once *)
Lemma node_run (h0 : heap) G hh log c g tgs G' :
  HS h0 G hh -> c < length h0 -> G c = Some g ->
  Forall2 (edge_ev h0 hh c) (edgesOf h0 c) tgs -> accEdges G tgs = Some G' ->
  exists hh', process_node rd idseal (hh, log, Ok tt) c = (hh', (c, g) :: log, Ok tt) /\ HS h0 G' hh' /\ G' c = Some g.
Proof.
  intros H Hl Hg F Hacc. cbn [process_node].
  assert (Hl' : c < length hh) by (rewrite (HS_len _ _ _ H); exact Hl).
  destruct (nth_error hh c) as [nd|] eqn:En; [|apply nth_error_None in En; lia].
  assert (Eg : ngrad nd = Some g).
  { rewrite <- Hg, <- (proj2 H c). unfold gradOf. rewrite En. reflexivity. }
  assert (Ee : nedges nd = edgesOf h0 c).
  { rewrite (sameS_edges _ _ (proj1 H)). unfold edgesOf. rewrite En. reflexivity. }
  rewrite Eg, Ee.
  assert (H1 : HS h0 G (setGrad hh c (Some g))).
  { apply (HS_ext h0 (upd G c (Some g))); [|apply HS_setGrad; assumption].
    intros i. unfold upd. destruct (i =? c) eqn:E; [apply Nat.eqb_eq in E; congruence|reflexivity]. }
  destruct (edges_run h0 c (edgesOf h0 c) G (setGrad hh c (Some g)) tgs G' H1) as (hh' & Ef & H' & Ec); [|exact Hacc|].
  - eapply Forall2_impl'; [|exact F]. intros e1 tg1 (a1 & a2 & a3 & a4 & a5).
    repeat (split; [assumption|]). rewrite <- a5. apply (HS_eval rd h0 G); assumption.
  - exists hh'. rewrite Ef. split; [reflexivity|]. split; [exact H'|congruence].
Qed.

(* the two shapes that occur in the components *)
Lemma node_run1 (h0 : heap) G hh log c g t r gr o :
  HS h0 G hh -> c < length h0 -> G c = Some g -> edgesOf h0 c = [(t, r)] ->
  trackedOf h0 t = true -> t <> c -> rule_y r = c ->
  eval_rule rd hh r = Ok gr -> acc1 (G t) gr = Some o ->
  exists hh', process_node rd idseal (hh, log, Ok tt) c = (hh', (c, g) :: log, Ok tt) /\ HS h0 (upd G t o) hh'.
Proof.
  intros H Hl Hg He Ht Hn Hy Hev Ha.
  destruct (node_run h0 G hh log c g [(t, gr)] (upd G t o) H Hl Hg) as (hh' & E & H' & _).
  - rewrite He. constructor; [|constructor]. repeat split; assumption.
  - cbn [accEdges]. rewrite Ha. reflexivity.
  - exists hh'. auto.
Qed.

Lemma node_run2 (h0 : heap) G hh log c g t1 r1 t2 r2 g1 o1 g2 o2 :
  HS h0 G hh -> c < length h0 -> G c = Some g -> edgesOf h0 c = [(t1, r1); (t2, r2)] ->
  trackedOf h0 t1 = true -> t1 <> c -> rule_y r1 = c ->
  trackedOf h0 t2 = true -> t2 <> c -> rule_y r2 = c ->
  eval_rule rd hh r1 = Ok g1 -> acc1 (G t1) g1 = Some o1 ->
  eval_rule rd hh r2 = Ok g2 -> acc1 (upd G t1 o1 t2) g2 = Some o2 ->
  exists hh', process_node rd idseal (hh, log, Ok tt) c = (hh', (c, g) :: log, Ok tt) /\
              HS h0 (upd (upd G t1 o1) t2 o2) hh'.
Proof.
  intros H Hl Hg He Ht1 Hn1 Hy1 Ht2 Hn2 Hy2 Hev1 Ha1 Hev2 Ha2.
  destruct (node_run h0 G hh log c g [(t1, g1); (t2, g2)] (upd (upd G t1 o1) t2 o2) H Hl Hg) as (hh' & E & H' & _).
  - rewrite He. constructor; [|constructor; [|constructor]]; repeat split; assumption.
  - cbn [accEdges]. rewrite Ha1, Ha2. reflexivity.
  - exists hh'. auto.
Qed.

End Run.

(* ---------- 1b. exact heaps of the tracked methods on tracked, not-spent operands ---------- *)

(* a tracked internal/result node *)
Definition tnode (v : T) (es : list (nat * rule)) (name : option nat) : node := mkNode v true false None es name.

Definition isNode (h1 : heap) (i : nat) (v : T) (es : list (nat * rule)) : Prop :=
  i < length h1 /\ valOf h1 i = Some v /\ trackedOf h1 i = true /\ edgesOf h1 i = es /\ gradOf h1 i = None.

Lemma isNode_new (h : heap) v es name : isNode (h ++ [tnode v es name]) (length h) v es.
Proof.
  unfold isNode, valOf, trackedOf, edgesOf, gradOf. rewrite nth_error_snoc_new, app_length. cbn. repeat split; lia.
Qed.

Lemma isNode_old (h : heap) n i v es : isNode h i v es -> isNode (h ++ [n]) i v es.
Proof.
  unfold isNode, valOf, trackedOf, edgesOf, gradOf. intros (Hl & H). rewrite app_length.
  rewrite nth_error_app1 by exact Hl. split; [lia|exact H].
Qed.

(* an old operand stays what it was *)
Definition isOld (h h1 : heap) : Prop :=
  length h <= length h1 /\ forall i, i < length h -> nth_error h1 i = nth_error h i.

Lemma isOld_refl (h : heap) : isOld h h.
Proof. split; [lia|auto]. Qed.
Lemma isOld_snoc (h h1 : heap) n : isOld h h1 -> isOld h (h1 ++ [n]).
Proof.
  intros [L H]. split; [rewrite app_length; lia|]. intros i Hi. rewrite nth_error_app1 by lia. apply H. exact Hi.
Qed.
Lemma isOld_val (h h1 : heap) i v : isOld h h1 -> valOf h i = Some v -> valOf h1 i = Some v.
Proof.
  intros [_ H] Hv. assert (i < length h) by (eapply valOf_some_lt; eauto). unfold valOf in *. rewrite H by assumption. exact Hv.
Qed.
Lemma isOld_trk (h h1 : heap) i : isOld h h1 -> i < length h -> trackedOf h1 i = trackedOf h i.
Proof. intros [_ H] Hi. unfold trackedOf. rewrite H by exact Hi. reflexivity. Qed.
Lemma isOld_dirty (h h1 : heap) i : isOld h h1 -> i < length h -> dirtyOf h1 i = dirtyOf h i.
Proof. intros [_ H] Hi. unfold dirtyOf. rewrite H by exact Hi. reflexivity. Qed.
Lemma isOld_grad (h h1 : heap) i : isOld h h1 -> i < length h -> gradOf h1 i = gradOf h i.
Proof. intros [_ H] Hi. unfold gradOf. rewrite H by exact Hi. reflexivity. Qed.

Lemma mkCtx_tracked1 (h : heap) x es : trackedOf h x = true -> dirtyOf h x = false -> mkCtx h [x] es = (true, false, es).
Proof. intros Ht Hd. unfold mkCtx. cbn [existsb]. rewrite Hd, Ht. reflexivity. Qed.

Lemma mkCtx_tracked2 (h : heap) x u es :
  trackedOf h x = true -> dirtyOf h x = false -> dirtyOf h u = false -> mkCtx h [x; u] es = (true, false, es).
Proof. intros Ht Hd Hd2. unfold mkCtx. cbn [existsb]. rewrite Hd, Hd2, Ht. reflexivity. Qed.

Lemma mkCtx_tracked2' (h : heap) x u es :
  trackedOf h u = true -> dirtyOf h x = false -> dirtyOf h u = false -> mkCtx h [x; u] es = (true, false, es).
Proof. intros Ht Hd Hd2. unfold mkCtx. cbn [existsb]. rewrite Hd, Hd2, Ht. rewrite orb_true_r. reflexivity. Qed.

Lemma op1_step (h : heap) x f mk name h' id :
  h_op1 h x f mk name = (h', Ok id) -> trackedOf h x = true -> dirtyOf h x = false ->
  exists xv v, valOf h x = Some xv /\ f xv = Ok v /\ id = length h /\
               h' = h ++ [tnode v [(x, mk (length h))] name].
Proof.
  intros E Ht Hd. apply h_op1_inv in E. destruct E as (xv & v & Hx & Hf & -> & ->). exists xv, v.
  rewrite mkCtx_tracked1 by assumption. auto.
Qed.

Lemma elsel_step (h : heap) b x u name h' id :
  h_elsel h b x u name = (h', Ok id) -> trackedOf h x = true -> dirtyOf h x = false -> dirtyOf h u = false ->
  exists xv uv v, valOf h x = Some xv /\ valOf h u = Some uv /\ v_same b xv uv = Ok v /\ id = length h /\
               h' = h ++ [tnode v [(x, RElSel (length h) x u); (u, RElSel (length h) u x)] name].
Proof.
  intros E Ht Hd Hd2. apply h_elsel_inv in E. destruct E as (xv & uv & v & Hx & Hu & Hf & -> & ->). exists xv, uv, v.
  rewrite mkCtx_tracked2 by assumption. auto.
Qed.

(* Add/Sub/Mul/Div of two tracked tensors of the SAME shape: the two Broadcast nodes carry the
   operand values themselves *)
Lemma arith_step (h : heap) b x u name h' id xv uv :
  h_arith h b x u name = (h', Ok id) -> valOf h x = Some xv -> valOf h u = Some uv ->
  wf xv -> wf uv -> dims xv = dims uv ->
  trackedOf h x = true -> dirtyOf h x = false -> trackedOf h u = true -> dirtyOf h u = false ->
  exists v, v_arith b xv uv = Ok v /\ id = S (S (length h)) /\
    h' = h ++ [tnode xv [(x, RBroadcast (length h) x)] None;
               tnode uv [(u, RBroadcast (S (length h)) u)] None;
               tnode v (arithEdges b (S (S (length h))) (length h) (S (length h))) name].
Proof.
  intros E Hx Hu Wx Wu Ed Tx Dx Tu Du.
  destruct (h_arith_ok_inv h b x u name xv uv h' id Hx Hu E) as (v & Ev & Hv & _).
  exists v. split; [exact Ev|].
  unfold h_arith in E. rewrite Hx, Hu in E. cbv zeta in E.
  rewrite <- Ed, targetBroadcastDims_id in E.
  apply h_binop_inv in E. destruct E as (xv' & uv' & v1 & v2 & v' & Hx' & Hb1 & Hu' & Hb2 & Hf & -> & ->).
  assert (xv' = xv) by congruence. subst xv'.
  rewrite v_broadcast_id in Hb1 by exact Wx. inversion Hb1; subst v1.
  assert (Hul : u < length h) by (eapply valOf_some_lt; eauto).
  rewrite valOf_app in Hu' by exact Hul. assert (uv' = uv) by congruence. subst uv'.
  rewrite Ed, v_broadcast_id in Hb2 by exact Wu. inversion Hb2; subst v2.
  split; [reflexivity|].
  assert (B1 : bnode1 h x xv = tnode xv [(x, RBroadcast (length h) x)] None).
  { unfold bnode1. rewrite mkCtx_tracked1 by assumption. reflexivity. }
  assert (B2 : bnode2 h x u xv uv = tnode uv [(u, RBroadcast (S (length h)) u)] None).
  { unfold bnode2. rewrite mkCtx_tracked1; [reflexivity| |].
    - rewrite trackedOf_app by exact Hul. exact Tu.
    - rewrite dirtyOf_app by exact Hul. exact Du. }
  assert (B3 : rnode h x u xv uv v' (arithEdges b) name =
               tnode v' (arithEdges b (S (S (length h))) (length h) (S (length h))) name).
  { unfold rnode. rewrite B1, B2. rewrite mkCtx_tracked2; [reflexivity| | |].
    - unfold trackedOf. rewrite nth_error_app2 by lia. rewrite Nat.sub_diag. reflexivity.
    - unfold dirtyOf. rewrite nth_error_app2 by lia. rewrite Nat.sub_diag. reflexivity.
    - unfold dirtyOf. rewrite nth_error_app2 by lia. replace (S (length h) - length h) with 1 by lia. reflexivity. }
  rewrite B1, B2, B3 in *.
  (* the value reported by the value projection is the one stored *)
  assert (v' = v).
  { unfold valOf in Hv. rewrite nth_error_app2 in Hv by lia. replace (S (S (length h)) - length h) with 2 in Hv by lia.
    cbn in Hv. congruence. }
  subst v'. reflexivity.
Qed.

(* the Broadcast back edge between equal shapes hands the gradient through *)
Lemma bcDims_same rd (gy : T) : forall ds j, bcDims rd j ds ds gy = Ok gy.
Proof.
  induction ds as [|d ds IH]; intros j; cbn [bcDims]; [reflexivity|].
  rewrite Nat.eqb_refl. cbn [res_bind]. apply IH.
Qed.

Lemma bcastBack_same rd (gy : T) ds : bcastBack rd gy ds ds = Ok gy.
Proof. unfold bcastBack. rewrite Nat.sub_diag. cbn [bcLead res_bind skipn]. apply bcDims_same. Qed.

Lemma rbroadcast_same rd (h : heap) y x yv xv gy :
  valOf h y = Some yv -> valOf h x = Some xv -> gradOf h y = Some gy -> dims yv = dims xv ->
  eval_rule rd h (RBroadcast y x) = Ok gy.
Proof.
  intros Hy Hx Hg Ed. unfold eval_rule, gy_of, val_of. rewrite Hy, Hx, Hg. cbn [of_opt res_bind].
  rewrite Ed. apply bcastBack_same.
Qed.

(* ---------- 1c. the exact heaps of the four components ---------- *)
Notation c0 := (@cst A SA 0 0).
Notation cm1 := (@cst A SA (-1) 0).

Lemma len_snoc (h : heap) n : length (h ++ [n]) = S (length h).
Proof. rewrite app_length. cbn. lia. Qed.

Lemma trk_new (h : heap) v es name : trackedOf (h ++ [tnode v es name]) (length h) = true.
Proof. rewrite trackedOf_new. reflexivity. Qed.
Lemma dirty_new (h : heap) v es name : dirtyOf (h ++ [tnode v es name]) (length h) = false.
Proof. rewrite dirtyOf_new. reflexivity. Qed.
Lemma val_new (h : heap) v es name : valOf (h ++ [tnode v es name]) (length h) = Some v.
Proof. rewrite valOf_new. reflexivity. Qed.

Tactic Notation "hstep" hyp(H) ident(E) :=
  match type of H with
  | context [hbind ?r _] => destruct r as [? [?| |]] eqn:E; cbn [hbind atomically] in H; try discriminate H
  end.

Lemma tanh_structure (h : heap) x name h1 y :
  tanh_forward h [Some x] name = (h1, Ok y) -> trackedOf h x = true -> dirtyOf h x = false ->
  exists xv yv, valOf h x = Some xv /\ v_unary UTanH xv = Ok yv /\ y = length h /\
    length h1 = S (length h) /\ isOld h h1 /\ isNode h1 y yv [(x, RTanh y x)].
Proof.
  intros E Tx Dx. unfold tanh_forward in E. cbn [oneInput] in E. unfold h_math in E.
  apply op1_step in E; [|assumption|assumption]. destruct E as (xv & yv & Hx & Hf & -> & ->).
  exists xv, yv. cbn [mathUnary mathRule] in *.
  split; [exact Hx|]. split; [exact Hf|]. split; [reflexivity|]. split; [apply len_snoc|].
  split; [apply isOld_snoc, isOld_refl|]. apply isNode_new.
Qed.

Lemma relu_structure (h : heap) x name h1 y :
  relu_forward h [Some x] name = (h1, Ok y) -> trackedOf h x = true -> dirtyOf h x = false ->
  exists xv zv yv, let z := length h in
    valOf h x = Some xv /\ v_unary (UScale c0) xv = Ok zv /\ v_same BiElMax zv xv = Ok yv /\
    y = S z /\ length h1 = S (S z) /\ isOld h h1 /\
    isNode h1 z zv [(x, RScale z c0)] /\ isNode h1 y yv [(z, RElSel y z x); (x, RElSel y x z)].
Proof.
  intros E Tx Dx. unfold relu_forward in E. cbn [oneInput] in E.
  assert (Hxl : x < length h) by (apply tracked_lt; exact Tx).
  hstep E E1. unfold h_scale in E1. apply op1_step in E1; [|assumption|assumption].
  destruct E1 as (xv & zv & Hx & Hz & -> & ->).
  destruct (h_elsel _ BiElMax (length h) x name) as [hb [yy| |]] eqn:E2; cbn [atomically] in E; try discriminate E.
  inversion E; subst hb yy. clear E.
  apply elsel_step in E2; [|apply trk_new|apply dirty_new|rewrite dirtyOf_app by exact Hxl; exact Dx].
  destruct E2 as (zv' & xv' & yv & Hz' & Hx' & Hy & -> & ->).
  rewrite val_new in Hz'. inversion Hz'; subst zv'.
  rewrite valOf_app in Hx' by exact Hxl. assert (xv' = xv) by congruence. subst xv'.
  rewrite !len_snoc. exists xv, zv, yv. cbv zeta. repeat (split; [solve [auto]|]).
  split; [apply isOld_snoc, isOld_snoc, isOld_refl|]. split.
  - apply isNode_old, isNode_new.
  - rewrite <- (len_snoc h (tnode zv [(x, RScale (length h) c0)] None)). apply isNode_new.
Qed.

(* observers of an explicit extension  h ++ l  at the new positions *)
Lemma at_app (h l : heap) k : nth_error (h ++ l) (length h + k) = nth_error l k.
Proof. rewrite nth_error_app2 by lia. f_equal. lia. Qed.
Lemma at_app0 (h l : heap) : nth_error (h ++ l) (length h) = nth_error l 0.
Proof. rewrite <- (at_app h l 0). f_equal. lia. Qed.

Lemma isOld_app (h l : heap) : isOld h (h ++ l).
Proof. split; [rewrite app_length; lia|]. intros i Hi. apply nth_error_app1. exact Hi. Qed.

Lemma isNode_at (h l : heap) k v es name :
  nth_error l k = Some (tnode v es name) -> isNode (h ++ l) (length h + k) v es.
Proof.
  intros E. unfold isNode, valOf, trackedOf, edgesOf, gradOf. rewrite at_app, E. cbn.
  split; [|auto]. rewrite app_length. assert (k < length l) by (apply nth_error_Some; congruence). lia.
Qed.
Lemma isNode_at0 (h l : heap) v es name :
  nth_error l 0 = Some (tnode v es name) -> isNode (h ++ l) (length h) v es.
Proof. intros E. rewrite <- (Nat.add_0_r (length h)). eapply isNode_at. exact E. Qed.

Ltac at_obs :=
  first
    [ rewrite valOf_app by assumption
    | rewrite trackedOf_app by assumption
    | rewrite dirtyOf_app by assumption
    | unfold valOf, trackedOf, dirtyOf;
      first [rewrite at_app | rewrite at_app0];
      cbn [nth_error tnode nval ntracked ndirty obind] ];
  try reflexivity; try assumption.

Ltac norm_in E :=
  rewrite <- ?app_assoc, ?app_length in E; cbn [app length] in E;
  rewrite <- ?Nat.add_succ_r in E; rewrite <- ?Nat.add_assoc in E; cbn [Nat.add] in E.

Lemma un_shape (u : unary) (t r : T) : wf t -> v_unary u t = Ok r -> dims r = dims t /\ wf r.
Proof.
  intros W E. destruct (v_unary_spec u t W) as (r' & E' & D & W' & _). rewrite E in E'. inversion E'; subst r'. auto.
Qed.
Lemma same_shape (b : binary) (t u r : T) : wf t -> wf u -> dims t = dims u -> v_same b t u = Ok r ->
  dims r = dims t /\ wf r.
Proof.
  intros Wt Wu D E. destruct (v_same_spec b t u Wt Wu) as [H _]. destruct (H D) as (r' & E' & D' & W' & _).
  rewrite E in E'. inversion E'; subst r'. auto.
Qed.

Lemma sigmoid_structure (h : heap) x name h1 y xv :
  sigmoid_forward h [Some x] name = (h1, Ok y) ->
  valOf h x = Some xv -> wf xv -> trackedOf h x = true -> dirtyOf h x = false ->
  exists onev nxv exv y1v yv, let a := length h in
    v_unary (UPow c0) xv = Ok onev /\ v_unary (UScale cm1) xv = Ok nxv /\ v_unary UExpo nxv = Ok exv /\
    v_arith BiAdd onev exv = Ok y1v /\ v_unary (UPow cm1) y1v = Ok yv /\
    y = a + 6 /\ length h1 = a + 7 /\ isOld h h1 /\
    isNode h1 a onev [(x, RPow a x c0 true)] /\
    isNode h1 (a + 1) nxv [(x, RScale (a + 1) cm1)] /\
    isNode h1 (a + 2) exv [(a + 1, RExp (a + 2))] /\
    isNode h1 (a + 3) onev [(a, RBroadcast (a + 3) a)] /\
    isNode h1 (a + 4) exv [(a + 2, RBroadcast (a + 4) (a + 2))] /\
    isNode h1 (a + 5) y1v [(a + 3, RId (a + 5)); (a + 4, RId (a + 5))] /\
    isNode h1 y yv [(a + 5, RPow y (a + 5) cm1 false)].
Proof.
  intros E Hx Wx Tx Dx. unfold sigmoid_forward in E. cbn [oneInput] in E.
  assert (Hxl : x < length h) by (apply tracked_lt; exact Tx).
  (* one = x.Pow(0) *)
  hstep E E1. unfold h_pow in E1. apply op1_step in E1; [|assumption|assumption].
  destruct E1 as (xv1 & onev & Hx1 & Hone & -> & ->). assert (xv1 = xv) by congruence. subst xv1.
  destruct (un_shape _ _ _ Wx Hone) as [Done Wone].
  (* nx = x.Scale(-1) *)
  hstep E E2. unfold h_scale in E2. apply op1_step in E2; [|at_obs|at_obs].
  destruct E2 as (xv2 & nxv & Hx2 & Hnx & -> & ->).
  assert (xv2 = xv) by (revert Hx2; at_obs; congruence). subst xv2. clear Hx2.
  destruct (un_shape _ _ _ Wx Hnx) as [Dnx Wnx].
  norm_in E.
  (* ex = nx.Exp() *)
  hstep E E3. unfold h_math in E3. apply op1_step in E3; [|at_obs|at_obs].
  destruct E3 as (nxv' & exv & Hnx' & Hex & -> & ->).
  assert (nxv' = nxv) by (revert Hnx'; at_obs; congruence). subst nxv'. clear Hnx'.
  destruct (un_shape _ _ _ Wnx Hex) as [Dex Wex].
  cbn [mathUnary mathRule] in *. norm_in E.
  (* y1 = one.Add(ex) *)
  hstep E E4. apply (arith_step _ BiAdd _ _ None _ _ onev exv) in E4;
    [|at_obs|at_obs|exact Wone|exact Wex|congruence|at_obs|at_obs|at_obs|at_obs].
  destruct E4 as (y1v & Hy1 & -> & ->). norm_in E.
  destruct (v_arith_same_dims BiAdd onev exv Wone Wex ltac:(congruence)) as (y1v' & Ey1' & Dy1 & Wy1 & _).
  assert (y1v' = y1v) by congruence. subst y1v'. clear Ey1'.
  (* y = y1.Pow(-1) *)
  destruct (h_pow _ (length h + 5) cm1 false name) as [hb [yy| |]] eqn:E5; cbn [atomically] in E; try discriminate E.
  inversion E; subst hb yy. clear E.
  unfold h_pow in E5. apply op1_step in E5; [|at_obs|at_obs].
  destruct E5 as (y1v' & yv & Hy1' & Hy & -> & ->).
  assert (y1v' = y1v) by (revert Hy1'; at_obs; congruence). subst y1v'. clear Hy1'.
  rewrite <- ?app_assoc, ?app_length. cbn [app length]. rewrite <- ?Nat.add_succ_r, <- ?Nat.add_assoc. cbn [Nat.add].
  exists onev, nxv, exv, y1v, yv. cbv zeta.
  repeat (split; [solve [assumption|reflexivity]|]).
  split; [apply isOld_app|].
  split; [eapply isNode_at0; reflexivity|].
  repeat (split; [eapply isNode_at; reflexivity|]). eapply isNode_at; reflexivity.
Qed.

Lemma leaky_structure (h : heap) (m : A) x name h1 y xv :
  leaky_forward h m [Some x] name = (h1, Ok y) ->
  valOf h x = Some xv -> wf xv -> trackedOf h x = true -> dirtyOf h x = false ->
  exists zv p1v p2v p3v yv, let a := length h in
    v_unary (UScale c0) xv = Ok zv /\ v_same BiElMax zv xv = Ok p1v /\ v_same BiElMin zv xv = Ok p2v /\
    v_unary (UScale m) p2v = Ok p3v /\ v_arith BiAdd p1v p3v = Ok yv /\
    y = a + 6 /\ length h1 = a + 7 /\ isOld h h1 /\
    isNode h1 a zv [(x, RScale a c0)] /\
    isNode h1 (a + 1) p1v [(a, RElSel (a + 1) a x); (x, RElSel (a + 1) x a)] /\
    isNode h1 (a + 2) p2v [(a, RElSel (a + 2) a x); (x, RElSel (a + 2) x a)] /\
    isNode h1 (a + 3) p3v [(a + 2, RScale (a + 3) m)] /\
    isNode h1 (a + 4) p1v [(a + 1, RBroadcast (a + 4) (a + 1))] /\
    isNode h1 (a + 5) p3v [(a + 3, RBroadcast (a + 5) (a + 3))] /\
    isNode h1 y yv [(a + 4, RId y); (a + 5, RId y)].
Proof.
  intros E Hx Wx Tx Dx. unfold leaky_forward in E. cbn [oneInput] in E.
  assert (Hxl : x < length h) by (apply tracked_lt; exact Tx).
  (* z = x.Scale(0) *)
  hstep E E1. unfold h_scale in E1. apply op1_step in E1; [|assumption|assumption].
  destruct E1 as (xv1 & zv & Hx1 & Hz & -> & ->). assert (xv1 = xv) by congruence. subst xv1.
  destruct (un_shape _ _ _ Wx Hz) as [Dz Wz].
  (* p1 = z.ElMax(x) *)
  hstep E E2. apply elsel_step in E2; [|at_obs|at_obs|at_obs].
  destruct E2 as (zv' & xv' & p1v & Hz' & Hx' & Hp1 & -> & ->).
  assert (zv' = zv) by (revert Hz'; at_obs; congruence). subst zv'. clear Hz'.
  assert (xv' = xv) by (revert Hx'; at_obs; congruence). subst xv'. clear Hx'.
  destruct (same_shape _ _ _ _ Wz Wx Dz Hp1) as [Dp1 Wp1].
  norm_in E.
  (* p2 = z.ElMin(x) *)
  hstep E E3. apply elsel_step in E3; [|at_obs|at_obs|at_obs].
  destruct E3 as (zv' & xv' & p2v & Hz' & Hx' & Hp2 & -> & ->).
  assert (zv' = zv) by (revert Hz'; at_obs; congruence). subst zv'. clear Hz'.
  assert (xv' = xv) by (revert Hx'; at_obs; congruence). subst xv'. clear Hx'.
  destruct (same_shape _ _ _ _ Wz Wx Dz Hp2) as [Dp2 Wp2].
  norm_in E.
  (* p3 = p2.Scale(m) *)
  hstep E E4. unfold h_scale in E4. apply op1_step in E4; [|at_obs|at_obs].
  destruct E4 as (p2v' & p3v & Hp2' & Hp3 & -> & ->).
  assert (p2v' = p2v) by (revert Hp2'; at_obs; congruence). subst p2v'. clear Hp2'.
  destruct (un_shape _ _ _ Wp2 Hp3) as [Dp3 Wp3].
  norm_in E.
  (* y = p1.Add(p3) *)
  destruct (h_arith _ BiAdd (length h + 1) (length h + 3) name) as [hb [yy| |]] eqn:E5;
    cbn [atomically] in E; try discriminate E.
  inversion E; subst hb yy. clear E.
  apply (arith_step _ BiAdd _ _ name _ _ p1v p3v) in E5;
    [|at_obs|at_obs|exact Wp1|exact Wp3|congruence|at_obs|at_obs|at_obs|at_obs].
  destruct E5 as (yv & Hy & -> & ->).
  rewrite <- ?app_assoc, ?app_length. cbn [app length]. rewrite <- ?Nat.add_succ_r, <- ?Nat.add_assoc. cbn [Nat.add].
  exists zv, p1v, p2v, p3v, yv. cbv zeta.
  repeat (split; [solve [assumption|reflexivity]|]).
  split; [apply isOld_app|].
  split; [eapply isNode_at0; reflexivity|].
  repeat (split; [eapply isNode_at; reflexivity|]). eapply isNode_at; reflexivity.
Qed.

End Gen.

(* ===================================================================================== *)
(* 2. the real-number instance                                                             *)
(* ===================================================================================== *)
Local Open Scope R_scope.

(* scalar identities behind the statements *)
Lemma tanh_deriv_identity x : / (cosh x) ^ 2 = 1 - (tanh x) ^ 2.
Proof.
  unfold tanh. pose proof (cosh_pos x) as Hc. pose proof (cosh2_sinh2 x) as E.
  replace (1 - (sinh x / cosh x) ^ 2) with ((cosh x * cosh x - sinh x * sinh x) / (cosh x) ^ 2) by (field; lra).
  rewrite E. field. lra.
Qed.

Definition logistic (x : R) : R := / (1 + exp (- x)).

Lemma logistic_den_pos x : 0 < 1 + exp (- x).
Proof. pose proof (exp_pos (- x)). lra. Qed.

Lemma logistic_range x : 0 < logistic x < 1.
Proof.
  unfold logistic. pose proof (exp_pos (- x)) as He. split.
  - apply Rinv_0_lt_compat. lra.
  - rewrite <- Rinv_1 at 2. apply Rinv_lt_contravar; lra.
Qed.

(* the chain  (-1 * y1^(-2)) * e^(-x) * (-1)  is  s (1 - s) *)
Lemma sigmoid_deriv_identity x :
  (-1 * / (1 + exp (- x)) ^ 2) * exp (- x) * -1 = logistic x * (1 - logistic x).
Proof. unfold logistic. pose proof (exp_pos (- x)). field. lra. Qed.

Section R.
Variables (thr : R) (draw : bool -> nat -> R).
Local Hint Extern 0 (Scalar R) => exact (R_scalar thr draw) : typeclass_instances.
Notation T := (tensor R).
Notation heap := (@heap R).
Notation idseal := (fun (_ : option nat) (g : T) => g).
Notation eqtR := (eqt thr).

(* the gradient already accumulated on the input by other consumers *)
Definition prior (o : option T) : assignment := fun idx => match o with Some g => elt g idx | None => 0 end.
Definition prior_ok (ds : list nat) (o : option T) : Prop :=
  match o with Some g => wf g /\ dims g = ds | None => True end.

Lemma acc1_R ds (o : option T) (g : T) : prior_ok ds o -> wf g -> dims g = ds ->
  exists s, acc1 o g = Some (Some s) /\ wf s /\ dims s = ds /\
    forall idx, validIdx ds idx -> elt s idx = prior o idx + elt g idx.
Proof.
  intros Hp Wg Dg. destruct o as [g0|]; cbn [acc1 prior].
  - destruct Hp as [W0 D0].
    destruct (ar_elt thr draw BiAdd g0 g W0 Wg ltac:(congruence)) as (s & Es & Ds & Ws & Gs).
    exists s. rewrite Es. split; [reflexivity|]. split; [exact Ws|]. split; [congruence|].
    intros idx Hv. rewrite Gs by (rewrite D0; exact Hv). reflexivity.
  - exists g. split; [reflexivity|]. split; [exact Wg|]. split; [exact Dg|]. intros idx _. ring.
Qed.

(* [lia] on the arithmetic hypotheses only (boolean facts about the heap slow it down) *)
Ltac nlia :=
  repeat match goal with
         | H : ?P |- _ =>
             lazymatch type of P with Prop => idtac end;
             lazymatch P with
             | @eq nat _ _ => fail | lt _ _ => fail | le _ _ => fail | not (@eq nat _ _) => fail
             | or _ _ => fail | and _ _ => fail | _ => idtac
             end; clear H
         end; lia.
Ltac upd_eq :=
  unfold upd;
  repeat match goal with
         | |- context [Nat.eqb ?a ?b] =>
             first [ rewrite (proj2 (Nat.eqb_eq a b)) by nlia | rewrite (proj2 (Nat.eqb_neq a b)) by nlia ]
         end.
Ltac upd_eq_in H :=
  unfold upd in H;
  repeat match type of H with
         | context [Nat.eqb ?a ?b] =>
             first [ rewrite (proj2 (Nat.eqb_eq a b)) in H by nlia | rewrite (proj2 (Nat.eqb_neq a b)) in H by nlia ]
         end.

(* ------------------------------------------------------------------------------------- *)
(* Tanh:  y = x.Tanh()                                                                   *)
(* ------------------------------------------------------------------------------------- *)
Theorem tanh_grad rd (h h1 hh : heap) x y name xv gy log :
  valOf h x = Some xv -> wf xv -> trackedOf h x = true -> dirtyOf h x = false ->
  tanh_forward h [Some x] name = (h1, Ok y) ->
  sameS h1 hh -> gradOf hh y = Some gy -> wf gy -> dims gy = dims xv ->
  prior_ok (dims xv) (gradOf hh x) ->
  exists hh' gx,
    fold_left (process_node rd idseal) [y] (hh, log, Ok tt) = (hh', (y, gy) :: log, Ok tt) /\
    sameS hh hh' /\ (forall n, n <> x -> gradOf hh' n = gradOf hh n) /\
    gradOf hh' x = Some gx /\ dims gx = dims xv /\ wf gx /\
    forall idx, validIdx (dims xv) idx ->
      elt gx idx = prior (gradOf hh x) idx + elt gy idx * (1 - (tanh (elt xv idx)) ^ 2).
Proof.
  intros Hx Wx Tx Dx E S Hgy Wgy Dgy Hp.
  destruct (tanh_structure h x name h1 y E Tx Dx) as (xv' & yv & Hx' & Hyv & Ey & L1 & Old & Ny).
  assert (xv' = xv) by congruence. subst xv'.
  destruct Ny as (Ly & Vy & Ty & Ey' & Gy0).
  pose proof (HS_init h1 hh S) as H0.
  assert (Hxl : (x < length h)%nat) by (apply tracked_lt; exact Tx).
  assert (Vx1 : valOf h1 x = Some xv) by (eapply isOld_val; eauto).
  assert (Tx1 : trackedOf h1 x = true) by (rewrite (isOld_trk h h1 x Old Hxl); exact Tx).
  destruct (rtanh_eval thr draw rd hh y x xv gy) as (g & Eg & Dg & Wg & Gg);
    [rewrite (HS_val _ _ _ x H0); exact Vx1|exact Hgy|exact Wx|exact Wgy|exact Dgy|].
  destruct (acc1_R (dims xv) (gradOf hh x) g Hp Wg Dg) as (s & Es & Ws & Ds & Gs).
  destruct (node_run1 rd h1 (gradOf hh) hh log y gy x (RTanh y x) g (Some s) H0 Ly Hgy Ey' Tx1 ltac:(nlia) eq_refl Eg Es)
    as (hh' & Ep & H').
  exists hh', s. split; [cbn [fold_left]; exact Ep|].
  split; [eapply sameS_trans; [apply sameS_sym; exact S|exact (proj1 H')]|].
  split; [intros n Hn; rewrite (proj2 H' n); upd_eq; reflexivity|].
  split; [rewrite (proj2 H' x); upd_eq; reflexivity|].
  split; [exact Ds|]. split; [exact Ws|].
  intros idx Hv. rewrite (Gs idx Hv), (Gg idx Hv), tanh_deriv_identity. reflexivity.
Qed.

(* ------------------------------------------------------------------------------------- *)
(* Relu:  z0 = x.Scale(0);  y = z0.ElMax(x)                                               *)
(* two paths into x: (x, RElSel y x z0) and, through z0, (x, RScale z0 0) which adds 0     *)
(* ------------------------------------------------------------------------------------- *)

(* the factor of the ElSel rule on the path into x, at EVERY input value (threshold equality [eqt]):
   [y_i = x_i] - 1/2 [x_i = 0 * x_i] *)
Definition reluD (v : R) : R := eqtR (Rmax 0 v) v - / 2 * eqtR v 0.

Lemma Rabs_minus_0 v : Rabs (v - 0) = Rabs v.
Proof. f_equal. ring. Qed.

Lemma reluD_pos v : 0 <= thr -> thr < v -> reluD v = 1.
Proof.
  intros Ht Hv. unfold reluD. rewrite Rmax_right by lra. rewrite (eqt_same thr v Ht).
  rewrite eqt_far; [ring|]. rewrite Rabs_minus_0, Rabs_pos_eq; lra.
Qed.

Lemma reluD_neg v : 0 <= thr -> v < - thr -> reluD v = 0.
Proof.
  intros Ht Hv. unfold reluD. rewrite Rmax_left by lra.
  rewrite (eqt_far thr 0 v); [|replace (0 - v) with (- v) by ring; rewrite Rabs_pos_eq; lra].
  rewrite (eqt_far thr v 0); [ring|]. rewrite Rabs_minus_0, Rabs_left; lra.
Qed.

Lemma reluD_zero : 0 <= thr -> reluD 0 = / 2.
Proof.
  intros Ht. unfold reluD. rewrite Rmax_left by lra. rewrite (eqt_same thr 0 Ht). field.
Qed.


(* the recorded near-tie finding D10: within the threshold (0 < |x_i| <= thr) the rule hands over
   gy/2 although Relu is differentiable there with derivative 1 or 0; excluded by the guards above *)
Lemma reluD_near v : 0 <= thr -> Rabs v <= thr -> reluD v = / 2.
Proof.
  intros Ht Hv. unfold reluD.
  assert (E2 : eqtR v 0 = 1) by (apply eqt_near; rewrite Rabs_minus_0; exact Hv).
  assert (E1 : eqtR (Rmax 0 v) v = 1).
  { unfold Rmax. destruct (Rle_dec 0 v) as [L|N]; [apply eqt_same; exact Ht|].
    apply eqt_near. replace (0 - v) with (- v) by ring. rewrite Rabs_Ropp. exact Hv. }
  rewrite E1, E2. field.
Qed.

Theorem relu_grad rd (h h1 hh : heap) x y name xv gy log :
  0 <= thr ->
  valOf h x = Some xv -> wf xv -> trackedOf h x = true -> dirtyOf h x = false ->
  relu_forward h [Some x] name = (h1, Ok y) ->
  let z0 := length h in
  sameS h1 hh -> gradOf hh y = Some gy -> wf gy -> dims gy = dims xv ->
  gradOf hh z0 = None ->
  prior_ok (dims xv) (gradOf hh x) ->
  exists hh' gx gz,
    fold_left (process_node rd idseal) [y; z0] (hh, log, Ok tt) = (hh', (z0, gz) :: (y, gy) :: log, Ok tt) /\
    sameS hh hh' /\ (forall n, n <> x -> n <> z0 -> gradOf hh' n = gradOf hh n) /\
    gradOf hh' x = Some gx /\ dims gx = dims xv /\ wf gx /\
    forall idx, validIdx (dims xv) idx ->
      let p := prior (gradOf hh x) idx in
      elt gx idx = p + elt gy idx * reluD (elt xv idx) /\
      (thr < elt xv idx -> elt gx idx = p + elt gy idx * 1) /\
      (elt xv idx < - thr -> elt gx idx = p + elt gy idx * 0) /\
      (elt xv idx = 0 -> elt gx idx = p + elt gy idx * / 2).
Proof.
  intros Hthr Hx Wx Tx Dx E z0 S Hgy Wgy Dgy Hgz Hp.
  pose proof (relu_structure h x name h1 y E Tx Dx) as St. cbv zeta in St. fold z0 in St.
  destruct St as (xv' & zv & yv & Hx' & Hzv & Hyv & Ey & L1 & Old & Nz & Ny).
  assert (xv' = xv) by congruence. subst xv'.
  destruct Nz as (Lz & Vz & Tz & Ez & _). destruct Ny as (Ly & Vy & Ty & Ey' & _).
  pose proof (HS_init h1 hh S) as H0.
  assert (Hxl : (x < z0)%nat) by (apply tracked_lt; exact Tx).
  assert (Vx1 : valOf h1 x = Some xv) by (eapply isOld_val; eauto).
  assert (Tx1 : trackedOf h1 x = true) by (rewrite (isOld_trk h h1 x Old Hxl); exact Tx).
  (* forward values *)
  destruct (un_elt thr draw (UScale (cst 0 0)) xv Wx) as (zv' & Ezv & Dz & Wz & Gz).
  rewrite Hzv in Ezv. inversion Ezv; subst zv'. clear Ezv.
  destruct (same_elt thr draw BiElMax zv xv Wz Wx Dz) as (yv' & Eyv & Dy & Wy & Gyv).
  rewrite Hyv in Eyv. inversion Eyv; subst yv'. clear Eyv.
  assert (Zz : forall idx, validIdx (dims xv) idx -> elt zv idx = 0).
  { intros idx Hv. rewrite (Gz idx Hv), uF_scale, cst_R, dec2R_0. ring. }
  assert (Yy : forall idx, validIdx (dims xv) idx -> elt yv idx = Rmax 0 (elt xv idx)).
  { intros idx Hv. rewrite Gyv by (rewrite Dz; exact Hv). rewrite bF_max, (Zz idx Hv). reflexivity. }
  assert (Vxh : valOf hh x = Some xv) by (rewrite (HS_val _ _ _ x H0); exact Vx1).
  assert (Vzh : valOf hh z0 = Some zv) by (rewrite (HS_val _ _ _ z0 H0); exact Vz).
  assert (Vyh : valOf hh y = Some yv) by (rewrite (HS_val _ _ _ y H0); exact Vy).
  (* node y: the two ElSel edges *)
  destruct (relsel_eval thr draw rd hh y z0 x yv zv xv gy Vyh Vzh Vxh Hgy Wy Wz Wx Wgy)
    as (g1 & Eg1 & Dg1 & Wg1 & Gg1); [congruence|congruence|congruence|].
  destruct (relsel_eval thr draw rd hh y x z0 yv xv zv gy Vyh Vxh Vzh Hgy Wy Wx Wz Wgy)
    as (g2 & Eg2 & Dg2 & Wg2 & Gg2); [congruence|congruence|congruence|].
  destruct (acc1_R (dims xv) (gradOf hh x) g2 Hp Wg2 Dg2) as (s2 & Es2 & Ws2 & Ds2 & Gs2).
  destruct (node_run2 rd h1 (gradOf hh) hh log y gy z0 (RElSel y z0 x) x (RElSel y x z0) g1 (Some g1) g2 (Some s2)
              H0 Ly Hgy Ey' Tz ltac:(nlia) eq_refl Tx1 ltac:(nlia) eq_refl Eg1) as (hhA & EpA & HA);
    [rewrite Hgz; reflexivity|exact Eg2|upd_eq; exact Es2|].
  set (GA := upd (upd (gradOf hh) z0 (Some g1)) x (Some s2)) in *.
  (* node z0: Scale(0) *)
  assert (GAz : GA z0 = Some g1) by (unfold GA; upd_eq; reflexivity).
  assert (GAx : GA x = Some s2) by (unfold GA; upd_eq; reflexivity).
  destruct (rscale_eval thr draw rd hhA z0 (cst 0 0) g1) as (g3 & Eg3 & Dg3 & Wg3 & Gg3);
    [rewrite (proj2 HA z0); exact GAz|exact Wg1|].
  destruct (acc1_R (dims xv) (GA x) g3) as (s3 & Es3 & Ws3 & Ds3 & Gs3);
    [rewrite GAx; split; assumption|exact Wg3|congruence|].
  destruct (node_run1 rd h1 GA hhA ((y, gy) :: log) z0 g1 x (RScale z0 (cst 0 0)) g3 (Some s3)
              HA Lz GAz Ez Tx1 ltac:(nlia) eq_refl Eg3 Es3) as (hhB & EpB & HB).
  exists hhB, s3, g1. split; [cbn [fold_left]; rewrite EpA; exact EpB|].
  split; [eapply sameS_trans; [apply sameS_sym; exact S|exact (proj1 HB)]|].
  split; [intros n Hn1 Hn2; rewrite (proj2 HB n); unfold GA; upd_eq; reflexivity|].
  split; [rewrite (proj2 HB x); upd_eq; reflexivity|].
  split; [exact Ds3|]. split; [exact Ws3|].
  intros idx Hv. cbv zeta.
  assert (F : elt s3 idx = prior (gradOf hh x) idx + elt gy idx * reluD (elt xv idx)).
  { rewrite (Gs3 idx Hv), GAx. cbn [prior]. rewrite (Gs2 idx Hv).
    rewrite Gg3 by (rewrite Dg1, Dz; exact Hv). rewrite (Gg2 idx Hv).
    rewrite (Yy idx Hv), (Zz idx Hv), cst_R, dec2R_0. unfold reluD. ring. }
  split; [exact F|]. rewrite F. split; [|split].
  - intros Hc. rewrite (reluD_pos _ Hthr Hc). reflexivity.
  - intros Hc. rewrite (reluD_neg _ Hthr Hc). reflexivity.
  - intros Hc. rewrite Hc, (reluD_zero Hthr). reflexivity.
Qed.

(* ------------------------------------------------------------------------------------- *)
(* Sigmoid:  one = x.Pow(0); nx = x.Scale(-1); ex = nx.Exp(); y1 = one.Add(ex) (two Broadcast    *)
(* nodes b1, b2 of factor 1); y = y1.Pow(-1).   Ids: one = a, nx = a+1, ex = a+2, b1 = a+3,       *)
(* b2 = a+4, y1 = a+5, y = a+6.  Two paths into x: through nx (Scale(-1)) and through one         *)
(* (Pow(0): contributes exactly 0).  No guard on x: 1 + e^(-x) > 0 at every real x.               *)
(* ------------------------------------------------------------------------------------- *)
Lemma Rpow_m1m1 v : Rpow v (-1 - 1) = / v ^ 2.
Proof. replace (-1 - 1) with (-2) by lra. apply Rpow_m2. Qed.

Theorem sigmoid_grad rd (h h1 hh : heap) x y name xv gy log :
  valOf h x = Some xv -> wf xv -> trackedOf h x = true -> dirtyOf h x = false ->
  sigmoid_forward h [Some x] name = (h1, Ok y) ->
  let a := length h in
  sameS h1 hh -> gradOf hh y = Some gy -> wf gy -> dims gy = dims xv ->
  (forall k, (k < 6)%nat -> gradOf hh (a + k)%nat = None) ->
  prior_ok (dims xv) (gradOf hh x) ->
  exists hh' gx lg,
    fold_left (process_node rd idseal) [y; a + 5; a + 4; a + 2; a + 1; a + 3; a]%nat (hh, log, Ok tt)
      = (hh', lg ++ log, Ok tt) /\
    map fst lg = [a; a + 3; a + 1; a + 2; a + 4; a + 5; y]%nat /\
    sameS hh hh' /\
    (forall n, n <> x -> (n < a \/ a + 6 <= n)%nat -> gradOf hh' n = gradOf hh n) /\
    gradOf hh' x = Some gx /\ dims gx = dims xv /\ wf gx /\
    forall idx, validIdx (dims xv) idx ->
      elt gx idx = prior (gradOf hh x) idx
                   + elt gy idx * (logistic (elt xv idx) * (1 - logistic (elt xv idx))).
Proof.
  intros Hx Wx Tx Dx E a S Hgy Wgy Dgy Hint Hp.
  pose proof (sigmoid_structure h x name h1 y xv E Hx Wx Tx Dx) as St. cbv zeta in St. fold a in St.
  destruct St as (onev & nxv & exv & y1v & yv & Hone & Hnx & Hex & Hy1 & Hyv & Ey & L1 & Old & N0 & N1 & N2 & N3 & N4 & N5 & N6).
  subst y.
  destruct N0 as (L0 & V0 & T0 & E0 & _). destruct N1 as (_ & V1 & T1 & E1 & _). destruct N2 as (_ & V2 & T2 & E2 & _).
  destruct N3 as (_ & V3 & T3 & E3 & _). destruct N4 as (_ & V4 & T4 & E4 & _). destruct N5 as (_ & V5 & T5 & E5 & _).
  destruct N6 as (_ & V6 & T6 & E6 & _).
  assert (I0 : gradOf hh a = None) by (rewrite <- (Nat.add_0_r a); apply Hint; nlia).
  pose proof (Hint 1%nat ltac:(nlia)) as I1. pose proof (Hint 2%nat ltac:(nlia)) as I2.
  pose proof (Hint 3%nat ltac:(nlia)) as I3. pose proof (Hint 4%nat ltac:(nlia)) as I4.
  pose proof (Hint 5%nat ltac:(nlia)) as I5.
  pose proof (HS_init h1 hh S) as H0.
  assert (Hxl : (x < a)%nat) by (apply tracked_lt; exact Tx).
  assert (Vx1 : valOf h1 x = Some xv) by (eapply isOld_val; eauto).
  assert (Tx1 : trackedOf h1 x = true) by (rewrite (isOld_trk h h1 x Old Hxl); exact Tx).
  (* forward values *)
  destruct (un_elt thr draw (UPow (cst 0 0)) xv Wx) as (t0 & Et0 & Done & Wone & Fone).
  rewrite Hone in Et0. inversion Et0; subst t0. clear Et0.
  destruct (un_elt thr draw (UScale (cst (-1) 0)) xv Wx) as (t0 & Et0 & Dnx & Wnx & Fnx).
  rewrite Hnx in Et0. inversion Et0; subst t0. clear Et0.
  destruct (un_elt thr draw UExpo nxv Wnx) as (t0 & Et0 & Dex & Wex & Fex).
  rewrite Hex in Et0. inversion Et0; subst t0. clear Et0.
  destruct (ar_elt thr draw BiAdd onev exv Wone Wex ltac:(congruence)) as (t0 & Et0 & Dy1 & Wy1 & Fy1).
  rewrite Hy1 in Et0. inversion Et0; subst t0. clear Et0.
  assert (Y1 : forall idx, validIdx (dims xv) idx -> elt y1v idx = 1 + exp (- elt xv idx)).
  { intros idx Hv. rewrite Fy1 by (rewrite Done; exact Hv). rewrite bF_add, (Fone idx Hv).
    rewrite Fex by (rewrite Dnx; exact Hv). rewrite (Fnx idx Hv).
    rewrite uF_pow, uF_exp, uF_scale, !cst_R, dec2R_0, dec2R_m1, Rpow_0. f_equal. f_equal. ring. }
  assert (EX : forall idx, validIdx (dims xv) idx -> elt exv idx = exp (- elt xv idx)).
  { intros idx Hv. rewrite Fex by (rewrite Dnx; exact Hv). rewrite (Fnx idx Hv).
    rewrite uF_exp, uF_scale, cst_R, dec2R_m1. f_equal. ring. }
  (* 1. y = y1.Pow(-1) *)
  destruct (rpow_eval thr draw rd hh (a + 6) (a + 5) (cst (-1) 0) y1v gy) as (g5 & Eg5 & Dg5 & Wg5 & Gg5);
    [rewrite (HS_val _ _ _ _ H0); exact V5|exact Hgy|exact Wy1|exact Wgy|congruence|].
  destruct (node_run1 rd h1 _ hh log (a + 6) gy (a + 5) (RPow (a + 6) (a + 5) (cst (-1) 0) false) g5 (Some g5) H0)%nat as (hhA & EpA & HA);
    [nlia|exact Hgy|exact E6|exact T5|nlia|reflexivity|exact Eg5|rewrite I5; reflexivity|].
  (* 2. y1 = b1 + b2 *)
  assert (GA5 : gradOf hhA (a + 5) = Some g5) by (rewrite (proj2 HA); upd_eq; reflexivity).
  destruct (node_run2 rd h1 _ hhA ((a + 6, gy)%nat :: log) (a + 5) g5 (a + 3) (RId (a + 5)) (a + 4) (RId (a + 5)) g5 (Some g5) g5 (Some g5) HA)%nat
    as (hhB & EpB & HB);
    [nlia|upd_eq; reflexivity|exact E5|exact T3|nlia|reflexivity|exact T4|nlia|reflexivity
    |apply rid_eval; exact GA5|upd_eq; rewrite I3; reflexivity
    |apply rid_eval; exact GA5|upd_eq; rewrite I4; reflexivity|].
  (* 3. b2 = Broadcast(ex) *)
  destruct (node_run1 rd h1 _ hhB ((a + 5, g5) :: (a + 6, gy) :: log)%nat (a + 4) g5 (a + 2) (RBroadcast (a + 4) (a + 2)) g5 (Some g5) HB)%nat
    as (hhC & EpC & HC);
    [nlia|upd_eq; reflexivity|exact E4|exact T2|nlia|reflexivity| |upd_eq; rewrite I2; reflexivity|].
  { apply (rbroadcast_same rd hhB (a + 4) (a + 2) exv exv g5)%nat;
      [rewrite (HS_val _ _ _ _ HB); exact V4|rewrite (HS_val _ _ _ _ HB); exact V2
      |rewrite (proj2 HB); upd_eq; reflexivity|reflexivity]. }
  (* 4. ex = nx.Exp() *)
  destruct (rexp_eval thr draw rd hhC (a + 2) exv g5)%nat as (g1 & Eg1 & Dg1 & Wg1 & Gg1);
    [rewrite (HS_val _ _ _ _ HC); exact V2|rewrite (proj2 HC); upd_eq; reflexivity|exact Wex|exact Wg5|congruence|].
  destruct (node_run1 rd h1 _ hhC ((a + 4, g5) :: (a + 5, g5) :: (a + 6, gy) :: log)%nat (a + 2) g5 (a + 1) (RExp (a + 2)) g1 (Some g1) HC)%nat
    as (hhD & EpD & HD);
    [nlia|upd_eq; reflexivity|exact E2|exact T1|nlia|reflexivity|exact Eg1|upd_eq; rewrite I1; reflexivity|].
  (* 5. nx = x.Scale(-1): first contribution to x *)
  destruct (rscale_eval thr draw rd hhD (a + 1) (cst (-1) 0) g1)%nat as (gA & EgA & DgA & WgA & GgA);
    [rewrite (proj2 HD); upd_eq; reflexivity|exact Wg1|].
  destruct (acc1_R (dims xv) (gradOf hh x) gA Hp WgA ltac:(congruence)) as (sA & EsA & WsA & DsA & GsA).
  destruct (node_run1 rd h1 _ hhD ((a + 2, g5) :: (a + 4, g5) :: (a + 5, g5) :: (a + 6, gy) :: log)%nat
              (a + 1) g1 x (RScale (a + 1) (cst (-1) 0)) gA (Some sA) HD)%nat as (hhE & EpE & HE);
    [nlia|upd_eq; reflexivity|exact E1|exact Tx1|nlia|reflexivity|exact EgA|upd_eq; exact EsA|].
  (* 6. b1 = Broadcast(one) *)
  destruct (node_run1 rd h1 _ hhE ((a + 1, g1) :: (a + 2, g5) :: (a + 4, g5) :: (a + 5, g5) :: (a + 6, gy) :: log)%nat
              (a + 3) g5 a (RBroadcast (a + 3) a) g5 (Some g5) HE)%nat as (hhF & EpF & HF);
    [nlia|upd_eq; reflexivity|exact E3|exact T0|nlia|reflexivity| |upd_eq; rewrite I0; reflexivity|].
  { apply (rbroadcast_same rd hhE (a + 3) a onev onev g5)%nat;
      [rewrite (HS_val _ _ _ _ HE); exact V3|rewrite (HS_val _ _ _ _ HE); exact V0
      |rewrite (proj2 HE); upd_eq; reflexivity|reflexivity]. }
  (* 7. one = x.Pow(0): contributes exactly 0 *)
  destruct (rpow_eval_zero thr draw rd hhF a x (cst 0 0) xv g5) as (gB & EgB & DgB & WgB & GgB);
    [rewrite (HS_val _ _ _ _ HF); exact Vx1|rewrite (proj2 HF); upd_eq; reflexivity|exact Wg5|congruence|].
  destruct (acc1_R (dims xv) (Some sA) gB (conj WsA DsA) WgB DgB) as (sB & EsB & WsB & DsB & GsB).
  destruct (node_run1 rd h1 _ hhF
              ((a + 3, g5) :: (a + 1, g1) :: (a + 2, g5) :: (a + 4, g5) :: (a + 5, g5) :: (a + 6, gy) :: log)%nat
              a g5 x (RPow a x (cst 0 0) true) gB (Some sB) HF)%nat as (hhG & EpG & HG);
    [nlia|upd_eq; reflexivity|exact E0|exact Tx1|nlia|reflexivity|exact EgB|upd_eq; exact EsB|].
  exists hhG, sB, [(a, g5); (a + 3, g5); (a + 1, g1); (a + 2, g5); (a + 4, g5); (a + 5, g5); (a + 6, gy)]%nat.
  split; [cbn [fold_left]; rewrite EpA, EpB, EpC, EpD, EpE, EpF; exact EpG|].
  split; [reflexivity|].
  split; [eapply sameS_trans; [apply sameS_sym; exact S|exact (proj1 HG)]|].
  split; [intros n Hn1 Hn2; rewrite (proj2 HG n); upd_eq; reflexivity|].
  split; [rewrite (proj2 HG x); upd_eq; reflexivity|].
  split; [exact DsB|]. split; [exact WsB|].
  intros idx Hv.
  rewrite (GsB idx Hv). cbn [prior]. rewrite (GgB idx Hv), (GsA idx Hv).
  rewrite GgA by (rewrite Dg1, Dex, Dnx; exact Hv).
  rewrite Gg1 by (rewrite Dex, Dnx; exact Hv).
  rewrite Gg5 by (rewrite Dy1, Done; exact Hv).
  rewrite (Y1 idx Hv), (EX idx Hv), cst_R, dec2R_m1, Rpow_m1m1.
  rewrite <- sigmoid_deriv_identity. ring.
Qed.

(* ------------------------------------------------------------------------------------- *)
(* LeakyRelu(m):  z0 = x.Scale(0); s1 = z0.ElMax(x); s2 = z0.ElMin(x); s3 = s2.Scale(m);          *)
(* y = s1.Add(s3) (Broadcast nodes b1, b2 of factor 1).  Ids: z0 = a, s1 = a+1, s2 = a+2,          *)
(* s3 = a+3, b1 = a+4, b2 = a+5, y = a+6.  Three paths into x: ElSel of s1, ElSel of s2, Scale(0). *)
(* ------------------------------------------------------------------------------------- *)
Definition minD (v : R) : R := eqtR (Rmin 0 v) v - / 2 * eqtR v 0.
Definition leakyD (m v : R) : R := reluD v + m * minD v.

Lemma minD_pos v : 0 <= thr -> thr < v -> minD v = 0.
Proof.
  intros Ht Hv. unfold minD. rewrite Rmin_left by lra.
  rewrite (eqt_far thr 0 v); [|replace (0 - v) with (- v) by ring; rewrite Rabs_Ropp, Rabs_pos_eq; lra].
  rewrite (eqt_far thr v 0); [ring|]. rewrite Rabs_minus_0, Rabs_pos_eq; lra.
Qed.
Lemma minD_neg v : 0 <= thr -> v < - thr -> minD v = 1.
Proof.
  intros Ht Hv. unfold minD. rewrite Rmin_right by lra. rewrite (eqt_same thr v Ht).
  rewrite (eqt_far thr v 0); [ring|]. rewrite Rabs_minus_0, Rabs_left; lra.
Qed.
Lemma minD_zero : 0 <= thr -> minD 0 = / 2.
Proof. intros Ht. unfold minD. rewrite Rmin_left by lra. rewrite (eqt_same thr 0 Ht). field. Qed.

Theorem leaky_grad rd (h h1 hh : heap) (m : R) x y name xv gy log :
  0 <= thr ->
  valOf h x = Some xv -> wf xv -> trackedOf h x = true -> dirtyOf h x = false ->
  leaky_forward h m [Some x] name = (h1, Ok y) ->
  let a := length h in
  sameS h1 hh -> gradOf hh y = Some gy -> wf gy -> dims gy = dims xv ->
  (forall k, (k < 6)%nat -> gradOf hh (a + k)%nat = None) ->
  prior_ok (dims xv) (gradOf hh x) ->
  exists hh' gx lg,
    fold_left (process_node rd idseal) [y; a + 5; a + 3; a + 2; a + 4; a + 1; a]%nat (hh, log, Ok tt)
      = (hh', lg ++ log, Ok tt) /\
    map fst lg = [a; a + 1; a + 4; a + 2; a + 3; a + 5; y]%nat /\
    sameS hh hh' /\
    (forall n, n <> x -> (n < a \/ a + 6 <= n)%nat -> gradOf hh' n = gradOf hh n) /\
    gradOf hh' x = Some gx /\ dims gx = dims xv /\ wf gx /\
    forall idx, validIdx (dims xv) idx ->
      let p := prior (gradOf hh x) idx in
      elt gx idx = p + elt gy idx * leakyD m (elt xv idx) /\
      (thr < elt xv idx -> elt gx idx = p + elt gy idx * 1) /\
      (elt xv idx < - thr -> elt gx idx = p + elt gy idx * m) /\
      (elt xv idx = 0 -> elt gx idx = p + elt gy idx * ((1 + m) / 2)).
Proof.
  intros Hthr Hx Wx Tx Dx E a S Hgy Wgy Dgy Hint Hp.
  pose proof (leaky_structure h m x name h1 y xv E Hx Wx Tx Dx) as St. cbv zeta in St. fold a in St.
  destruct St as (zv & p1v & p2v & p3v & yv & Hzv & Hp1 & Hp2 & Hp3 & Hyv & Ey & L1 & Old & N0 & N1 & N2 & N3 & N4 & N5 & N6).
  subst y.
  destruct N0 as (L0 & V0 & T0 & E0 & _). destruct N1 as (_ & V1 & T1 & E1 & _). destruct N2 as (_ & V2 & T2 & E2 & _).
  destruct N3 as (_ & V3 & T3 & E3 & _). destruct N4 as (_ & V4 & T4 & E4 & _). destruct N5 as (_ & V5 & T5 & E5 & _).
  destruct N6 as (_ & V6 & T6 & E6 & _).
  assert (I0 : gradOf hh a = None) by (rewrite <- (Nat.add_0_r a); apply Hint; nlia).
  pose proof (Hint 1%nat ltac:(nlia)) as I1. pose proof (Hint 2%nat ltac:(nlia)) as I2.
  pose proof (Hint 3%nat ltac:(nlia)) as I3. pose proof (Hint 4%nat ltac:(nlia)) as I4.
  pose proof (Hint 5%nat ltac:(nlia)) as I5.
  pose proof (HS_init h1 hh S) as H0.
  assert (Hxl : (x < a)%nat) by (apply tracked_lt; exact Tx).
  assert (Vx1 : valOf h1 x = Some xv) by (eapply isOld_val; eauto).
  assert (Tx1 : trackedOf h1 x = true) by (rewrite (isOld_trk h h1 x Old Hxl); exact Tx).
  (* forward values *)
  destruct (un_elt thr draw (UScale (cst 0 0)) xv Wx) as (t0 & Et0 & Dz & Wz & Fz).
  rewrite Hzv in Et0. inversion Et0; subst t0. clear Et0.
  destruct (same_elt thr draw BiElMax zv xv Wz Wx Dz) as (t0 & Et0 & Dp1 & Wp1 & Fp1).
  rewrite Hp1 in Et0. inversion Et0; subst t0. clear Et0.
  destruct (same_elt thr draw BiElMin zv xv Wz Wx Dz) as (t0 & Et0 & Dp2 & Wp2 & Fp2).
  rewrite Hp2 in Et0. inversion Et0; subst t0. clear Et0.
  destruct (un_elt thr draw (UScale m) p2v Wp2) as (t0 & Et0 & Dp3 & Wp3 & Fp3).
  rewrite Hp3 in Et0. inversion Et0; subst t0. clear Et0.
  assert (Zz : forall idx, validIdx (dims xv) idx -> elt zv idx = 0).
  { intros idx Hv. rewrite (Fz idx Hv), uF_scale, cst_R, dec2R_0. ring. }
  assert (P1 : forall idx, validIdx (dims xv) idx -> elt p1v idx = Rmax 0 (elt xv idx)).
  { intros idx Hv. rewrite Fp1 by (rewrite Dz; exact Hv). rewrite bF_max, (Zz idx Hv). reflexivity. }
  assert (P2 : forall idx, validIdx (dims xv) idx -> elt p2v idx = Rmin 0 (elt xv idx)).
  { intros idx Hv. rewrite Fp2 by (rewrite Dz; exact Hv). rewrite bF_min, (Zz idx Hv). reflexivity. }
  (* 1. y = b1 + b2 *)
  destruct (node_run2 rd h1 _ hh log (a + 6) gy (a + 4) (RId (a + 6)) (a + 5) (RId (a + 6)) gy (Some gy) gy (Some gy) H0)%nat
    as (hhA & EpA & HA);
    [nlia|exact Hgy|exact E6|exact T4|nlia|reflexivity|exact T5|nlia|reflexivity
    |apply rid_eval; exact Hgy|rewrite I4; reflexivity
    |apply rid_eval; exact Hgy|upd_eq; rewrite I5; reflexivity|].
  (* 2. b2 = Broadcast(s3) *)
  destruct (node_run1 rd h1 _ hhA ((a + 6, gy) :: log)%nat (a + 5) gy (a + 3) (RBroadcast (a + 5) (a + 3)) gy (Some gy) HA)%nat
    as (hhB & EpB & HB);
    [nlia|upd_eq; reflexivity|exact E5|exact T3|nlia|reflexivity| |upd_eq; rewrite I3; reflexivity|].
  { apply (rbroadcast_same rd hhA (a + 5) (a + 3) p3v p3v gy)%nat;
      [rewrite (HS_val _ _ _ _ HA); exact V5|rewrite (HS_val _ _ _ _ HA); exact V3
      |rewrite (proj2 HA); upd_eq; reflexivity|reflexivity]. }
  (* 3. s3 = s2.Scale(m) *)
  destruct (rscale_eval thr draw rd hhB (a + 3) m gy)%nat as (gm & Egm & Dgm & Wgm & Ggm);
    [rewrite (proj2 HB); upd_eq; reflexivity|exact Wgy|].
  destruct (node_run1 rd h1 _ hhB ((a + 5, gy) :: (a + 6, gy) :: log)%nat (a + 3) gy (a + 2) (RScale (a + 3) m) gm (Some gm) HB)%nat
    as (hhC & EpC & HC);
    [nlia|upd_eq; reflexivity|exact E3|exact T2|nlia|reflexivity|exact Egm|upd_eq; rewrite I2; reflexivity|].
  (* 4. s2 = z0.ElMin(x) *)
  assert (VxC : valOf hhC x = Some xv) by (rewrite (HS_val _ _ _ _ HC); exact Vx1).
  assert (VzC : valOf hhC a = Some zv) by (rewrite (HS_val _ _ _ _ HC); exact V0).
  assert (V2C : valOf hhC (a + 2) = Some p2v) by (rewrite (HS_val _ _ _ _ HC); exact V2).
  assert (G2C : gradOf hhC (a + 2) = Some gm) by (rewrite (proj2 HC); upd_eq; reflexivity).
  destruct (relsel_eval thr draw rd hhC (a + 2) a x p2v zv xv gm V2C VzC VxC G2C Wp2 Wz Wx Wgm)%nat
    as (gz2 & Egz2 & Dgz2 & Wgz2 & _); [congruence|congruence|congruence|].
  destruct (relsel_eval thr draw rd hhC (a + 2) x a p2v xv zv gm V2C VxC VzC G2C Wp2 Wx Wz Wgm)%nat
    as (gx2 & Egx2 & Dgx2 & Wgx2 & Ggx2); [congruence|congruence|congruence|].
  destruct (acc1_R (dims xv) (gradOf hh x) gx2 Hp Wgx2 Dgx2) as (sA & EsA & WsA & DsA & GsA).
  destruct (node_run2 rd h1 _ hhC ((a + 3, gy) :: (a + 5, gy) :: (a + 6, gy) :: log)%nat (a + 2) gm
              a (RElSel (a + 2) a x) x (RElSel (a + 2) x a) gz2 (Some gz2) gx2 (Some sA) HC)%nat
    as (hhD & EpD & HD);
    [nlia|upd_eq; reflexivity|exact E2|exact T0|nlia|reflexivity|exact Tx1|nlia|reflexivity
    |exact Egz2|upd_eq; rewrite I0; reflexivity|exact Egx2|upd_eq; exact EsA|].
  (* 5. b1 = Broadcast(s1) *)
  destruct (node_run1 rd h1 _ hhD ((a + 2, gm) :: (a + 3, gy) :: (a + 5, gy) :: (a + 6, gy) :: log)%nat
              (a + 4) gy (a + 1) (RBroadcast (a + 4) (a + 1)) gy (Some gy) HD)%nat
    as (hhE & EpE & HE);
    [nlia|upd_eq; reflexivity|exact E4|exact T1|nlia|reflexivity| |upd_eq; rewrite I1; reflexivity|].
  { apply (rbroadcast_same rd hhD (a + 4) (a + 1) p1v p1v gy)%nat;
      [rewrite (HS_val _ _ _ _ HD); exact V4|rewrite (HS_val _ _ _ _ HD); exact V1
      |rewrite (proj2 HD); upd_eq; reflexivity|reflexivity]. }
  (* 6. s1 = z0.ElMax(x) *)
  assert (VxE : valOf hhE x = Some xv) by (rewrite (HS_val _ _ _ _ HE); exact Vx1).
  assert (VzE : valOf hhE a = Some zv) by (rewrite (HS_val _ _ _ _ HE); exact V0).
  assert (V1E : valOf hhE (a + 1) = Some p1v) by (rewrite (HS_val _ _ _ _ HE); exact V1).
  assert (G1E : gradOf hhE (a + 1) = Some gy) by (rewrite (proj2 HE); upd_eq; reflexivity).
  destruct (relsel_eval thr draw rd hhE (a + 1) a x p1v zv xv gy V1E VzE VxE G1E Wp1 Wz Wx Wgy)%nat
    as (gz1 & Egz1 & Dgz1 & Wgz1 & _); [congruence|congruence|congruence|].
  destruct (relsel_eval thr draw rd hhE (a + 1) x a p1v xv zv gy V1E VxE VzE G1E Wp1 Wx Wz Wgy)%nat
    as (gx1 & Egx1 & Dgx1 & Wgx1 & Ggx1); [congruence|congruence|congruence|].
  destruct (acc1_R (dims xv) (Some gz2) gz1 (conj Wgz2 (eq_trans Dgz2 Dz)) Wgz1 (eq_trans Dgz1 Dz)) as (sz & Esz & Wsz & Dsz & _).
  destruct (acc1_R (dims xv) (Some sA) gx1 (conj WsA DsA) Wgx1 Dgx1) as (sB & EsB & WsB & DsB & GsB).
  destruct (node_run2 rd h1 _ hhE ((a + 4, gy) :: (a + 2, gm) :: (a + 3, gy) :: (a + 5, gy) :: (a + 6, gy) :: log)%nat
              (a + 1) gy a (RElSel (a + 1) a x) x (RElSel (a + 1) x a) gz1 (Some sz) gx1 (Some sB) HE)%nat
    as (hhF & EpF & HF);
    [nlia|upd_eq; reflexivity|exact E1|exact T0|nlia|reflexivity|exact Tx1|nlia|reflexivity
    |exact Egz1|upd_eq; exact Esz|exact Egx1|upd_eq; exact EsB|].
  (* 7. z0 = x.Scale(0): contributes 0 *)
  destruct (rscale_eval thr draw rd hhF a (cst 0 0) sz) as (g0 & Eg0 & Dg0 & Wg0 & Gg0);
    [rewrite (proj2 HF); upd_eq; reflexivity|exact Wsz|].
  destruct (acc1_R (dims xv) (Some sB) g0 (conj WsB DsB) Wg0 (eq_trans Dg0 Dsz)) as (sC & EsC & WsC & DsC & GsC).
  destruct (node_run1 rd h1 _ hhF
              ((a + 1, gy) :: (a + 4, gy) :: (a + 2, gm) :: (a + 3, gy) :: (a + 5, gy) :: (a + 6, gy) :: log)%nat
              a sz x (RScale a (cst 0 0)) g0 (Some sC) HF)%nat as (hhG & EpG & HG);
    [nlia|upd_eq; reflexivity|exact E0|exact Tx1|nlia|reflexivity|exact Eg0|upd_eq; exact EsC|].
  exists hhG, sC, [(a, sz); (a + 1, gy); (a + 4, gy); (a + 2, gm); (a + 3, gy); (a + 5, gy); (a + 6, gy)]%nat.
  split; [cbn [fold_left]; rewrite EpA, EpB, EpC, EpD, EpE, EpF; exact EpG|].
  split; [reflexivity|].
  split; [eapply sameS_trans; [apply sameS_sym; exact S|exact (proj1 HG)]|].
  split; [intros n Hn1 Hn2; rewrite (proj2 HG n); upd_eq; reflexivity|].
  split; [rewrite (proj2 HG x); upd_eq; reflexivity|].
  split; [exact DsC|]. split; [exact WsC|].
  intros idx Hv. cbv zeta.
  assert (F : elt sC idx = prior (gradOf hh x) idx + elt gy idx * leakyD m (elt xv idx)).
  { rewrite (GsC idx Hv). cbn [prior]. rewrite (GsB idx Hv). cbn [prior]. rewrite (GsA idx Hv).
    rewrite Gg0 by (rewrite Dsz; exact Hv).
    rewrite (Ggx1 idx Hv), (Ggx2 idx Hv).
    rewrite Ggm by (rewrite Dgy; exact Hv).
    rewrite (P1 idx Hv), (P2 idx Hv), (Zz idx Hv), cst_R, dec2R_0. unfold leakyD, reluD, minD. ring. }
  split; [exact F|]. rewrite F. unfold leakyD. split; [|split].
  - intros Hc. rewrite (reluD_pos _ Hthr Hc), (minD_pos _ Hthr Hc). f_equal. ring.
  - intros Hc. rewrite (reluD_neg _ Hthr Hc), (minD_neg _ Hthr Hc). f_equal. ring.
  - intros Hc. rewrite Hc, (reluD_zero Hthr), (minD_zero Hthr). f_equal. field.
Qed.

End R.

(* ===================================================================================== *)
(* 3. examples: the theorems instantiated on a tiny heap whose input is an INTERIOR node     *)
(* ===================================================================================== *)
Module GradActExamples.
Section Ex.
Variable draw : bool -> nat -> R.
Local Hint Extern 0 (Scalar R) => exact (R_scalar 0 draw) : typeclass_instances.
Notation heap := (@heap R).
Notation idseal := (fun (_ : option nat) (g : tensor R) => g).

Definition vec2 (a b : R) : tensor R := mkT [2%nat] (Vec [Sc a; Sc b]).
Lemma wf_vec2 a b : wf (vec2 a b).
Proof. split; cbn; repeat constructor. Qed.
Lemma valid2 idx : validIdx [2%nat] idx -> idx = [0%nat] \/ idx = [1%nat].
Proof.
  intros H. inversion H as [|i d r ds Hi Hr]; subst. inversion Hr; subst.
  destruct i as [|[|i]]; [left; reflexivity|right; reflexivity|lia].
Qed.

(* w is a tracked leaf, x = w.Scale(2) an INTERIOR node, then the activation of x *)
Definition exw : tensor R := vec2 3 (-4).
Definition exg : tensor R := vec2 5 7.
Definition exh0 : heap := fst (leaf [] exw true (Some 0%nat)).
Definition exh : heap := fst (h_scale exh0 0 2 (Some 1%nat)).
Definition exx : tensor R := vec2 (2 * 3) (2 * -4).

Example exh_x : valOf exh 1 = Some exx /\ trackedOf exh 1 = true /\ dirtyOf exh 1 = false /\ edgesOf exh 1 = [(0%nat, RScale 1 2)].
Proof. repeat split. Qed.

Definition th1 : heap := fst (tanh_forward exh [Some 1%nat] (Some 2%nat)).
Lemma th1_eq : tanh_forward exh [Some 1%nat] (Some 2%nat) = (th1, Ok 2%nat).
Proof. reflexivity. Qed.

Example tanh_grad_ex rd :
  exists hh' gx,
    fold_left (process_node rd idseal) [2%nat] (setGrad th1 2 (Some exg), [], Ok tt) = (hh', [(2%nat, exg)], Ok tt) /\
    gradOf hh' 1 = Some gx /\
    elt gx [0%nat] = 5 * (1 - tanh (2 * 3) ^ 2) /\ elt gx [1%nat] = 7 * (1 - tanh (2 * -4) ^ 2).
Proof.
  destruct (tanh_grad 0 draw rd exh th1 (setGrad th1 2 (Some exg)) 1 2 (Some 2%nat) exx exg [])
    as (hh' & gx & Ef & _ & _ & Hg & _ & _ & F).
  - reflexivity.
  - apply wf_vec2.
  - reflexivity.
  - reflexivity.
  - exact th1_eq.
  - apply sameS_setGrad.
  - reflexivity.
  - apply wf_vec2.
  - reflexivity.
  - exact I.
  - exists hh', gx. split; [exact Ef|]. split; [exact Hg|]. split.
    + rewrite (F [0%nat]) by (repeat constructor). cbn. ring.
    + rewrite (F [1%nat]) by (repeat constructor). cbn. ring.
Qed.

(* Relu at  x = (6, -8)  with the exact equality (thr = 0): factors 1 and 0 *)
Definition rh1 : heap := fst (relu_forward exh [Some 1%nat] (Some 2%nat)).
Lemma rh1_eq : relu_forward exh [Some 1%nat] (Some 2%nat) = (rh1, Ok 3%nat).
Proof. reflexivity. Qed.

Example relu_order_ex : topoOrder rh1 3 = [3; 2; 1; 0]%nat.
Proof. reflexivity. Qed.

Example relu_grad_ex rd :
  exists hh' gx gz,
    fold_left (process_node rd idseal) [3; 2]%nat (setGrad rh1 3 (Some exg), [], Ok tt)
      = (hh', [(2%nat, gz); (3%nat, exg)], Ok tt) /\
    gradOf hh' 1 = Some gx /\ elt gx [0%nat] = 5 /\ elt gx [1%nat] = 0.
Proof.
  destruct (relu_grad 0 draw rd exh rh1 (setGrad rh1 3 (Some exg)) 1 3 (Some 2%nat) exx exg [])
    as (hh' & gx & gz & Ef & _ & _ & Hg & _ & _ & F).
  - lra.
  - reflexivity.
  - apply wf_vec2.
  - reflexivity.
  - reflexivity.
  - exact rh1_eq.
  - apply sameS_setGrad.
  - reflexivity.
  - apply wf_vec2.
  - reflexivity.
  - reflexivity.
  - exact I.
  - exists hh', gx, gz. split; [exact Ef|]. split; [exact Hg|]. split.
    + destruct (F [0%nat]) as (_ & P & _); [repeat constructor|]. cbn in P. rewrite P by lra. cbn. clear. lra.
    + destruct (F [1%nat]) as (_ & _ & N & _); [repeat constructor|]. cbn in N. rewrite N by lra. cbn. clear. lra.
Qed.

(* the tie x = 0 exactly: half of the upstream gradient *)
Definition zh0 : heap := fst (leaf [] (vec2 0 0) true (Some 0%nat)).
Definition zh1 : heap := fst (relu_forward zh0 [Some 0%nat] (Some 1%nat)).
Lemma zh1_eq : relu_forward zh0 [Some 0%nat] (Some 1%nat) = (zh1, Ok 2%nat).
Proof. reflexivity. Qed.

Example relu_tie_ex rd :
  exists hh' gx gz,
    fold_left (process_node rd idseal) [2; 1]%nat (setGrad zh1 2 (Some exg), [], Ok tt)
      = (hh', [(1%nat, gz); (2%nat, exg)], Ok tt) /\
    gradOf hh' 0 = Some gx /\ elt gx [0%nat] = 5 / 2 /\ elt gx [1%nat] = 7 / 2.
Proof.
  destruct (relu_grad 0 draw rd zh0 zh1 (setGrad zh1 2 (Some exg)) 0 2 (Some 1%nat) (vec2 0 0) exg [])
    as (hh' & gx & gz & Ef & _ & _ & Hg & _ & _ & F);
    [lra|reflexivity|apply wf_vec2|reflexivity|reflexivity|exact zh1_eq|apply sameS_setGrad|reflexivity
    |apply wf_vec2|reflexivity|reflexivity|exact I|].
  exists hh', gx, gz. split; [exact Ef|]. split; [exact Hg|]. split.
  - destruct (F [0%nat]) as (_ & _ & _ & Z); [repeat constructor|]. cbn in Z. rewrite Z by reflexivity. cbn. clear. lra.
  - destruct (F [1%nat]) as (_ & _ & _ & Z); [repeat constructor|]. cbn in Z. rewrite Z by reflexivity. cbn. clear. lra.
Qed.

(* LeakyRelu(m) at x = (6, -8): factors 1 and m *)
Definition lh1 (m : R) : heap := fst (leaky_forward exh m [Some 1%nat] (Some 2%nat)).
Lemma lh1_eq m : leaky_forward exh m [Some 1%nat] (Some 2%nat) = (lh1 m, Ok 8%nat).
Proof. reflexivity. Qed.

(* the order of the theorem is the order of bp_topo *)
Example leaky_order_ex m : topoOrder (lh1 m) 8 = [8; 7; 5; 4; 6; 3; 2; 1; 0]%nat.
Proof. reflexivity. Qed.

Example leaky_grad_ex rd m :
  exists hh' gx lg,
    fold_left (process_node rd idseal) [8; 7; 5; 4; 6; 3; 2]%nat (setGrad (lh1 m) 8 (Some exg), [], Ok tt)
      = (hh', lg, Ok tt) /\
    gradOf hh' 1 = Some gx /\ elt gx [0%nat] = 5 /\ elt gx [1%nat] = 7 * m.
Proof.
  destruct (leaky_grad 0 draw rd exh (lh1 m) (setGrad (lh1 m) 8 (Some exg)) m 1 8 (Some 2%nat) exx exg [])
    as (hh' & gx & lg & Ef & _ & _ & _ & Hg & _ & _ & F);
    [lra|reflexivity|apply wf_vec2|reflexivity|reflexivity|apply lh1_eq|apply sameS_setGrad|reflexivity
    |apply wf_vec2|reflexivity| |exact I|].
  - intros k Hk. do 6 (destruct k as [|k]; [reflexivity|]). lia.
  - assert (Pr : gradOf (setGrad (lh1 m) 8 (Some exg)) 1 = None) by reflexivity.
    exists hh', gx, (lg ++ []). split; [exact Ef|]. split; [exact Hg|]. split.
    + destruct (F [0%nat]) as (_ & P & _); [repeat constructor|]. cbn in P. rewrite P by lra. rewrite Pr. cbn. clear. lra.
    + destruct (F [1%nat]) as (_ & _ & N & _); [repeat constructor|]. cbn in N. rewrite N by lra. rewrite Pr. cbn. clear. lra.
Qed.

(* Sigmoid at x = (6, -8) *)
Definition sh1 : heap := fst (sigmoid_forward exh [Some 1%nat] (Some 2%nat)).
Lemma sh1_eq : sigmoid_forward exh [Some 1%nat] (Some 2%nat) = (sh1, Ok 8%nat).
Proof. reflexivity. Qed.

Example sigmoid_order_ex : topoOrder sh1 8 = [8; 7; 6; 4; 3; 5; 2; 1; 0]%nat.
Proof. reflexivity. Qed.

Example sigmoid_grad_ex rd :
  exists hh' gx lg,
    fold_left (process_node rd idseal) [8; 7; 6; 4; 3; 5; 2]%nat (setGrad sh1 8 (Some exg), [], Ok tt)
      = (hh', lg, Ok tt) /\
    gradOf hh' 1 = Some gx /\
    elt gx [0%nat] = 5 * (logistic (2 * 3) * (1 - logistic (2 * 3))) /\
    elt gx [1%nat] = 7 * (logistic (2 * -4) * (1 - logistic (2 * -4))).
Proof.
  destruct (sigmoid_grad 0 draw rd exh sh1 (setGrad sh1 8 (Some exg)) 1 8 (Some 2%nat) exx exg [])
    as (hh' & gx & lg & Ef & _ & _ & _ & Hg & _ & _ & F);
    [reflexivity|apply wf_vec2|reflexivity|reflexivity|apply sh1_eq|apply sameS_setGrad|reflexivity
    |apply wf_vec2|reflexivity| |exact I|].
  - intros k Hk. do 6 (destruct k as [|k]; [reflexivity|]). lia.
  - assert (Pr : gradOf (setGrad sh1 8 (Some exg)) 1 = None) by reflexivity.
    exists hh', gx, (lg ++ []). split; [exact Ef|]. split; [exact Hg|]. split.
    + rewrite (F [0%nat]) by (repeat constructor). rewrite Pr. cbn. ring.
    + rewrite (F [1%nat]) by (repeat constructor). rewrite Pr. cbn. ring.
Qed.
End Ex.
End GradActExamples.

Print Assumptions tanh_grad.
Print Assumptions relu_grad.
Print Assumptions leaky_grad.
Print Assumptions sigmoid_grad.
Print Assumptions node_run.
Print Assumptions sigmoid_structure.
