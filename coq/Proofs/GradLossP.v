(* GradLossP.v — C13, generic part: back-propagation through a component on the reals, read
   element-wise.

   1. [isT ds f g]: the tensor g has shape ds, is well formed and its elements are given by f.
   2. [rsem]/[rok]/[rsem_sound]: an element-level semantics of the back-edge rules used by the
      losses (Id, Neg, Scale, Mul, Log, Pow, ElSel, Broadcast between equal shapes, AvgAlong,
      SumAlong) with the shape side conditions under which a rule NEVER fails; proved from the
      rule lemmas of VjpElemP / VjpReduceP.
   3. [fold_abs] (the reusable chain / DAG lemma): processing an explicitly known list of nodes
      with [process_node] of the model succeeds whenever every tracked back edge of these nodes
      satisfies its shape condition, and the final gradients are, element-wise, the result of the
      abstract fold [anode] over gradient FUNCTIONS.
   4. depth-first search: evaluation lemmas ([dfs_t], [dfs_u], [dfs_v]) and the cut lemma
      [dfs_cut]: below a node p the search only adds nodes <= p.
   5. [bp_topo_split]: bp_topo = the fold over a known prefix of the order, then over the rest;
      [fold_keeps], [fold_sameS]: what the fold can never change, whatever its outcome.
   6. exact result heaps of the tracked methods for operands with known flags ([op1_X], [elsel_X],
      [arith_X]) and the element-level reading of the forward values. *)
From Coq Require Import List Arith ZArith Bool Lia Reals Lra.
From Coquelicot Require Import Coquelicot.
From Qeep Require Import Model.Scalar Model.Nd Model.Fill Model.Data Model.Valid Model.Api Model.Grad Model.Backprop
  Model.Components.
From Qeep Require Import Spec.RScalar Spec.VjpSpec.
From Qeep Require Import Proofs.NdP Proofs.ElemP Proofs.BroadcastP Proofs.ReduceP Proofs.ReduceRP Proofs.CompP
  Proofs.VjpElemP Proofs.VjpReduceP Proofs.TrackP Proofs.BackpropP.
Import ListNotations.
Local Open Scope nat_scope.

(* ------------------------------------------------------------------------------------ *)
(* 0. offsets into an extended heap                                                      *)
(* ------------------------------------------------------------------------------------ *)

Lemma eqb_off L a b : (L + a =? L + b) = (a =? b).
Proof. destruct (Nat.eqb_spec a b) as [->|N]; [apply Nat.eqb_refl|]. apply Nat.eqb_neq. lia. Qed.
Lemma eqb_off0l L b : (L =? L + S b) = false.
Proof. apply Nat.eqb_neq. lia. Qed.
Lemma eqb_off0r L a : (L + S a =? L) = false.
Proof. apply Nat.eqb_neq. lia. Qed.
Lemma eqb_lt_off p L a : p < L -> (p =? L + a) = false.
Proof. intros H. apply Nat.eqb_neq. lia. Qed.
Lemma eqb_off_lt p L a : p < L -> (L + a =? p) = false.
Proof. intros H. apply Nat.eqb_neq. lia. Qed.
Lemma eqb_lt_base p L : p < L -> (p =? L) = false.
Proof. intros H. apply Nat.eqb_neq. lia. Qed.
Lemma eqb_base_lt p L : p < L -> (L =? p) = false.
Proof. intros H. apply Nat.eqb_neq. lia. Qed.

Lemma nth_error_off {X} (h l : list X) k : nth_error (h ++ l) (length h + k) = nth_error l k.
Proof. rewrite nth_error_app2 by lia. f_equal. lia. Qed.
Lemma nth_error_off0 {X} (h l : list X) : nth_error (h ++ l) (length h) = nth_error l 0.
Proof. rewrite nth_error_app2 by lia. f_equal. lia. Qed.

Section Off.
Context {A : Type} {SA : Scalar A}.
Notation heap := (@heap A).

Lemma valOf_off (h l : heap) k : valOf (h ++ l) (length h + k) = valOf l k.
Proof. unfold valOf. rewrite nth_error_off. reflexivity. Qed.
Lemma gradOf_off (h l : heap) k : gradOf (h ++ l) (length h + k) = gradOf l k.
Proof. unfold gradOf. rewrite nth_error_off. reflexivity. Qed.
Lemma trackedOf_off (h l : heap) k : trackedOf (h ++ l) (length h + k) = trackedOf l k.
Proof. unfold trackedOf. rewrite nth_error_off. reflexivity. Qed.
Lemma dirtyOf_off (h l : heap) k : dirtyOf (h ++ l) (length h + k) = dirtyOf l k.
Proof. unfold dirtyOf. rewrite nth_error_off. reflexivity. Qed.
Lemma edgesOf_off (h l : heap) k : edgesOf (h ++ l) (length h + k) = edgesOf l k.
Proof. unfold edgesOf. rewrite nth_error_off. reflexivity. Qed.
Lemma valOf_off0 (h l : heap) : valOf (h ++ l) (length h) = valOf l 0.
Proof. unfold valOf. rewrite nth_error_off0. reflexivity. Qed.
Lemma gradOf_off0 (h l : heap) : gradOf (h ++ l) (length h) = gradOf l 0.
Proof. unfold gradOf. rewrite nth_error_off0. reflexivity. Qed.
Lemma trackedOf_off0 (h l : heap) : trackedOf (h ++ l) (length h) = trackedOf l 0.
Proof. unfold trackedOf. rewrite nth_error_off0. reflexivity. Qed.
Lemma dirtyOf_off0 (h l : heap) : dirtyOf (h ++ l) (length h) = dirtyOf l 0.
Proof. unfold dirtyOf. rewrite nth_error_off0. reflexivity. Qed.
Lemma edgesOf_off0 (h l : heap) : edgesOf (h ++ l) (length h) = edgesOf l 0.
Proof. unfold edgesOf. rewrite nth_error_off0. reflexivity. Qed.

Lemma gradOf_old (h l : heap) i : i < length h -> gradOf (h ++ l) i = gradOf h i.
Proof. intros H. unfold gradOf. rewrite nth_error_app1 by exact H. reflexivity. Qed.
Lemma edgesOf_old (h l : heap) i : i < length h -> edgesOf (h ++ l) i = edgesOf h i.
Proof. intros H. unfold edgesOf. rewrite nth_error_app1 by exact H. reflexivity. Qed.

Lemma gradOf_beyond (h : heap) i : length h <= i -> gradOf h i = None.
Proof. intros H. unfold gradOf. apply nth_error_None in H. rewrite H. reflexivity. Qed.
End Off.

(* ------------------------------------------------------------------------------------ *)
(* 1. element-wise description of real tensors                                           *)
(* ------------------------------------------------------------------------------------ *)
Local Open Scope R_scope.

Section Gen.
Variables (thr : R) (draw : bool -> nat -> R).
Local Hint Extern 0 (Scalar R) => exact (R_scalar thr draw) : typeclass_instances.
Notation T := (tensor R).
Notation heap := (@heap R).
Notation rule := (@rule R).
Notation node := (@node R).
Notation idseal := (fun (_ : option nat) (g : T) => g).

Definition isT (ds : list nat) (f : assignment) (g : T) : Prop :=
  dims g = ds /\ wf g /\ forall idx, validIdx ds idx -> elt g idx = f idx.

Lemma isT_ext ds f f' g : isT ds f g -> (forall idx, validIdx ds idx -> f idx = f' idx) -> isT ds f' g.
Proof. intros (D & W & G) E. split; [exact D|]. split; [exact W|]. intros idx Hv. rewrite (G idx Hv). apply E, Hv. Qed.

Lemma isT_self g : wf g -> isT (dims g) (elt g) g.
Proof. intros W. split; [reflexivity|]. split; [exact W|]. reflexivity. Qed.

Lemma isT_dims ds ds' f g : isT ds f g -> ds = ds' -> isT ds' f g.
Proof. intros H <-. exact H. Qed.

Lemma isT_eq ds f a b : isT ds f a -> isT ds f b -> a = b.
Proof.
  intros (Da & Wa & Ga) (Db & Wb & Gb). destruct a as [da xa], b as [db xb]. cbn [dims] in Da, Db. subst da db.
  f_equal. destruct Wa as [Wa _], Wb as [Wb _]. cbn [dims data] in Wa, Wb.
  apply (nd_ext R ds); [exact Wa|exact Wb|]. intros idx Hv.
  destruct (get_wf R _ _ _ Wa Hv) as (x & Ex). destruct (get_wf R _ _ _ Wb Hv) as (y & Ey).
  specialize (Ga idx Hv). specialize (Gb idx Hv). unfold elt in Ga, Gb. cbn [data] in Ga, Gb.
  rewrite Ex in Ga |- *. rewrite Ey in Gb |- *. congruence.
Qed.

Lemma isT_ofFun ds f : List.Forall (fun d : nat => (0 < d)%nat) ds -> isT ds f (ofFun ds f).
Proof. intros H. split; [reflexivity|]. split; [apply ofFun_wf, H|]. intros idx Hv. apply elt_ofFun, Hv. Qed.

Lemma isT_add ds f1 f2 a b : isT ds f1 a -> isT ds f2 b ->
  exists r, v_arith BiAdd a b = Ok r /\ isT ds (fun i => f1 i + f2 i) r.
Proof.
  intros (Da & Wa & Ga) (Db & Wb & Gb).
  destruct (ar_elt thr draw BiAdd a b Wa Wb ltac:(congruence)) as (r & Er & Dr & Wr & Gr).
  exists r. split; [exact Er|]. split; [congruence|]. split; [exact Wr|].
  intros idx Hv. rewrite Gr by (rewrite Da; exact Hv). rewrite bF_add, (Ga idx Hv), (Gb idx Hv). reflexivity.
Qed.

(* forward calls, element-wise *)
Lemma un_isT (u : unary) ds f xv v : isT ds f xv -> v_unary u xv = Ok v -> isT ds (fun i => unaryF u (f i)) v.
Proof.
  intros (D & W & G) E. destruct (un_elt thr draw u xv W) as (r & Er & Dr & Wr & Gr).
  assert (r = v) by congruence. subst r. split; [congruence|]. split; [exact Wr|].
  intros idx Hv. rewrite Gr by (rewrite D; exact Hv). rewrite (G idx Hv). reflexivity.
Qed.

Lemma same_isT (b : binary) ds f1 f2 xv uv v : isT ds f1 xv -> isT ds f2 uv -> v_same b xv uv = Ok v ->
  isT ds (fun i => binaryF b (f1 i) (f2 i)) v.
Proof.
  intros (D1 & W1 & G1) (D2 & W2 & G2) E.
  destruct (same_elt thr draw b xv uv W1 W2 ltac:(congruence)) as (r & Er & Dr & Wr & Gr).
  assert (r = v) by congruence. subst r. split; [congruence|]. split; [exact Wr|].
  intros idx Hv. rewrite Gr by (rewrite D1; exact Hv). rewrite (G1 idx Hv), (G2 idx Hv). reflexivity.
Qed.

Lemma apply2_isT (b : binary) ds f1 f2 (v1 v2 v : T) : isT ds f1 v1 -> isT ds f2 v2 ->
  apply2 (binaryF b) v1 v2 = Some v -> isT ds (fun i => binaryF b (f1 i) (f2 i)) v.
Proof.
  intros (D1 & W1 & G1) (D2 & W2 & G2) E.
  destruct (apply2_spec (binaryF b) v1 v2 W1 W2 ltac:(congruence)) as (r & Er & Dr & Wr & Gr).
  assert (r = v) by congruence. subst r. split; [congruence|]. split; [exact Wr|].
  intros idx Hv. pose proof Hv as Hv1. rewrite <- D1 in Hv1. specialize (Gr idx Hv1).
  pose proof Hv as Hv2. rewrite <- D2 in Hv2.
  destruct (get_wf R _ _ _ (proj1 W1) Hv1) as (x & Ex). destruct (get_wf R _ _ _ (proj1 W2) Hv2) as (y & Ey).
  rewrite Ex, Ey in Gr. rewrite (elt_get _ _ _ Gr).
  rewrite <- (G1 idx Hv), <- (G2 idx Hv). rewrite (elt_get _ _ _ Ex), (elt_get _ _ _ Ey). reflexivity.
Qed.

(* Broadcast to the own shape copies the tensor *)
Lemma bcast_same_isT ds f (xv v : T) : isT ds f xv -> v_broadcast xv (map Z.of_nat ds) = Ok v -> isT ds f v.
Proof.
  intros (D & W & G) E. destruct (v_broadcast_spec R xv (map Z.of_nat ds) W) as [H1 H2].
  destruct (validateInputDims (map Z.of_nat ds) && validateBroadcast (zdims xv) (map Z.of_nat ds)) eqn:Ev.
  - destruct (H1 eq_refl) as (r & Er & (Dr & Wr & Gr)). assert (r = v) by congruence. subst r.
    unfold natsOf in Dr, Gr. rewrite map_map in Dr, Gr.
    assert (Eid : map (fun x : nat => Z.to_nat (Z.of_nat x)) ds = ds).
    { rewrite <- (map_id ds) at 2. apply map_ext. intros a. apply Nat2Z.id. }
    rewrite Eid in Dr, Gr. split; [exact Dr|]. split; [exact Wr|]. intros idx Hv.
    unfold elt at 1. rewrite (Gr idx Hv), D. rewrite bproj_same by exact Hv. apply (G idx Hv).
  - rewrite (H2 eq_refl) in E. discriminate.
Qed.

(* a previous gradient must have the shape of the node (otherwise the accumulating Add fails) *)
Definition prior_ok (ds : list nat) (o : option T) : Prop :=
  match o with Some g => wf g /\ dims g = ds | None => True end.
Definition prior (o : option T) : assignment := fun idx => match o with Some g => elt g idx | None => 0 end.

Lemma acc1_final (g0 : option T) ds (F f : assignment) (g : T) :
  prior_ok ds g0 -> List.Forall (fun d : nat => (0 < d)%nat) ds -> isT ds f g ->
  (forall idx, validIdx ds idx -> f idx = prior g0 idx + F idx) ->
  acc1 g0 (ofFun ds F) = Some (Some g).
Proof.
  intros Hp Hpos Tg Hf. pose proof (isT_ofFun ds F Hpos) as TG. unfold acc1. destruct g0 as [gp|].
  - destruct Hp as [Wgp Dgp]. assert (Tgp : isT ds (elt gp) gp) by (rewrite <- Dgp; apply isT_self, Wgp).
    destruct (isT_add _ _ _ _ _ Tgp TG) as (r & Er & Tr). rewrite Er.
    assert (r = g); [|subst r; reflexivity].
    apply (isT_eq ds (fun i => elt gp i + F i)); [exact Tr|]. apply (isT_ext _ _ _ _ Tg).
    intros idx Hv. rewrite (Hf idx Hv). reflexivity.
  - assert (ofFun ds F = g); [|congruence].
    apply (isT_eq ds F); [exact TG|]. apply (isT_ext _ _ _ _ Tg). intros idx Hv. rewrite (Hf idx Hv).
    unfold prior. ring.
Qed.

(* ------------------------------------------------------------------------------------ *)
(* 2. element-level semantics of the back-edge rules                                     *)
(* ------------------------------------------------------------------------------------ *)
Variable rd : bred.

Section OnHeap.
Variable H : heap.      (* the structure: values, tracking flags, edges *)

Definition Dm (i : nat) : list nat := match valOf H i with Some v => dims v | None => [] end.
Definition Vl (i : nat) : assignment := match valOf H i with Some v => elt v | None => fun _ => 0 end.
Definition okv (i : nat) : Prop := exists v, valOf H i = Some v /\ wf v.

Lemma okv_isT i : okv i -> exists v, valOf H i = Some v /\ isT (Dm i) (Vl i) v.
Proof. intros (v & E & W). exists v. split; [exact E|]. unfold Dm, Vl. rewrite E. apply isT_self, W. Qed.

Definition rsem (r : rule) (fy : assignment) : assignment :=
  match r with
  | RId _ => fy
  | RNeg _ => fun i => fy i * -1
  | RScale _ a => fun i => fy i * a
  | RMul _ o => fun i => fy i * Vl o i
  | RLog _ x => fun i => fy i * / Vl x i
  | RPow _ x a true => fun _ => 0
  | RPow _ x a false => fun i => fy i * (a * Rpow (Vl x i) (a - 1))
  | RElSel y a b => fun i => fy i * (eqt thr (Vl y i) (Vl a i) - / 2 * eqt thr (Vl a i) (Vl b i))
  | RBroadcast _ _ => fy
  | RAvgAlong _ x dim => fun i => 1 / INR (nth (Z.to_nat dim) (Dm x) 0%nat) * fy (del (Z.to_nat dim) i)
  | RSumAlong _ x dim => fun i => fy (del (Z.to_nat dim) i)
  | _ => fun _ => 0
  end.

(* shape conditions for the rule r of node c with target x *)
Definition rok (c x : nat) (r : rule) : Prop :=
  match r with
  | RId _ | RNeg _ | RScale _ _ => Dm c = Dm x
  | RMul _ o => Dm c = Dm x /\ Dm o = Dm x /\ okv o
  | RLog _ x' => x' = x /\ Dm c = Dm x /\ okv x
  | RPow _ x' _ _ => x' = x /\ Dm c = Dm x /\ okv x
  | RElSel _ a b => a = x /\ Dm c = Dm x /\ Dm b = Dm x /\ okv c /\ okv x /\ okv b
  | RBroadcast _ x' => x' = x /\ Dm c = Dm x /\ okv c /\ okv x
  | RAvgAlong _ x' dim | RSumAlong _ x' dim =>
      x' = x /\ okv x /\ exists d, dim = Z.of_nat d /\ (d < length (Dm x))%nat /\ Dm c = squeezeDims d (Dm x)
  | _ => False
  end.

Lemma bcDims_same (gy : T) : forall ds j, bcDims rd j ds ds gy = Ok gy.
Proof.
  induction ds as [|d ds IH]; intros j; cbn [bcDims]; [reflexivity|].
  rewrite Nat.eqb_refl. cbn [res_bind]. apply IH.
Qed.
Lemma bcastBack_same (gy : T) ds : bcastBack rd gy ds ds = Ok gy.
Proof. unfold bcastBack. rewrite Nat.sub_diag. cbn [bcLead res_bind skipn]. apply bcDims_same. Qed.

Lemma rsem_sound (hh : heap) c x r gc fc :
  (forall i, valOf hh i = valOf H i) -> rule_y r = c -> rok c x r ->
  gradOf hh c = Some gc -> isT (Dm c) fc gc ->
  exists g, eval_rule rd hh r = Ok g /\ isT (Dm x) (rsem r fc) g.
Proof.
  intros Hv Hy Hok Hg (Dg & Wg & Gg).
  destruct r; cbn [rule_y] in Hy; cbn [rok] in Hok; try contradiction; subst c.
  - (* RBroadcast *)
    destruct Hok as (-> & Ed & (yv & Ey & Wy) & (xv & Ex & Wx)).
    exists gc. split.
    + unfold eval_rule, gy_of, val_of. rewrite Hg, !Hv, Ex, Ey. cbn [of_opt res_bind].
      unfold Dm in Ed. rewrite Ey, Ex in Ed. rewrite Ed. apply bcastBack_same.
    + cbn [rsem]. rewrite <- Ed. split; [exact Dg|]. split; [exact Wg|exact Gg].
  - (* RSumAlong *)
    destruct Hok as (-> & (xv & Ex & Wx) & d & -> & Hd & Ed).
    assert (Edx : Dm x = dims xv) by (unfold Dm; rewrite Ex; reflexivity). rewrite Edx in Hd, Ed.
    destruct (rsum_eval thr draw rd hh y x d xv gc) as (g & Eg & Dgg & Wgg & Ggg);
      [rewrite Hv; exact Ex|exact Hg|exact Wx|exact Wg|exact Hd|congruence|].
    exists g. split; [exact Eg|]. rewrite Edx. split; [exact Dgg|]. split; [exact Wgg|].
    intros i Hi. rewrite (Ggg i Hi). cbn [rsem]. rewrite Nat2Z.id. apply Gg.
    rewrite Ed, squeezeDims_del. apply vi_del, Hi.
  - (* RAvgAlong *)
    destruct Hok as (-> & (xv & Ex & Wx) & d & -> & Hd & Ed).
    assert (Edx : Dm x = dims xv) by (unfold Dm; rewrite Ex; reflexivity). rewrite Edx in Hd, Ed.
    destruct (ravg_eval thr draw rd hh y x d xv gc) as (g & Eg & Dgg & Wgg & Ggg);
      [rewrite Hv; exact Ex|exact Hg|exact Wx|exact Wg|exact Hd|congruence|].
    exists g. split; [exact Eg|]. rewrite Edx. split; [exact Dgg|]. split; [exact Wgg|].
    intros i Hi. rewrite (Ggg i Hi). cbn [rsem]. rewrite Nat2Z.id, Edx. f_equal. apply Gg.
    rewrite Ed, squeezeDims_del. apply vi_del, Hi.
  - (* RScale *)
    destruct (rscale_eval thr draw rd hh y a gc Hg Wg) as (g & Eg & Dgg & Wgg & Ggg).
    exists g. split; [exact Eg|]. rewrite <- Hok. split; [congruence|]. split; [exact Wgg|].
    intros i Hi. rewrite Ggg by (rewrite Dg; exact Hi). cbn [rsem]. rewrite (Gg i Hi). reflexivity.
  - (* RPow *)
    destruct Hok as (-> & Ed & (xv & Ex & Wx)).
    assert (Edx : Dm x = dims xv) by (unfold Dm; rewrite Ex; reflexivity).
    destruct azero.
    + destruct (rpow_eval_zero thr draw rd hh y x a xv gc) as (g & Eg & Dgg & Wgg & Ggg);
        [rewrite Hv; exact Ex|exact Hg|exact Wg|congruence|].
      exists g. split; [exact Eg|]. rewrite Edx. split; [exact Dgg|]. split; [exact Wgg|exact Ggg].
    + destruct (rpow_eval thr draw rd hh y x a xv gc) as (g & Eg & Dgg & Wgg & Ggg);
        [rewrite Hv; exact Ex|exact Hg|exact Wx|exact Wg|congruence|].
      exists g. split; [exact Eg|]. rewrite Edx. split; [exact Dgg|]. split; [exact Wgg|].
      intros i Hi. rewrite (Ggg i Hi). cbn [rsem]. rewrite Gg by (rewrite Ed, Edx; exact Hi).
      unfold Vl. rewrite Ex. reflexivity.
  - (* RLog *)
    destruct Hok as (-> & Ed & (xv & Ex & Wx)).
    assert (Edx : Dm x = dims xv) by (unfold Dm; rewrite Ex; reflexivity).
    destruct (rlog_eval thr draw rd hh y x xv gc) as (g & Eg & Dgg & Wgg & Ggg);
      [rewrite Hv; exact Ex|exact Hg|exact Wx|exact Wg|congruence|].
    exists g. split; [exact Eg|]. rewrite Edx. split; [exact Dgg|]. split; [exact Wgg|].
    intros i Hi. rewrite (Ggg i Hi). cbn [rsem]. rewrite Gg by (rewrite Ed, Edx; exact Hi).
    unfold Vl. rewrite Ex. reflexivity.
  - (* RElSel *)
    destruct Hok as (-> & Ed & Edb & (yv & Ey & Wy) & (xv & Ex & Wx) & (bv & Eb & Wb)).
    assert (Edx : Dm x = dims xv) by (unfold Dm; rewrite Ex; reflexivity).
    assert (Edy : Dm y = dims yv) by (unfold Dm; rewrite Ey; reflexivity).
    assert (Edbb : Dm b = dims bv) by (unfold Dm; rewrite Eb; reflexivity).
    destruct (relsel_eval thr draw rd hh y x b yv xv bv gc) as (g & Eg & Dgg & Wgg & Ggg);
      [rewrite Hv; exact Ey|rewrite Hv; exact Ex|rewrite Hv; exact Eb|exact Hg|exact Wy|exact Wx|exact Wb|exact Wg
      |congruence|congruence|congruence|].
    exists g. split; [exact Eg|]. rewrite Edx. split; [exact Dgg|]. split; [exact Wgg|].
    intros i Hi. rewrite (Ggg i Hi). cbn [rsem]. rewrite Gg by (rewrite Ed, Edx; exact Hi).
    unfold Vl. rewrite Ey, Ex, Eb. reflexivity.
  - (* RId *)
    exists gc. split; [apply (rid_eval thr draw); exact Hg|]. rewrite <- Hok. cbn [rsem]. split; [exact Dg|]. split; [exact Wg|exact Gg].
  - (* RNeg *)
    destruct (rneg_eval thr draw rd hh y gc Hg Wg) as (g & Eg & Dgg & Wgg & Ggg).
    exists g. split; [exact Eg|]. rewrite <- Hok. split; [congruence|]. split; [exact Wgg|].
    intros i Hi. rewrite Ggg by (rewrite Dg; exact Hi). cbn [rsem]. rewrite (Gg i Hi). reflexivity.
  - (* RMul *)
    destruct Hok as (Ed & Edo & (ov & Eo & Wo)).
    assert (Edov : Dm o = dims ov) by (unfold Dm; rewrite Eo; reflexivity).
    destruct (rmul_eval thr draw rd hh y o ov gc) as (g & Eg & Dgg & Wgg & Ggg);
      [rewrite Hv; exact Eo|exact Hg|exact Wo|exact Wg|congruence|].
    exists g. split; [exact Eg|]. rewrite <- Edo, Edov. split; [exact Dgg|]. split; [exact Wgg|].
    intros i Hi. rewrite (Ggg i Hi). cbn [rsem]. rewrite Gg by (rewrite Ed, <- Edo, Edov; exact Hi).
    unfold Vl. rewrite Eo. reflexivity.
Qed.

(* ------------------------------------------------------------------------------------ *)
(* 3. the chain / DAG lemma: process_node over a known list, element-wise                *)
(* ------------------------------------------------------------------------------------ *)
Definition astate := nat -> option assignment.

Definition aupd (s : astate) (x : nat) (f : assignment) : astate :=
  fun j => if (j =? x)%nat then Some (match s x with Some f0 => (fun i => f0 i + f i) | None => f end) else s j.
Definition aedge (fc : assignment) (s : astate) (e : nat * rule) : astate :=
  if trackedOf H (fst e) then aupd s (fst e) (rsem (snd e) fc) else s.
Definition anode (s : astate) (c : nat) : astate :=
  match s c with Some fc => fold_left (aedge fc) (edgesOf H c) s | None => s end.

Lemma aupd_same (s : astate) x f :
  aupd s x f x = Some (match s x with Some f0 => (fun i => f0 i + f i) | None => f end).
Proof. unfold aupd. rewrite Nat.eqb_refl. reflexivity. Qed.
Lemma aupd_other (s : astate) x f j : (j =? x)%nat = false -> aupd s x f j = s j.
Proof. intros E. unfold aupd. rewrite E. reflexivity. Qed.
Lemma anode_some (s : astate) c fc : s c = Some fc -> anode s c = fold_left (aedge fc) (edgesOf H c) s.
Proof. intros E. unfold anode. rewrite E. reflexivity. Qed.
Lemma aedge_tracked fc (s : astate) x r : trackedOf H x = true -> aedge fc s (x, r) = aupd s x (rsem r fc).
Proof. intros E. unfold aedge. cbn [fst snd]. rewrite E. reflexivity. Qed.
Lemma aedge_untracked fc (s : astate) x r : trackedOf H x = false -> aedge fc s (x, r) = s.
Proof. intros E. unfold aedge. cbn [fst snd]. rewrite E. reflexivity. Qed.

Variable dom : nat -> Prop.

Definition models (hh : heap) (s : astate) : Prop :=
  forall j, dom j ->
    match s j with
    | Some f => exists g, gradOf hh j = Some g /\ isT (Dm j) f g
    | None => gradOf hh j = None
    end.

Hypothesis Hown : rules_own H.
Hypothesis Hwf : wf_heap H.

Definition edges_rok (c : nat) : Prop :=
  forall e, In e (edgesOf H c) -> trackedOf H (fst e) = true -> dom (fst e) /\ rok c (fst e) (snd e).

Lemma edges_abs c gc fc es : forall (hh : heap) (s : astate),
  sameS H hh -> models hh s -> gradOf hh c = Some gc -> isT (Dm c) fc gc ->
  (forall e, In e es -> In e (edgesOf H c)) -> edges_rok c ->
  exists hh', fold_left (process_edge rd c) es (hh, Ok tt) = (hh', Ok tt) /\
    sameS H hh' /\ models hh' (fold_left (aedge fc) es s) /\ gradOf hh' c = Some gc /\
    (forall j, ~ dom j -> gradOf hh' j = gradOf hh j).
Proof.
  induction es as [|e es IH]; intros hh s HS HM Hg HT Hin Hrok.
  - exists hh. cbn [fold_left]. split; [reflexivity|]. split; [exact HS|]. split; [exact HM|]. split; [exact Hg|]. intros j _. reflexivity.
  - assert (He : In e (edgesOf H c)) by (apply Hin; left; reflexivity).
    assert (Hin' : forall e0, In e0 es -> In e0 (edgesOf H c)) by (intros e0 H0; apply Hin; right; exact H0).
    cbn [fold_left]. unfold process_edge at 2. unfold aedge at 2.
    rewrite <- (sameS_trk _ _ HS). destruct (trackedOf H (fst e)) eqn:Et.
    + destruct (Hrok e He Et) as [Hd Hr].
      assert (Hy : rule_y (snd e) = c) by (apply (rules_own_edgesOf _ Hown _ _ He)).
      assert (Hne : fst e <> c) by (pose proof (wf_heap_edgesOf _ Hwf _ _ He); lia).
      destruct (rsem_sound hh c (fst e) (snd e) gc fc) as (g & Eg & Tg);
        [intros i; symmetry; apply (sameS_val _ _ HS)|exact Hy|exact Hr|exact Hg|exact HT|].
      rewrite Eg.
      assert (Hlt : (fst e < length hh)%nat).
      { rewrite <- (proj1 HS). apply tracked_lt. exact Et. }
      assert (Hstep : exists o, accumulate hh (fst e) g = (setGrad hh (fst e) (Some o), Ok tt) /\
                isT (Dm (fst e)) (match s (fst e) with Some f0 => (fun i => f0 i + rsem (snd e) fc i) | None => rsem (snd e) fc end) o).
      { unfold accumulate. specialize (HM (fst e) Hd). destruct (s (fst e)) as [f0|].
        - destruct HM as (g0 & E0 & T0). rewrite E0. destruct (isT_add _ _ _ _ _ T0 Tg) as (r & Er & Tr).
          rewrite Er. exists r. split; [reflexivity|exact Tr].
        - rewrite HM. exists g. split; [reflexivity|exact Tg]. }
      destruct Hstep as (o & Eacc & To). rewrite Eacc.
      apply Nat.ltb_lt in Hlt.
      destruct (IH (setGrad hh (fst e) (Some o)) (aupd s (fst e) (rsem (snd e) fc))) as (hh' & Ef & HS' & HM' & Hg' & Hfr).
      * eapply sameS_trans; [exact HS|apply sameS_setGrad].
      * intros j Hj. unfold aupd. rewrite gradOf_setGrad. destruct (j =? fst e)%nat eqn:Ej.
        -- apply Nat.eqb_eq in Ej. subst j. rewrite Hlt. exists o. split; [reflexivity|exact To].
        -- apply HM, Hj.
      * rewrite gradOf_setGrad. apply Nat.eqb_neq in Hne. rewrite Nat.eqb_sym, Hne. exact Hg.
      * exact HT.
      * exact Hin'.
      * exact Hrok.
      * exists hh'. split; [exact Ef|]. split; [exact HS'|]. split; [exact HM'|]. split; [exact Hg'|].
        intros j Hj. rewrite (Hfr j Hj), gradOf_setGrad.
        destruct (j =? fst e)%nat eqn:Ej; [|reflexivity]. apply Nat.eqb_eq in Ej. subst j. contradiction.
    + apply IH; assumption.
Qed.

Lemma node_abs (hh : heap) log (s : astate) c :
  sameS H hh -> models hh s -> dom c -> (c < length H)%nat -> edges_rok c ->
  exists hh' log', process_node rd idseal (hh, log, Ok tt) c = (hh', log', Ok tt) /\
    sameS H hh' /\ models hh' (anode s c) /\ (forall j, ~ dom j -> gradOf hh' j = gradOf hh j).
Proof.
  intros HS HM Hd Hlt Hrok. cbn [process_node]. unfold anode.
  assert (Hlt' : (c < length hh)%nat) by (rewrite <- (proj1 HS); exact Hlt).
  destruct (nth_error hh c) as [nd|] eqn:En; [|apply nth_error_None in En; lia].
  assert (Hgr : gradOf hh c = ngrad nd) by (unfold gradOf; rewrite En; reflexivity).
  assert (Hed : edgesOf H c = nedges nd) by (rewrite (sameS_edges _ _ HS); unfold edgesOf; rewrite En; reflexivity).
  pose proof (HM c Hd) as HMc. destruct (s c) as [fc|].
  - destruct HMc as (gc & Egc & Tgc). rewrite Hgr in Egc. rewrite Egc.
    destruct (edges_abs c gc fc (nedges nd) (setGrad hh c (Some gc)) s) as (hh' & Ef & HS' & HM' & _ & Hfr).
    + eapply sameS_trans; [exact HS|apply sameS_setGrad].
    + intros j Hj. rewrite gradOf_setGrad. destruct (j =? c)%nat eqn:Ej; [|apply HM, Hj].
      apply Nat.eqb_eq in Ej. subst j. apply Nat.ltb_lt in Hlt'. rewrite Hlt'. specialize (HM c Hj).
      rewrite Hgr, Egc in HM. exact HM.
    + rewrite gradOf_setGrad, Nat.eqb_refl. apply Nat.ltb_lt in Hlt'. rewrite Hlt'. reflexivity.
    + exact Tgc.
    + intros e He. rewrite Hed. exact He.
    + exact Hrok.
    + rewrite Ef. exists hh', ((c, gc) :: log). split; [reflexivity|]. split; [exact HS'|]. split; [rewrite Hed; exact HM'|].
      intros j Hj. rewrite (Hfr j Hj), gradOf_setGrad. destruct (j =? c)%nat eqn:Ej; [|reflexivity].
      apply Nat.eqb_eq in Ej. subst j. contradiction.
  - rewrite Hgr in HMc. rewrite HMc. exists hh, log. split; [reflexivity|]. split; [exact HS|]. split; [exact HM|]. intros j _. reflexivity.
Qed.

Theorem fold_abs l : forall (hh : heap) log (s : astate),
  sameS H hh -> models hh s ->
  (forall c, In c l -> dom c /\ (c < length H)%nat /\ edges_rok c) ->
  exists hh' log', fold_left (process_node rd idseal) l (hh, log, Ok tt) = (hh', log', Ok tt) /\
    sameS H hh' /\ models hh' (fold_left anode l s) /\ (forall j, ~ dom j -> gradOf hh' j = gradOf hh j).
Proof.
  induction l as [|c l IH]; intros hh log s HS HM Hl.
  - exists hh, log. cbn [fold_left]. split; [reflexivity|]. split; [exact HS|]. split; [exact HM|]. intros j _. reflexivity.
  - destruct (Hl c (or_introl eq_refl)) as (Hd & Hlt & Hrok).
    destruct (node_abs hh log s c HS HM Hd Hlt Hrok) as (h1 & log1 & E1 & HS1 & HM1 & Hfr1).
    destruct (IH h1 log1 (anode s c) HS1 HM1) as (h2 & log2 & E2 & HS2 & HM2 & Hfr2).
    { intros c0 H0. apply Hl. right. exact H0. }
    exists h2, log2. cbn [fold_left]. rewrite E1. split; [exact E2|]. split; [exact HS2|]. split; [exact HM2|].
    intros j Hj. rewrite (Hfr2 j Hj). apply Hfr1, Hj.
Qed.

End OnHeap.
End Gen.

(* ------------------------------------------------------------------------------------ *)
(* 4. evaluating the depth-first search; 5. splitting bp_topo; frame of the fold          *)
(* ------------------------------------------------------------------------------------ *)
Local Open Scope nat_scope.

Lemma memb_cons n a l : memb n (a :: l) = (n =? a) || memb n l.
Proof. reflexivity. Qed.

Lemma memb_app_gt (nv V : list nat) p n : (forall x, In x nv -> x <= p) -> p < n -> memb n (nv ++ V) = memb n V.
Proof.
  intros Hb Hn. induction nv as [|a nv IH]; [reflexivity|]. cbn [app]. rewrite memb_cons.
  assert (Ha : a <= p) by (apply Hb; left; reflexivity).
  assert (E : (n =? a) = false) by (apply Nat.eqb_neq; lia). rewrite E. cbn [orb]. apply IH.
  intros x Hx. apply Hb. right. exact Hx.
Qed.

Lemma memb_app_in (nv V : list nat) p : In p nv -> memb p (nv ++ V) = true.
Proof. intros Hi. apply BackpropP.memb_in. apply in_or_app. left. exact Hi. Qed.

Section DfsL.
Context {A : Type} {SA : Scalar A}.
Notation T := (tensor A).
Notation heap := (@heap A).
Notation rule := (@rule A).
Notation idseal := (fun (_ : option nat) (g : T) => g).

Definition post (n : nat) (st : list nat * list nat) : list nat * list nat := (fst st, n :: snd st).
Lemma post_pair n V R : post n (V, R) = (V, n :: R).
Proof. reflexivity. Qed.

Section OnH.
Variable H : heap.

Lemma dfs_u fuel n st : trackedOf H n = false -> dfs fuel H n st = st.
Proof. intros E. destruct fuel; [reflexivity|]. cbn [dfs]. rewrite E. reflexivity. Qed.

Lemma dfs_v fuel n st : memb n (fst st) = true -> dfs fuel H n st = st.
Proof. intros E. destruct fuel; [reflexivity|]. cbn [dfs]. rewrite E, orb_true_r. reflexivity. Qed.

Lemma dfs_t fuel n V R : 0 < fuel -> trackedOf H n = true -> memb n V = false ->
  dfs fuel H n (V, R) = post n (fold_left (fun s e => dfs (pred fuel) H (fst e) s) (edgesOf H n) (n :: V, R)).
Proof.
  intros Hf Et Em. destruct fuel as [|f]; [lia|]. cbn [dfs pred fst snd]. rewrite Et, Em. reflexivity.
Qed.

Hypothesis W : wf_heap H.

Lemma dfs_grow fuel : forall n st, exists nv nr,
  dfs fuel H n st = (nv ++ fst st, nr ++ snd st) /\ (forall x, In x nv -> x <= n) /\ (forall x, In x nr -> x <= n).
Proof.
  induction fuel as [|f IH]; intros n st.
  - exists [], []. cbn [dfs app]. split; [destruct st; reflexivity|]. split; intros x [].
  - cbn [dfs]. destruct (negb (trackedOf H n) || memb n (fst st)).
    + exists [], []. cbn [app]. split; [destruct st; reflexivity|]. split; intros x [].
    + assert (Hfold : forall (es : list (nat * rule)) s, (forall e, In e es -> fst e < n) ->
        exists nv nr, fold_left (fun s e => dfs f H (fst e) s) es s = (nv ++ fst s, nr ++ snd s) /\
          (forall x, In x nv -> x < n) /\ (forall x, In x nr -> x < n)).
      { induction es as [|e es IHes]; intros s Hes.
        - exists [], []. cbn [fold_left app]. split; [destruct s; reflexivity|]. split; intros x [].
        - cbn [fold_left]. destruct (IH (fst e) s) as (nv1 & nr1 & E1 & B1 & B1'). rewrite E1.
          destruct (IHes (nv1 ++ fst s, nr1 ++ snd s)) as (nv2 & nr2 & E2 & B2 & B2').
          { intros e0 H0. apply Hes. right. exact H0. }
          cbn [fst snd] in E2. exists (nv2 ++ nv1), (nr2 ++ nr1). rewrite E2, <- !app_assoc.
          split; [reflexivity|].
          assert (He : fst e < n) by (apply Hes; left; reflexivity).
          split; intros x Hx; apply in_app_or in Hx as [Hx|Hx]; auto;
            [specialize (B1 x Hx)|specialize (B1' x Hx)]; lia. }
      destruct (Hfold (edgesOf H n) (n :: fst st, snd st)) as (nv & nr & E & B & B').
      { intros e He. apply (wf_heap_edgesOf _ W _ _ He). }
      rewrite E. cbn [fst snd]. exists (nv ++ [n]), (n :: nr). rewrite <- app_assoc. cbn [app].
      split; [reflexivity|]. split.
      * intros x Hx. apply in_app_or in Hx as [Hx|[<-|[]]]; [specialize (B x Hx); lia|lia].
      * intros x [<-|Hx]; [lia|specialize (B' x Hx); lia].
Qed.

Lemma dfs_fold_grow fuel n : forall (es : list (nat * rule)) s, (forall e, In e es -> fst e < n) ->
  exists nv nr, fold_left (fun s e => dfs fuel H (fst e) s) es s = (nv ++ fst s, nr ++ snd s) /\
    (forall x, In x nv -> x < n) /\ (forall x, In x nr -> x < n) /\ (es = [] -> nr = []).
Proof.
  induction es as [|e es IHes]; intros s Hes.
  - exists [], []. cbn [fold_left app]. split; [destruct s; reflexivity|]. split; [intros x []|]. split; [intros x []|reflexivity].
  - cbn [fold_left]. destruct (dfs_grow fuel (fst e) s) as (nv1 & nr1 & E1 & B1 & B1'). rewrite E1.
    destruct (IHes (nv1 ++ fst s, nr1 ++ snd s)) as (nv2 & nr2 & E2 & B2 & B2' & _).
    { intros e0 H0. apply Hes. right. exact H0. }
    cbn [fst snd] in E2. exists (nv2 ++ nv1), (nr2 ++ nr1). rewrite E2, <- !app_assoc.
    split; [reflexivity|].
    assert (He : fst e < n) by (apply Hes; left; reflexivity).
    split; [|split; [|discriminate]]; intros x Hx; apply in_app_or in Hx as [Hx|Hx]; auto;
      [specialize (B1 x Hx)|specialize (B1' x Hx)]; lia.
Qed.

(* the search below a node p *)
Lemma dfs_cut fuel p V R : p < fuel -> trackedOf H p = true -> memb p V = false ->
  exists nv rest, dfs fuel H p (V, R) = (nv ++ V, p :: rest ++ R) /\
    (forall x, In x nv -> x <= p) /\ In p nv /\ (forall x, In x rest -> x < p) /\ (edgesOf H p = [] -> rest = []).
Proof.
  intros Hf Et Em. rewrite dfs_t by (try assumption; lia).
  destruct (dfs_fold_grow (pred fuel) p (edgesOf H p) (p :: V, R)) as (nv & nr & E & B & B' & Hnil).
  { intros e He. apply (wf_heap_edgesOf _ W _ _ He). }
  rewrite E. cbn [fst snd]. rewrite post_pair. exists (nv ++ [p]), nr. rewrite <- app_assoc. cbn [app].
  split; [reflexivity|]. split; [|split; [|split]].
  - intros x Hx. apply in_app_or in Hx as [Hx|[<-|[]]]; [specialize (B x Hx); lia|lia].
  - apply in_or_app. right. left. reflexivity.
  - exact B'.
  - exact Hnil.
Qed.
End OnH.

(* ---- bp_topo as two folds ---- *)
Lemma bp_topo_split rd (H : heap) root pre tl rv ones :
  trackedOf H root = true -> topoOrder H root = pre ++ tl -> valOf H root = Some rv -> toOnes rv = Ok ones ->
  gradOf H root = None ->
  bp_topo rd idseal H root =
  fold_left (process_node rd idseal) tl
    (fold_left (process_node rd idseal) pre (setGrad (markDirty H (pre ++ tl)) root (Some ones), [], Ok tt)).
Proof.
  intros Et Eo Ev E1 Eg. unfold bp_topo. rewrite Et. cbn [negb]. rewrite Eo, valOf_markDirty, Ev, E1.
  unfold accumulate. rewrite gradOf_markDirty, Eg. rewrite fold_left_app. reflexivity.
Qed.

(* ---- what the fold cannot change, whatever its outcome ---- *)
Section Keep.
Variable rd : bred.
Variable H : heap.

Lemma pe_inv c x (hh : heap) r e hh' r' :
  (trackedOf H (fst e) = true -> fst e <> x) -> sameS H hh ->
  process_edge rd c (hh, r) e = (hh', r') -> sameS H hh' /\ gradOf hh' x = gradOf hh x.
Proof.
  intros Hne HS. cbn [process_edge]. destruct r as [u| |]; [|intros E; inversion E; subst; auto|intros E; inversion E; subst; auto].
  rewrite <- (sameS_trk _ _ HS). destruct (trackedOf H (fst e)) eqn:Et; [|intros E; inversion E; subst; auto].
  destruct (eval_rule rd hh (snd e)) as [g| |]; [|intros E; inversion E; subst; auto|intros E; inversion E; subst; auto].
  assert (Hx : forall o, gradOf (setGrad hh (fst e) o) x = gradOf hh x).
  { intros o. rewrite gradOf_setGrad. specialize (Hne eq_refl). destruct (x =? fst e) eqn:Ex; [|reflexivity].
    apply Nat.eqb_eq in Ex. congruence. }
  unfold accumulate. destruct (gradOf hh (fst e)) as [g0|].
  - destruct (v_arith BiAdd g0 g); intros E; inversion E; subst; auto.
    split; [eapply sameS_trans; [exact HS|apply sameS_setGrad]|apply Hx].
  - intros E; inversion E; subst. split; [eapply sameS_trans; [exact HS|apply sameS_setGrad]|apply Hx].
Qed.

Lemma pe_fold_inv c x es : forall (hh : heap) r hh' r',
  (forall e, In e es -> trackedOf H (fst e) = true -> fst e <> x) -> sameS H hh ->
  fold_left (process_edge rd c) es (hh, r) = (hh', r') -> sameS H hh' /\ gradOf hh' x = gradOf hh x.
Proof.
  induction es as [|e es IH]; intros hh r hh' r' Hne HS E.
  - cbn [fold_left] in E. inversion E; subst. auto.
  - cbn [fold_left] in E. destruct (process_edge rd c (hh, r) e) as [h1 r1] eqn:E1.
    destruct (pe_inv c x hh r e h1 r1) as [HS1 Hg1]; [apply Hne; left; reflexivity|exact HS|exact E1|].
    destruct (IH h1 r1 hh' r') as [HS2 Hg2]; [intros e0 H0; apply Hne; right; exact H0|exact HS1|exact E|].
    split; [exact HS2|congruence].
Qed.

Lemma pn_inv x (hh : heap) log r c hh' log' r' :
  (forall e, In e (edgesOf H c) -> trackedOf H (fst e) = true -> fst e <> x) -> sameS H hh ->
  process_node rd idseal (hh, log, r) c = (hh', log', r') -> sameS H hh' /\ gradOf hh' x = gradOf hh x.
Proof.
  intros Hne HS. cbn [process_node]. destruct r as [u| |]; [|intros E; inversion E; subst; auto|intros E; inversion E; subst; auto].
  destruct (nth_error hh c) as [nd|] eqn:En; [|intros E; inversion E; subst; auto].
  destruct (ngrad nd) as [g|] eqn:Eg; [|intros E; inversion E; subst; auto].
  destruct (fold_left (process_edge rd c) (nedges nd) (setGrad hh c (Some g), Ok tt)) as [h2 r2] eqn:Ef.
  intros E. inversion E; subst h2 log' r2. clear E.
  assert (Hed : edgesOf H c = nedges nd) by (rewrite (sameS_edges _ _ HS); unfold edgesOf; rewrite En; reflexivity).
  destruct (pe_fold_inv c x (nedges nd) (setGrad hh c (Some g)) (Ok tt) hh' r') as [HS2 Hg2].
  - intros e He. apply Hne. rewrite Hed. exact He.
  - eapply sameS_trans; [exact HS|apply sameS_setGrad].
  - exact Ef.
  - split; [exact HS2|]. rewrite Hg2, gradOf_setGrad. destruct (x =? c) eqn:Ex; [|reflexivity].
    apply Nat.eqb_eq in Ex. subst x. assert (Hl : c < length hh) by (apply nth_error_Some; congruence).
    apply Nat.ltb_lt in Hl. rewrite Hl. unfold gradOf. rewrite En. cbn [obind]. symmetry. exact Eg.
Qed.

Lemma fold_inv x l : forall (hh : heap) log r hh' log' r',
  (forall c e, In c l -> In e (edgesOf H c) -> trackedOf H (fst e) = true -> fst e <> x) -> sameS H hh ->
  fold_left (process_node rd idseal) l (hh, log, r) = (hh', log', r') -> sameS H hh' /\ gradOf hh' x = gradOf hh x.
Proof.
  induction l as [|c l IH]; intros hh log r hh' log' r' Hne HS E.
  - cbn [fold_left] in E. inversion E; subst. auto.
  - cbn [fold_left] in E. destruct (process_node rd idseal (hh, log, r) c) as [[h1 log1] r1] eqn:E1.
    destruct (pn_inv x hh log r c h1 log1 r1) as [HS1 Hg1];
      [intros e He; apply (Hne c e); [left; reflexivity|exact He]|exact HS|exact E1|].
    destruct (IH h1 log1 r1 hh' log' r') as [HS2 Hg2];
      [intros c0 e H0; apply Hne; right; exact H0|exact HS1|exact E|].
    split; [exact HS2|congruence].
Qed.
End Keep.

End DfsL.

(* ------------------------------------------------------------------------------------ *)
(* 6. exact result heaps of the tracked methods, operands with known flags               *)
(* ------------------------------------------------------------------------------------ *)
Section Exact.
Context {A : Type} {SA : Scalar A}.
Notation T := (tensor A).
Notation heap := (@heap A).
Notation rule := (@rule A).
Notation hres := (@hres A).

Lemma len_snoc1 {X} (a : list X) n : length (a ++ [n]) = S (length a).
Proof. rewrite app_length. cbn [length]. apply Nat.add_1_r. Qed.

Lemma atomically_ok (h0 : heap) (r : hres) h' id : atomically h0 r = (h', Ok id) -> r = (h', Ok id).
Proof. destruct r as [hh [x| |]]; cbn [atomically]; intros E; inversion E; reflexivity. Qed.

Lemma hbind_ok (r : hres) (f : heap -> nat -> hres) h' id : hbind r f = (h', Ok id) ->
  exists h1 x, r = (h1, Ok x) /\ f h1 x = (h', Ok id).
Proof. destruct r as [hh [x| |]]; cbn [hbind]; intros E; [exists hh, x; auto|inversion E|inversion E]. Qed.

(* the node a method appends: value, tracked flag, edges (none when untracked) *)
Definition xnode (v : T) (tr : bool) (es : list (nat * rule)) (name : option nat) : @node A :=
  mkNode v tr false None (if tr then es else []) name.

Lemma ctx1_X (hc : heap) x es v name tr : trackedOf hc x = tr -> dirtyOf hc x = false ->
  ctxNode v (mkCtx hc [x] es) name = xnode v tr es name.
Proof.
  intros Et Ed. unfold ctxNode, mkCtx, xnode. cbn [existsb]. rewrite Ed, Et. cbn [orb].
  destruct tr; reflexivity.
Qed.

Lemma ctx2_X (hc : heap) x u es v name tx tu : trackedOf hc x = tx -> trackedOf hc u = tu ->
  dirtyOf hc x = false -> dirtyOf hc u = false ->
  ctxNode v (mkCtx hc [x; u] es) name = xnode v (tx || tu) es name.
Proof.
  intros Ex Eu Dx Du. unfold ctxNode, mkCtx, xnode. cbn [existsb]. rewrite Dx, Du, Ex, Eu. cbn [orb].
  rewrite orb_false_r. destruct (tx || tu); reflexivity.
Qed.

Lemma op1_X (h l : heap) x f mk name h' id tr :
  h_op1 (h ++ l) x f mk name = (h', Ok id) -> trackedOf (h ++ l) x = tr -> dirtyOf (h ++ l) x = false ->
  exists xv v, valOf (h ++ l) x = Some xv /\ f xv = Ok v /\ id = length h + length l /\
    h' = h ++ (l ++ [xnode v tr [(x, mk (length h + length l))] name]).
Proof.
  intros E Et Ed. apply h_op1_inv in E. destruct E as (xv & v & Hx & Hf & -> & ->).
  exists xv, v. split; [exact Hx|]. split; [exact Hf|]. split; [apply app_length|].
  rewrite <- app_assoc. f_equal. f_equal. f_equal. rewrite (ctx1_X _ _ _ _ _ tr Et Ed), app_length. reflexivity.
Qed.

Lemma elsel_X (h l : heap) b x u name h' id tx tu :
  h_elsel (h ++ l) b x u name = (h', Ok id) ->
  trackedOf (h ++ l) x = tx -> trackedOf (h ++ l) u = tu -> dirtyOf (h ++ l) x = false -> dirtyOf (h ++ l) u = false ->
  exists xv uv v, valOf (h ++ l) x = Some xv /\ valOf (h ++ l) u = Some uv /\ v_same b xv uv = Ok v /\
    id = length h + length l /\
    h' = h ++ (l ++ [xnode v (tx || tu)
                       [(x, RElSel (length h + length l) x u); (u, RElSel (length h + length l) u x)] name]).
Proof.
  intros E Ex Eu Dx Du. apply h_elsel_inv in E. destruct E as (xv & uv & v & Hx & Hu & Hf & -> & ->).
  exists xv, uv, v. split; [exact Hx|]. split; [exact Hu|]. split; [exact Hf|]. split; [apply app_length|].
  rewrite <- app_assoc. f_equal. f_equal. f_equal. rewrite (ctx2_X _ _ _ _ _ _ tx tu Ex Eu Dx Du), app_length. reflexivity.
Qed.

Lemma arith_X (h l : heap) b x u name h' id tx tu :
  h_arith (h ++ l) b x u name = (h', Ok id) ->
  trackedOf (h ++ l) x = tx -> trackedOf (h ++ l) u = tu -> dirtyOf (h ++ l) x = false -> dirtyOf (h ++ l) u = false ->
  let L := length h + length l in
  exists xv uv v1 v2 v, valOf (h ++ l) x = Some xv /\ valOf (h ++ l) u = Some uv /\
    v_broadcast xv (map Z.of_nat (targetBroadcastDims (dims xv) (dims uv))) = Ok v1 /\
    v_broadcast uv (map Z.of_nat (targetBroadcastDims (dims xv) (dims uv))) = Ok v2 /\
    apply2 (binaryF b) v1 v2 = Some v /\ id = length h + S (S (length l)) /\
    h' = h ++ (l ++ [xnode v1 tx [(x, RBroadcast L x)] None;
                     xnode v2 tu [(u, RBroadcast (length h + S (length l)) u)] None;
                     xnode v (tx || tu) (arithEdges b (length h + S (S (length l))) L (length h + S (length l))) name]).
Proof.
  intros E Ex Eu Dx Du L. unfold h_arith in E.
  destruct (valOf (h ++ l) x) as [xv|] eqn:Vx; [|inversion E].
  destruct (valOf (h ++ l) u) as [uv|] eqn:Vu; [|inversion E].
  apply h_binop_inv in E. destruct E as (xv' & uv' & v1 & v2 & v & Hx & B1 & Hu & B2 & Hf & -> & ->).
  assert (xv' = xv) by congruence. subst xv'.
  assert (Hul : u < length (h ++ l)) by (eapply valOf_some_lt; eauto).
  assert (Hxl : x < length (h ++ l)) by (eapply valOf_some_lt; eauto).
  rewrite valOf_app in Hu by exact Hul. assert (uv' = uv) by congruence. subst uv'.
  assert (EL : length (h ++ l) = L) by apply app_length.
  exists xv, uv, v1, v2, v. split; [reflexivity|]. split; [reflexivity|]. split; [exact B1|]. split; [exact B2|].
  split; [exact Hf|]. split; [rewrite EL; unfold L; lia|].
  rewrite <- app_assoc. f_equal. f_equal.
  assert (N1 : bnode1 (h ++ l) x v1 = xnode v1 tx [(x, RBroadcast L x)] None).
  { unfold bnode1. rewrite (ctx1_X _ _ _ _ _ tx Ex Dx), EL. reflexivity. }
  assert (N2 : bnode2 (h ++ l) x u v1 v2 = xnode v2 tu [(u, RBroadcast (length h + S (length l)) u)] None).
  { unfold bnode2. rewrite (ctx1_X _ _ _ _ _ tu); [rewrite EL; unfold L; rewrite Nat.add_succ_r; reflexivity| |].
    - rewrite trackedOf_app by exact Hul. exact Eu.
    - rewrite dirtyOf_app by exact Hul. exact Du. }
  rewrite N1, N2. f_equal. f_equal. f_equal. unfold rnode. rewrite N1, N2, EL.
  assert (T1 : trackedOf ((h ++ l) ++ [xnode v1 tx [(x, RBroadcast L x)] None] ++ [xnode v2 tu [(u, RBroadcast (length h + S (length l)) u)] None]) L = tx).
  { rewrite <- EL. rewrite app_assoc. rewrite trackedOf_app by (rewrite len_snoc1; apply Nat.lt_succ_diag_r). rewrite trackedOf_new. reflexivity. }
  assert (D1 : dirtyOf ((h ++ l) ++ [xnode v1 tx [(x, RBroadcast L x)] None] ++ [xnode v2 tu [(u, RBroadcast (length h + S (length l)) u)] None]) L = false).
  { rewrite <- EL. rewrite app_assoc. rewrite dirtyOf_app by (rewrite len_snoc1; apply Nat.lt_succ_diag_r). rewrite dirtyOf_new. reflexivity. }
  assert (T2 : trackedOf ((h ++ l) ++ [xnode v1 tx [(x, RBroadcast L x)] None] ++ [xnode v2 tu [(u, RBroadcast (length h + S (length l)) u)] None]) (S L) = tu).
  { rewrite <- EL. rewrite app_assoc.
    replace (S (length (h ++ l))) with (length ((h ++ l) ++ [xnode v1 tx [(x, RBroadcast (length (h ++ l)) x)] None]))
      by apply len_snoc1. rewrite trackedOf_new. reflexivity. }
  assert (D2 : dirtyOf ((h ++ l) ++ [xnode v1 tx [(x, RBroadcast L x)] None] ++ [xnode v2 tu [(u, RBroadcast (length h + S (length l)) u)] None]) (S L) = false).
  { rewrite <- EL. rewrite app_assoc.
    replace (S (length (h ++ l))) with (length ((h ++ l) ++ [xnode v1 tx [(x, RBroadcast (length (h ++ l)) x)] None]))
      by apply len_snoc1. rewrite dirtyOf_new. reflexivity. }
  rewrite (ctx2_X _ _ _ _ _ _ tx tu T1 T2 D1 D2).
  unfold L. rewrite !Nat.add_succ_r. reflexivity.
Qed.

End Exact.

(* ---- consequences of  bp_topo = fold over (p :: rest)  from a state hm ---- *)
Section Split.
Context {A : Type} {SA : Scalar A}.
Notation T := (tensor A).
Notation heap := (@heap A).
Notation idseal := (fun (_ : option nat) (g : T) => g).

(* whatever the outcome below p: the structure is kept, and so is the gradient of p and of every
   untracked node *)
Lemma split_any rd (H : heap) root p rest (hm : heap) logm x :
  wf_heap H -> sameS H hm ->
  bp_topo rd idseal H root = fold_left (process_node rd idseal) (p :: rest) (hm, logm, Ok tt) ->
  (forall c, In c rest -> c < p) -> (x = p \/ trackedOf H x = false) ->
  forall h2 log r, bp_topo rd idseal H root = (h2, log, r) -> sameS H h2 /\ gradOf h2 x = gradOf hm x.
Proof.
  intros W HS E Hrest Hx h2 log r E2. rewrite E in E2.
  apply (fold_inv rd H x (p :: rest) hm logm (Ok tt) h2 log r); [|exact HS|exact E2].
  intros c e Hc He Ht. pose proof (wf_heap_edgesOf _ W _ _ He) as Hlt.
  destruct Hx as [->|Hx]; [|congruence].
  destruct Hc as [<-|Hc]; [lia|]. specialize (Hrest c Hc). lia.
Qed.

(* a leaf p: the remaining fold is one node without edges *)
Lemma split_leaf rd (H : heap) p (hm : heap) logm g :
  sameS H hm -> edgesOf H p = [] -> gradOf hm p = Some g ->
  fold_left (process_node rd idseal) [p] (hm, logm, Ok tt) = (setGrad hm p (Some g), (p, g) :: logm, Ok tt).
Proof.
  intros HS He Hg. cbn [fold_left process_node]. unfold gradOf in Hg.
  destruct (nth_error hm p) as [nd|] eqn:En; [|discriminate]. cbn [obind] in Hg. rewrite Hg.
  assert (Hed : nedges nd = []).
  { rewrite <- He, (sameS_edges _ _ HS). unfold edgesOf. rewrite En. reflexivity. }
  rewrite Hed. reflexivity.
Qed.
End Split.

(* the two structural invariants of an extension by explicitly known nodes *)
Section Ext.
Context {A : Type} {SA : Scalar A}.
Notation heap := (@heap A).

Lemma own_wf_ext (h l : heap) : rules_own h -> wf_heap h ->
  (forall k n e, nth_error l k = Some n -> In e (nedges n) -> rule_y (snd e) = length h + k /\ fst e < length h + k) ->
  rules_own (h ++ l) /\ wf_heap (h ++ l).
Proof.
  intros Ho Hw Hl. split; intros c n e Hn He.
  - destruct (Nat.lt_ge_cases c (length h)) as [Hlt|Hge].
    + rewrite nth_error_app1 in Hn by exact Hlt. eapply Ho; eauto.
    + rewrite nth_error_app2 in Hn by exact Hge. destruct (Hl _ _ _ Hn He) as [Hy _]. rewrite Hy. lia.
  - destruct (Nat.lt_ge_cases c (length h)) as [Hlt|Hge].
    + rewrite nth_error_app1 in Hn by exact Hlt. eapply Hw; eauto.
    + rewrite nth_error_app2 in Hn by exact Hge. destruct (Hl _ _ _ Hn He) as [_ Hf]. lia.
Qed.

Lemma gradOf_ext_none (h l : heap) j : List.Forall (fun n => ngrad n = None) l -> length h <= j -> gradOf (h ++ l) j = None.
Proof.
  intros Hl Hj. unfold gradOf. rewrite nth_error_app2 by exact Hj.
  destruct (nth_error l (j - length h)) as [n|] eqn:En; [|reflexivity]. cbn [obind].
  rewrite Forall_forall in Hl. apply Hl. eapply nth_error_In; eauto.
Qed.
End Ext.

Lemma off_neq L a b : (a =? b) = false -> L + a <> L + b.
Proof. intros E X. apply Nat.eqb_neq in E. lia. Qed.

(* ---- tactics shared by the three losses ---- *)
(* facts about the k-th appended node of H = h ++ nodes *)
Tactic Notation "node_edges" constr(h) constr(nodes) constr(H) constr(k) ident(E) :=
  pose proof (edgesOf_off h nodes k) as E; change (h ++ nodes) with H in E; unfold nodes in E;
  cbn [edgesOf nth_error nedges xnode arithEdges] in E.
Tactic Notation "node_tracked" constr(h) constr(nodes) constr(H) constr(k) ident(E) :=
  pose proof (trackedOf_off h nodes k) as E; change (h ++ nodes) with H in E; unfold nodes in E;
  cbn [trackedOf nth_error ntracked xnode] in E.
Tactic Notation "node_val" constr(h) constr(nodes) constr(H) constr(k) ident(E) :=
  pose proof (valOf_off h nodes k) as E; change (h ++ nodes) with H in E; unfold nodes in E;
  cbn [valOf nth_error nval xnode obind] in E.

(* lia without the boolean hypotheses (ZifyBool makes lia split on each of them) *)
Ltac blia := repeat match goal with H : @eq bool _ _ |- _ => clear H end; lia.

(* deciding membership in a visited list of offsets *)
Ltac memb_dec Hp :=
  rewrite ?memb_cons, ?eqb_off, ?(eqb_lt_off _ _ _ Hp), ?(eqb_off_lt _ _ _ Hp); reflexivity.


(* (j =? x) = false for offsets / nodes below the base *)
Ltac eqb_false Hp :=
  first [ rewrite eqb_off; reflexivity | apply eqb_lt_off; exact Hp | apply eqb_off_lt; exact Hp ].
(* evaluating a state built from aupd at a node *)
Ltac aq Hp := repeat first [ rewrite aupd_same | rewrite aupd_other by eqb_false Hp ].

(* states: rewriting with the known values of the initial state *)
Ltac s0q := repeat match goal with E : ?s ?j = _ |- context [?s ?j] =>
                     match type of s with astate => rewrite E end end.
(* one back edge of the abstract fold, innermost first *)
Ltac aedge_step :=
  match goal with
  | |- context [aedge ?thr ?H ?fc ?s (?x, ?r)] =>
      lazymatch s with
      | aedge _ _ _ _ _ => fail
      | _ => first [ rewrite (aedge_tracked thr H fc s x r) by assumption
                   | rewrite (aedge_untracked thr H fc s x r) by assumption ]
      end
  end.
(* one node of the abstract fold, innermost first *)
Ltac anode_step Hp :=
  match goal with
  | |- context [anode ?thr ?H ?s ?c] =>
      lazymatch s with
      | context [anode _ _ _ _] => fail
      | _ => erewrite (anode_some thr H s c) by (aq Hp; s0q; cbv beta iota; reflexivity)
      end
  end;
  match goal with E : edgesOf ?H ?c = _ |- context [edgesOf ?H ?c] => rewrite E end;
  cbn [fold_left]; repeat aedge_step.

(* ---- the exact heap after the clip helper of the losses ---- *)
Lemma nth_error_off2 {X} (h l l' : list X) k : nth_error (h ++ (l ++ l')) (length h + (length l + k)) = nth_error l' k.
Proof. rewrite nth_error_app2 by lia. rewrite nth_error_app2 by lia. f_equal. lia. Qed.

Section ClipX.
Context {A : Type} {SA : Scalar A}.
Notation T := (tensor A).
Notation heap := (@heap A).
Notation c0 := (@cst A SA 0 0).

Lemma valOf_off2 (h l l' : heap) k : valOf (h ++ (l ++ l')) (length h + (length l + k)) = valOf l' k.
Proof. unfold valOf. rewrite nth_error_off2. reflexivity. Qed.
Lemma trackedOf_off2 (h l l' : heap) k : trackedOf (h ++ (l ++ l')) (length h + (length l + k)) = trackedOf l' k.
Proof. unfold trackedOf. rewrite nth_error_off2. reflexivity. Qed.
Lemma dirtyOf_off2 (h l l' : heap) k : dirtyOf (h ++ (l ++ l')) (length h + (length l + k)) = dirtyOf l' k.
Proof. unfold dirtyOf. rewrite nth_error_off2. reflexivity. Qed.

Lemma clip_X (h l : heap) x lo up hA y tr :
  clip (h ++ l) x lo up = (hA, Ok y) -> trackedOf (h ++ l) x = tr -> dirtyOf (h ++ l) x = false ->
  let L := length h in let n := length l in
  exists xv v0 v1 v2 v3 v4, valOf (h ++ l) x = Some xv /\
    v_unary (UPow c0) xv = Ok v0 /\ v_unary (UScale lo) v0 = Ok v1 /\ v_unary (UScale up) v0 = Ok v2 /\
    v_same BiElMin xv v2 = Ok v3 /\ v_same BiElMax v1 v3 = Ok v4 /\ y = L + (n + 4) /\
    hA = h ++ (l ++ [xnode v0 tr [(x, RPow (L + (n + 0)) x c0 true)] None;
                     xnode v1 tr [(L + (n + 0), RScale (L + (n + 1)) lo)] None;
                     xnode v2 tr [(L + (n + 0), RScale (L + (n + 2)) up)] None;
                     xnode v3 tr [(x, RElSel (L + (n + 3)) x (L + (n + 2))); (L + (n + 2), RElSel (L + (n + 3)) (L + (n + 2)) x)] None;
                     xnode v4 tr [(L + (n + 1), RElSel (L + (n + 4)) (L + (n + 1)) (L + (n + 3)));
                                  (L + (n + 3), RElSel (L + (n + 4)) (L + (n + 3)) (L + (n + 1)))] None]).
Proof.
  intros E Et Ed L n. unfold clip in E.
  apply hbind_ok in E as (h1 & one & E1 & E). apply hbind_ok in E as (h2 & lower & E2 & E).
  apply hbind_ok in E as (h3 & upper & E3 & E). apply hbind_ok in E as (h4 & ym & E4 & E5).
  unfold h_pow in E1. apply (op1_X h l _ _ _ _ _ _ tr) in E1; [|exact Et|exact Ed]. destruct E1 as (xv & v0 & Vx & F0 & -> & ->).
  assert (Hx : x < length (h ++ l)) by (eapply valOf_some_lt; eauto).
  assert (Tx : forall l', trackedOf (h ++ (l ++ l')) x = tr).
  { intros l'. rewrite app_assoc, trackedOf_app by exact Hx. exact Et. }
  assert (Dx : forall l', dirtyOf (h ++ (l ++ l')) x = false).
  { intros l'. rewrite app_assoc, dirtyOf_app by exact Hx. exact Ed. }
  assert (Vx' : forall l', valOf (h ++ (l ++ l')) x = Some xv).
  { intros l'. rewrite app_assoc, valOf_app by exact Hx. exact Vx. }
  fold n in E2, E3, E4, E5 |- *. fold L in E2, E3, E4, E5 |- *.
  replace (L + n) with (L + (n + 0)) in * by lia.
  (* lower *)
  unfold h_scale in E2. apply (op1_X h _ _ _ _ _ _ _ tr) in E2;
    [|unfold L, n; rewrite trackedOf_off2; reflexivity|unfold L, n; rewrite dirtyOf_off2; reflexivity].
  destruct E2 as (ov & v1 & Vo & F1 & -> & ->).
  unfold L, n in Vo. rewrite valOf_off2 in Vo. cbn in Vo. inversion Vo; subst ov. clear Vo.
  rewrite <- !app_assoc in *. cbn [app] in *. rewrite !app_length in *. cbn [length] in *. fold n L in E3, E4, E5 |- *.
  (* upper *)
  unfold h_scale in E3. apply (op1_X h _ _ _ _ _ _ _ tr) in E3;
    [|unfold L, n; rewrite trackedOf_off2; reflexivity|unfold L, n; rewrite dirtyOf_off2; reflexivity].
  destruct E3 as (ov & v2 & Vo & F2 & -> & ->).
  unfold L, n in Vo. rewrite valOf_off2 in Vo. cbn in Vo. inversion Vo; subst ov. clear Vo.
  rewrite <- !app_assoc in *. cbn [app] in *. rewrite !app_length in *. cbn [length] in *. fold n L in E4, E5 |- *.
  (* ElMin x upper *)
  apply (elsel_X h _ _ _ _ _ _ _ tr tr) in E4;
    [|apply Tx|unfold L, n; rewrite trackedOf_off2; reflexivity|apply Dx|unfold L, n; rewrite dirtyOf_off2; reflexivity].
  destruct E4 as (xv' & uv & v3 & Vx2 & Vu & F3 & -> & ->).
  rewrite Vx' in Vx2. inversion Vx2; subst xv'. clear Vx2.
  unfold L, n in Vu. rewrite valOf_off2 in Vu. cbn in Vu. inversion Vu; subst uv. clear Vu.
  rewrite orb_diag in *.
  rewrite <- !app_assoc in *. cbn [app] in *. rewrite !app_length in *. cbn [length] in *. fold n L in E5 |- *.
  (* ElMax lower y *)
  apply (elsel_X h _ _ _ _ _ _ _ tr tr) in E5;
    [|unfold L, n; rewrite trackedOf_off2; reflexivity|unfold L, n; rewrite trackedOf_off2; reflexivity
     |unfold L, n; rewrite dirtyOf_off2; reflexivity|unfold L, n; rewrite dirtyOf_off2; reflexivity].
  destruct E5 as (lv & yv & v4 & Vl' & Vy & F4 & -> & ->).
  unfold L, n in Vl', Vy. rewrite valOf_off2 in Vl', Vy. cbn in Vl', Vy. inversion Vl'; subst lv. inversion Vy; subst yv.
  rewrite orb_diag in *.
  rewrite <- !app_assoc in *. cbn [app] in *. rewrite !app_length in *. cbn [length] in *. fold n L.
  exists xv, v0, v1, v2, v3, v4. repeat (split; [assumption|]). split; reflexivity.
Qed.
End ClipX.
