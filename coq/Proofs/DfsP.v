(* DfsP.v — E2: the depth-first search of back-propagation (topologicalOrder.visit).
   [topoOrder h root] is duplicate-free, is exactly the set of tensors reachable from a tracked
   root through back edges with tracked targets, and is [ordered]: every member's tracked edge
   targets occur later in the list (consumers are processed before their operands). *)
From Coq Require Import List Arith ZArith Bool Lia.
From Qeep Require Import Model.Scalar Model.Nd Model.Fill Model.Data Model.Valid Model.Api Model.Grad Model.Backprop.
From Qeep Require Import Proofs.NdP Proofs.TrackP.
Import ListNotations.

Section DfsP.
Context {A : Type} {SA : Scalar A}.
Notation T := (tensor A).
Notation heap := (@heap A).
Notation node := (@node A).
Notation rule := (@rule A).

(* every element's tracked edge targets occur later in the list *)
Fixpoint ordered (h : heap) (p : list nat) : Prop :=
  match p with
  | [] => True
  | n :: r => (forall e, In e (edgesOf h n) -> trackedOf h (fst e) = true -> In (fst e) r) /\ ordered h r
  end.

(* reachable from a tracked root through back edges whose targets are tracked *)
Inductive treach (h : heap) (root : nat) : nat -> Prop :=
| tr_root : trackedOf h root = true -> treach h root root
| tr_step n e : treach h root n -> In e (edgesOf h n) -> trackedOf h (fst e) = true -> treach h root (fst e).

Lemma treach_tracked h root x : treach h root x -> trackedOf h x = true.
Proof. intros H. destruct H as [H|n e _ _ H]; exact H. Qed.

Lemma treach_root_tracked h root x : treach h root x -> trackedOf h root = true.
Proof. intros H. induction H as [H|n e _ IH _ _]; [exact H|exact IH]. Qed.

Lemma edgesOf_wf h n : wf_heap h -> Forall (fun e : nat * rule => fst e < n) (edgesOf h n).
Proof.
  intros W. unfold edgesOf. destruct (nth_error h n) as [nd|] eqn:En; [eapply W; eauto|constructor].
Qed.

Lemma treach_le h root x : wf_heap h -> treach h root x -> x <= root.
Proof.
  intros W H. induction H as [H|n e _ IH He _]; [lia|].
  pose proof (edgesOf_wf h n W) as F. rewrite Forall_forall in F. specialize (F e He). lia.
Qed.

(* a non-root member has a tracked predecessor in the set *)
Lemma treach_pred h root x : treach h root x -> x = root \/
  exists p e, treach h root p /\ In e (edgesOf h p) /\ fst e = x.
Proof.
  intros H. destruct H as [H|n e Hn He Ht]; [left; reflexivity|right]. exists n, e. auto.
Qed.

Lemma treach_under h n e x : trackedOf h n = true -> In e (edgesOf h n) -> treach h (fst e) x -> treach h n x.
Proof.
  intros Hn He H. induction H as [H|m e' _ IH He' Ht'].
  - apply tr_step with (n := n); [apply tr_root; exact Hn|exact He|exact H].
  - eapply tr_step; eauto.
Qed.

Lemma ordered_closed h : forall l n e, ordered h l -> In n l -> In e (edgesOf h n) -> trackedOf h (fst e) = true ->
  In (fst e) l.
Proof.
  induction l as [|a l IH]; intros n e Ho Hn He Ht; [contradiction|].
  cbn in Ho. destruct Ho as [Ha Hl]. destruct Hn as [->|Hn].
  - right. apply Ha; assumption.
  - right. eapply IH; eauto.
Qed.

Lemma ordered_app_inv h : forall l1 l2, ordered h (l1 ++ l2) -> ordered h l2.
Proof.
  induction l1 as [|a l1 IH]; intros l2 H; [exact H|]. cbn in H. apply IH. apply H.
Qed.

(* [ordered] only looks at tracking flags and edges *)
Lemma ordered_ext (h1 h2 : heap) : (forall i, trackedOf h1 i = trackedOf h2 i) -> (forall i, edgesOf h1 i = edgesOf h2 i) ->
  forall l, ordered h1 l -> ordered h2 l.
Proof.
  intros Et Ee. induction l as [|a l IH]; intros H; [exact I|]. cbn in *. destruct H as [Ha Hl].
  split; [|apply IH; exact Hl]. intros e He Ht. rewrite <- Ee in He. rewrite <- Et in Ht. apply Ha; assumption.
Qed.

(* invariant: post ⊆ visited, ordered post, every open node (visited, not in post) is > bound *)
Definition inv (h : heap) (b : nat) (st : list nat * list nat) :=
  incl (snd st) (fst st) /\ ordered h (snd st) /\ NoDup (snd st) /\
  (forall o, In o (fst st) -> ~ In o (snd st) -> b < o) /\ (forall x, In x (snd st) -> trackedOf h x = true).

Definition foldinv (h : heap) (n : nat) (s : list nat * list nat) :=
  incl (snd s) (fst s) /\ ordered h (snd s) /\ NoDup (snd s) /\ (forall x, In x (snd s) -> trackedOf h x = true) /\
  (forall o, In o (fst s) -> ~ In o (snd s) -> n <= o) /\ In n (fst s) /\ ~ In n (snd s).

Lemma dfs_spec h (W : wf_heap h) fuel : forall n st, n < fuel -> inv h n st ->
  let st' := dfs fuel h n st in
  inv h n st' /\
  (exists new, snd st' = new ++ snd st /\ forall x, In x new -> ~ In x (fst st) /\ treach h n x) /\
  incl (fst st) (fst st') /\
  (forall o, In o (fst st') -> ~ In o (snd st') -> In o (fst st) /\ ~ In o (snd st)) /\
  (trackedOf h n = true -> In n (snd st')).
Proof.
  induction fuel as [|f IH]; intros n st Hn Hinv; [lia|]. cbn [dfs].
  destruct (negb (trackedOf h n) || memb n (fst st)) eqn:E.
  - cbn zeta. split; [assumption|]. split; [exists []; split; [reflexivity|intros ? []]|].
    split; [apply incl_refl|]. split; [tauto|].
    intros Ht. rewrite Ht in E. cbn in E. apply memb_in in E.
    destruct Hinv as (_ & _ & _ & Hopen & _). destruct (in_dec Nat.eq_dec n (snd st)) as [Hi|Hni]; [assumption|].
    specialize (Hopen n E Hni). lia.
  - apply orb_false_iff in E. destruct E as [Et Em]. apply negb_false_iff in Et.
    assert (Hnv : ~ In n (fst st)) by (intro X; apply memb_in in X; congruence).
    pose proof (edgesOf_wf h n W) as Hs.
    assert (Hfold : forall es s, Forall (fun e : nat * rule => fst e < n) es -> incl es (edgesOf h n) -> foldinv h n s ->
       let s' := fold_left (fun s e => dfs f h (fst e) s) es s in
       foldinv h n s' /\
       (exists new, snd s' = new ++ snd s /\ forall x, In x new -> ~ In x (fst s) /\ treach h n x) /\
       incl (fst s) (fst s') /\
       (forall o, In o (fst s') -> ~ In o (snd s') -> In o (fst s) /\ ~ In o (snd s)) /\
       (forall e, In e es -> trackedOf h (fst e) = true -> In (fst e) (snd s'))).
    { induction es as [|e es IHes]; intros s Hes Hincl Hs0; cbn [fold_left].
      - split; [assumption|]. split; [exists []; split; [reflexivity|intros ? []]|].
        split; [apply incl_refl|]. split; [tauto|]. intros ? [].
      - inversion Hes as [|? ? Hm Hes']; subst.
        assert (Hein : In e (edgesOf h n)) by (apply Hincl; left; reflexivity).
        assert (Hincl' : incl es (edgesOf h n)) by (intros y Hy; apply Hincl; right; exact Hy).
        destruct Hs0 as (A1 & A2 & A3 & A4 & A5 & A6 & A7).
        assert (Hi : inv h (fst e) s).
        { repeat split; auto. intros o Ho Hno. specialize (A5 o Ho Hno). lia. }
        destruct (IH (fst e) s ltac:(lia) Hi) as (J & (new & Jn & Jf) & Jv & Jo & Jm). cbn zeta in *.
        set (s1 := dfs f h (fst e) s) in *. destruct J as (B1 & B2 & B3 & B4 & B5).
        assert (Hs1 : foldinv h n s1).
        { repeat split; auto.
          - intros o Ho Hno. destruct (Jo o Ho Hno) as [X Y]. apply A5; auto.
          - intros X. rewrite Jn in X. apply in_app_or in X. destruct X as [X|X]; [|tauto].
            apply (proj1 (Jf n X) A6). }
        destruct (IHes s1 Hes' Hincl' Hs1) as (K & (new2 & Kn & Kf) & Kv & Ko & Km). cbn zeta in *.
        split; [assumption|]. split.
        { exists (new2 ++ new). split; [rewrite Kn, Jn, app_assoc; reflexivity|].
          intros x Hx. apply in_app_or in Hx. destruct Hx as [Hx|Hx].
          - destruct (Kf x Hx) as [K1 K2]. split; [|exact K2]. intro Y; apply K1; auto.
          - destruct (Jf x Hx) as [J1 J2]. split; [exact J1|]. eapply treach_under; eauto. }
        split; [eapply incl_tran; eauto|]. split.
        + intros o Ho Hno. destruct (Ko o Ho Hno) as [X Y]. apply Jo; auto.
        + intros e' [<-|He'] Ht'.
          * rewrite Kn. apply in_or_app. right. apply Jm. exact Ht'.
          * apply Km; assumption. }
    destruct Hinv as (I1 & I2 & I3 & I4 & I5).
    assert (H0 : foldinv h n (n :: fst st, snd st)).
    { unfold foldinv; cbn [fst snd]. repeat split; auto.
      - intros x Hx; right; auto.
      - intros o [->|Ho] Hno; [lia|]. specialize (I4 o Ho Hno). lia.
      - left; reflexivity. }
    destruct (Hfold (edgesOf h n) _ Hs (incl_refl _) H0) as (K & (new & Kn & Kf) & Kv & Ko & Km). cbn zeta in *.
    set (st2 := fold_left (fun s e => dfs f h (fst e) s) (edgesOf h n) (n :: fst st, snd st)) in *.
    destruct K as (K1 & K2 & K3 & K4 & K5 & K6 & K7). cbn [fst snd] in *.
    split.
    { unfold inv; cbn [fst snd]. repeat split.
      - intros x [->|Hx]; auto.
      - intros e He Ht. apply Km; auto.
      - assumption.
      - constructor; assumption.
      - intros o Ho Hno. assert (o <> n) by (intro; subst; apply Hno; left; reflexivity).
        assert (n <= o) by (apply K5; auto; intro; apply Hno; right; assumption). lia.
      - intros x [->|Hx]; auto. }
    split.
    { exists (n :: new). split; [cbn; rewrite Kn; reflexivity|].
      intros x [->|Hx].
      - split; [assumption|apply tr_root; exact Et].
      - destruct (Kf x Hx) as [Kf1 Kf2]. split; [|exact Kf2]. intro Y. apply Kf1. right; assumption. }
    split; [intros x Hx; apply Kv; right; assumption|]. split.
    + intros o Ho Hno. assert (o <> n) by (intro; subst; apply Hno; left; reflexivity).
      destruct (Ko o Ho) as [X Y]; [intro; apply Hno; right; assumption|].
      destruct X as [X|X]; [congruence|]. split; assumption.
    + intros _. left; reflexivity.
Qed.

(* ---------- E2: the processing order ---------- *)
Theorem topoOrder_spec (h : heap) root : wf_heap h ->
  NoDup (topoOrder h root) /\ ordered h (topoOrder h root) /\
  (forall x, In x (topoOrder h root) <-> treach h root x).
Proof.
  intros W. unfold topoOrder.
  assert (I0 : inv h root ([], [])).
  { unfold inv; cbn [fst snd]. split; [intros ? []|]. split; [exact I|]. split; [constructor|].
    split; [intros o []|intros x []]. }
  destruct (dfs_spec h W (S root) root ([], []) ltac:(lia) I0) as (J & (new & Jn & Jf) & _ & _ & Jr).
  cbn zeta in *. destruct J as (_ & Jo & Jd & _ & _).
  split; [exact Jd|]. split; [exact Jo|]. intros x. split.
  - intros Hx. rewrite Jn in Hx. cbn [snd] in Hx. rewrite app_nil_r in Hx. apply (Jf x Hx).
  - intros Hx. induction Hx as [Ht|n e _ IHn He Ht]; [apply Jr; exact Ht|].
    eapply ordered_closed; eauto.
Qed.

Corollary topoOrder_NoDup (h : heap) root : wf_heap h -> NoDup (topoOrder h root).
Proof. intros W. apply (topoOrder_spec h root W). Qed.

Corollary topoOrder_ordered (h : heap) root : wf_heap h -> ordered h (topoOrder h root).
Proof. intros W. apply (topoOrder_spec h root W). Qed.

Corollary topoOrder_tracked (h : heap) root x : wf_heap h -> In x (topoOrder h root) -> trackedOf h x = true.
Proof. intros W Hx. apply (topoOrder_spec h root W) in Hx. eapply treach_tracked; eauto. Qed.

Corollary topoOrder_le (h : heap) root x : wf_heap h -> In x (topoOrder h root) -> x <= root.
Proof. intros W Hx. apply (topoOrder_spec h root W) in Hx. eapply treach_le; eauto. Qed.

Corollary topoOrder_root (h : heap) root : wf_heap h -> trackedOf h root = true -> In root (topoOrder h root).
Proof. intros W Ht. apply (topoOrder_spec h root W). apply tr_root. exact Ht. Qed.

Corollary topoOrder_closed (h : heap) root n e : wf_heap h ->
  In n (topoOrder h root) -> In e (edgesOf h n) -> trackedOf h (fst e) = true -> In (fst e) (topoOrder h root).
Proof. intros W Hn He Ht. eapply ordered_closed; eauto. apply topoOrder_ordered. exact W. Qed.

(* every member other than the root is a tracked edge target of another member *)
Corollary topoOrder_pred (h : heap) root x : wf_heap h -> In x (topoOrder h root) -> x <> root ->
  exists p e, In p (topoOrder h root) /\ In e (edgesOf h p) /\ fst e = x /\ x < p.
Proof.
  intros W Hx Hne. apply (topoOrder_spec h root W) in Hx. destruct (treach_pred _ _ _ Hx) as [->|(p & e & Hp & He & Hfe)]; [congruence|].
  exists p, e. split; [apply (topoOrder_spec h root W); exact Hp|]. split; [exact He|]. split; [exact Hfe|].
  pose proof (edgesOf_wf h p W) as F. rewrite Forall_forall in F. specialize (F e He). lia.
Qed.

Lemma topoOrder_untracked (h : heap) root : trackedOf h root = false -> topoOrder h root = [].
Proof. intros H. unfold topoOrder. cbn [dfs]. rewrite H. reflexivity. Qed.

(* the root is processed first *)
Lemma topoOrder_head (h : heap) root : trackedOf h root = true -> exists l, topoOrder h root = root :: l.
Proof. intros H. unfold topoOrder. cbn [dfs]. rewrite H. cbn [negb orb fst memb existsb snd]. eexists. reflexivity. Qed.

End DfsP.

(* example: in the heap of TrackEx the result y = m.Add(c) (id 5) reaches its tracked Broadcast
   operand 3, then m (2), then the leaf x (0); the untracked c (1) and its Broadcast (4) are not reached *)
Module DfsEx.
Import TrackEx.
#[local] Existing Instance Z_scalar.

Example ex_order : topoOrder e5 5 = [5; 3; 2; 0] /\ topoOrder e5 6 = [] /\ topoOrder e5 2 = [2; 0].
Proof. vm_compute. repeat split. Qed.

Example ex_order_spec : NoDup [5; 3; 2; 0] /\ ordered e5 [5; 3; 2; 0] /\ (treach e5 5 0 /\ ~ treach e5 5 4).
Proof.
  destruct (topoOrder_spec e5 5 ex_wf) as (Hnd & Ho & Hr). destruct ex_order as (E & _). rewrite E in *.
  split; [exact Hnd|]. split; [exact Ho|]. split.
  - apply Hr. right; right; right; left; reflexivity.
  - intros X. apply Hr in X. cbn in X. intuition discriminate.
Qed.
End DfsEx.

Print Assumptions topoOrder_spec.
Print Assumptions topoOrder_pred.
