(* GoValidP3.v — the validators of tensor/internal/validator/shape_modifiers.go as translated by harness/gox
   (Model/GoFns.v) compute the hand-written model functions of Model/Valid.v, for all inputs:
   dimsToNumElems, ValidateUnSqueezeDimAgainstDims, ValidateFlattenDimAgainstDims, ValidateSqueezeDimAgainstDims,
   ValidateReshapeSourceDimsAgainstTargetDims, ValidateBroadcastSourceDimsAgainstTargetDims.
   Style: see coq/GOIR_NOTES.md and Proofs/GoValidAtP.v. *)
From Coq Require Import String List ZArith Bool Lia Arith.
From Qeep Require Import Model.GoIR Model.GoFns Model.Nd Model.Valid Proofs.GoIRP.
Import ListNotations.
Local Open Scope string_scope.
Local Open Scope Z_scope.
Local Open Scope list_scope.

(* ====================================================================== *)
(* 1. dimsToNumElems                                                      *)
(* ====================================================================== *)

(* the range loop of dimsToNumElems, for any body that behaves like the Go body *)
Lemma numElems_loop (body : env -> outcome) :
  (forall e k d a, lookup e "elems" = Some (VI a) ->
     exists e1, body (upd (upd e "_" (VI k)) "dim" (VI d)) = ONormal e1 /\
                lookup e1 "elems" = Some (VI (a * d))) ->
  forall (dims : list Z) (k : Z) (e : env) (a : Z),
  lookup e "elems" = Some (VI a) ->
  exists e', rangeLoop body "_" "dim" (map VI dims) k e = ONormal e' /\
             lookup e' "elems" = Some (VI (fold_left Z.mul dims a)).
Proof.
  intros Hb. induction dims as [|d dims IH]; intros k e a He.
  - cbn. eauto.
  - cbn [map rangeLoop fold_left].
    destruct (Hb e k d a He) as [e1 [Hb1 He1]]. rewrite Hb1.
    apply IH. exact He1.
Qed.

Theorem go_dimsToNumElems call fuel (dims : list Z) :
  exec call fuel (fbody GoFns.dimsToNumElems) [("dims", ints dims)]
  = ORet [VI (Valid.dimsToNumElems dims)].
Proof.
  unfold Valid.dimsToNumElems, GoFns.dimsToNumElems. cbn [fbody].
  gxs.
  match goal with |- context [rangeLoop ?b _ _ _ _ ?e0] =>
    assert (Hspec : forall e k d a, lookup e "elems" = Some (VI a) ->
       exists e1, b (upd (upd e "_" (VI k)) "dim" (VI d)) = ONormal e1 /\
                  lookup e1 "elems" = Some (VI (a * d)));
    [| destruct (numElems_loop b Hspec dims 0 e0 1 eq_refl) as [e' [Hl He']]]
  end.
  - intros e k d a He. gxs. rewrite He. gxs. eexists. split; [reflexivity|]. now lk.
  - rewrite Hl. gxs. rewrite He'. reflexivity.
Qed.

Corollary run_dimsToNumElems fuel (dims : list Z) :
  run ftab fuel GoFns.dimsToNumElems [ints dims] = ORet [VI (Valid.dimsToNumElems dims)].
Proof. unfold run. cbn [fparams GoFns.dimsToNumElems bindArgs]. apply go_dimsToNumElems. Qed.

(* the call-level fact used by callers (note 5 of GOIR_NOTES.md) *)
Lemma callD_dimsToNumElems fuel d (dims : list Z) :
  callD ftab fuel (S d) "dimsToNumElems" [ints dims] = ORet [VI (Valid.dimsToNumElems dims)].
Proof.
  cbn [callD].
  assert (Hf : lookupFn ftab "dimsToNumElems" = Some GoFns.dimsToNumElems) by (vm_compute; reflexivity).
  assert (Hp : bindArgs (fparams GoFns.dimsToNumElems) [ints dims] = Some [("dims", ints dims)]) by reflexivity.
  rewrite Hf, Hp. now rewrite go_dimsToNumElems.
Qed.

(* ====================================================================== *)
(* 2. UnSqueeze / Flatten / Squeeze dimension validators                  *)
(* ====================================================================== *)

Theorem go_ValidateUnSqueezeDimAgainstDims call fuel (dim : Z) (dims : list Z) :
  exec call fuel (fbody ValidateUnSqueezeDimAgainstDims) [("dim", VI dim); ("dims", ints dims)]
  = ORet [errOf (validateUnSqueezeDim dim dims)].
Proof.
  unfold validateUnSqueezeDim, ValidateUnSqueezeDimAgainstDims, zlen. cbn [fbody].
  gxs. rewrite !zlenV_map.
  destruct (0 <=? dim) eqn:E0; gxs.
  - destruct (dim <=? Z.of_nat (length dims)) eqn:E1; gxs; reflexivity.
  - reflexivity.
Qed.

Corollary run_ValidateUnSqueezeDimAgainstDims fuel (dim : Z) (dims : list Z) :
  run ftab fuel ValidateUnSqueezeDimAgainstDims [VI dim; ints dims]
  = ORet [errOf (validateUnSqueezeDim dim dims)].
Proof. unfold run. cbn [fparams ValidateUnSqueezeDimAgainstDims bindArgs]. apply go_ValidateUnSqueezeDimAgainstDims. Qed.

Theorem go_ValidateFlattenDimAgainstDims call fuel (dim : Z) (dims : list Z) :
  exec call fuel (fbody ValidateFlattenDimAgainstDims) [("dim", VI dim); ("dims", ints dims)]
  = ORet [errOf (validateFlattenDim dim dims)].
Proof.
  unfold validateFlattenDim, ValidateFlattenDimAgainstDims, zlen. cbn [fbody].
  gxs. rewrite !zlenV_map.
  destruct (0 <=? dim) eqn:E0; gxs.
  - destruct (dim <? Z.of_nat (length dims)) eqn:E1; gxs; reflexivity.
  - reflexivity.
Qed.

Corollary run_ValidateFlattenDimAgainstDims fuel (dim : Z) (dims : list Z) :
  run ftab fuel ValidateFlattenDimAgainstDims [VI dim; ints dims]
  = ORet [errOf (validateFlattenDim dim dims)].
Proof. unfold run. cbn [fparams ValidateFlattenDimAgainstDims bindArgs]. apply go_ValidateFlattenDimAgainstDims. Qed.

Theorem go_ValidateSqueezeDimAgainstDims call fuel (dim : Z) (dims : list Z) :
  exec call fuel (fbody ValidateSqueezeDimAgainstDims) [("dim", VI dim); ("dims", ints dims)]
  = ORet [errOf (validateSqueezeDim dim dims)].
Proof.
  unfold validateSqueezeDim, ValidateSqueezeDimAgainstDims, zlen. cbn [fbody].
  gxs. rewrite !zlenV_map.
  destruct (0 <=? dim) eqn:E0; gxs; [|reflexivity].
  destruct (dim <? Z.of_nat (length dims)) eqn:E1; gxs; [|reflexivity].
  apply Z.leb_le in E0. apply Z.ltb_lt in E1.
  rewrite !idxOf_nonneg by exact E0. rewrite !nth_error_map_VI.
  destruct (nth_error dims (Z.to_nat dim)) as [d|] eqn:En.
  2:{ apply nth_error_None in En. lia. }
  cbn [option_map]. gxs.
  destruct (d =? 1) eqn:Ed; gxs; reflexivity.
Qed.

Corollary run_ValidateSqueezeDimAgainstDims fuel (dim : Z) (dims : list Z) :
  run ftab fuel ValidateSqueezeDimAgainstDims [VI dim; ints dims]
  = ORet [errOf (validateSqueezeDim dim dims)].
Proof. unfold run. cbn [fparams ValidateSqueezeDimAgainstDims bindArgs]. apply go_ValidateSqueezeDimAgainstDims. Qed.

(* ====================================================================== *)
(* 3. ValidateReshapeSourceDimsAgainstTargetDims                          *)
(* ====================================================================== *)

(* for ANY call oracle that answers "dimsToNumElems" like the model *)
Theorem go_ValidateReshape_gen call fuel (src dst : list Z) :
  (forall l, call "dimsToNumElems" [ints l] = ORet [VI (Valid.dimsToNumElems l)]) ->
  exec call fuel (fbody ValidateReshapeSourceDimsAgainstTargetDims) [("srcDims", ints src); ("dstDims", ints dst)]
  = ORet [errOf (validateReshape src dst)].
Proof.
  intros Hcall.
  unfold validateReshape, ValidateReshapeSourceDimsAgainstTargetDims. cbn [fbody].
  gxs. fold (ints src). rewrite Hcall. cbn [assignAll]. gxs.
  fold (ints dst). rewrite Hcall. cbn [assignAll]. gxs.
  destruct (Valid.dimsToNumElems dst =? Valid.dimsToNumElems src) eqn:E; gxs; reflexivity.
Qed.

(* the translated program with the translated callee (call depth >= 1) *)
Theorem go_ValidateReshapeSourceDimsAgainstTargetDims fuel d (src dst : list Z) :
  exec (callD ftab fuel (S d)) fuel (fbody ValidateReshapeSourceDimsAgainstTargetDims)
       [("srcDims", ints src); ("dstDims", ints dst)]
  = ORet [errOf (validateReshape src dst)].
Proof. apply go_ValidateReshape_gen. intros l. apply callD_dimsToNumElems. Qed.

Corollary run_ValidateReshapeSourceDimsAgainstTargetDims fuel (src dst : list Z) :
  (1 <= fuel)%nat ->
  run ftab fuel ValidateReshapeSourceDimsAgainstTargetDims [ints src; ints dst]
  = ORet [errOf (validateReshape src dst)].
Proof.
  intros Hf. destruct fuel as [|f]; [lia|].
  unfold run. cbn [fparams ValidateReshapeSourceDimsAgainstTargetDims bindArgs].
  apply go_ValidateReshapeSourceDimsAgainstTargetDims.
Qed.

(* ====================================================================== *)
(* 4. ValidateBroadcastSourceDimsAgainstTargetDims                        *)
(* ====================================================================== *)

Lemma firstn_S_nth {T} (l : list T) (n : nat) (x : T) :
  nth_error l n = Some x -> firstn (S n) l = firstn n l ++ [x].
Proof.
  revert n. induction l as [|a l IH]; intros [|n] Hn; cbn in Hn; try discriminate.
  - now inversion Hn.
  - change (firstn (S (S n)) (a :: l)) with (a :: firstn (S n) l). rewrite (IH n Hn). reflexivity.
Qed.

(* the [for i > 0] loop of ValidateBroadcastSourceDimsAgainstTargetDims, for any condition / body / post
   that behave like the Go ones *)
Lemma bcast_loop (src dst : list Z) (cond : env -> option val) (body post : env -> outcome) :
  (forall e z, lookup e "i" = Some (VI z) -> cond e = Some (VB (z >? 0))) ->
  (forall e, post e = ONormal e) ->
  (forall e n m s d,
     lookup e "srcDims" = Some (ints src) -> lookup e "dstDims" = Some (ints dst) ->
     lookup e "i" = Some (VI (Z.of_nat (S n))) -> lookup e "j" = Some (VI (Z.of_nat (S m))) ->
     nth_error src n = Some s -> nth_error dst m = Some d ->
     body e = if (s =? d) || (s =? 1)
              then ONormal (upd (upd e "i" (VI (Z.of_nat n))) "j" (VI (Z.of_nat m)))
              else ORet [VI 1]) ->
  forall (n m fuel : nat) (e : env),
  (n <= m)%nat -> (n <= length src)%nat -> (m <= length dst)%nat -> (n < fuel)%nat ->
  lookup e "srcDims" = Some (ints src) -> lookup e "dstDims" = Some (ints dst) ->
  lookup e "i" = Some (VI (Z.of_nat n)) -> lookup e "j" = Some (VI (Z.of_nat m)) ->
  (bcastOkRev (rev (firstn n src)) (rev (firstn m dst)) = true ->
     exists e', forLoop fuel cond body post e = ONormal e') /\
  (bcastOkRev (rev (firstn n src)) (rev (firstn m dst)) = false ->
     forLoop fuel cond body post e = ORet [VI 1]).
Proof.
  intros Hc Hp Hb. induction n as [|n IH]; intros m fuel e Hnm Hns Hmd Hf Hs Hd Hi Hj.
  - destruct fuel as [|fuel]; [lia|]. cbn [forLoop]. rewrite (Hc _ _ Hi). cbn.
    split; [eauto | discriminate].
  - destruct fuel as [|fuel]; [lia|]. destruct m as [|m]; [lia|].
    cbn [forLoop]. rewrite (Hc _ _ Hi).
    replace (Z.of_nat (S n) >? 0) with true by (symmetry; rewrite Z.gtb_ltb; apply Z.ltb_lt; lia).
    destruct (nth_error src n) as [s|] eqn:Ens.
    2:{ apply nth_error_None in Ens. lia. }
    destruct (nth_error dst m) as [d|] eqn:End.
    2:{ apply nth_error_None in End. lia. }
    rewrite (Hb e n m s d Hs Hd Hi Hj Ens End).
    rewrite (firstn_S_nth _ _ _ Ens), (firstn_S_nth _ _ _ End), !rev_app_distr.
    cbn [rev app bcastOkRev].
    destruct ((s =? d) || (s =? 1)) eqn:E; cbn [andb].
    + rewrite Hp. apply IH; try lia; now lk.
    + split; [discriminate | reflexivity].
Qed.

Theorem go_ValidateBroadcastSourceDimsAgainstTargetDims call fuel (src dst : list Z) :
  (S (length src) <= fuel)%nat ->
  exec call fuel (fbody ValidateBroadcastSourceDimsAgainstTargetDims) [("srcDims", ints src); ("dstDims", ints dst)]
  = ORet [errOf (validateBroadcast src dst)].
Proof.
  intros Hfuel.
  unfold validateBroadcast, ValidateBroadcastSourceDimsAgainstTargetDims. cbn [fbody].
  gxs. rewrite !zlenV_map.
  destruct (length src <=? length dst)%nat eqn:El.
  - apply Nat.leb_le in El.
    replace (Z.of_nat (length src) >? Z.of_nat (length dst)) with false
      by (symmetry; rewrite Z.gtb_ltb; apply Z.ltb_ge; lia).
    gxs. cbn [andb].
    match goal with |- context [forLoop _ ?c ?b ?p ?e0] =>
      assert (Hc : forall e z, lookup e "i" = Some (VI z) -> c e = Some (VB (z >? 0)));
      [| assert (Hp : forall e, p e = ONormal e);
         [| assert (Hb : forall e n m s d,
              lookup e "srcDims" = Some (ints src) -> lookup e "dstDims" = Some (ints dst) ->
              lookup e "i" = Some (VI (Z.of_nat (S n))) -> lookup e "j" = Some (VI (Z.of_nat (S m))) ->
              nth_error src n = Some s -> nth_error dst m = Some d ->
              b e = if (s =? d) || (s =? 1)
                    then ONormal (upd (upd e "i" (VI (Z.of_nat n))) "j" (VI (Z.of_nat m)))
                    else ORet [VI 1]);
            [| destruct (bcast_loop src dst c b p Hc Hp Hb (length src) (length dst) fuel e0
                           El (Nat.le_refl _) (Nat.le_refl _) Hfuel eq_refl eq_refl eq_refl eq_refl) as [HT HF]]]]
    end.
    + intros e z Hi. cbn beta. gxs. rewrite Hi. gxs. reflexivity.
    + intros e. gxs. reflexivity.
    + intros e n m s d Hs Hd Hi Hj Ens End. gxs. rewrite Hi. gxs.
      rewrite ?Hs, ?Hd, ?Hj. gxs.
      replace (Z.of_nat (S n) - 1) with (Z.of_nat n) by lia.
      replace (Z.of_nat (S m) - 1) with (Z.of_nat m) by lia.
      rewrite ?Hs, ?Hd. gxs.
      rewrite !idxOf_nat, !nth_error_map_VI, Ens, End. cbn [option_map]. gxs.
      destruct (s =? d) eqn:E1; gxs.
      * reflexivity.
      * destruct (s =? 1) eqn:E2; gxs; [reflexivity|].
        rewrite ?Hs, ?Hd. gxs.
        rewrite ?idxOf_nat, ?nth_error_map_VI, ?Ens, ?End. cbn [option_map]. gxs. reflexivity.
    + rewrite !firstn_all in HT, HF.
      destruct (bcastOkRev (rev src) (rev dst)).
      * destruct (HT eq_refl) as [e' He']. rewrite He'. gxs. reflexivity.
      * rewrite (HF eq_refl). reflexivity.
  - apply Nat.leb_gt in El.
    replace (Z.of_nat (length src) >? Z.of_nat (length dst)) with true
      by (symmetry; rewrite Z.gtb_ltb; apply Z.ltb_lt; lia).
    gxs. reflexivity.
Qed.

Corollary run_ValidateBroadcastSourceDimsAgainstTargetDims fuel (src dst : list Z) :
  (S (length src) <= fuel)%nat ->
  run ftab fuel ValidateBroadcastSourceDimsAgainstTargetDims [ints src; ints dst]
  = ORet [errOf (validateBroadcast src dst)].
Proof.
  intros Hf. unfold run. cbn [fparams ValidateBroadcastSourceDimsAgainstTargetDims bindArgs].
  now apply go_ValidateBroadcastSourceDimsAgainstTargetDims.
Qed.

(* ====================================================================== *)
(* concrete runs of the translated programs                               *)
(* ====================================================================== *)

Example ex_dimsToNumElems : run ftab 0 GoFns.dimsToNumElems [ints [2; 3; 4]] = ORet [VI 24].
Proof. vm_compute; reflexivity. Qed.
Example ex_unsqueeze_ok : run ftab 0 ValidateUnSqueezeDimAgainstDims [VI 2; ints [2; 3]] = ORet [VI 0].
Proof. vm_compute; reflexivity. Qed.
Example ex_unsqueeze_err : run ftab 0 ValidateUnSqueezeDimAgainstDims [VI 3; ints [2; 3]] = ORet [VI 1].
Proof. vm_compute; reflexivity. Qed.
Example ex_flatten_ok : run ftab 0 ValidateFlattenDimAgainstDims [VI 1; ints [2; 3]] = ORet [VI 0].
Proof. vm_compute; reflexivity. Qed.
Example ex_flatten_err : run ftab 0 ValidateFlattenDimAgainstDims [VI 2; ints [2; 3]] = ORet [VI 1].
Proof. vm_compute; reflexivity. Qed.
Example ex_squeeze_ok : run ftab 0 ValidateSqueezeDimAgainstDims [VI 1; ints [2; 1; 3]] = ORet [VI 0].
Proof. vm_compute; reflexivity. Qed.
Example ex_squeeze_err : run ftab 0 ValidateSqueezeDimAgainstDims [VI 2; ints [2; 1; 3]] = ORet [VI 1].
Proof. vm_compute; reflexivity. Qed.
Example ex_squeeze_neg : run ftab 0 ValidateSqueezeDimAgainstDims [VI (-1); ints [2; 1; 3]] = ORet [VI 1].
Proof. vm_compute; reflexivity. Qed.
Example ex_reshape_ok : run ftab 1 ValidateReshapeSourceDimsAgainstTargetDims [ints [2; 6]; ints [3; 2; 2]] = ORet [VI 0].
Proof. vm_compute; reflexivity. Qed.
Example ex_reshape_err : run ftab 1 ValidateReshapeSourceDimsAgainstTargetDims [ints [2; 6]; ints [3; 2; 3]] = ORet [VI 1].
Proof. vm_compute; reflexivity. Qed.
(* call depth 0 is not enough for the two calls: the fuel bound of run_ValidateReshape… is tight *)
Example ex_reshape_fuel0 : run ftab 0 ValidateReshapeSourceDimsAgainstTargetDims [ints [2; 6]; ints [3; 4]] = OFuel.
Proof. vm_compute; reflexivity. Qed.
Example ex_bcast_ok : run ftab 3 ValidateBroadcastSourceDimsAgainstTargetDims [ints [1; 3]; ints [5; 4; 3]] = ORet [VI 0].
Proof. vm_compute; reflexivity. Qed.
Example ex_bcast_err : run ftab 3 ValidateBroadcastSourceDimsAgainstTargetDims [ints [2; 3]; ints [5; 4; 3]] = ORet [VI 1].
Proof. vm_compute; reflexivity. Qed.
Example ex_bcast_long : run ftab 0 ValidateBroadcastSourceDimsAgainstTargetDims [ints [1; 1; 3]; ints [4; 3]] = ORet [VI 1].
Proof. vm_compute; reflexivity. Qed.
(* the fuel bound S (length src) is tight: with length src units the loop runs out on a valid input *)
Example ex_bcast_fuel_tight : run ftab 2 ValidateBroadcastSourceDimsAgainstTargetDims [ints [1; 3]; ints [5; 4; 3]] = OFuel.
Proof. vm_compute; reflexivity. Qed.

Print Assumptions go_dimsToNumElems.
Print Assumptions run_dimsToNumElems.
Print Assumptions go_ValidateUnSqueezeDimAgainstDims.
Print Assumptions run_ValidateUnSqueezeDimAgainstDims.
Print Assumptions go_ValidateFlattenDimAgainstDims.
Print Assumptions run_ValidateFlattenDimAgainstDims.
Print Assumptions go_ValidateSqueezeDimAgainstDims.
Print Assumptions run_ValidateSqueezeDimAgainstDims.
Print Assumptions go_ValidateReshape_gen.
Print Assumptions go_ValidateReshapeSourceDimsAgainstTargetDims.
Print Assumptions run_ValidateReshapeSourceDimsAgainstTargetDims.
Print Assumptions go_ValidateBroadcastSourceDimsAgainstTargetDims.
Print Assumptions run_ValidateBroadcastSourceDimsAgainstTargetDims.
