(* FcRP.v — the fully connected layer read over the real numbers (property C16):
   the exact expression  ((0 + (0 + W_o*x_b0)) + (0 + W_o*x_b1) + ...) + B_o  of FcP.v is
   W_o * (Σ_d x_{b,d}) + B_o. *)
From Coq Require Import List Arith Lia Reals Lra.
From Qeep Require Import Model.Scalar Model.Nd Model.Data Model.Api Model.Grad Model.Components.
From Qeep Require Import Proofs.NdP Proofs.MatMulP Proofs.CompP Proofs.FcP Spec.RScalar Proofs.ReduceRP.
Import ListNotations.
Open Scope R_scope.

(* finite-sum algebra *)
Lemma fold_fc_R (w : R) xs : forall a, fold_left Rplus (map (fun x => 0 + w * x) xs) a = a + w * Rsum xs.
Proof.
  induction xs as [|x xs IH]; intros a; cbn [map fold_left Rsum fold_right]; [ring|].
  rewrite IH. unfold Rsum. ring.
Qed.

Section R.
Variable thr : R.
Variable draw : bool -> nat -> R.
Local Instance RS : Scalar R := R_scalar thr draw.
Notation T := (tensor R).

(* row bi of the input, as a list *)
Definition rowOf (xv : T) (F bi : nat) : list R := map (fun d => elt (data xv) [bi; d]) (seq 0 F).

Theorem fcEl_R (wv bv xv : T) (F bi o : nat) :
  fcEl wv bv xv F bi o = elt (data wv) [o] * Rsum (rowOf xv F bi) + elt (data bv) [o].
Proof.
  unfold fcEl, fcSum, rowOf. cbn [sadd smul s0 RS R_scalar].
  rewrite <- (map_map (fun d => elt (data xv) [bi; d]) (fun x => 0 + elt (data wv) [o] * x)).
  rewrite fold_fc_R. ring.
Qed.

(* C16 over the reals: y[b][o] = W[o] * Σ_d x[b][d] + B[o] *)
Theorem fc_forward_spec_R (h : @heap R) w b x name (wv bv xv : T) O B F :
  valOf h w = Some wv -> valOf h b = Some bv -> valOf h x = Some xv ->
  wf wv -> wf bv -> wf xv -> dims wv = [O] -> dims bv = [O] -> dims xv = [B; F] ->
  exists r, produces h (fc_forward h w b [Some x] name) r name /\ dims r = [B; O] /\ wf r /\
    forall bi o, (bi < B)%nat -> (o < O)%nat ->
      exists Wo Bo xs,
        get (data wv) [o] = Some Wo /\ get (data bv) [o] = Some Bo /\
        map Some xs = map (fun d => get (data xv) [bi; d]) (seq 0 F) /\
        get (data r) [bi; o] = Some (Wo * Rsum xs + Bo).
Proof.
  intros Hw Hb Hx Ww Wb Wx Ew Eb Ex.
  destruct (fc_forward_spec h w b x name wv bv xv O B F Hw Hb Hx Ww Wb Wx Ew Eb Ex) as (r & P & D & Wr & G).
  exists r. split; [exact P|]. split; [exact D|]. split; [exact Wr|]. intros bi o Hbi Ho.
  exists (elt (data wv) [o]), (elt (data bv) [o]), (rowOf xv F bi).
  destruct (fc_sizes_pos wv xv O B F Ww Wx Ew Ex) as (_ & _ & HF).
  destruct (fc_operands wv bv xv O B F Ww Wb Wx Ew Eb Ex bi o 0 Hbi Ho HF) as (E1 & E2 & _).
  split; [exact E1|]. split; [exact E2|]. split.
  - unfold rowOf. rewrite map_map. apply map_ext_in. intros d Hd. apply in_seq in Hd.
    destruct (fc_operands wv bv xv O B F Ww Wb Wx Ew Eb Ex bi o d Hbi Ho ltac:(lia)) as (_ & _ & E3).
    symmetry. exact E3.
  - rewrite (G bi o Hbi Ho). f_equal. apply (fcEl_R wv bv xv F bi o).
Qed.

End R.

(* non-vacuity of the hypotheses: well-formed real tensors of the required shapes *)
Example fc_R_hyp : exists wv bv xv : tensor R,
  wf wv /\ wf bv /\ wf xv /\ dims wv = [2%nat] /\ dims bv = [2%nat] /\ dims xv = [1%nat; 2%nat].
Proof.
  exists (mkT [2%nat] (Vec [Sc 2; Sc 3])), (mkT [2%nat] (Vec [Sc 10; Sc 20])), (mkT [1%nat; 2%nat] (Vec [Vec [Sc 1; Sc 5]])).
  repeat split; cbn; repeat constructor.
Qed.

(* the finite-sum identity on a concrete row: (0 + (0 + 2*1)) + (0 + 2*5) = 2 * (1 + 5) *)
Example fold_fc_R_ex : fold_left Rplus (map (fun x => 0 + 2 * x) [1; 5]) 0 = 2 * Rsum [1; 5].
Proof. rewrite fold_fc_R. ring. Qed.

Print Assumptions fcEl_R.
Print Assumptions fc_forward_spec_R.
