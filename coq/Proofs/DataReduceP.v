(* DataReduceP.v — CPUTensor.reduceByAssociativeFunc (tensor/internal/cputensor/reducers.go) as translated by
   harness/gox into the DataIR program GoData.d_reduceByAssociativeFunc computes Model/Data.v trav / reduceBy.
   The recursive closure [trav] updates the CAPTURED variable [value], which lives in the environment g. *)
From Coq Require Import String List ZArith Bool Lia Arith.
From Qeep Require Import Model.Scalar Model.Nd Model.Data Model.DataIR Model.GoData Proofs.DataIRP.
From Qeep Require Model.GoIR.
Import ListNotations.
Local Open Scope string_scope.
Local Open Scope Z_scope.
Local Open Scope list_scope.

Section DataReduce.
Context {A : Type} {SA : Scalar A}.
Variable fapp : string -> list A -> option A.
Variables (St : Type) (ext : string -> list (@dval A) -> St -> option (list (@dval A) * St)).
Variable af : A -> A -> A.
Hypothesis fapp_af : forall v a, fapp "af" [v; a] = Some (af v a).

Notation locals := (plocals d_reduceByAssociativeFunc).

Lemma emb_Vec' (l : list (nd A)) : emb (Vec l) = DL (map emb l).
Proof. cbn [emb]. apply f_equal. induction l as [|y r IH]; cbn [map]; [reflexivity | f_equal; exact IH]. Qed.

(* The captured environment: [value] holds a float.  Nothing else is required of g: the parameters dims, data and
   the closure's own locals rows, i, _ (defined with TDef / range variables) shadow whatever g holds under these
   names. *)
Definition gok (g : @denv A) (v0 : A) : Prop := dlookup g "value" = Some (DF v0).

(* g' is g with value := v *)
Definition gpost (g g' : @denv A) (v : A) : Prop :=
  dlookup g' "value" = Some (DF v) /\ forall y, y <> "value" -> dlookup g' y = dlookup g y.

Lemma gpost_refl g v0 : gok g v0 -> gpost g g v0.
Proof. intros H. split; auto. Qed.

Lemma gpost_ok g g' v0 v : gok g v0 -> gpost g g' v -> gok g' v.
Proof.
  intros _ [Hv Hy]. exact Hv.
Qed.

Lemma gpost_trans g g1 g2 v1 v2 : gpost g g1 v1 -> gpost g1 g2 v2 -> gpost g g2 v2.
Proof.
  intros [_ H1] [Hv H2]. split; [exact Hv|]. intros y Hy. rewrite H2, H1; auto.
Qed.

(* the loop  for i := range rows { trav(dims, rows[i]) }  for any body behaving like the call *)
Lemma trav_loop (body : St -> denv -> denv -> @doutcome A St)
      (assign : denv -> denv -> Z -> @dval A -> denv * denv) (ds' : list nat) :
  (forall g l k v, assign g l k v = (g, dupd (dupd l "i" (DI k)) "_" v)) ->
  (forall s g l k (r : nd A) v0 m,
      dlookup l "dims" = Some (dnats ds') -> dlookup l "rows" = Some (DL m) ->
      dlookup l "i" = Some (DI (Z.of_nat k)) -> nth_error m k = Some (emb r) -> gok g v0 ->
      match trav af ds' r v0 with
      | Some v => exists g', body s g l = DNormal St s g' l /\ gpost g g' v
      | None => body s g l = DPanic St
      end) ->
  forall (rest pre : list (nd A)) s g l v0,
  dlookup l "dims" = Some (dnats ds') -> dlookup l "rows" = Some (DL (map emb (pre ++ rest))) -> gok g v0 ->
  match foldM (fun v r => trav af ds' r v) rest v0 with
  | Some v => exists g' l', drangeLoop St body assign (map emb rest) (Z.of_nat (length pre)) s g l = DNormal St s g' l' /\
                            gpost g g' v
  | None => drangeLoop St body assign (map emb rest) (Z.of_nat (length pre)) s g l = DPanic St
  end.
Proof.
  intros Hasg Hbody. induction rest as [|a rest IH]; intros pre s g l v0 Hd Hr Hg.
  - cbn. exists g, l. split; [reflexivity | now apply gpost_refl].
  - cbn [map drangeLoop foldM].
    rewrite (Hasg g l _ _).
    set (l0 := dupd (dupd l "i" (DI (Z.of_nat (length pre)))) "_" (emb a)).
    assert (Hd0 : dlookup l0 "dims" = Some (dnats ds')).
    { unfold l0. rewrite !dlookup_dupd. cbn [String.eqb Ascii.eqb Bool.eqb]. exact Hd. }
    assert (Hr0 : dlookup l0 "rows" = Some (DL (map emb (pre ++ a :: rest)))).
    { unfold l0. rewrite !dlookup_dupd. cbn [String.eqb Ascii.eqb Bool.eqb]. exact Hr. }
    assert (Hi0 : dlookup l0 "i" = Some (DI (Z.of_nat (length pre)))).
    { unfold l0. rewrite !dlookup_dupd. cbn [String.eqb Ascii.eqb Bool.eqb]. reflexivity. }
    assert (Hn : nth_error (map emb (pre ++ a :: rest)) (length pre) = Some (emb a)).
    { rewrite nth_error_map, nth_error_app2, Nat.sub_diag by lia. reflexivity. }
    pose proof (Hbody s g l0 (length pre) a v0 _ Hd0 Hr0 Hi0 Hn Hg) as Hb.
    destruct (trav af ds' a v0) as [v1|]; cbn [obind].
    + destruct Hb as [g1 [Hb Hp]]. rewrite Hb.
      assert (Hr1 : dlookup l0 "rows" = Some (DL (map emb ((pre ++ [a]) ++ rest)))).
      { rewrite <- app_assoc. exact Hr0. }
      pose proof (IH (pre ++ [a]) s g1 l0 v1 Hd0 Hr1 (gpost_ok _ _ _ _ Hg Hp)) as H1.
      rewrite app_length in H1. cbn [length] in H1.
      replace (Z.of_nat (length pre + 1)) with (Z.of_nat (length pre) + 1) in H1 by lia.
      destruct (foldM (fun v r => trav af ds' r v) rest v1) as [v|].
      * destruct H1 as [g' [l' [H1 Hp']]]. exists g', l'. split; [exact H1 | exact (gpost_trans _ _ _ _ _ Hp Hp')].
      * exact H1.
    + rewrite Hb. reflexivity.
Qed.

Lemma dlen_cons_eqb (a : @dval A) m : (dlen (a :: m) =? 0) = false.
Proof. unfold dlen. cbn [length]. apply Z.eqb_neq. lia. Qed.

Lemma sub1_cons (a : @dval A) m :
  (if (0 <=? 1) && (1 <=? dlen (a :: m)) && (dlen (a :: m) <=? dlen (a :: m))
   then Some (DL (firstn (Z.to_nat (dlen (a :: m) - 1)) (skipn (Z.to_nat 1) (a :: m))))
   else @None (@dval A)) = Some (DL m).
Proof.
  assert (H1 : (1 <=? dlen (a :: m)) = true) by (apply Z.leb_le; unfold dlen; cbn [length]; lia).
  rewrite H1, Z.leb_refl. cbn [Z.leb Z.compare andb].
  replace (Z.to_nat (dlen (a :: m) - 1)) with (length m) by (unfold dlen; cbn [length]; lia).
  change (Z.to_nat 1) with 1%nat. cbn [skipn]. now rewrite firstn_all.
Qed.

Lemma callLD_S (fuel d : nat) f vs s (g : @denv A) :
  callLD fapp St ext locals fuel (S d) f vs s g =
  match dlookupFn locals f with
  | Some fd =>
      match dbind (dparams fd) vs with
      | Some l0 =>
          match dexec fapp St ext (callLD fapp St ext locals fuel d) fuel false (dbody fd) s g l0 with
          | DNormal _ s1 g1 l1 | DRet _ _ s1 g1 l1 =>
              match ptrOuts (dparams fd) l1 with Some outs => CRet St outs s1 g1 | None => CPanic St end
          | DFuel _ => CFuel St
          | _ => CPanic St
          end
      | None => CPanic St
      end
  | None => CPanic St
  end.
Proof. reflexivity. Qed.

Definition trav_spec (callL : string -> list (@dval A) -> St -> @denv A -> @cres A St) (ds : list nat) : Prop :=
  forall (x : nd A) v0 s g, gok g v0 ->
  match trav af ds x v0 with
  | Some v => exists g', callL "trav" [dnats ds; emb x] s g = CRet St [] s g' /\ gpost g g' v
  | None => callL "trav" [dnats ds; emb x] s g = CPanic St
  end.

Lemma trav_closure fuel (ds : list nat) : forall d, (length ds <= d)%nat ->
  trav_spec (callLD fapp St ext locals fuel (S d)) ds.
Proof.
  induction ds as [|n ds' IH]; intros d Hd x v0 s g Hg.
  - rewrite callLD_S. set (cl := callLD fapp St ext locals fuel d).
    cbn [dlookupFn plocals d_reduceByAssociativeFunc String.eqb Ascii.eqb Bool.eqb dbind dparams dbody].
    unfold dnats. cbn [map]. dxs.
    pose proof Hg as Hv. unfold gok in Hv.
    unfold dhas. rewrite Hv. cbn [dlen length Z.of_nat Z.eqb].
    destruct x as [a|rows]; cbn [trav asF obind].
    + cbn [emb asFloats]. rewrite fapp_af. dxs. cbn [ptrOuts].
      eexists. split; [reflexivity|]. split.
      * rewrite dlookup_dupd. rewrite String.eqb_refl. reflexivity.
      * intros y Hy. rewrite dlookup_dupd. apply String.eqb_neq in Hy. rewrite Hy. reflexivity.
    + rewrite emb_Vec'. reflexivity.
  - assert (Hcl : trav_spec (callLD fapp St ext locals fuel d) ds').
    { destruct d as [|d']; [cbn in Hd; lia|]. apply IH. cbn in Hd. lia. }
    clear IH.
    rewrite callLD_S. set (cl := callLD fapp St ext locals fuel d) in *.
    cbn [dlookupFn plocals d_reduceByAssociativeFunc String.eqb Ascii.eqb Bool.eqb dbind dparams dbody].
    unfold dnats. cbn [map]. dxs.
    rewrite dlen_cons_eqb. dxs.
    rewrite sub1_cons. dxs.
    destruct x as [a|rows]; cbn [trav asV obind].
    { cbn [emb]. reflexivity. }
    rewrite emb_Vec'. dxs.
    match goal with |- context [drangeLoop St ?b ?asg _ _ _ _ ?l0] =>
      pose proof (trav_loop b asg ds') as HL; set (lstart := l0) in *
    end.
    match type of HL with ?P -> _ => assert (Hasg : P) end.
    { intros g1 l1 k v. reflexivity. }
    specialize (HL Hasg).
    match type of HL with ?P -> _ => assert (Hbody : P) end.
    { intros s1 g1 l1 k r v1 m Hld Hlr Hli Hn Hg1. dxs.
      unfold vlookup. rewrite Hld, Hlr, Hli, didx_nat, Hn.
      pose proof (Hcl r v1 s1 g1 Hg1) as Hc.
      destruct (trav af ds' r v1) as [v|].
      - destruct Hc as [g' [Hc Hp]]. rewrite Hc. exists g'. split; [reflexivity | exact Hp].
      - rewrite Hc. reflexivity. }
    specialize (HL Hbody rows [] s g lstart v0 eq_refl eq_refl Hg).
    cbn [length Z.of_nat] in HL.
    destruct (foldM (fun v r => trav af ds' r v) rows v0) as [v|].
    + destruct HL as [g' [l' [HL Hp]]]. rewrite HL. cbn [ptrOuts]. exists g'. split; [reflexivity | exact Hp].
    + rewrite HL. reflexivity.
Qed.

(* (1) the closure: trav(dims, data) run on a captured environment g whose [value] is v0 computes the model's
   [trav]: it returns with no pointer results, value := v in g and every other variable of g unchanged; it panics
   exactly when the model fails.  Nothing else is assumed about g: the parameters dims, data and the closure's
   own locals rows, i, _ shadow whatever g holds under these names. *)
Theorem data_trav fuel (ds : list nat) (x : nd A) (v0 : A) (d : nat) (s : St) (g : @denv A) :
  (length ds <= d)%nat ->
  dlookup g "value" = Some (DF v0) ->
  match trav af ds x v0 with
  | Some v => exists g',
      callLD fapp St ext (plocals d_reduceByAssociativeFunc) fuel (S d) "trav" [dnats ds; emb x] s g = CRet St [] s g' /\
      dlookup g' "value" = Some (DF v) /\
      (forall y, y <> "value" -> dlookup g' y = dlookup g y)
  | None => callLD fapp St ext (plocals d_reduceByAssociativeFunc) fuel (S d) "trav" [dnats ds; emb x] s g = CPanic St
  end.
Proof.
  intros Hd Hv.
  exact (trav_closure fuel ds d Hd x v0 s g Hv).
Qed.

(* (2) the main body *)
Theorem data_reduceBy fuel depth (ds : list nat) (x : nd A) (idv : A) (s : St) :
  (length ds < depth)%nat ->
  match reduceBy af idv (mkT ds x) with
  | Some v => exists g l,
      dexec fapp St ext (callLD fapp St ext (plocals d_reduceByAssociativeFunc) fuel depth) fuel true
            (dbody (pmain d_reduceByAssociativeFunc)) s
            [("t.dims", dnats ds); ("t.data", emb x); ("identity", DF idv)] [] = DRet St [DF v] s g l
  | None =>
      dexec fapp St ext (callLD fapp St ext (plocals d_reduceByAssociativeFunc) fuel depth) fuel true
            (dbody (pmain d_reduceByAssociativeFunc)) s
            [("t.dims", dnats ds); ("t.data", emb x); ("identity", DF idv)] [] = DPanic St
  end.
Proof.
  intros Hd. destruct depth as [|d]; [lia|].
  unfold reduceBy. cbn [dims data].
  set (g0 := [("t.dims", dnats ds); ("t.data", emb x); ("identity", DF idv); ("value", DF idv)] : @denv A).
  assert (Hg : gok g0 idv) by (unfold gok, g0; cbn; auto).
  pose proof (trav_closure fuel ds d ltac:(lia) x idv s g0 Hg) as Hc.
  set (cl := callLD fapp St ext locals fuel (S d)) in *.
  cbn [pmain dbody d_reduceByAssociativeFunc]. dxs. fold g0.
  destruct (trav af ds x idv) as [v|].
  - destruct Hc as [g' [Hc [Hv _]]]. rewrite Hc. dxs. rewrite Hv. eauto.
  - rewrite Hc. reflexivity.
Qed.

Corollary drun_reduceBy fuel depth (ds : list nat) (x : nd A) (idv : A) (s : St) :
  (length ds < depth)%nat ->
  match reduceBy af idv (mkT ds x) with
  | Some v => exists g l,
      drun fapp St ext d_reduceByAssociativeFunc fuel depth [dnats ds; emb x; DF idv] s = DRet St [DF v] s g l
  | None => drun fapp St ext d_reduceByAssociativeFunc fuel depth [dnats ds; emb x; DF idv] s = DPanic St
  end.
Proof. intros Hd. exact (data_reduceBy fuel depth ds x idv s Hd). Qed.

End DataReduce.

Print Assumptions data_trav.
Print Assumptions data_reduceBy.
Print Assumptions drun_reduceBy.

(* a concrete run over the free term algebra: sum of a 2x2 tensor, left to right, starting from the identity *)
Example reduce_example :
  let fapp := fun (f : string) (args : list term) =>
                match args with [a; b] => if String.eqb f "af" then Some (TBin BAdd a b) else None | _ => None end in
  let ext := fun (_ : string) (_ : list (@dval term)) (_ : unit) => @None (list (@dval term) * unit) in
  match drun fapp unit ext d_reduceByAssociativeFunc 5 5
             [dnats [2; 2]%nat;
              emb (Vec [Vec [Sc (TVal 0 0); Sc (TVal 0 1)]; Vec [Sc (TVal 0 2); Sc (TVal 0 3)]]);
              DF (TConst 0 0)] tt with
  | DRet _ [DF v] _ _ _ =>
      v = TBin BAdd (TBin BAdd (TBin BAdd (TBin BAdd (TConst 0 0) (TVal 0 0)) (TVal 0 1)) (TVal 0 2)) (TVal 0 3)
  | _ => False
  end.
Proof. vm_compute. reflexivity. Qed.

(* a ragged tensor (a scalar where dims promises a vector): the model fails and the program panics *)
Example reduce_example_panic :
  let fapp := fun (f : string) (args : list term) =>
                match args with [a; b] => if String.eqb f "af" then Some (TBin BAdd a b) else None | _ => None end in
  let ext := fun (_ : string) (_ : list (@dval term)) (_ : unit) => @None (list (@dval term) * unit) in
  drun fapp unit ext d_reduceByAssociativeFunc 5 5
       [dnats [2; 2]%nat; emb (Vec [Vec [Sc (TVal 0 0)]; Sc (TVal 0 1)]); DF (TConst 0 0)] tt = DPanic unit
  /\ reduceBy (TBin BAdd) (TConst 0 0) (mkT [2; 2]%nat (Vec [Vec [Sc (TVal 0 0)]; Sc (TVal 0 1)])) = None.
Proof. vm_compute. split; reflexivity. Qed.
