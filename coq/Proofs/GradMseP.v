(* GradMseP.v — C13 for the mean-squared-error loss: back-propagating the loss value gives the
   prediction the gradient 2(p-t)/N.  Built on the generic part Proofs/GradLossP.v. *)
From Coq Require Import List Arith ZArith Bool Lia Reals Lra.
From Coquelicot Require Import Coquelicot.
From Qeep Require Import Model.Scalar Model.Nd Model.Fill Model.Data Model.Valid Model.Api Model.Grad Model.Backprop
  Model.Components.
From Qeep Require Import Spec.RScalar Spec.VjpSpec.
From Qeep Require Import Proofs.NdP Proofs.ElemP Proofs.BroadcastP Proofs.ReduceP Proofs.ReduceRP Proofs.CompP Proofs.LossP
  Proofs.VjpElemP Proofs.VjpReduceP Proofs.TrackP Proofs.BackpropP Proofs.GradLossP.
Import ListNotations.
Local Open Scope nat_scope.

Section Mse.
Variables (thr : R) (draw : bool -> nat -> R).
Local Hint Extern 0 (Scalar R) => exact (R_scalar thr draw) : typeclass_instances.
Notation T := (tensor R).
Notation heap := (@heap R).
Notation rule := (@rule R).
Notation idseal := (fun (_ : option nat) (g : T) => g).
Notation c2 := (@cst R (R_scalar thr draw) 2 0).

(* the exact heap after MSE.Compute; tp = is the prediction tracked *)
Lemma mse_structure (h : heap) p t name h1 l tp pv tv :
  valOf h p = Some pv -> valOf h t = Some tv ->
  trackedOf h p = tp -> dirtyOf h p = false -> trackedOf h t = false -> dirtyOf h t = false ->
  lossArgs1 h (Some p) (Some t) = Some (p, t) ->
  mse_compute h (Some p) (Some t) name = (h1, Ok l) ->
  let L := length h in
  let S := map Z.of_nat (targetBroadcastDims (dims tv) (dims pv)) in
  exists bt bp dv d2v lv,
    v_broadcast tv S = Ok bt /\ v_broadcast pv S = Ok bp /\ apply2 (binaryF BiSub) bt bp = Some dv /\
    v_unary (UPow c2) dv = Ok d2v /\ v_reduceAlong RdMean d2v 0%Z = Ok lv /\
    l = L + 4 /\
    h1 = h ++ [xnode bt false [(t, RBroadcast (L + 0) t)] None;
               xnode bp tp [(p, RBroadcast (L + 1) p)] None;
               xnode dv tp (arithEdges BiSub (L + 2) (L + 0) (L + 1)) None;
               xnode d2v tp [(L + 2, RPow (L + 3) (L + 2) c2 false)] None;
               xnode lv tp [(L + 3, RAvgAlong (L + 4) (L + 3) 0%Z)] name].
Proof.
  intros Vp Vt Tp Dp Tt Dt Ea E L S. unfold mse_compute in E. rewrite Ea in E.
  apply atomically_ok in E. apply hbind_ok in E as (hA & d & E1 & E). apply hbind_ok in E as (hB & d2 & E2 & E3).
  assert (Hp : p < length h) by (eapply valOf_some_lt; eauto).
  assert (Ht : t < length h) by (eapply valOf_some_lt; eauto).
  (* Sub *)
  rewrite <- (app_nil_r h) in E1.
  apply (arith_X h [] BiSub t p None hA d false tp) in E1; try (rewrite app_nil_r; assumption).
  cbv zeta in E1. destruct E1 as (tv' & pv' & bt & bp & dv & Vt' & Vp' & Bt & Bp & Fd & -> & ->).
  rewrite app_nil_r in Vt', Vp'. assert (tv' = tv) by congruence. assert (pv' = pv) by congruence. subst tv' pv'.
  cbn [length app orb] in *.
  (* Pow(2) *)
  unfold h_pow in E2.
  apply (op1_X h _ _ _ _ _ _ _ tp) in E2;
    [|rewrite trackedOf_off; reflexivity|rewrite dirtyOf_off; reflexivity].
  destruct E2 as (dv' & d2v & Vd & Fd2 & -> & ->). rewrite valOf_off in Vd. cbn in Vd. inversion Vd; subst dv'. clear Vd.
  cbn [length app] in *.
  (* MeanAlong(0) *)
  unfold h_reduceAlong in E3.
  apply (op1_X h _ _ _ _ _ _ _ tp) in E3;
    [|rewrite trackedOf_off; reflexivity|rewrite dirtyOf_off; reflexivity].
  destruct E3 as (d2v' & lv & Vd2 & Fl & -> & ->). rewrite valOf_off in Vd2. cbn in Vd2. inversion Vd2; subst d2v'. clear Vd2.
  cbn [length app alongRule] in *.
  exists bt, bp, dv, d2v, lv. repeat (split; [assumption|]). split; reflexivity.
Qed.

Lemma mse_own_wf (h : heap) p t name (bt bp dv d2v lv : T) :
  rules_own h -> wf_heap h -> p < length h -> t < length h ->
  let nodes := [xnode bt false [(t, RBroadcast (length h + 0) t)] None;
        xnode bp true [(p, RBroadcast (length h + 1) p)] None;
        xnode dv true (arithEdges BiSub (length h + 2) (length h + 0) (length h + 1)) None;
        xnode d2v true [((length h + 2)%nat, RPow (length h + 3) (length h + 2) c2 false)] None;
        xnode lv true [((length h + 3)%nat, RAvgAlong (length h + 4) (length h + 3) 0)] name] in
  rules_own (h ++ nodes) /\ wf_heap (h ++ nodes).
Proof.
  intros Ho Hw Hp Ht nodes. apply own_wf_ext; [exact Ho|exact Hw|]. intros k nd e Hn He.
  do 5 (destruct k as [|k]; [cbn [nth_error nodes] in Hn; inversion Hn; subst nd; cbn [nedges xnode arithEdges] in He;
    repeat (destruct He as [<-|He]; [cbn [fst snd rule_y]; split; lia|]); destruct He|]).
  destruct k; discriminate.
Qed.

Local Open Scope R_scope.

(* the tensor the property names: 2(p-t)/N at every position *)
Definition mseG (pv tv : T) : T :=
  let N := nth 0 (dims pv) 0%nat in ofFun [N] (fun idx => 2 * (elt pv idx - elt tv idx) / INR N).

(* MASTER LEMMA.  Back-propagation from the loss processes the five nodes of the component, which
   never fails, and then continues with the prediction p and its own ancestry [rest] from a heap
   hm in which p already carries its final gradient. *)
Lemma mse_bp rd (h : heap) p t name pv tv g0 h1 l :
  rules_own h -> wf_heap h ->
  valOf h p = Some pv -> wf pv -> valOf h t = Some tv -> wf tv ->
  trackedOf h p = true -> dirtyOf h p = false -> trackedOf h t = false -> dirtyOf h t = false ->
  lossArgs1 h (Some p) (Some t) = Some (p, t) ->
  gradOf h p = g0 -> prior_ok (dims pv) g0 ->
  mse_compute h (Some p) (Some t) name = (h1, Ok l) ->
  exists hm logm rest g,
    bp_topo rd idseal h1 l = fold_left (process_node rd idseal) (p :: rest) (hm, logm, Ok tt) /\
    (forall c, In c rest -> (c < p)%nat) /\ (edgesOf h p = [] -> rest = []) /\
    sameS h1 hm /\ wf_heap h1 /\ trackedOf h1 t = false /\ edgesOf h1 p = edgesOf h p /\
    gradOf hm p = Some g /\ dims g = dims pv /\ wf g /\
    acc1 g0 (mseG pv tv) = Some (Some g) /\
    (forall j, (j < length h)%nat -> j <> p -> gradOf hm j = gradOf h j) /\
    (forall j, (j < length h)%nat -> gradOf h1 j = gradOf h j).
Proof.
  intros Ho Hw Vp Wp Vt Wt Tp Dp Tt Dt Ea Eg0 Hprior E. unfold mseG. set (N := nth 0 (dims pv) 0%nat).
  destruct (lossArgs1_dims h (Some p) (Some t) p t pv tv Ea Vp Vt) as (n & Edp & Edt).
  assert (EN : N = n) by (unfold N; rewrite Edp; reflexivity). clearbody N. subst n.
  destruct (mse_structure h p t name h1 l true pv tv Vp Vt Tp Dp Tt Dt Ea E)
    as (bt & bp & dv & d2v & lv & Bt & Bp & Fd & Fd2 & Fl & -> & EH). cbv zeta in *.
  assert (Hp : (p < length h)%nat) by (eapply valOf_some_lt; eauto).
  assert (Ht : (t < length h)%nat) by (eapply valOf_some_lt; eauto).
  assert (Npos : (0 < N)%nat) by (destruct Wp as [_ Hpos]; rewrite Edp in Hpos; inversion Hpos; assumption).
  (* forward values, element-wise *)
  assert (ES : map Z.of_nat (targetBroadcastDims (dims tv) (dims pv)) = map Z.of_nat [N]).
  { rewrite Edt, Edp, targetBroadcastDims_same. reflexivity. }
  rewrite ES in Bt, Bp.
  assert (Ttv : isT [N] (elt tv) tv) by (rewrite <- Edt; apply isT_self, Wt).
  assert (Tpv : isT [N] (elt pv) pv) by (rewrite <- Edp; apply isT_self, Wp).
  pose proof (bcast_same_isT _ _ _ _ Ttv Bt) as Tbt.
  pose proof (bcast_same_isT _ _ _ _ Tpv Bp) as Tbp.
  pose proof (apply2_isT thr draw BiSub _ _ _ _ _ _ Tbt Tbp Fd) as Tdv.
  pose proof (un_isT thr draw _ _ _ _ _ Tdv Fd2) as Td2.
  destruct (along_elt thr draw RdMean d2v 0 (proj1 (proj2 Td2))) as (lv' & Elv & Dlv & Wlv & _).
  { rewrite (proj1 Td2). cbn [length]. lia. }
  change (Z.of_nat 0) with 0%Z in Elv. assert (lv' = lv) by congruence. subst lv'. clear Elv.
  rewrite (proj1 Td2) in Dlv. change (squeezeDims 0 [N]) with (@nil nat) in Dlv.
  (* the heap *)
  set (nodes := [xnode bt false [(t, RBroadcast (length h + 0) t)] None;
        xnode bp true [(p, RBroadcast (length h + 1) p)] None;
        xnode dv true (arithEdges BiSub (length h + 2) (length h + 0) (length h + 1)) None;
        xnode d2v true [((length h + 2)%nat, RPow (length h + 3) (length h + 2) c2 false)] None;
        xnode lv true [((length h + 3)%nat, RAvgAlong (length h + 4) (length h + 3) 0)] name]) in EH.
  set (H := h ++ nodes) in *. subst h1.
  assert (VHp : valOf H p = Some pv) by (unfold H; rewrite valOf_app by exact Hp; exact Vp).
  assert (THp : trackedOf H p = true) by (unfold H; rewrite trackedOf_app by exact Hp; exact Tp).
  assert (GHp : gradOf H p = g0) by (unfold H; rewrite gradOf_old by exact Hp; exact Eg0).
  assert (LH : length H = (length h + 5)%nat) by (unfold H; rewrite app_length; reflexivity).
  node_edges h nodes H 1%nat E1. node_edges h nodes H 2%nat E2. node_edges h nodes H 3%nat E3. node_edges h nodes H 4%nat E4.
  node_tracked h nodes H 0%nat T0. node_tracked h nodes H 1%nat T1. node_tracked h nodes H 2%nat T2.
  node_tracked h nodes H 3%nat T3. node_tracked h nodes H 4%nat T4.
  node_val h nodes H 0%nat V0. node_val h nodes H 1%nat V1. node_val h nodes H 2%nat V2.
  node_val h nodes H 3%nat V3. node_val h nodes H 4%nat V4.
  assert (OW : rules_own H /\ wf_heap H) by (apply mse_own_wf; assumption).
  destruct OW as [HoH HwH].
  (* the processing order *)
  assert (Hord : exists rest, topoOrder H (length h + 4) =
      [length h + 4; length h + 3; length h + 2; length h + 1]%nat ++ p :: rest /\
      (forall x, In x rest -> (x < p)%nat) /\ (edgesOf H p = [] -> rest = [])).
  { clear - E1 E2 E3 E4 T0 T1 T2 T3 T4 THp Hp HwH. unfold topoOrder.
    rewrite dfs_t; [|lia|exact T4|reflexivity]. rewrite E4. cbn [fold_left fst snd].
    rewrite dfs_t; [|lia|exact T3|memb_dec Hp]. rewrite E3. cbn [fold_left fst snd].
    rewrite dfs_t; [|lia|exact T2|memb_dec Hp]. rewrite E2. cbn [fold_left fst snd].
    rewrite (dfs_u H _ (length h + 0)%nat) by exact T0.
    rewrite dfs_t; [|lia|exact T1|memb_dec Hp]. rewrite E1. cbn [fold_left fst snd].
    match goal with |- context [dfs ?f H p (?V, ?R)] =>
      destruct (dfs_cut H HwH f p V R) as (nv & rest & Ecut & _ & _ & Brest & Hleaf);
        [lia|exact THp|memb_dec Hp|rewrite Ecut] end.
    rewrite !post_pair. cbn [snd app]. exists rest. rewrite app_nil_r. split; [reflexivity|]. split; [exact Brest|exact Hleaf]. }
  destruct Hord as (rest & Eord & Brest & Hleaf).
  (* the seed *)
  destruct (un_elt thr draw (UPow (sconst 0 0)) lv Wlv) as (ones & Eones & Dones & Wones & Gones).
  assert (Tones : isT (Dm H (length h + 4)) (fun _ => 1) ones).
  { unfold Dm. rewrite V4, Dlv. split; [congruence|]. split; [exact Wones|]. intros idx Hv.
    rewrite Gones by (rewrite Dlv; exact Hv). rewrite uF_pow, sconst_R, dec2R_0. apply Rpow_0. }
  assert (GH4 : gradOf H (length h + 4) = None).
  { unfold H. apply gradOf_ext_none; [|blia]. unfold nodes. repeat constructor. }
  rewrite (bp_topo_split rd H (length h + 4) _ _ lv ones T4 Eord V4 Eones GH4).
  set (order := [(length h + 4)%nat; (length h + 3)%nat; (length h + 2)%nat; (length h + 1)%nat] ++ p :: rest).
  set (hh0 := setGrad (markDirty H order) (length h + 4) (Some ones)).
  assert (HS0 : sameS H hh0).
  { eapply sameS_trans; [apply sameS_markDirty|apply sameS_setGrad]. }
  set (dom := fun j : nat => (length h <= j)%nat \/ j = p).
  set (s0 := (fun j => if (j =? length h + 4)%nat then Some (fun _ : list nat => 1)
                       else if (j =? p)%nat then option_map elt g0 else None) : astate).
  assert (HM0 : models H dom hh0 s0).
  { intros j Hj. unfold s0, hh0. rewrite gradOf_setGrad, gradOf_markDirty.
    destruct (j =? length h + 4)%nat eqn:Ej.
    - rewrite length_markDirty, LH. assert (X : (length h + 4 <? length h + 5)%nat = true) by (apply Nat.ltb_lt; blia).
      rewrite X. exists ones. apply Nat.eqb_eq in Ej. subst j. split; [reflexivity|exact Tones].
    - destruct (j =? p)%nat eqn:Ejp.
      + apply Nat.eqb_eq in Ejp. subst j. rewrite GHp. destruct g0 as [g|]; cbn [option_map]; [|reflexivity].
        exists g. split; [reflexivity|]. destruct Hprior as [Wg Dg]. unfold Dm. rewrite VHp, <- Dg. apply isT_self, Wg.
      + apply Nat.eqb_neq in Ejp. destruct Hj as [Hj|Hj]; [|contradiction].
        unfold H. apply gradOf_ext_none; [|exact Hj]. unfold nodes. repeat constructor. }
  (* shapes *)
  assert (D0 : Dm H (length h + 0) = [N]) by (unfold Dm; rewrite V0; exact (proj1 Tbt)).
  assert (D1 : Dm H (length h + 1) = [N]) by (unfold Dm; rewrite V1; exact (proj1 Tbp)).
  assert (D2 : Dm H (length h + 2) = [N]) by (unfold Dm; rewrite V2; exact (proj1 Tdv)).
  assert (D3 : Dm H (length h + 3) = [N]) by (unfold Dm; rewrite V3; exact (proj1 Td2)).
  assert (D4 : Dm H (length h + 4) = []) by (unfold Dm; rewrite V4; exact Dlv).
  assert (DP : Dm H p = [N]) by (unfold Dm; rewrite VHp; exact Edp).
  assert (O1 : okv H (length h + 1)) by (exists bp; split; [exact V1|exact (proj1 (proj2 Tbp))]).
  assert (O2 : okv H (length h + 2)) by (exists dv; split; [exact V2|exact (proj1 (proj2 Tdv))]).
  assert (O3 : okv H (length h + 3)) by (exists d2v; split; [exact V3|exact (proj1 (proj2 Td2))]).
  assert (OP : okv H p) by (exists pv; split; [exact VHp|exact Wp]).
  destruct (fold_abs thr draw rd H dom HoH HwH
              [(length h + 4)%nat; (length h + 3)%nat; (length h + 2)%nat; (length h + 1)%nat] hh0 [] s0 HS0 HM0)
    as (hm & logm & Ef & HSm & HMm & Hfr).
  { intros c Hc. split; [|split].
    - left. destruct Hc as [<-|[<-|[<-|[<-|[]]]]]; apply Nat.le_add_r.
    - rewrite LH. destruct Hc as [<-|[<-|[<-|[<-|[]]]]]; blia.
    - intros e He Ht'. destruct Hc as [<-|[<-|[<-|[<-|[]]]]].
      + rewrite E4 in He. destruct He as [<-|[]]. cbn [fst snd rok]. split; [left; apply Nat.le_add_r|].
        split; [reflexivity|]. split; [exact O3|]. exists 0%nat. rewrite D3, D4. split; [reflexivity|]. split; [cbn [length]; apply Nat.lt_0_succ|reflexivity].
      + rewrite E3 in He. destruct He as [<-|[]]. cbn [fst snd rok]. split; [left; apply Nat.le_add_r|].
        split; [reflexivity|]. split; [congruence|exact O2].
      + rewrite E2 in He. destruct He as [<-|[<-|[]]]; cbn [fst snd rok] in *; [congruence|].
        split; [left; apply Nat.le_add_r|congruence].
      + rewrite E1 in He. destruct He as [<-|[]]. cbn [fst snd rok]. split; [right; reflexivity|].
        split; [reflexivity|]. split; [congruence|]. split; [exact O1|exact OP]. }
  (* the gradient of the prediction *)
  assert (S04 : s0 (length h + 4)%nat = Some (fun _ => 1)) by (unfold s0; rewrite Nat.eqb_refl; reflexivity).
  assert (S03 : s0 (length h + 3)%nat = None) by (unfold s0; rewrite eqb_off, (eqb_off_lt _ _ _ Hp); reflexivity).
  assert (S02 : s0 (length h + 2)%nat = None) by (unfold s0; rewrite eqb_off, (eqb_off_lt _ _ _ Hp); reflexivity).
  assert (S01 : s0 (length h + 1)%nat = None) by (unfold s0; rewrite eqb_off, (eqb_off_lt _ _ _ Hp); reflexivity).
  assert (S0p : s0 p = option_map elt g0) by (unfold s0; rewrite (eqb_lt_off _ _ _ Hp), Nat.eqb_refl; reflexivity).
  assert (Fin : exists f, fold_left (anode thr H)
             [(length h + 4)%nat; (length h + 3)%nat; (length h + 2)%nat; (length h + 1)%nat] s0 p = Some f /\
           forall idx, validIdx [N] idx -> f idx = prior g0 idx + 2 * (elt pv idx - elt tv idx) / INR N).
  { clear HMm HM0. clearbody s0. cbn [fold_left]. do 4 anode_step Hp. aq Hp. s0q.
    eexists. split; [reflexivity|]. intros idx Hv.
    assert (EV : Vl H (length h + 2) idx = elt tv idx - elt pv idx).
    { unfold Vl. rewrite V2. rewrite (proj2 (proj2 Tdv) idx Hv). reflexivity. }
    assert (Epow : forall x, Rpow x (c2 - 1) = x).
    { intros x. rewrite cst_R, dec2R_2. replace (2 - 1) with (IZR 1) by (simpl; ring). rewrite Rpow_IZR. simpl. ring. }
    assert (HN : INR N <> 0) by (apply not_0_INR; blia).
    destruct g0 as [gp|]; cbn [option_map prior rsem]; rewrite D3, EV, Epow, cst_R, dec2R_2;
      change (Z.to_nat 0) with 0%nat; cbn [nth]; field; exact HN. }
  destruct Fin as (f & Ef' & Hf). specialize (HMm p (or_intror eq_refl)). rewrite Ef' in HMm.
  destruct HMm as (g & Eg & Tg). rewrite DP in Tg.
  rewrite Ef. exists hm, logm, rest, g. split; [reflexivity|]. split; [exact Brest|]. split.
  { intros Hl. apply Hleaf. unfold H. rewrite edgesOf_old by exact Hp. exact Hl. }
  split; [exact HSm|]. split; [exact HwH|]. split; [unfold H; rewrite trackedOf_app by exact Ht; exact Tt|].
  split; [unfold H; apply edgesOf_old; exact Hp|].
  split; [exact Eg|]. split; [rewrite Edp; exact (proj1 Tg)|]. split; [exact (proj1 (proj2 Tg))|]. split.
  { apply (acc1_final thr draw g0 [N] _ f g); [rewrite <- Edp; exact Hprior|repeat constructor; exact Npos|exact Tg|exact Hf]. }
  split; [|intros j Hj; unfold H; apply gradOf_old; exact Hj].
  intros j Hj Hjp. rewrite Hfr by (unfold dom; blia). unfold hh0. rewrite gradOf_setGrad, gradOf_markDirty.
  assert (X : (j =? length h + 4)%nat = false) by (apply Nat.eqb_neq; blia). rewrite X.
  unfold H. apply gradOf_old. exact Hj.
Qed.

(* C13, MSE.  Whatever the outcome of the back-propagation below the prediction (p may be a leaf or
   the result of earlier tracked operations: NO hypothesis restricts the back edges of p), the
   prediction ends with its previous gradient accumulated with the tensor 2(p-t)/N, which has the
   prediction's shape; the untracked target receives nothing and no value changes. *)
Theorem mse_grad rd (h : heap) p t name pv tv g0 h1 l :
  rules_own h -> wf_heap h ->
  valOf h p = Some pv -> wf pv -> valOf h t = Some tv -> wf tv ->
  trackedOf h p = true -> dirtyOf h p = false -> trackedOf h t = false -> dirtyOf h t = false ->
  lossArgs1 h (Some p) (Some t) = Some (p, t) ->
  gradOf h p = g0 -> prior_ok (dims pv) g0 ->
  mse_compute h (Some p) (Some t) name = (h1, Ok l) ->
  forall h2 log r, bp_topo rd idseal h1 l = (h2, log, r) ->
    (exists g, gradOf h2 p = Some g /\ dims g = dims pv /\ wf g /\ acc1 g0 (mseG pv tv) = Some (Some g)) /\
    gradOf h2 t = gradOf h1 t /\
    (forall i, valOf h2 i = valOf h1 i).
Proof.
  intros Ho Hw Vp Wp Vt Wt Tp Dp Tt Dt Ea Eg0 Hprior E h2 log r E2.
  destruct (mse_bp rd h p t name pv tv g0 h1 l Ho Hw Vp Wp Vt Wt Tp Dp Tt Dt Ea Eg0 Hprior E)
    as (hm & logm & rest & g & Esp & Brest & _ & HSm & W1 & Tt1 & _ & Eg & Dg & Wg & Hacc & Hfr & Hold).
  assert (Ht : (t < length h)%nat) by (eapply valOf_some_lt; eauto).
  assert (Hpt : t <> p) by (intros X; subst t; congruence).
  destruct (split_any rd h1 l p rest hm logm p W1 HSm Esp Brest (or_introl eq_refl) h2 log r E2) as [HS2 Hgp].
  destruct (split_any rd h1 l p rest hm logm t W1 HSm Esp Brest (or_intror Tt1) h2 log r E2) as [_ Hgt].
  split; [exists g; rewrite Hgp; auto|]. split.
  - rewrite Hgt, (Hfr t Ht Hpt), (Hold t Ht). reflexivity.
  - intros i. symmetry. apply (sameS_val _ _ HS2).
Qed.

(* the same statement read for an interior prediction: it IS the same theorem *)
Definition mse_grad_interior := mse_grad.

(* never fails: a leaf prediction *)
Theorem mse_grad_leaf rd (h : heap) p t name pv tv g0 h1 l :
  rules_own h -> wf_heap h ->
  valOf h p = Some pv -> wf pv -> valOf h t = Some tv -> wf tv ->
  trackedOf h p = true -> dirtyOf h p = false -> trackedOf h t = false -> dirtyOf h t = false ->
  lossArgs1 h (Some p) (Some t) = Some (p, t) ->
  gradOf h p = g0 -> prior_ok (dims pv) g0 ->
  mse_compute h (Some p) (Some t) name = (h1, Ok l) ->
  edgesOf h p = [] ->
  exists h2 log, bp_topo rd idseal h1 l = (h2, log, Ok tt) /\
    (exists g, gradOf h2 p = Some g /\ dims g = dims pv /\ wf g /\ acc1 g0 (mseG pv tv) = Some (Some g)) /\
    gradOf h2 t = gradOf h1 t /\
    (forall i, valOf h2 i = valOf h1 i).
Proof.
  intros Ho Hw Vp Wp Vt Wt Tp Dp Tt Dt Ea Eg0 Hprior E Hleaf.
  destruct (mse_bp rd h p t name pv tv g0 h1 l Ho Hw Vp Wp Vt Wt Tp Dp Tt Dt Ea Eg0 Hprior E)
    as (hm & logm & rest & g & Esp & _ & Hrest & HSm & _ & _ & Hed & Eg & _).
  rewrite (Hrest Hleaf) in Esp. rewrite (split_leaf rd h1 p hm logm g HSm) in Esp; [|congruence|exact Eg].
  eexists _, _. split; [exact Esp|].
  exact (mse_grad rd h p t name pv tv g0 h1 l Ho Hw Vp Wp Vt Wt Tp Dp Tt Dt Ea Eg0 Hprior E _ _ _ Esp).
Qed.

(* an untracked prediction: the loss is untracked and back-propagation changes nothing *)
Theorem mse_grad_untracked rd sealg (h : heap) p t name pv tv h1 l :
  valOf h p = Some pv -> valOf h t = Some tv ->
  trackedOf h p = false -> dirtyOf h p = false -> trackedOf h t = false -> dirtyOf h t = false ->
  lossArgs1 h (Some p) (Some t) = Some (p, t) ->
  mse_compute h (Some p) (Some t) name = (h1, Ok l) ->
  bp_topo rd sealg h1 l = (h1, [], Ok tt).
Proof.
  intros Vp Vt Tp Dp Tt Dt Ea E.
  destruct (mse_structure h p t name h1 l false pv tv Vp Vt Tp Dp Tt Dt Ea E)
    as (bt & bp & dv & d2v & lv & _ & _ & _ & _ & _ & -> & ->). cbv zeta.
  apply bp_topo_untracked. rewrite trackedOf_off. reflexivity.
Qed.

End Mse.

(* ---- non-vacuity: a leaf prediction [1;3], target [0;1]: gradient [1;2] ---- *)
Section MseEx.
Variables (thr : R) (draw : bool -> nat -> R).
Local Hint Extern 0 (Scalar R) => exact (R_scalar thr draw) : typeclass_instances.
Local Open Scope R_scope.

Definition exP : tensor R := mkT [2%nat] (Vec [Sc 1; Sc 3]).
Definition exT : tensor R := mkT [2%nat] (Vec [Sc 0; Sc 1]).
Definition exH : @heap R :=
  [mkNode exP true false None [] (Some 0%nat); mkNode exT false false None [] (Some 1%nat)].

Lemma wf_v2 (a b : R) : wf (mkT [2%nat] (Vec [Sc a; Sc b])).
Proof. split; [cbn; repeat constructor|repeat constructor]. Qed.

Example mse_grad_ex rd : exists h1 l h2 log g,
  mse_compute exH (Some 0%nat) (Some 1%nat) None = (h1, Ok l) /\
  bp_topo rd (fun _ g => g) h1 l = (h2, log, Ok tt) /\
  gradOf h2 0 = Some g /\ dims g = [2%nat] /\ elt g [0%nat] = 1 /\ elt g [1%nat] = 2.
Proof.
  assert (Ho : rules_own exH) by (intros c n e Hn He; destruct c as [|[|[|c]]]; cbn in Hn; try discriminate; inversion Hn; subst n; destruct He).
  assert (Hw : wf_heap exH) by (intros c n e Hn He; destruct c as [|[|[|c]]]; cbn in Hn; try discriminate; inversion Hn; subst n; destruct He).
  destruct (mse_compute_spec exH (Some 0%nat) (Some 1%nat) 0%nat 1%nat None exP exT eq_refl eq_refl eq_refl
              (wf_v2 1 3) (wf_v2 0 1)) as (n & r & _ & _ & (h1 & l & E & _) & _).
  destruct (mse_grad_leaf thr draw rd exH 0%nat 1%nat None exP exT None h1 l Ho Hw eq_refl (wf_v2 1 3) eq_refl (wf_v2 0 1)
              eq_refl eq_refl eq_refl eq_refl eq_refl eq_refl I E eq_refl)
    as (h2 & log & E2 & (g & Eg & Dg & _ & Hacc) & _).
  exists h1, l, h2, log, g. split; [exact E|]. split; [exact E2|]. split; [exact Eg|]. split; [exact Dg|].
  cbn [acc1] in Hacc. assert (g = mseG exP exT) by congruence. subst g. unfold mseG. cbn [dims exP nth].
  split; (rewrite elt_ofFun by (repeat constructor)); unfold elt; cbn; lra.
Qed.
End MseEx.

Print Assumptions mse_bp.
Print Assumptions mse_grad.
Print Assumptions mse_grad_leaf.
Print Assumptions mse_grad_untracked.
Print Assumptions mse_grad_ex.
