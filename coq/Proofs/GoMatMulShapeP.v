(* GoMatMulShapeP.v — the integer code of broadcastForMatMul (tensor/internal/cputensor/cputensor_helpers.go) as
   translated by harness/gox (GoFns.broadcastForMatMul_outer: two ICode blocks interleaved with opaque tensor
   statements) computes the two broadcast target shapes of Model/Api.v:
     first block :  shape = mmShape (targetBroadcastDims ct1.dims ct2.dims) ct1.dims
     second block:  shape = mmShape (targetBroadcastDims ct1.dims ct2.dims) ct2.dims
   (see coq/GOIR_NOTES.md). *)
From Coq Require Import String List ZArith Bool Lia Arith.
From Qeep Require Import Model.GoIR Model.GoFns Model.Nd Model.Data Model.Api Proofs.GoIRP Proofs.GoDimsP2.
Import ListNotations.
Local Open Scope string_scope.
Local Open Scope Z_scope.
Local Open Scope list_scope.

(* ---------- (a) the item structure ---------- *)
Lemma broadcastForMatMul_outer_shape :
  itemShape GoFns.broadcastForMatMul_outer =
  [None;
   Some "t1, err := ct1.Broadcast(shape)";
   Some "if err != nil { return }";
   None;
   Some "t2, err := ct2.Broadcast(shape)";
   Some "if err != nil { return }";
   Some "bct1 = t1.(*CPUTensor)";
   Some "bct2 = t2.(*CPUTensor)";
   Some "return bct1, bct2, nil"].
Proof. reflexivity. Qed.

Lemma broadcastForMatMul_step_nil : GoFns.broadcastForMatMul_step = [].
Proof. reflexivity. Qed.

(* the two integer blocks, extracted by position *)
Definition mm_c1 : stmt := nth 0 (codeOf GoFns.broadcastForMatMul_outer) SSkip.
Definition mm_c2 : stmt := nth 1 (codeOf GoFns.broadcastForMatMul_outer) SSkip.

Lemma broadcastForMatMul_outer_code : codeOf GoFns.broadcastForMatMul_outer = [mm_c1; mm_c2].
Proof. reflexivity. Qed.

(* ---------- list facts ---------- *)
Lemma tbd_length_max d1 d2 :
  length (Data.targetBroadcastDims d1 d2) = Nat.max (length d1) (length d2).
Proof.
  destruct (le_ge_dec (length d1) (length d2)) as [H|H].
  - rewrite tbd_length by exact H. lia.
  - rewrite tbd_swap, tbd_length by exact H. lia.
Qed.

Lemma last2_split (l : list nat) : (2 <= length l)%nat ->
  exists pre a b, l = pre ++ [a; b] /\ firstn (length l - 2) l = pre /\ skipn (length l - 2) l = [a; b] /\
                  length l = (length pre + 2)%nat.
Proof.
  intros H.
  pose proof (firstn_skipn (length l - 2) l) as Hs.
  assert (Hl : length (skipn (length l - 2) l) = 2%nat) by (rewrite skipn_length; lia).
  destruct (skipn (length l - 2) l) as [|a [|b [|c r]]] eqn:E; cbn in Hl; try lia.
  exists (firstn (length l - 2) l), a, b. repeat split; auto.
  rewrite firstn_length. lia.
Qed.

Lemma mmShape_length shape own : (2 <= length shape)%nat -> (2 <= length own)%nat ->
  length (mmShape shape own) = length shape.
Proof. intros H1 H2. unfold mmShape. rewrite app_length, firstn_length, skipn_length. lia. Qed.

Lemma mmShape_split PT a b P x y : mmShape (PT ++ [a; b]) (P ++ [x; y]) = PT ++ [x; y].
Proof.
  unfold mmShape. rewrite !app_length. cbn [length].
  replace (length PT + 2 - 2)%nat with (length PT) by lia.
  replace (length P + 2 - 2)%nat with (length P) by lia.
  rewrite firstn_app, Nat.sub_diag, firstn_all. cbn [firstn]. rewrite app_nil_r.
  rewrite skipn_app, Nat.sub_diag, skipn_all. reflexivity.
Qed.

Lemma nth_nv_last (P : list nat) x y : nth_error (map nv (P ++ [x; y])) (S (length P)) = Some (nv y).
Proof.
  rewrite nth_error_map_nv. replace (P ++ [x; y]) with ((P ++ [x]) ++ [y]) by (now rewrite <- app_assoc).
  rewrite (nth_error_app_mid (P ++ [x]) [] y); [reflexivity | rewrite app_length; cbn; lia].
Qed.

Lemma nth_nv_prev (P : list nat) x y : nth_error (map nv (P ++ [x; y])) (length P) = Some (nv x).
Proof. rewrite nth_error_map_nv, (nth_error_app_mid P [y] x); reflexivity. Qed.

(* shape[k] = v where k is the position after [pre] *)
Lemma setElem_at (e : env) (x : string) (ie : expr) (pre post : list val) (a v : val) :
  lookup e x = Some (VL (pre ++ a :: post)) ->
  eval e ie = Some (VI (Z.of_nat (length pre))) ->
  setElem e x ie (fun _ => Some v) = ONormal (upd e x (VL (pre ++ v :: post))).
Proof.
  intros Hx Hi. unfold setElem. rewrite Hx, Hi, idxOf_nat.
  rewrite (nth_error_app_mid pre post a (length pre) eq_refl), (setNthV_app pre post a v (length pre) eq_refl).
  reflexivity.
Qed.

(* both stores of a block: shape = PT ++ [a; b]  becomes  PT ++ [x; y] *)
Lemma nats_last2_set (PT : list nat) (a b x y : nat) :
  map nv (PT ++ [a; b]) = (map nv PT ++ [nv a]) ++ nv b :: [] /\
  (map nv PT ++ [nv a]) ++ nv y :: [] = map nv PT ++ nv a :: [nv y] /\
  map nv PT ++ nv x :: [nv y] = map nv (PT ++ [x; y]).
Proof. rewrite !map_app, <- !app_assoc. cbn [map app]. auto. Qed.

(* ---------- the call to targetBroadcastDims ---------- *)
Lemma callD_targetBroadcastDims fuel d (d1 d2 : list nat) :
  (S (Nat.max (length d1) (length d2)) <= fuel)%nat ->
  callD ftab fuel (S d) "targetBroadcastDims" [nats d1; nats d2] = ORet [nats (Data.targetBroadcastDims d1 d2)].
Proof.
  intros Hf. cbn [callD].
  assert (Hl : lookupFn ftab "targetBroadcastDims" = Some GoFns.targetBroadcastDims) by (vm_compute; reflexivity).
  assert (Hp : bindArgs (fparams GoFns.targetBroadcastDims) [nats d1; nats d2]
               = Some [("dims1", nats d1); ("dims2", nats d2)]) by reflexivity.
  rewrite Hl, Hp. now rewrite go_targetBroadcastDims.
Qed.

(* ---------- (b) the two blocks ---------- *)
(* the second block (and the tail of the first): two stores into shape, from [own] whose length is in [lo] *)
Ltac neqb := repeat match goal with
  | H : ?x <> ?s |- context [String.eqb ?x ?s] => rewrite (proj2 (String.eqb_neq x s) H)
  end.

Theorem go_broadcastForMatMul_second_shape call fuel (d1 d2 : list nat) (e : env) :
  (2 <= length d1)%nat -> (2 <= length d2)%nat ->
  lookup e "ct2.dims" = Some (nats d2) ->
  lookup e "shape" = Some (nats (mmShape (Data.targetBroadcastDims d1 d2) d1)) ->
  lookup e "lt" = Some (VI (Z.of_nat (length (Data.targetBroadcastDims d1 d2)))) ->
  lookup e "l2" = Some (VI (Z.of_nat (length d2))) ->
  exists e', exec call fuel mm_c2 e = ONormal e' /\
    lookup e' "shape" = Some (nats (mmShape (Data.targetBroadcastDims d1 d2) d2)) /\
    (forall x, x <> "shape" -> lookup e' x = lookup e x).
Proof.
  intros H1 H2 L2 Ls Lt Ll.
  assert (HT : (2 <= length (Data.targetBroadcastDims d1 d2))%nat) by (rewrite tbd_length_max; lia).
  destruct (last2_split _ HT) as (PT & a & b & ET & _ & _ & HlT).
  destruct (last2_split _ H1) as (P1 & x1 & y1 & E1 & _ & _ & _).
  destruct (last2_split _ H2) as (P2 & x2 & y2 & E2 & _ & _ & Hl2).
  rewrite HlT in Lt. rewrite Hl2 in Ll. clear HlT Hl2 HT H1 H2.
  rewrite ET in *. clear ET. subst d1 d2.
  rewrite mmShape_split in *.
  destruct (nats_last2_set PT x1 y1 x2 y2) as (S1 & S2 & S3).
  unfold mm_c2, GoFns.broadcastForMatMul_outer. cbn [codeOf nth].
  gxs. rewrite ?L2, ?Ll. gxs.
  replace (Z.of_nat (length P2 + 2) - 1) with (Z.of_nat (S (length P2))) by lia.
  rewrite idxOf_nat, nth_nv_last.
  erewrite (setElem_at e "shape" _ (map nv PT ++ [nv x1]) [] (nv y1) (nv y2)).
  2:{ rewrite Ls. unfold nats. now rewrite S1. }
  2:{ gxs. rewrite Lt. gxs. rewrite app_length, map_length. cbn [length]. do 2 f_equal. lia. }
  rewrite S2. gxs. rewrite ?L2, ?Ll. gxs.
  replace (Z.of_nat (length P2 + 2) - 2) with (Z.of_nat (length P2)) by lia.
  rewrite idxOf_nat, nth_nv_prev.
  erewrite (setElem_at _ "shape" _ (map nv PT) [nv y2] (nv x1) (nv x2)).
  2:{ now lk. }
  2:{ gxs. rewrite Lt. gxs. rewrite map_length. do 2 f_equal. lia. }
  rewrite S3. eexists. split; [reflexivity|]. split.
  - now lk.
  - intros x Hx. rewrite !lookup_upd. neqb. reflexivity.
Qed.

Theorem go_broadcastForMatMul_first_shape fuel d (d1 d2 : list nat) (e : env) :
  (2 <= length d1)%nat -> (2 <= length d2)%nat ->
  (S (Nat.max (length d1) (length d2)) <= fuel)%nat ->
  lookup e "ct1.dims" = Some (nats d1) -> lookup e "ct2.dims" = Some (nats d2) ->
  exists e', exec (callD ftab fuel (S d)) fuel mm_c1 e = ONormal e' /\
    lookup e' "shape" = Some (nats (mmShape (Data.targetBroadcastDims d1 d2) d1)) /\
    lookup e' "ct1.dims" = Some (nats d1) /\ lookup e' "ct2.dims" = Some (nats d2) /\
    lookup e' "lt" = Some (VI (Z.of_nat (length (Data.targetBroadcastDims d1 d2)))) /\
    lookup e' "l1" = Some (VI (Z.of_nat (length d1))) /\
    lookup e' "l2" = Some (VI (Z.of_nat (length d2))) /\
    (forall x, x <> "shape" -> x <> "lt" -> x <> "l1" -> x <> "l2" -> lookup e' x = lookup e x).
Proof.
  intros H1 H2 Hf L1 L2.
  pose proof (callD_targetBroadcastDims fuel d d1 d2 Hf) as Hc.
  assert (HT : (2 <= length (Data.targetBroadcastDims d1 d2))%nat) by (rewrite tbd_length_max; lia).
  destruct (last2_split _ HT) as (PT & a & b & ET & _ & _ & HlT).
  destruct (last2_split _ H1) as (P1 & x1 & y1 & E1 & _ & _ & _).
  rewrite HlT. rewrite ET in *. clear ET HlT HT H1 Hf. subst d1.
  rewrite mmShape_split.
  destruct (nats_last2_set PT a b x1 y1) as (S1 & S2 & S3).
  unfold mm_c1, GoFns.broadcastForMatMul_outer. cbn [codeOf nth].
  unfold nats in Hc, L1, L2.
  gxs. rewrite ?L1, ?L2. rewrite Hc. cbn [assignAll].
  gxs. rewrite ?L1, ?L2. gxs. rewrite ?L1, ?L2. gxs. rewrite !zlenV_map, !app_length. cbn [length].
  rewrite ?L1, ?L2.
  replace (Z.of_nat (length P1 + 2) - 1) with (Z.of_nat (S (length P1))) by lia.
  rewrite idxOf_nat, nth_nv_last.
  erewrite (setElem_at _ "shape" _ (map nv PT ++ [nv a]) [] (nv b) (nv y1)).
  2:{ lk. now rewrite S1. }
  2:{ gxs. rewrite app_length, map_length. cbn [length]. do 2 f_equal. lia. }
  rewrite S2. gxs. rewrite ?L1, ?L2. gxs. rewrite ?L1, ?L2.
  replace (Z.of_nat (length P1 + 2) - 2) with (Z.of_nat (length P1)) by lia.
  rewrite idxOf_nat, nth_nv_prev.
  erewrite (setElem_at _ "shape" _ (map nv PT) [nv y1] (nv a) (nv x1)).
  2:{ now lk. }
  2:{ gxs. rewrite map_length. do 2 f_equal. lia. }
  rewrite S3. eexists. split; [reflexivity|].
  repeat split; try (lk; rewrite ?L1, ?L2; reflexivity).
  intros x Hs Ht Ha Hb. rewrite !lookup_upd. neqb. reflexivity.
Qed.

(* both blocks in sequence (the opaque statements in between do not touch the integer variables) *)
Corollary go_broadcastForMatMul_shapes fuel d (d1 d2 : list nat) (e : env) :
  (2 <= length d1)%nat -> (2 <= length d2)%nat ->
  (S (Nat.max (length d1) (length d2)) <= fuel)%nat ->
  lookup e "ct1.dims" = Some (nats d1) -> lookup e "ct2.dims" = Some (nats d2) ->
  exists e' e'',
    exec (callD ftab fuel (S d)) fuel mm_c1 e = ONormal e' /\
    lookup e' "shape" = Some (nats (mmShape (Data.targetBroadcastDims d1 d2) d1)) /\
    exec (callD ftab fuel (S d)) fuel mm_c2 e' = ONormal e'' /\
    lookup e'' "shape" = Some (nats (mmShape (Data.targetBroadcastDims d1 d2) d2)) /\
    lookup e'' "ct1.dims" = Some (nats d1) /\ lookup e'' "ct2.dims" = Some (nats d2).
Proof.
  intros H1 H2 Hf L1 L2.
  destruct (go_broadcastForMatMul_first_shape fuel d d1 d2 e H1 H2 Hf L1 L2)
    as (e' & X1 & Ls & L1' & L2' & Lt & Ll1 & Ll2 & _).
  destruct (go_broadcastForMatMul_second_shape (callD ftab fuel (S d)) fuel d1 d2 e' H1 H2 L2' Ls Lt Ll2)
    as (e'' & X2 & Ls' & Fr).
  exists e', e''. repeat split; auto.
  - rewrite Fr by discriminate. exact L1'.
  - rewrite Fr by discriminate. exact L2'.
Qed.

(* ---------- (c) a concrete run ---------- *)
Example ex_broadcastForMatMul_c1 :
  match exec (callD ftab 5 1) 5 mm_c1 [("ct1.dims", nats [2;1;3;4]%nat); ("ct2.dims", nats [5;4;6]%nat)] with
  | ONormal e' => (lookup e' "shape", lookup e' "lt", lookup e' "l1", lookup e' "l2")
  | _ => (None, None, None, None)
  end = (Some (nats [2;5;3;4]%nat), Some (VI 4), Some (VI 4), Some (VI 3)).
Proof. vm_compute; reflexivity. Qed.

Example ex_broadcastForMatMul_c1_c2 :
  match exec (callD ftab 5 1) 5 mm_c1 [("ct1.dims", nats [2;1;3;4]%nat); ("ct2.dims", nats [5;4;6]%nat)] with
  | ONormal e' => match exec (callD ftab 5 1) 5 mm_c2 e' with
                  | ONormal e'' => lookup e'' "shape"
                  | _ => None
                  end
  | _ => None
  end = Some (nats [2;5;4;6]%nat).
Proof. vm_compute; reflexivity. Qed.

Example ex_mmShape :
  mmShape (Data.targetBroadcastDims [2;1;3;4]%nat [5;4;6]%nat) [2;1;3;4]%nat = [2;5;3;4]%nat /\
  mmShape (Data.targetBroadcastDims [2;1;3;4]%nat [5;4;6]%nat) [5;4;6]%nat = [2;5;4;6]%nat.
Proof. split; vm_compute; reflexivity. Qed.

Print Assumptions broadcastForMatMul_outer_shape.
Print Assumptions broadcastForMatMul_outer_code.
Print Assumptions tbd_length_max.
Print Assumptions callD_targetBroadcastDims.
Print Assumptions go_broadcastForMatMul_first_shape.
Print Assumptions go_broadcastForMatMul_second_shape.
Print Assumptions go_broadcastForMatMul_shapes.
