(* DataFillP.v — CPUTensor.initWith (tensor/internal/cputensor/initializers.go) as translated by harness/gox into the
   DataIR program GoData.d_initWith computes Model/Fill.v fill / initWith.  The oracle state is the generator state. *)
From Coq Require Import String List ZArith Bool Lia Arith.
From Qeep Require Import Model.Scalar Model.Nd Model.Fill Model.DataIR Model.GoData Proofs.DataIRP Proofs.DataAtP.
From Qeep Require Model.GoIR.
Import ListNotations.
Local Open Scope string_scope.
Local Open Scope Z_scope.
Local Open Scope list_scope.

Section DataFill.
Context {A : Type} {SA : Scalar A}.
Variable fapp : string -> list A -> option A.
Variable G : Type.
Variable gen : G -> option (nd A * G).
Variable ext : string -> list (@dval A) -> G -> option (list (@dval A) * G).
Hypothesis ext_initFunc :
  forall s, ext "initFunc" [] s = match gen s with Some (e, s') => Some ([emb e], s') | None => None end.

Notation denv := (@denv A).
Notation dval := (@dval A).

(* assignment to an existing local of the closure invocation *)
Lemma vassign_local (g l : denv) x (v : dval) :
  dhas l x = true -> vassign false g l x v = (g, dupd l x v).
Proof. unfold vassign. now intros ->. Qed.

Lemma vlookup_local (g l : denv) x (v : dval) : dlookup l x = Some v -> vlookup g l x = Some v.
Proof. unfold vlookup. now intros ->. Qed.

Lemma dhas_true (l : denv) x (v : dval) : dlookup l x = Some v -> dhas l x = true.
Proof. unfold dhas. now intros ->. Qed.

Lemma setNthD_mid (pre post : list dval) (v0 v : dval) :
  setNthD (pre ++ v0 :: post) (length pre) v = Some (pre ++ v :: post).
Proof. induction pre as [|a pre IH]; cbn; [reflexivity | now rewrite IH]. Qed.

Lemma nth_error_mid (pre post : list dval) (v0 : dval) : nth_error (pre ++ v0 :: post) (length pre) = Some v0.
Proof. induction pre as [|a pre IH]; cbn; [reflexivity | exact IH]. Qed.

(* ---------- the loop  for i := range rows { fill(dims, &rows[i]) }  for an abstract body ---------- *)
Section Loop.
Variable r : list nat.
Variable body : G -> denv -> denv -> @doutcome A G.
Variable assign : denv -> denv -> Z -> dval -> denv * denv.
Hypothesis Hassign : forall g l k v, assign g l k v = (g, dupd (dupd l "i" (DI k)) "_" v).
Hypothesis Hbody : forall s g l (pre : list (nd A)) (post : list dval) v0,
  dlookup l "dims" = Some (dnats r) ->
  dlookup l "rows" = Some (DL (map emb pre ++ v0 :: post)) ->
  dlookup l "i" = Some (DI (Z.of_nat (length pre))) ->
  body s g l = match fill r gen s with
               | Some (x, s') => DNormal G s' g (dupd l "rows" (DL (map emb pre ++ emb x :: post)))
               | None => DPanic G
               end.

Lemma fill_loop : forall n (pre : list (nd A)) s g l,
  dlookup l "dims" = Some (dnats r) -> dhas l "data" = true ->
  dlookup l "rows" = Some (DL (map emb pre ++ repeat DNil n)) ->
  match rep n (fill r gen) s with
  | Some (xs, s') =>
      exists l', drangeLoop G body assign (repeat DNil n) (Z.of_nat (length pre)) s g l = DNormal G s' g l' /\
                 dlookup l' "rows" = Some (DL (map emb (pre ++ xs))) /\ dhas l' "data" = true
  | None => drangeLoop G body assign (repeat DNil n) (Z.of_nat (length pre)) s g l = DPanic G
  end.
Proof.
  induction n as [|n IH]; intros pre s g l Hd Hdat Hr.
  - cbn [rep repeat drangeLoop]. exists l. rewrite app_nil_r in *. auto.
  - cbn [rep repeat drangeLoop]. rewrite Hassign.
    set (l0 := dupd (dupd l "i" (DI (Z.of_nat (length pre)))) "_" DNil).
    assert (Hd0 : dlookup l0 "dims" = Some (dnats r)).
    { unfold l0. rewrite !dlookup_dupd. cbn [String.eqb Ascii.eqb Bool.eqb]. exact Hd. }
    assert (Hr0 : dlookup l0 "rows" = Some (DL (map emb pre ++ DNil :: repeat DNil n))).
    { unfold l0. rewrite !dlookup_dupd. cbn [String.eqb Ascii.eqb Bool.eqb]. exact Hr. }
    assert (Hi0 : dlookup l0 "i" = Some (DI (Z.of_nat (length pre)))).
    { unfold l0. rewrite !dlookup_dupd. cbn [String.eqb Ascii.eqb Bool.eqb]. reflexivity. }
    assert (Hdat0 : dhas l0 "data" = true).
    { unfold l0. rewrite !dhas_dupd. cbn [String.eqb Ascii.eqb Bool.eqb]. exact Hdat. }
    rewrite (Hbody s g l0 pre (repeat DNil n) DNil Hd0 Hr0 Hi0).
    destruct (fill r gen s) as [[x s1]|]; cbn [obind]; [|reflexivity].
    set (l1 := dupd l0 "rows" (DL (map emb pre ++ emb x :: repeat DNil n))).
    specialize (IH (pre ++ [x]) s1 g l1).
    replace (Z.of_nat (length (pre ++ [x]))) with (Z.of_nat (length pre) + 1) in IH
      by (rewrite app_length; cbn [length]; lia).
    assert (Hd1 : dlookup l1 "dims" = Some (dnats r)).
    { unfold l1. rewrite dlookup_dupd. cbn [String.eqb Ascii.eqb Bool.eqb]. exact Hd0. }
    assert (Hdat1 : dhas l1 "data" = true).
    { unfold l1. rewrite dhas_dupd. cbn [String.eqb Ascii.eqb Bool.eqb]. exact Hdat0. }
    assert (Hr1 : dlookup l1 "rows" = Some (DL (map emb (pre ++ [x]) ++ repeat DNil n))).
    { unfold l1. rewrite dlookup_dupd. cbn [String.eqb Ascii.eqb Bool.eqb].
      rewrite map_app, <- app_assoc. reflexivity. }
    specialize (IH Hd1 Hdat1 Hr1).
    destruct (rep n (fill r gen) s1) as [[xs s2]|]; cbn [obind].
    + destruct IH as [l' [H1 [H2 H3]]]. exists l'. rewrite <- app_assoc in H2. auto.
    + exact IH.
Qed.
End Loop.

Lemma zleb0 (n : nat) : (0 <=? Z.of_nat n) = true.
Proof. apply Z.leb_le. lia. Qed.

Lemma sub_tail (x : dval) (m : list dval) :
  (if (0 <=? 1) && (1 <=? dlen (x :: m)) && (dlen (x :: m) <=? dlen (x :: m))
   then Some (DL (firstn (Z.to_nat (dlen (x :: m) - 1)) (skipn (Z.to_nat 1) (x :: m))))
   else None) = Some (DL m).
Proof.
  unfold dlen. cbn [length].
  replace ((0 <=? 1) && (1 <=? Z.of_nat (S (length m))) && (Z.of_nat (S (length m)) <=? Z.of_nat (S (length m)))) with true.
  2:{ symmetry. rewrite !andb_true_iff, !Z.leb_le. lia. }
  replace (Z.to_nat (Z.of_nat (S (length m)) - 1)) with (length m) by lia.
  change (Z.to_nat 1) with 1%nat. cbn [skipn]. now rewrite firstn_all.
Qed.

Lemma map_length_nth_mid (pre : list (nd A)) (post : list dval) (v0 : dval) :
  nth_error (map emb pre ++ v0 :: post) (length pre) = Some v0.
Proof. rewrite <- (map_length emb pre). apply nth_error_mid. Qed.

Lemma map_length_set_mid (pre : list (nd A)) (post : list dval) (v0 v : dval) :
  setNthD (map emb pre ++ v0 :: post) (length pre) v = Some (map emb pre ++ v :: post).
Proof. rewrite <- (map_length emb pre). apply setNthD_mid. Qed.

Lemma fill_closure : forall (ds : list nat) (d fuel : nat) (v : dval) (s : G) (g : denv),
  (length ds <= d)%nat ->
  callLD fapp G ext (plocals d_initWith) fuel (S d) "fill" [dnats ds; v] s g =
  match fill ds gen s with
  | Some (x, s') => CRet G [emb x] s' g
  | None => CPanic G
  end.
Proof.
  induction ds as [|d0 r IH]; intros d fuel v s g Hd.
  - unfold d_initWith. cbn [callLD dlookupFn plocals String.eqb Ascii.eqb Bool.eqb dbind dparams dbody].
    set (cl := callLD fapp G ext _ fuel d). cbn [tseq].
    rewrite dexec_TSeq, dexec_TIf. unfold dnats.
    cbn [deval vlookup dlookup String.eqb Ascii.eqb Bool.eqb map dlen length Z.of_nat devalBin Z.eqb].
    rewrite dexec_TSeq, dexec_TExt. cbn [devals]. rewrite ext_initFunc. cbn [fill].
    destruct (gen s) as [[e s']|]; [|reflexivity].
    cbn [dassignAll]. rewrite vassign_local by reflexivity.
    rewrite dexec_TRet. cbn [devals dupd String.eqb Ascii.eqb Bool.eqb ptrOuts dlookup].
    reflexivity.
  - unfold d_initWith. cbn [callLD dlookupFn plocals String.eqb Ascii.eqb Bool.eqb dbind dparams dbody].
    set (cl := callLD fapp G ext _ fuel d).
    assert (Hcl : forall v s g,
              cl "fill" [dnats r; v] s g =
              match fill r gen s with Some (x, s') => CRet G [emb x] s' g | None => CPanic G end).
    { intros v1 s1 g1. subst cl. destruct d as [|d]; [cbn [length] in Hd; lia|].
      apply IH. cbn [length] in Hd; lia. }
    clearbody cl. cbn [tseq].
    rewrite dexec_TSeq, dexec_TIf. unfold dnats at 1.
    cbn [deval vlookup dlookup String.eqb Ascii.eqb Bool.eqb map dlen length Z.of_nat devalBin Z.eqb].
    rewrite dexec_TSkip.
    rewrite dexec_TSeq, dexec_TDef.
    cbn [deval vlookup dlookup String.eqb Ascii.eqb Bool.eqb map].
    unfold dnats at 1. cbn [map]. change (didx 0) with (Some 0%nat). cbn [nth_error].
    rewrite zleb0, Nat2Z.id. unfold vdefine.
    cbn [dupd String.eqb Ascii.eqb Bool.eqb].
    rewrite dexec_TSeq, dexec_TSet.
    cbn [deval vlookup dlookup String.eqb Ascii.eqb Bool.eqb].
    unfold dnats at 1. cbn [map]. rewrite sub_tail.
    change (DL (map (fun n : nat => @DI A (Z.of_nat n)) r)) with (@dnats A r).
    rewrite vassign_local by reflexivity.
    cbn [dupd String.eqb Ascii.eqb Bool.eqb].
    rewrite dexec_TSeq, dexec_TRange.
    cbn [deval vlookup dlookup String.eqb Ascii.eqb Bool.eqb].
    match goal with |- context [drangeLoop G ?b ?asg _ _ _ _ _] =>
      pose proof (fill_loop r b asg) as HL
    end.
    match type of HL with ?P -> _ => assert (Hassign : P) end.
    { intros g1 l1 k v1. reflexivity. }
    specialize (HL Hassign).
    match type of HL with ?P -> _ => assert (Hbody : P) end.
    { intros s1 g1 l1 pre post v0 Hdims Hrows Hi.
      rewrite dexec_TCall. cbn [argVals deval].
      rewrite (vlookup_local g1 l1 _ _ Hdims), (vlookup_local g1 l1 _ _ Hrows), (vlookup_local g1 l1 _ _ Hi).
      rewrite didx_nat, map_length_nth_mid, (Hcl v0 s1 g1).
      destruct (fill r gen s1) as [[x s2]|]; [|reflexivity].
      cbn [copyOut deval]. rewrite (vlookup_local g1 l1 _ _ Hi), didx_nat.
      unfold setSlot. rewrite (vlookup_local g1 l1 _ _ Hrows), map_length_set_mid.
      rewrite vassign_local by (eapply dhas_true; exact Hrows). reflexivity. }
    match goal with |- context [drangeLoop G _ _ _ _ s g ?l0] =>
      specialize (HL Hbody d0 [] s g l0 eq_refl eq_refl eq_refl)
    end.
    cbn [length Z.of_nat] in HL. cbn [fill].
    destruct (rep d0 (fill r gen) s) as [[xs s2]|]; cbn [obind].
    + destruct HL as [l' [HL1 [HL2 HL3]]]. rewrite HL1.
      rewrite dexec_TSet. cbn [deval]. rewrite (vlookup_local g l' _ _ HL2).
      rewrite vassign_local by exact HL3.
      cbn [ptrOuts]. rewrite dlookup_dupd. cbn [String.eqb Ascii.eqb Bool.eqb app].
      rewrite emb_Vec. reflexivity.
    + rewrite HL. reflexivity.
Qed.


(* ---------- the top-level function ---------- *)
Theorem data_initWith_body (fuel depth : nat) (ds : list nat) (v0 : dval) (s : G) :
  (length ds < depth)%nat ->
  dexec fapp G ext (callLD fapp G ext (plocals d_initWith) fuel depth) fuel true (dbody (pmain d_initWith)) s
        [("t.dims", dnats ds); ("t.data", v0)] [] =
  match fill ds gen s with
  | Some (r, s') => DNormal G s' [("t.dims", dnats ds); ("t.data", emb r)] []
  | None => DPanic G
  end.
Proof.
  intros Hd. destruct depth as [|d]; [lia|].
  set (locs := plocals d_initWith).
  unfold d_initWith. cbn [pmain dbody tseq].
  rewrite dexec_TSeq, dexec_TSkip, dexec_TCall.
  cbn [argVals deval vlookup dlookup String.eqb Ascii.eqb Bool.eqb].
  subst locs. rewrite fill_closure by lia.
  destruct (fill ds gen s) as [[r s']|]; [|reflexivity].
  cbn [copyOut vassign dhas dlookup dupd String.eqb Ascii.eqb Bool.eqb]. reflexivity.
Qed.

Theorem data_initWith_run (fuel depth : nat) (ds : list nat) (v0 : dval) (s : G) :
  (length ds < depth)%nat ->
  drun fapp G ext d_initWith fuel depth [dnats ds; v0] s =
  match fill ds gen s with
  | Some (r, s') => DNormal G s' [("t.dims", dnats ds); ("t.data", emb r)] []
  | None => DPanic G
  end.
Proof.
  intros Hd. unfold drun.
  change (dbind (dparams (pmain d_initWith)) [dnats ds; v0]) with (Some [("t.dims", dnats ds); ("t.data", v0)]).
  apply data_initWith_body; exact Hd.
Qed.

(* in the terms of the task: unset t.data, model result Fill.initWith *)
Corollary data_initWith (fuel depth : nat) (ds : list nat) (s : G) (r : nd A) :
  (length ds < depth)%nat ->
  initWith ds gen s = Some r ->
  exists s' g',
    fill ds gen s = Some (r, s') /\
    dexec fapp G ext (callLD fapp G ext (plocals d_initWith) fuel depth) fuel true (dbody (pmain d_initWith)) s
          [("t.dims", dnats ds); ("t.data", DNil)] [] = DNormal G s' g' [] /\
    dlookup g' "t.data" = Some (emb r) /\ dlookup g' "t.dims" = Some (dnats ds).
Proof.
  intros Hd Hi. unfold initWith in Hi.
  pose proof (data_initWith_body fuel depth ds DNil s Hd) as HB.
  destruct (fill ds gen s) as [[r' s']|]; cbn [obind fst] in Hi; [|discriminate].
  inversion Hi; subst r'. exists s', [("t.dims", dnats ds); ("t.data", emb r)].
  repeat split; [exact HB].
Qed.

Corollary data_initWith_panic (fuel depth : nat) (ds : list nat) (v0 : dval) (s : G) :
  (length ds < depth)%nat ->
  initWith ds gen s = None ->
  drun fapp G ext d_initWith fuel depth [dnats ds; v0] s = DPanic G.
Proof.
  intros Hd Hi. rewrite data_initWith_run by exact Hd. unfold initWith in Hi.
  destruct (fill ds gen s) as [[r' s']|]; cbn [obind] in Hi; [discriminate | reflexivity].
Qed.

End DataFill.

(* ---------- concrete runs (scalars = the free term algebra of Model/Scalar.v) ---------- *)
Definition ext_of {A G} (gen : G -> option (nd A * G)) : string -> list (@dval A) -> G -> option (list (@dval A) * G) :=
  fun f vs s =>
    if String.eqb f "initFunc"
    then match vs with
         | [] => match gen s with Some (e, s') => Some ([emb e], s') | None => None end
         | _ => None
         end
    else None.

Lemma ext_of_spec {A G} (gen : G -> option (nd A * G)) s :
  ext_of gen "initFunc" [] s = match gen s with Some (e, s') => Some ([emb e], s') | None => None end.
Proof. reflexivity. Qed.

(* eyeMatrix(2): the generator state counts the elements produced; fuel 0 suffices (no for loop), depth = rank + 1 *)
Example initWith_eye2 :
  drun (fun _ _ => None) nat (ext_of (@eyeGen term _ 2)) d_initWith 0 3 [dnats [2; 2]%nat; DNil] 0%nat =
  DNormal nat 4%nat [("t.dims", dnats [2; 2]%nat);
                     ("t.data", emb (Vec [Vec [Sc s1; Sc s0]; Vec [Sc s0; Sc s1]]))] [].
Proof. vm_compute. reflexivity. Qed.

(* a dimension of size 0: the generator is never called *)
Example initWith_empty :
  drun (fun _ _ => None) nat (ext_of (@eyeGen term _ 2)) d_initWith 0 3 [dnats [0; 3]%nat; DNil] 0%nat =
  DNormal nat 0%nat [("t.dims", dnats [0; 3]%nat); ("t.data", emb (Vec []))] [].
Proof. vm_compute. reflexivity. Qed.

(* a generator that fails on its 4th call: panic, as Fill.fill = None *)
Example initWith_panics :
  drun (fun _ _ => None) nat
       (ext_of (fun k : nat => if (k <? 3)%nat then Some (Sc (s0 : term), S k) else None))
       d_initWith 0 3 [dnats [2; 2]%nat; DNil] 0%nat = DPanic nat.
Proof. vm_compute. reflexivity. Qed.

(* too little closure depth is reported as DFuel, not as a result *)
Example initWith_depth :
  drun (fun _ _ => None) nat (ext_of (@eyeGen term _ 2)) d_initWith 0 2 [dnats [2; 2]%nat; DNil] 0%nat = DFuel nat.
Proof. vm_compute. reflexivity. Qed.

Print Assumptions fill_closure.
Print Assumptions data_initWith_body.
Print Assumptions data_initWith_run.
Print Assumptions data_initWith.
Print Assumptions data_initWith_panic.
