(* SliceP.v — accessors.go: completeIndex, Slice (copiedSliceOf), Patch (copiedWithPatchOf), At,
   at the data layer and at the public (validated, Z-argument) level, against the index-level
   specification.  All shapes and ranks, arbitrary element type. *)
From Coq Require Import List Arith ZArith Bool Lia ZifyBool.
From Qeep Require Import Model.Scalar Model.Nd Model.Fill Model.Data Model.Valid Model.Api Proofs.NdP Proofs.ElemP.
Import ListNotations.

(* ---------- index arithmetic used by the specifications ---------- *)

(* extent of every range: To - From *)
Definition sizes (index : list range) : list nat := map (fun r => snd r - fst r) index.
(* idx + From, component-wise *)
Definition shift (idx : list nat) (index : list range) : list nat :=
  map (fun p => fst p + fst (snd p)) (combine idx index).

Lemma shift_cons i idx f t index : shift (i :: idx) ((f, t) :: index) = (i + f) :: shift idx index.
Proof. reflexivity. Qed.

Lemma Forall2_weaken {X Y} (P Q : X -> Y -> Prop) l1 l2 :
  (forall x y, P x y -> Q x y) -> Forall2 P l1 l2 -> Forall2 Q l1 l2.
Proof. intros H HF. induction HF as [|x y l1 l2 Hxy HF IH]; constructor; auto. Qed.

(* ---------- completeIndex ---------- *)

Definition completeEntry (o : option range) (d : nat) : range :=
  match o with
  | Some (f, t) => if (f =? 0) && (t =? 0) then (0, d) else (f, t)
  | None => (0, d)
  end.

Lemma completeIndex_length index ds : length (completeIndex index ds) = length ds.
Proof.
  revert index. induction ds as [|d ds IH]; intros [|[f t] index]; cbn; try reflexivity; rewrite IH; reflexivity.
Qed.

Lemma completeIndex_nth index ds : forall k d, nth_error ds k = Some d ->
  nth_error (completeIndex index ds) k = Some (completeEntry (nth_error index k) d).
Proof.
  revert index. induction ds as [|d0 ds IH]; intros index k d Hk; [destruct k; discriminate|].
  destruct k as [|k]; cbn in Hk.
  - inversion Hk; subst. destruct index as [|[f t] index]; reflexivity.
  - destruct index as [|[f t] index]; cbn [completeIndex nth_error].
    + rewrite (IH [] k d Hk). destruct k; reflexivity.
    + apply IH. exact Hk.
Qed.

(* the k-th entry is (0, d_k) when the index is too short or its k-th entry is (0,0); otherwise it is
   the k-th entry of the index *)
Theorem completeIndex_spec index ds :
  length (completeIndex index ds) = length ds /\
  forall k d, nth_error ds k = Some d ->
    exists r, nth_error (completeIndex index ds) k = Some r /\
      (length index <= k \/ nth_error index k = Some (0, 0) -> r = (0, d)) /\
      (forall e, nth_error index k = Some e -> e <> (0, 0) -> r = e).
Proof.
  split; [apply completeIndex_length|]. intros k d Hk. eexists. split; [apply completeIndex_nth; exact Hk|]. split.
  - intros [Hl|He].
    + apply nth_error_None in Hl. rewrite Hl. reflexivity.
    + rewrite He. reflexivity.
  - intros [f t] He Hne. rewrite He. cbn. destruct ((f =? 0) && (t =? 0)) eqn:E; [|reflexivity].
    apply andb_true_iff in E as [E1 E2]. apply Nat.eqb_eq in E1, E2. subst. contradiction.
Qed.

Lemma completeIndex_nil ds : completeIndex [] ds = map (fun d => (0, d)) ds.
Proof. induction ds as [|d ds IH]; cbn; [reflexivity|]. rewrite IH. reflexivity. Qed.

Section SliceP.
Context {A : Type}.
Notation T := (tensor A).

(* ---------- sliceData ---------- *)

Theorem sliceData_spec : forall (index : list range) (ds : list nat) (src : nd A),
  wfnd ds src ->
  Forall2 (fun r d => fst r <= snd r /\ snd r <= d) index ds ->
  exists r, sliceData index src = Some r /\ wfnd (sizes index) r /\
            forall idx, validIdx (sizes index) idx -> get r idx = get src (shift idx index).
Proof.
  induction index as [|[f t] index IH]; intros ds src Hw HF; inversion HF as [|r0 d index0 ds' Hr HF']; subst.
  - apply wfnd_nil in Hw as (a & ->). exists (Sc a). cbn. split; [reflexivity|]. split; [exact I|].
    intros idx Hv. apply validIdx_nil in Hv; subst. reflexivity.
  - cbn [fst snd] in Hr. destruct Hr as [Hft Htd].
    apply wfnd_cons in Hw as (rows & -> & Hl & Hf). cbn [sliceData asV obind].
    destruct (mapM_seq_build (fun i => do r <- nth_error rows (i + f); sliceData index r) (t - f)
                (fun i y => exists row, nth_error rows (i + f) = Some row /\ wfnd (sizes index) y /\
                   forall idx, validIdx (sizes index) idx -> get y idx = get row (shift idx index)))
      as (out & Eo & Hlo & Hn).
    + intros i Hi. destruct (nth_error_lt_some rows (i + f) ltac:(lia)) as (row & Er). rewrite Er. cbn.
      destruct (IH ds' row (Forall_nth_error_inv _ _ _ _ Hf Er) HF') as (y & Ey & Hwy & Hg).
      exists y. split; [exact Ey|]. exists row. auto.
    + rewrite Eo. cbn [obind]. exists (Vec out). split; [reflexivity|]. split.
      * cbn. split; [exact Hlo|]. apply Forall_nth_error. intros i y Hy.
        assert (Hi : i < t - f) by (rewrite <- Hlo; apply nth_error_Some; congruence).
        destruct (Hn i Hi) as (y' & Ey' & _ & (row & _ & Hwy & _)). assert (y' = y) by congruence. subst y'. exact Hwy.
      * intros idx Hv. cbn [sizes map fst snd] in Hv.
        apply validIdx_cons in Hv as (i & rr & -> & Hi & Hr). rewrite shift_cons, !get_cons.
        destruct (Hn i Hi) as (y & Ey & _ & (row & Er & _ & Hg)). rewrite Ey, Er. apply Hg. exact Hr.
Qed.

(* ---------- slice ---------- *)

(* a validated slice index: not longer than the shape; every entry is (0,0) (= whole dimension) or a
   non-empty range inside the dimension *)
Fixpoint sliceIndexOk (index : list range) (ds : list nat) : Prop :=
  match index, ds with
  | [], _ => True
  | r :: index', d :: ds' => (r = (0, 0) \/ (fst r < snd r /\ snd r <= d)) /\ sliceIndexOk index' ds'
  | _ :: _, [] => False
  end.

Lemma sliceIndexOk_iff index : forall ds,
  sliceIndexOk index ds <->
  length index <= length ds /\
  forall k r d, nth_error index k = Some r -> nth_error ds k = Some d -> r = (0, 0) \/ (fst r < snd r /\ snd r <= d).
Proof.
  induction index as [|r0 index IH]; intros ds.
  - cbn. split; [|tauto]. intros _. split; [lia|]. intros k r d Hk. destruct k; discriminate.
  - destruct ds as [|d0 ds]; cbn [sliceIndexOk length].
    + split; [tauto|]. intros [Hl _]. lia.
    + rewrite IH. split.
      * intros [H0 [Hl Hn]]. split; [lia|]. intros k r d Hk Hd. destruct k as [|k]; cbn in Hk, Hd.
        -- inversion Hk; inversion Hd; subst. exact H0.
        -- eapply Hn; eauto.
      * intros [Hl Hn]. split; [apply (Hn 0); reflexivity|]. split; [lia|].
        intros k r d Hk Hd. apply (Hn (S k)); assumption.
Qed.

Lemma completeIndex_ok : forall ds index, sliceIndexOk index ds -> Forall (fun d => 0 < d) ds ->
  Forall2 (fun r d => fst r < snd r /\ snd r <= d) (completeIndex index ds) ds.
Proof.
  induction ds as [|d ds IH]; intros index Hok Hp; [constructor|].
  inversion Hp as [|d' ds'' Hd Hp']; subst.
  destruct index as [|[f t] index]; cbn [completeIndex].
  - constructor; [cbn; lia|]. apply IH; [exact I|exact Hp'].
  - cbn [sliceIndexOk] in Hok. destruct Hok as [H0 Hok]. constructor; [|apply IH; assumption].
    destruct ((f =? 0) && (t =? 0)) eqn:E; [cbn; lia|].
    destruct H0 as [H0|H0]; [|exact H0]. inversion H0; subst. discriminate.
Qed.

Lemma sizes_pos (l : list range) (ds : list nat) :
  Forall2 (fun r d => fst r < snd r /\ snd r <= d) l ds -> Forall (fun d => 0 < d) (sizes l).
Proof. intros HF. induction HF as [|r0 d0 l l' H HF IH]; cbn; constructor; [lia|exact IH]. Qed.

Lemma sizes_length index : length (sizes index) = length index.
Proof. apply map_length. Qed.

Theorem slice_spec (t : T) (index : list range) : wf t -> sliceIndexOk index (dims t) ->
  exists r, slice t index = Some r /\
            dims r = sizes (completeIndex index (dims t)) /\ wf r /\
            forall idx, validIdx (dims r) idx ->
              get (data r) idx = get (data t) (shift idx (completeIndex index (dims t))).
Proof.
  intros [Hw Hp] Hok. pose proof (completeIndex_ok _ _ Hok Hp) as HF.
  unfold slice, copiedSliceOf.
  destruct (sliceData_spec (completeIndex index (dims t)) (dims t) (data t) Hw) as (d & Ed & Hwd & Hg).
  - eapply Forall2_weaken; [|exact HF]. cbn. intros r0 d0 H. lia.
  - rewrite Ed. cbn [obind]. eexists. split; [reflexivity|]. cbn [dims data]. split; [reflexivity|].
    split; [|exact Hg]. split; cbn [dims data]; [exact Hwd|].
    eapply sizes_pos; exact HF.
Qed.

(* slicing with the empty index copies the tensor (used by patch and concat) *)
Lemma shift_nil_index ds : forall idx, validIdx ds idx -> shift idx (map (fun d => (0, d)) ds) = idx.
Proof.
  induction ds as [|d ds IH]; intros idx Hv.
  - apply validIdx_nil in Hv; subst. reflexivity.
  - apply validIdx_cons in Hv as (i & rr & -> & _ & Hr). cbn [map]. rewrite shift_cons, IH by exact Hr.
    f_equal. lia.
Qed.

Lemma sizes_nil_index ds : sizes (map (fun d => (0, d)) ds) = ds.
Proof. unfold sizes. rewrite map_map. cbn. induction ds as [|d ds IH]; cbn; [reflexivity|]. rewrite IH. f_equal. lia. Qed.

Lemma slice_nil (t : T) : wfnd (dims t) (data t) -> slice t [] = Some t.
Proof.
  intros Hw. unfold slice, copiedSliceOf. rewrite completeIndex_nil.
  destruct (sliceData_spec (map (fun d => (0, d)) (dims t)) (dims t) (data t) Hw) as (d & Ed & Hwd & Hg).
  - clear Hw. induction (dims t) as [|d0 ds IH]; cbn; constructor; [cbn; lia|exact IH].
  - rewrite Ed. cbn [obind]. rewrite sizes_nil_index in *. destruct t as [ds x]. cbn [dims data] in *.
    f_equal. f_equal. apply (nd_ext A ds); [exact Hwd|exact Hw|]. intros idx Hv.
    rewrite Hg by exact Hv. rewrite shift_nil_index by exact Hv. reflexivity.
Qed.

(* ---------- the validators, declaratively ---------- *)

Local Open Scope Z_scope.

Fixpoint zsliceOk (index : list zrange) (ds : list nat) : Prop :=
  match index, ds with
  | [], _ => True
  | (f, t) :: index', d :: ds' =>
      ((f = 0 /\ t = 0) \/ (0 <= f /\ f < t /\ t <= Z.of_nat d)) /\ zsliceOk index' ds'
  | _ :: _, [] => False
  end.

Lemma sliceRangesOk_iff index : forall ds, sliceRangesOk index (map Z.of_nat ds) = true <-> zsliceOk index ds.
Proof.
  induction index as [|[f t] index IH]; intros ds; cbn; [tauto|].
  destruct ds as [|d ds]; cbn; [split; [discriminate|tauto]|].
  rewrite andb_true_iff, IH.
  destruct ((f =? 0) && (t =? 0)) eqn:E; split; intros [H1 H2]; (split; [|exact H2]); try lia.
Qed.

Lemma sliceRangesOk_length index : forall dsz, sliceRangesOk index dsz = true -> (length index <= length dsz)%nat.
Proof.
  induction index as [|[f t] index IH]; intros dsz H; cbn; [lia|].
  destruct dsz as [|d dsz]; cbn in H; [discriminate|]. apply andb_true_iff in H as [_ H]. specialize (IH _ H). cbn. lia.
Qed.

Lemma validateSlice_iff index ds : validateSliceIndexAgainstDims index (map Z.of_nat ds) = true <-> zsliceOk index ds.
Proof.
  unfold validateSliceIndexAgainstDims. rewrite andb_true_iff, sliceRangesOk_iff. split; [tauto|].
  intros H. split; [|exact H]. apply Nat.leb_le. apply sliceRangesOk_length. apply sliceRangesOk_iff. exact H.
Qed.

Lemma zsliceOk_nat index : forall ds, zsliceOk index ds -> sliceIndexOk (rangesOf index) ds.
Proof.
  induction index as [|[f t] index IH]; intros ds H; cbn; [exact I|].
  destruct ds as [|d ds]; cbn in H; [contradiction|]. destruct H as [H0 H]. split; [|apply IH; exact H].
  cbn [fst snd]. destruct H0 as [[-> ->]|H0]; [left; reflexivity|right; lia].
Qed.

Theorem v_slice_spec (t : T) (index : list zrange) : wf t ->
  (validateSliceIndexAgainstDims index (zdims t) = true ->
     exists r, v_slice t index = Ok r /\
               dims r = sizes (completeIndex (rangesOf index) (dims t)) /\ wf r /\
               forall idx, validIdx (dims r) idx ->
                 get (data r) idx = get (data t) (shift idx (completeIndex (rangesOf index) (dims t))))
  /\ (validateSliceIndexAgainstDims index (zdims t) = false -> v_slice t index = Err).
Proof.
  intros Hw. unfold v_slice, guard. split; intros V; rewrite V; [|reflexivity].
  apply validateSlice_iff, zsliceOk_nat in V.
  destruct (slice_spec t (rangesOf index) Hw V) as (r & Er & H). rewrite Er. exists r. split; [reflexivity|exact H].
Qed.

Corollary v_slice_ok_iff (t : T) (index : list zrange) : wf t ->
  ((exists r, v_slice t index = Ok r) <-> zsliceOk index (dims t)) /\ v_slice t index <> Panic.
Proof.
  intros Hw. destruct (v_slice_spec t index Hw) as [H1 H2]. rewrite <- validateSlice_iff. fold (zdims t).
  destruct (validateSliceIndexAgainstDims index (zdims t)) eqn:V.
  - destruct (H1 eq_refl) as (r & Er & _). rewrite Er. split; [|discriminate]. split; [reflexivity|]. intros _. exists r; reflexivity.
  - rewrite (H2 eq_refl). split; [|discriminate]. split; [intros (r & Er); discriminate|discriminate].
Qed.

(* ---------- At ---------- *)

Lemma atIndexOk_iff index : forall ds,
  atIndexOk index (map Z.of_nat ds) = true <-> Forall2 (fun i d => 0 <= i /\ i < Z.of_nat d) index ds.
Proof.
  induction index as [|i index IH]; intros [|d ds]; cbn.
  - split; [constructor|reflexivity].
  - split; [discriminate|intros H; inversion H].
  - split; [discriminate|intros H; inversion H].
  - rewrite andb_true_iff, IH. split.
    + intros [H1 H2]. constructor; [lia|exact H2].
    + intros H. inversion H; subst. split; [lia|assumption].
Qed.

Lemma validateAt_iff index ds :
  validateAtIndexAgainstDims index (map Z.of_nat ds) = true <-> Forall2 (fun i d => 0 <= i /\ i < Z.of_nat d) index ds.
Proof.
  unfold validateAtIndexAgainstDims. rewrite andb_true_iff, atIndexOk_iff. split; [tauto|].
  intros H. split; [|exact H]. apply Nat.eqb_eq. rewrite map_length. clear -H. induction H; cbn; congruence.
Qed.

Lemma validIdx_natsOf index ds :
  Forall2 (fun i d => 0 <= i /\ i < Z.of_nat d) index ds -> validIdx ds (natsOf index).
Proof. intros H. unfold validIdx, natsOf. induction H as [|i d index ds Hi H IH]; cbn; constructor; [lia|exact IH]. Qed.

Theorem v_at_spec (t : T) (index : list Z) : wf t ->
  (Forall2 (fun i d => 0 <= i /\ i < Z.of_nat d) index (dims t) ->
     exists a, v_at t index = Ok a /\ get (data t) (natsOf index) = Some a)
  /\ (~ Forall2 (fun i d => 0 <= i /\ i < Z.of_nat d) index (dims t) -> v_at t index = Err).
Proof.
  intros [Hw _]. unfold v_at. split; intros H.
  - pose proof (proj2 (validateAt_iff index (dims t)) H) as V. fold (zdims t) in V. rewrite V.
    destruct (get_wf A _ _ _ Hw (validIdx_natsOf _ _ H)) as (a & Ea). rewrite Ea. exists a. split; reflexivity.
  - destruct (validateAtIndexAgainstDims index (zdims t)) eqn:V; [|reflexivity].
    apply validateAt_iff in V. contradiction.
Qed.

Corollary v_at_ok_iff (t : T) (index : list Z) (a : A) : wf t ->
  (v_at t index = Ok a <->
     Forall2 (fun i d => 0 <= i /\ i < Z.of_nat d) index (dims t) /\ get (data t) (natsOf index) = Some a)
  /\ v_at t index <> Panic.
Proof.
  intros Hw. destruct (v_at_spec t index Hw) as [H1 H2].
  destruct (validateAtIndexAgainstDims index (zdims t)) eqn:V.
  - apply validateAt_iff in V. destruct (H1 V) as (a' & Ea & Eg). rewrite Ea. split; [|discriminate]. split.
    + intros E. inversion E; subst. split; assumption.
    + intros [_ E]. congruence.
  - assert (N : ~ Forall2 (fun i d => 0 <= i /\ i < Z.of_nat d) index (dims t)).
    { intros H. apply validateAt_iff in H. fold (zdims t) in H. congruence. }
    rewrite (H2 N). split; [|discriminate]. split; [discriminate|]. intros [H _]. contradiction.
Qed.

Local Close Scope Z_scope.

(* ---------- Patch ---------- *)

(* idx lies inside the block [From_k, From_k + du_k) in every dimension *)
Fixpoint inBlock (index : list range) (dus idx : list nat) : bool :=
  match index, dus, idx with
  | (f, _) :: index', du :: dus', i :: idx' => (f <=? i) && (i <? f + du) && inBlock index' dus' idx'
  | _, _, _ => true
  end.
(* idx - From, component-wise *)
Definition unshift (idx : list nat) (index : list range) : list nat :=
  map (fun p => fst p - fst (snd p)) (combine idx index).

Lemma unshift_cons i idx f t index : unshift (i :: idx) ((f, t) :: index) = (i - f) :: unshift idx index.
Proof. reflexivity. Qed.

(* the source block placed at the offsets fits into the target *)
Fixpoint fits (index : list range) (dus dts : list nat) : Prop :=
  match index, dus, dts with
  | [], [], [] => True
  | r :: index', du :: dus', dt :: dts' => fst r + du <= dt /\ fits index' dus' dts'
  | _, _, _ => False
  end.

Lemma setNth_some {X} (l : list X) : forall i v, i < length l ->
  exists l', setNth l i v = Some l' /\ length l' = length l /\ nth_error l' i = Some v /\
             forall j, j <> i -> nth_error l' j = nth_error l j.
Proof.
  induction l as [|x l IH]; intros i v Hi; cbn in Hi; [lia|].
  destruct i as [|i]; cbn [setNth].
  - eexists. split; [reflexivity|]. split; [reflexivity|]. split; [reflexivity|].
    intros j Hj. destruct j; [lia|reflexivity].
  - destruct (IH i v ltac:(lia)) as (l' & E & Hl & Hn & Ho). rewrite E. cbn [obind].
    eexists. split; [reflexivity|]. split; [cbn; lia|]. split; [exact Hn|].
    intros j Hj. destruct j as [|j]; [reflexivity|]. cbn. apply Ho. lia.
Qed.

(* the row loop of copiedWithPatchOf.copyData, for an abstract row-patching function *)
Lemma foldM_patch_rows (pd : nd A -> nd A -> option (nd A)) (f : nat) (Ps Pd : nd A -> Prop)
      (Q : nd A -> nd A -> nd A -> Prop) :
  (forall s d, Ps s -> Pd d -> exists n, pd s d = Some n /\ Pd n /\ Q s d n) ->
  forall (srows : list (nd A)) (s : nat) (acc : list (nd A)),
  Forall Ps srows -> Forall Pd acc -> s + length srows + f <= length acc ->
  exists out,
    foldM (fun (acc : list (nd A)) (ir : nat * nd A) =>
             let '(i, srow) := ir in
             do drow <- nth_error acc (i + f);
             do nrow <- pd srow drow;
             setNth acc (i + f) nrow)
          (combine (seq s (length srows)) srows) acc = Some out
    /\ length out = length acc /\ Forall Pd out
    /\ (forall i, i < s + f \/ s + f + length srows <= i -> nth_error out i = nth_error acc i)
    /\ (forall j srow, nth_error srows j = Some srow ->
          exists drow nrow, nth_error acc (s + j + f) = Some drow /\ nth_error out (s + j + f) = Some nrow /\
                            Q srow drow nrow).
Proof.
  intros Hpd. induction srows as [|srow srows IH]; intros s acc HPs HPd Hlen.
  - cbn. exists acc. split; [reflexivity|]. split; [reflexivity|]. split; [exact HPd|]. split; [reflexivity|].
    intros j srow Hj. destruct j; discriminate.
  - inversion HPs as [|x l HPsrow HPs']; subst. cbn [length] in Hlen. cbn [length seq combine foldM].
    destruct (nth_error_lt_some acc (s + f) ltac:(lia)) as (drow & Ed). rewrite Ed. cbn [obind].
    pose proof (Forall_nth_error_inv _ _ _ _ HPd Ed) as HPdrow.
    destruct (Hpd srow drow HPsrow HPdrow) as (nrow & En & HPn & HQ). rewrite En. cbn [obind].
    destruct (setNth_some acc (s + f) nrow ltac:(lia)) as (acc' & Es & Hl' & Hn' & Ho'). rewrite Es. cbn [obind].
    assert (HPd' : Forall Pd acc').
    { apply Forall_nth_error. intros j y Hy. destruct (Nat.eq_dec j (s + f)) as [->|Hne].
      - rewrite Hn' in Hy. inversion Hy; subst. exact HPn.
      - rewrite Ho' in Hy by exact Hne. eapply Forall_nth_error_inv; eauto. }
    destruct (IH (S s) acc' HPs' HPd' ltac:(lia)) as (out & Eo & Hlo & HPo & Hout & Hin).
    exists out. split; [exact Eo|]. split; [lia|]. split; [exact HPo|]. split.
    + intros i Hi. rewrite Hout by lia. apply Ho'. lia.
    + intros j srow' Hj. destruct j as [|j]; cbn in Hj.
      * inversion Hj; subst srow'. exists drow, nrow. replace (s + 0 + f) with (s + f) by lia.
        split; [exact Ed|]. split; [|exact HQ]. rewrite Hout by lia. exact Hn'.
      * destruct (Hin j srow' Hj) as (drow' & nrow' & Ha & Hb & Hc). exists drow', nrow'.
        replace (s + S j + f) with (S s + j + f) by lia. split; [|split; assumption].
        rewrite <- Ha. symmetry. apply Ho'. lia.
Qed.

Theorem patchData_spec : forall (index : list range) (dus dts : list nat) (src dst : nd A),
  wfnd dus src -> wfnd dts dst -> fits index dus dts ->
  exists r, patchData index src dst = Some r /\ wfnd dts r /\
            forall idx, validIdx dts idx ->
              get r idx = if inBlock index dus idx then get src (unshift idx index) else get dst idx.
Proof.
  induction index as [|[f t] index IH]; intros dus dts src dst Hws Hwd Hfit.
  - destruct dus as [|du dus]; [|contradiction]. destruct dts as [|dt dts]; [|contradiction].
    apply wfnd_nil in Hws as (a & ->). apply wfnd_nil in Hwd as (b & ->).
    exists (Sc a). cbn. split; [reflexivity|]. split; [exact I|].
    intros idx Hv. apply validIdx_nil in Hv; subst. reflexivity.
  - destruct dus as [|du dus]; [contradiction|]. destruct dts as [|dt dts]; [contradiction|].
    cbn [fits fst] in Hfit. destruct Hfit as [Hf Hfit].
    apply wfnd_cons in Hws as (srows & -> & Hls & Hfs). apply wfnd_cons in Hwd as (drows & -> & Hld & Hfd).
    cbn [patchData asV obind].
    destruct (foldM_patch_rows (patchData index) f (wfnd dus) (wfnd dts)
                (fun s d n => forall idx, validIdx dts idx ->
                   get n idx = if inBlock index dus idx then get s (unshift idx index) else get d idx))
      with (srows := srows) (s := 0) (acc := drows)
      as (out & Eo & Hlo & HPo & Hout & Hin).
    + intros s d Hs Hd. destruct (IH dus dts s d Hs Hd Hfit) as (n & En & Hwn & Hg). exists n. auto.
    + exact Hfs.
    + exact Hfd.
    + lia.
    + rewrite Eo. cbn [obind]. exists (Vec out). split; [reflexivity|]. split.
      * cbn. split; [lia|exact HPo].
      * intros idx Hv. apply validIdx_cons in Hv as (i & rr & -> & Hi & Hr).
        cbn [inBlock]. rewrite unshift_cons, !get_cons.
        destruct (f <=? i) eqn:E1; [destruct (i <? f + du) eqn:E2|]; cbn [andb].
        -- apply Nat.leb_le in E1. apply Nat.ltb_lt in E2.
           destruct (nth_error_lt_some srows (i - f) ltac:(lia)) as (srow & Es).
           destruct (Hin (i - f) srow Es) as (drow & nrow & Ha & Hb & Hc).
           replace (0 + (i - f) + f) with i in Ha, Hb by lia. rewrite Hb, Ha, Es.
           rewrite (Hc rr Hr). reflexivity.
        -- apply Nat.ltb_ge in E2. rewrite Hout by lia. reflexivity.
        -- apply Nat.leb_gt in E1. rewrite Hout by lia. reflexivity.
Qed.

(* a validated patch index, on naturals: entries are (0,0) (= offset 0) or ranges of exactly the source's
   extent that end inside the target *)
Fixpoint patchIndexOk (index : list range) (dus dts : list nat) : Prop :=
  match index, dus, dts with
  | [], _, _ => True
  | r :: index', du :: dus', dt :: dts' =>
      (r = (0, 0) \/ (fst r + du = snd r /\ snd r <= dt)) /\ patchIndexOk index' dus' dts'
  | _ :: _, _, _ => False
  end.

(* what completeIndex index (dims u) looks like for a validated patch: the exact region written *)
Fixpoint region (ci : list range) (dus dts : list nat) : Prop :=
  match ci, dus, dts with
  | [], [], [] => True
  | r :: ci', du :: dus', dt :: dts' => (fst r + du = snd r /\ snd r <= dt) /\ region ci' dus' dts'
  | _, _, _ => False
  end.

Lemma completeIndex_region : forall dus dts, Forall2 le dus dts ->
  forall index, patchIndexOk index dus dts -> region (completeIndex index dus) dus dts.
Proof.
  intros dus dts HF. induction HF as [|du dt dus dts Hle HF IH]; intros index Hok.
  - destruct index as [|[f t] index]; exact I.
  - destruct index as [|[f t] index]; cbn [completeIndex region].
    + split; [cbn; lia|]. apply IH. exact I.
    + cbn [patchIndexOk] in Hok. destruct Hok as [H0 Hok]. split; [|apply IH; exact Hok].
      destruct ((f =? 0) && (t =? 0)) eqn:E; [cbn; lia|].
      destruct H0 as [H0|H0]; [inversion H0; subst; discriminate|exact H0].
Qed.

Lemma region_fits : forall ci dus dts, region ci dus dts -> fits ci dus dts.
Proof.
  induction ci as [|r ci IH]; intros [|du dus] [|dt dts] H; cbn in *; try tauto.
  destruct H as [[H1 H2] H]. split; [lia|apply IH; exact H].
Qed.

Theorem patch_spec (t u : T) (index : list range) :
  wf t -> wf u -> Forall2 le (dims u) (dims t) -> patchIndexOk index (dims u) (dims t) ->
  exists r, patch t index u = Some r /\ dims r = dims t /\ wf r /\
            forall idx, validIdx (dims t) idx ->
              get (data r) idx =
              if inBlock (completeIndex index (dims u)) (dims u) idx
              then get (data u) (unshift idx (completeIndex index (dims u)))
              else get (data t) idx.
Proof.
  intros [Hwt Hpt] [Hwu _] Hle Hok. unfold patch. rewrite slice_nil by exact Hwt. cbn [obind].
  destruct (patchData_spec (completeIndex index (dims u)) (dims u) (dims t) (data u) (data t) Hwu Hwt)
    as (d & Ed & Hwd & Hg).
  - apply region_fits. apply completeIndex_region; assumption.
  - rewrite Ed. cbn [obind]. eexists. split; [reflexivity|]. cbn [dims data]. split; [reflexivity|].
    split; [|exact Hg]. split; cbn [dims data]; assumption.
Qed.

(* slicing the patched region out again gives back the source *)
Lemma region_complete : forall ci dus dts, region ci dus dts -> Forall (fun d => 0 < d) dus ->
  completeIndex ci dts = ci.
Proof.
  induction ci as [|[f t] ci IH]; intros [|du dus] [|dt dts] H Hp; cbn in H; try tauto.
  destruct H as [[H1 H2] H]. inversion Hp; subst. cbn [completeIndex fst snd] in *.
  rewrite (IH dus dts H) by assumption.
  destruct ((f =? 0) && (f + du =? 0)) eqn:E; [|reflexivity]. lia.
Qed.

Lemma region_sizes : forall ci dus dts, region ci dus dts -> sizes ci = dus.
Proof.
  induction ci as [|[f t] ci IH]; intros [|du dus] [|dt dts] H; cbn in H; try tauto.
  destruct H as [[H1 H2] H]. cbn [sizes map fst snd] in *. fold (sizes ci). rewrite (IH dus dts H). f_equal. lia.
Qed.

Lemma region_ranges : forall ci dus dts, region ci dus dts ->
  Forall2 (fun r d => fst r <= snd r /\ snd r <= d) ci dts.
Proof.
  induction ci as [|[f t] ci IH]; intros [|du dus] [|dt dts] H; cbn in H; try tauto; try (constructor; fail).
  destruct H as [[H1 H2] H]. constructor; [cbn in *; lia|]. eapply IH; exact H.
Qed.

Lemma region_shift : forall ci dus dts, region ci dus dts -> forall idx, validIdx dus idx ->
  validIdx dts (shift idx ci) /\ inBlock ci dus (shift idx ci) = true /\ unshift (shift idx ci) ci = idx.
Proof.
  induction ci as [|[f t] ci IH]; intros [|du dus] [|dt dts] H idx Hv; cbn in H; try tauto.
  - apply validIdx_nil in Hv; subst. split; [constructor|]. split; reflexivity.
  - destruct H as [[H1 H2] H]. apply validIdx_cons in Hv as (i & rr & -> & Hi & Hr).
    destruct (IH dus dts H rr Hr) as (Ha & Hb & Hc). rewrite shift_cons. cbn [fst snd] in *. split.
    + constructor; [lia|exact Ha].
    + cbn [inBlock]. rewrite unshift_cons, Hb, Hc. split.
      * assert (E1 : (f <=? i + f) = true) by (apply Nat.leb_le; lia).
        assert (E2 : (i + f <? f + du) = true) by (apply Nat.ltb_lt; lia). rewrite E1, E2. reflexivity.
      * f_equal. lia.
Qed.

Theorem slice_patch (t u r : T) (index : list range) :
  wf t -> wf u -> Forall2 le (dims u) (dims t) -> patchIndexOk index (dims u) (dims t) ->
  patch t index u = Some r -> slice r (completeIndex index (dims u)) = Some u.
Proof.
  intros Hwt Hwu Hle Hok Er. destruct (patch_spec t u index Hwt Hwu Hle Hok) as (r' & Er' & Hd & [Hwr _] & Hg).
  rewrite Er in Er'. inversion Er'; subst r'. clear Er'.
  pose proof (completeIndex_region _ _ Hle _ Hok) as Hreg. destruct Hwu as [Hwu Hpu].
  unfold slice, copiedSliceOf. rewrite Hd. rewrite (region_complete _ _ _ Hreg Hpu). rewrite Hd in Hwr.
  destruct (sliceData_spec _ _ _ Hwr (region_ranges _ _ _ Hreg)) as (d & Ed & Hwd & Hgd).
  rewrite Ed. cbn [obind]. fold (sizes (completeIndex index (dims u))).
  rewrite (region_sizes _ _ _ Hreg) in *. destruct u as [dsu xu]. cbn [dims data] in *.
  f_equal. f_equal. apply (nd_ext A dsu); [exact Hwd|exact Hwu|]. intros idx Hv.
  destruct (region_shift _ _ _ Hreg idx Hv) as (Ha & Hb & Hc).
  rewrite (Hgd idx Hv), (Hg _ Ha), Hb, Hc. reflexivity.
Qed.

(* ---------- Patch at the public level ---------- *)

Local Open Scope Z_scope.

(* validatePatchIndexAgainstDims, declaratively: the source fits the target in every dimension (same rank),
   every given range is (0,0) or a valid slice range of the target whose extent is the source's *)
Fixpoint zpatchOk (index : list zrange) (dus dts : list nat) : Prop :=
  match index, dus, dts with
  | [], _, _ => True
  | (f, t) :: index', du :: dus', dt :: dts' =>
      ((f = 0 /\ t = 0) \/ (0 <= f /\ f < t /\ t <= Z.of_nat dt /\ t - f = Z.of_nat du))
      /\ zpatchOk index' dus' dts'
  | _ :: _, _, _ => False
  end.

Lemma srcFits_iff : forall dus dts : list nat,
  ((length (map Z.of_nat dus) =? length (map Z.of_nat dts))%nat = true /\
   srcFits (map Z.of_nat dus) (map Z.of_nat dts) = true) <-> Forall2 le dus dts.
Proof.
  induction dus as [|du dus IH]; intros [|dt dts]; cbn.
  - split; [constructor|auto].
  - split; [intros [H _]; discriminate|intros H; inversion H].
  - split; [intros [H _]; discriminate|intros H; inversion H].
  - rewrite andb_true_iff. split.
    + intros [Hl [H1 H2]]. constructor; [lia|]. apply IH. split; assumption.
    + intros H. inversion H as [|x y l l' Hxy H']; subst. apply IH in H' as [Ha Hb].
      split; [exact Ha|]. split; [lia|exact Hb].
Qed.

Lemma zpatch_iff index : forall dus dts : list nat, length dus = length dts ->
  (sliceRangesOk index (map Z.of_nat dts) = true /\ coversSrc index (map Z.of_nat dus) = true)
  <-> zpatchOk index dus dts.
Proof.
  induction index as [|[f t] index IH]; intros dus dts Hl.
  - cbn. tauto.
  - destruct dus as [|du dus]; destruct dts as [|dt dts]; cbn in Hl; try discriminate.
    + cbn. split; [intros [H _]; discriminate|tauto].
    + cbn [sliceRangesOk coversSrc zpatchOk map]. rewrite <- (IH dus dts) by lia.
      rewrite !andb_true_iff.
      destruct ((f =? 0) && (t =? 0)) eqn:E; split.
      * intros [[_ H1] [_ H2]]. split; [left; lia|tauto].
      * intros [_ [H1 H2]]. tauto.
      * intros [[H0 H1] [H2 H3]]. split; [right; lia|tauto].
      * intros [[H0|H0] [H1 H2]]; [lia|]. split; (split; [lia|assumption]).
Qed.

Lemma validatePatch_iff index (dus dts : list nat) :
  validatePatchIndexAgainstDims index (map Z.of_nat dus) (map Z.of_nat dts) = true
  <-> Forall2 le dus dts /\ zpatchOk index dus dts.
Proof.
  unfold validatePatchIndexAgainstDims, validateSliceIndexAgainstDims. rewrite !andb_true_iff. split.
  - intros [[[Hl Hf] [_ Hs]] Hc]. pose proof (proj1 (srcFits_iff dus dts) (conj Hl Hf)) as HF.
    split; [exact HF|]. apply zpatch_iff; [|split; assumption].
    clear -HF. induction HF; cbn; congruence.
  - intros [HF Hz]. assert (Hlen : length dus = length dts) by (clear -HF; induction HF; cbn; congruence).
    apply srcFits_iff in HF as [Hl Hf]. apply (zpatch_iff index dus dts Hlen) in Hz as [Hs Hc].
    split; [split; [split; assumption|]|exact Hc]. split; [|exact Hs].
    apply Nat.leb_le. apply sliceRangesOk_length. exact Hs.
Qed.

Lemma zpatchOk_nat index : forall dus dts, zpatchOk index dus dts -> patchIndexOk (rangesOf index) dus dts.
Proof.
  induction index as [|[f t] index IH]; intros dus dts H; cbn; [exact I|].
  destruct dus as [|du dus]; [contradiction|]. destruct dts as [|dt dts]; [contradiction|].
  cbn in H. destruct H as [H0 H]. split; [|apply IH; exact H].
  cbn [fst snd]. destruct H0 as [[-> ->]|H0]; [left; reflexivity|right; lia].
Qed.

Theorem v_patch_spec (t u : T) (index : list zrange) : wf t -> wf u ->
  (validatePatchIndexAgainstDims index (zdims u) (zdims t) = true ->
     exists r, v_patch t index u = Ok r /\ dims r = dims t /\ wf r /\
               forall idx, validIdx (dims t) idx ->
                 get (data r) idx =
                 if inBlock (completeIndex (rangesOf index) (dims u)) (dims u) idx
                 then get (data u) (unshift idx (completeIndex (rangesOf index) (dims u)))
                 else get (data t) idx)
  /\ (validatePatchIndexAgainstDims index (zdims u) (zdims t) = false -> v_patch t index u = Err).
Proof.
  intros Hwt Hwu. unfold v_patch, guard. split; intros V; rewrite V; [|reflexivity].
  apply validatePatch_iff in V as [HF Hz]. apply zpatchOk_nat in Hz.
  destruct (patch_spec t u (rangesOf index) Hwt Hwu HF Hz) as (r & Er & H). rewrite Er.
  exists r. split; [reflexivity|exact H].
Qed.

Corollary v_patch_ok_iff (t u : T) (index : list zrange) : wf t -> wf u ->
  ((exists r, v_patch t index u = Ok r) <-> Forall2 le (dims u) (dims t) /\ zpatchOk index (dims u) (dims t))
  /\ v_patch t index u <> Panic.
Proof.
  intros Hwt Hwu. destruct (v_patch_spec t u index Hwt Hwu) as [H1 H2]. rewrite <- validatePatch_iff.
  fold (zdims t). fold (zdims u).
  destruct (validatePatchIndexAgainstDims index (zdims u) (zdims t)) eqn:V.
  - destruct (H1 eq_refl) as (r & Er & _). rewrite Er. split; [|discriminate]. split; [reflexivity|].
    intros _. exists r; reflexivity.
  - rewrite (H2 eq_refl). split; [|discriminate]. split; [intros (r & Er); discriminate|discriminate].
Qed.

(* public-level round trip: a successful Patch followed by Slice of the written region returns the source *)
Corollary v_slice_patch (t u r : T) (index : list zrange) : wf t -> wf u ->
  v_patch t index u = Ok r -> slice r (completeIndex (rangesOf index) (dims u)) = Some u.
Proof.
  intros Hwt Hwu Er. destruct (v_patch_ok_iff t u index Hwt Hwu) as [[Hiff _] _].
  destruct (Hiff (ex_intro _ r Er)) as [HF Hz]. apply zpatchOk_nat in Hz.
  apply (slice_patch t u r (rangesOf index) Hwt Hwu HF Hz).
  unfold v_patch, guard in Er. destruct (validatePatchIndexAgainstDims index (zdims u) (zdims t)); [|discriminate].
  destruct (patch t (rangesOf index) u) as [r'|]; cbn in Er; [|discriminate]. inversion Er; reflexivity.
Qed.

Local Close Scope Z_scope.

End SliceP.

(* ---------- examples: the hypotheses are satisfiable, the conclusions non-trivial ---------- *)
Module SliceExamples.

(* 3x4:  [[0;1;2;3];[10;11;12;13];[20;21;22;23]] *)
Definition ex : tensor nat := mkT [3;4] (tab [3;4] (fun idx => match idx with [i;j] => 10 * i + j | _ => 0 end)).
(* 2x2 source block *)
Definition eu : tensor nat := mkT [2;2] (Vec [Vec [Sc 100; Sc 101]; Vec [Sc 110; Sc 111]]).

Lemma wf_ex : wf ex. Proof. split; cbn; repeat constructor. Qed.
Lemma wf_eu : wf eu. Proof. split; cbn; repeat constructor. Qed.

Example completeIndex_ex : completeIndex [(0,0); (1,3)] [2;3;4] = [(0,2); (1,3); (0,4)].
Proof. reflexivity. Qed.

Example sliceData_ex : sliceData [(1,3); (2,4)] (data ex) = Some (Vec [Vec [Sc 12; Sc 13]; Vec [Sc 22; Sc 23]]).
Proof. vm_compute. reflexivity. Qed.
Example sliceData_hyp : Forall2 (fun r d => fst r <= snd r /\ snd r <= d) [(1,3); (2,4)] [3;4].
Proof. repeat constructor. Qed.
(* outside the hypotheses the data layer panics *)
Example sliceData_oob : sliceData [(1,4); (2,4)] (data ex) = None.
Proof. vm_compute. reflexivity. Qed.

Example sliceIndexOk_ex : sliceIndexOk [(1,3)] (dims ex).
Proof. cbn. split; [right; lia|exact I]. Qed.
Example slice_ex : slice ex [(1,3)] = Some (mkT [2;4] (Vec [Vec [Sc 10; Sc 11; Sc 12; Sc 13]; Vec [Sc 20; Sc 21; Sc 22; Sc 23]])).
Proof. vm_compute. reflexivity. Qed.
Example slice_get_ex : exists r, slice ex [(0,0); (1,3)] = Some r /\ dims r = [3;2] /\ get (data r) [2;1] = Some 22.
Proof.
  destruct (slice_spec ex [(0,0); (1,3)] wf_ex) as (r & Er & Hd & _ & Hg).
  - cbn. split; [left; reflexivity|]. split; [right; lia|exact I].
  - exists r. split; [exact Er|]. split; [exact Hd|]. rewrite Hg by (rewrite Hd; repeat constructor). reflexivity.
Qed.

Example v_slice_ex : v_slice ex [(1,3); (2,4)]%Z = Ok (mkT [2;2] (Vec [Vec [Sc 12; Sc 13]; Vec [Sc 22; Sc 23]])).
Proof. vm_compute. reflexivity. Qed.
Example v_slice_err1 : v_slice ex [(2,1)]%Z = Err.          Proof. vm_compute. reflexivity. Qed.
Example v_slice_err2 : v_slice ex [(0,4)]%Z = Err.          Proof. vm_compute. reflexivity. Qed.
Example v_slice_err3 : v_slice ex [(-1,2)]%Z = Err.         Proof. vm_compute. reflexivity. Qed.
Example v_slice_err4 : v_slice ex [(0,0);(0,0);(0,0)]%Z = Err. Proof. vm_compute. reflexivity. Qed.
Example zsliceOk_ex : zsliceOk [(1,3); (2,4)]%Z (dims ex).
Proof. cbn. split; [right; lia|]. split; [right; lia|exact I]. Qed.

Example v_at_ex : v_at ex [2; 3]%Z = Ok 23.   Proof. vm_compute. reflexivity. Qed.
Example v_at_err1 : v_at ex [3; 0]%Z = Err.   Proof. vm_compute. reflexivity. Qed.
Example v_at_err2 : v_at ex [-1; 0]%Z = Err.  Proof. vm_compute. reflexivity. Qed.
Example v_at_err3 : v_at ex [1]%Z = Err.      Proof. vm_compute. reflexivity. Qed.
Example v_at_hyp : Forall2 (fun i d => 0 <= i /\ i < Z.of_nat d)%Z [2; 3]%Z (dims ex).
Proof. repeat constructor; cbn; lia. Qed.

Example patchData_ex :
  patchData [(1,3); (2,4)] (data eu) (data ex)
  = Some (Vec [Vec [Sc 0; Sc 1; Sc 2; Sc 3]; Vec [Sc 10; Sc 11; Sc 100; Sc 101]; Vec [Sc 20; Sc 21; Sc 110; Sc 111]]).
Proof. vm_compute. reflexivity. Qed.
Example fits_ex : fits [(1,3); (2,4)] (dims eu) (dims ex).
Proof. cbn. lia. Qed.
(* a block that does not fit makes the data layer panic *)
Example patchData_oob : patchData [(2,4); (2,4)] (data eu) (data ex) = None.
Proof. vm_compute. reflexivity. Qed.

Example patchIndexOk_ex : patchIndexOk [(1,3)] (dims eu) (dims ex).
Proof. cbn. split; [right; lia|exact I]. Qed.
Example patch_ex :
  patch ex [(1,3)] eu
  = Some (mkT [3;4] (Vec [Vec [Sc 0; Sc 1; Sc 2; Sc 3]; Vec [Sc 100; Sc 101; Sc 12; Sc 13]; Vec [Sc 110; Sc 111; Sc 22; Sc 23]])).
Proof. vm_compute. reflexivity. Qed.
Example patch_get_ex : exists r, patch ex [(1,3)] eu = Some r /\ get (data r) [2;1] = Some 111 /\ get (data r) [2;2] = Some 22.
Proof.
  destruct (patch_spec ex eu [(1,3)] wf_ex wf_eu) as (r & Er & _ & _ & Hg).
  - repeat constructor.
  - exact patchIndexOk_ex.
  - exists r. split; [exact Er|]. split; rewrite Hg by (repeat constructor); reflexivity.
Qed.

Example v_patch_ex :
  v_patch ex [(1,3); (2,4)]%Z eu
  = Ok (mkT [3;4] (Vec [Vec [Sc 0; Sc 1; Sc 2; Sc 3]; Vec [Sc 10; Sc 11; Sc 100; Sc 101]; Vec [Sc 20; Sc 21; Sc 110; Sc 111]])).
Proof. vm_compute. reflexivity. Qed.
Example v_patch_err1 : v_patch ex [(1,2)]%Z eu = Err.        Proof. vm_compute. reflexivity. Qed.   (* extent 1 <> 2 *)
Example v_patch_err2 : v_patch ex [(2,4)]%Z eu = Err.        Proof. vm_compute. reflexivity. Qed.   (* ends outside *)
Example v_patch_err3 : v_patch eu []%Z ex = Err.             Proof. vm_compute. reflexivity. Qed.   (* source larger *)
Example zpatchOk_ex : Forall2 le (dims eu) (dims ex) /\ zpatchOk [(1,3); (2,4)]%Z (dims eu) (dims ex).
Proof. split; [repeat constructor|]. cbn. split; [right; lia|]. split; [right; lia|exact I]. Qed.

Example slice_patch_ex : forall r, patch ex [(1,3)] eu = Some r -> slice r (completeIndex [(1,3)] (dims eu)) = Some eu.
Proof.
  intros r. apply (slice_patch ex eu r [(1,3)] wf_ex wf_eu); [repeat constructor|exact patchIndexOk_ex].
Qed.
Example slice_patch_compute :
  (do r <- patch ex [(1,3)] eu; slice r (completeIndex [(1,3)] (dims eu))) = Some eu.
Proof. vm_compute. reflexivity. Qed.

(* NOT true with the caller's raw index when a range is omitted and the source is smaller: the omitted
   range means [0, du) for Patch but [0, dt) for Slice (this is the root of the Patch-backward defect D4) *)
Example slice_patch_raw_index_refuted :
  exists (t u : tensor nat) index r, wf t /\ wf u /\ Forall2 le (dims u) (dims t) /\
    patchIndexOk index (dims u) (dims t) /\ patch t index u = Some r /\ slice r index <> Some u.
Proof.
  exists ex, eu, [(1,3)]. eexists. split; [exact wf_ex|]. split; [exact wf_eu|]. split; [repeat constructor|].
  split; [exact patchIndexOk_ex|]. split; [exact patch_ex|]. vm_compute. discriminate.
Qed.

End SliceExamples.

Print Assumptions completeIndex_spec.
Print Assumptions sliceData_spec.
Print Assumptions slice_spec.
Print Assumptions slice_nil.
Print Assumptions v_slice_spec.
Print Assumptions v_slice_ok_iff.
Print Assumptions v_at_spec.
Print Assumptions v_at_ok_iff.
Print Assumptions patchData_spec.
Print Assumptions patch_spec.
Print Assumptions v_patch_spec.
Print Assumptions v_patch_ok_iff.
Print Assumptions slice_patch.
Print Assumptions v_slice_patch.
