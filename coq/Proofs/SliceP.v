(* SliceP.v — accessors.go: completeIndex, Slice (copiedSliceOf), Patch (copiedWithPatchOf), At,
   at the data layer and at the public (validated, Z-argument) level, against the index-level
   specification.  All shapes and ranks, arbitrary element type. *)
From Coq Require Import List Arith ZArith Bool Lia ZifyBool.
From Qeep Require Import Model.Scalar Model.Nd Model.Fill Model.Data Model.Valid Model.Api Proofs.NdP Proofs.ElemP.
Import ListNotations.

(* ---------- index arithmetic used by the specifications ---------- *)

(* extent of every range: To - From *)
Definition sizes (index : list range) : list nat := map (fun r => snd r - fst r) index.
(* idx + From, component-wise *)
Definition shift (idx : list nat) (index : list range) : list nat :=
  map (fun p => fst p + fst (snd p)) (combine idx index).

Lemma shift_cons i idx f t index : shift (i :: idx) ((f, t) :: index) = (i + f) :: shift idx index.
Proof. reflexivity. Qed.

(* ---------- completeIndex ---------- *)

Definition completeEntry (o : option range) (d : nat) : range :=
  match o with
  | Some (f, t) => if (f =? 0) && (t =? 0) then (0, d) else (f, t)
  | None => (0, d)
  end.

Lemma completeIndex_length index ds : length (completeIndex index ds) = length ds.
Proof.
  revert index. induction ds as [|d ds IH]; intros [|[f t] index]; cbn; try reflexivity; rewrite IH; reflexivity.
Qed.

Lemma completeIndex_nth index ds : forall k d, nth_error ds k = Some d ->
  nth_error (completeIndex index ds) k = Some (completeEntry (nth_error index k) d).
Proof.
  revert index. induction ds as [|d0 ds IH]; intros index k d Hk; [destruct k; discriminate|].
  destruct k as [|k]; cbn in Hk.
  - inversion Hk; subst. destruct index as [|[f t] index]; reflexivity.
  - destruct index as [|[f t] index]; cbn [completeIndex nth_error].
    + rewrite (IH [] k d Hk). destruct k; reflexivity.
    + apply IH. exact Hk.
Qed.

(* the k-th entry is (0, d_k) when the index is too short or its k-th entry is (0,0); otherwise it is
   the k-th entry of the index *)
Theorem completeIndex_spec index ds :
  length (completeIndex index ds) = length ds /\
  forall k d, nth_error ds k = Some d ->
    exists r, nth_error (completeIndex index ds) k = Some r /\
      (length index <= k \/ nth_error index k = Some (0, 0) -> r = (0, d)) /\
      (forall e, nth_error index k = Some e -> e <> (0, 0) -> r = e).
Proof.
  split; [apply completeIndex_length|]. intros k d Hk. eexists. split; [apply completeIndex_nth; exact Hk|]. split.
  - intros [Hl|He].
    + apply nth_error_None in Hl. rewrite Hl. reflexivity.
    + rewrite He. reflexivity.
  - intros [f t] He Hne. rewrite He. cbn. destruct ((f =? 0) && (t =? 0)) eqn:E; [|reflexivity].
    apply andb_true_iff in E as [E1 E2]. apply Nat.eqb_eq in E1, E2. subst. contradiction.
Qed.

Lemma completeIndex_nil ds : completeIndex [] ds = map (fun d => (0, d)) ds.
Proof. induction ds as [|d ds IH]; cbn; [reflexivity|]. rewrite IH. reflexivity. Qed.

Section SliceP.
Context {A : Type}.
Notation T := (tensor A).

(* ---------- sliceData ---------- *)

Theorem sliceData_spec : forall (index : list range) (ds : list nat) (src : nd A),
  wfnd ds src ->
  Forall2 (fun r d => fst r <= snd r /\ snd r <= d) index ds ->
  exists r, sliceData index src = Some r /\ wfnd (sizes index) r /\
            forall idx, validIdx (sizes index) idx -> get r idx = get src (shift idx index).
Proof.
  induction index as [|[f t] index IH]; intros ds src Hw HF; inversion HF as [|r0 d index0 ds' Hr HF']; subst.
  - apply wfnd_nil in Hw as (a & ->). exists (Sc a). cbn. split; [reflexivity|]. split; [exact I|].
    intros idx Hv. apply validIdx_nil in Hv; subst. reflexivity.
  - cbn [fst snd] in Hr. destruct Hr as [Hft Htd].
    apply wfnd_cons in Hw as (rows & -> & Hl & Hf). cbn [sliceData asV obind].
    destruct (mapM_seq_build (fun i => do r <- nth_error rows (i + f); sliceData index r) (t - f)
                (fun i y => exists row, nth_error rows (i + f) = Some row /\ wfnd (sizes index) y /\
                   forall idx, validIdx (sizes index) idx -> get y idx = get row (shift idx index)))
      as (out & Eo & Hlo & Hn).
    + intros i Hi. destruct (nth_error_lt_some rows (i + f) ltac:(lia)) as (row & Er). rewrite Er. cbn.
      destruct (IH ds' row (Forall_nth_error_inv _ _ _ _ Hf Er) HF') as (y & Ey & Hwy & Hg).
      exists y. split; [exact Ey|]. exists row. auto.
    + rewrite Eo. cbn [obind]. exists (Vec out). split; [reflexivity|]. split.
      * cbn. split; [exact Hlo|]. apply Forall_nth_error. intros i y Hy.
        assert (Hi : i < t - f) by (rewrite <- Hlo; apply nth_error_Some; congruence).
        assert (Hi : i < t - f). { rewrite <- Hlo. apply nth_error_Some. Show. congruence. }
      * intros idx Hv. cbn [sizes map fst snd] in Hv.
        apply validIdx_cons in Hv as (i & rr & -> & Hi & Hr). rewrite shift_cons, !get_cons.
        destruct (Hn i Hi) as (y & Ey & _ & (row & Er & _ & Hg)). rewrite Ey, Er. apply Hg. exact Hr.
Qed.

(* ---------- slice ---------- *)

(* a validated slice index: not longer than the shape; every entry is (0,0) (= whole dimension) or a
   non-empty range inside the dimension *)
Fixpoint sliceIndexOk (index : list range) (ds : list nat) : Prop :=
  match index, ds with
  | [], _ => True
  | r :: index', d :: ds' => (r = (0, 0) \/ (fst r < snd r /\ snd r <= d)) /\ sliceIndexOk index' ds'
  | _ :: _, [] => False
  end.

Lemma sliceIndexOk_iff index : forall ds,
  sliceIndexOk index ds <->
  length index <= length ds /\
  forall k r d, nth_error index k = Some r -> nth_error ds k = Some d -> r = (0, 0) \/ (fst r < snd r /\ snd r <= d).
Proof.
  induction index as [|r0 index IH]; intros ds.
  - cbn. split; [|tauto]. intros _. split; [lia|]. intros k r d Hk. destruct k; discriminate.
  - destruct ds as [|d0 ds]; cbn [sliceIndexOk length].
    + split; [tauto|]. intros [Hl _]. lia.
    + rewrite IH. split.
      * intros [H0 [Hl Hn]]. split; [lia|]. intros k r d Hk Hd. destruct k as [|k]; cbn in Hk, Hd.
        -- inversion Hk; inversion Hd; subst. exact H0.
        -- eapply Hn; eauto.
      * intros [Hl Hn]. split; [apply (Hn 0); reflexivity|]. split; [lia|].
        intros k r d Hk Hd. apply (Hn (S k)); assumption.
Qed.

Lemma completeIndex_ok : forall ds index, sliceIndexOk index ds -> Forall (fun d => 0 < d) ds ->
  Forall2 (fun r d => fst r < snd r /\ snd r <= d) (completeIndex index ds) ds.
Proof.
  induction ds as [|d ds IH]; intros index Hok Hp; [constructor|].
  inversion Hp as [|d' ds'' Hd Hp']; subst.
  destruct index as [|[f t] index]; cbn [completeIndex].
  - constructor; [cbn; lia|]. apply IH; [exact I|exact Hp'].
  - cbn [sliceIndexOk] in Hok. destruct Hok as [H0 Hok]. constructor; [|apply IH; assumption].
    destruct ((f =? 0) && (t =? 0)) eqn:E; [cbn; lia|].
    destruct H0 as [H0|H0]; [|exact H0]. inversion H0; subst. discriminate.
Qed.

Lemma sizes_length index : length (sizes index) = length index.
Proof. apply map_length. Qed.

Theorem slice_spec (t : T) (index : list range) : wf t -> sliceIndexOk index (dims t) ->
  exists r, slice t index = Some r /\
            dims r = sizes (completeIndex index (dims t)) /\ wf r /\
            forall idx, validIdx (dims r) idx ->
              get (data r) idx = get (data t) (shift idx (completeIndex index (dims t))).
Proof.
  intros [Hw Hp] Hok. pose proof (completeIndex_ok _ _ Hok Hp) as HF.
  unfold slice, copiedSliceOf.
  destruct (sliceData_spec (completeIndex index (dims t)) (dims t) (data t) Hw) as (d & Ed & Hwd & Hg).
  - eapply Forall2_impl; [|exact HF]. cbn. intros r0 d0 H. lia.
  - rewrite Ed. cbn [obind]. eexists. split; [reflexivity|]. cbn [dims data]. split; [reflexivity|].
    split; [|exact Hg]. split; cbn [dims data]; [exact Hwd|].
    unfold sizes. apply Forall_map. clear -HF. induction HF as [|r0 d0 l l' H HF IH]; constructor; [lia|exact IH].
Qed.

(* slicing with the empty index copies the tensor (used by patch and concat) *)
Lemma shift_nil_index ds : forall idx, validIdx ds idx -> shift idx (map (fun d => (0, d)) ds) = idx.
Proof.
  induction ds as [|d ds IH]; intros idx Hv.
  - apply validIdx_nil in Hv; subst. reflexivity.
  - apply validIdx_cons in Hv as (i & rr & -> & _ & Hr). cbn [map]. rewrite shift_cons, IH by exact Hr.
    f_equal. lia.
Qed.

Lemma sizes_nil_index ds : sizes (map (fun d => (0, d)) ds) = ds.
Proof. unfold sizes. rewrite map_map. cbn. induction ds as [|d ds IH]; cbn; [reflexivity|]. rewrite IH. f_equal. lia. Qed.

Lemma slice_nil (t : T) : wfnd (dims t) (data t) -> slice t [] = Some t.
Proof.
  intros Hw. unfold slice, copiedSliceOf. rewrite completeIndex_nil.
  destruct (sliceData_spec (map (fun d => (0, d)) (dims t)) (dims t) (data t) Hw) as (d & Ed & Hwd & Hg).
  - clear Hw. induction (dims t) as [|d0 ds IH]; cbn; constructor; [cbn; lia|exact IH].
  - rewrite Ed. cbn [obind]. rewrite sizes_nil_index in *. destruct t as [ds x]. cbn [dims data] in *.
    f_equal. f_equal. apply (nd_ext A ds); [exact Hwd|exact Hw|]. intros idx Hv.
    rewrite Hg by exact Hv. rewrite shift_nil_index by exact Hv. reflexivity.
Qed.

(* ---------- the validators, declaratively ---------- *)

Local Open Scope Z_scope.

Fixpoint zsliceOk (index : list zrange) (ds : list nat) : Prop :=
  match index, ds with
  | [], _ => True
  | (f, t) :: index', d :: ds' =>
      ((f = 0 /\ t = 0) \/ (0 <= f /\ f < t /\ t <= Z.of_nat d)) /\ zsliceOk index' ds'
  | _ :: _, [] => False
  end.

Lemma sliceRangesOk_iff index : forall ds, sliceRangesOk index (map Z.of_nat ds) = true <-> zsliceOk index ds.
Proof.
  induction index as [|[f t] index IH]; intros ds; cbn; [tauto|].
  destruct ds as [|d ds]; cbn; [split; [discriminate|tauto]|].
  rewrite andb_true_iff, IH.
  destruct ((f =? 0) && (t =? 0)) eqn:E; split; intros [H1 H2]; (split; [|exact H2]); try lia.
  reflexivity.
Qed.

Lemma sliceRangesOk_length index : forall dsz, sliceRangesOk index dsz = true -> (length index <= length dsz)%nat.
Proof.
  induction index as [|[f t] index IH]; intros dsz H; cbn; [lia|].
  destruct dsz as [|d dsz]; cbn in H; [discriminate|]. apply andb_true_iff in H as [_ H]. specialize (IH _ H). cbn. lia.
Qed.

Lemma validateSlice_iff index ds : validateSliceIndexAgainstDims index (map Z.of_nat ds) = true <-> zsliceOk index ds.
Proof.
  unfold validateSliceIndexAgainstDims. rewrite andb_true_iff, sliceRangesOk_iff. split; [tauto|].
  intros H. split; [|exact H]. apply Nat.leb_le. apply sliceRangesOk_length. apply sliceRangesOk_iff. exact H.
Qed.

Lemma zsliceOk_nat index : forall ds, zsliceOk index ds -> sliceIndexOk (rangesOf index) ds.
Proof.
  induction index as [|[f t] index IH]; intros ds H; cbn; [exact I|].
  destruct ds as [|d ds]; cbn in H; [contradiction|]. destruct H as [H0 H]. split; [|apply IH; exact H].
  cbn [fst snd]. destruct H0 as [[-> ->]|H0]; [left; reflexivity|right; lia].
Qed.

Theorem v_slice_spec (t : T) (index : list zrange) : wf t ->
  (validateSliceIndexAgainstDims index (zdims t) = true ->
     exists r, v_slice t index = Ok r /\
               dims r = sizes (completeIndex (rangesOf index) (dims t)) /\ wf r /\
               forall idx, validIdx (dims r) idx ->
                 get (data r) idx = get (data t) (shift idx (completeIndex (rangesOf index) (dims t))))
  /\ (validateSliceIndexAgainstDims index (zdims t) = false -> v_slice t index = Err).
Proof.
  intros Hw. unfold v_slice, guard. split; intros V; rewrite V; [|reflexivity].
  apply validateSlice_iff, zsliceOk_nat in V.
  destruct (slice_spec t (rangesOf index) Hw V) as (r & Er & H). rewrite Er. exists r. split; [reflexivity|exact H].
Qed.

Corollary v_slice_ok_iff (t : T) (index : list zrange) : wf t ->
  ((exists r, v_slice t index = Ok r) <-> zsliceOk index (dims t)) /\ v_slice t index <> Panic.
Proof.
  intros Hw. destruct (v_slice_spec t index Hw) as [H1 H2]. rewrite <- validateSlice_iff. fold (zdims t).
  destruct (validateSliceIndexAgainstDims index (zdims t)) eqn:V.
  - destruct (H1 eq_refl) as (r & Er & _). rewrite Er. split; [|discriminate]. split; [reflexivity|]. intros _. exists r; reflexivity.
  - rewrite (H2 eq_refl). split; [|discriminate]. split; [intros (r & Er); discriminate|discriminate].
Qed.

(* ---------- At ---------- *)

Lemma atIndexOk_iff index : forall ds,
  atIndexOk index (map Z.of_nat ds) = true <-> Forall2 (fun i d => 0 <= i /\ i < Z.of_nat d) index ds.
Proof.
  induction index as [|i index IH]; intros [|d ds]; cbn.
  - split; [constructor|reflexivity].
  - split; [discriminate|intros H; inversion H].
  - split; [discriminate|intros H; inversion H].
  - rewrite andb_true_iff, IH. split.
    + intros [H1 H2]. constructor; [lia|exact H2].
    + intros H. inversion H; subst. split; [lia|assumption].
Qed.

Lemma validateAt_iff index ds :
  validateAtIndexAgainstDims index (map Z.of_nat ds) = true <-> Forall2 (fun i d => 0 <= i /\ i < Z.of_nat d) index ds.
Proof.
  unfold validateAtIndexAgainstDims. rewrite andb_true_iff, atIndexOk_iff. split; [tauto|].
  intros H. split; [|exact H]. apply Nat.eqb_eq. rewrite map_length. clear -H. induction H; cbn; congruence.
Qed.

Lemma validIdx_natsOf index ds :
  Forall2 (fun i d => 0 <= i /\ i < Z.of_nat d) index ds -> validIdx ds (natsOf index).
Proof. intros H. unfold validIdx, natsOf. induction H as [|i d index ds Hi H IH]; cbn; constructor; [lia|exact IH]. Qed.

Theorem v_at_spec (t : T) (index : list Z) : wf t ->
  (Forall2 (fun i d => 0 <= i /\ i < Z.of_nat d) index (dims t) ->
     exists a, v_at t index = Ok a /\ get (data t) (natsOf index) = Some a)
  /\ (~ Forall2 (fun i d => 0 <= i /\ i < Z.of_nat d) index (dims t) -> v_at t index = Err).
Proof.
  intros [Hw _]. unfold v_at. split; intros H.
  - pose proof (proj2 (validateAt_iff index (dims t)) H) as V. fold (zdims t) in V. rewrite V.
    destruct (get_wf A _ _ _ Hw (validIdx_natsOf _ _ H)) as (a & Ea). rewrite Ea. exists a. split; reflexivity.
  - destruct (validateAtIndexAgainstDims index (zdims t)) eqn:V; [|reflexivity].
    apply validateAt_iff in V. contradiction.
Qed.

Corollary v_at_ok_iff (t : T) (index : list Z) (a : A) : wf t ->
  (v_at t index = Ok a <->
     Forall2 (fun i d => 0 <= i /\ i < Z.of_nat d) index (dims t) /\ get (data t) (natsOf index) = Some a)
  /\ v_at t index <> Panic.
Proof.
  intros Hw. destruct (v_at_spec t index Hw) as [H1 H2].
  destruct (validateAtIndexAgainstDims index (zdims t)) eqn:V.
  - apply validateAt_iff in V. destruct (H1 V) as (a' & Ea & Eg). rewrite Ea. split; [|discriminate]. split.
    + intros E. inversion E; subst. split; assumption.
    + intros [_ E]. congruence.
  - assert (N : ~ Forall2 (fun i d => 0 <= i /\ i < Z.of_nat d) index (dims t)).
    { intros H. apply validateAt_iff in H. fold (zdims t) in H. congruence. }
    rewrite (H2 N). split; [|discriminate]. split; [discriminate|]. intros [H _]. contradiction.
Qed.

Local Close Scope Z_scope.

End SliceP.
