(* DataAtP.v — CPUTensor.dataAt (tensor/internal/cputensor/accessors.go) as translated by harness/gox into the
   DataIR program GoData.d_dataAt computes Model/Nd.v dataAt: worked example of the DataIR proof style. *)
From Coq Require Import String List ZArith Bool Lia Arith.
From Qeep Require Import Model.Scalar Model.Nd Model.DataIR Model.GoData Proofs.DataIRP.
From Qeep Require Model.GoIR.
Import ListNotations.
Local Open Scope string_scope.
Local Open Scope Z_scope.
Local Open Scope list_scope.

Section DataAt.
Context {A : Type} {SA : Scalar A}.
Variable fapp : string -> list A -> option A.
Variables (St : Type) (ext : string -> list (@dval A) -> St -> option (list (@dval A) * St)).

(* the embedding of a vector is the list of the embeddings *)
Lemma emb_Vec (l : list (nd A)) : emb (Vec l) = DL (map emb l).
Proof. cbn [emb]. apply f_equal. induction l as [|y r IH]; cbn [map]; [reflexivity | f_equal; exact IH]. Qed.

Lemma nth_error_map_emb (l : list (nd A)) n : nth_error (map emb l) n = option_map emb (nth_error l n).
Proof. revert n; induction l as [|a l IH]; intros [|n]; cbn; auto. Qed.

(* the loop of dataAt (at main level: l = []) for any body that behaves like  data = data.([]any)[i]  *)
Lemma dataAt_loop (body : St -> denv -> denv -> @doutcome A St)
      (assign : denv -> denv -> Z -> @dval A -> denv * denv) :
  (forall s g k i (x : nd A),
      vlookup g [] "data" = Some (emb x) ->
      let '(g0, l0) := assign g [] k (DI (Z.of_nat i)) in
      match dataAt x [i] with
      | Some y => exists g1, body s g0 l0 = DNormal St s g1 [] /\ vlookup g1 [] "data" = Some (emb y)
      | None => body s g0 l0 = DPanic St
      end) ->
  forall (idx : list nat) (x : nd A) k s g,
  vlookup g [] "data" = Some (emb x) ->
  match dataAt x idx with
  | Some y => exists g1, drangeLoop St body assign (map (fun n => DI (Z.of_nat n)) idx) k s g [] = DNormal St s g1 [] /\
                         vlookup g1 [] "data" = Some (emb y)
  | None => drangeLoop St body assign (map (fun n => DI (Z.of_nat n)) idx) k s g [] = DPanic St
  end.
Proof.
  intros Hb. induction idx as [|i idx IH]; intros x k s g Hd.
  - cbn. eauto.
  - cbn [map drangeLoop].
    pose proof (Hb s g k i x Hd) as H1.
    destruct (assign g [] k (DI (Z.of_nat i))) as [g0 l0].
    cbn [dataAt] in H1 |- *.
    destruct x as [a|rows]; cbn [asV obind] in H1 |- *.
    + rewrite H1. reflexivity.
    + destruct (nth_error rows i) as [r|] eqn:En; cbn [obind] in H1 |- *.
      * cbn [dataAt] in H1. destruct H1 as [g1 [Hb1 Hd1]]. rewrite Hb1.
        apply IH. exact Hd1.
      * rewrite H1. reflexivity.
Qed.

Theorem data_dataAt (callL : string -> list dval -> St -> denv -> cres St) fuel
        (ds : @dval A) (x : nd A) (idx : list nat) (s : St) :
  match dataAt x idx with
  | Some y => exists g l, dexec fapp St ext callL fuel true (dbody (pmain d_dataAt)) s
                            [("t.dims", ds); ("t.data", emb x); ("index", dnats idx)] [] = DRet St [emb y] s g l
  | None => dexec fapp St ext callL fuel true (dbody (pmain d_dataAt)) s
                            [("t.dims", ds); ("t.data", emb x); ("index", dnats idx)] [] = DPanic St
  end.
Proof.
  unfold d_dataAt. cbn [pmain dbody]. dxs. unfold dnats.
  match goal with |- context [drangeLoop St ?b ?asg _ _ _ ?g0 ?l0] =>
    pose proof (dataAt_loop b asg) as HL
  end.
  match type of HL with ?P -> _ => assert (Hspec : P) end.
  { intros s0 g k i y Hd. cbv beta iota.
    (* the two range variables are new variables of the main frame: [dxs] has computed [vdefine true] to [dupd] *)
    unfold vlookup in Hd. cbn [dlookup] in Hd.
    autorewrite with dataexec. cbn [deval]. unfold vlookup. cbn [dlookup].
    rewrite !dlookup_dupd. cbn [String.eqb Ascii.eqb Bool.eqb]. rewrite Hd.
    cbn [dataAt]. destruct y as [a|rows]; cbn [asV obind].
    - cbn [emb]. reflexivity.
    - rewrite emb_Vec, didx_nat, nth_error_map_emb.
      destruct (nth_error rows i) as [r|]; cbn [option_map obind dataAt]; [|reflexivity].
      (* data = ... assigns the existing main variable *)
      unfold vassign. cbn [dhas dlookup]. unfold dhas. rewrite !dlookup_dupd. cbn [String.eqb Ascii.eqb Bool.eqb]. rewrite Hd.
      eexists. split; [reflexivity|]. cbn [dlookup]. rewrite dlookup_dupd. cbn [String.eqb Ascii.eqb Bool.eqb]. reflexivity. }
  specialize (HL Hspec idx x 0 s [("t.dims", ds); ("t.data", emb x); ("index", DL (map (fun n => DI (Z.of_nat n)) idx)); ("data", emb x)] eq_refl).
  destruct (dataAt x idx) as [y|].
  - destruct HL as [g1 [HL Hd]]. rewrite HL. dxs. unfold vlookup in Hd |- *. cbn [dlookup] in Hd |- *. rewrite Hd. eauto.
  - rewrite HL. reflexivity.
Qed.
End DataAt.
Print Assumptions data_dataAt.
