(* HeapBackP.v — gradtrack.backward (tensor/internal/gradtrack/back_propagation.go) as translated by harness/gox
   into the DataIR program GoGrad.g_backward, run against the heap oracle Model/HeapExt.v, IS the model's
   Backprop.bp_topo (with the identity seal). *)
From Coq Require Import String List ZArith Bool Lia Arith.
From Qeep Require Import Model.Scalar Model.Nd Model.Fill Model.Data Model.Valid Model.Api Model.Grad Model.Backprop.
From Qeep Require Import Model.DataIR Model.GoGrad Model.HeapExt Proofs.DataIRP Proofs.NdP.
From Qeep Require Import Proofs.BackpropP.
From Qeep Require Proofs.TrackP Proofs.DfsP.
From Qeep Require Model.GoIR.
Import ListNotations.
Local Open Scope string_scope.
Local Open Scope Z_scope.
Local Open Scope list_scope.

(* ------------------------------------------------------------------------------------ *)
(* generic list facts                                                                    *)
(* ------------------------------------------------------------------------------------ *)

Lemma nth_error_ext_eq' {X} : forall (l1 l2 : list X), (forall j, nth_error l1 j = nth_error l2 j) -> l1 = l2.
Proof.
  induction l1 as [|a l1 IH]; intros [|b l2] H.
  - reflexivity.
  - specialize (H 0%nat). discriminate.
  - specialize (H 0%nat). discriminate.
  - pose proof (H 0%nat) as H0. cbn in H0. inversion H0; subst. f_equal. apply IH. intros j. exact (H (S j)).
Qed.

Lemma nth_error_mid' {X} (a : list X) x b : nth_error (a ++ x :: b) (length a) = Some x.
Proof. rewrite nth_error_app2 by lia. rewrite Nat.sub_diag. reflexivity. Qed.

Section HeapBack.
Context {A : Type} {SA : Scalar A}.
Notation T := (tensor A).
Notation heap := (@heap A).
Notation rule := (@rule A).
Notation node := (@node A).
Notation dval := (@dval A).
Notation denv := (@denv A).
Notation doutcome := (@DataIR.doutcome A (@Grad.heap A)).
Variable fapp : string -> list A -> option A.
Variable rd : bred.
Notation idseal := (fun (_ : option nat) (g : T) => g).

(* ------------------------------------------------------------------------------------ *)
(* 1. the embedding of gradient values can be decoded                                    *)
(* ------------------------------------------------------------------------------------ *)

Lemma unemb_emb (x : nd A) : unemb (emb x) = Some x.
Proof.
  induction x as [a|l IH] using nd_ind'; [reflexivity|].
  cbn [emb unemb].
  assert (E : (fix go (l0 : list dval) : option (list (nd A)) :=
                 match l0 with
                 | [] => Some []
                 | x :: r => match unemb x, go r with Some y, Some ys => Some (y :: ys) | _, _ => None end
                 end)
              ((fix go (l0 : list (nd A)) : list dval := match l0 with [] => [] | y :: r => emb y :: go r end) l)
              = Some l).
  { induction IH as [|y r Hy _ IHr]; [reflexivity|]. rewrite Hy, IHr. reflexivity. }
  rewrite E. reflexivity.
Qed.

Lemma unnats_nats (l : list nat) : unnats (map (fun n => @DI A (Z.of_nat n)) l) = Some l.
Proof.
  induction l as [|n l IH]; cbn [map unnats]; [reflexivity|].
  destruct (0 <=? Z.of_nat n) eqn:E; [|apply Z.leb_gt in E; lia].
  rewrite IH, Nat2Z.id. reflexivity.
Qed.

Lemma unembT_embT (t : T) : unembT (embT t) = Some t.
Proof.
  unfold embT, unembT, dnats. rewrite unnats_nats, unemb_emb. destruct t; reflexivity.
Qed.

Lemma embT_not_nil (t : T) : embT t <> DNil.
Proof. unfold embT. discriminate. Qed.

(* ------------------------------------------------------------------------------------ *)
(* 2. the oracle entries used by backward                                                *)
(* ------------------------------------------------------------------------------------ *)

Lemma nodeId_nat (h : heap) (n : nat) : (n < length h)%nat -> nodeId h (DI (Z.of_nat n)) = Some n.
Proof.
  intros H. unfold nodeId. rewrite Nat2Z.id.
  destruct (0 <=? Z.of_nat n) eqn:E; [|apply Z.leb_gt in E; lia].
  apply Nat.ltb_lt in H. rewrite H. reflexivity.
Qed.

Lemma hext_noteRule (h : heap) : hext rd "noteRule" [] h = Some ([], h).
Proof. reflexivity. Qed.

Lemma hext_gradContextOf (h : heap) n : (n < length h)%nat ->
  hext rd "gradContextOf" [DI (Z.of_nat n)] h = Some ([DI (Z.of_nat n)], h).
Proof.
  intros H. change (hext rd "gradContextOf" [DI (Z.of_nat n)] h)
    with (do m <- nodeId h (DI (Z.of_nat n)); Some ([@DI A (Z.of_nat m)], h)).
  rewrite nodeId_nat by exact H. reflexivity.
Qed.

Lemma hext_get_tracked (h : heap) n : (n < length h)%nat ->
  hext rd "get.tracked" [DI (Z.of_nat n)] h = Some ([DB (trackedOf h n)], h).
Proof.
  intros H. change (hext rd "get.tracked" [DI (Z.of_nat n)] h)
    with (do m <- nodeId h (DI (Z.of_nat n)); Some ([@DB A (trackedOf h m)], h)).
  rewrite nodeId_nat by exact H. reflexivity.
Qed.

Lemma hext_get_backEdges (h : heap) n : (n < length h)%nat ->
  hext rd "get.backEdges" [DI (Z.of_nat n)] h = Some ([encEdges n (edgesOf h n)], h).
Proof.
  intros H. change (hext rd "get.backEdges" [DI (Z.of_nat n)] h)
    with (do m <- nodeId h (DI (Z.of_nat n)); Some ([encEdges m (edgesOf h m)], h)).
  rewrite nodeId_nat by exact H. reflexivity.
Qed.

Lemma hext_topologicalOrder (h : heap) n : (n < length h)%nat ->
  hext rd "topologicalOrder" [DI (Z.of_nat n)] h =
  Some ([DL (map (fun i => DI (Z.of_nat i)) (topoOrder h n))], markDirty h (topoOrder h n)).
Proof.
  intros H. change (hext rd "topologicalOrder" [DI (Z.of_nat n)] h)
    with (do m <- nodeId h (DI (Z.of_nat n));
          Some ([@DL A (map (fun i => DI (Z.of_nat i)) (topoOrder h m))], markDirty h (topoOrder h m))).
  rewrite nodeId_nat by exact H. reflexivity.
Qed.

(* the seed edge *)
Lemma hext_gradFn_seed (h : heap) tv n k : (n < length h)%nat -> k < 0 ->
  hext rd "gradFn" [DL [tv; DI (Z.of_nat n); DI k]] h =
  do rv <- valOf h n; do r <- retT (toOnes rv); Some (r, h).
Proof.
  intros H Hk. change (hext rd "gradFn" [DL [tv; DI (Z.of_nat n); DI k]] h)
    with (do o <- nodeId h (DI (Z.of_nat n));
          if (k <? 0)%Z then do rv <- valOf h o; do r <- retT (toOnes rv); Some (r, h)
          else do e <- nth_error (edgesOf h o) (Z.to_nat k);
               do r <- retT (eval_rule rd h (snd e)); Some (r, h)).
  rewrite nodeId_nat by exact H. cbn [obind].
  apply Z.ltb_lt in Hk. rewrite Hk. reflexivity.
Qed.

(* the k-th back edge of node n *)
Lemma hext_gradFn_edge (h : heap) tv n (k : nat) e : (n < length h)%nat -> nth_error (edgesOf h n) k = Some e ->
  hext rd "gradFn" [DL [tv; DI (Z.of_nat n); DI (Z.of_nat k)]] h =
  do r <- retT (eval_rule rd h (snd e)); Some (r, h).
Proof.
  intros H He. change (hext rd "gradFn" [DL [tv; DI (Z.of_nat n); DI (Z.of_nat k)]] h)
    with (do o <- nodeId h (DI (Z.of_nat n));
          if (Z.of_nat k <? 0)%Z then do rv <- valOf h o; do r <- retT (toOnes rv); Some (r, h)
          else do e <- nth_error (edgesOf h o) (Z.to_nat (Z.of_nat k));
               do r <- retT (eval_rule rd h (snd e)); Some (r, h)).
  rewrite nodeId_nat by exact H. cbn [obind].
  destruct (Z.of_nat k <? 0) eqn:E; [apply Z.ltb_lt in E; lia|].
  rewrite Nat2Z.id, He. reflexivity.
Qed.

Lemma hext_accumulateGrad (h : heap) n (gr : T) : (n < length h)%nat ->
  hext rd "accumulateGrad" [DI (Z.of_nat n); embT gr] h =
  match accumulate h n gr with
  | (h', Ok _) => Some ([DI 0], h')
  | (h', Err) => Some ([DI 1], setGrad h n None)
  | (_, Panic) => None
  end.
Proof.
  intros H. change (hext rd "accumulateGrad" [DI (Z.of_nat n); embT gr] h)
    with (do m <- nodeId h (DI (Z.of_nat n)); do g <- unembT (embT gr);
          match accumulate h m g with
          | (h', Ok _) => Some ([@DI A 0], h')
          | (h', Err) => Some ([DI 1], setGrad h m None)
          | (_, Panic) => None
          end).
  rewrite nodeId_nat by exact H. rewrite unembT_embT. reflexivity.
Qed.

(* ------------------------------------------------------------------------------------ *)
(* 3. model-side facts                                                                   *)
(* ------------------------------------------------------------------------------------ *)

(* storing the gradient a node already has changes nothing *)
Lemma setGrad_same (h : heap) c n g : nth_error h c = Some n -> ngrad n = Some g -> setGrad h c (Some g) = h.
Proof.
  intros Hn Hg. apply nth_error_ext_eq'. intros j. rewrite nth_error_setGrad.
  destruct (nth_error h j) as [m|] eqn:Ej; [|reflexivity].
  destruct (j =? c)%nat eqn:E; [|reflexivity]. apply Nat.eqb_eq in E. subst j.
  rewrite Hn in Ej. inversion Ej; subst m. rewrite <- Hg. destruct n; reflexivity.
Qed.

Lemma accumulate_sameS (h : heap) i g : sameS h (fst (accumulate h i g)).
Proof.
  unfold accumulate. destruct (gradOf h i) as [g0|]; cbn [fst]; [|apply sameS_setGrad].
  destruct (v_arith BiAdd g0 g); cbn [fst]; [apply sameS_setGrad|apply sameS_refl|apply sameS_refl].
Qed.

Lemma process_edge_sameS c (h : heap) e : sameS h (fst (process_edge rd c (h, Ok tt) e)).
Proof.
  cbn [process_edge]. destruct (trackedOf h (fst e)); [|apply sameS_refl].
  destruct (eval_rule rd h (snd e)); [apply accumulate_sameS|apply sameS_refl|apply sameS_refl].
Qed.

(* the heap the Go code leaves behind when it returns an error: the model's, except that a failed Add has stored
   its nil result as the gradient of the target *)
Definition errHeap (hm hg : heap) : Prop := hg = hm \/ exists t, hg = setGrad hm t None.


(* ------------------------------------------------------------------------------------ *)
(* 4. the inner loop: the back edges of one context                                      *)
(* ------------------------------------------------------------------------------------ *)

Definition encE (c : nat) (p : nat * (nat * rule)) : dval :=
  DL [DI (Z.of_nat (fst (snd p))); DI (Z.of_nat c); DI (Z.of_nat (fst p))].

Lemma encEdges_eq c es : encEdges c es = DL (map (encE c) (combine (seq 0 (length es)) es)).
Proof. reflexivity. Qed.

Lemma inner_loop (body : heap -> denv -> denv -> doutcome)
      (assign : denv -> denv -> Z -> dval -> denv * denv) (c : nat) :
  (forall (s : heap) g (k : nat) e, (c < length s)%nat -> nth_error (edgesOf s c) k = Some e -> (fst e < length s)%nat ->
     let '(g0, l0) := assign g [] (Z.of_nat k) (encE c (k, e)) in
     match process_edge rd c (s, Ok tt) e with
     | (s', Ok _) => exists g1, body s g0 l0 = DNormal heap s' g1 [] \/ body s g0 l0 = DContinue heap s' g1 []
     | (s', Err) => exists s'' g1, body s g0 l0 = DRet heap [DI 1] s'' g1 [] /\ errHeap s' s''
     | (_, Panic) => body s g0 l0 = DPanic heap
     end) ->
  forall suf pre (s : heap) g,
  edgesOf s c = pre ++ suf -> (c < length s)%nat -> (forall e, In e suf -> (fst e < length s)%nat) ->
  match fold_left (process_edge rd c) suf (s, Ok tt) with
  | (s', Ok _) => exists g1, drangeLoop heap body assign (map (encE c) (combine (seq (length pre) (length suf)) suf))
                               (Z.of_nat (length pre)) s g [] = DNormal heap s' g1 []
  | (s', Err) => exists s'' g1, drangeLoop heap body assign (map (encE c) (combine (seq (length pre) (length suf)) suf))
                               (Z.of_nat (length pre)) s g [] = DRet heap [DI 1] s'' g1 [] /\ errHeap s' s''
  | (_, Panic) => drangeLoop heap body assign (map (encE c) (combine (seq (length pre) (length suf)) suf))
                               (Z.of_nat (length pre)) s g [] = DPanic heap
  end.
Proof.
  intros Hb. induction suf as [|e suf IH]; intros pre s g Hed Hc Hrng.
  - cbn. eauto.
  - cbn [length seq combine map drangeLoop fold_left].
    assert (Hn : nth_error (edgesOf s c) (length pre) = Some e) by (rewrite Hed; apply nth_error_mid').
    pose proof (Hb s g (length pre) e Hc Hn (Hrng e (or_introl eq_refl))) as H1.
    destruct (assign g [] (Z.of_nat (length pre)) (encE c (length pre, e))) as [g0 l0].
    pose proof (process_edge_sameS c s e) as HS.
    destruct (process_edge rd c (s, Ok tt) e) as [s1 r1]. cbn [fst] in HS.
    destruct r1 as [[]| |].
    + destruct H1 as [g1 H1].
      assert (Hed1 : edgesOf s1 c = (pre ++ [e]) ++ suf).
      { rewrite <- (sameS_edges _ _ HS), Hed, <- app_assoc. reflexivity. }
      assert (Hc1 : (c < length s1)%nat) by (rewrite <- (proj1 HS); exact Hc).
      assert (Hr1 : forall e0, In e0 suf -> (fst e0 < length s1)%nat).
      { intros e0 H0. rewrite <- (proj1 HS). apply Hrng. right. exact H0. }
      specialize (IH (pre ++ [e]) s1 g1 Hed1 Hc1 Hr1).
      replace (length (pre ++ [e])) with (S (length pre)) in IH by (rewrite app_length; cbn [length]; lia).
      replace (Z.of_nat (length pre) + 1) with (Z.of_nat (S (length pre))) by lia.
      destruct H1 as [H1|H1]; rewrite H1; exact IH.
    + rewrite pe_sticky by discriminate. destruct H1 as (s'' & g1 & H1 & He). rewrite H1. eauto.
    + rewrite pe_sticky by discriminate. rewrite H1. reflexivity.
Qed.


(* ------------------------------------------------------------------------------------ *)
(* 5. the outer loop: the contexts of the order                                          *)
(* ------------------------------------------------------------------------------------ *)

Lemma pe_fold_sameS c es : forall (s : heap), sameS s (fst (fold_left (process_edge rd c) es (s, Ok tt))).
Proof.
  induction es as [|e es IH]; intros s; cbn [fold_left]; [apply sameS_refl|].
  pose proof (process_edge_sameS c s e) as HS.
  destruct (process_edge rd c (s, Ok tt) e) as [s1 r1]. cbn [fst] in HS.
  destruct r1 as [[]| |].
  - eapply sameS_trans; [exact HS|apply IH].
  - rewrite pe_sticky by discriminate. exact HS.
  - rewrite pe_sticky by discriminate. exact HS.
Qed.

(* gradients are never removed, and every tracked target of a successfully processed edge list has one *)
Lemma pe_fold_grads c es : forall (s s' : heap),
  fold_left (process_edge rd c) es (s, Ok tt) = (s', Ok tt) ->
  (forall x, gradOf s x <> None -> gradOf s' x <> None) /\
  (forall e, In e es -> trackedOf s (fst e) = true -> gradOf s' (fst e) <> None).
Proof.
  induction es as [|e es IH]; intros s s' E.
  - cbn [fold_left] in E. inversion E; subst s'. split; [auto|intros e []].
  - destruct (pe_fold_cons _ _ _ _ _ _ E) as (s1 & E1 & E2).
    destruct (IH s1 s' E2) as (Imono & Itgt). clear IH.
    assert (Hmono1 : forall x, gradOf s x <> None -> gradOf s1 x <> None).
    { intros x Hx. destruct (process_edge_ok _ _ _ _ _ E1) as [[_ ->]|[Et (g & o' & _ & Hacc & ->)]]; [exact Hx|].
      rewrite gradOf_setGrad. destruct (x =? fst e)%nat; [|exact Hx].
      pose proof (tracked_lt _ _ Et) as Hlt. apply Nat.ltb_lt in Hlt. rewrite Hlt. eapply acc1_some; eauto. }
    split; [intros x Hx; apply Imono, Hmono1, Hx|].
    intros e0 [<-|H0] Ht.
    + apply Imono. destruct (process_edge_ok _ _ _ _ _ E1) as [[Et _]|[Et (g & o' & _ & Hacc & ->)]]; [congruence|].
      rewrite gradOf_setGrad, Nat.eqb_refl.
      pose proof (tracked_lt _ _ Et) as Hlt. apply Nat.ltb_lt in Hlt. rewrite Hlt. eapply acc1_some; eauto.
    + apply Itgt; [exact H0|].
      pose proof (process_edge_sameS c s e) as HS. rewrite E1 in HS. cbn [fst] in HS.
      rewrite <- (sameS_trk _ _ HS). exact Ht.
Qed.

(* every member of the rest of the order either has a gradient already or is the target of an edge of a member that
   is still to be processed *)
Definition ready (h0 : heap) (l : list nat) (s : heap) : Prop :=
  forall x, In x l -> gradOf s x <> None \/ exists p e, In p l /\ In e (edgesOf h0 p) /\ fst e = x.

Lemma ready_head (h0 : heap) c l (s : heap) :
  NoDup (c :: l) -> ordered h0 (c :: l) -> (forall x, In x (c :: l) -> trackedOf h0 x = true) ->
  ready h0 (c :: l) s -> gradOf s c <> None.
Proof.
  intros Hnd Hord Htr Hr. destruct (Hr c (or_introl eq_refl)) as [H|(p & e & Hp & He & Hfe)]; [exact H|].
  exfalso. apply NoDup_cons_iff in Hnd. destruct Hnd as [Hnc _]. apply Hnc.
  assert (Ht : trackedOf h0 (fst e) = true) by (rewrite Hfe; apply Htr; left; reflexivity).
  destruct Hord as [Hc Hord]. rewrite <- Hfe. destruct Hp as [<-|Hp].
  - apply Hc; assumption.
  - eapply ordered_in; eauto.
Qed.

Lemma outer_loop (body : heap -> denv -> denv -> doutcome)
      (assign : denv -> denv -> Z -> dval -> denv * denv) (h0 : heap) :
  wf_heap h0 ->
  (forall (s : heap) g k c, (c < length s)%nat -> (forall e, In e (edgesOf s c) -> (fst e < length s)%nat) ->
     let '(g0, l0) := assign g [] k (DI (Z.of_nat c)) in
     match fold_left (process_edge rd c) (edgesOf s c) (s, Ok tt) with
     | (s', Ok _) => exists g1, body s g0 l0 = DNormal heap s' g1 []
     | (s', Err) => exists s'' g1, body s g0 l0 = DRet heap [DI 1] s'' g1 [] /\ errHeap s' s''
     | (_, Panic) => body s g0 l0 = DPanic heap
     end) ->
  forall l (s : heap) log g k,
  sameS h0 s -> NoDup l -> ordered h0 l -> (forall c, In c l -> trackedOf h0 c = true) -> ready h0 l s ->
  match fold_left (process_node rd idseal) l (s, log, Ok tt) with
  | (s', _, Ok _) => exists g1, drangeLoop heap body assign (map (fun i => DI (Z.of_nat i)) l) k s g [] = DNormal heap s' g1 []
  | (s', _, Err) => exists s'' g1, drangeLoop heap body assign (map (fun i => DI (Z.of_nat i)) l) k s g [] =
                                   DRet heap [DI 1] s'' g1 [] /\ errHeap s' s''
  | (_, _, Panic) => drangeLoop heap body assign (map (fun i => DI (Z.of_nat i)) l) k s g [] = DPanic heap
  end.
Proof.
  intros Hwf Hb. induction l as [|c l IH]; intros s log g k HS Hnd Hord Htr Hr.
  - cbn. eauto.
  - cbn [map drangeLoop fold_left].
    assert (Hct : trackedOf h0 c = true) by (apply Htr; left; reflexivity).
    assert (Hc : (c < length s)%nat) by (rewrite <- (proj1 HS); apply tracked_lt; exact Hct).
    pose proof (ready_head h0 c l s Hnd Hord Htr Hr) as Hgc.
    destruct (nth_error s c) as [n|] eqn:En; [|apply nth_error_None in En; lia].
    assert (Hed : edgesOf s c = nedges n) by (unfold edgesOf; rewrite En; reflexivity).
    assert (Hgr : gradOf s c = ngrad n) by (unfold gradOf; rewrite En; reflexivity).
    destruct (ngrad n) as [gr|] eqn:Egr; [|congruence].
    assert (Hrng : forall e, In e (edgesOf s c) -> (fst e < length s)%nat).
    { intros e He. rewrite <- (sameS_edges _ _ HS) in He. apply (wf_heap_edgesOf _ Hwf) in He. lia. }
    pose proof (Hb s g k c Hc Hrng) as H1.
    destruct (assign g [] k (DI (Z.of_nat c))) as [g0 l0].
    cbn [process_node]. rewrite En, Egr. rewrite (setGrad_same s c n gr En Egr). rewrite <- Hed.
    pose proof (pe_fold_sameS c (edgesOf s c) s) as HS1.
    destruct (fold_left (process_edge rd c) (edgesOf s c) (s, Ok tt)) as [s1 r1] eqn:Ef. cbn [fst] in HS1.
    destruct r1 as [[]| |].
    + destruct H1 as [g1 H1]. rewrite H1.
      apply NoDup_cons_iff in Hnd. destruct Hnd as [Hnc Hnd]. destruct Hord as [Hoc Hord].
      destruct (pe_fold_grads _ _ _ _ Ef) as (Hmono & Htgt).
      apply IH; [eapply sameS_trans; eauto|exact Hnd|exact Hord|intros c0 H0; apply Htr; right; exact H0|].
      intros x Hx. destruct (Hr x (or_intror Hx)) as [H|(p & e & [<-|Hp] & He & Hfe)].
      * left. apply Hmono, H.
      * left. rewrite <- Hfe. apply Htgt.
        -- rewrite <- (sameS_edges _ _ HS). exact He.
        -- rewrite <- (sameS_trk _ _ HS), Hfe. apply Htr. right. exact Hx.
      * right. exists p, e. auto.
    + rewrite pn_sticky by discriminate. destruct H1 as (s'' & g1 & H1 & He). rewrite H1. eauto.
    + rewrite pn_sticky by discriminate. rewrite H1. reflexivity.
Qed.


(* ------------------------------------------------------------------------------------ *)
(* 6. backward                                                                           *)
(* ------------------------------------------------------------------------------------ *)

Lemma vassign_main (g : denv) x (v : dval) : vassign true g [] x v = (dupd g x v, []).
Proof. unfold vassign. cbn [dhas dlookup]. destruct (dhas g x); reflexivity. Qed.

Lemma accumulate_err (h : heap) i g h' : accumulate h i g = (h', Err) -> h' = h.
Proof.
  unfold accumulate. destruct (gradOf h i) as [g0|]; [|intros E; inversion E].
  destruct (v_arith BiAdd g0 g); intros E; inversion E; reflexivity.
Qed.

(* how a run of the Go function relates to a result of the model *)
Definition bspec (M : heap * list (nat * T) * res unit) (run : doutcome) : Prop :=
  match M with
  | (h', _, Ok _) => exists g l, run = DRet heap [DI 0] h' g l
  | (h', _, Err) => exists h'' g l, run = DRet heap [DI 1] h'' g l /\ errHeap h' h''
  | (_, _, Panic) => run = DPanic heap
  end.

Ltac hx := autorewrite with dataexec;
  cbn [tseq deval devals devalBin negb andb orb dassignAll vdefine Z.eqb];
  rewrite ?vassign_main; unfold vlookup; cbn [dlookup]; rewrite ?dlookup_dupd;
  cbn [String.eqb Ascii.eqb Bool.eqb].
Ltac hxs := repeat (progress hx).

Theorem backward_bp_topo (h : heap) (root fuel depth : nat) :
  wf_heap h -> (root < length h)%nat ->
  bspec (bp_topo rd idseal h root)
        (drun fapp heap (hext rd) g_backward fuel depth [DL [DI (Z.of_nat root); DI (Z.of_nat root); DI (-1)]] h).
Proof.
  intros Hwf Hroot. unfold drun, g_backward. cbn [pmain dbody plocals dparams dbind]. dxs.
  change (didx 0) with (Some 0%nat). cbn [nth_error].
  rewrite (hext_gradContextOf h root Hroot). dxs.
  rewrite (hext_get_tracked h root Hroot). dxs.
  destruct (trackedOf h root) eqn:Etr; cbn [negb]; dxs.
  2:{ unfold bp_topo, bspec. rewrite Etr. cbn [negb]. eauto. }
  rewrite (hext_topologicalOrder h root Hroot). dxs.
  set (order := topoOrder h root). set (h1 := markDirty h order).
  assert (Hl1 : length h1 = length h) by apply length_markDirty.
  assert (Hroot1 : (root < length h1)%nat) by lia.
  rewrite hext_noteRule. dxs.
  rewrite (hext_gradFn_seed h1 _ root (-1) Hroot1 ltac:(lia)).
  (* the model side, up to the same point *)
  unfold bp_topo. rewrite Etr. cbn [negb]. fold order. fold h1.
  destruct (valOf h1 root) as [rv|] eqn:Ev.
  2:{ exfalso. unfold valOf in Ev. destruct (nth_error h1 root) eqn:En; [discriminate|]. apply nth_error_None in En. lia. }
  cbn [obind].
  destruct (toOnes rv) as [ones| |] eqn:Eo; cbn [retT obind].
  2:{ (* toOnes fails *) dxs. unfold bspec. exists h1. eexists. eexists. split; [reflexivity|left; reflexivity]. }
  2:{ (* toOnes panics *) unfold bspec. reflexivity. }
  dxs. cbn [Z.eqb negb]. dxs.
  rewrite (hext_accumulateGrad h1 root ones Hroot1).
  destruct (accumulate h1 root ones) as [h2 r2] eqn:Ea.
  destruct r2 as [[]| |].
  2:{ (* the seed cannot be added *) dxs. cbn [Z.eqb negb]. dxs. unfold bspec.
      rewrite (accumulate_err _ _ _ _ Ea). eexists. eexists. eexists. split; [reflexivity|right; eexists; reflexivity]. }
  2:{ unfold bspec. reflexivity. }
  dxs. cbn [Z.eqb negb]. dxs.
  (* the loops *)
  match goal with |- context [drangeLoop heap ?b ?asg _ _ _ ?g0 _] =>
    pose proof (outer_loop b asg h Hwf) as HL; set (genv := g0)
  end.
  match type of HL with ?P -> _ => assert (Hspec : P) end.
  { clear HL. intros s g k c Hc Hrng. cbv beta iota.
    hxs. rewrite (hext_get_backEdges s c Hc). hxs. rewrite encEdges_eq.
    match goal with |- context [drangeLoop heap ?b ?asg _ _ _ ?g0 _] =>
      pose proof (inner_loop b asg c) as HI; set (genv1 := g0)
    end.
    match type of HI with ?P -> _ => assert (Hsp : P) end.
    { clear HI. intros s0 g0 k0 e Hc0 Hn Hrg. cbv beta iota. unfold encE. cbn [fst snd].
      hxs. change (didx 0) with (Some 0%nat). cbn [nth_error].
      rewrite (hext_gradContextOf s0 (fst e) Hrg). hxs.
      rewrite (hext_get_tracked s0 (fst e) Hrg). hxs.
      cbn [process_edge].
      destruct (trackedOf s0 (fst e)) eqn:Et; cbn [negb]; hxs.
      2:{ eexists. right. reflexivity. }
      rewrite hext_noteRule. hxs.
      rewrite (hext_gradFn_edge s0 _ c k0 e Hc0 Hn).
      destruct (eval_rule rd s0 (snd e)) as [gr| |] eqn:Eev; cbn [retT obind].
      2:{ hxs. exists s0. eexists. split; [reflexivity|left; reflexivity]. }
      2:{ reflexivity. }
      hxs. rewrite (hext_accumulateGrad s0 (fst e) gr Hrg).
      destruct (accumulate s0 (fst e) gr) as [s1 r1] eqn:Eac.
      destruct r1 as [[]| |].
      - hxs. eexists. left. reflexivity.
      - hxs. rewrite (accumulate_err _ _ _ _ Eac). eexists. eexists. split; [reflexivity|right; eexists; reflexivity].
      - reflexivity. }
    specialize (HI Hsp (edgesOf s c) [] s genv1 eq_refl Hc Hrng).
    cbn [length] in HI. change (Z.of_nat 0) with 0 in HI.
    destruct (fold_left (process_edge rd c) (edgesOf s c) (s, Ok tt)) as [s' r'].
    destruct r' as [[]| |].
    - destruct HI as [g1 HI]. rewrite HI. eauto.
    - destruct HI as (s'' & g1 & HI & He). rewrite HI. eauto.
    - rewrite HI. reflexivity. }
  assert (HS2 : sameS h h2).
  { eapply sameS_trans; [apply sameS_markDirty|]. fold order. fold h1.
    pose proof (accumulate_sameS h1 root ones) as X. rewrite Ea in X. exact X. }
  assert (Hwf' : TrackP.wf_heap h) by exact (proj1 (wf_heap_Forall h) Hwf).
  assert (Hnd : NoDup order) by exact (DfsP.topoOrder_NoDup h root Hwf').
  assert (Hord : ordered h order) by exact (DfsP.topoOrder_ordered h root Hwf').
  assert (Htrk : forall c, In c order -> trackedOf h c = true) by (intros c Hc; exact (DfsP.topoOrder_tracked h root c Hwf' Hc)).
  assert (Hrdy : ready h order h2).
  { intros x Hx. destruct (Nat.eq_dec x root) as [->|Hne].
    - left. destruct (accumulate_ok _ _ _ _ _ Ea eq_refl) as (o' & Hacc & ->).
      rewrite gradOf_setGrad, Nat.eqb_refl. apply Nat.ltb_lt in Hroot1. rewrite Hroot1. eapply acc1_some; eauto.
    - right. destruct (DfsP.topoOrder_pred h root x Hwf' Hx Hne) as (p & e & Hp & He & Hfe & _). exists p, e. auto. }
  specialize (HL Hspec order h2 [] genv 0 HS2 Hnd Hord Htrk Hrdy).
  destruct (fold_left (process_node rd idseal) order (h2, [], Ok tt)) as [[s' log'] r'].
  unfold bspec. destruct r' as [[]| |].
  - destruct HL as [g1 HL]. rewrite HL. hxs. eauto.
  - destruct HL as (s'' & g1 & HL & He). rewrite HL. eauto.
  - rewrite HL. reflexivity.
Qed.


(* ------------------------------------------------------------------------------------ *)
(* 7. the statements asked for                                                           *)
(* ------------------------------------------------------------------------------------ *)

Notation seedEdge root := (DL [DI (Z.of_nat root); DI (Z.of_nat root); DI (-1)]).

(* success: err = nil and the final heap is exactly the model's *)
Corollary backward_ok (h : heap) (root fuel depth : nat) h' log :
  wf_heap h -> (root < length h)%nat ->
  bp_topo rd idseal h root = (h', log, Ok tt) ->
  exists g l, drun fapp heap (hext rd) g_backward fuel depth [seedEdge root] h = DRet heap [DI 0] h' g l.
Proof. intros Hwf Hr E. pose proof (backward_bp_topo h root fuel depth Hwf Hr) as H. rewrite E in H. exact H. Qed.

(* untracked root: nothing happens (no well-formedness needed) *)
Theorem backward_untracked (h : heap) (root fuel depth : nat) :
  (root < length h)%nat -> trackedOf h root = false ->
  exists g l, drun fapp heap (hext rd) g_backward fuel depth [seedEdge root] h = DRet heap [DI 0] h g l.
Proof.
  intros Hroot Etr. unfold drun, g_backward. cbn [pmain dbody plocals dparams dbind]. dxs.
  change (didx 0) with (Some 0%nat). cbn [nth_error].
  rewrite (hext_gradContextOf h root Hroot). dxs.
  rewrite (hext_get_tracked h root Hroot). dxs. rewrite Etr. cbn [negb]. dxs. eauto.
Qed.

(* error: err != nil; the heap is the model's except possibly for one gradient set to nil *)
Corollary backward_err (h : heap) (root fuel depth : nat) h' log :
  wf_heap h -> (root < length h)%nat ->
  bp_topo rd idseal h root = (h', log, Err) ->
  exists h'' g l, drun fapp heap (hext rd) g_backward fuel depth [seedEdge root] h = DRet heap [DI 1] h'' g l /\
                  errHeap h' h''.
Proof. intros Hwf Hr E. pose proof (backward_bp_topo h root fuel depth Hwf Hr) as H. rewrite E in H. exact H. Qed.

(* panic *)
Corollary backward_panic (h : heap) (root fuel depth : nat) h' log :
  wf_heap h -> (root < length h)%nat ->
  bp_topo rd idseal h root = (h', log, Panic) ->
  drun fapp heap (hext rd) g_backward fuel depth [seedEdge root] h = DPanic heap.
Proof. intros Hwf Hr E. pose proof (backward_bp_topo h root fuel depth Hwf Hr) as H. rewrite E in H. exact H. Qed.

(* what errHeap leaves intact: values, flags, edges, and every gradient but one *)
Lemma errHeap_sameS (hm hg : heap) : errHeap hm hg -> sameS hm hg.
Proof. intros [->|[t ->]]; [apply sameS_refl|apply sameS_setGrad]. Qed.

Lemma errHeap_grads (hm hg : heap) : errHeap hm hg ->
  exists t, forall j, j <> t -> gradOf hg j = gradOf hm j.
Proof.
  intros [->|[t ->]]; [exists 0%nat; reflexivity|]. exists t. intros j Hj. rewrite gradOf_setGrad.
  apply Nat.eqb_neq in Hj. rewrite Hj. reflexivity.
Qed.

(* The invariant used for the outer loop is [ready] (section 5): by [ready_head] a context of the order always has a
   gradient when its turn comes, so the branch [ngrad n = None] of process_node (where the model skips the node while
   the Go loop would still evaluate the gradFn closures of its tracked edges, i.e. dereference y.Gradient() = nil) is
   never taken by bp_topo on a well-formed heap.  Only wf_heap is assumed (it also gives "ids in range": an edge
   target is smaller than its owner, which is a node of the heap); rules_own is not needed. *)

End HeapBack.

Print Assumptions backward_bp_topo.
Print Assumptions backward_ok.
Print Assumptions backward_untracked.
Print Assumptions backward_err.
Print Assumptions backward_panic.

(* example: y = x.Scale(2).Add(c) on the heap of TrackP.TrackEx, back-propagation from y (id 5) and from the
   untracked q (id 6) *)
Module HeapBackEx.
Import TrackP.TrackEx.
#[local] Existing Instance Z_scalar.

Definition run (root : nat) :=
  match drun (fun _ _ => None) heap (hext RedSum) g_backward 0 0
             [DL [DI (Z.of_nat root); DI (Z.of_nat root); DI (-1)]] e5 with
  | DRet _ vs hg _ _ => Some (vs, hg)
  | _ => None
  end.

Example ex_run5 : run 5 = Some ([DI 0], fst (fst (bp_topo RedSum (fun _ g => g) e5 5))) /\
                  option_map (fun p => gradOf (snd p) 0) (run 5) = Some (Some (vec2 2 2)).
Proof. vm_compute. split; reflexivity. Qed.

Example ex_run6 : run 6 = Some ([DI 0], e5).
Proof. vm_compute. reflexivity. Qed.
End HeapBackEx.
