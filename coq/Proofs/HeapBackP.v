(* HeapBackP.v — gradtrack.backward (tensor/internal/gradtrack/back_propagation.go) as translated by harness/gox
   into the DataIR program GoGrad.g_backward, run against the heap oracle Model/HeapExt.v, IS the model's
   Backprop.bp_topo (with the identity seal). *)
From Coq Require Import String List ZArith Bool Lia Arith.
From Qeep Require Import Model.Scalar Model.Nd Model.Fill Model.Data Model.Valid Model.Api Model.Grad Model.Backprop.
From Qeep Require Import Model.DataIR Model.GoGrad Model.HeapExt Proofs.DataIRP Proofs.NdP.
From Qeep Require Import Proofs.BackpropP.
From Qeep Require Proofs.DfsP.
From Qeep Require Model.GoIR.
Import ListNotations.
Local Open Scope string_scope.
Local Open Scope Z_scope.
Local Open Scope list_scope.

(* ------------------------------------------------------------------------------------ *)
(* generic list facts                                                                    *)
(* ------------------------------------------------------------------------------------ *)

Lemma nth_error_ext_eq' {X} : forall (l1 l2 : list X), (forall j, nth_error l1 j = nth_error l2 j) -> l1 = l2.
Proof.
  induction l1 as [|a l1 IH]; intros [|b l2] H.
  - reflexivity.
  - specialize (H 0%nat). discriminate.
  - specialize (H 0%nat). discriminate.
  - pose proof (H 0%nat) as H0. cbn in H0. inversion H0; subst. f_equal. apply IH. intros j. exact (H (S j)).
Qed.

Lemma nth_error_mid' {X} (a : list X) x b : nth_error (a ++ x :: b) (length a) = Some x.
Proof. rewrite nth_error_app2 by lia. rewrite Nat.sub_diag. reflexivity. Qed.

Section HeapBack.
Context {A : Type} {SA : Scalar A}.
Notation T := (tensor A).
Notation heap := (@heap A).
Notation rule := (@rule A).
Notation node := (@node A).
Notation dval := (@dval A).
Notation denv := (@denv A).
Notation doutcome := (@DataIR.doutcome A (@Grad.heap A)).
Variable fapp : string -> list A -> option A.
Variable rd : bred.
Notation idseal := (fun (_ : option nat) (g : T) => g).

(* ------------------------------------------------------------------------------------ *)
(* 1. the embedding of gradient values can be decoded                                    *)
(* ------------------------------------------------------------------------------------ *)

Lemma unemb_emb (x : nd A) : unemb (emb x) = Some x.
Proof.
  induction x as [a|l IH] using nd_ind'; [reflexivity|].
  cbn [emb unemb].
  assert (E : (fix go (l0 : list dval) : option (list (nd A)) :=
                 match l0 with
                 | [] => Some []
                 | x :: r => match unemb x, go r with Some y, Some ys => Some (y :: ys) | _, _ => None end
                 end)
              ((fix go (l0 : list (nd A)) : list dval := match l0 with [] => [] | y :: r => emb y :: go r end) l)
              = Some l).
  { induction IH as [|y r Hy _ IHr]; [reflexivity|]. rewrite Hy, IHr. reflexivity. }
  rewrite E. reflexivity.
Qed.

Lemma unnats_nats (l : list nat) : unnats (map (fun n => @DI A (Z.of_nat n)) l) = Some l.
Proof.
  induction l as [|n l IH]; cbn [map unnats]; [reflexivity|].
  destruct (0 <=? Z.of_nat n) eqn:E; [|apply Z.leb_gt in E; lia].
  rewrite IH, Nat2Z.id. reflexivity.
Qed.

Lemma unembT_embT (t : T) : unembT (embT t) = Some t.
Proof.
  unfold embT, unembT, dnats. rewrite unnats_nats, unemb_emb. destruct t; reflexivity.
Qed.

Lemma embT_not_nil (t : T) : embT t <> DNil.
Proof. unfold embT. discriminate. Qed.

(* ------------------------------------------------------------------------------------ *)
(* 2. the oracle entries used by backward                                                *)
(* ------------------------------------------------------------------------------------ *)

Lemma nodeId_nat (h : heap) (n : nat) : (n < length h)%nat -> nodeId h (DI (Z.of_nat n)) = Some n.
Proof.
  intros H. unfold nodeId. rewrite Nat2Z.id.
  destruct (0 <=? Z.of_nat n) eqn:E; [|apply Z.leb_gt in E; lia].
  apply Nat.ltb_lt in H. rewrite H. reflexivity.
Qed.

Lemma hext_noteRule (h : heap) : hext rd "noteRule" [] h = Some ([], h).
Proof. reflexivity. Qed.

Lemma hext_gradContextOf (h : heap) n : (n < length h)%nat ->
  hext rd "gradContextOf" [DI (Z.of_nat n)] h = Some ([DI (Z.of_nat n)], h).
Proof.
  intros H. change (hext rd "gradContextOf" [DI (Z.of_nat n)] h)
    with (do m <- nodeId h (DI (Z.of_nat n)); Some ([@DI A (Z.of_nat m)], h)).
  rewrite nodeId_nat by exact H. reflexivity.
Qed.

Lemma hext_get_tracked (h : heap) n : (n < length h)%nat ->
  hext rd "get.tracked" [DI (Z.of_nat n)] h = Some ([DB (trackedOf h n)], h).
Proof.
  intros H. change (hext rd "get.tracked" [DI (Z.of_nat n)] h)
    with (do m <- nodeId h (DI (Z.of_nat n)); Some ([@DB A (trackedOf h m)], h)).
  rewrite nodeId_nat by exact H. reflexivity.
Qed.

Lemma hext_get_backEdges (h : heap) n : (n < length h)%nat ->
  hext rd "get.backEdges" [DI (Z.of_nat n)] h = Some ([encEdges n (edgesOf h n)], h).
Proof.
  intros H. change (hext rd "get.backEdges" [DI (Z.of_nat n)] h)
    with (do m <- nodeId h (DI (Z.of_nat n)); Some ([encEdges m (edgesOf h m)], h)).
  rewrite nodeId_nat by exact H. reflexivity.
Qed.

Lemma hext_topologicalOrder (h : heap) n : (n < length h)%nat ->
  hext rd "topologicalOrder" [DI (Z.of_nat n)] h =
  Some ([DL (map (fun i => DI (Z.of_nat i)) (topoOrder h n))], markDirty h (topoOrder h n)).
Proof.
  intros H. change (hext rd "topologicalOrder" [DI (Z.of_nat n)] h)
    with (do m <- nodeId h (DI (Z.of_nat n));
          Some ([@DL A (map (fun i => DI (Z.of_nat i)) (topoOrder h m))], markDirty h (topoOrder h m))).
  rewrite nodeId_nat by exact H. reflexivity.
Qed.

(* the seed edge *)
Lemma hext_gradFn_seed (h : heap) tv n k : (n < length h)%nat -> k < 0 ->
  hext rd "gradFn" [DL [tv; DI (Z.of_nat n); DI k]] h =
  do rv <- valOf h n; do r <- retT (toOnes rv); Some (r, h).
Proof.
  intros H Hk. change (hext rd "gradFn" [DL [tv; DI (Z.of_nat n); DI k]] h)
    with (do o <- nodeId h (DI (Z.of_nat n));
          if (k <? 0)%Z then do rv <- valOf h o; do r <- retT (toOnes rv); Some (r, h)
          else do e <- nth_error (edgesOf h o) (Z.to_nat k);
               do r <- retT (eval_rule rd h (snd e)); Some (r, h)).
  rewrite nodeId_nat by exact H. cbn [obind].
  apply Z.ltb_lt in Hk. rewrite Hk. reflexivity.
Qed.

(* the k-th back edge of node n *)
Lemma hext_gradFn_edge (h : heap) tv n (k : nat) e : (n < length h)%nat -> nth_error (edgesOf h n) k = Some e ->
  hext rd "gradFn" [DL [tv; DI (Z.of_nat n); DI (Z.of_nat k)]] h =
  do r <- retT (eval_rule rd h (snd e)); Some (r, h).
Proof.
  intros H He. change (hext rd "gradFn" [DL [tv; DI (Z.of_nat n); DI (Z.of_nat k)]] h)
    with (do o <- nodeId h (DI (Z.of_nat n));
          if (Z.of_nat k <? 0)%Z then do rv <- valOf h o; do r <- retT (toOnes rv); Some (r, h)
          else do e <- nth_error (edgesOf h o) (Z.to_nat (Z.of_nat k));
               do r <- retT (eval_rule rd h (snd e)); Some (r, h)).
  rewrite nodeId_nat by exact H. cbn [obind].
  destruct (Z.of_nat k <? 0) eqn:E; [apply Z.ltb_lt in E; lia|].
  rewrite Nat2Z.id, He. reflexivity.
Qed.

Lemma hext_accumulateGrad (h : heap) n (gr : T) : (n < length h)%nat ->
  hext rd "accumulateGrad" [DI (Z.of_nat n); embT gr] h =
  match accumulate h n gr with
  | (h', Ok _) => Some ([DI 0], h')
  | (h', Err) => Some ([DI 1], setGrad h n None)
  | (_, Panic) => None
  end.
Proof.
  intros H. change (hext rd "accumulateGrad" [DI (Z.of_nat n); embT gr] h)
    with (do m <- nodeId h (DI (Z.of_nat n)); do g <- unembT (embT gr);
          match accumulate h m g with
          | (h', Ok _) => Some ([@DI A 0], h')
          | (h', Err) => Some ([DI 1], setGrad h m None)
          | (_, Panic) => None
          end).
  rewrite nodeId_nat by exact H. rewrite unembT_embT. reflexivity.
Qed.

(* ------------------------------------------------------------------------------------ *)
(* 3. model-side facts                                                                   *)
(* ------------------------------------------------------------------------------------ *)

(* storing the gradient a node already has changes nothing *)
Lemma setGrad_same (h : heap) c n g : nth_error h c = Some n -> ngrad n = Some g -> setGrad h c (Some g) = h.
Proof.
  intros Hn Hg. apply nth_error_ext_eq'. intros j. rewrite nth_error_setGrad.
  destruct (nth_error h j) as [m|] eqn:Ej; [|reflexivity].
  destruct (j =? c)%nat eqn:E; [|reflexivity]. apply Nat.eqb_eq in E. subst j.
  rewrite Hn in Ej. inversion Ej; subst m. rewrite <- Hg. destruct n; reflexivity.
Qed.

Lemma accumulate_sameS (h : heap) i g : sameS h (fst (accumulate h i g)).
Proof.
  unfold accumulate. destruct (gradOf h i) as [g0|]; cbn [fst]; [|apply sameS_setGrad].
  destruct (v_arith BiAdd g0 g); cbn [fst]; [apply sameS_setGrad|apply sameS_refl|apply sameS_refl].
Qed.

Lemma process_edge_sameS c (h : heap) e : sameS h (fst (process_edge rd c (h, Ok tt) e)).
Proof.
  cbn [process_edge]. destruct (trackedOf h (fst e)); [|apply sameS_refl].
  destruct (eval_rule rd h (snd e)); [apply accumulate_sameS|apply sameS_refl|apply sameS_refl].
Qed.

(* the heap the Go code leaves behind when it returns an error: the model's, except that a failed Add has stored
   its nil result as the gradient of the target *)
Definition errHeap (hm hg : heap) : Prop := hg = hm \/ exists t, hg = setGrad hm t None.

End HeapBack.
