(* HeapBcastP.v — the Broadcast back-edge closure (GoGrad.r_Broadcast_closure) and the Concat constructor
   (GoGrad.c_Concat) of tensor/internal/gradtrack/gradients.go, run through the heap oracle (Model/HeapExt.v),
   are the model's [bcastBack RedAvg] / [eval_rule RedAvg h (RBroadcast y x)] and [mkCtx .. (concatEdges ..)]. *)
From Coq Require Import String List ZArith Bool Lia Arith.
From Qeep Require Import Model.Scalar Model.Nd Model.Fill Model.Data Model.Valid Model.Api Model.Grad Model.Backprop
     Model.DataIR Model.HeapExt Model.GoGrad Proofs.NdP Proofs.DataIRP.
From Qeep Require Model.GoIR.
Import ListNotations.
Local Open Scope string_scope.
Local Open Scope Z_scope.
Local Open Scope list_scope.

Section HeapBcast.
Context {A : Type} {SA : Scalar A}.
Variable fapp : string -> list A -> option A.
Notation T := (tensor A).
Notation heap := (@heap A).
Notation dval := (@dval A).
Notation denv := (@denv A).

(* ---------- decoding the embedding ---------- *)
Lemma emb_Vec (l : list (nd A)) : emb (Vec l) = DL (map emb l).
Proof. cbn [emb]. apply f_equal. induction l as [|y r IH]; cbn [map]; [reflexivity | f_equal; exact IH]. Qed.

Lemma unemb_DL (l : list dval) :
  unemb (DL l) = match mapM unemb l with Some ys => Some (Vec ys) | None => None end.
Proof.
  cbn [unemb].
  assert (E : (fix go (l : list dval) : option (list (nd A)) :=
                 match l with
                 | [] => Some []
                 | x :: r => match unemb x, go r with Some y, Some ys => Some (y :: ys) | _, _ => None end
                 end) l = mapM unemb l).
  { induction l as [|x r IH]; [reflexivity|]. cbn [mapM]. rewrite IH. destruct (unemb x); cbn [obind]; [|reflexivity].
    destruct (mapM unemb r); reflexivity. }
  rewrite E. reflexivity.
Qed.

Lemma unemb_emb (x : nd A) : unemb (emb x) = Some x.
Proof.
  induction x as [a|l IH] using nd_ind'; [reflexivity|].
  rewrite emb_Vec, unemb_DL.
  assert (E : mapM unemb (map emb l) = Some l).
  { induction IH as [|y r Hy _ IHr]; [reflexivity|]. cbn [map mapM]. rewrite Hy, IHr. reflexivity. }
  rewrite E. reflexivity.
Qed.

Lemma unnats_dnats (l : list nat) : unnats (map (fun n => @DI A (Z.of_nat n)) l) = Some l.
Proof.
  induction l as [|n l IH]; [reflexivity|]. cbn [map unnats]. rewrite IH.
  destruct (0 <=? Z.of_nat n) eqn:E; [now rewrite Nat2Z.id | apply Z.leb_gt in E; lia].
Qed.

Lemma unembT_embT (t : T) : unembT (embT t) = Some t.
Proof. destruct t as [ds d]. unfold embT, unembT, dnats. cbn [dims data]. now rewrite unnats_dnats, unemb_emb. Qed.

Lemma nodeId_nat (h : heap) (n : nat) : (n < length h)%nat -> nodeId h (DI (Z.of_nat n)) = Some n.
Proof.
  intros H. unfold nodeId. rewrite Nat2Z.id.
  destruct (0 <=? Z.of_nat n) eqn:E; [|apply Z.leb_gt in E; lia].
  apply Nat.ltb_lt in H. rewrite H. reflexivity.
Qed.

(* ---------- the oracle on the calls of these two programs ---------- *)
Variable rd : bred.

Lemma hext_Gradient (h : heap) n : (n < length h)%nat ->
  hext rd "Gradient" [DI (Z.of_nat n)] h = Some ([match gradOf h n with Some g => embT g | None => DNil end], h).
Proof. intros H. unfold hext. cbn [String.eqb Ascii.eqb Bool.eqb]. rewrite (nodeId_nat h n H). reflexivity. Qed.

Lemma hext_Shape (h : heap) n (v : T) : (n < length h)%nat -> valOf h n = Some v ->
  hext rd "Shape" [DI (Z.of_nat n)] h = Some ([dnats (dims v)], h).
Proof. intros H Hv. unfold hext. cbn [String.eqb Ascii.eqb Bool.eqb]. rewrite (nodeId_nat h n H). cbn [obind]. rewrite Hv. reflexivity. Qed.

Lemma hext_AvgAlong (h : heap) (g : T) (d : Z) :
  hext rd "AvgAlong" [embT g; DI d] h = do r <- retT (v_reduceAlong RdAvg g d); Some (r, h).
Proof. unfold hext. cbn [String.eqb Ascii.eqb Bool.eqb]. rewrite unembT_embT. reflexivity. Qed.

Lemma hext_UnSqueeze (h : heap) (g : T) (d : Z) :
  hext rd "UnSqueeze" [embT g; DI d] h = do r <- retT (v_unsqueeze g d); Some (r, h).
Proof. unfold hext. cbn [String.eqb Ascii.eqb Bool.eqb]. rewrite unembT_embT. reflexivity. Qed.

(* ================= (1) the Broadcast back-edge closure ================= *)

(* the variables of the closure body while the first / the second loop runs *)
Definition bcEnv (x y : nat) (sd dd : list nat) (e : Z) (gyv : dval) (i : Z) : denv :=
  [("x", DI (Z.of_nat x)); ("y", DI (Z.of_nat y)); ("o", DNil); ("err", DI e); ("gy", gyv);
   ("srcDims", DL (map (fun n => DI (Z.of_nat n)) sd)); ("dstDims", DL (map (fun n => DI (Z.of_nat n)) dd));
   ("lds", DI (Z.of_nat (length sd))); ("ldd", DI (Z.of_nat (length dd))); ("i", DI i)].
Definition bcEnv2 (x y : nat) (sd dd : list nat) (e : Z) (gyv : dval) (i j : Z) : denv :=
  [("x", DI (Z.of_nat x)); ("y", DI (Z.of_nat y)); ("o", DNil); ("err", DI e); ("gy", gyv);
   ("srcDims", DL (map (fun n => DI (Z.of_nat n)) sd)); ("dstDims", DL (map (fun n => DI (Z.of_nat n)) dd));
   ("lds", DI (Z.of_nat (length sd))); ("ldd", DI (Z.of_nat (length dd))); ("i", DI i); ("j", DI j)].

Notation outc := (@doutcome A heap).

(* first loop: [for ldd-i > lds { gy, err = gy.AvgAlong(0); ...; i++ }] = bcLead RedAvg *)
Lemma bc_loop1 (cond : denv -> denv -> option dval) (body post : heap -> denv -> denv -> outc)
      (h : heap) (x y : nat) (sd dd : list nat) :
  (forall e gyv i, cond (bcEnv x y sd dd e gyv i) [] = Some (DB (Z.of_nat (length dd) - i >? Z.of_nat (length sd)))) ->
  (forall gy i,
     match redAlong RedAvg gy 0 with
     | Ok g' => body h (bcEnv x y sd dd 0 (embT gy) i) [] = DNormal heap h (bcEnv x y sd dd 0 (embT g') (i + 1)) []
     | Err => exists g l, body h (bcEnv x y sd dd 0 (embT gy) i) [] = DRet heap [DNil; DI 1] h g l
     | Panic => body h (bcEnv x y sd dd 0 (embT gy) i) [] = DPanic heap
     end) ->
  (forall s g l, post s g l = DNormal heap s g l) ->
  forall (n i : nat) (gy : T) (fuel : nat),
  (i + n = length dd - length sd)%nat -> (n < fuel)%nat ->
  match bcLead RedAvg n gy with
  | Ok g' => dforLoop heap fuel cond body post h (bcEnv x y sd dd 0 (embT gy) (Z.of_nat i)) [] =
             DNormal heap h (bcEnv x y sd dd 0 (embT g') (Z.of_nat (length dd - length sd))) []
  | Err => exists g l, dforLoop heap fuel cond body post h (bcEnv x y sd dd 0 (embT gy) (Z.of_nat i)) [] =
                       DRet heap [DNil; DI 1] h g l
  | Panic => dforLoop heap fuel cond body post h (bcEnv x y sd dd 0 (embT gy) (Z.of_nat i)) [] = DPanic heap
  end.
Proof.
  intros Hc Hb Hp. induction n as [|n IH]; intros i gy fuel Hi Hf.
  - destruct fuel as [|fuel]; [lia|]. cbn [bcLead dforLoop]. rewrite Hc.
    replace (Z.of_nat (length dd) - Z.of_nat i >? Z.of_nat (length sd)) with false.
    2:{ symmetry. rewrite Z.gtb_ltb. apply Z.ltb_ge. lia. }
    replace (length dd - length sd)%nat with i by lia. reflexivity.
  - destruct fuel as [|fuel]; [lia|]. cbn [bcLead dforLoop]. rewrite Hc.
    replace (Z.of_nat (length dd) - Z.of_nat i >? Z.of_nat (length sd)) with true.
    2:{ symmetry. rewrite Z.gtb_ltb. apply Z.ltb_lt. lia. }
    pose proof (Hb gy (Z.of_nat i)) as Hb1.
    destruct (redAlong RedAvg gy 0) as [g1| |]; cbn [res_bind].
    + rewrite Hb1, Hp. replace (Z.of_nat i + 1) with (Z.of_nat (S i)) by lia.
      apply IH; lia.
    + destruct Hb1 as [g [l Hb1]]. rewrite Hb1. eauto.
    + rewrite Hb1. reflexivity.
Qed.

Lemma skipn_cons_nth {X} (m : list X) : forall k v r, skipn k m = v :: r -> nth_error m k = Some v /\ skipn (S k) m = r.
Proof.
  induction m as [|a m IH]; intros [|k] v r H; cbn in H; try discriminate.
  - inversion H; subst. split; reflexivity.
  - apply IH in H. exact H.
Qed.

Lemma nth_error_dnats (l : list nat) k : nth_error (map (fun n => @DI A (Z.of_nat n)) l) k = option_map (fun n => DI (Z.of_nat n)) (nth_error l k).
Proof. revert k; induction l as [|a l IH]; intros [|k]; cbn; auto. Qed.

(* second loop: [for i < ldd { if srcDims[j] != dstDims[i] { AvgAlong(j); UnSqueeze(j) }; j++; i++ }] = bcDims RedAvg *)
Lemma bc_loop2 (cond : denv -> denv -> option dval) (body post : heap -> denv -> denv -> outc)
      (h : heap) (x y : nat) (sd dd : list nat) :
  (forall e gyv i j, cond (bcEnv2 x y sd dd e gyv i j) [] = Some (DB (i <? Z.of_nat (length dd)))) ->
  (forall gy (i j s d : nat), nth_error sd j = Some s -> nth_error dd i = Some d ->
     match (if (s =? d)%nat then Ok gy else dor g1 <- redAlong RedAvg gy (Z.of_nat j); v_unsqueeze g1 (Z.of_nat j)) with
     | Ok g' => body h (bcEnv2 x y sd dd 0 (embT gy) (Z.of_nat i) (Z.of_nat j)) [] =
                DNormal heap h (bcEnv2 x y sd dd 0 (embT g') (Z.of_nat i + 1) (Z.of_nat j + 1)) []
     | Err => exists g l, body h (bcEnv2 x y sd dd 0 (embT gy) (Z.of_nat i) (Z.of_nat j)) [] = DRet heap [DNil; DI 1] h g l
     | Panic => body h (bcEnv2 x y sd dd 0 (embT gy) (Z.of_nat i) (Z.of_nat j)) [] = DPanic heap
     end) ->
  (forall s g l, post s g l = DNormal heap s g l) ->
  forall (dst' src' : list nat) (i j : nat) (gy : T) (fuel : nat),
  skipn j sd = src' -> skipn i dd = dst' -> (length dst' <= length src')%nat -> (length dst' < fuel)%nat ->
  match bcDims RedAvg j src' dst' gy with
  | Ok g' => exists g1, dforLoop heap fuel cond body post h (bcEnv2 x y sd dd 0 (embT gy) (Z.of_nat i) (Z.of_nat j)) [] =
                        DNormal heap h g1 [] /\ vlookup g1 [] "gy" = Some (embT g')
  | Err => exists g l, dforLoop heap fuel cond body post h (bcEnv2 x y sd dd 0 (embT gy) (Z.of_nat i) (Z.of_nat j)) [] =
                       DRet heap [DNil; DI 1] h g l
  | Panic => dforLoop heap fuel cond body post h (bcEnv2 x y sd dd 0 (embT gy) (Z.of_nat i) (Z.of_nat j)) [] = DPanic heap
  end.
Proof.
  intros Hc Hb Hp. induction dst' as [|d dst' IH]; intros src' i j gy fuel Hs Hd Hlen Hf.
  - destruct fuel as [|fuel]; [cbn in Hf; lia|]. cbn [dforLoop]. rewrite Hc.
    assert (Hi : (length dd <= i)%nat).
    { pose proof (skipn_length i dd) as E. rewrite Hd in E. cbn in E. lia. }
    replace (Z.of_nat i <? Z.of_nat (length dd)) with false by (symmetry; apply Z.ltb_ge; lia).
    replace (bcDims RedAvg j src' [] gy) with (Ok gy) by (destruct src'; reflexivity).
    eexists. split; [reflexivity|]. reflexivity.
  - destruct src' as [|s src']; [cbn in Hlen; lia|].
    destruct fuel as [|fuel]; [lia|]. cbn [dforLoop]. rewrite Hc.
    apply skipn_cons_nth in Hs. destruct Hs as [Hns Hs].
    apply skipn_cons_nth in Hd. destruct Hd as [Hnd Hd].
    assert (Hi : (i < length dd)%nat) by (apply nth_error_Some; congruence).
    replace (Z.of_nat i <? Z.of_nat (length dd)) with true by (symmetry; apply Z.ltb_lt; lia).
    cbn [bcDims].
    pose proof (Hb gy i j s d Hns Hnd) as Hb1.
    destruct (if (s =? d)%nat then Ok gy else dor g1 <- redAlong RedAvg gy (Z.of_nat j); v_unsqueeze g1 (Z.of_nat j))
      as [g1| |]; cbn [res_bind].
    + rewrite Hb1, Hp.
      replace (Z.of_nat i + 1) with (Z.of_nat (S i)) by lia. replace (Z.of_nat j + 1) with (Z.of_nat (S j)) by lia.
      apply IH; auto; cbn in Hlen, Hf; lia.
    + destruct Hb1 as [g [l Hb1]]. rewrite Hb1. eauto.
    + rewrite Hb1. reflexivity.
Qed.

Theorem test (h : heap) (x y : nat) (xv yv gy : T) fuel depth :
  (x < length h)%nat -> (y < length h)%nat -> valOf h x = Some xv -> valOf h y = Some yv -> gradOf h y = Some gy ->
  (length (dims yv) + 1 < fuel)%nat ->
  drun fapp heap (hext rd) r_Broadcast_closure fuel depth [DI (Z.of_nat x); DI (Z.of_nat y)] h = DPanic _.
Proof.
  intros Hx Hy Hxv Hyv Hgy Hfuel.
  unfold drun, r_Broadcast_closure. cbn [pmain dbody plocals dparams dbind]. dxs.
  rewrite (hext_Gradient h y Hy), Hgy. dxs.
  rewrite (hext_Shape h x xv Hx Hxv). dxs.
  rewrite (hext_Shape h y yv Hy Hyv). dxs.
  unfold dnats. dxs. rewrite !dlen_map. dxs.
  Show.
Abort.

End HeapBcast.
