(* HeapBcastP.v — the Broadcast back-edge closure (GoGrad.r_Broadcast_closure) and the Concat constructor
   (GoGrad.c_Concat) of tensor/internal/gradtrack/gradients.go, run through the heap oracle (Model/HeapExt.v),
   are the model's [bcastBack RedAvg] / [eval_rule RedAvg h (RBroadcast y x)] and [mkCtx .. (concatEdges ..)]. *)
From Coq Require Import String List ZArith Bool Lia Arith.
From Qeep Require Import Model.Scalar Model.Nd Model.Fill Model.Data Model.Valid Model.Api Model.Grad Model.Backprop
     Model.DataIR Model.HeapExt Model.GoGrad Proofs.NdP Proofs.DataIRP.
From Qeep Require Model.GoIR.
Import ListNotations.
Local Open Scope string_scope.
Local Open Scope Z_scope.
Local Open Scope list_scope.

Section HeapBcast.
Context {A : Type} {SA : Scalar A}.
Variable fapp : string -> list A -> option A.
Notation T := (tensor A).
Notation heap := (@heap A).
Notation dval := (@dval A).
Notation denv := (@denv A).

(* ---------- decoding the embedding ---------- *)
Lemma emb_Vec (l : list (nd A)) : emb (Vec l) = DL (map emb l).
Proof. cbn [emb]. apply f_equal. induction l as [|y r IH]; cbn [map]; [reflexivity | f_equal; exact IH]. Qed.

Lemma unemb_DL (l : list dval) :
  unemb (DL l) = match mapM unemb l with Some ys => Some (Vec ys) | None => None end.
Proof.
  cbn [unemb].
  assert (E : (fix go (l : list dval) : option (list (nd A)) :=
                 match l with
                 | [] => Some []
                 | x :: r => match unemb x, go r with Some y, Some ys => Some (y :: ys) | _, _ => None end
                 end) l = mapM unemb l).
  { induction l as [|x r IH]; [reflexivity|]. cbn [mapM]. rewrite IH. destruct (unemb x); cbn [obind]; [|reflexivity].
    destruct (mapM unemb r); reflexivity. }
  rewrite E. reflexivity.
Qed.

Lemma unemb_emb (x : nd A) : unemb (emb x) = Some x.
Proof.
  induction x as [a|l IH] using nd_ind'; [reflexivity|].
  rewrite emb_Vec, unemb_DL.
  assert (E : mapM unemb (map emb l) = Some l).
  { induction IH as [|y r Hy _ IHr]; [reflexivity|]. cbn [map mapM]. rewrite Hy, IHr. reflexivity. }
  rewrite E. reflexivity.
Qed.

Lemma unnats_dnats (l : list nat) : unnats (map (fun n => @DI A (Z.of_nat n)) l) = Some l.
Proof.
  induction l as [|n l IH]; [reflexivity|]. cbn [map unnats]. rewrite IH.
  destruct (0 <=? Z.of_nat n) eqn:E; [now rewrite Nat2Z.id | apply Z.leb_gt in E; lia].
Qed.

Lemma unembT_embT (t : T) : unembT (embT t) = Some t.
Proof. destruct t as [ds d]. unfold embT, unembT, dnats. cbn [dims data]. now rewrite unnats_dnats, unemb_emb. Qed.

Lemma nodeId_nat (h : heap) (n : nat) : (n < length h)%nat -> nodeId h (DI (Z.of_nat n)) = Some n.
Proof.
  intros H. unfold nodeId. rewrite Nat2Z.id.
  destruct (0 <=? Z.of_nat n) eqn:E; [|apply Z.leb_gt in E; lia].
  apply Nat.ltb_lt in H. rewrite H. reflexivity.
Qed.

(* ---------- the oracle on the calls of these two programs ---------- *)
Variable rd : bred.

Lemma hext_Gradient (h : heap) n : (n < length h)%nat ->
  hext rd "Gradient" [DI (Z.of_nat n)] h = Some ([match gradOf h n with Some g => embT g | None => DNil end], h).
Proof. intros H. unfold hext. cbn [String.eqb Ascii.eqb Bool.eqb]. rewrite (nodeId_nat h n H). reflexivity. Qed.

Lemma hext_Shape (h : heap) n (v : T) : (n < length h)%nat -> valOf h n = Some v ->
  hext rd "Shape" [DI (Z.of_nat n)] h = Some ([dnats (dims v)], h).
Proof. intros H Hv. unfold hext. cbn [String.eqb Ascii.eqb Bool.eqb]. rewrite (nodeId_nat h n H). cbn [obind]. rewrite Hv. reflexivity. Qed.

Lemma hext_AvgAlong (h : heap) (g : T) (d : Z) :
  hext rd "AvgAlong" [embT g; DI d] h = do r <- retT (v_reduceAlong RdAvg g d); Some (r, h).
Proof. unfold hext. cbn [String.eqb Ascii.eqb Bool.eqb]. rewrite unembT_embT. reflexivity. Qed.

Lemma hext_UnSqueeze (h : heap) (g : T) (d : Z) :
  hext rd "UnSqueeze" [embT g; DI d] h = do r <- retT (v_unsqueeze g d); Some (r, h).
Proof. unfold hext. cbn [String.eqb Ascii.eqb Bool.eqb]. rewrite unembT_embT. reflexivity. Qed.

(* ================= (1) the Broadcast back-edge closure ================= *)

(* the variables of the closure body while the first / the second loop runs *)
Definition bcEnv (x y : nat) (sd dd : list nat) (e : Z) (gyv : dval) (i : Z) : denv :=
  [("x", DI (Z.of_nat x)); ("y", DI (Z.of_nat y)); ("o", DNil); ("err", DI e); ("gy", gyv);
   ("srcDims", DL (map (fun n => DI (Z.of_nat n)) sd)); ("dstDims", DL (map (fun n => DI (Z.of_nat n)) dd));
   ("lds", DI (Z.of_nat (length sd))); ("ldd", DI (Z.of_nat (length dd))); ("i", DI i)].
Definition bcEnv2 (x y : nat) (sd dd : list nat) (e : Z) (gyv : dval) (i j : Z) : denv :=
  [("x", DI (Z.of_nat x)); ("y", DI (Z.of_nat y)); ("o", DNil); ("err", DI e); ("gy", gyv);
   ("srcDims", DL (map (fun n => DI (Z.of_nat n)) sd)); ("dstDims", DL (map (fun n => DI (Z.of_nat n)) dd));
   ("lds", DI (Z.of_nat (length sd))); ("ldd", DI (Z.of_nat (length dd))); ("i", DI i); ("j", DI j)].

Notation outc := (@doutcome A heap).

(* first loop: [for ldd-i > lds { gy, err = gy.AvgAlong(0); ...; i++ }] = bcLead RedAvg *)
Lemma bc_loop1 (cond : denv -> denv -> option dval) (body post : heap -> denv -> denv -> outc)
      (h : heap) (x y : nat) (sd dd : list nat) :
  (forall e gyv i, cond (bcEnv x y sd dd e gyv i) [] = Some (DB (Z.of_nat (length dd) - i >? Z.of_nat (length sd)))) ->
  (forall gy i,
     match redAlong RedAvg gy 0 with
     | Ok g' => body h (bcEnv x y sd dd 0 (embT gy) i) [] = DNormal heap h (bcEnv x y sd dd 0 (embT g') (i + 1)) []
     | Err => exists g l, body h (bcEnv x y sd dd 0 (embT gy) i) [] = DRet heap [DNil; DI 1] h g l
     | Panic => body h (bcEnv x y sd dd 0 (embT gy) i) [] = DPanic heap
     end) ->
  (forall s g l, post s g l = DNormal heap s g l) ->
  forall (n i : nat) (gy : T) (fuel : nat),
  (i + n = length dd - length sd)%nat -> (n < fuel)%nat ->
  match bcLead RedAvg n gy with
  | Ok g' => dforLoop heap fuel cond body post h (bcEnv x y sd dd 0 (embT gy) (Z.of_nat i)) [] =
             DNormal heap h (bcEnv x y sd dd 0 (embT g') (Z.of_nat (length dd - length sd))) []
  | Err => exists g l, dforLoop heap fuel cond body post h (bcEnv x y sd dd 0 (embT gy) (Z.of_nat i)) [] =
                       DRet heap [DNil; DI 1] h g l
  | Panic => dforLoop heap fuel cond body post h (bcEnv x y sd dd 0 (embT gy) (Z.of_nat i)) [] = DPanic heap
  end.
Proof.
  intros Hc Hb Hp. induction n as [|n IH]; intros i gy fuel Hi Hf.
  - destruct fuel as [|fuel]; [lia|]. cbn [bcLead dforLoop]. rewrite Hc.
    replace (Z.of_nat (length dd) - Z.of_nat i >? Z.of_nat (length sd)) with false.
    2:{ symmetry. rewrite Z.gtb_ltb. apply Z.ltb_ge. lia. }
    replace (length dd - length sd)%nat with i by lia. reflexivity.
  - destruct fuel as [|fuel]; [lia|]. cbn [bcLead dforLoop]. rewrite Hc.
    replace (Z.of_nat (length dd) - Z.of_nat i >? Z.of_nat (length sd)) with true.
    2:{ symmetry. rewrite Z.gtb_ltb. apply Z.ltb_lt. lia. }
    pose proof (Hb gy (Z.of_nat i)) as Hb1.
    destruct (redAlong RedAvg gy 0) as [g1| |]; cbn [res_bind].
    + rewrite Hb1, Hp. replace (Z.of_nat i + 1) with (Z.of_nat (S i)) by lia.
      apply IH; lia.
    + destruct Hb1 as [g [l Hb1]]. rewrite Hb1. eauto.
    + rewrite Hb1. reflexivity.
Qed.

Lemma skipn_cons_nth {X} (m : list X) : forall k v r, skipn k m = v :: r -> nth_error m k = Some v /\ skipn (S k) m = r.
Proof.
  induction m as [|a m IH]; intros [|k] v r H; cbn in H; try discriminate.
  - inversion H; subst. split; reflexivity.
  - apply IH in H. exact H.
Qed.

Lemma nth_error_dnats (l : list nat) k : nth_error (map (fun n => @DI A (Z.of_nat n)) l) k = option_map (fun n => DI (Z.of_nat n)) (nth_error l k).
Proof. revert k; induction l as [|a l IH]; intros [|k]; cbn; auto. Qed.

(* second loop: [for i < ldd { if srcDims[j] != dstDims[i] { AvgAlong(j); UnSqueeze(j) }; j++; i++ }] = bcDims RedAvg *)
Lemma bc_loop2 (cond : denv -> denv -> option dval) (body post : heap -> denv -> denv -> outc)
      (h : heap) (x y : nat) (sd dd : list nat) :
  (forall e gyv i j, cond (bcEnv2 x y sd dd e gyv i j) [] = Some (DB (i <? Z.of_nat (length dd)))) ->
  (forall gy (i j s d : nat), nth_error sd j = Some s -> nth_error dd i = Some d ->
     match (if (s =? d)%nat then Ok gy else dor g1 <- redAlong RedAvg gy (Z.of_nat j); v_unsqueeze g1 (Z.of_nat j)) with
     | Ok g' => body h (bcEnv2 x y sd dd 0 (embT gy) (Z.of_nat i) (Z.of_nat j)) [] =
                DNormal heap h (bcEnv2 x y sd dd 0 (embT g') (Z.of_nat i + 1) (Z.of_nat j + 1)) []
     | Err => exists g l, body h (bcEnv2 x y sd dd 0 (embT gy) (Z.of_nat i) (Z.of_nat j)) [] = DRet heap [DNil; DI 1] h g l
     | Panic => body h (bcEnv2 x y sd dd 0 (embT gy) (Z.of_nat i) (Z.of_nat j)) [] = DPanic heap
     end) ->
  (forall s g l, post s g l = DNormal heap s g l) ->
  forall (dst' src' : list nat) (i j : nat) (gy : T) (fuel : nat),
  skipn j sd = src' -> skipn i dd = dst' -> (length dst' <= length src')%nat -> (length dst' < fuel)%nat ->
  match bcDims RedAvg j src' dst' gy with
  | Ok g' => exists g1, dforLoop heap fuel cond body post h (bcEnv2 x y sd dd 0 (embT gy) (Z.of_nat i) (Z.of_nat j)) [] =
                        DNormal heap h g1 [] /\ vlookup g1 [] "gy" = Some (embT g')
  | Err => exists g l, dforLoop heap fuel cond body post h (bcEnv2 x y sd dd 0 (embT gy) (Z.of_nat i) (Z.of_nat j)) [] =
                       DRet heap [DNil; DI 1] h g l
  | Panic => dforLoop heap fuel cond body post h (bcEnv2 x y sd dd 0 (embT gy) (Z.of_nat i) (Z.of_nat j)) [] = DPanic heap
  end.
Proof.
  intros Hc Hb Hp. induction dst' as [|d dst' IH]; intros src' i j gy fuel Hs Hd Hlen Hf.
  - destruct fuel as [|fuel]; [cbn in Hf; lia|]. cbn [dforLoop]. rewrite Hc.
    assert (Hi : (length dd <= i)%nat).
    { pose proof (skipn_length i dd) as E. rewrite Hd in E. cbn in E. lia. }
    replace (Z.of_nat i <? Z.of_nat (length dd)) with false by (symmetry; apply Z.ltb_ge; lia).
    replace (bcDims RedAvg j src' [] gy) with (Ok gy) by (destruct src'; reflexivity).
    eexists. split; [reflexivity|]. reflexivity.
  - destruct src' as [|s src']; [cbn in Hlen; lia|].
    destruct fuel as [|fuel]; [lia|]. cbn [dforLoop]. rewrite Hc.
    apply skipn_cons_nth in Hs. destruct Hs as [Hns Hs].
    apply skipn_cons_nth in Hd. destruct Hd as [Hnd Hd].
    assert (Hi : (i < length dd)%nat) by (apply nth_error_Some; congruence).
    replace (Z.of_nat i <? Z.of_nat (length dd)) with true by (symmetry; apply Z.ltb_lt; lia).
    cbn [bcDims].
    pose proof (Hb gy i j s d Hns Hnd) as Hb1.
    destruct (if (s =? d)%nat then Ok gy else dor g1 <- redAlong RedAvg gy (Z.of_nat j); v_unsqueeze g1 (Z.of_nat j))
      as [g1| |]; cbn [res_bind].
    + rewrite Hb1, Hp.
      replace (Z.of_nat i + 1) with (Z.of_nat (S i)) by lia. replace (Z.of_nat j + 1) with (Z.of_nat (S j)) by lia.
      apply IH; auto; cbn in Hlen, Hf; lia.
    + destruct Hb1 as [g [l Hb1]]. rewrite Hb1. eauto.
    + rewrite Hb1. reflexivity.
Qed.

Ltac zsimp := cbn [Z.eqb Pos.eqb negb].

Theorem heap_r_Broadcast (h : heap) (x y : nat) (xv yv gy : T) fuel depth :
  (x < length h)%nat -> (y < length h)%nat -> valOf h x = Some xv -> valOf h y = Some yv -> gradOf h y = Some gy ->
  (length (dims yv) + 1 < fuel)%nat ->
  match bcastBack RedAvg gy (dims xv) (dims yv) with
  | Ok r => exists g l, drun fapp heap (hext rd) r_Broadcast_closure fuel depth [DI (Z.of_nat x); DI (Z.of_nat y)] h =
                        DRet heap [embT r; DI 0] h g l
  | Err => exists g l, drun fapp heap (hext rd) r_Broadcast_closure fuel depth [DI (Z.of_nat x); DI (Z.of_nat y)] h =
                       DRet heap [DNil; DI 1] h g l
  | Panic => drun fapp heap (hext rd) r_Broadcast_closure fuel depth [DI (Z.of_nat x); DI (Z.of_nat y)] h = DPanic heap
  end.
Proof.
  intros Hx Hy Hxv Hyv Hgy Hfuel.
  unfold drun, r_Broadcast_closure. cbn [pmain dbody plocals dparams dbind]. dxs.
  rewrite (hext_Gradient h y Hy), Hgy. dxs.
  rewrite (hext_Shape h x xv Hx Hxv). dxs.
  rewrite (hext_Shape h y yv Hy Hyv). dxs.
  unfold dnats. dxs. rewrite !dlen_map. dxs.
  set (sd := dims xv) in *. set (dd := dims yv) in *.
  (* ---- first loop ---- *)
  match goal with |- context [dforLoop heap fuel ?c ?b ?p h ?g0 []] =>
    pose proof (bc_loop1 c b p h x y sd dd) as HL1; change g0 with (bcEnv x y sd dd 0 (embT gy) (Z.of_nat 0))
  end.
  match type of HL1 with ?P -> _ => assert (H1 : P) end.
  { intros e gyv i. unfold bcEnv. cbn [vlookup dlookup String.eqb Ascii.eqb Bool.eqb devalBin]. reflexivity. }
  specialize (HL1 H1); clear H1.
  match type of HL1 with ?P -> _ => assert (H1 : P) end.
  { intros g0 i. unfold bcEnv. dxs. rewrite hext_AvgAlong. unfold redAlong.
    destruct (v_reduceAlong RdAvg g0 0) as [g1| |]; cbn [retT obind]; dxs; zsimp; dxs.
    - reflexivity.
    - eauto.
    - reflexivity. }
  specialize (HL1 H1); clear H1.
  match type of HL1 with ?P -> _ => assert (H1 : P) end.
  { intros s g l. dxs. reflexivity. }
  specialize (HL1 H1 (length dd - length sd)%nat 0%nat gy fuel); clear H1.
  unfold bcastBack.
  assert (Hlead : (length dd - length sd <= length dd)%nat) by lia.
  specialize (HL1 eq_refl ltac:(lia)).
  destruct (bcLead RedAvg (length dd - length sd) gy) as [g1| |]; cbn [res_bind].
  2:{ destruct HL1 as [g [l HL1]]. rewrite HL1. eauto. }
  2:{ rewrite HL1. reflexivity. }
  rewrite HL1. clear HL1. unfold bcEnv. dxs.
  (* ---- second loop ---- *)
  match goal with |- context [dforLoop heap fuel ?c ?b ?p h ?g0 []] =>
    pose proof (bc_loop2 c b p h x y sd dd) as HL2;
    change g0 with (bcEnv2 x y sd dd 0 (embT g1) (Z.of_nat (length dd - length sd)) (Z.of_nat 0))
  end.
  match type of HL2 with ?P -> _ => assert (H1 : P) end.
  { intros e gyv i j. unfold bcEnv2. cbn [vlookup dlookup String.eqb Ascii.eqb Bool.eqb devalBin]. reflexivity. }
  specialize (HL2 H1); clear H1.
  match type of HL2 with ?P -> _ => assert (H1 : P) end.
  { intros g0 i j s d Hs Hd. unfold bcEnv2. dxs.
    rewrite !didx_nat, !nth_error_dnats, Hs, Hd. cbn [option_map]. dxs.
    replace (Z.of_nat s =? Z.of_nat d) with (s =? d)%nat.
    2:{ destruct (Nat.eqb_spec s d) as [E|E]; symmetry; [apply Z.eqb_eq | apply Z.eqb_neq]; lia. }
    destruct (s =? d)%nat; cbn [negb]; dxs.
    - reflexivity.
    - rewrite hext_AvgAlong. unfold redAlong.
      destruct (v_reduceAlong RdAvg g0 (Z.of_nat j)) as [g2| |]; cbn [retT obind res_bind]; dxs; zsimp; dxs.
      + rewrite hext_UnSqueeze.
        destruct (v_unsqueeze g2 (Z.of_nat j)) as [g3| |]; cbn [retT obind res_bind]; dxs; zsimp; dxs.
        * reflexivity.
        * eauto.
        * reflexivity.
      + eauto.
      + reflexivity. }
  specialize (HL2 H1); clear H1.
  match type of HL2 with ?P -> _ => assert (H1 : P) end.
  { intros s g l. dxs. reflexivity. }
  specialize (HL2 H1 (skipn (length dd - length sd) dd) sd (length dd - length sd)%nat 0%nat g1 fuel eq_refl eq_refl); clear H1.
  rewrite skipn_length in HL2.
  specialize (HL2 ltac:(lia) ltac:(lia)).
  destruct (bcDims RedAvg 0 sd (skipn (length dd - length sd) dd) g1) as [g2| |].
  - destruct HL2 as [gE [HL2 Hg]]. rewrite HL2. dxs.
    unfold vlookup in Hg. cbn [dlookup] in Hg. rewrite Hg. eauto.
  - destruct HL2 as [g [l HL2]]. rewrite HL2. eauto.
  - rewrite HL2. reflexivity.
Qed.

(* under the hypotheses of the theorem the model's rule of the Broadcast edge IS that value *)
Lemma eval_rule_RBroadcast (rd' : bred) (h : heap) (x y : nat) (xv yv gy : T) :
  valOf h x = Some xv -> valOf h y = Some yv -> gradOf h y = Some gy ->
  eval_rule rd' h (RBroadcast y x) = bcastBack rd' gy (dims xv) (dims yv).
Proof. intros Hxv Hyv Hgy. cbn [eval_rule]. unfold gy_of, val_of. rewrite Hgy, Hxv, Hyv. reflexivity. Qed.

(* the closure body returns exactly what the oracle's ["gradFn"] hands out for the rule [RBroadcast y x] evaluated with
   the AVERAGING reduction (known finding D2): [retT (eval_rule RedAvg h (RBroadcast y x))] *)
Corollary heap_r_Broadcast_eval_rule (h : heap) (x y : nat) (xv yv gy : T) fuel depth :
  (x < length h)%nat -> (y < length h)%nat -> valOf h x = Some xv -> valOf h y = Some yv -> gradOf h y = Some gy ->
  (length (dims yv) + 1 < fuel)%nat ->
  match retT (eval_rule RedAvg h (RBroadcast y x)) with
  | Some vs => exists g l, drun fapp heap (hext rd) r_Broadcast_closure fuel depth [DI (Z.of_nat x); DI (Z.of_nat y)] h =
                           DRet heap vs h g l
  | None => drun fapp heap (hext rd) r_Broadcast_closure fuel depth [DI (Z.of_nat x); DI (Z.of_nat y)] h = DPanic heap
  end.
Proof.
  intros Hx Hy Hxv Hyv Hgy Hfuel.
  rewrite (eval_rule_RBroadcast RedAvg h x y xv yv gy Hxv Hyv Hgy).
  pose proof (heap_r_Broadcast h x y xv yv gy fuel depth Hx Hy Hxv Hyv Hgy Hfuel) as H.
  destruct (bcastBack RedAvg gy (dims xv) (dims yv)); cbn [retT]; exact H.
Qed.

(* ================= (2) the Concat constructor ================= *)

Definition encRanges (idx : list zrange) : dval := DL (map (fun r : zrange => DR (fst r) (snd r)) idx).
(* an edge built by Concat: target, index of the closure in the constructor (one closure: 0), its captured [index] *)
Definition encCatEdge (e : nat * @rule A) : dval :=
  match snd e with
  | RConcat _ idx => DL [DI (Z.of_nat (fst e)); DI 0; encRanges idx]
  | _ => DNil
  end.
Definition encCatCtx (c : bool * bool * list (nat * @rule A)) : dval :=
  let '(tr, di, es) := c in DL [DB tr; DB di; DL (map encCatEdge es)].

Lemma mapM_nodeId (h : heap) (xs : list nat) :
  Forall (fun x => (x < length h)%nat) xs -> mapM (nodeId h) (map (fun n => @DI A (Z.of_nat n)) xs) = Some xs.
Proof.
  induction 1 as [|x xs Hx _ IH]; [reflexivity|]. cbn [map mapM]. rewrite (nodeId_nat h x Hx), IH. reflexivity.
Qed.

Lemma hext_anyIsBPDirty (h : heap) (xs : list nat) : Forall (fun x => (x < length h)%nat) xs ->
  hext rd "anyIsBPDirty" [DL (map (fun n => DI (Z.of_nat n)) xs)] h = Some ([DB (existsb (dirtyOf h) xs)], h).
Proof. intros H. unfold hext. cbn [String.eqb Ascii.eqb Bool.eqb]. rewrite (mapM_nodeId h xs H). reflexivity. Qed.
Lemma hext_nonIsTracked (h : heap) (xs : list nat) : Forall (fun x => (x < length h)%nat) xs ->
  hext rd "nonIsTracked" [DL (map (fun n => DI (Z.of_nat n)) xs)] h = Some ([DB (negb (existsb (trackedOf h) xs))], h).
Proof. intros H. unfold hext. cbn [String.eqb Ascii.eqb Bool.eqb]. rewrite (mapM_nodeId h xs H). reflexivity. Qed.


Definition ccEnv (y : dval) (xs : list nat) (dim : nat) (be : list dval) (base i : Z) (tail : denv) : denv :=
  ("y", y) :: ("xs", DL (map (fun n => DI (Z.of_nat n)) xs)) :: ("dim", DI (Z.of_nat dim)) :: ("gctx", DNil) ::
  ("$1", DB false) :: ("$2", DB false) :: ("backEdges", DL be) :: ("base", DI base) :: ("i", DI i) :: tail.
(* "shape" and "index" are declared inside the loop body: absent before the first iteration *)
Definition tailOK (tail : denv) : Prop := tail = [] \/ exists s ix, tail = [("shape", s); ("index", ix)].

Definition catIndex (dim : nat) (xv : T) (base : Z) : list zrange :=
  map (fun i => if (i =? dim)%nat then (base, base + Z.of_nat (nth dim (dims xv) 0%nat)) else (0, 0)) (seq 0 (length (dims xv))).

Lemma concatEdges_cons (yn dim : nat) x (xv : T) rest base :
  concatEdges yn dim ((x, xv) :: rest) base =
  (x, RConcat yn (catIndex dim xv base)) :: concatEdges yn dim rest (base + Z.of_nat (nth dim (dims xv) 0%nat)).
Proof. reflexivity. Qed.

Lemma setNthD_app (pre : list dval) a r v : setNthD (pre ++ a :: r) (length pre) v = Some (pre ++ v :: r).
Proof. induction pre as [|p pre IH]; cbn; [reflexivity|]. cbn in IH. rewrite IH. reflexivity. Qed.

Lemma map_seq_const {X} (f : nat -> X) (z : X) n : forall o, (forall i, (o <= i)%nat -> f i = z) -> map f (seq o n) = repeat z n.
Proof.
  induction n as [|n IH]; intros o H; [reflexivity|]. cbn. rewrite (H o (le_n o)). f_equal. apply IH. intros i Hi. apply H. lia.
Qed.

Lemma setNthD_repeat (z v : dval) n : forall d o, (d < n)%nat ->
  setNthD (repeat z n) d v = Some (map (fun i => if (i =? o + d)%nat then v else z) (seq o n)).
Proof.
  induction n as [|n IH]; intros d o Hd; [lia|]. destruct d as [|d]; cbn [repeat setNthD seq map].
  - rewrite Nat.add_0_r, Nat.eqb_refl. f_equal. f_equal. symmetry. apply map_seq_const.
    intros i Hi. destruct (Nat.eqb_spec i o); [lia | reflexivity].
  - rewrite (IH d (S o)) by lia. replace (o =? o + S d)%nat with false by (symmetry; apply Nat.eqb_neq; lia).
    f_equal. f_equal. apply map_ext. intros i. replace (S o + d)%nat with (o + S d)%nat by lia. reflexivity.
Qed.

Lemma setNthD_catIndex (dim : nat) (xv : T) (b : Z) : (dim < length (dims xv))%nat ->
  setNthD (repeat (@DR A 0 0) (length (dims xv))) dim (DR b (b + Z.of_nat (nth dim (dims xv) 0%nat))) =
  Some (map (fun r : zrange => DR (fst r) (snd r)) (catIndex dim xv b)).
Proof.
  intros H. rewrite (setNthD_repeat _ _ _ dim 0%nat H). unfold catIndex. rewrite map_map. f_equal. apply map_ext.
  intros i. cbn [Nat.add]. destruct (i =? dim)%nat; reflexivity.
Qed.

Lemma nth_error_catIndex (dim : nat) (xv : T) (b : Z) : (dim < length (dims xv))%nat ->
  nth_error (map (fun r : zrange => @DR A (fst r) (snd r)) (catIndex dim xv b)) dim =
  Some (DR b (b + Z.of_nat (nth dim (dims xv) 0%nat))).
Proof.
  intros H. unfold catIndex. rewrite map_map.
  rewrite (map_nth_error _ dim (seq 0 (length (dims xv))) (d := dim)).
  - rewrite Nat.eqb_refl. reflexivity.
  - rewrite nth_error_nth' with (d := 0%nat) by (rewrite seq_length; exact H). rewrite seq_nth by exact H. reflexivity.
Qed.

Lemma zle0_nat (n : nat) : (0 <=? Z.of_nat n) = true.
Proof. apply Z.leb_le. lia. Qed.

Lemma nth_error_combine {X Y} (l1 : list X) (l2 : list Y) : forall k a b,
  nth_error (combine l1 l2) k = Some (a, b) -> nth_error l1 k = Some a /\ nth_error l2 k = Some b.
Proof.
  revert l2; induction l1 as [|x l1 IH]; intros [|y l2] [|k] a b H; cbn in H; try discriminate.
  - inversion H; subst. split; reflexivity.
  - apply IH in H. exact H.
Qed.

Lemma valOf_lt (h : heap) x (v : T) : valOf h x = Some v -> (x < length h)%nat.
Proof. unfold valOf. intros H. apply nth_error_Some. destruct (nth_error h x); [discriminate | discriminate]. Qed.

Lemma mapM_valOf_lt (h : heap) xs : forall vs, mapM (valOf h) xs = Some vs -> Forall (fun x => (x < length h)%nat) xs.
Proof.
  induction xs as [|x xs IH]; intros vs H; [constructor|]. cbn [mapM] in H.
  destruct (valOf h x) as [v|] eqn:Ev; cbn [obind] in H; [|discriminate].
  destruct (mapM (valOf h) xs) as [ys|] eqn:E; cbn [obind] in H; [|discriminate].
  constructor; [eapply valOf_lt; eauto | eapply IH; eauto].
Qed.

Lemma cc_loop (cond : denv -> denv -> option dval) (body post : heap -> denv -> denv -> outc)
      (h : heap) (y : dval) (yn : nat) (xs : list nat) (vs : list T) (dim : nat) :
  (forall be b i tail, cond (ccEnv y xs dim be b i tail) [] = Some (DB (i <? dlen be))) ->
  (forall k pre m b tail xk vk, nth_error (combine xs vs) k = Some (xk, vk) -> length pre = k -> tailOK tail ->
     if (dim <? length (dims vk))%nat then
       exists tail1, tailOK tail1 /\
         body h (ccEnv y xs dim (pre ++ DNil :: repeat DNil m) b (Z.of_nat k) tail) [] =
         DNormal heap h (ccEnv y xs dim (pre ++ encCatEdge (xk, RConcat yn (catIndex dim vk b)) :: repeat DNil m)
                               (b + Z.of_nat (nth dim (dims vk) 0%nat)) (Z.of_nat k) tail1) []
     else body h (ccEnv y xs dim (pre ++ DNil :: repeat DNil m) b (Z.of_nat k) tail) [] = DPanic heap) ->
  (forall be b i tail, post h (ccEnv y xs dim be b i tail) [] = DNormal heap h (ccEnv y xs dim be b (i + 1) tail) []) ->
  forall rest k pre b tail fuel, skipn k (combine xs vs) = rest -> length pre = k -> tailOK tail -> (length rest < fuel)%nat ->
  if forallb (fun p : nat * T => (dim <? length (dims (snd p)))%nat) rest then
    exists b' tail',
      dforLoop heap fuel cond body post h (ccEnv y xs dim (pre ++ repeat DNil (length rest)) b (Z.of_nat k) tail) [] =
      DNormal heap h (ccEnv y xs dim (pre ++ map encCatEdge (concatEdges yn dim rest b)) b' (Z.of_nat (k + length rest)) tail') []
  else
    dforLoop heap fuel cond body post h (ccEnv y xs dim (pre ++ repeat DNil (length rest)) b (Z.of_nat k) tail) [] = DPanic heap.
Proof.
  intros Hc Hb Hp. induction rest as [|[xk vk] rest IH]; intros k pre b tail fuel Hs Hpre Htail Hf.
  - destruct fuel as [|fuel]; [cbn in Hf; lia|]. cbn [forallb dforLoop length repeat concatEdges map]. rewrite Hc.
    unfold dlen. rewrite app_nil_r, Hpre, Z.ltb_irrefl, Nat.add_0_r. eauto.
  - destruct fuel as [|fuel]; [lia|]. cbn [forallb dforLoop length repeat snd]. rewrite Hc.
    unfold dlen. rewrite app_length. cbn [length]. rewrite repeat_length, Hpre.
    replace (Z.of_nat k <? Z.of_nat (k + S (length rest))) with true by (symmetry; apply Z.ltb_lt; lia).
    apply skipn_cons_nth in Hs. destruct Hs as [Hn Hs].
    pose proof (Hb k pre (length rest) b tail xk vk Hn Hpre Htail) as Hb1.
    destruct (dim <? length (dims vk))%nat; cbn [andb].
    + destruct Hb1 as [tail1 [Htail1 Hb1]]. rewrite Hb1, Hp.
      replace (Z.of_nat k + 1) with (Z.of_nat (S k)) by lia.
      rewrite concatEdges_cons. cbn [map].
      set (e := encCatEdge (xk, RConcat yn (catIndex dim vk b))).
      replace (pre ++ e :: repeat DNil (length rest)) with ((pre ++ [e]) ++ repeat DNil (length rest))
        by (rewrite <- app_assoc; reflexivity).
      replace (pre ++ e :: map encCatEdge (concatEdges yn dim rest (b + Z.of_nat (nth dim (dims vk) 0%nat))))
        with ((pre ++ [e]) ++ map encCatEdge (concatEdges yn dim rest (b + Z.of_nat (nth dim (dims vk) 0%nat))))
        by (rewrite <- app_assoc; reflexivity).
      replace (k + S (length rest))%nat with (S k + length rest)%nat by lia.
      apply IH; auto.
      * rewrite app_length. cbn. lia.
      * cbn in Hf. lia.
    + rewrite Hb1. reflexivity.
Qed.

Theorem heap_c_Concat_tracked (h : heap) (yn : nat) (xs : list nat) (vs : list T) (dim : nat) fuel depth :
  mapM (valOf h) xs = Some vs ->
  existsb (dirtyOf h) xs = false -> existsb (trackedOf h) xs = true -> (length xs < fuel)%nat ->
  if forallb (fun v : T => (dim <? length (dims v))%nat) vs then
    exists g l, drun fapp heap (hext rd) c_Concat fuel depth
                     [DI (Z.of_nat yn); DL (map (fun n => DI (Z.of_nat n)) xs); DI (Z.of_nat dim)] h =
                DRet heap [DL [DB true; DB false; DL (map encCatEdge (concatEdges yn dim (combine xs vs) 0))]] h g l
  else drun fapp heap (hext rd) c_Concat fuel depth
            [DI (Z.of_nat yn); DL (map (fun n => DI (Z.of_nat n)) xs); DI (Z.of_nat dim)] h = DPanic heap.
Proof.
  intros Hvs Hd Ht Hfuel.
  pose proof (mapM_valOf_lt h xs vs Hvs) as Hlt.
  unfold drun, c_Concat. cbn [pmain dbody plocals dparams dbind]. dxs.
  rewrite (hext_anyIsBPDirty h xs Hlt). dxs. rewrite Hd. dxs.
  rewrite (hext_nonIsTracked h xs Hlt). dxs. rewrite Ht. cbn [negb]. dxs.
  rewrite dlen_map, zle0_nat, Nat2Z.id. dxs.
  match goal with |- context [dforLoop heap fuel ?c ?b ?p h ?g0 []] =>
    pose proof (cc_loop c b p h (DI (Z.of_nat yn)) yn xs vs dim) as HL;
    change g0 with (ccEnv (DI (Z.of_nat yn)) xs dim ([] ++ repeat DNil (length xs)) 0 (Z.of_nat 0) [])
  end.
  match type of HL with ?P -> _ => assert (H1 : P) end.
  { intros be b i tail. unfold ccEnv. cbn [vlookup dlookup String.eqb Ascii.eqb Bool.eqb devalBin]. reflexivity. }
  specialize (HL H1); clear H1.
  match type of HL with ?P -> _ => assert (H1 : P) end.
  { intros k pre m b tail xk vk Hn Hpre Htail.
    apply nth_error_combine in Hn. destruct Hn as [Hxk Hvk].
    destruct (mapM_nth _ _ _ Hvs _ _ Hxk) as [v' [Hv' Hval]].
    assert (v' = vk) by congruence. subst v'.
    pose proof (valOf_lt h xk vk Hval) as Hxlt.
    subst k.
    destruct (dim <? length (dims vk))%nat eqn:Edim.
    - apply Nat.ltb_lt in Edim.
      exists [("shape", dnats (dims vk)); ("index", encRanges (catIndex dim vk b))].
      split; [right; eauto|].
      destruct Htail as [-> | (s0 & ix0 & ->)]; unfold ccEnv; dxs.
      all: rewrite !didx_nat, !nth_error_dnats, Hxk; cbn [option_map]; dxs.
      all: rewrite (hext_Shape h xk vk Hxlt Hval); dxs.
      all: unfold dnats; dxs; rewrite !dlen_map, zle0_nat, Nat2Z.id; dxs.
      all: rewrite !didx_nat, !nth_error_dnats, (nth_error_nth' (dims vk) 0%nat Edim); cbn [option_map]; dxs.
      all: rewrite (setNthD_catIndex dim vk b Edim); dxs.
      all: rewrite !didx_nat, (nth_error_catIndex dim vk b Edim); dxs.
      all: rewrite !didx_nat, !nth_error_dnats, Hxk; cbn [option_map]; dxs.
      all: rewrite setNthD_app; dxs.
      all: reflexivity.
    - apply Nat.ltb_ge in Edim.
      destruct Htail as [-> | (s0 & ix0 & ->)]; unfold ccEnv; dxs.
      all: rewrite !didx_nat, !nth_error_dnats, Hxk; cbn [option_map]; dxs.
      all: rewrite (hext_Shape h xk vk Hxlt Hval); dxs.
      all: unfold dnats; dxs; rewrite !dlen_map, zle0_nat, Nat2Z.id; dxs.
      all: rewrite !didx_nat, !nth_error_dnats.
      all: replace (nth_error (dims vk) dim) with (@None nat) by (symmetry; apply nth_error_None; exact Edim).
      all: cbn [option_map]; dxs; reflexivity. }
  specialize (HL H1); clear H1.
  match type of HL with ?P -> _ => assert (H1 : P) end.
  { intros be b i tail. unfold ccEnv. dxs. reflexivity. }
  pose proof (mapM_length _ _ _ Hvs) as Hlen.
  specialize (HL H1 (combine xs vs) 0%nat [] 0 [] fuel eq_refl eq_refl (or_introl eq_refl)); clear H1.
  rewrite combine_length, Hlen, Nat.min_id in HL. specialize (HL Hfuel).
  replace (forallb (fun p : nat * T => (dim <? length (dims (snd p)))%nat) (combine xs vs))
    with (forallb (fun v : T => (dim <? length (dims v))%nat) vs) in HL.
  2:{ clear -Hlen. revert vs Hlen. induction xs as [|x xs IH]; intros [|v vs] Hlen; cbn in Hlen |- *; try discriminate; try reflexivity.
      rewrite <- IH by lia. reflexivity. }
  destruct (forallb (fun v : T => (dim <? length (dims v))%nat) vs).
  - destruct HL as [b' [tail' HL]]. rewrite HL. unfold ccEnv. dxs. eauto.
  - rewrite HL. reflexivity.
Qed.


(* the dirty / untracked prologue *)
Theorem heap_c_Concat_dirty (h : heap) (yv : dval) (xs : list nat) (dimv : dval) fuel depth :
  Forall (fun x => (x < length h)%nat) xs -> existsb (dirtyOf h) xs = true ->
  exists g l, drun fapp heap (hext rd) c_Concat fuel depth [yv; DL (map (fun n => DI (Z.of_nat n)) xs); dimv] h =
              DRet heap [DL [DB false; DB true; DL []]] h g l.
Proof.
  intros Hlt Hd. unfold drun, c_Concat. cbn [pmain dbody plocals dparams dbind]. dxs.
  rewrite (hext_anyIsBPDirty h xs Hlt). dxs. rewrite Hd. dxs. eauto.
Qed.

Theorem heap_c_Concat_untracked (h : heap) (yv : dval) (xs : list nat) (dimv : dval) fuel depth :
  Forall (fun x => (x < length h)%nat) xs -> existsb (dirtyOf h) xs = false -> existsb (trackedOf h) xs = false ->
  exists g l, drun fapp heap (hext rd) c_Concat fuel depth [yv; DL (map (fun n => DI (Z.of_nat n)) xs); dimv] h =
              DRet heap [DL [DB false; DB false; DL []]] h g l.
Proof.
  intros Hlt Hd Ht. unfold drun, c_Concat. cbn [pmain dbody plocals dparams dbind]. dxs.
  rewrite (hext_anyIsBPDirty h xs Hlt). dxs. rewrite Hd. dxs.
  rewrite (hext_nonIsTracked h xs Hlt). dxs. rewrite Ht. cbn [negb]. dxs. eauto.
Qed.

(* the constructor returns the model's context [mkCtx h xs (concatEdges y dim (combine xs vs) 0)] *)
Theorem heap_c_Concat (h : heap) (yn : nat) (xs : list nat) (vs : list T) (dim : nat) fuel depth :
  mapM (valOf h) xs = Some vs -> (length xs < fuel)%nat ->
  (existsb (dirtyOf h) xs = false -> existsb (trackedOf h) xs = true ->
   Forall (fun v : T => (dim < length (dims v))%nat) vs) ->
  exists g l, drun fapp heap (hext rd) c_Concat fuel depth
                   [DI (Z.of_nat yn); DL (map (fun n => DI (Z.of_nat n)) xs); DI (Z.of_nat dim)] h =
              DRet heap [encCatCtx (mkCtx h xs (concatEdges yn dim (combine xs vs) 0))] h g l.
Proof.
  intros Hvs Hfuel Hdim. pose proof (mapM_valOf_lt h xs vs Hvs) as Hlt. unfold mkCtx.
  destruct (existsb (dirtyOf h) xs) eqn:Hd.
  - cbn [encCatCtx map]. apply heap_c_Concat_dirty; assumption.
  - destruct (existsb (trackedOf h) xs) eqn:Ht; cbn [negb encCatCtx map].
    + pose proof (heap_c_Concat_tracked h yn xs vs dim fuel depth Hvs Hd Ht Hfuel) as H.
      replace (forallb (fun v : T => (dim <? length (dims v))%nat) vs) with true in H; [exact H|].
      symmetry. apply forallb_forall. intros v Hv. apply Nat.ltb_lt.
      exact (proj1 (Forall_forall _ _) (Hdim eq_refl eq_refl) v Hv).
    + apply heap_c_Concat_untracked; assumption.
Qed.

(* what the edges are, explicitly: targets in order; operand k slices [base_k, base_k + size_k) along dim and {0,0}
   elsewhere (catIndex), base_k = the sum of the earlier sizes *)
Definition catBase (dim : nat) (vs : list T) (b : Z) : Z :=
  fold_left (fun acc v => acc + Z.of_nat (nth dim (dims v) 0%nat)) vs b.

Lemma concatEdges_nth (yn dim : nat) (l : list (nat * T)) : forall k x v b,
  nth_error l k = Some (x, v) ->
  nth_error (concatEdges yn dim l b) k = Some (x, RConcat yn (catIndex dim v (catBase dim (map snd (firstn k l)) b))).
Proof.
  induction l as [|[x0 v0] l IH]; intros [|k] x v b H; cbn [nth_error] in H; try discriminate.
  - inversion H; subst. reflexivity.
  - rewrite concatEdges_cons. cbn [nth_error firstn map snd]. rewrite (IH k x v _ H). reflexivity.
Qed.

Lemma concatEdges_targets (yn dim : nat) (xs : list nat) : forall (vs : list T) b, length xs = length vs ->
  map fst (concatEdges yn dim (combine xs vs) b) = xs.
Proof.
  induction xs as [|x xs IH]; intros [|v vs] b H; cbn in H; try discriminate; [reflexivity|].
  cbn [combine]. rewrite concatEdges_cons. cbn [map fst]. f_equal. apply IH. lia.
Qed.

Lemma encCatEdge_nth (yn dim : nat) (l : list (nat * T)) k x v b :
  nth_error l k = Some (x, v) ->
  nth_error (map encCatEdge (concatEdges yn dim l b)) k =
  Some (DL [DI (Z.of_nat x); DI 0; encRanges (catIndex dim v (catBase dim (map snd (firstn k l)) b))]).
Proof. intros H. erewrite map_nth_error by (apply concatEdges_nth; exact H). reflexivity. Qed.

Lemma catIndex_nth (dim : nat) (v : T) (b : Z) i : (i < length (dims v))%nat ->
  nth_error (catIndex dim v b) i =
  Some (if (i =? dim)%nat then (b, b + Z.of_nat (nth dim (dims v) 0%nat)) else (0, 0)).
Proof.
  intros H. unfold catIndex. erewrite map_nth_error; [reflexivity|].
  rewrite nth_error_nth' with (d := 0%nat) by (rewrite seq_length; exact H). rewrite seq_nth by exact H. reflexivity.
Qed.

End HeapBcast.

Print Assumptions heap_r_Broadcast.
Print Assumptions heap_r_Broadcast_eval_rule.
Print Assumptions heap_c_Concat_tracked.
Print Assumptions heap_c_Concat.

(* ---------- concrete runs over the free term algebra ---------- *)
Definition ex_fapp : string -> list term -> option term := fun _ _ => None.

(* x : [2] broadcast to y : [3;2]; the closure averages the three copies (first loop), where the property-level rule
   (RedSum) sums them: the two results differ, and the oracle parameter [rd] does not influence the closure *)
Example bcast_example_lead :
  let xv := mkT [2]%nat (Vec [Sc (TVal 0 0); Sc (TVal 0 1)]) in
  let yv := mkT [3; 2]%nat (Vec [Vec [Sc (TVal 0 0); Sc (TVal 0 1)]; Vec [Sc (TVal 0 0); Sc (TVal 0 1)];
                                  Vec [Sc (TVal 0 0); Sc (TVal 0 1)]]) in
  let gy := mkT [3; 2]%nat (Vec [Vec [Sc (TGrad 1 0 0); Sc (TGrad 1 0 1)]; Vec [Sc (TGrad 1 0 2); Sc (TGrad 1 0 3)];
                                  Vec [Sc (TGrad 1 0 4); Sc (TGrad 1 0 5)]]) in
  let h := [mkNode xv true false None [] None; mkNode yv true false (Some gy) [(0%nat, RBroadcast 1 0)] None] in
  match drun ex_fapp (@heap term) (hext RedSum) r_Broadcast_closure 10 1 [DI 0; DI 1] h,
        eval_rule RedAvg h (RBroadcast 1 0), eval_rule RedSum h (RBroadcast 1 0) with
  | DRet _ [v; DI 0] h' _ _, Ok r, Ok r' => v = embT r /\ h' = h /\ dims r = [2]%nat /\ r <> r'
  | _, _, _ => False
  end.
Proof. vm_compute. repeat split; try reflexivity. discriminate. Qed.

(* x : [2;1] broadcast to y : [2;3]: second loop, AvgAlong(1) then UnSqueeze(1) *)
Example bcast_example_dims :
  let xv := mkT [2; 1]%nat (Vec [Vec [Sc (TVal 0 0)]; Vec [Sc (TVal 0 1)]]) in
  let yv := mkT [2; 3]%nat (Vec [Vec [Sc (TVal 0 0); Sc (TVal 0 0); Sc (TVal 0 0)];
                                  Vec [Sc (TVal 0 1); Sc (TVal 0 1); Sc (TVal 0 1)]]) in
  let gy := mkT [2; 3]%nat (Vec [Vec [Sc (TGrad 1 0 0); Sc (TGrad 1 0 1); Sc (TGrad 1 0 2)];
                                  Vec [Sc (TGrad 1 0 3); Sc (TGrad 1 0 4); Sc (TGrad 1 0 5)]]) in
  let h := [mkNode xv true false None [] None; mkNode yv true false (Some gy) [(0%nat, RBroadcast 1 0)] None] in
  match drun ex_fapp (@heap term) (hext RedAvg) r_Broadcast_closure 10 1 [DI 0; DI 1] h,
        eval_rule RedAvg h (RBroadcast 1 0) with
  | DRet _ [v; DI 0] h' _ _, Ok r => v = embT r /\ h' = h /\ dims r = [2; 1]%nat
  | _, _ => False
  end.
Proof. vm_compute. repeat split; reflexivity. Qed.

(* outside the hypotheses of the theorem (y has no gradient yet) and nothing to reduce: the closure returns (nil, nil)
   where the model's rule panics; backward never asks for this (a node's edges run after its gradient is set) *)
Example bcast_example_nograd :
  let xv := mkT [2]%nat (Vec [Sc (TVal 0 0); Sc (TVal 0 1)]) in
  let h := [mkNode xv true false None [] None; mkNode xv true false None [(0%nat, RBroadcast 1 0)] None] in
  match drun ex_fapp (@heap term) (hext RedAvg) r_Broadcast_closure 10 1 [DI 0; DI 1] h with
  | DRet _ [DNil; DI 0] _ _ _ => eval_rule RedAvg h (RBroadcast 1 0) = Panic
  | _ => False
  end.
Proof. vm_compute. reflexivity. Qed.

(* Concat of a [2;1] and a [2;2] operand along dim 1: edges to 0 and 1 with ranges {0,0},{0,1} and {0,0},{1,3} *)
Example concat_example :
  let av := mkT [2; 1]%nat (Vec [Vec [Sc (TVal 0 0)]; Vec [Sc (TVal 0 1)]]) in
  let bv := mkT [2; 2]%nat (Vec [Vec [Sc (TVal 1 0); Sc (TVal 1 1)]; Vec [Sc (TVal 1 2); Sc (TVal 1 3)]]) in
  let h := [mkNode av true false None [] None; mkNode bv false false None [] None] in
  match drun ex_fapp (@heap term) (hext RedAvg) c_Concat 10 1 [DI 2; DL [DI 0; DI 1]; DI 1] h with
  | DRet _ [v] h' _ _ =>
      v = encCatCtx (mkCtx h [0; 1]%nat (concatEdges 2 1 (combine [0; 1]%nat [av; bv]) 0)) /\ h' = h /\
      v = DL [DB true; DB false; DL [DL [DI 0; DI 0; DL [DR 0 0; DR 0 1]]; DL [DI 1; DI 0; DL [DR 0 0; DR 1 3]]]]
  | _ => False
  end.
Proof. vm_compute. repeat split; reflexivity. Qed.

(* an operand whose rank does not exceed dim: index[dim] panics *)
Example concat_example_panic :
  let av := mkT [2]%nat (Vec [Sc (TVal 0 0); Sc (TVal 0 1)]) in
  let h := [mkNode av true false None [] None] in
  drun ex_fapp (@heap term) (hext RedAvg) c_Concat 10 1 [DI 1; DL [DI 0]; DI 1] h = DPanic _.
Proof. vm_compute. reflexivity. Qed.
