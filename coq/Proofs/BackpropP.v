(* BackpropP.v — C01, algorithmic half: [bp_topo] solves the adjoint equations.
   Every back edge of the graph reachable from the root is evaluated exactly once, with the
   FINAL gradient of its consumer, and the gradient left on a node is the accumulation
   (in processing order, starting from the previous gradient) of the seed (root only) and of
   the contributions of all its consumers.  The number of rule evaluations is the number of
   tracked back edges of the processed nodes (linear), whereas the pinned [walk] re-enters a
   node once per path (exponential; refutation witnesses at the end). *)
From Coq Require Import List Arith ZArith Bool Lia.
From Qeep Require Import Model.Scalar Model.Nd Model.Fill Model.Data Model.Valid Model.Api
                         Model.Grad Model.Backprop.
Import ListNotations.

(* ------------------------------------------------------------------------------------ *)
(* generic list lemmas                                                                   *)
(* ------------------------------------------------------------------------------------ *)

Lemma flat_map_ext_in' {X Y} (f g : X -> list Y) l :
  (forall a, In a l -> f a = g a) -> flat_map f l = flat_map g l.
Proof.
  induction l as [|a l IH]; intros H; cbn [flat_map]; [reflexivity|].
  rewrite (H a (or_introl eq_refl)), IH; [reflexivity|]. intros b Hb. apply H. right. exact Hb.
Qed.

Lemma flat_map_nil' {X Y} (f : X -> list Y) l :
  (forall a, In a l -> f a = []) -> flat_map f l = [].
Proof.
  induction l as [|a l IH]; intros H; cbn [flat_map]; [reflexivity|].
  rewrite (H a (or_introl eq_refl)), IH; [reflexivity|]. intros b Hb. apply H. right. exact Hb.
Qed.

Lemma memb_in n l : memb n l = true <-> In n l.
Proof.
  unfold memb. rewrite existsb_exists. split.
  - intros (x & Hx & E). apply Nat.eqb_eq in E. subst. exact Hx.
  - intros H. exists n. split; [exact H|apply Nat.eqb_refl].
Qed.

Lemma flat_map_length_incl {X Y} (f : X -> list Y) l :
  NoDup l -> forall l', incl l l' -> length (flat_map f l) <= length (flat_map f l').
Proof.
  induction l as [|a l IH]; intros Hnd l' Hi; cbn [flat_map]; [cbn; lia|].
  apply NoDup_cons_iff in Hnd. destruct Hnd as [Hna Hnd].
  assert (Ha : In a l') by (apply Hi; left; reflexivity).
  apply in_split in Ha. destruct Ha as (l1 & l2 & ->).
  assert (Hi' : incl l (l1 ++ l2)).
  { intros x Hx. assert (Hx' : In x (l1 ++ a :: l2)) by (apply Hi; right; exact Hx).
    apply in_app_or in Hx'. apply in_or_app. destruct Hx' as [Hx'|[Hx'|Hx']]; [left; exact Hx'| |right; exact Hx'].
    subst x. contradiction. }
  specialize (IH Hnd _ Hi'). rewrite flat_map_app in IH |- *. cbn [flat_map].
  rewrite !app_length in IH. rewrite !app_length. lia.
Qed.

Lemma filter_length_le {X} (f : X -> bool) l : length (filter f l) <= length l.
Proof. induction l as [|a l IH]; cbn [filter length]; [lia|]. destruct (f a); cbn [length]; lia. Qed.

Lemma filter_all {X} (f : X -> bool) l : (forall x, In x l -> f x = true) -> filter f l = l.
Proof.
  induction l as [|a l IH]; intros H; cbn [filter]; [reflexivity|].
  rewrite (H a (or_introl eq_refl)). f_equal. apply IH. intros x Hx. apply H. right. exact Hx.
Qed.

Section BackpropP.
Context {A : Type} {SA : Scalar A}.
Notation T := (tensor A).
Notation heap := (@heap A).
Notation rule := (@rule A).
Notation node := (@node A).

(* ------------------------------------------------------------------------------------ *)
(* 1. heap independence of rule evaluation; frame facts of updNode / setGrad / markDirty  *)
(* ------------------------------------------------------------------------------------ *)

(* the node whose gradient the rule reads (first argument of every constructor) *)
Definition rule_y (r : rule) : nat :=
  match r with
  | RConcat y _ => y | RSliceX y _ _ => y | RPatchX y _ _ => y | RPatchP y _ _ => y
  | RTranspose y => y | RReshape y _ => y | RBroadcast y _ => y
  | RSumAlong y _ _ => y | RExtAlong y _ _ => y | RAvgAlong y _ _ => y
  | RVarAlong y _ _ => y | RStdAlong y _ _ => y
  | RScale y _ => y | RPow y _ _ _ => y | RExp y => y | RLog y _ => y
  | RSin y _ => y | RCos y _ => y | RTan y _ => y
  | RSinh y _ => y | RCosh y _ => y | RTanh y _ => y
  | RElSel y _ _ => y | RId y => y | RNeg y => y | RMul y _ => y
  | RDivA y _ => y | RDivB y _ _ => y | RDot y _ => y
  | RMatMulA y _ => y | RMatMulB y _ => y
  end.

Lemma eval_rule_ext rd (h1 h2 : heap) (r : rule) :
  (forall i, valOf h1 i = valOf h2 i) ->
  gradOf h1 (rule_y r) = gradOf h2 (rule_y r) ->
  eval_rule rd h1 r = eval_rule rd h2 r.
Proof.
  intros Hv Hg. destruct r; cbn [rule_y] in Hg; unfold eval_rule, gy_of, val_of;
    rewrite ?Hv, ?Hg; reflexivity.
Qed.

(* a rule whose consumer has no gradient cannot be evaluated *)
Lemma eval_rule_nograd rd (h : heap) (r : rule) :
  gradOf h (rule_y r) = None -> eval_rule rd h r = Panic.
Proof.
  intros Hg. destruct r; cbn [rule_y] in Hg; unfold eval_rule, gy_of; rewrite Hg; reflexivity.
Qed.

Lemma nth_error_mapi (F : nat * node -> node) (h : list node) : forall s j,
  nth_error (map F (combine (seq s (length h)) h)) j =
  match nth_error h j with Some n => Some (F (s + j, n)) | None => None end.
Proof.
  induction h as [|x h IH]; intros s j; cbn [length seq combine map].
  - destruct j; reflexivity.
  - destruct j as [|j]; cbn [nth_error].
    + rewrite Nat.add_0_r. reflexivity.
    + rewrite IH. rewrite Nat.add_succ_r. reflexivity.
Qed.

Lemma length_mapi (F : nat * node -> node) (h : list node) s :
  length (map F (combine (seq s (length h)) h)) = length h.
Proof. rewrite map_length, combine_length, seq_length. apply Nat.min_id. Qed.

Lemma nth_error_updNode (h : heap) i f j :
  nth_error (updNode h i f) j =
  match nth_error h j with Some n => Some (if j =? i then f n else n) | None => None end.
Proof. unfold updNode. rewrite nth_error_mapi. cbn [fst snd Nat.add]. reflexivity. Qed.

Lemma length_updNode (h : heap) i f : length (updNode h i f) = length h.
Proof. unfold updNode. apply length_mapi. Qed.

Lemma nth_error_markDirty (h : heap) l j :
  nth_error (markDirty h l) j =
  match nth_error h j with
  | Some n => Some (if memb j l then mkNode (nval n) (ntracked n) true (ngrad n) (nedges n) (nname n) else n)
  | None => None end.
Proof. unfold markDirty. rewrite nth_error_mapi. cbn [fst snd Nat.add]. reflexivity. Qed.

Lemma length_markDirty (h : heap) l : length (markDirty h l) = length h.
Proof. unfold markDirty. apply length_mapi. Qed.

Lemma length_setGrad (h : heap) i g : length (setGrad h i g) = length h.
Proof. apply length_updNode. Qed.

Lemma nth_error_setGrad (h : heap) i g j :
  nth_error (setGrad h i g) j =
  match nth_error h j with
  | Some n => Some (if j =? i then mkNode (nval n) (ntracked n) (ndirty n) g (nedges n) (nname n) else n)
  | None => None end.
Proof. unfold setGrad. apply nth_error_updNode. Qed.

Lemma valOf_setGrad (h : heap) i g j : valOf (setGrad h i g) j = valOf h j.
Proof.
  unfold valOf. rewrite nth_error_setGrad. destruct (nth_error h j) as [n|]; [|reflexivity].
  cbn [obind]. destruct (j =? i); reflexivity.
Qed.
Lemma trackedOf_setGrad (h : heap) i g j : trackedOf (setGrad h i g) j = trackedOf h j.
Proof.
  unfold trackedOf. rewrite nth_error_setGrad. destruct (nth_error h j) as [n|]; [|reflexivity].
  destruct (j =? i); reflexivity.
Qed.
Lemma edgesOf_setGrad (h : heap) i g j : edgesOf (setGrad h i g) j = edgesOf h j.
Proof.
  unfold edgesOf. rewrite nth_error_setGrad. destruct (nth_error h j) as [n|]; [|reflexivity].
  destruct (j =? i); reflexivity.
Qed.
Lemma dirtyOf_setGrad (h : heap) i g j : dirtyOf (setGrad h i g) j = dirtyOf h j.
Proof.
  unfold dirtyOf. rewrite nth_error_setGrad. destruct (nth_error h j) as [n|]; [|reflexivity].
  destruct (j =? i); reflexivity.
Qed.
Lemma gradOf_setGrad (h : heap) i g j :
  gradOf (setGrad h i g) j = if j =? i then (if i <? length h then g else None) else gradOf h j.
Proof.
  unfold gradOf. rewrite nth_error_setGrad. destruct (j =? i) eqn:E.
  - apply Nat.eqb_eq in E. subst j. destruct (nth_error h i) as [n|] eqn:En; cbn [obind].
    + assert (Hl : i < length h) by (apply nth_error_Some; congruence).
      apply Nat.ltb_lt in Hl. rewrite Hl. reflexivity.
    + apply nth_error_None in En. destruct (i <? length h) eqn:Hl; [apply Nat.ltb_lt in Hl; lia|reflexivity].
  - destruct (nth_error h j) as [n|]; reflexivity.
Qed.

Lemma valOf_markDirty (h : heap) l j : valOf (markDirty h l) j = valOf h j.
Proof.
  unfold valOf. rewrite nth_error_markDirty. destruct (nth_error h j) as [n|]; [|reflexivity].
  cbn [obind]. destruct (memb j l); reflexivity.
Qed.
Lemma trackedOf_markDirty (h : heap) l j : trackedOf (markDirty h l) j = trackedOf h j.
Proof.
  unfold trackedOf. rewrite nth_error_markDirty. destruct (nth_error h j) as [n|]; [|reflexivity].
  destruct (memb j l); reflexivity.
Qed.
Lemma edgesOf_markDirty (h : heap) l j : edgesOf (markDirty h l) j = edgesOf h j.
Proof.
  unfold edgesOf. rewrite nth_error_markDirty. destruct (nth_error h j) as [n|]; [|reflexivity].
  destruct (memb j l); reflexivity.
Qed.
Lemma gradOf_markDirty (h : heap) l j : gradOf (markDirty h l) j = gradOf h j.
Proof.
  unfold gradOf. rewrite nth_error_markDirty. destruct (nth_error h j) as [n|]; [|reflexivity].
  cbn [obind]. destruct (memb j l); reflexivity.
Qed.
Lemma dirtyOf_markDirty (h : heap) l j :
  dirtyOf (markDirty h l) j = if j <? length h then memb j l || dirtyOf h j else false.
Proof.
  unfold dirtyOf. rewrite nth_error_markDirty. destruct (nth_error h j) as [n|] eqn:En.
  - assert (Hl : j < length h) by (apply nth_error_Some; congruence).
    apply Nat.ltb_lt in Hl. rewrite Hl. destruct (memb j l); reflexivity.
  - apply nth_error_None in En. destruct (j <? length h) eqn:Hl; [apply Nat.ltb_lt in Hl; lia|reflexivity].
Qed.

(* generic updNode frame facts (for ResetGradContext and friends) *)
Lemma valOf_updNode (h : heap) i f j :
  (forall n, nval (f n) = nval n) -> valOf (updNode h i f) j = valOf h j.
Proof.
  intros Hf. unfold valOf. rewrite nth_error_updNode. destruct (nth_error h j) as [n|]; [|reflexivity].
  cbn [obind]. destruct (j =? i); [rewrite Hf|]; reflexivity.
Qed.
Lemma trackedOf_updNode_other (h : heap) i f j : j <> i -> trackedOf (updNode h i f) j = trackedOf h j.
Proof.
  intros Hn. unfold trackedOf. rewrite nth_error_updNode. apply Nat.eqb_neq in Hn. rewrite Hn.
  destruct (nth_error h j); reflexivity.
Qed.
Lemma edgesOf_updNode_other (h : heap) i f j : j <> i -> edgesOf (updNode h i f) j = edgesOf h j.
Proof.
  intros Hn. unfold edgesOf. rewrite nth_error_updNode. apply Nat.eqb_neq in Hn. rewrite Hn.
  destruct (nth_error h j); reflexivity.
Qed.
Lemma gradOf_updNode_other (h : heap) i f j : j <> i -> gradOf (updNode h i f) j = gradOf h j.
Proof.
  intros Hn. unfold gradOf. rewrite nth_error_updNode. apply Nat.eqb_neq in Hn. rewrite Hn.
  destruct (nth_error h j); reflexivity.
Qed.

Lemma tracked_lt (h : heap) i : trackedOf h i = true -> i < length h.
Proof.
  unfold trackedOf. destruct (nth_error h i) eqn:E; [|discriminate]. intros _.
  apply nth_error_Some. congruence.
Qed.

(* ------------------------------------------------------------------------------------ *)
(* 3. bp_topo solves the adjoint equations                                               *)
(* ------------------------------------------------------------------------------------ *)

(* each back edge of node c reads the gradient of c itself *)
Definition rules_own (h : heap) : Prop :=
  forall c n e, nth_error h c = Some n -> In e (nedges n) -> rule_y (snd e) = c.
(* result ids are larger than operand ids *)
Definition wf_heap (h : heap) : Prop :=
  forall c n e, nth_error h c = Some n -> In e (nedges n) -> fst e < c.

Lemma rules_own_edgesOf (h : heap) : rules_own h -> forall c e, In e (edgesOf h c) -> rule_y (snd e) = c.
Proof.
  intros H c e He. unfold edgesOf in He. destruct (nth_error h c) as [n|] eqn:En; [|destruct He].
  eapply H; eauto.
Qed.
Lemma wf_heap_edgesOf (h : heap) : wf_heap h -> forall c e, In e (edgesOf h c) -> fst e < c.
Proof.
  intros H c e He. unfold edgesOf in He. destruct (nth_error h c) as [n|] eqn:En; [|destruct He].
  eapply H; eauto.
Qed.

(* the same invariant in the Forall form used by Proofs/TrackP.v *)
Lemma wf_heap_Forall (h : heap) :
  wf_heap h <-> forall i n, nth_error h i = Some n -> Forall (fun e : nat * rule => fst e < i) (nedges n).
Proof.
  split.
  - intros H i n Hn. apply Forall_forall. intros e He. eapply H; eauto.
  - intros H c n e Hn He. specialize (H c n Hn). rewrite Forall_forall in H. apply H. exact He.
Qed.

Fixpoint ordered (h : heap) (p : list nat) : Prop :=
  match p with
  | [] => True
  | n :: r => (forall e, In e (edgesOf h n) -> trackedOf h (fst e) = true -> In (fst e) r) /\ ordered h r
  end.

(* same immutable structure: values, tracking flags, edges, size *)
Definition sameS (h1 h2 : heap) : Prop :=
  length h1 = length h2 /\
  forall i, valOf h1 i = valOf h2 i /\ trackedOf h1 i = trackedOf h2 i /\ edgesOf h1 i = edgesOf h2 i.

Lemma sameS_refl h : sameS h h.
Proof. split; [reflexivity|]. intros i. repeat split. Qed.
Lemma sameS_trans h1 h2 h3 : sameS h1 h2 -> sameS h2 h3 -> sameS h1 h3.
Proof.
  intros [L1 H1] [L2 H2]. split; [congruence|]. intros i.
  destruct (H1 i) as (a1 & b1 & c1). destruct (H2 i) as (a2 & b2 & c2). repeat split; congruence.
Qed.
Lemma sameS_sym h1 h2 : sameS h1 h2 -> sameS h2 h1.
Proof.
  intros [L1 H1]. split; [congruence|]. intros i. destruct (H1 i) as (a1 & b1 & c1). repeat split; congruence.
Qed.
Lemma sameS_setGrad h i g : sameS h (setGrad h i g).
Proof.
  split; [symmetry; apply length_setGrad|]. intros j.
  rewrite valOf_setGrad, trackedOf_setGrad, edgesOf_setGrad. repeat split.
Qed.
Lemma sameS_markDirty h l : sameS h (markDirty h l).
Proof.
  split; [symmetry; apply length_markDirty|]. intros j.
  rewrite valOf_markDirty, trackedOf_markDirty, edgesOf_markDirty. repeat split.
Qed.
Lemma sameS_val h1 h2 : sameS h1 h2 -> forall i, valOf h1 i = valOf h2 i.
Proof. intros [_ H] i. apply H. Qed.
Lemma sameS_trk h1 h2 : sameS h1 h2 -> forall i, trackedOf h1 i = trackedOf h2 i.
Proof. intros [_ H] i. apply H. Qed.
Lemma sameS_edges h1 h2 : sameS h1 h2 -> forall i, edgesOf h1 i = edgesOf h2 i.
Proof. intros [_ H] i. apply H. Qed.

Lemma ordered_sameS h1 h2 l : sameS h1 h2 -> ordered h1 l -> ordered h2 l.
Proof.
  intros HS. induction l as [|c l IH]; cbn [ordered]; [trivial|]. intros [Hc Hl]. split; [|auto].
  intros e He Ht. rewrite <- (sameS_edges _ _ HS) in He. rewrite <- (sameS_trk _ _ HS) in Ht. auto.
Qed.

Lemma ordered_in h l : ordered h l -> forall c e, In c l -> In e (edgesOf h c) ->
  trackedOf h (fst e) = true -> In (fst e) l.
Proof.
  induction l as [|a l IH]; intros Ho c e Hc He Ht; [destruct Hc|].
  destruct Ho as [Ha Ho]. destruct Hc as [->|Hc].
  - right. apply Ha; assumption.
  - right. eapply IH; eauto.
Qed.

(* accumulateGrad as a pure function:  None + g = g,  Some g0 + g = g0.Add(g)  *)
Definition acc1 (o : option T) (g : T) : option (option T) :=
  match o with
  | None => Some (Some g)
  | Some g0 => match v_arith BiAdd g0 g with Ok s => Some (Some s) | _ => None end
  end.
Fixpoint accAll (o : option T) (l : list T) : option (option T) :=
  match l with
  | [] => Some o
  | g :: r => match acc1 o g with Some o' => accAll o' r | None => None end
  end.

Lemma accAll_app o l1 l2 :
  accAll o (l1 ++ l2) = match accAll o l1 with Some o' => accAll o' l2 | None => None end.
Proof.
  revert o. induction l1 as [|g l1 IH]; intros o; cbn [app accAll]; [reflexivity|].
  destruct (acc1 o g) as [o'|]; [apply IH|reflexivity].
Qed.

Lemma acc1_some o g o' : acc1 o g = Some o' -> o' <> None.
Proof.
  unfold acc1. destruct o as [g0|].
  - destruct (v_arith BiAdd g0 g); intros E; inversion E; discriminate.
  - intros E; inversion E; discriminate.
Qed.
Lemma accAll_nonempty o l o' : accAll o l = Some o' -> l <> [] -> o' <> None.
Proof.
  revert o. induction l as [|g l IH]; intros o E Hl; [congruence|]. cbn [accAll] in E.
  destruct (acc1 o g) as [o1|] eqn:E1; [|discriminate].
  destruct l as [|g2 l]; [cbn in E; inversion E; subst; eapply acc1_some; eauto|].
  eapply IH; [exact E|discriminate].
Qed.

Lemma accumulate_ok (h : heap) i g h' r :
  accumulate h i g = (h', r) -> r = Ok tt ->
  exists o', acc1 (gradOf h i) g = Some o' /\ h' = setGrad h i o'.
Proof.
  unfold accumulate, acc1. intros E Hr. subst r. destruct (gradOf h i) as [g0|].
  - destruct (v_arith BiAdd g0 g) as [s| |]; inversion E. eexists; split; reflexivity.
  - inversion E. eexists; split; reflexivity.
Qed.

Section Run.
Variable rd : bred.
Notation idseal := (fun (_ : option nat) (g : T) => g).

(* --- errors are sticky --- *)
Lemma pe_sticky c es : forall (h : heap) r, r <> Ok tt ->
  fold_left (process_edge rd c) es (h, r) = (h, r).
Proof.
  induction es as [|e es IH]; intros h r Hr; cbn [fold_left]; [reflexivity|].
  destruct r as [[]| |]; [congruence| |]; cbn [process_edge]; apply IH; assumption.
Qed.

Lemma pe_fold_cons c e es (h h' : heap) :
  fold_left (process_edge rd c) (e :: es) (h, Ok tt) = (h', Ok tt) ->
  exists h1, process_edge rd c (h, Ok tt) e = (h1, Ok tt) /\
             fold_left (process_edge rd c) es (h1, Ok tt) = (h', Ok tt).
Proof.
  cbn [fold_left]. destruct (process_edge rd c (h, Ok tt) e) as [h1 r1] eqn:E1. intros E.
  destruct r1 as [[]| |].
  - exists h1. split; [reflexivity|exact E].
  - rewrite pe_sticky in E by discriminate. inversion E.
  - rewrite pe_sticky in E by discriminate. inversion E.
Qed.

Lemma process_edge_ok c (h : heap) e h' :
  process_edge rd c (h, Ok tt) e = (h', Ok tt) ->
  (trackedOf h (fst e) = false /\ h' = h) \/
  (trackedOf h (fst e) = true /\ exists g o', eval_rule rd h (snd e) = Ok g /\
       acc1 (gradOf h (fst e)) g = Some o' /\ h' = setGrad h (fst e) o').
Proof.
  cbn [process_edge]. destruct (trackedOf h (fst e)) eqn:Et.
  - destruct (eval_rule rd h (snd e)) as [g| |] eqn:Ee; intros E; [|inversion E|inversion E].
    right. split; [reflexivity|]. destruct (accumulate_ok _ _ _ _ _ E eq_refl) as (o' & Ho & Hh).
    exists g, o'. auto.
  - intros E. inversion E. left. auto.
Qed.

Lemma pn_sticky l : forall (h : heap) log r, r <> Ok tt ->
  fold_left (process_node rd idseal) l (h, log, r) = (h, log, r).
Proof.
  induction l as [|c l IH]; intros h log r Hr; cbn [fold_left]; [reflexivity|].
  destruct r as [[]| |]; [congruence| |]; cbn [process_node]; apply IH; assumption.
Qed.

(* contribution of one back edge to node n, evaluated in heap hf *)
Definition contrib_e (hf : heap) (n : nat) (e : nat * rule) : list T :=
  if fst e =? n then match eval_rule rd hf (snd e) with Ok g => [g] | _ => [] end else [].

(* contributions to n of the back edges (read in hs) of the nodes of order, evaluated in hf *)
Definition contributions (hf hs : heap) (order : list nat) (n : nat) : list T :=
  flat_map (fun c => flat_map (contrib_e hf n) (edgesOf hs c)) order.

Lemma contrib_e_ext (h1 h2 : heap) n e :
  (forall i, valOf h1 i = valOf h2 i) -> gradOf h1 (rule_y (snd e)) = gradOf h2 (rule_y (snd e)) ->
  contrib_e h1 n e = contrib_e h2 n e.
Proof. intros Hv Hg. unfold contrib_e. rewrite (eval_rule_ext rd h1 h2 (snd e) Hv Hg). reflexivity. Qed.

(* --- the edges of one node --- *)
Lemma process_edges_spec c es : forall (h h' : heap),
  (forall e, In e es -> fst e <> c) ->
  (forall e, In e es -> rule_y (snd e) = c) ->
  fold_left (process_edge rd c) es (h, Ok tt) = (h', Ok tt) ->
  sameS h h' /\ gradOf h' c = gradOf h c /\
  (forall n, trackedOf h n = true -> accAll (gradOf h n) (flat_map (contrib_e h n) es) = Some (gradOf h' n)) /\
  (forall n, trackedOf h n = false -> gradOf h' n = gradOf h n) /\
  (forall e, In e es -> trackedOf h (fst e) = true -> exists g, eval_rule rd h (snd e) = Ok g).
Proof.
  induction es as [|e es IH]; intros h h' Hne Hown E.
  - cbn [fold_left] in E. inversion E; subst h'. split; [apply sameS_refl|]. split; [reflexivity|].
    split; [intros n _; reflexivity|]. split; [intros n _; reflexivity|]. intros e [].
  - destruct (pe_fold_cons _ _ _ _ _ E) as (h1 & E1 & E2).
    assert (Hne' : forall e0, In e0 es -> fst e0 <> c) by (intros e0 H0; apply Hne; right; exact H0).
    assert (Hown' : forall e0, In e0 es -> rule_y (snd e0) = c) by (intros e0 H0; apply Hown; right; exact H0).
    destruct (IH h1 h' Hne' Hown' E2) as (IS & Ic & Iacc & Iun & Iok). clear IH.
    destruct (process_edge_ok _ _ _ _ E1) as [[Et Hh]|[Et (g & o' & Hev & Hacc & Hh)]].
    + subst h1. split; [exact IS|]. split; [exact Ic|]. split; [|split].
      * intros n Hn. cbn [flat_map]. unfold contrib_e at 1.
        destruct (fst e =? n) eqn:Een; [apply Nat.eqb_eq in Een; congruence|]. cbn [app]. apply Iacc. exact Hn.
      * exact Iun.
      * intros e0 [->|H0] Ht0; [congruence|]. apply Iok; assumption.
    + assert (HS1 : sameS h h1) by (subst h1; apply sameS_setGrad).
      assert (Hlt : fst e < length h) by (apply tracked_lt; exact Et).
      assert (Hc1 : gradOf h1 c = gradOf h c).
      { subst h1. rewrite gradOf_setGrad. assert (X : c <> fst e) by (intro X; symmetry in X; revert X; apply Hne; left; reflexivity).
        apply Nat.eqb_neq in X. rewrite X. reflexivity. }
      assert (Hext : forall n e0, In e0 es -> contrib_e h1 n e0 = contrib_e h n e0).
      { intros n e0 H0. apply contrib_e_ext; [intros i; symmetry; apply (sameS_val _ _ HS1)|].
        rewrite (Hown' e0 H0). exact Hc1. }
      split; [eapply sameS_trans; eauto|]. split; [congruence|]. split; [|split].
      * intros n Hn. cbn [flat_map]. rewrite accAll_app.
        rewrite (sameS_trk _ _ HS1) in Hn. specialize (Iacc n Hn).
        rewrite (flat_map_ext_in' _ _ _ (Hext n)) in Iacc.
        unfold contrib_e at 1. destruct (fst e =? n) eqn:Een.
        -- apply Nat.eqb_eq in Een. subst n. rewrite Hev. cbn [accAll]. rewrite Hacc.
           subst h1. rewrite gradOf_setGrad, Nat.eqb_refl in Iacc. apply Nat.ltb_lt in Hlt. rewrite Hlt in Iacc. exact Iacc.
        -- cbn [accAll]. subst h1. rewrite gradOf_setGrad in Iacc. rewrite Nat.eqb_sym in Een. rewrite Een in Iacc. exact Iacc.
      * intros n Hn. rewrite (sameS_trk _ _ HS1) in Hn. rewrite (Iun n Hn). subst h1. rewrite gradOf_setGrad.
        destruct (n =? fst e) eqn:Een; [|reflexivity]. apply Nat.eqb_eq in Een. subst n.
        rewrite <- (sameS_trk _ _ HS1) in Hn. congruence.
      * intros e0 [->|H0] Ht0; [eauto|]. rewrite (sameS_trk _ _ HS1) in Ht0.
        destruct (Iok e0 H0 Ht0) as (g0 & Hg0). exists g0. rewrite <- Hg0.
        apply eval_rule_ext; [apply (sameS_val _ _ HS1)|]. rewrite (Hown' e0 H0). congruence.
Qed.

(* --- one node --- *)
Lemma process_node_spec (h : heap) log c h2 log2 :
  rules_own h -> wf_heap h ->
  process_node rd idseal (h, log, Ok tt) c = (h2, log2, Ok tt) ->
  sameS h h2 /\ gradOf h2 c = gradOf h c /\
  (forall n, trackedOf h n = true ->
             accAll (gradOf h n) (flat_map (contrib_e h n) (edgesOf h c)) = Some (gradOf h2 n)) /\
  (forall n, trackedOf h n = false -> gradOf h2 n = gradOf h n) /\
  log2 = (match gradOf h c with Some g => [(c, g)] | None => [] end) ++ log /\
  (gradOf h c <> None -> forall e, In e (edgesOf h c) -> trackedOf h (fst e) = true ->
                         exists g, eval_rule rd h (snd e) = Ok g).
Proof.
  intros Hown Hwf. cbn [process_node]. destruct (nth_error h c) as [nd|] eqn:En; [|intros E; inversion E].
  assert (Hed : edgesOf h c = nedges nd) by (unfold edgesOf; rewrite En; reflexivity).
  assert (Hgr : gradOf h c = ngrad nd) by (unfold gradOf; rewrite En; reflexivity).
  assert (Hlt : c < length h) by (apply nth_error_Some; congruence).
  destruct (ngrad nd) as [g|] eqn:Eg.
  - set (h1 := setGrad h c (Some g)).
    destruct (fold_left (process_edge rd c) (nedges nd) (h1, Ok tt)) as [hh r] eqn:Ef.
    intros E. inversion E; subst hh log2 r. clear E.
    assert (HS1 : sameS h h1) by apply sameS_setGrad.
    assert (Hg1 : forall j, gradOf h1 j = gradOf h j).
    { intros j. unfold h1. rewrite gradOf_setGrad. destruct (j =? c) eqn:Ej; [|reflexivity].
      apply Nat.eqb_eq in Ej. subst j. apply Nat.ltb_lt in Hlt. rewrite Hlt. congruence. }
    assert (Hne : forall e, In e (nedges nd) -> fst e <> c).
    { intros e He. rewrite <- Hed in He. apply (wf_heap_edgesOf _ Hwf) in He. lia. }
    assert (Hy : forall e, In e (nedges nd) -> rule_y (snd e) = c).
    { intros e He. rewrite <- Hed in He. apply (rules_own_edgesOf _ Hown) in He. exact He. }
    destruct (process_edges_spec _ _ _ _ Hne Hy Ef) as (PS & Pc & Pacc & Pun & Pok).
    assert (Hext : forall n e0, contrib_e h1 n e0 = contrib_e h n e0).
    { intros n e0. apply contrib_e_ext; [intros i; symmetry; apply (sameS_val _ _ HS1)|apply Hg1]. }
    split; [eapply sameS_trans; eauto|]. split; [rewrite Pc; apply Hg1|]. split; [|split; [|split]].
    + intros n Hn. rewrite (sameS_trk _ _ HS1) in Hn. specialize (Pacc n Hn). rewrite Hg1 in Pacc.
      rewrite Hed. rewrite <- Pacc. f_equal. apply flat_map_ext_in'. intros e0 _. symmetry. apply Hext.
    + intros n Hn. rewrite (sameS_trk _ _ HS1) in Hn. rewrite (Pun n Hn). apply Hg1.
    + rewrite Hgr. reflexivity.
    + intros _ e He Ht. rewrite Hed in He. rewrite (sameS_trk _ _ HS1) in Ht.
      destruct (Pok e He Ht) as (g0 & Hg0). exists g0. rewrite <- Hg0.
      apply eval_rule_ext; [apply (sameS_val _ _ HS1)|symmetry; apply Hg1].
  - intros E. inversion E; subst h2 log2. clear E.
    split; [apply sameS_refl|]. split; [reflexivity|]. split; [|split; [|split]].
    + intros n Hn. rewrite flat_map_nil'; [reflexivity|]. intros e He. unfold contrib_e.
      destruct (fst e =? n); [|reflexivity]. rewrite eval_rule_nograd; [reflexivity|].
      rewrite (rules_own_edgesOf _ Hown _ _ He). exact Hgr.
    + intros n _. reflexivity.
    + rewrite Hgr. reflexivity.
    + intros X. congruence.
Qed.

Lemma rules_own_sameS (h1 h2 : heap) : sameS h1 h2 -> rules_own h1 -> rules_own h2.
Proof.
  intros HS H c n e En He. apply (rules_own_edgesOf _ H). rewrite (sameS_edges _ _ HS).
  unfold edgesOf. rewrite En. exact He.
Qed.
Lemma wf_heap_sameS (h1 h2 : heap) : sameS h1 h2 -> wf_heap h1 -> wf_heap h2.
Proof.
  intros HS H c n e En He. apply (wf_heap_edgesOf _ H). rewrite (sameS_edges _ _ HS).
  unfold edgesOf. rewrite En. exact He.
Qed.

(* the finalised gradients, in processing order *)
Definition logOf (hf : heap) (l : list nat) : list (nat * T) :=
  flat_map (fun c => match gradOf hf c with Some g => [(c, g)] | None => [] end) l.

Lemma pn_fold_cons c l (h : heap) log h' log' :
  fold_left (process_node rd idseal) (c :: l) (h, log, Ok tt) = (h', log', Ok tt) ->
  exists h1 log1, process_node rd idseal (h, log, Ok tt) c = (h1, log1, Ok tt) /\
                  fold_left (process_node rd idseal) l (h1, log1, Ok tt) = (h', log', Ok tt).
Proof.
  cbn [fold_left]. destruct (process_node rd idseal (h, log, Ok tt) c) as [[h1 log1] r1] eqn:E1. intros E.
  destruct r1 as [[]| |].
  - exists h1, log1. split; [reflexivity|exact E].
  - rewrite pn_sticky in E by discriminate. inversion E.
  - rewrite pn_sticky in E by discriminate. inversion E.
Qed.

Lemma contributions_sameS (hf hs hs' : heap) l n :
  sameS hs hs' -> contributions hf hs l n = contributions hf hs' l n.
Proof.
  intros HS. unfold contributions. apply flat_map_ext_in'. intros c _. rewrite (sameS_edges _ _ HS). reflexivity.
Qed.

(* --- all the nodes of an ordered duplicate-free list --- *)
Lemma bp_fold_spec l : forall (h : heap) log h' log',
  rules_own h -> wf_heap h -> NoDup l -> ordered h l -> (forall c, In c l -> trackedOf h c = true) ->
  fold_left (process_node rd idseal) l (h, log, Ok tt) = (h', log', Ok tt) ->
  sameS h h' /\
  (forall n, trackedOf h n = true -> accAll (gradOf h n) (contributions h' h l n) = Some (gradOf h' n)) /\
  (forall n, trackedOf h n = false -> gradOf h' n = gradOf h n) /\
  log' = rev (logOf h' l) ++ log /\
  (forall c e, In c l -> gradOf h' c <> None -> In e (edgesOf h c) -> trackedOf h (fst e) = true ->
               exists g, eval_rule rd h' (snd e) = Ok g).
Proof.
  induction l as [|c l IH]; intros h log h' log' Hown Hwf Hnd Hord Htr E.
  - cbn [fold_left] in E. inversion E; subst h' log'. split; [apply sameS_refl|].
    split; [intros n _; reflexivity|]. split; [intros n _; reflexivity|]. split; [reflexivity|].
    intros c e [].
  - destruct (pn_fold_cons _ _ _ _ _ _ E) as (h1 & log1 & E1 & E2).
    destruct (process_node_spec _ _ _ _ _ Hown Hwf E1) as (NS & Nc & Nacc & Nun & Nlog & Nok).
    apply NoDup_cons_iff in Hnd. destruct Hnd as [Hnc Hnd']. destruct Hord as [Hc Hord].
    assert (Hown1 : rules_own h1) by (eapply rules_own_sameS; eauto).
    assert (Hwf1 : wf_heap h1) by (eapply wf_heap_sameS; eauto).
    assert (Hord1 : ordered h1 l) by (eapply ordered_sameS; eauto).
    assert (Htr1 : forall c0, In c0 l -> trackedOf h1 c0 = true).
    { intros c0 H0. rewrite <- (sameS_trk _ _ NS). apply Htr. right. exact H0. }
    destruct (IH h1 log1 h' log' Hown1 Hwf1 Hnd' Hord1 Htr1 E2) as (IS & Iacc & Iun & Ilog & Iok). clear IH.
    assert (Hct : trackedOf h c = true) by (apply Htr; left; reflexivity).
    (* the gradient of c is final once c has been processed *)
    assert (Hfin : gradOf h' c = gradOf h c).
    { rewrite <- Nc. assert (Hct1 : trackedOf h1 c = true) by (rewrite <- (sameS_trk _ _ NS); exact Hct).
      specialize (Iacc c Hct1). unfold contributions in Iacc. rewrite flat_map_nil' in Iacc; [cbn [accAll] in Iacc; congruence|].
      intros c' Hc'. apply flat_map_nil'. intros e He. unfold contrib_e.
      destruct (fst e =? c) eqn:Ee; [|reflexivity]. apply Nat.eqb_eq in Ee. exfalso. apply Hnc.
      rewrite <- Ee. eapply ordered_in; eauto; rewrite Ee; exact Hct1. }
    assert (HSf : sameS h h') by (eapply sameS_trans; eauto).
    assert (Hextc : forall n e, In e (edgesOf h c) -> contrib_e h' n e = contrib_e h n e).
    { intros n e He. apply contrib_e_ext; [intros i; symmetry; apply (sameS_val _ _ HSf)|].
      rewrite (rules_own_edgesOf _ Hown _ _ He). exact Hfin. }
    split; [exact HSf|]. split; [|split; [|split]].
    + intros n Hn. unfold contributions. cbn [flat_map]. fold (contributions h' h l n).
      rewrite accAll_app. rewrite (flat_map_ext_in' _ _ _ (Hextc n)). rewrite (Nacc n Hn).
      rewrite (contributions_sameS h' h h1 l n NS). apply Iacc. rewrite <- (sameS_trk _ _ NS). exact Hn.
    + intros n Hn. rewrite Iun; [apply Nun; exact Hn|]. rewrite <- (sameS_trk _ _ NS). exact Hn.
    + rewrite Ilog, Nlog. unfold logOf. cbn [flat_map]. rewrite rev_app_distr, <- app_assoc. f_equal.
      rewrite Hfin. destruct (gradOf h c); reflexivity.
    + intros c0 e [<-|H0] Hg He Ht.
      * rewrite Hfin in Hg. destruct (Nok Hg e He Ht) as (g & Hgv). exists g. rewrite <- Hgv.
        apply eval_rule_ext; [intros i; symmetry; apply (sameS_val _ _ HSf)|].
        rewrite (rules_own_edgesOf _ Hown _ _ He). exact Hfin.
      * apply (Iok c0 e H0 Hg); [rewrite <- (sameS_edges _ _ NS); exact He|rewrite <- (sameS_trk _ _ NS); exact Ht].
Qed.

(* MAIN THEOREM.  [order] is the processing order of bp_topo. *)
Theorem bp_topo_adjoint (h : heap) root h' log :
  rules_own h -> wf_heap h -> trackedOf h root = true ->
  let order := topoOrder h root in
  NoDup order -> (forall c, In c order -> trackedOf h c = true) -> ordered h order -> In root order ->
  bp_topo rd idseal h root = (h', log, Ok tt) ->
  exists rv ones, valOf h root = Some rv /\ toOnes rv = Ok ones /\
  (* structure *)
  length h' = length h /\
  (forall i, valOf h' i = valOf h i /\ trackedOf h' i = trackedOf h i /\ edgesOf h' i = edgesOf h i) /\
  (* nodes outside the order keep their gradient *)
  (forall n, ~ In n order -> gradOf h' n = gradOf h n) /\
  (* nodes of the order: previous gradient + seed (root) + every consumer edge, once, at the final gradient *)
  (forall n, In n order ->
     accAll (gradOf h n) ((if n =? root then [ones] else []) ++ contributions h' h order n) = Some (gradOf h' n)) /\
  (* every evaluated rule succeeded, also when re-evaluated in the final heap *)
  (forall c e, In c order -> gradOf h' c <> None -> In e (edgesOf h c) -> trackedOf h (fst e) = true ->
               exists g, eval_rule rd h' (snd e) = Ok g) /\
  (* the log lists the final gradients in processing order (newest first) *)
  log = rev (logOf h' order).
Proof.
  intros Hown Hwf Hroot order Hnd Htr Hord Hin. unfold bp_topo. rewrite Hroot. cbn [negb]. fold order.
  set (h1 := markDirty h order).
  assert (HS1 : sameS h h1) by apply sameS_markDirty.
  assert (Hg1 : forall j, gradOf h1 j = gradOf h j) by (intros j; apply gradOf_markDirty).
  destruct (valOf h1 root) as [rv|] eqn:Ev; [|intros E; inversion E].
  destruct (toOnes rv) as [ones| |] eqn:Eo; [|intros E; inversion E|intros E; inversion E].
  destruct (accumulate h1 root ones) as [h2 r] eqn:Ea.
  destruct r as [[]| |]; [|intros E; inversion E|intros E; inversion E].
  intros E. destruct (accumulate_ok _ _ _ _ _ Ea eq_refl) as (o' & Hacc & Hh2).
  assert (HS2 : sameS h h2) by (eapply sameS_trans; [exact HS1|subst h2; apply sameS_setGrad]).
  assert (Hrl : root < length h1) by (rewrite <- (proj1 HS1); apply tracked_lt; exact Hroot).
  assert (Hg2 : forall j, gradOf h2 j = if j =? root then o' else gradOf h j).
  { intros j. subst h2. rewrite gradOf_setGrad. destruct (j =? root); [|apply Hg1].
    apply Nat.ltb_lt in Hrl. rewrite Hrl. reflexivity. }
  assert (Hown2 : rules_own h2) by (eapply rules_own_sameS; eauto).
  assert (Hwf2 : wf_heap h2) by (eapply wf_heap_sameS; eauto).
  assert (Hord2 : ordered h2 order) by (eapply ordered_sameS; eauto).
  assert (Htr2 : forall c, In c order -> trackedOf h2 c = true).
  { intros c Hc. rewrite <- (sameS_trk _ _ HS2). apply Htr. exact Hc. }
  destruct (bp_fold_spec _ _ _ _ _ Hown2 Hwf2 Hnd Hord2 Htr2 E) as (FS & Facc & Fun & Flog & Fok).
  assert (HSf : sameS h h') by (eapply sameS_trans; eauto).
  exists rv, ones. split; [rewrite (sameS_val _ _ HS1); exact Ev|]. split; [exact Eo|].
  split; [symmetry; apply (proj1 HSf)|]. split.
  { intros i. destruct HSf as [_ H]. destruct (H i) as (a & b & c). repeat split; congruence. }
  split; [|split; [|split]].
  - intros n Hn. assert (Hnr : n <> root) by (intro X; subst n; exact (Hn Hin)).
    apply Nat.eqb_neq in Hnr. destruct (trackedOf h n) eqn:Et.
    + rewrite (sameS_trk _ _ HS2) in Et. specialize (Facc n Et). unfold contributions in Facc. rewrite flat_map_nil' in Facc.
      * cbn [accAll] in Facc. rewrite Hg2, Hnr in Facc. congruence.
      * intros c Hc. apply flat_map_nil'. intros e He. unfold contrib_e.
        destruct (fst e =? n) eqn:Ee; [|reflexivity]. apply Nat.eqb_eq in Ee. exfalso. apply Hn.
        rewrite <- Ee. eapply ordered_in; eauto; rewrite Ee; exact Et.
    + rewrite (sameS_trk _ _ HS2) in Et. rewrite (Fun n Et), Hg2, Hnr. reflexivity.
  - intros n Hn. assert (Et : trackedOf h2 n = true) by (apply Htr2; exact Hn).
    specialize (Facc n Et). rewrite <- (contributions_sameS h' h h2 order n HS2) in Facc.
    rewrite Hg2 in Facc. destruct (n =? root) eqn:Enr.
    + apply Nat.eqb_eq in Enr. subst n. cbn [app accAll]. rewrite <- (Hg1 root), Hacc. exact Facc.
    + cbn [app]. exact Facc.
  - intros c e Hc Hg He Ht. apply (Fok c e Hc Hg); [rewrite <- (sameS_edges _ _ HS2); exact He|].
    rewrite <- (sameS_trk _ _ HS2). exact Ht.
  - rewrite Flog. apply app_nil_r.
Qed.

(* ------------------------------------------------------------------------------------ *)
(* 4. counting the rule evaluations                                                      *)
(* ------------------------------------------------------------------------------------ *)

(* process_edge / process_node / bp_topo instrumented with a counter of eval_rule calls *)
Definition process_edge_cnt (c : nat) (st : heap * res unit * nat) (e : nat * rule) : heap * res unit * nat :=
  match st with
  | (h, Ok _, k) =>
      if trackedOf h (fst e) then
        match eval_rule rd h (snd e) with
        | Ok g => (accumulate h (fst e) g, S k)
        | Err => (h, Err, S k)
        | Panic => (h, Panic, S k)
        end
      else (h, Ok tt, k)
  | _ => st
  end.

Definition process_node_cnt (st : heap * list (nat * T) * res unit * nat) (c : nat)
  : heap * list (nat * T) * res unit * nat :=
  match st with
  | (h, log, Ok _, k) =>
      match nth_error h c with
      | Some n =>
          match ngrad n with
          | Some g =>
              let h1 := setGrad h c (Some g) in
              let '(h2, r, k2) := fold_left (process_edge_cnt c) (nedges n) (h1, Ok tt, k) in
              (h2, (c, g) :: log, r, k2)
          | None => (h, log, Ok tt, k)
          end
      | None => (h, log, Panic, k)
      end
  | _ => st
  end.

Definition bp_topo_cnt (h : heap) (root : nat) : heap * list (nat * T) * res unit * nat :=
  if negb (trackedOf h root) then (h, [], Ok tt, 0) else
  let order := topoOrder h root in
  let h1 := markDirty h order in
  match valOf h1 root with
  | None => (h, [], Panic, 0)
  | Some rv =>
      match toOnes rv with
      | Ok ones =>
          match accumulate h1 root ones with
          | (h2, Ok _) => fold_left process_node_cnt order (h2, [], Ok tt, 0)
          | (h2, Err) => (h2, [], Err, 0)
          | (h2, Panic) => (h2, [], Panic, 0)
          end
      | Err => (h1, [], Err, 0)
      | Panic => (h1, [], Panic, 0)
      end
  end.

Definition graded (hh : heap) (c : nat) : bool := match gradOf hh c with Some _ => true | None => false end.

Lemma pe_cnt_step c st k e : fst (process_edge_cnt c (st, k) e) = process_edge rd c st e.
Proof.
  destruct st as [h [[]| |]]; cbn [process_edge_cnt process_edge]; [|reflexivity|reflexivity].
  destruct (trackedOf h (fst e)); [|reflexivity]. destruct (eval_rule rd h (snd e)); reflexivity.
Qed.

Lemma pe_cnt_fst c es : forall st k,
  fst (fold_left (process_edge_cnt c) es (st, k)) = fold_left (process_edge rd c) es st.
Proof.
  induction es as [|e es IH]; intros st k; cbn [fold_left]; [reflexivity|].
  rewrite <- (pe_cnt_step c st k e). destruct (process_edge_cnt c (st, k) e) as [st1 k1]. apply IH.
Qed.

Lemma pe_cnt_sticky c es : forall (h : heap) r k, r <> Ok tt ->
  fold_left (process_edge_cnt c) es (h, r, k) = (h, r, k).
Proof.
  induction es as [|e es IH]; intros h r k Hr; cbn [fold_left]; [reflexivity|].
  destruct r as [[]| |]; [congruence| |]; cbn [process_edge_cnt]; apply IH; assumption.
Qed.

Lemma pe_cnt_count c es : forall (h : heap) k st' k',
  fold_left (process_edge_cnt c) es (h, Ok tt, k) = (st', k') -> snd st' = Ok tt ->
  k' = k + length (filter (fun e => trackedOf h (fst e)) es).
Proof.
  induction es as [|e es IH]; intros h k st' k' E Hok; cbn [fold_left] in E.
  - inversion E. cbn. lia.
  - cbn [process_edge_cnt filter] in E |- *. destruct (trackedOf h (fst e)) eqn:Et.
    + destruct (eval_rule rd h (snd e)) as [g| |].
      * destruct (accumulate h (fst e) g) as [h1 r1] eqn:Ea. destruct r1 as [[]| |].
        -- destruct (accumulate_ok _ _ _ _ _ Ea eq_refl) as (o' & _ & Hh1).
           rewrite (IH h1 (S k) st' k' E Hok). cbn [length].
           rewrite (filter_ext (fun e0 => trackedOf h1 (fst e0)) (fun e0 => trackedOf h (fst e0))); [lia|].
           intros e0. subst h1. apply trackedOf_setGrad.
        -- rewrite pe_cnt_sticky in E by discriminate. inversion E; subst st'. discriminate.
        -- rewrite pe_cnt_sticky in E by discriminate. inversion E; subst st'. discriminate.
      * rewrite pe_cnt_sticky in E by discriminate. inversion E; subst st'. discriminate.
      * rewrite pe_cnt_sticky in E by discriminate. inversion E; subst st'. discriminate.
    + apply (IH h k st' k' E Hok).
Qed.

Lemma pn_cnt_step st k c : fst (process_node_cnt (st, k) c) = process_node rd idseal st c.
Proof.
  destruct st as [[h log] [[]| |]]; cbn [process_node_cnt process_node]; [|reflexivity|reflexivity].
  destruct (nth_error h c) as [n|]; [|reflexivity]. destruct (ngrad n) as [g|]; [|reflexivity].
  rewrite <- (pe_cnt_fst c (nedges n) (setGrad h c (Some g), Ok tt) k).
  destruct (fold_left (process_edge_cnt c) (nedges n) (setGrad h c (Some g), Ok tt, k)) as [[h2 r] k2].
  reflexivity.
Qed.

Lemma pn_cnt_fst l : forall st k,
  fst (fold_left process_node_cnt l (st, k)) = fold_left (process_node rd idseal) l st.
Proof.
  induction l as [|c l IH]; intros st k; cbn [fold_left]; [reflexivity|].
  rewrite <- (pn_cnt_step st k c). destruct (process_node_cnt (st, k) c) as [st1 k1]. apply IH.
Qed.

Lemma pn_cnt_count (h : heap) log k c st' k' :
  process_node_cnt (h, log, Ok tt, k) c = (st', k') -> snd st' = Ok tt ->
  k' = k + (if graded h c then length (filter (fun e => trackedOf h (fst e)) (edgesOf h c)) else 0).
Proof.
  cbn [process_node_cnt]. unfold graded, gradOf, edgesOf. destruct (nth_error h c) as [n|]; [|intros E; inversion E; subst st'; discriminate].
  cbn [obind]. destruct (ngrad n) as [g|]; [|intros E _; inversion E; lia].
  destruct (fold_left (process_edge_cnt c) (nedges n) (setGrad h c (Some g), Ok tt, k)) as [[h2 r] k2] eqn:Ef.
  intros E Hok. inversion E; subst st' k'. cbn [snd] in Hok. subst r.
  rewrite (pe_cnt_count _ _ _ _ _ _ Ef eq_refl). f_equal. f_equal. apply filter_ext. intros e0. apply trackedOf_setGrad.
Qed.

Lemma bp_fold_untouched l (h : heap) log h' log' c :
  rules_own h -> wf_heap h -> NoDup (c :: l) -> ordered h (c :: l) -> (forall c0, In c0 (c :: l) -> trackedOf h c0 = true) ->
  fold_left (process_node rd idseal) l (h, log, Ok tt) = (h', log', Ok tt) ->
  gradOf h' c = gradOf h c.
Proof.
  intros Hown Hwf Hnd Hord Htr E. apply NoDup_cons_iff in Hnd. destruct Hnd as [Hnc Hnd]. destruct Hord as [Hc Hord].
  assert (Htr' : forall c0, In c0 l -> trackedOf h c0 = true) by (intros c0 H0; apply Htr; right; exact H0).
  destruct (bp_fold_spec _ _ _ _ _ Hown Hwf Hnd Hord Htr' E) as (_ & Iacc & _).
  assert (Hct : trackedOf h c = true) by (apply Htr; left; reflexivity).
  specialize (Iacc c Hct). unfold contributions in Iacc. rewrite flat_map_nil' in Iacc; [cbn [accAll] in Iacc; congruence|].
  intros c' Hc'. apply flat_map_nil'. intros e He. unfold contrib_e.
  destruct (fst e =? c) eqn:Ee; [|reflexivity]. apply Nat.eqb_eq in Ee. exfalso. apply Hnc.
  rewrite <- Ee. eapply ordered_in; eauto; rewrite Ee; exact Hct.
Qed.

Definition tracked_edges (h : heap) (l : list nat) : list (nat * rule) :=
  flat_map (fun c => filter (fun e => trackedOf h (fst e)) (edgesOf h c)) l.

Lemma tracked_edges_sameS (h1 h2 : heap) l : sameS h1 h2 -> tracked_edges h1 l = tracked_edges h2 l.
Proof.
  intros HS. unfold tracked_edges. apply flat_map_ext_in'. intros c _. rewrite (sameS_edges _ _ HS).
  apply filter_ext. intros e. apply (sameS_trk _ _ HS).
Qed.

Lemma bp_fold_cnt l : forall (h : heap) log k h' log' r' k',
  rules_own h -> wf_heap h -> NoDup l -> ordered h l -> (forall c, In c l -> trackedOf h c = true) ->
  fold_left process_node_cnt l (h, log, Ok tt, k) = (h', log', r', k') -> r' = Ok tt ->
  k' = k + length (tracked_edges h (filter (graded h') l)).
Proof.
  induction l as [|c l IH]; intros h log k h' log' r' k' Hown Hwf Hnd Hord Htr E Hok.
  - cbn [fold_left] in E. inversion E. cbn. lia.
  - subst r'. pose proof (pn_cnt_fst (c :: l) (h, log, Ok tt) k) as Hf. rewrite E in Hf. cbn [fst] in Hf. symmetry in Hf.
    destruct (pn_fold_cons _ _ _ _ _ _ Hf) as (h1 & log1 & E1 & E2).
    cbn [fold_left] in E. pose proof (pn_cnt_step (h, log, Ok tt) k c) as Hs. rewrite E1 in Hs.
    destruct (process_node_cnt (h, log, Ok tt, k) c) as [st1 k1] eqn:Ec. cbn [fst] in Hs. subst st1.
    pose proof (pn_cnt_count _ _ _ _ _ _ Ec eq_refl) as Hk1.
    destruct (process_node_spec _ _ _ _ _ Hown Hwf E1) as (NS & Nc & _).
    assert (Hnd' : NoDup l) by (apply NoDup_cons_iff in Hnd; tauto).
    assert (Hown1 : rules_own h1) by (eapply rules_own_sameS; eauto).
    assert (Hwf1 : wf_heap h1) by (eapply wf_heap_sameS; eauto).
    assert (Hord1 : ordered h1 (c :: l)) by (eapply ordered_sameS; eauto).
    assert (Htr1 : forall c0, In c0 (c :: l) -> trackedOf h1 c0 = true).
    { intros c0 H0. rewrite <- (sameS_trk _ _ NS). apply Htr. exact H0. }
    pose proof (bp_fold_untouched _ _ _ _ _ _ Hown1 Hwf1 Hnd Hord1 Htr1 E2) as Hfin.
    rewrite (IH h1 log1 k1 h' log' (Ok tt) k' Hown1 Hwf1 Hnd' (proj2 Hord1) (fun c0 H0 => Htr1 c0 (or_intror H0)) E eq_refl).
    rewrite Hk1. rewrite <- (tracked_edges_sameS _ _ (filter (graded h') l) NS).
    cbn [filter]. assert (Hg : graded h' c = graded h c) by (unfold graded; rewrite Hfin, Nc; reflexivity).
    rewrite Hg. destruct (graded h c).
    + unfold tracked_edges at 2. cbn [flat_map]. rewrite app_length. fold (tracked_edges h (filter (graded h') l)). lia.
    + lia.
Qed.

Lemma bp_topo_cnt_fst (h : heap) root : fst (bp_topo_cnt h root) = bp_topo rd idseal h root.
Proof.
  unfold bp_topo_cnt, bp_topo. destruct (negb (trackedOf h root)); [reflexivity|].
  destruct (valOf (markDirty h (topoOrder h root)) root) as [rv|]; [|reflexivity].
  destruct (toOnes rv) as [ones| |]; [|reflexivity|reflexivity].
  destruct (accumulate (markDirty h (topoOrder h root)) root ones) as [h2 [[]| |]]; [|reflexivity|reflexivity].
  apply pn_cnt_fst.
Qed.

Lemma flat_map_edgesOf_seq : forall (h pre : heap),
  flat_map (edgesOf (pre ++ h)) (seq (length pre) (length h)) = flat_map (@nedges A) h.
Proof.
  induction h as [|x h IH]; intros pre; cbn [length seq flat_map]; [reflexivity|]. f_equal.
  - unfold edgesOf. rewrite nth_error_app2 by lia. rewrite Nat.sub_diag. reflexivity.
  - specialize (IH (pre ++ [x])). rewrite <- app_assoc in IH. cbn [app] in IH.
    rewrite app_length in IH. cbn [length] in IH. rewrite Nat.add_1_r in IH. exact IH.
Qed.

Lemma tracked_edges_le (h : heap) l :
  NoDup l -> (forall c, In c l -> c < length h) ->
  length (tracked_edges h l) <= length (flat_map (@nedges A) h).
Proof.
  intros Hnd Hlt. rewrite <- (flat_map_edgesOf_seq h []). cbn [app length].
  apply Nat.le_trans with (length (flat_map (edgesOf h) l)).
  - unfold tracked_edges. clear. induction l as [|c l IH]; cbn [flat_map]; [lia|].
    rewrite !app_length. pose proof (filter_length_le (fun e => trackedOf h (fst e)) (edgesOf h c)). lia.
  - apply flat_map_length_incl; [exact Hnd|]. intros c Hc. apply in_seq. specialize (Hlt c Hc). lia.
Qed.

(* RULE COUNT: the instrumented run is the run, and it evaluates each tracked back edge of each
   member of the order that carries a gradient exactly once *)
Theorem bp_topo_rule_count (h : heap) root h' log k :
  rules_own h -> wf_heap h -> trackedOf h root = true ->
  let order := topoOrder h root in
  NoDup order -> (forall c, In c order -> trackedOf h c = true) -> ordered h order ->
  bp_topo_cnt h root = (h', log, Ok tt, k) ->
  bp_topo rd idseal h root = (h', log, Ok tt) /\
  k = length (tracked_edges h (filter (graded h') order)) /\
  k <= length (flat_map (@nedges A) h).
Proof.
  intros Hown Hwf Hroot order Hnd Htr Hord E.
  assert (E0 : bp_topo rd idseal h root = (h', log, Ok tt)) by (rewrite <- bp_topo_cnt_fst, E; reflexivity).
  split; [exact E0|].
  assert (Hk : k = length (tracked_edges h (filter (graded h') order))).
  { unfold bp_topo_cnt in E. rewrite Hroot in E. cbn [negb] in E. fold order in E.
    set (h1 := markDirty h order) in *.
    destruct (valOf h1 root) as [rv|]; [|inversion E].
    destruct (toOnes rv) as [ones| |]; [|inversion E|inversion E].
    destruct (accumulate h1 root ones) as [h2 r] eqn:Ea.
    destruct r as [[]| |]; [|inversion E|inversion E].
    destruct (accumulate_ok _ _ _ _ _ Ea eq_refl) as (o' & _ & Hh2).
    assert (HS2 : sameS h h2) by (eapply sameS_trans; [apply sameS_markDirty|subst h2; apply sameS_setGrad]).
    assert (Htr2 : forall c, In c order -> trackedOf h2 c = true).
    { intros c Hc. rewrite <- (sameS_trk _ _ HS2). apply Htr. exact Hc. }
    rewrite (bp_fold_cnt _ _ _ _ _ _ _ _ (rules_own_sameS _ _ HS2 Hown) (wf_heap_sameS _ _ HS2 Hwf) Hnd
                         (ordered_sameS _ _ _ HS2 Hord) Htr2 E eq_refl).
    cbn [Nat.add]. rewrite (tracked_edges_sameS _ _ _ HS2). reflexivity. }
  split; [exact Hk|]. rewrite Hk. apply tracked_edges_le.
  - apply NoDup_filter. exact Hnd.
  - intros c Hc. apply filter_In in Hc. apply tracked_lt. apply Htr. apply Hc.
Qed.

(* when every member of the order other than the root is an edge target of a member (as in a DFS order),
   every member ends with a gradient: all its tracked back edges were evaluated, successfully *)
Theorem bp_topo_graded (h : heap) root h' log :
  rules_own h -> wf_heap h -> trackedOf h root = true ->
  let order := topoOrder h root in
  NoDup order -> (forall c, In c order -> trackedOf h c = true) -> ordered h order -> In root order ->
  (forall c, In c order -> c = root \/ exists p e, In p order /\ In e (edgesOf h p) /\ fst e = c) ->
  bp_topo rd idseal h root = (h', log, Ok tt) ->
  (forall c, In c order -> gradOf h' c <> None) /\
  (forall c e, In c order -> In e (edgesOf h c) -> trackedOf h (fst e) = true -> exists g, eval_rule rd h' (snd e) = Ok g) /\
  filter (graded h') order = order.
Proof.
  intros Hown Hwf Hroot order Hnd Htr Hord Hin Hreach E.
  destruct (bp_topo_adjoint h root h' log Hown Hwf Hroot Hnd Htr Hord Hin E)
    as (rv & ones & _ & _ & _ & _ & _ & Hacc & Hok & _).
  assert (Hg : forall k c, In c order -> length h <= c + k -> gradOf h' c <> None).
  { induction k as [|k IHk]; intros c Hc Hlen.
    - pose proof (tracked_lt _ _ (Htr c Hc)). lia.
    - specialize (Hacc c Hc). destruct (Hreach c Hc) as [->|(p & e & Hp & He & Hfe)].
      + rewrite Nat.eqb_refl in Hacc. eapply accAll_nonempty; [exact Hacc|]. cbn [app]. discriminate.
      + assert (Hpc : fst e < p) by (apply (wf_heap_edgesOf _ Hwf _ _ He)).
        assert (Hgp : gradOf h' p <> None) by (apply IHk; [exact Hp|lia]).
        assert (Ht : trackedOf h (fst e) = true) by (rewrite Hfe; apply Htr; exact Hc).
        destruct (Hok p e Hp Hgp He Ht) as (g & Hgv).
        eapply accAll_nonempty; [exact Hacc|]. intros Hnil. apply app_eq_nil in Hnil. destruct Hnil as [_ Hnil].
        assert (Hing : In g (contributions h' h order c)).
        { unfold contributions. apply in_flat_map. exists p. split; [exact Hp|]. apply in_flat_map. exists e.
          split; [exact He|]. unfold contrib_e. rewrite Hfe, Nat.eqb_refl, Hgv. left. reflexivity. }
        fold order in Hnil. rewrite Hnil in Hing. destruct Hing. }
  assert (Hall : forall c, In c order -> gradOf h' c <> None).
  { intros c Hc. apply (Hg (length h) c Hc). lia. }
  split; [exact Hall|]. split.
  - intros c e Hc He Ht. apply (Hok c e Hc (Hall c Hc) He Ht).
  - apply filter_all. intros c Hc. unfold graded.
    specialize (Hall c Hc). destruct (gradOf h' c); [reflexivity|congruence].
Qed.

End Run.

(* ------------------------------------------------------------------------------------ *)
(* 2. rules_own and wf_heap hold for every heap built through the API                    *)
(* ------------------------------------------------------------------------------------ *)

Definition edges_ok (P : nat -> nat * rule -> Prop) (h : heap) : Prop :=
  forall c n e, nth_error h c = Some n -> In e (nedges n) -> P c e.
Definition Pown : nat -> nat * rule -> Prop := fun c e => rule_y (snd e) = c.
Definition Pwf : nat -> nat * rule -> Prop := fun c e => fst e < c.

Lemma rules_own_edges_ok h : rules_own h <-> edges_ok Pown h.
Proof. split; intros H; exact H. Qed.
Lemma wf_heap_edges_ok h : wf_heap h <-> edges_ok Pwf h.
Proof. split; intros H; exact H. Qed.

Lemma valOf_lt (h : heap) x v : valOf h x = Some v -> x < length h.
Proof.
  unfold valOf. destruct (nth_error h x) eqn:E; [|discriminate]. intros _. apply nth_error_Some. congruence.
Qed.

Lemma edges_ok_nil P : edges_ok P [].
Proof. intros c n e Hn. destruct c; discriminate. Qed.

Lemma edges_ok_alloc P (h : heap) v tr di es name :
  edges_ok P h -> (forall e, In e es -> P (length h) e) ->
  edges_ok P (fst (alloc h v (tr, di, es) name)).
Proof.
  intros H Hes c n e Hn He. cbn [alloc fst] in Hn.
  destruct (Nat.lt_ge_cases c (length h)) as [Hlt|Hge].
  - rewrite nth_error_app1 in Hn by exact Hlt. eapply H; eauto.
  - rewrite nth_error_app2 in Hn by exact Hge. destruct (c - length h) as [|k] eqn:Ek.
    + cbn [nth_error] in Hn. inversion Hn; subst n. cbn [nedges] in He.
      assert (Hc : c = length h) by lia. subst c. apply Hes; exact He.
    + cbn [nth_error] in Hn. destruct k; discriminate.
Qed.

Lemma edges_ok_alloc_ctx P (h : heap) v ops es name :
  edges_ok P h -> (forall e, In e es -> P (length h) e) ->
  edges_ok P (fst (alloc h v (mkCtx h ops es) name)).
Proof.
  intros H Hes. unfold mkCtx. destruct (existsb (dirtyOf h) ops).
  - apply edges_ok_alloc; [exact H|intros e []].
  - destruct (negb (existsb (trackedOf h) ops)).
    + apply edges_ok_alloc; [exact H|intros e []].
    + apply edges_ok_alloc; assumption.
Qed.

Lemma alloc_fst (h : heap) v ctx name h' id : alloc h v ctx name = (h', id) -> h' = fst (alloc h v ctx name).
Proof. intros E. rewrite E. reflexivity. Qed.

Lemma edges_ok_leaf P (h : heap) v tracked name : edges_ok P h -> edges_ok P (fst (leaf h v tracked name)).
Proof. intros H. unfold leaf. apply edges_ok_alloc; [exact H|intros e []]. Qed.

Lemma edges_ok_op1 P (h : heap) x f mkrule name :
  edges_ok P h -> (x < length h -> P (length h) (x, mkrule (length h))) ->
  edges_ok P (fst (h_op1 h x f mkrule name)).
Proof.
  intros H HP. unfold h_op1. destruct (valOf h x) as [xv|] eqn:Ev; [|exact H].
  destruct (f xv) as [v| |]; [|exact H|exact H]. cbv zeta.
  destruct (alloc h v (mkCtx h [x] [(x, mkrule (length h))]) name) as [h' id] eqn:Ea.
  apply alloc_fst in Ea. cbn [fst]. subst h'. apply edges_ok_alloc_ctx; [exact H|].
  intros e [<-|[]]. apply HP. eapply valOf_lt; eauto.
Qed.

Lemma edges_ok_cmp P (h : heap) b x u name : edges_ok P h -> edges_ok P (fst (h_cmp h b x u name)).
Proof.
  intros H. unfold h_cmp. destruct (valOf h x) as [xv|]; [|exact H]. destruct (valOf h u) as [uv|]; [|exact H].
  destruct (v_same b xv uv) as [v| |]; [|exact H|exact H].
  destruct (alloc h v (false, false, []) name) as [h' id] eqn:Ea. apply alloc_fst in Ea. cbn [fst]. subst h'.
  apply edges_ok_alloc; [exact H|intros e []].
Qed.

Lemma edges_ok_elsel P (h : heap) b x u name :
  edges_ok P h ->
  (x < length h -> u < length h ->
   P (length h) (x, RElSel (length h) x u) /\ P (length h) (u, RElSel (length h) u x)) ->
  edges_ok P (fst (h_elsel h b x u name)).
Proof.
  intros H HP. unfold h_elsel. destruct (valOf h x) as [xv|] eqn:Ex; [|exact H].
  destruct (valOf h u) as [uv|] eqn:Eu; [|exact H].
  destruct (v_same b xv uv) as [v| |]; [|exact H|exact H]. cbv zeta.
  destruct (alloc h v (mkCtx h [x; u] [(x, RElSel (length h) x u); (u, RElSel (length h) u x)]) name) as [h' id] eqn:Ea.
  apply alloc_fst in Ea. cbn [fst]. subst h'. apply edges_ok_alloc_ctx; [exact H|].
  destruct HP as [P1 P2]; [eapply valOf_lt; eauto|eapply valOf_lt; eauto|].
  intros e [<-|[<-|[]]]; assumption.
Qed.

Lemma edges_ok_patch P (h : heap) x index p name :
  edges_ok P h ->
  (x < length h -> p < length h ->
   P (length h) (x, RPatchX (length h) p index) /\ P (length h) (p, RPatchP (length h) p index)) ->
  edges_ok P (fst (h_patch h x index p name)).
Proof.
  intros H HP. unfold h_patch. destruct (valOf h x) as [xv|] eqn:Ex; [|exact H].
  destruct (valOf h p) as [pv|] eqn:Ep; [|exact H].
  destruct (v_patch xv index pv) as [v| |]; [|exact H|exact H]. cbv zeta.
  destruct (alloc h v (mkCtx h [x; p] [(x, RPatchX (length h) p index); (p, RPatchP (length h) p index)]) name) as [h' id] eqn:Ea.
  apply alloc_fst in Ea. cbn [fst]. subst h'. apply edges_ok_alloc_ctx; [exact H|].
  destruct HP as [P1 P2]; [eapply valOf_lt; eauto|eapply valOf_lt; eauto|].
  intros e [<-|[<-|[]]]; assumption.
Qed.

Lemma edges_ok_bcast2 (P : nat -> nat * rule -> Prop) (h : heap) x u s1 s2 :
  (forall y a, a < y -> P y (a, RBroadcast y a)) ->
  edges_ok P h -> edges_ok P (fst (h_bcast2 h x u s1 s2)).
Proof.
  intros Pbc H. unfold h_bcast2.
  assert (H1 : edges_ok P (fst (h_broadcast h x s1 None))).
  { unfold h_broadcast. apply edges_ok_op1; [exact H|]. intros Hx. apply Pbc. exact Hx. }
  destruct (h_broadcast h x s1 None) as [h1 [b1| |]]; cbn [fst] in *; [|exact H|exact H].
  assert (H2 : edges_ok P (fst (h_broadcast h1 u s2 None))).
  { unfold h_broadcast. apply edges_ok_op1; [exact H1|]. intros Hx. apply Pbc. exact Hx. }
  destruct (h_broadcast h1 u s2 None) as [h2 [b2| |]]; cbn [fst] in *; [exact H2|exact H|exact H].
Qed.

Lemma edges_ok_binop (P : nat -> nat * rule -> Prop) (h : heap) x u s1 s2 f edges name :
  (forall y a, a < y -> P y (a, RBroadcast y a)) ->
  (forall y a1 a2 e, a1 < y -> a2 < y -> In e (edges y a1 a2) -> P y e) ->
  edges_ok P h -> edges_ok P (fst (h_binop h x u s1 s2 f edges name)).
Proof.
  intros Pbc Ped H. unfold h_binop.
  pose proof (edges_ok_bcast2 P h x u s1 s2 Pbc H) as H2.
  destruct (h_bcast2 h x u s1 s2) as [h2 [[b1 b2]| |]]; cbn [fst] in *; [|exact H|exact H].
  destruct (valOf h2 b1) as [v1|] eqn:E1; [|exact H]. destruct (valOf h2 b2) as [v2|] eqn:E2; [|exact H].
  destruct (f v1 v2) as [v|]; [|exact H]. cbv zeta.
  destruct (alloc h2 v (mkCtx h2 [b1; b2] (edges (length h2) b1 b2)) name) as [h3 id] eqn:Ea.
  apply alloc_fst in Ea. cbn [fst]. subst h3. apply edges_ok_alloc_ctx; [exact H2|].
  intros e He. apply (Ped (length h2) b1 b2 e); [eapply valOf_lt; eauto|eapply valOf_lt; eauto|exact He].
Qed.

Lemma concatEdges_in y dim xs : forall base e, In e (concatEdges y dim xs base) ->
  rule_y (snd e) = y /\ In (fst e) (map fst xs).
Proof.
  induction xs as [|[x xv] xs IH]; intros base e He; cbn [concatEdges] in He; [destruct He|].
  destruct He as [<-|He].
  - split; [reflexivity|left; reflexivity].
  - destruct (IH _ _ He) as [I1 I2]. split; [exact I1|right; exact I2].
Qed.

Lemma mapM_in_some {X Y} (f : X -> option Y) l r : mapM f l = Some r -> forall x, In x l -> exists y, f x = Some y.
Proof.
  revert r. induction l as [|a l IH]; intros r H x Hx; [destruct Hx|]. cbn [mapM] in H.
  destruct (f a) as [y|] eqn:Ea; [|discriminate]. cbn [obind] in H.
  destruct (mapM f l) as [ys|] eqn:El; [|discriminate]. destruct Hx as [<-|Hx]; [eauto|]. eapply IH; eauto.
Qed.

Lemma edges_ok_concat (P : nat -> nat * rule -> Prop) (h : heap) xs dim name :
  (forall y a r, a < y -> rule_y r = y -> P y (a, r)) ->
  edges_ok P h -> edges_ok P (fst (h_concat h xs dim name)).
Proof.
  intros HP H. unfold h_concat. destruct (mapM (valOf h) xs) as [vs|] eqn:Em; [|exact H].
  destruct (v_concat vs dim) as [v| |]; [|exact H|exact H]. cbv zeta.
  destruct (alloc h v (mkCtx h xs (concatEdges (length h) (Z.to_nat dim) (combine xs vs) 0)) name) as [h' id] eqn:Ea.
  apply alloc_fst in Ea. cbn [fst]. subst h'. apply edges_ok_alloc_ctx; [exact H|].
  intros [a r] He. apply concatEdges_in in He. cbn [fst snd] in He. destruct He as [Hy Hin].
  apply HP; [|exact Hy]. apply in_map_iff in Hin. destruct Hin as ([a' v'] & Ha & Hin). cbn [fst] in Ha. subst a'.
  apply in_combine_l in Hin. destruct (mapM_in_some _ _ _ Em _ Hin) as (y & Hyv). eapply valOf_lt; eauto.
Qed.

Lemma edges_ok_updNode P (h : heap) i f :
  (forall n e, In e (nedges (f n)) -> In e (nedges n)) -> edges_ok P h -> edges_ok P (updNode h i f).
Proof.
  intros Hf H c n e Hn He. rewrite nth_error_updNode in Hn. destruct (nth_error h c) as [n0|] eqn:E0; [|discriminate].
  inversion Hn; subst n. destruct (c =? i); [apply Hf in He|]; eapply H; eauto.
Qed.

Lemma edges_ok_reset P (h : heap) x tracked : edges_ok P h -> edges_ok P (h_reset h x tracked).
Proof. intros H. unfold h_reset. apply edges_ok_updNode; [|exact H]. intros n e []. Qed.
Lemma edges_ok_setGrad P (h : heap) i g : edges_ok P h -> edges_ok P (setGrad h i g).
Proof. intros H. unfold setGrad. apply edges_ok_updNode; [|exact H]. intros n e He. exact He. Qed.
Lemma edges_ok_markDirty P (h : heap) l : edges_ok P h -> edges_ok P (markDirty h l).
Proof.
  intros H c n e Hn He. rewrite nth_error_markDirty in Hn. destruct (nth_error h c) as [n0|] eqn:E0; [|discriminate].
  inversion Hn; subst n. destruct (memb c l); eapply H; eauto.
Qed.

(* --- the two invariants, method by method --- *)
Lemma Pown_bc : forall y a, a < y -> Pown y (a, RBroadcast y a).
Proof. intros y a _. reflexivity. Qed.
Lemma Pwf_bc : forall y a, a < y -> Pwf y (a, @RBroadcast A y a).
Proof. intros y a H. exact H. Qed.

Lemma rules_own_nil : rules_own [].
Proof. apply edges_ok_nil. Qed.
Lemma wf_heap_nil : wf_heap [].
Proof. apply edges_ok_nil. Qed.

Lemma rules_own_leaf h v tracked name : rules_own h -> rules_own (fst (leaf h v tracked name)).
Proof. apply edges_ok_leaf. Qed.
Lemma wf_heap_leaf h v tracked name : wf_heap h -> wf_heap (fst (leaf h v tracked name)).
Proof. apply edges_ok_leaf. Qed.

Lemma rules_own_op1 h x f mkrule name :
  (forall y, rule_y (mkrule y) = y) -> rules_own h -> rules_own (fst (h_op1 h x f mkrule name)).
Proof. intros Hm H. apply edges_ok_op1; [exact H|]. intros _. apply Hm. Qed.
Lemma wf_heap_op1 h x f mkrule name : wf_heap h -> wf_heap (fst (h_op1 h x f mkrule name)).
Proof. intros H. apply edges_ok_op1; [exact H|]. intros Hx. exact Hx. Qed.

Lemma rules_own_slice h x index name : rules_own h -> rules_own (fst (h_slice h x index name)).
Proof. apply rules_own_op1. reflexivity. Qed.
Lemma rules_own_transpose h x name : rules_own h -> rules_own (fst (h_transpose h x name)).
Proof. apply rules_own_op1. reflexivity. Qed.
Lemma rules_own_reshape h x shape name : rules_own h -> rules_own (fst (h_reshape h x shape name)).
Proof. apply rules_own_op1. reflexivity. Qed.
Lemma rules_own_unsqueeze h x dim name : rules_own h -> rules_own (fst (h_unsqueeze h x dim name)).
Proof. apply rules_own_op1. reflexivity. Qed.
Lemma rules_own_squeeze h x dim name : rules_own h -> rules_own (fst (h_squeeze h x dim name)).
Proof. apply rules_own_op1. reflexivity. Qed.
Lemma rules_own_flatten h x dim name : rules_own h -> rules_own (fst (h_flatten h x dim name)).
Proof. apply rules_own_op1. reflexivity. Qed.
Lemma rules_own_broadcast h x shape name : rules_own h -> rules_own (fst (h_broadcast h x shape name)).
Proof. apply rules_own_op1. reflexivity. Qed.
Lemma rules_own_reduceAlong h r x dim name : rules_own h -> rules_own (fst (h_reduceAlong h r x dim name)).
Proof. apply rules_own_op1. intros y. destruct r; reflexivity. Qed.
Lemma rules_own_scale h x a name : rules_own h -> rules_own (fst (h_scale h x a name)).
Proof. apply rules_own_op1. reflexivity. Qed.
Lemma rules_own_pow h x a az name : rules_own h -> rules_own (fst (h_pow h x a az name)).
Proof. apply rules_own_op1. reflexivity. Qed.
Lemma rules_own_math h f x name : rules_own h -> rules_own (fst (h_math h f x name)).
Proof. apply rules_own_op1. intros y. destruct f; reflexivity. Qed.

Lemma rules_own_cmp h b x u name : rules_own h -> rules_own (fst (h_cmp h b x u name)).
Proof. apply edges_ok_cmp. Qed.
Lemma wf_heap_cmp h b x u name : wf_heap h -> wf_heap (fst (h_cmp h b x u name)).
Proof. apply edges_ok_cmp. Qed.

Lemma rules_own_elsel h b x u name : rules_own h -> rules_own (fst (h_elsel h b x u name)).
Proof. intros H. apply edges_ok_elsel; [exact H|]. intros _ _. split; reflexivity. Qed.
Lemma wf_heap_elsel h b x u name : wf_heap h -> wf_heap (fst (h_elsel h b x u name)).
Proof. intros H. apply edges_ok_elsel; [exact H|]. intros Hx Hu. split; assumption. Qed.

Lemma rules_own_patch h x index p name : rules_own h -> rules_own (fst (h_patch h x index p name)).
Proof. intros H. apply edges_ok_patch; [exact H|]. intros _ _. split; reflexivity. Qed.
Lemma wf_heap_patch h x index p name : wf_heap h -> wf_heap (fst (h_patch h x index p name)).
Proof. intros H. apply edges_ok_patch; [exact H|]. intros Hx Hp. split; assumption. Qed.

Lemma rules_own_binop h x u s1 s2 f edges name :
  (forall y a1 a2 e, In e (edges y a1 a2) -> rule_y (snd e) = y) ->
  rules_own h -> rules_own (fst (h_binop h x u s1 s2 f edges name)).
Proof. intros He H. apply edges_ok_binop; [exact Pown_bc| |exact H]. intros y a1 a2 e _ _ Hi. eapply He; eauto. Qed.
Lemma wf_heap_binop h x u s1 s2 f edges name :
  (forall y a1 a2 e, In e (edges y a1 a2) -> fst e = a1 \/ fst e = a2) ->
  wf_heap h -> wf_heap (fst (h_binop h x u s1 s2 f edges name)).
Proof.
  intros He H. apply edges_ok_binop; [exact Pwf_bc| |exact H]. intros y a1 a2 e H1 H2 Hi. unfold Pwf.
  destruct (He _ _ _ _ Hi) as [-> | ->]; assumption.
Qed.

Lemma arithEdges_in b y a1 a2 e : In e (arithEdges b y a1 a2) ->
  rule_y (snd e) = y /\ (fst e = a1 \/ fst e = a2).
Proof. destruct b; cbn [arithEdges]; intros Hi; repeat (destruct Hi as [<-|Hi]; [cbn; auto|]); destruct Hi. Qed.

Lemma rules_own_arith h b x u name : rules_own h -> rules_own (fst (h_arith h b x u name)).
Proof.
  intros H. unfold h_arith. destruct (valOf h x); [|exact H]. destruct (valOf h u); [|exact H].
  apply rules_own_binop; [|exact H]. intros y a1 a2 e Hi. apply (arithEdges_in _ _ _ _ _ Hi).
Qed.
Lemma wf_heap_arith h b x u name : wf_heap h -> wf_heap (fst (h_arith h b x u name)).
Proof.
  intros H. unfold h_arith. destruct (valOf h x); [|exact H]. destruct (valOf h u); [|exact H].
  apply wf_heap_binop; [|exact H]. intros y a1 a2 e Hi. apply (arithEdges_in _ _ _ _ _ Hi).
Qed.
Lemma rules_own_dot h x u name : rules_own h -> rules_own (fst (h_dot h x u name)).
Proof.
  intros H. unfold h_dot. destruct (valOf h x) as [xv|]; [|exact H]. destruct (valOf h u) as [uv|]; [|exact H].
  destruct (validateDotProductDims (zdims xv) (zdims uv)); [|exact H].
  apply rules_own_binop; [|exact H]. intros y a1 a2 e [<-|[<-|[]]]; reflexivity.
Qed.
Lemma wf_heap_dot h x u name : wf_heap h -> wf_heap (fst (h_dot h x u name)).
Proof.
  intros H. unfold h_dot. destruct (valOf h x) as [xv|]; [|exact H]. destruct (valOf h u) as [uv|]; [|exact H].
  destruct (validateDotProductDims (zdims xv) (zdims uv)); [|exact H].
  apply wf_heap_binop; [|exact H]. intros y a1 a2 e [<-|[<-|[]]]; cbn; auto.
Qed.
Lemma rules_own_matmul h x u name : rules_own h -> rules_own (fst (h_matmul h x u name)).
Proof.
  intros H. unfold h_matmul. destruct (valOf h x) as [xv|]; [|exact H]. destruct (valOf h u) as [uv|]; [|exact H].
  destruct (validateMatMulDims (zdims xv) (zdims uv)); [|exact H].
  apply rules_own_binop; [|exact H]. intros y a1 a2 e [<-|[<-|[]]]; reflexivity.
Qed.
Lemma wf_heap_matmul h x u name : wf_heap h -> wf_heap (fst (h_matmul h x u name)).
Proof.
  intros H. unfold h_matmul. destruct (valOf h x) as [xv|]; [|exact H]. destruct (valOf h u) as [uv|]; [|exact H].
  destruct (validateMatMulDims (zdims xv) (zdims uv)); [|exact H].
  apply wf_heap_binop; [|exact H]. intros y a1 a2 e [<-|[<-|[]]]; cbn; auto.
Qed.

Lemma rules_own_concat h xs dim name : rules_own h -> rules_own (fst (h_concat h xs dim name)).
Proof. apply edges_ok_concat. intros y a r _ Hy. exact Hy. Qed.
Lemma wf_heap_concat h xs dim name : wf_heap h -> wf_heap (fst (h_concat h xs dim name)).
Proof. apply edges_ok_concat. intros y a r Ha _. exact Ha. Qed.

Lemma rules_own_reset h x tracked : rules_own h -> rules_own (h_reset h x tracked).
Proof. apply edges_ok_reset. Qed.
Lemma wf_heap_reset h x tracked : wf_heap h -> wf_heap (h_reset h x tracked).
Proof. apply edges_ok_reset. Qed.
Lemma rules_own_setGrad h i g : rules_own h -> rules_own (setGrad h i g).
Proof. apply edges_ok_setGrad. Qed.
Lemma wf_heap_setGrad h i g : wf_heap h -> wf_heap (setGrad h i g).
Proof. apply edges_ok_setGrad. Qed.
Lemma rules_own_markDirty h l : rules_own h -> rules_own (markDirty h l).
Proof. apply edges_ok_markDirty. Qed.
Lemma wf_heap_markDirty h l : wf_heap h -> wf_heap (markDirty h l).
Proof. apply edges_ok_markDirty. Qed.


(* ------------------------------------------------------------------------------------ *)
(* 6. the order computed by dfs satisfies the hypotheses of the theorems above           *)
(* ------------------------------------------------------------------------------------ *)

(* invariant: post ⊆ visited, ordered post, every open node (visited, not in post) is > bound *)
Definition dinv (h : heap) (b : nat) (st : list nat * list nat) : Prop :=
  incl (snd st) (fst st) /\ ordered h (snd st) /\ NoDup (snd st) /\
  (forall o, In o (fst st) -> ~ In o (snd st) -> b < o) /\ (forall x, In x (snd st) -> trackedOf h x = true).

Definition foldinv (h : heap) (n : nat) (s : list nat * list nat) : Prop :=
  incl (snd s) (fst s) /\ ordered h (snd s) /\ NoDup (snd s) /\ (forall x, In x (snd s) -> trackedOf h x = true) /\
  (forall o, In o (fst s) -> ~ In o (snd s) -> n <= o) /\ In n (fst s) /\ ~ In n (snd s).

Lemma dfs_spec (h : heap) (W : wf_heap h) fuel : forall n st, n < fuel -> dinv h n st ->
  let st' := dfs fuel h n st in
  dinv h n st' /\ (exists new, snd st' = new ++ snd st /\ forall x, In x new -> ~ In x (fst st)) /\
  incl (fst st) (fst st') /\
  (forall o, In o (fst st') -> ~ In o (snd st') -> In o (fst st) /\ ~ In o (snd st)) /\
  (trackedOf h n = true -> In n (snd st')).
Proof.
  induction fuel as [|f IH]; intros n st Hn Hinv; [lia|]. cbn [dfs].
  destruct (negb (trackedOf h n) || memb n (fst st)) eqn:E.
  - cbn zeta. split; [assumption|]. split; [exists []; split; [reflexivity|intros ? []]|].
    split; [apply incl_refl|]. split; [tauto|].
    intros Ht. rewrite Ht in E. cbn in E. apply memb_in in E.
    destruct Hinv as (_ & _ & _ & Hopen & _). destruct (in_dec Nat.eq_dec n (snd st)) as [Hi|Hni]; [assumption|].
    specialize (Hopen n E Hni). lia.
  - apply orb_false_iff in E. destruct E as [Et Em]. apply negb_false_iff in Et.
    assert (Hnv : ~ In n (fst st)) by (intro X; apply memb_in in X; congruence).
    assert (Hs : Forall (fun e => fst e < n) (edgesOf h n)).
    { apply Forall_forall. intros e He. apply (wf_heap_edgesOf _ W _ _ He). }
    assert (Hfold : forall (es : list (nat * rule)) s, Forall (fun e => fst e < n) es -> foldinv h n s ->
       let s' := fold_left (fun s e => dfs f h (fst e) s) es s in
       foldinv h n s' /\ (exists new, snd s' = new ++ snd s /\ forall x, In x new -> ~ In x (fst s)) /\
       incl (fst s) (fst s') /\
       (forall o, In o (fst s') -> ~ In o (snd s') -> In o (fst s) /\ ~ In o (snd s)) /\
       (forall e, In e es -> trackedOf h (fst e) = true -> In (fst e) (snd s'))).
    { induction es as [|e es IHes]; intros s Hes Hs0; cbn [fold_left].
      - cbn zeta. split; [assumption|]. split; [exists []; split; [reflexivity|intros ? []]|].
        split; [apply incl_refl|]. split; [tauto|]. intros ? [].
      - inversion Hes as [|? ? Hm Hes']; subst.
        destruct Hs0 as (A1 & A2 & A3 & A4 & A5 & A6 & A7).
        assert (Hi : dinv h (fst e) s).
        { unfold dinv. repeat split; auto. intros o Ho Hno. specialize (A5 o Ho Hno). lia. }
        destruct (IH (fst e) s ltac:(lia) Hi) as (J & (new & Jn & Jf) & Jv & Jo & Jm). cbn zeta in *.
        set (s1 := dfs f h (fst e) s) in *. destruct J as (B1 & B2 & B3 & B4 & B5).
        assert (Hs1 : foldinv h n s1).
        { unfold foldinv. repeat split; auto.
          - intros o Ho Hno. destruct (Jo o Ho Hno) as [X Y]. apply A5; auto.
          - intros X. rewrite Jn in X. apply in_app_or in X. destruct X as [X|X]; [|tauto]. apply (Jf n X A6). }
        destruct (IHes s1 Hes' Hs1) as (K & (new2 & Kn & Kf) & Kv & Ko & Km). cbn zeta in *.
        split; [assumption|]. split.
        { exists (new2 ++ new). split; [rewrite Kn, Jn, app_assoc; reflexivity|].
          intros x Hx. apply in_app_or in Hx. destruct Hx as [Hx|Hx]; [intro Y; apply (Kf x Hx); auto|auto]. }
        split; [eapply incl_tran; eauto|]. split.
        + intros o Ho Hno. destruct (Ko o Ho Hno) as [X Y]. apply Jo; auto.
        + intros e0 [<-|Hx] Htx; [|auto]. rewrite Kn. apply in_or_app. right. apply Jm. exact Htx. }
    destruct Hinv as (I1 & I2 & I3 & I4 & I5).
    assert (H0 : foldinv h n (n :: fst st, snd st)).
    { unfold foldinv; cbn [fst snd]. repeat split; auto.
      - intros x Hx; right; auto.
      - intros o [->|Ho] Hno; [lia|]. specialize (I4 o Ho Hno). lia.
      - left; reflexivity. }
    destruct (Hfold (edgesOf h n) _ Hs H0) as (K & (new & Kn & Kf) & Kv & Ko & Km). cbn zeta in *.
    set (st2 := fold_left (fun s e => dfs f h (fst e) s) (edgesOf h n) (n :: fst st, snd st)) in *.
    destruct K as (K1 & K2 & K3 & K4 & K5 & K6 & K7). cbn [fst snd] in *.
    split.
    { unfold dinv; cbn [fst snd]. repeat split.
      - intros x [->|Hx]; auto.
      - intros e He Ht. apply Km; auto.
      - assumption.
      - constructor; assumption.
      - intros o Ho Hno. assert (o <> n) by (intro; subst; apply Hno; left; reflexivity).
        assert (n <= o) by (apply K5; auto; intro; apply Hno; right; assumption). lia.
      - intros x [->|Hx]; auto. }
    split.
    { exists (n :: new). split; [cbn; rewrite Kn; reflexivity|].
      intros x [->|Hx]; [assumption|]. intro Y. apply (Kf x Hx). right; assumption. }
    split; [intros x Hx; apply Kv; right; assumption|]. split.
    + intros o Ho Hno. assert (o <> n) by (intro; subst; apply Hno; left; reflexivity).
      destruct (Ko o Ho) as [X Y]; [intro; apply Hno; right; assumption|]. destruct X as [X|X]; [congruence|]. split; assumption.
    + intros _. left; reflexivity.
Qed.

(* the new elements are bounded by the start node and, except for it, are edge targets of new elements *)
Lemma dfs_new (h : heap) (W : wf_heap h) fuel : forall n st,
  exists new, snd (dfs fuel h n st) = new ++ snd st /\
    forall x, In x new -> x <= n /\ (x = n \/ exists p e, In p new /\ In e (edgesOf h p) /\ fst e = x).
Proof.
  induction fuel as [|f IH]; intros n st; cbn [dfs].
  - exists []. split; [reflexivity|intros x []].
  - destruct (negb (trackedOf h n) || memb n (fst st)); [exists []; split; [reflexivity|intros x []]|].
    assert (Hfold : forall (es : list (nat * rule)) s,
       exists new, snd (fold_left (fun s e => dfs f h (fst e) s) es s) = new ++ snd s /\
         forall x, In x new -> (exists e, In e es /\ x <= fst e) /\
                               ((exists e, In e es /\ fst e = x) \/ exists p e, In p new /\ In e (edgesOf h p) /\ fst e = x)).
    { induction es as [|e es IHes]; intros s; cbn [fold_left].
      - exists []. split; [reflexivity|intros x []].
      - destruct (IH (fst e) s) as (new1 & E1 & H1). destruct (IHes (dfs f h (fst e) s)) as (new2 & E2 & H2).
        exists (new2 ++ new1). split; [rewrite E2, E1, app_assoc; reflexivity|].
        intros x Hx. apply in_app_or in Hx. destruct Hx as [Hx|Hx].
        + destruct (H2 x Hx) as [(e0 & He0 & Hle) Hr]. split; [exists e0; split; [right; exact He0|exact Hle]|].
          destruct Hr as [(e1 & He1 & Hf1)|(p & e1 & Hp & He1 & Hf1)].
          * left. exists e1. split; [right; exact He1|exact Hf1].
          * right. exists p, e1. split; [apply in_or_app; left; exact Hp|split; assumption].
        + destruct (H1 x Hx) as [Hle Hr]. split; [exists e; split; [left; reflexivity|exact Hle]|].
          destruct Hr as [->|(p & e1 & Hp & He1 & Hf1)].
          * left. exists e. split; [left; reflexivity|reflexivity].
          * right. exists p, e1. split; [apply in_or_app; right; exact Hp|split; assumption]. }
    destruct (Hfold (edgesOf h n) (n :: fst st, snd st)) as (new & En & Hnew). cbn [fst snd] in *.
    exists (n :: new). split; [rewrite En; reflexivity|].
    intros x [<-|Hx]; [split; [lia|left; reflexivity]|].
    destruct (Hnew x Hx) as [(e0 & He0 & Hle) Hr]. pose proof (wf_heap_edgesOf _ W _ _ He0) as Hlt.
    split; [lia|]. right. destruct Hr as [(e1 & He1 & Hf1)|(p & e1 & Hp & He1 & Hf1)].
    + exists n, e1. split; [left; reflexivity|split; assumption].
    + exists p, e1. split; [right; exact Hp|split; assumption].
Qed.

Theorem topoOrder_facts (h : heap) root :
  wf_heap h -> trackedOf h root = true ->
  let order := topoOrder h root in
  NoDup order /\ (forall c, In c order -> trackedOf h c = true) /\ ordered h order /\
  hd_error order = Some root /\ In root order /\
  (forall c, In c order -> c <= root) /\
  (forall c, In c order -> c = root \/ exists p e, In p order /\ In e (edgesOf h p) /\ fst e = c) /\
  length order <= S root.
Proof.
  intros W Hroot order. unfold order, topoOrder.
  assert (Hinv0 : dinv h root ([], [])).
  { unfold dinv. cbn [fst snd ordered]. split; [intros ? []|]. split; [exact I|]. split; [constructor|]. split; intros ? []. }
  destruct (dfs_spec h W (S root) root ([], []) ltac:(lia) Hinv0) as (J & _ & _ & _ & Jm). cbn zeta in *.
  destruct (dfs_new h W (S root) root ([], [])) as (new & En & Hnew). cbn [snd] in En. rewrite app_nil_r in En.
  destruct J as (_ & J2 & J3 & _ & J5).
  assert (Hle : forall c, In c (snd (dfs (S root) h root ([], []))) -> c <= root).
  { intros c Hc. rewrite En in Hc. apply (Hnew c Hc). }
  split; [exact J3|]. split; [exact J5|]. split; [exact J2|]. split; [|split; [|split; [|split]]].
  - cbn [dfs]. rewrite Hroot. cbn [negb orb memb existsb fst]. reflexivity.
  - apply Jm. exact Hroot.
  - exact Hle.
  - intros c Hc. rewrite En in Hc |- *. destruct (Hnew c Hc) as [_ Hr]. exact Hr.
  - apply Nat.le_trans with (length (seq 0 (S root))); [|rewrite seq_length; lia].
    apply NoDup_incl_length; [exact J3|].
    intros c Hc. apply in_seq. specialize (Hle c Hc). lia.
Qed.

(* ------------------------------------------------------------------------------------ *)
(* 7. closed statements (no hypothesis left on the order)                                *)
(* ------------------------------------------------------------------------------------ *)

Theorem bp_topo_correct rd (h : heap) root h' log :
  rules_own h -> wf_heap h -> trackedOf h root = true ->
  bp_topo rd (fun _ g => g) h root = (h', log, Ok tt) ->
  let order := topoOrder h root in
  exists rv ones, valOf h root = Some rv /\ toOnes rv = Ok ones /\
  length h' = length h /\
  (forall i, valOf h' i = valOf h i /\ trackedOf h' i = trackedOf h i /\ edgesOf h' i = edgesOf h i) /\
  (forall n, ~ In n order -> gradOf h' n = gradOf h n) /\
  (forall n, In n order ->
     accAll (gradOf h n) ((if n =? root then [ones] else []) ++ contributions rd h' h order n) = Some (gradOf h' n)) /\
  (forall c, In c order -> gradOf h' c <> None) /\
  (forall c e, In c order -> In e (edgesOf h c) -> trackedOf h (fst e) = true ->
               exists g, eval_rule rd h' (snd e) = Ok g) /\
  log = rev (logOf h' order).
Proof.
  intros Hown Hwf Hroot E order.
  destruct (topoOrder_facts h root Hwf Hroot) as (F1 & F2 & F3 & _ & F5 & _ & F7 & _). fold order in F1, F2, F3, F5, F7.
  destruct (bp_topo_adjoint rd h root h' log Hown Hwf Hroot F1 F2 F3 F5 E)
    as (rv & ones & C1 & C2 & C3 & C4 & C5 & C6 & _ & C8).
  destruct (bp_topo_graded rd h root h' log Hown Hwf Hroot F1 F2 F3 F5 F7 E) as (G1 & G2 & _).
  exists rv, ones. repeat (split; [assumption|]). assumption.
Qed.

Theorem bp_topo_rule_count_closed rd (h : heap) root h' log k :
  rules_own h -> wf_heap h -> trackedOf h root = true ->
  bp_topo_cnt rd h root = (h', log, Ok tt, k) ->
  bp_topo rd (fun _ g => g) h root = (h', log, Ok tt) /\
  k = length (tracked_edges h (topoOrder h root)) /\
  k <= length (flat_map (@nedges A) h) /\
  length (topoOrder h root) <= S root.
Proof.
  intros Hown Hwf Hroot E.
  destruct (topoOrder_facts h root Hwf Hroot) as (F1 & F2 & F3 & _ & F5 & _ & F7 & F8).
  destruct (bp_topo_rule_count rd h root h' log k Hown Hwf Hroot F1 F2 F3 E) as (R1 & R2 & R3).
  destruct (bp_topo_graded rd h root h' log Hown Hwf Hroot F1 F2 F3 F5 F7 R1) as (_ & _ & G3).
  rewrite G3 in R2. repeat (split; [assumption|]). assumption.
Qed.

Lemma bp_topo_untracked rd sealg (h : heap) root :
  trackedOf h root = false -> bp_topo rd sealg h root = (h, [], Ok tt).
Proof. intros H. unfold bp_topo. rewrite H. reflexivity. Qed.

End BackpropP.

(* ------------------------------------------------------------------------------------ *)
(* 5. refutation witnesses for the pinned algorithm [walk] (regression lemmas)           *)
(* ------------------------------------------------------------------------------------ *)
Module Witness.
Local Open Scope Z_scope.

#[local] Instance Z_scalar : Scalar Z := {|
  s0 := 0; s1 := 1;
  sadd := Z.add; ssub := Z.sub; smul := Z.mul; sdiv := Z.div; spow := fun _ _ => 1;
  sexp := fun a => a; slog := fun a => a; ssin := fun a => a; scos := fun a => a; stan := fun a => a;
  ssinh := fun a => a; scosh := fun a => a; stanh := fun a => a; ssqrt := fun a => a;
  smax := Z.max; smin := Z.min; sselgt := Z.max; ssellt := Z.min;
  seqt := fun a b => if a =? b then 1 else 0; snet := fun a b => if a =? b then 0 else 1;
  sgt := fun a b => if a >? b then 1 else 0; sge := fun a b => if a >=? b then 1 else 0;
  slt := fun a b => if a <? b then 1 else 0; sle := fun a b => if a <=? b then 1 else 0;
  sgeb := fun a b => if a >=? b then 1 else 0; strunc := fun a => a;
  sofnat := Z.of_nat; sconst := fun m e => m * 10 ^ e;
  sneginf := -1000000; sposinf := 1000000; srnd := fun _ k => Z.of_nat k
|}.

Definition vec2 (a b : Z) : tensor Z := mkT [2%nat] (Vec [Sc a; Sc b]).
Definition ids : option nat -> tensor Z -> tensor Z := fun _ g => g.

(* x (tracked leaf, [3;5]);  m = x.Scale(2);  y = m.Add(m) *)
Definition diamond : @heap Z * nat :=
  let '(h0, x) := leaf [] (vec2 3 5) true None in
  match h_scale h0 x 2 None with
  | (h1, Ok m) => match h_arith h1 BiAdd m m None with (h2, Ok y) => (h2, y) | _ => ([], 0%nat) end
  | _ => ([], 0%nat)
  end.

Definition dh : @heap Z := fst diamond.
Definition dy : nat := snd diamond.

Example diamond_shape : length dh = 5%nat /\ dy = 4%nat /\ topoOrder dh dy = [4; 3; 2; 1; 0]%nat.
Proof. vm_compute. repeat split. Qed.

(* the pinned walk leaves dy/dx = 6 on x (m's partial gradient is pushed to x twice: 1*2 + 2*2),
   the repaired algorithm leaves the correct 4 *)
Lemma walk_refuted :
  let w := bp_walk RedSum 50 dh dy in
  let t := bp_topo RedSum ids dh dy in
  snd w = Ok tt /\ gradOf (fst (fst w)) 0 = Some (vec2 6 6) /\
  snd t = Ok tt /\ gradOf (fst (fst t)) 0 = Some (vec2 4 4).
Proof. vm_compute. repeat split. Qed.

(* the doubling chain  x_{i+1} = x_i + x_i  of depth d *)
Fixpoint chain (d : nat) (st : @heap Z * nat) : @heap Z * nat :=
  match d with
  | O => st
  | S d' => match h_arith (fst st) BiAdd (snd st) (snd st) None with
            | (h', Ok y) => chain d' (h', y)
            | _ => ([], 0%nat)
            end
  end.
Definition chainH (d : nat) : @heap Z * nat := chain d (leaf [] (mkT [1%nat] (Vec [Sc 1])) true None).

Definition walk_count (d : nat) : nat := let '(h, y) := chainH d in snd (fst (bp_walk RedSum 100 h y)).
Definition topo_count (d : nat) : nat := let '(h, y) := chainH d in snd (bp_topo_cnt RedSum h y).
Definition edge_count (d : nat) : nat := length (flat_map (@nedges Z) (fst (chainH d))).

Definition depths : list nat := [1; 2; 3; 4; 5; 6]%nat.

(* exponential for the pinned walk (2^(d+2) - 3 accumulations), linear for bp_topo (4 d rule evaluations
   = all the back edges of the heap: each Add is two Broadcast nodes and one Add node) *)
Example walk_rule_counts :
  map walk_count depths = [5; 13; 29; 61; 125; 253]%nat /\
  map walk_count depths = map (fun d => 2 ^ (d + 2) - 3)%nat depths /\
  map topo_count depths = [4; 8; 12; 16; 20; 24]%nat /\
  map topo_count depths = map edge_count depths /\
  map (fun d => let '(h, y) := chainH d in (length h, length (topoOrder h y))) depths
    = [(4, 4); (7, 7); (10, 10); (13, 13); (16, 16); (19, 19)]%nat /\
  map (fun d => let '(h, y) := chainH d in (snd (bp_walk RedSum 100 h y), snd (fst (bp_topo_cnt RedSum h y)))) depths
    = map (fun _ => (Ok tt, Ok tt)) depths.
Proof. vm_compute. repeat split. Qed.

(* the hypotheses of the theorems are satisfiable and the conclusion is not trivial: the diamond *)
Lemma dh_eq :
  dh = fst (h_arith (fst (h_scale (fst (leaf [] (vec2 3 5) true None)) 0%nat 2 None)) BiAdd 1%nat 1%nat None).
Proof. vm_compute. reflexivity. Qed.

Lemma dh_rules_own : rules_own dh.
Proof. rewrite dh_eq. apply rules_own_arith, rules_own_scale, rules_own_leaf, rules_own_nil. Qed.
Lemma dh_wf_heap : wf_heap dh.
Proof. rewrite dh_eq. apply wf_heap_arith. unfold h_scale. apply wf_heap_op1, wf_heap_leaf, wf_heap_nil. Qed.

Example diamond_adjoint :
  exists h' log,
    bp_topo RedSum ids dh dy = (h', log, Ok tt) /\
    trackedOf dh dy = true /\ topoOrder dh dy = [4; 3; 2; 1; 0]%nat /\
    (* m (node 1) receives one contribution from each of its two consumers (the two Broadcast nodes) *)
    contributions RedSum h' dh (topoOrder dh dy) 1 = [vec2 1 1; vec2 1 1] /\
    gradOf h' 1 = Some (vec2 2 2) /\
    (* x (node 0) receives a single contribution, computed from the final gradient [2;2] of m *)
    contributions RedSum h' dh (topoOrder dh dy) 0 = [vec2 4 4] /\
    gradOf h' 0 = Some (vec2 4 4) /\
    map fst log = [0; 1; 2; 3; 4]%nat /\
    snd (bp_topo_cnt RedSum dh dy) = 5%nat.
Proof.
  eexists. eexists. split; [vm_compute; reflexivity|]. vm_compute. repeat split.
Qed.

(* bp_topo_correct instantiated on the diamond *)
Example diamond_correct :
  let r := bp_topo RedSum ids dh dy in
  forall n, In n [4; 3; 2; 1; 0]%nat ->
    accAll (gradOf dh n) ((if (n =? dy)%nat then [vec2 1 1] else []) ++
                          contributions RedSum (fst (fst r)) dh (topoOrder dh dy) n)
    = Some (gradOf (fst (fst r)) n).
Proof.
  intros r n Hn.
  assert (E : bp_topo RedSum ids dh dy = (fst (fst r), snd (fst r), Ok tt)) by (vm_compute; reflexivity).
  destruct (bp_topo_correct RedSum dh dy _ _ dh_rules_own dh_wf_heap eq_refl E)
    as (rv & ones & C1 & C2 & _ & _ & _ & C6 & _).
  assert (Hones : ones = vec2 1 1).
  { vm_compute in C1. inversion C1; subst rv. vm_compute in C2. inversion C2. reflexivity. }
  subst ones. apply C6. change (topoOrder dh dy) with [4; 3; 2; 1; 0]%nat. exact Hn.
Qed.

End Witness.

Print Assumptions eval_rule_ext.
Print Assumptions bp_topo_adjoint.
Print Assumptions bp_topo_graded.
Print Assumptions bp_topo_rule_count.
Print Assumptions topoOrder_facts.
Print Assumptions bp_topo_correct.
Print Assumptions bp_topo_rule_count_closed.
Print Assumptions rules_own_arith.
Print Assumptions rules_own_concat.
Print Assumptions Witness.walk_refuted.
Print Assumptions Witness.walk_rule_counts.
Print Assumptions Witness.diamond_correct.
