(* BackpropP.v — C01, algorithmic half: [bp_topo] solves the adjoint equations.
   Every back edge of the graph reachable from the root is evaluated exactly once, with the
   FINAL gradient of its consumer, and the gradient left on a node is the accumulation
   (in processing order, starting from the previous gradient) of the seed (root only) and of
   the contributions of all its consumers.  The number of rule evaluations is the number of
   tracked back edges of the processed nodes (linear), whereas the pinned [walk] re-enters a
   node once per path (exponential; refutation witnesses at the end). *)
From Coq Require Import List Arith ZArith Bool Lia.
From Qeep Require Import Model.Scalar Model.Nd Model.Fill Model.Data Model.Valid Model.Api
                         Model.Grad Model.Backprop.
Import ListNotations.

(* ------------------------------------------------------------------------------------ *)
(* generic list lemmas                                                                   *)
(* ------------------------------------------------------------------------------------ *)

Lemma flat_map_ext_in' {X Y} (f g : X -> list Y) l :
  (forall a, In a l -> f a = g a) -> flat_map f l = flat_map g l.
Proof.
  induction l as [|a l IH]; intros H; cbn [flat_map]; [reflexivity|].
  rewrite (H a (or_introl eq_refl)), IH; [reflexivity|]. intros b Hb. apply H. right. exact Hb.
Qed.

Lemma flat_map_nil' {X Y} (f : X -> list Y) l :
  (forall a, In a l -> f a = []) -> flat_map f l = [].
Proof.
  induction l as [|a l IH]; intros H; cbn [flat_map]; [reflexivity|].
  rewrite (H a (or_introl eq_refl)), IH; [reflexivity|]. intros b Hb. apply H. right. exact Hb.
Qed.

Lemma memb_in n l : memb n l = true <-> In n l.
Proof.
  unfold memb. rewrite existsb_exists. split.
  - intros (x & Hx & E). apply Nat.eqb_eq in E. subst. exact Hx.
  - intros H. exists n. split; [exact H|apply Nat.eqb_refl].
Qed.

Section BackpropP.
Context {A : Type} {SA : Scalar A}.
Notation T := (tensor A).
Notation heap := (@heap A).
Notation rule := (@rule A).
Notation node := (@node A).

(* ------------------------------------------------------------------------------------ *)
(* 1. heap independence of rule evaluation; frame facts of updNode / setGrad / markDirty  *)
(* ------------------------------------------------------------------------------------ *)

(* the node whose gradient the rule reads (first argument of every constructor) *)
Definition rule_y (r : rule) : nat :=
  match r with
  | RConcat y _ => y | RSliceX y _ _ => y | RPatchX y _ _ => y | RPatchP y _ _ => y
  | RTranspose y => y | RReshape y _ => y | RBroadcast y _ => y
  | RSumAlong y _ _ => y | RExtAlong y _ _ => y | RAvgAlong y _ _ => y
  | RVarAlong y _ _ => y | RStdAlong y _ _ => y
  | RScale y _ => y | RPow y _ _ _ => y | RExp y => y | RLog y _ => y
  | RSin y _ => y | RCos y _ => y | RTan y _ => y
  | RSinh y _ => y | RCosh y _ => y | RTanh y _ => y
  | RElSel y _ _ => y | RId y => y | RNeg y => y | RMul y _ => y
  | RDivA y _ => y | RDivB y _ _ => y | RDot y _ => y
  | RMatMulA y _ => y | RMatMulB y _ => y
  end.

Lemma eval_rule_ext rd (h1 h2 : heap) (r : rule) :
  (forall i, valOf h1 i = valOf h2 i) ->
  gradOf h1 (rule_y r) = gradOf h2 (rule_y r) ->
  eval_rule rd h1 r = eval_rule rd h2 r.
Proof.
  intros Hv Hg. destruct r; cbn [rule_y] in Hg; unfold eval_rule, gy_of, val_of;
    rewrite ?Hv, ?Hg; reflexivity.
Qed.

(* a rule whose consumer has no gradient cannot be evaluated *)
Lemma eval_rule_nograd rd (h : heap) (r : rule) :
  gradOf h (rule_y r) = None -> eval_rule rd h r = Panic.
Proof.
  intros Hg. destruct r; cbn [rule_y] in Hg; unfold eval_rule, gy_of; rewrite Hg; reflexivity.
Qed.

Lemma nth_error_mapi (F : nat * node -> node) (h : list node) : forall s j,
  nth_error (map F (combine (seq s (length h)) h)) j =
  match nth_error h j with Some n => Some (F (s + j, n)) | None => None end.
Proof.
  induction h as [|x h IH]; intros s j; cbn [length seq combine map].
  - destruct j; reflexivity.
  - destruct j as [|j]; cbn [nth_error].
    + rewrite Nat.add_0_r. reflexivity.
    + rewrite IH. rewrite Nat.add_succ_r. reflexivity.
Qed.

Lemma length_mapi (F : nat * node -> node) (h : list node) s :
  length (map F (combine (seq s (length h)) h)) = length h.
Proof. rewrite map_length, combine_length, seq_length. apply Nat.min_id. Qed.

Lemma nth_error_updNode (h : heap) i f j :
  nth_error (updNode h i f) j =
  match nth_error h j with Some n => Some (if j =? i then f n else n) | None => None end.
Proof. unfold updNode. rewrite nth_error_mapi. cbn [fst snd Nat.add]. reflexivity. Qed.

Lemma length_updNode (h : heap) i f : length (updNode h i f) = length h.
Proof. unfold updNode. apply length_mapi. Qed.

Lemma nth_error_markDirty (h : heap) l j :
  nth_error (markDirty h l) j =
  match nth_error h j with
  | Some n => Some (if memb j l then mkNode (nval n) (ntracked n) true (ngrad n) (nedges n) (nname n) else n)
  | None => None end.
Proof. unfold markDirty. rewrite nth_error_mapi. cbn [fst snd Nat.add]. reflexivity. Qed.

Lemma length_markDirty (h : heap) l : length (markDirty h l) = length h.
Proof. unfold markDirty. apply length_mapi. Qed.

Lemma length_setGrad (h : heap) i g : length (setGrad h i g) = length h.
Proof. apply length_updNode. Qed.

Lemma nth_error_setGrad (h : heap) i g j :
  nth_error (setGrad h i g) j =
  match nth_error h j with
  | Some n => Some (if j =? i then mkNode (nval n) (ntracked n) (ndirty n) g (nedges n) (nname n) else n)
  | None => None end.
Proof. unfold setGrad. apply nth_error_updNode. Qed.

Lemma valOf_setGrad (h : heap) i g j : valOf (setGrad h i g) j = valOf h j.
Proof.
  unfold valOf. rewrite nth_error_setGrad. destruct (nth_error h j) as [n|]; [|reflexivity].
  cbn [obind]. destruct (j =? i); reflexivity.
Qed.
Lemma trackedOf_setGrad (h : heap) i g j : trackedOf (setGrad h i g) j = trackedOf h j.
Proof.
  unfold trackedOf. rewrite nth_error_setGrad. destruct (nth_error h j) as [n|]; [|reflexivity].
  destruct (j =? i); reflexivity.
Qed.
Lemma edgesOf_setGrad (h : heap) i g j : edgesOf (setGrad h i g) j = edgesOf h j.
Proof.
  unfold edgesOf. rewrite nth_error_setGrad. destruct (nth_error h j) as [n|]; [|reflexivity].
  destruct (j =? i); reflexivity.
Qed.
Lemma dirtyOf_setGrad (h : heap) i g j : dirtyOf (setGrad h i g) j = dirtyOf h j.
Proof.
  unfold dirtyOf. rewrite nth_error_setGrad. destruct (nth_error h j) as [n|]; [|reflexivity].
  destruct (j =? i); reflexivity.
Qed.
Lemma gradOf_setGrad (h : heap) i g j :
  gradOf (setGrad h i g) j = if j =? i then (if i <? length h then g else None) else gradOf h j.
Proof.
  unfold gradOf. rewrite nth_error_setGrad. destruct (j =? i) eqn:E.
  - apply Nat.eqb_eq in E. subst j. destruct (nth_error h i) as [n|] eqn:En; cbn [obind].
    + assert (Hl : i < length h) by (apply nth_error_Some; congruence).
      apply Nat.ltb_lt in Hl. rewrite Hl. reflexivity.
    + apply nth_error_None in En. destruct (i <? length h) eqn:Hl; [apply Nat.ltb_lt in Hl; lia|reflexivity].
  - destruct (nth_error h j) as [n|]; reflexivity.
Qed.

Lemma valOf_markDirty (h : heap) l j : valOf (markDirty h l) j = valOf h j.
Proof.
  unfold valOf. rewrite nth_error_markDirty. destruct (nth_error h j) as [n|]; [|reflexivity].
  cbn [obind]. destruct (memb j l); reflexivity.
Qed.
Lemma trackedOf_markDirty (h : heap) l j : trackedOf (markDirty h l) j = trackedOf h j.
Proof.
  unfold trackedOf. rewrite nth_error_markDirty. destruct (nth_error h j) as [n|]; [|reflexivity].
  destruct (memb j l); reflexivity.
Qed.
Lemma edgesOf_markDirty (h : heap) l j : edgesOf (markDirty h l) j = edgesOf h j.
Proof.
  unfold edgesOf. rewrite nth_error_markDirty. destruct (nth_error h j) as [n|]; [|reflexivity].
  destruct (memb j l); reflexivity.
Qed.
Lemma gradOf_markDirty (h : heap) l j : gradOf (markDirty h l) j = gradOf h j.
Proof.
  unfold gradOf. rewrite nth_error_markDirty. destruct (nth_error h j) as [n|]; [|reflexivity].
  cbn [obind]. destruct (memb j l); reflexivity.
Qed.
Lemma dirtyOf_markDirty (h : heap) l j :
  dirtyOf (markDirty h l) j = if j <? length h then memb j l || dirtyOf h j else false.
Proof.
  unfold dirtyOf. rewrite nth_error_markDirty. destruct (nth_error h j) as [n|] eqn:En.
  - assert (Hl : j < length h) by (apply nth_error_Some; congruence).
    apply Nat.ltb_lt in Hl. rewrite Hl. destruct (memb j l); reflexivity.
  - apply nth_error_None in En. destruct (j <? length h) eqn:Hl; [apply Nat.ltb_lt in Hl; lia|reflexivity].
Qed.

(* generic updNode frame facts (for ResetGradContext and friends) *)
Lemma valOf_updNode (h : heap) i f j :
  (forall n, nval (f n) = nval n) -> valOf (updNode h i f) j = valOf h j.
Proof.
  intros Hf. unfold valOf. rewrite nth_error_updNode. destruct (nth_error h j) as [n|]; [|reflexivity].
  cbn [obind]. destruct (j =? i); [rewrite Hf|]; reflexivity.
Qed.
Lemma trackedOf_updNode_other (h : heap) i f j : j <> i -> trackedOf (updNode h i f) j = trackedOf h j.
Proof.
  intros Hn. unfold trackedOf. rewrite nth_error_updNode. apply Nat.eqb_neq in Hn. rewrite Hn.
  destruct (nth_error h j); reflexivity.
Qed.
Lemma edgesOf_updNode_other (h : heap) i f j : j <> i -> edgesOf (updNode h i f) j = edgesOf h j.
Proof.
  intros Hn. unfold edgesOf. rewrite nth_error_updNode. apply Nat.eqb_neq in Hn. rewrite Hn.
  destruct (nth_error h j); reflexivity.
Qed.
Lemma gradOf_updNode_other (h : heap) i f j : j <> i -> gradOf (updNode h i f) j = gradOf h j.
Proof.
  intros Hn. unfold gradOf. rewrite nth_error_updNode. apply Nat.eqb_neq in Hn. rewrite Hn.
  destruct (nth_error h j); reflexivity.
Qed.

Lemma tracked_lt (h : heap) i : trackedOf h i = true -> i < length h.
Proof.
  unfold trackedOf. destruct (nth_error h i) eqn:E; [|discriminate]. intros _.
  apply nth_error_Some. congruence.
Qed.

End BackpropP.
