(* CompTensorP.v — the public constructors and entry points of package tensor (tensor/tensor.go,
   tensor/validators.go) as translated by harness/gox into the DataIR programs c_tensor_* of Model/GoComp.v, run
   with the oracle layers of Model/CompExt.v (sibling functions linked by running their own programs):
   1. validateConfig / prepareConfig: nil is the default (CPU, no tracking), device CPU is accepted, any other device
      gives the zero Config and the error;
   2. validateTensorDevice / validateTensorsDeviceUnity: a node is accepted, nil and foreign implementations are
      rejected; at least two tensors, all of them nodes;
   3. Full, Zeros, Ones, Eye, RandU, RandN, TensorOf, Concat, BackPropagate: error on invalid input, otherwise exactly
      the call of cputensor / gradtrack: the explicit "unreachable" panics are unreachable. *)
From Coq Require Import String List ZArith Bool Lia Arith.
From Qeep Require Import Model.Scalar Model.Nd Model.Fill Model.Data Model.Valid Model.Api Model.Grad Model.Backprop
     Model.Components Model.DataIR Model.HeapExt Model.GoComp Model.CompExt Proofs.DataIRP.
From Qeep Require Model.GoIR.
Import ListNotations.
Local Open Scope string_scope.
Local Open Scope Z_scope.
Local Open Scope list_scope.

Section CompTensor.
Context {A : Type} {SA : Scalar A}.
Notation heap := (@heap A).
Notation dval := (@dval A).
Variables (fltb fleb : A -> A -> bool) (lib : string -> list dval -> heap -> option (list dval * heap)).
Notation run0 p := (drun cfapp heap (cext0 fltb fleb lib) p).   (* leaf functions *)
Notation run p := (drun cfapp heap (cext fltb fleb lib) p).     (* functions that call siblings *)
Notation run2 p := (drun cfapp heap (cext2 fltb fleb lib) p).   (* functions that call prepareConfig *)

(* the observable part of an outcome: returned values and final heap *)
Definition outcome (o : @doutcome A heap) : option (list dval * heap) :=
  match o with DRet _ vs s _ _ => Some (vs, s) | _ => None end.

(* error flag *)
Definition flag (ok : bool) : dval := DI (if ok then 0 else 1).

(* a *Config: nil or the list of the fields Device, GradTrack *)
Definition cfgOf (c : option (Z * dval)) : dval :=
  match c with None => DNil | Some (d, b) => DL [DI d; b] end.
(* the device is CPU (= iota + 1 = 1); nil means the default *)
Definition devOk (c : option (Z * dval)) : bool :=
  match c with None => true | Some (d, _) => d =? 1 end.
(* the GradTrack field that reaches the implementation *)
Definition gradOfCfg (c : option (Z * dval)) : dval :=
  match c with None => DB false | Some (_, b) => b end.

Ltac start p := unfold drun, p; cbn [pmain dbody plocals dparams dbind]; dxs.
Ltac zb := cbn [Z.eqb Z.leb Z.ltb Z.add Pos.add Z.compare Pos.compare Pos.compare_cont Pos.eqb negb didx Z.to_nat nth_error app
                dlen length];
  try change (Pos.to_nat 1) with 1%nat; cbn [nth_error].

(* ================= 1. validateConfig ================= *)

Theorem validateConfig_spec fuel depth (c : option (Z * dval)) (h : heap) :
  outcome (run0 c_tensor_validateConfig fuel depth [cfgOf c] h) = Some ([flag (devOk c)], h).
Proof.
  start c_tensor_validateConfig.
  destruct c as [[d b]|]; cbn [cfgOf devOk flag]; dxs; zb; dxs.
  - destruct (d =? 1); dxs; reflexivity.
  - reflexivity.
Qed.

(* the two shapes of the task statement *)
Corollary validateConfig_nil fuel depth (h : heap) :
  outcome (run0 c_tensor_validateConfig fuel depth [DNil] h) = Some ([DI 0], h).
Proof. exact (validateConfig_spec fuel depth None h). Qed.
Corollary validateConfig_conf fuel depth (d : Z) (b : dval) (h : heap) :
  outcome (run0 c_tensor_validateConfig fuel depth [DL [DI d; b]] h) = Some ([DI (if d =? 1 then 0 else 1)], h).
Proof. exact (validateConfig_spec fuel depth (Some (d, b)) h). Qed.

(* ================= 2. prepareConfig (validateConfig linked: oracle [cext]) ================= *)

(* a linked sibling is its own program run with the leaf oracle *)
Lemma cext_validateConfig args (h : heap) :
  cext fltb fleb lib "validateConfig" args h = outcome (run0 c_tensor_validateConfig sibFuel sibFuel args h).
Proof. reflexivity. Qed.

(* the Config VALUE that prepareConfig returns: the default for nil, a copy of a valid config, the zero Config with
   the error *)
Definition prepared (c : option (Z * dval)) : list dval :=
  if devOk c then [DL [DI 1; gradOfCfg c]; DI 0] else [DL [DI 0; DB false]; DI 1].

Theorem prepareConfig_spec fuel depth (c : option (Z * dval)) (h : heap) :
  outcome (run c_tensor_prepareConfig fuel depth [cfgOf c] h) = Some (prepared c, h).
Proof.
  start c_tensor_prepareConfig. rewrite cext_validateConfig, validateConfig_spec. unfold prepared.
  destruct c as [[d b]|]; cbn [cfgOf devOk flag gradOfCfg].
  - destruct (d =? 1) eqn:E; dxs; zb; dxs; [|reflexivity].
    apply Z.eqb_eq in E; subst d. reflexivity.
  - dxs; zb; dxs. reflexivity.
Qed.

Corollary prepareConfig_nil fuel depth (h : heap) :
  outcome (run c_tensor_prepareConfig fuel depth [DNil] h) = Some ([DL [DI 1; DB false]; DI 0], h).
Proof. exact (prepareConfig_spec fuel depth None h). Qed.
Corollary prepareConfig_cpu fuel depth (b : dval) (h : heap) :
  outcome (run c_tensor_prepareConfig fuel depth [DL [DI 1; b]] h) = Some ([DL [DI 1; b]; DI 0], h).
Proof. exact (prepareConfig_spec fuel depth (Some (1, b)) h). Qed.
Corollary prepareConfig_invalid fuel depth (d : Z) (b : dval) (h : heap) :
  d <> 1 ->
  outcome (run c_tensor_prepareConfig fuel depth [DL [DI d; b]] h) = Some ([DL [DI 0; DB false]; DI 1], h).
Proof.
  intros Hd. pose proof (prepareConfig_spec fuel depth (Some (d, b)) h) as E.
  unfold prepared in E; cbn [devOk cfgOf] in E. apply Z.eqb_neq in Hd. rewrite Hd in E. exact E.
Qed.
(* whenever the error flag is 0 the returned device is CPU *)
Corollary prepareConfig_ok_device fuel depth (c : option (Z * dval)) (cv : dval) (h h' : heap) :
  outcome (run c_tensor_prepareConfig fuel depth [cfgOf c] h) = Some ([cv; DI 0], h') ->
  exists b, cv = DL [DI 1; b].
Proof.
  rewrite prepareConfig_spec. unfold prepared. destruct (devOk c); intros E; inversion E. eauto.
Qed.

(* ================= 3. validateTensorDevice ================= *)

Lemma cext0_typeof (v : dval) (h : heap) :
  cext0 fltb fleb lib "typeof" [v] h
  = Some ([DI (match v with DI _ => 0 | DNil => 1 | _ => 2 end)], h).
Proof. destruct v; reflexivity. Qed.

(* a tensor.Tensor interface value holding a *cputensor.CPUTensor: a node *)
Definition isNode (v : dval) : bool := match v with DI _ => true | _ => false end.

Theorem validateTensorDevice_spec fuel depth (v : dval) (h : heap) :
  outcome (run0 c_tensor_validateTensorDevice fuel depth [v] h) = Some ([flag (isNode v)], h).
Proof.
  start c_tensor_validateTensorDevice. rewrite cext0_typeof.
  destruct v; cbn [isNode flag]; dxs; zb; dxs; reflexivity.
Qed.

Corollary validateTensorDevice_node fuel depth (n : Z) (h : heap) :
  outcome (run0 c_tensor_validateTensorDevice fuel depth [DI n] h) = Some ([DI 0], h).
Proof. exact (validateTensorDevice_spec fuel depth (DI n) h). Qed.
Corollary validateTensorDevice_nil fuel depth (h : heap) :
  outcome (run0 c_tensor_validateTensorDevice fuel depth [DNil] h) = Some ([DI 1], h).
Proof. exact (validateTensorDevice_spec fuel depth DNil h). Qed.
Corollary validateTensorDevice_foreign fuel depth (v : dval) (h : heap) :
  (forall n, v <> DI n) ->
  outcome (run0 c_tensor_validateTensorDevice fuel depth [v] h) = Some ([DI 1], h).
Proof.
  intros Hv. rewrite validateTensorDevice_spec. destruct v; try reflexivity. now destruct (Hv z).
Qed.

(* ================= 4. validateTensorsDeviceUnity ================= *)

(* at least two tensors, every one of them a node *)
Definition unityOk (vs : list dval) : bool := (2 <=? length vs)%nat && forallb isNode vs.

Lemma unityOk_iff (vs : list dval) :
  unityOk vs = true <-> (2 <= length vs)%nat /\ (forall v, In v vs -> exists n, v = DI n).
Proof.
  unfold unityOk. rewrite andb_true_iff, Nat.leb_le, forallb_forall.
  split; intros [Hl Hn]; (split; [exact Hl|]); intros v Hv.
  - specialize (Hn v Hv). destruct v; try discriminate. eauto.
  - destruct (Hn v Hv) as [n ->]. reflexivity.
Qed.

(* the variables of the function after the first iteration: dev = CPU, no error so far *)
Definition uenv (a x y z : dval) : @denv A :=
  [("ts", a); ("err", DI 0); ("dev", DI 1); ("_", x); ("t", y); ("$1", z)].

(* the loop from its second iteration on, for an abstract body: a node leaves the variables as they are, anything
   else returns the error *)
Lemma unity_loop (body : heap -> @denv A -> @denv A -> @doutcome A heap)
      (assign : @denv A -> @denv A -> Z -> dval -> @denv A * @denv A) :
  (forall a x y z k v, assign (uenv a x y z) [] k v = (uenv a (DI k) v z, [])) ->
  (forall a x v z h,
      if isNode v then body h (uenv a x v z) [] = DNormal heap h (uenv a x v (DI 0)) []
      else exists g l, body h (uenv a x v z) [] = DRet heap [DI 1] h g l) ->
  forall vs k a x y z h,
    if forallb isNode vs
    then exists x' y' z', drangeLoop heap body assign vs k h (uenv a x y z) [] = DNormal heap h (uenv a x' y' z') []
    else exists g l, drangeLoop heap body assign vs k h (uenv a x y z) [] = DRet heap [DI 1] h g l.
Proof.
  intros Hasg Hbody vs. induction vs as [|v vs IH]; intros k a x y z h; cbn [forallb drangeLoop].
  - eauto.
  - rewrite Hasg. specialize (Hbody a (DI k) v z h).
    destruct (isNode v); cbn [andb].
    + rewrite Hbody. apply IH.
    + destruct Hbody as [g [l Hb]]. rewrite Hb. eauto.
Qed.

Lemma dlen_ge2 (v0 v1 : dval) (vs : list dval) : (dlen (v0 :: v1 :: vs) <? 2) = false.
Proof. unfold dlen. cbn [length]. apply Z.ltb_ge. lia. Qed.

Theorem validateTensorsDeviceUnity_spec fuel depth (vs : list dval) (h : heap) :
  outcome (run0 c_tensor_validateTensorsDeviceUnity fuel depth [DL vs] h) = Some ([flag (unityOk vs)], h).
Proof.
  start c_tensor_validateTensorsDeviceUnity.
  destruct vs as [|v0 [|v1 vs]].
  - zb; dxs. reflexivity.
  - zb; dxs. reflexivity.
  - rewrite dlen_ge2. dxs.
    change (unityOk (v0 :: v1 :: vs)) with (isNode v0 && forallb isNode (v1 :: vs)).
    match goal with |- context [drangeLoop heap ?b ?asg _ _ _ _ _] => pose proof (unity_loop b asg) as HL end.
    match type of HL with ?P -> _ => assert (Hasg : P) end.
    { intros a x y z k v. reflexivity. }
    specialize (HL Hasg).
    match type of HL with ?P -> _ => assert (Hbody : P) end.
    { intros a x v z h0. unfold uenv. dxs. rewrite cext0_typeof.
      destruct v; cbn [isNode]; dxs; zb; dxs; eauto. }
    specialize (HL Hbody). clear Hasg Hbody.
    remember (v1 :: vs) as tl eqn:Etl.
    cbn [drangeLoop]. dxs. rewrite cext0_typeof.
    destruct v0; cbn [isNode andb flag]; dxs; zb; dxs; try reflexivity.
    match goal with |- context [drangeLoop heap _ _ tl ?k h (?e1 :: ?e2 :: ?e3 :: (_, ?x) :: (_, ?y) :: (_, ?w) :: nil) []] =>
      specialize (HL tl k (DL (DI z :: tl)) x y w h) end.
    unfold uenv in HL.
    destruct (forallb isNode tl).
    + destruct HL as [x' [y' [z' HL]]]. rewrite HL. dxs. reflexivity.
    + destruct HL as [g [l HL]]. rewrite HL. reflexivity.
Qed.

(* the statement of the task: accepted exactly when there are at least two tensors and all are nodes, the error
   otherwise; in particular never a panic *)
Corollary validateTensorsDeviceUnity_accepts_iff fuel depth (vs : list dval) (h : heap) :
  outcome (run0 c_tensor_validateTensorsDeviceUnity fuel depth [DL vs] h) = Some ([DI 0], h)
  <-> (2 <= length vs)%nat /\ (forall v, In v vs -> exists n, v = DI n).
Proof.
  rewrite validateTensorsDeviceUnity_spec, <- unityOk_iff. unfold flag.
  destruct (unityOk vs); split; intros E; try reflexivity; discriminate.
Qed.
Corollary validateTensorsDeviceUnity_rejects_iff fuel depth (vs : list dval) (h : heap) :
  outcome (run0 c_tensor_validateTensorsDeviceUnity fuel depth [DL vs] h) = Some ([DI 1], h)
  <-> ~ ((2 <= length vs)%nat /\ (forall v, In v vs -> exists n, v = DI n)).
Proof.
  rewrite validateTensorsDeviceUnity_spec, <- unityOk_iff. unfold flag.
  destruct (unityOk vs); split; intros E; try reflexivity; try discriminate.
  now destruct E.
Qed.
Corollary validateTensorsDeviceUnity_total fuel depth (vs : list dval) (h : heap) :
  run0 c_tensor_validateTensorsDeviceUnity fuel depth [DL vs] h <> DPanic heap.
Proof.
  intros E. pose proof (validateTensorsDeviceUnity_spec fuel depth vs h) as S. rewrite E in S. discriminate.
Qed.

(* ================= 5. the constructors (prepareConfig linked: oracle [cext2]) ================= *)

(* the program's outcome is the library call's: its two results are returned as they are, with its final heap;
   the program panics when the call does (and when it does not return two results) — same shape as in CompInitP *)
Definition isCall (o : @doutcome A heap) (call : option (list dval * heap)) : Prop :=
  (forall r0 r1 h2, call = Some ([r0; r1], h2) -> outcome o = Some ([r0; r1], h2)) /\
  (call = None -> o = DPanic heap) /\
  (forall rs h2, call = Some (rs, h2) -> length rs <> 2%nat -> o = DPanic heap).
(* the same for a call with one result *)
Definition isCall1 (o : @doutcome A heap) (call : option (list dval * heap)) : Prop :=
  (forall r0 h2, call = Some ([r0], h2) -> outcome o = Some ([r0], h2)) /\
  (call = None -> o = DPanic heap) /\
  (forall rs h2, call = Some (rs, h2) -> length rs <> 1%nat -> o = DPanic heap).

(* the library call itself failed: no result, or not [n] results *)
Definition libFails (n : nat) (call : option (list dval * heap)) : Prop :=
  call = None \/ exists rs h2, call = Some (rs, h2) /\ length rs <> n.

Lemma isCall_panic o call : isCall o call -> o = DPanic heap -> libFails 2 call.
Proof.
  intros [H2 _] ->. destruct call as [[rs h2]|]; [right|left; reflexivity].
  exists rs, h2. split; [reflexivity|]. intros Hl.
  destruct rs as [|r0 [|r1 [|r2 rs]]]; try discriminate.
  specialize (H2 r0 r1 h2 eq_refl). discriminate.
Qed.
Lemma isCall1_panic o call : isCall1 o call -> o = DPanic heap -> libFails 1 call.
Proof.
  intros [H1 _] ->. destruct call as [[rs h2]|]; [right|left; reflexivity].
  exists rs, h2. split; [reflexivity|]. intros Hl.
  destruct rs as [|r0 [|r1 rs]]; try discriminate.
  specialize (H1 r0 h2 eq_refl). discriminate.
Qed.

Lemma cext2_prepareConfig args (h : heap) :
  cext2 fltb fleb lib "prepareConfig" args h = outcome (run c_tensor_prepareConfig sibFuel sibFuel args h).
Proof. reflexivity. Qed.

(* a name that no linking layer knows goes to [lib] *)
Ltac libcall :=
  match goal with |- context [cext2 fltb fleb lib ?f ?a ?h] =>
    change (cext2 fltb fleb lib f a h) with (lib f a h) end.

(* last two statements: the library call and the return of its results *)
Ltac finish :=
  split; [|split];
  [ intros r0 r1 h2 Hcall; rewrite Hcall; dxs; reflexivity
  | intros Hcall; rewrite Hcall; reflexivity
  | intros rs h2 Hcall Hl; rewrite Hcall;
    destruct rs as [|a0 [|a1 [|a2 rs]]]; cbn [length] in Hl; try lia; dxs; reflexivity ].

Ltac go := dxs; repeat (progress (zb; dxs)).

Ltac constructor_proof p :=
  start p; rewrite cext2_prepareConfig, prepareConfig_spec; unfold prepared;
  destruct (devOk _); go; [libcall; finish | reflexivity].

Theorem Full_spec fuel depth (dims value : dval) (c : option (Z * dval)) (h : heap) :
  if devOk c
  then isCall (run2 c_tensor_Full fuel depth [dims; value; cfgOf c] h)
              (lib "cputensor.Full" [dims; value; gradOfCfg c] h)
  else outcome (run2 c_tensor_Full fuel depth [dims; value; cfgOf c] h) = Some ([DNil; DI 1], h).
Proof. constructor_proof c_tensor_Full. Qed.

Theorem Zeros_spec fuel depth (dims : dval) (c : option (Z * dval)) (h : heap) :
  if devOk c
  then isCall (run2 c_tensor_Zeros fuel depth [dims; cfgOf c] h) (lib "cputensor.Zeros" [dims; gradOfCfg c] h)
  else outcome (run2 c_tensor_Zeros fuel depth [dims; cfgOf c] h) = Some ([DNil; DI 1], h).
Proof. constructor_proof c_tensor_Zeros. Qed.

Theorem Ones_spec fuel depth (dims : dval) (c : option (Z * dval)) (h : heap) :
  if devOk c
  then isCall (run2 c_tensor_Ones fuel depth [dims; cfgOf c] h) (lib "cputensor.Ones" [dims; gradOfCfg c] h)
  else outcome (run2 c_tensor_Ones fuel depth [dims; cfgOf c] h) = Some ([DNil; DI 1], h).
Proof. constructor_proof c_tensor_Ones. Qed.

Theorem Eye_spec fuel depth (n : dval) (c : option (Z * dval)) (h : heap) :
  if devOk c
  then isCall (run2 c_tensor_Eye fuel depth [n; cfgOf c] h) (lib "cputensor.Eye" [n; gradOfCfg c] h)
  else outcome (run2 c_tensor_Eye fuel depth [n; cfgOf c] h) = Some ([DNil; DI 1], h).
Proof. constructor_proof c_tensor_Eye. Qed.

Theorem RandU_spec fuel depth (dims l u : dval) (c : option (Z * dval)) (h : heap) :
  if devOk c
  then isCall (run2 c_tensor_RandU fuel depth [dims; l; u; cfgOf c] h)
              (lib "cputensor.RandU" [dims; l; u; gradOfCfg c] h)
  else outcome (run2 c_tensor_RandU fuel depth [dims; l; u; cfgOf c] h) = Some ([DNil; DI 1], h).
Proof. constructor_proof c_tensor_RandU. Qed.

Theorem RandN_spec fuel depth (dims u s : dval) (c : option (Z * dval)) (h : heap) :
  if devOk c
  then isCall (run2 c_tensor_RandN fuel depth [dims; u; s; cfgOf c] h)
              (lib "cputensor.RandN" [dims; u; s; gradOfCfg c] h)
  else outcome (run2 c_tensor_RandN fuel depth [dims; u; s; cfgOf c] h) = Some ([DNil; DI 1], h).
Proof. constructor_proof c_tensor_RandN. Qed.

Theorem TensorOf_spec fuel depth (data : dval) (c : option (Z * dval)) (h : heap) :
  if devOk c
  then isCall (run2 c_tensor_TensorOf fuel depth [data; cfgOf c] h)
              (lib "cputensor.TensorOf" [data; gradOfCfg c] h)
  else outcome (run2 c_tensor_TensorOf fuel depth [data; cfgOf c] h) = Some ([DNil; DI 1], h).
Proof. constructor_proof c_tensor_TensorOf. Qed.

(* the "unreachable" panic of the device switch is unreachable: for every config, the outcome is a panic only if the
   cputensor call itself did not return two results *)
Ltac no_panic S :=
  let E := fresh "E" in intros E; pose proof S as HS;
  destruct (devOk _); [ exact (isCall_panic _ _ HS E) | rewrite E in HS; discriminate HS ].

Corollary Full_never_reaches_its_panic fuel depth (dims value : dval) (c : option (Z * dval)) (h : heap) :
  run2 c_tensor_Full fuel depth [dims; value; cfgOf c] h = DPanic heap ->
  libFails 2 (lib "cputensor.Full" [dims; value; gradOfCfg c] h).
Proof. no_panic (Full_spec fuel depth dims value c h). Qed.
Corollary Zeros_never_reaches_its_panic fuel depth (dims : dval) (c : option (Z * dval)) (h : heap) :
  run2 c_tensor_Zeros fuel depth [dims; cfgOf c] h = DPanic heap ->
  libFails 2 (lib "cputensor.Zeros" [dims; gradOfCfg c] h).
Proof. no_panic (Zeros_spec fuel depth dims c h). Qed.
Corollary Ones_never_reaches_its_panic fuel depth (dims : dval) (c : option (Z * dval)) (h : heap) :
  run2 c_tensor_Ones fuel depth [dims; cfgOf c] h = DPanic heap ->
  libFails 2 (lib "cputensor.Ones" [dims; gradOfCfg c] h).
Proof. no_panic (Ones_spec fuel depth dims c h). Qed.
Corollary Eye_never_reaches_its_panic fuel depth (n : dval) (c : option (Z * dval)) (h : heap) :
  run2 c_tensor_Eye fuel depth [n; cfgOf c] h = DPanic heap ->
  libFails 2 (lib "cputensor.Eye" [n; gradOfCfg c] h).
Proof. no_panic (Eye_spec fuel depth n c h). Qed.
Corollary RandU_never_reaches_its_panic fuel depth (dims l u : dval) (c : option (Z * dval)) (h : heap) :
  run2 c_tensor_RandU fuel depth [dims; l; u; cfgOf c] h = DPanic heap ->
  libFails 2 (lib "cputensor.RandU" [dims; l; u; gradOfCfg c] h).
Proof. no_panic (RandU_spec fuel depth dims l u c h). Qed.
Corollary RandN_never_reaches_its_panic fuel depth (dims u s : dval) (c : option (Z * dval)) (h : heap) :
  run2 c_tensor_RandN fuel depth [dims; u; s; cfgOf c] h = DPanic heap ->
  libFails 2 (lib "cputensor.RandN" [dims; u; s; gradOfCfg c] h).
Proof. no_panic (RandN_spec fuel depth dims u s c h). Qed.
Corollary TensorOf_never_reaches_its_panic fuel depth (data : dval) (c : option (Z * dval)) (h : heap) :
  run2 c_tensor_TensorOf fuel depth [data; cfgOf c] h = DPanic heap ->
  libFails 2 (lib "cputensor.TensorOf" [data; gradOfCfg c] h).
Proof. no_panic (TensorOf_spec fuel depth data c h). Qed.

(* ================= 6. Concat ================= *)

Lemma cext2_unity args (h : heap) :
  cext2 fltb fleb lib "validateTensorsDeviceUnity" args h
  = outcome (run0 c_tensor_validateTensorsDeviceUnity sibFuel sibFuel args h).
Proof. reflexivity. Qed.
Lemma cext2_typeof (v : dval) (h : heap) :
  cext2 fltb fleb lib "typeof" [v] h = cext0 fltb fleb lib "typeof" [v] h.
Proof. reflexivity. Qed.

(* an accepted list starts with a node *)
Lemma unityOk_head (vs : list dval) : unityOk vs = true -> exists n tl, vs = DI n :: tl.
Proof.
  unfold unityOk. intros H. apply andb_true_iff in H. destruct H as [Hl H].
  destruct vs as [|v tl]; [discriminate Hl|].
  cbn [forallb] in H. apply andb_true_iff in H. destruct H as [H _]. destruct v; try discriminate. eauto.
Qed.

Theorem Concat_spec fuel depth (vs : list dval) (dim : dval) (h : heap) :
  if unityOk vs
  then isCall (run2 c_tensor_Concat fuel depth [DL vs; dim] h) (lib "cputensor.Concat" [DL vs; dim] h)
  else outcome (run2 c_tensor_Concat fuel depth [DL vs; dim] h) = Some ([DNil; DI 1], h).
Proof.
  start c_tensor_Concat. rewrite cext2_unity, validateTensorsDeviceUnity_spec.
  destruct (unityOk vs) eqn:E; unfold flag; go; [|reflexivity].
  destruct (unityOk_head vs E) as [n [tl ->]].
  go. rewrite cext2_typeof, cext0_typeof. go. libcall. finish.
Qed.

Corollary Concat_never_reaches_its_panic fuel depth (vs : list dval) (dim : dval) (h : heap) :
  run2 c_tensor_Concat fuel depth [DL vs; dim] h = DPanic heap ->
  libFails 2 (lib "cputensor.Concat" [DL vs; dim] h).
Proof.
  intros E. pose proof (Concat_spec fuel depth vs dim h) as HS.
  destruct (unityOk vs); [ exact (isCall_panic _ _ HS E) | rewrite E in HS; discriminate HS ].
Qed.

(* ================= 7. BackPropagate (validateTensorDevice linked: oracle [cext]) ================= *)

Lemma cext_validateTensorDevice args (h : heap) :
  cext fltb fleb lib "validateTensorDevice" args h
  = outcome (run0 c_tensor_validateTensorDevice sibFuel sibFuel args h).
Proof. reflexivity. Qed.
Lemma cext_BackPropagate args (h : heap) :
  cext fltb fleb lib "gradtrack.BackPropagate" args h = lib "gradtrack.BackPropagate" args h.
Proof. reflexivity. Qed.

Theorem BackPropagate_spec fuel depth (v : dval) (h : heap) :
  if isNode v
  then isCall1 (run c_tensor_BackPropagate fuel depth [v] h) (lib "gradtrack.BackPropagate" [v] h)
  else outcome (run c_tensor_BackPropagate fuel depth [v] h) = Some ([DI 1], h).
Proof.
  start c_tensor_BackPropagate. rewrite cext_validateTensorDevice, validateTensorDevice_spec.
  destruct (isNode v); unfold flag; go; [|reflexivity].
  rewrite cext_BackPropagate.
  split; [|split].
  - intros r0 h2 Hcall; rewrite Hcall; dxs; reflexivity.
  - intros Hcall; rewrite Hcall; reflexivity.
  - intros rs h2 Hcall Hl; rewrite Hcall.
    destruct rs as [|a0 [|a1 rs]]; cbn [length] in Hl; try lia; dxs; reflexivity.
Qed.

Corollary BackPropagate_node fuel depth (n : Z) (h : heap) :
  isCall1 (run c_tensor_BackPropagate fuel depth [DI n] h) (lib "gradtrack.BackPropagate" [DI n] h).
Proof. exact (BackPropagate_spec fuel depth (DI n) h). Qed.
Corollary BackPropagate_nil fuel depth (h : heap) :
  outcome (run c_tensor_BackPropagate fuel depth [DNil] h) = Some ([DI 1], h).
Proof. exact (BackPropagate_spec fuel depth DNil h). Qed.
Corollary BackPropagate_foreign fuel depth (v : dval) (h : heap) :
  (forall n, v <> DI n) ->
  outcome (run c_tensor_BackPropagate fuel depth [v] h) = Some ([DI 1], h).
Proof.
  intros Hv. pose proof (BackPropagate_spec fuel depth v h) as HS.
  destruct v; try exact HS. now destruct (Hv z).
Qed.

End CompTensor.

Print Assumptions Full_spec.
Print Assumptions Zeros_spec.
Print Assumptions Ones_spec.
Print Assumptions Eye_spec.
Print Assumptions RandU_spec.
Print Assumptions RandN_spec.
Print Assumptions TensorOf_spec.
Print Assumptions Concat_spec.
Print Assumptions BackPropagate_spec.
Print Assumptions Full_never_reaches_its_panic.
Print Assumptions Zeros_never_reaches_its_panic.
Print Assumptions Ones_never_reaches_its_panic.
Print Assumptions Eye_never_reaches_its_panic.
Print Assumptions RandU_never_reaches_its_panic.
Print Assumptions RandN_never_reaches_its_panic.
Print Assumptions TensorOf_never_reaches_its_panic.
Print Assumptions validateTensorsDeviceUnity_accepts_iff.
Print Assumptions Concat_never_reaches_its_panic.
Print Assumptions validateTensorsDeviceUnity_spec.
Print Assumptions validateConfig_spec.
Print Assumptions prepareConfig_spec.
Print Assumptions validateTensorDevice_spec.

(* ================= examples over the free scalar algebra [term] ================= *)
Module Examples.
Definition tb (a b : term) : bool := true.
(* a library that echoes its name-independent arguments; BackPropagate returns one result *)
Definition elib (f : string) (args : list (@dval term)) (h : @heap term)
  : option (list (@dval term) * @heap term) :=
  if String.eqb f "gradtrack.BackPropagate" then Some ([DI 0], h)
  else if String.eqb f "cputensor.Eye" then None
  else if String.eqb f "cputensor.Ones" then Some ([DI 5], h)
  else Some ([DL (DI 7 :: args); DI 0], h).
Definition t1 : tensor term := mkT [2%nat] (Vec [Sc (TConst 1 0); Sc (TConst 2 0)]).
Definition h0 : @heap term := [].
Definition h1 := fst (leaf h0 t1 false None).
Definition h2 := fst (leaf h1 t1 false None).
Notation erun0 p := (drun cfapp (@heap term) (cext0 tb tb elib) p 0%nat 0%nat).
Notation erun p := (drun cfapp (@heap term) (cext tb tb elib) p 0%nat 0%nat).
Notation erun2 p := (drun cfapp (@heap term) (cext2 tb tb elib) p 0%nat 0%nat).

Example ex_validateConfig_bad : outcome (erun0 c_tensor_validateConfig [DL [DI 2; DB true]] h0) = Some ([DI 1], h0).
Proof. vm_compute. reflexivity. Qed.
Example ex_prepareConfig_nil : outcome (erun c_tensor_prepareConfig [DNil] h0) = Some ([DL [DI 1; DB false]; DI 0], h0).
Proof. vm_compute. reflexivity. Qed.
Example ex_prepareConfig_bad :
  outcome (erun c_tensor_prepareConfig [DL [DI 0; DB true]] h0) = Some ([DL [DI 0; DB false]; DI 1], h0).
Proof. vm_compute. reflexivity. Qed.
Example ex_unity_ok : outcome (erun0 c_tensor_validateTensorsDeviceUnity [DL [DI 0; DI 1; DI 0]] h2) = Some ([DI 0], h2).
Proof. vm_compute. reflexivity. Qed.
Example ex_unity_nil_inside :
  outcome (erun0 c_tensor_validateTensorsDeviceUnity [DL [DI 0; DI 1; DNil]] h2) = Some ([DI 1], h2).
Proof. vm_compute. reflexivity. Qed.
Example ex_unity_short : outcome (erun0 c_tensor_validateTensorsDeviceUnity [DL [DI 0]] h2) = Some ([DI 1], h2).
Proof. vm_compute. reflexivity. Qed.
Example ex_Full_nil :
  outcome (erun2 c_tensor_Full [DL [DI 2]; DF (TConst 3 0); DNil] h0)
  = Some ([DL [DI 7; DL [DI 2]; DF (TConst 3 0); DB false]; DI 0], h0).
Proof. vm_compute. reflexivity. Qed.
Example ex_Full_track :
  outcome (erun2 c_tensor_Full [DL [DI 2]; DF (TConst 3 0); DL [DI 1; DB true]] h0)
  = Some ([DL [DI 7; DL [DI 2]; DF (TConst 3 0); DB true]; DI 0], h0).
Proof. vm_compute. reflexivity. Qed.
Example ex_Full_bad_device :
  outcome (erun2 c_tensor_Full [DL [DI 2]; DF (TConst 3 0); DL [DI 2; DB true]] h0) = Some ([DNil; DI 1], h0).
Proof. vm_compute. reflexivity. Qed.
(* a panic comes from the library only: no result, or the wrong number of results *)
Example ex_Eye_lib_fails : erun2 c_tensor_Eye [DI 3; DNil] h0 = DPanic _.
Proof. vm_compute. reflexivity. Qed.
Example ex_Ones_lib_arity : erun2 c_tensor_Ones [DL [DI 3]; DNil] h0 = DPanic _.
Proof. vm_compute. reflexivity. Qed.
Example ex_Concat_ok :
  outcome (erun2 c_tensor_Concat [DL [DI 0; DI 1]; DI 0] h2) = Some ([DL [DI 7; DL [DI 0; DI 1]; DI 0]; DI 0], h2).
Proof. vm_compute. reflexivity. Qed.
Example ex_Concat_nil : outcome (erun2 c_tensor_Concat [DL [DI 0; DNil]; DI 0] h2) = Some ([DNil; DI 1], h2).
Proof. vm_compute. reflexivity. Qed.
Example ex_Concat_empty : outcome (erun2 c_tensor_Concat [DL []; DI 0] h2) = Some ([DNil; DI 1], h2).
Proof. vm_compute. reflexivity. Qed.
Example ex_BackPropagate_node : outcome (erun c_tensor_BackPropagate [DI 1] h2) = Some ([DI 0], h2).
Proof. vm_compute. reflexivity. Qed.
Example ex_BackPropagate_nil : outcome (erun c_tensor_BackPropagate [DNil] h2) = Some ([DI 1], h2).
Proof. vm_compute. reflexivity. Qed.
Example ex_BackPropagate_foreign : outcome (erun c_tensor_BackPropagate [DB true] h2) = Some ([DI 1], h2).
Proof. vm_compute. reflexivity. Qed.
End Examples.
