(* SoftmaxRP.v — Softmax read over the real numbers (property C14, Softmax part): every
   element is  e^x / Σ_k e^{x_k}  (the sum taken along [dim]), it is positive, and the
   elements of every fibre along [dim] sum to 1. *)
From Coq Require Import List Arith Lia Reals Lra.
From Qeep Require Import Model.Scalar Model.Nd Model.Data Model.Api Model.Grad Model.Components.
From Qeep Require Import Proofs.NdP Proofs.ReduceP Proofs.MatMulP Proofs.CompP Proofs.SoftmaxP Spec.RScalar Proofs.ReduceRP.
Import ListNotations.
Open Scope R_scope.

(* ---------- finite sums ---------- *)
Lemma Rsum_pos (xs : list R) : xs <> [] -> (forall x, In x xs -> 0 < x) -> 0 < Rsum xs.
Proof.
  intros Hne Hp. destruct xs as [|x xs]; [contradiction|]. clear Hne. revert x Hp.
  induction xs as [|y xs IH]; intros x Hp; unfold Rsum in *; cbn [fold_right] in *.
  - specialize (Hp x (or_introl eq_refl)). lra.
  - specialize (IH y (fun z Hz => Hp z (or_intror Hz))). specialize (Hp x (or_introl eq_refl)). lra.
Qed.

Lemma Rsum_div (xs : list R) (s : R) : Rsum (map (fun x => x / s) xs) = Rsum xs / s.
Proof.
  induction xs as [|x xs IH]; unfold Rsum in *; cbn [map fold_right]; [unfold Rdiv; ring|].
  rewrite IH. unfold Rdiv. ring.
Qed.

Lemma setAt_setAt dim j k (idx : list nat) : (dim < length idx)%nat -> setAt dim j (setAt dim k idx) = setAt dim j idx.
Proof.
  intros Hd. unfold setAt. rewrite del_ins; [reflexivity|]. rewrite del_length by exact Hd. lia.
Qed.

Section R.
Variable thr : R.
Variable draw : bool -> nat -> R.
Local Instance RS : Scalar R := R_scalar thr draw.
Notation T := (tensor R).

(* the exponentials of the fibre of idx along dim *)
Definition expFibre (xv : T) (dim : nat) (idx : list nat) : list R :=
  map (fun k => exp (elt (data xv) (setAt dim k idx))) (seq 0 (nth dim (dims xv) 0%nat)).

Lemma smSum_R (xv : T) dim idx : smSum xv dim idx = Rsum (expFibre xv dim idx).
Proof. unfold smSum, expFibre. cbn [sadd sexp s0 RS R_scalar]. rewrite fold_left_Rplus. ring. Qed.

Theorem smEl_R (xv : T) dim idx : smEl xv dim idx = exp (elt (data xv) idx) / Rsum (expFibre xv dim idx).
Proof. unfold smEl. rewrite smSum_R. reflexivity. Qed.

Lemma expFibre_sum_pos (xv : T) dim idx : (0 < nth dim (dims xv) 0%nat)%nat -> 0 < Rsum (expFibre xv dim idx).
Proof.
  intros Hn. apply Rsum_pos.
  - unfold expFibre. destruct (nth dim (dims xv) 0%nat) as [|n]; [lia|]. cbn. discriminate.
  - intros x Hx. unfold expFibre in Hx. apply in_map_iff in Hx as (k & <- & _). apply exp_pos.
Qed.

(* positivity *)
Theorem smEl_pos (xv : T) dim idx : (0 < nth dim (dims xv) 0%nat)%nat -> 0 < smEl xv dim idx.
Proof.
  intros Hn. rewrite smEl_R. apply Rdiv_lt_0_compat; [apply exp_pos|apply expFibre_sum_pos, Hn].
Qed.

Lemma expFibre_setAt (xv : T) dim k idx : (dim < length idx)%nat ->
  expFibre xv dim (setAt dim k idx) = expFibre xv dim idx.
Proof.
  intros Hd. unfold expFibre. apply map_ext. intros j. rewrite setAt_setAt by exact Hd. reflexivity.
Qed.

(* the elements of the fibre of idx along dim sum to 1 *)
Theorem smEl_fibre_sum (xv : T) dim idx : (0 < nth dim (dims xv) 0%nat)%nat -> (dim < length idx)%nat ->
  Rsum (map (fun k => smEl xv dim (setAt dim k idx)) (seq 0 (nth dim (dims xv) 0%nat))) = 1.
Proof.
  intros Hn Hd. pose proof (expFibre_sum_pos xv dim idx Hn) as Hs.
  rewrite (map_ext _ (fun k => exp (elt (data xv) (setAt dim k idx)) / Rsum (expFibre xv dim idx))).
  - rewrite <- (map_map (fun k => exp (elt (data xv) (setAt dim k idx))) (fun x => x / Rsum (expFibre xv dim idx))).
    rewrite Rsum_div. fold (expFibre xv dim idx). field. lra.
  - intros k. rewrite smEl_R, expFibre_setAt by exact Hd. reflexivity.
Qed.

(* C14 (Softmax) over the reals, at the level of the layer's Forward *)
Theorem softmax_forward_spec_R (h : @heap R) dim x name (xv : T) :
  valOf h x = Some xv -> wf xv -> (dim < length (dims xv))%nat ->
  exists r, produces h (softmax_forward h dim [Some x] name) r name /\ dims r = dims xv /\ wf r /\
    (* every element is e^x / Σ e^x along dim, and positive *)
    (forall idx, validIdx (dims xv) idx ->
       exists xi xs,
         get (data xv) idx = Some xi /\
         map Some xs = map (fun k => get (data xv) (setAt dim k idx)) (seq 0 (nth dim (dims xv) 0%nat)) /\
         get (data r) idx = Some (exp xi / Rsum (map exp xs)) /\ 0 < exp xi / Rsum (map exp xs)) /\
    (* every fibre along dim sums to 1 *)
    (forall idx, validIdx (dims xv) idx ->
       exists ys, map Some ys = map (fun k => get (data r) (setAt dim k idx)) (seq 0 (nth dim (dims xv) 0%nat)) /\
                  Rsum ys = 1).
Proof.
  intros Hx Wx Hd.
  destruct (softmax_forward_spec h dim x name xv Hx Wx Hd) as (r & P & D & Wr & G).
  exists r. split; [exact P|]. split; [exact D|]. split; [exact Wr|]. split.
  - intros idx Hv. destruct (softmax_operands xv dim idx Wx Hd Hv) as (E0 & Ek & _ & _ & Hn).
    exists (elt (data xv) idx), (map (fun k => elt (data xv) (setAt dim k idx)) (seq 0 (nth dim (dims xv) 0%nat))).
    split; [exact E0|]. split.
    { rewrite map_map. apply map_ext_in. intros k Hk. apply in_seq in Hk. symmetry. apply Ek. lia. }
    rewrite map_map. fold (expFibre xv dim idx). rewrite <- smEl_R. split; [apply (G idx Hv)|apply smEl_pos, Hn].
  - intros idx Hv. destruct (softmax_operands xv dim idx Wx Hd Hv) as (_ & Ek & _ & _ & Hn).
    exists (map (fun k => smEl xv dim (setAt dim k idx)) (seq 0 (nth dim (dims xv) 0%nat))). split.
    + rewrite map_map. apply map_ext_in. intros k Hk. apply in_seq in Hk.
      symmetry. apply G. apply Ek. lia.
    + apply smEl_fibre_sum; [exact Hn|]. rewrite (validIdx_length _ _ Hv). exact Hd.
Qed.

End R.

(* non-vacuity of the hypotheses: a well-formed real tensor of rank 2, dim = 1 *)
Example softmax_R_hyp : exists xv : tensor R, wf xv /\ (1 < length (dims xv))%nat /\ validIdx (dims xv) [0%nat; 1%nat].
Proof.
  exists (mkT [1%nat; 2%nat] (Vec [Vec [Sc 0; Sc 1]])). split; [split; cbn; repeat constructor|].
  split; [cbn; lia|repeat constructor].
Qed.

Print Assumptions smEl_R.
Print Assumptions smEl_pos.
Print Assumptions smEl_fibre_sum.
Print Assumptions softmax_forward_spec_R.
