(* InitRP.v — initializers: heap-level statement (tracked fresh leaf, stream positions) and the
   real-number reading of supports and scale formulas. *)
From Coq Require Import List Arith ZArith Bool Lia Reals Lra.
From Qeep Require Import Model.Scalar Model.Nd Model.Fill Model.Data Model.Valid Model.Api
     Model.Grad Model.Components Model.Consts Proofs.NdP Proofs.FillP Proofs.InitP Spec.RScalar.
Import ListNotations.
Local Open Scope nat_scope.

Section Heap.
Context {A : Type} {SA : Scalar A}.
Variables (dFull dUniL dUniU dNorM dNorS : dec).

(* a successful Init appends exactly one node: a tracked, unspent leaf without gradient or
   edges, holding the initializer's value; the stream position advances by the number of
   elements for the random initializers and not at all for Full *)
Theorem init_run_spec (h : @heap A) (s : initSpec) (shape : list Z) (pos : nat) (name : option nat) :
  init_valid dUniL dUniU dNorS s = true -> validateInputDims shape = true ->
  exists t, init_value dFull dUniL dUniU dNorM dNorS s shape pos = Ok t /\
    init_run dFull dUniL dUniU dNorM dNorS h s shape pos name =
      (h ++ [mkNode t true false None [] name], Ok (length h),
       if init_is_random s then pos + prodn (natsOf shape) else pos) /\
    dims t = natsOf shape.
Proof.
  intros Hv Hs. destruct (init_value_spec dFull dUniL dUniU dNorM dNorS s shape pos Hv) as [_ H].
  destruct (H Hs) as (t & E & Hspec). exists t. split; [exact E|].
  assert (Hd : dims t = natsOf shape).
  { destruct s as [v|lu|ms|[f|]|[f|]|[[fi fo]|]|[[fi fo]|]]; cbn [init_params] in Hspec; try contradiction;
      try (destruct lu as [[l u]|]); try (destruct ms as [[m sd]|]); apply Hspec. }
  split; [|exact Hd]. unfold init_run. rewrite Hv, E. cbn [negb leaf alloc]. rewrite Hd. reflexivity.
Qed.

Theorem init_run_rejects (h : @heap A) (s : initSpec) (shape : list Z) (pos : nat) (name : option nat) :
  init_valid dUniL dUniU dNorS s = false \/ validateInputDims shape = false ->
  init_run dFull dUniL dUniU dNorM dNorS h s shape pos name = (h, Err, pos).
Proof.
  intros [Hv|Hs]; unfold init_run.
  - rewrite Hv. reflexivity.
  - destruct (init_valid dUniL dUniU dNorS s) eqn:Hv; [|reflexivity]. cbn [negb].
    destruct (init_value_spec dFull dUniL dUniU dNorM dNorS s shape pos Hv) as [H _]. rewrite (H Hs). reflexivity.
Qed.

(* successive calls consume consecutive, hence disjoint, ranges of the stream, and inside one call
   distinct positions read distinct draws *)
Lemma flatIdx_inj ds : forall i1 i2, validIdx ds i1 -> validIdx ds i2 -> flatIdx ds i1 = flatIdx ds i2 -> i1 = i2.
Proof.
  induction ds as [|d ds IH]; intros i1 i2 H1 H2 E.
  - apply validIdx_nil in H1, H2. congruence.
  - apply validIdx_cons in H1 as (a & r1 & -> & Ha & Hr1). apply validIdx_cons in H2 as (b & r2 & -> & Hb & Hr2).
    cbn [flatIdx] in E. pose proof (flatIdx_lt ds r1 Hr1) as L1. pose proof (flatIdx_lt ds r2 Hr2) as L2.
    assert (a = b) by nia. subst b. f_equal. apply IH; [assumption|assumption|lia].
Qed.

Theorem draws_disjoint (p1 : nat) (ds1 ds2 : list nat) i1 i2 :
  validIdx ds1 i1 -> validIdx ds2 i2 ->
  let p2 := p1 + prodn ds1 in
  p1 + flatIdx ds1 i1 < p2 /\ p2 <= p2 + flatIdx ds2 i2 /\ p1 + flatIdx ds1 i1 <> p2 + flatIdx ds2 i2.
Proof. intros H1 H2 p2. pose proof (flatIdx_lt ds1 i1 H1). subst p2. lia. Qed.

End Heap.

(* ---------- reading over the reals ---------- *)
Open Scope R_scope.

Section Reals.
Variable thr : R.
Variable draw : bool -> nat -> R.
Hypothesis draw_unit : forall k, 0 <= draw false k < 1.     (* rand.Float64() is in [0,1) *)
Existing Instance R_scalar.
Local Instance RS : Scalar R := R_scalar thr draw.

(* an element of a uniform draw lies in [lower, upper) *)
Theorem uniform_support (lo hi : R) (k : nat) :
  lo < hi -> lo <= sadd (smul (srnd false k) (ssub hi lo)) lo < hi.
Proof.
  intros H. cbn. pose proof (draw_unit k) as [H0 H1]. split.
  - assert (0 <= draw false k * (hi - lo)) by (apply Rmult_le_pos; lra). lra.
  - assert (draw false k * (hi - lo) < 1 * (hi - lo)) by (apply Rmult_lt_compat_r; lra). lra.
Qed.

(* He / Xavier: the bounds of the uniform support and the standard deviations *)
Theorem scale_formulas (fi fo : Z) :
  (0 < fi)%Z -> (0 < fo)%Z ->
  @sqrtOver R RS 6 fi = sqrt (6 / IZR fi) /\
  @sqrtOver R RS 2 fi = sqrt (2 / IZR fi) /\
  @sqrtOver R RS 6 (fi + fo) = sqrt (6 / (IZR fi + IZR fo)) /\
  @sqrtOver R RS 2 (fi + fo) = sqrt (2 / (IZR fi + IZR fo)).
Proof.
  intros Hi Ho. unfold sqrtOver, cst. cbn. unfold dec2R. cbn [powerRZ].
  rewrite !INR_IZR_INZ, !Z2Nat.id by lia. rewrite ?plus_IZR. repeat split; f_equal; unfold Rdiv; ring.
Qed.

Theorem he_xavier_symmetric (r : R) : 0 < r -> ssub (@cst R RS 0 0) r = - r /\ - r < r.
Proof. intros H. cbn. unfold dec2R. cbn. split; lra. Qed.

(* defaults of nil configs, as read from the Go sources into Consts.v *)
Theorem default_constants :
  dec2R (fst c_full_value) (snd c_full_value) = 0 /\
  dec2R (fst c_uniform_lower) (snd c_uniform_lower) = -0.05 /\
  dec2R (fst c_uniform_upper) (snd c_uniform_upper) = 0.05 /\
  dec2R (fst c_normal_mean) (snd c_normal_mean) = 0 /\
  dec2R (fst c_normal_stddev) (snd c_normal_stddev) = 0.05.
Proof. unfold dec2R; simpl. repeat split; lra. Qed.

End Reals.
