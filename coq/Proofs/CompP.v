(* CompP.v — components (component/{layers/activations,optimizers}) against exact element-wise
   expressions, for an arbitrary [Scalar A] with no laws.

   0. value projection: every tracked heap method used by the components allocates a node whose
      value is the value-level function [v_*] of Api.v applied to the operand VALUES
      ([tracks]: Ok <-> Ok, Err <-> Err, Panic <-> Panic; old nodes untouched);
      same-shape arithmetic [v_arith_same_dims]; a small calculus of element-wise
      descriptions ([pw2]) that composes along a chain of calls.
   1. SGD (C17): [sgd_update_spec], [sgd_update_frame], [sgd_update_errors].
   3. activations (C14): Relu / LeakyRelu / Sigmoid / Tanh.
   (2. Accuracy is in AccP.v, 4. losses in LossP.v.) *)
From Coq Require Import List Arith ZArith Bool Lia.
From Qeep Require Import Model.Scalar Model.Nd Model.Fill Model.Data Model.Valid Model.Api Model.Grad Model.Components.
From Qeep Require Import Proofs.NdP Proofs.ElemP Proofs.ReshapeP Proofs.BroadcastP Proofs.TrackP
  Spec.ValidSpec Proofs.ValidP.
Import ListNotations.

(* ---------- shapes broadcast against themselves ---------- *)
Lemma compat2R_refl l : compat2R l l.
Proof. induction l as [|a l IH]; cbn; auto. Qed.

Lemma tbdRev_same l : tbdRev l l = l.
Proof. induction l as [|a l IH]; cbn [tbdRev]; [reflexivity|]. rewrite Nat.max_id, IH. reflexivity. Qed.

Lemma targetBroadcastDims_same ds : targetBroadcastDims ds ds = ds.
Proof. unfold targetBroadcastDims. rewrite tbdRev_same, rev_involutive. reflexivity. Qed.

Lemma bproj_same ds idx : validIdx ds idx -> bproj ds ds idx = idx.
Proof.
  unfold bproj. rewrite Nat.sub_diag. cbn [skipn]. unfold validIdx.
  induction 1 as [|i d idx' ds' Hi _ IH]; cbn [combine map fst snd]; [reflexivity|].
  rewrite IH. destruct (d =? 1) eqn:E; [|reflexivity]. apply Nat.eqb_eq in E. f_equal. lia.
Qed.

Section CompP.
Context {A : Type} {SA : Scalar A}.
Notation T := (tensor A).
Notation heap := (@heap A).
Notation hres := (@hres A).
Notation node := (@node A).

(* ================================================================== *)
(*  0a. same-shape arithmetic                                          *)
(* ================================================================== *)

(* Add/Sub/Mul/Div on two tensors of the same shape: never an error, element-wise *)
Theorem v_arith_same_dims (b : binary) (t u : T) : wf t -> wf u -> dims t = dims u ->
  exists r, v_arith b t u = Ok r /\ dims r = dims t /\ wf r /\
    forall idx, validIdx (dims t) idx ->
      get (data r) idx =
      match get (data t) idx, get (data u) idx with Some x, Some y => Some (binaryF b x y) | _, _ => None end.
Proof.
  intros Ht Hu E. destruct (v_bcast2_spec t u Ht Hu) as [H _]. cbv zeta in H.
  assert (Et : targetBroadcastDims (dims t) (dims u) = dims t) by (rewrite <- E; apply targetBroadcastDims_same).
  rewrite Et in H.
  destruct H as (t1 & u1 & Eb & (Hd1 & Hw1 & Hg1) & (Hd2 & Hw2 & Hg2)).
  { unfold bcompat2. rewrite <- E. apply compat2R_refl. }
  unfold v_arith. rewrite Eb. cbn [res_bind fst snd].
  destruct (apply2_spec (binaryF b) t1 u1 Hw1 Hw2 ltac:(congruence)) as (r & Er & Hdr & Hwr & Hgr).
  rewrite Er. cbn [of_opt]. exists r. split; [reflexivity|]. split; [congruence|]. split; [exact Hwr|].
  intros idx Hv. rewrite Hgr by (rewrite Hd1; exact Hv). rewrite Hg1, Hg2 by exact Hv.
  rewrite <- E. rewrite !bproj_same by exact Hv. reflexivity.
Qed.

(* ================================================================== *)
(*  0b. element-wise descriptions that compose                         *)
(* ================================================================== *)

(* r has the shape of p and r[idx] = F p[idx] t[idx] *)
Definition pw2 (F : A -> A -> A) (p t r : T) : Prop :=
  dims r = dims p /\ wf r /\
  forall idx, validIdx (dims p) idx ->
    get (data r) idx =
    match get (data p) idx, get (data t) idx with Some a, Some b => Some (F a b) | _, _ => None end.

(* r has the shape of x and r[idx] = F x[idx] *)
Definition pw1 (F : A -> A) (x r : T) : Prop :=
  dims r = dims x /\ wf r /\
  forall idx, validIdx (dims x) idx -> get (data r) idx = option_map F (get (data x) idx).

Lemma pw2_fst (p t : T) : wf p -> wf t -> dims p = dims t -> pw2 (fun a _ => a) p t p.
Proof.
  intros Hp Ht E. split; [reflexivity|]. split; [exact Hp|]. intros idx Hv.
  destruct (get_wf A _ _ _ (proj1 Hp) Hv) as (a & ->).
  rewrite E in Hv. destruct (get_wf A _ _ _ (proj1 Ht) Hv) as (b & ->). reflexivity.
Qed.

Lemma pw2_snd (p t : T) : wf p -> wf t -> dims p = dims t -> pw2 (fun _ b => b) p t t.
Proof.
  intros Hp Ht E. split; [congruence|]. split; [exact Ht|]. intros idx Hv.
  destruct (get_wf A _ _ _ (proj1 Hp) Hv) as (a & ->).
  rewrite E in Hv. destruct (get_wf A _ _ _ (proj1 Ht) Hv) as (b & ->). reflexivity.
Qed.

Lemma pw2_unary (u : unary) F (p t a : T) : pw2 F p t a ->
  exists r, v_unary u a = Ok r /\ pw2 (fun x y => unaryF u (F x y)) p t r.
Proof.
  intros (Hd & Hw & Hg). destruct (v_unary_spec u a Hw) as (r & Er & Hdr & Hwr & Hgr).
  exists r. split; [exact Er|]. split; [congruence|]. split; [exact Hwr|].
  intros idx Hv. rewrite Hgr by (rewrite Hd; exact Hv). rewrite Hg by exact Hv.
  destruct (get (data p) idx); [destruct (get (data t) idx)|]; reflexivity.
Qed.

Lemma pw2_same (b : binary) F G (p t a1 a2 : T) : pw2 F p t a1 -> pw2 G p t a2 ->
  exists r, v_same b a1 a2 = Ok r /\ pw2 (fun x y => binaryF b (F x y) (G x y)) p t r.
Proof.
  intros (Hd1 & Hw1 & Hg1) (Hd2 & Hw2 & Hg2).
  destruct (v_same_spec b a1 a2 Hw1 Hw2) as [H _].
  destruct (H ltac:(congruence)) as (r & Er & Hdr & Hwr & Hgr).
  exists r. split; [exact Er|]. split; [congruence|]. split; [exact Hwr|].
  intros idx Hv. rewrite Hgr by (rewrite Hd1; exact Hv). rewrite Hg1, Hg2 by exact Hv.
  destruct (get (data p) idx); [destruct (get (data t) idx)|]; reflexivity.
Qed.

Lemma pw2_arith (b : binary) F G (p t a1 a2 : T) : pw2 F p t a1 -> pw2 G p t a2 ->
  exists r, v_arith b a1 a2 = Ok r /\ pw2 (fun x y => binaryF b (F x y) (G x y)) p t r.
Proof.
  intros (Hd1 & Hw1 & Hg1) (Hd2 & Hw2 & Hg2).
  destruct (v_arith_same_dims b a1 a2 Hw1 Hw2 ltac:(congruence)) as (r & Er & Hdr & Hwr & Hgr).
  exists r. split; [exact Er|]. split; [congruence|]. split; [exact Hwr|].
  intros idx Hv. rewrite Hgr by (rewrite Hd1; exact Hv). rewrite Hg1, Hg2 by exact Hv.
  destruct (get (data p) idx); [destruct (get (data t) idx)|]; reflexivity.
Qed.

Lemma pw2_diag F (x r : T) : pw2 F x x r -> pw1 (fun e => F e e) x r.
Proof.
  intros (Hd & Hw & Hg). split; [exact Hd|]. split; [exact Hw|]. intros idx Hv.
  rewrite Hg by exact Hv. destruct (get (data x) idx); reflexivity.
Qed.

(* the elements of a pw2-described tensor in row-major order *)
Lemma pw2_flat F (p t r : T) : wf p -> wf t -> dims p = dims t -> pw2 F p t r ->
  flat (data r) = map2 F (flat (data p)) (flat (data t)).
Proof.
  intros [Hp _] [Ht _] E (Hd & [Hw _] & Hg). rewrite <- E in Ht. rewrite Hd in Hw.
  destruct (calc2_spec F (dims p) (data p) (data t) Hp Ht) as (d & Ed & Hwd & Hgd).
  assert (data r = d) as ->.
  { apply (nd_ext A (dims p)); [exact Hw|exact Hwd|]. intros idx Hv. rewrite Hg, Hgd by exact Hv. reflexivity. }
  apply (calc2_flat F (dims p) (data p) (data t) d Hp Ht Ed).
Qed.

(* ================================================================== *)
(*  0c. value projection of the tracked heap methods                   *)
(* ================================================================== *)

Definition nameOf (h : heap) (i : nat) : option nat :=
  match nth_error h i with Some n => nname n | None => None end.

(* the call succeeded: the result is the LAST node of an extension of h; its value is v *)
Definition produces (h : heap) (hr : hres) (v : T) (name : option nat) : Prop :=
  exists h' id, hr = (h', Ok id) /\ extends h h' /\ length h <= id /\ S id = length h' /\
                valOf h' id = Some v /\ gradOf h' id = None /\ nameOf h' id = name.

(* the heap call [hr] started in [h] behaves like the value-level outcome [r]:
   Ok v -> a new node with value v;  Err / Panic -> same outcome, heap unchanged *)
Definition tracks (h : heap) (hr : hres) (r : res T) (name : option nat) : Prop :=
  match r with Ok v => produces h hr v name | Err => hr = (h, Err) | Panic => hr = (h, Panic) end.

(* the same inside a composite call, before [atomically] restores the heap *)
Definition tracks_w (h : heap) (hr : hres) (r : res T) (name : option nat) : Prop :=
  match r with Ok v => produces h hr v name | Err => snd hr = Err | Panic => snd hr = Panic end.

Lemma extends_valOf (h h' : heap) i v : extends h h' -> valOf h i = Some v -> valOf h' i = Some v.
Proof.
  intros [l ->] H. rewrite valOf_app; [exact H|]. eapply valOf_some_lt; eauto.
Qed.

Lemma extends_gradOf (h h' : heap) i g : extends h h' -> gradOf h i = Some g -> gradOf h' i = Some g.
Proof.
  intros [l ->] H. unfold gradOf in *. destruct (nth_error h i) as [n|] eqn:E; [|discriminate].
  rewrite (nth_error_snoc_old h l i n E). exact H.
Qed.

(* what [produces] gives, in the form "if it returns (h', Ok id) then ..." *)
Lemma produces_inv (h : heap) hr v name : produces h hr v name ->
  exists h' id, hr = (h', Ok id) /\ valOf h' id = Some v /\ length h <= id /\
    (forall i n, nth_error h i = Some n -> nth_error h' i = Some n) /\
    (forall i v0, valOf h i = Some v0 -> valOf h' i = Some v0) /\
    (forall i g, gradOf h i = Some g -> gradOf h' i = Some g).
Proof.
  intros (h' & id & E & Hext & Hle & _ & Hv & _). exists h', id. split; [exact E|]. split; [exact Hv|].
  split; [exact Hle|]. split; [apply extends_nth, Hext|]. split.
  - intros i v0. apply extends_valOf, Hext.
  - intros i g. apply extends_gradOf, Hext.
Qed.

Lemma produces_ok (h : heap) hr v name : produces h hr v name -> exists id, snd hr = Ok id.
Proof. intros (h' & id & -> & _). exists id. reflexivity. Qed.

Lemma produces_weaken (h h1 : heap) hr v name : extends h h1 -> produces h1 hr v name -> produces h hr v name.
Proof.
  intros He (h' & id & E & Hext & Hle & HS & Hv & Hg & Hn). exists h', id. split; [exact E|].
  split; [eapply extends_trans; eauto|]. split; [apply extends_length in He; lia|]. auto.
Qed.

Lemma tracks_is_w (h : heap) hr r name : tracks h hr r name -> tracks_w h hr r name.
Proof. destruct r as [v| |]; cbn; [auto|intros ->; reflexivity|intros ->; reflexivity]. Qed.

Lemma tracks_w_weaken (h h1 : heap) hr r name : extends h h1 -> tracks_w h1 hr r name -> tracks_w h hr r name.
Proof. destruct r as [v| |]; cbn; [apply produces_weaken|auto|auto]. Qed.

(* a tracked call that is Ok at the value level is Ok on the heap and conversely *)
Lemma tracks_ok_iff (h : heap) hr r name : tracks h hr r name ->
  ((exists id, snd hr = Ok id) <-> (exists v, r = Ok v)) /\ (snd hr = Err <-> r = Err) /\ (snd hr = Panic <-> r = Panic).
Proof.
  destruct r as [v| |]; cbn.
  - intros (h' & id & -> & _). cbn. repeat split; try discriminate; eauto.
  - intros ->. cbn. repeat split; try discriminate; auto; intros (x & X); discriminate.
  - intros ->. cbn. repeat split; try discriminate; auto; intros (x & X); discriminate.
Qed.

Lemma alloc_produces (h : heap) (v : T) ctx name :
  produces h (let '(h', id) := alloc h v ctx name in (h', Ok id)) v name.
Proof.
  rewrite alloc_eq. exists (h ++ [ctxNode v ctx name]), (length h). split; [reflexivity|].
  split; [eexists; reflexivity|]. split; [lia|]. split; [rewrite app_length; cbn; lia|].
  split; [rewrite valOf_new; reflexivity|].
  split; [unfold gradOf; rewrite nth_error_snoc_new; reflexivity|].
  unfold nameOf. rewrite nth_error_snoc_new. reflexivity.
Qed.

(* ---- one-operand methods ---- *)
Theorem h_op1_tracks (h : heap) x (f : T -> res T) mk name xv : valOf h x = Some xv ->
  tracks h (h_op1 h x f mk name) (f xv) name.
Proof.
  intros Hx. unfold h_op1. rewrite Hx. destruct (f xv) as [v| |]; cbn [tracks]; try reflexivity.
  cbv zeta. apply alloc_produces.
Qed.

Corollary h_scale_tracks (h : heap) x a name xv : valOf h x = Some xv ->
  tracks h (h_scale h x a name) (v_unary (UScale a) xv) name.
Proof. apply h_op1_tracks. Qed.
Corollary h_pow_tracks (h : heap) x a az name xv : valOf h x = Some xv ->
  tracks h (h_pow h x a az name) (v_unary (UPow a) xv) name.
Proof. apply h_op1_tracks. Qed.
Corollary h_math_tracks (h : heap) fn x name xv : valOf h x = Some xv ->
  tracks h (h_math h fn x name) (v_unary (mathUnary fn) xv) name.
Proof. apply h_op1_tracks. Qed.
Corollary h_reduceAlong_tracks (h : heap) rd x dim name xv : valOf h x = Some xv ->
  tracks h (h_reduceAlong h rd x dim name) (v_reduceAlong rd xv dim) name.
Proof. intros Hx. apply (h_op1_tracks h x (fun v => v_reduceAlong rd v dim) _ name xv Hx). Qed.
Corollary h_unsqueeze_tracks (h : heap) x dim name xv : valOf h x = Some xv ->
  tracks h (h_unsqueeze h x dim name) (v_unsqueeze xv dim) name.
Proof. intros Hx. apply (h_op1_tracks h x (fun v => v_unsqueeze v dim) _ name xv Hx). Qed.
Corollary h_broadcast_tracks (h : heap) x shape name xv : valOf h x = Some xv ->
  tracks h (h_broadcast h x shape name) (v_broadcast xv shape) name.
Proof. intros Hx. apply (h_op1_tracks h x (fun v => v_broadcast v shape) _ name xv Hx). Qed.

(* a missing operand panics and leaves the heap alone *)
Lemma h_op1_missing (h : heap) x f mk name : valOf h x = None -> h_op1 h x f mk name = (h, Panic).
Proof. intros Hx. unfold h_op1. rewrite Hx. reflexivity. Qed.

(* ---- ElMax / ElMin and the comparisons ---- *)
Theorem h_elsel_tracks (h : heap) b x u name xv uv : valOf h x = Some xv -> valOf h u = Some uv ->
  tracks h (h_elsel h b x u name) (v_same b xv uv) name.
Proof.
  intros Hx Hu. unfold h_elsel. rewrite Hx, Hu. destruct (v_same b xv uv) as [v| |]; cbn [tracks]; try reflexivity.
  cbv zeta. apply alloc_produces.
Qed.

Theorem h_cmp_tracks (h : heap) b x u name xv uv : valOf h x = Some xv -> valOf h u = Some uv ->
  tracks h (h_cmp h b x u name) (v_same b xv uv) name.
Proof.
  intros Hx Hu. unfold h_cmp. rewrite Hx, Hu. destruct (v_same b xv uv) as [v| |]; cbn [tracks]; try reflexivity.
  apply alloc_produces.
Qed.

(* ---- Add / Sub / Mul / Div: two Broadcast nodes, then the result ---- *)
Theorem h_arith_tracks (h : heap) b x u name xv uv : valOf h x = Some xv -> valOf h u = Some uv ->
  tracks h (h_arith h b x u name) (v_arith b xv uv) name.
Proof.
  intros Hx Hu. unfold h_arith. rewrite Hx, Hu. cbv zeta.
  unfold v_arith, v_bcast2. cbv zeta.
  set (shape := map Z.of_nat (targetBroadcastDims (dims xv) (dims uv))).
  unfold h_binop, h_bcast2.
  pose proof (h_broadcast_tracks h x shape None xv Hx) as H1.
  destruct (v_broadcast xv shape) as [v1| |]; cbn [tracks res_bind] in *.
  - destruct H1 as (h1 & b1 & E1 & Hext1 & Hle1 & HS1 & Hv1 & _). rewrite E1.
    pose proof (h_broadcast_tracks h1 u shape None uv (extends_valOf _ _ _ _ Hext1 Hu)) as H2.
    destruct (v_broadcast uv shape) as [v2| |]; cbn [tracks res_bind] in *.
    + destruct H2 as (h2 & b2 & E2 & Hext2 & Hle2 & HS2 & Hv2 & _). rewrite E2.
      rewrite (extends_valOf _ _ _ _ Hext2 Hv1), Hv2. cbn [fst snd].
      destruct (apply2 (binaryF b) v1 v2) as [v|]; cbn [of_opt tracks]; [|reflexivity].
      cbv zeta. eapply produces_weaken; [eapply extends_trans; eauto|]. apply alloc_produces.
    + rewrite H2. reflexivity.
    + rewrite H2. reflexivity.
  - rewrite H1. reflexivity.
  - rewrite H1. reflexivity.
Qed.

Lemma h_arith_missing (h : heap) b x u name : valOf h x = None \/ valOf h u = None ->
  h_arith h b x u name = (h, Panic).
Proof.
  intros [H|H]; unfold h_arith; rewrite H; [reflexivity|]. destruct (valOf h x); reflexivity.
Qed.

(* the requested "if it returns (h', Ok id)" form, for the record *)
Corollary h_arith_ok_inv (h : heap) b x u name xv uv h' id :
  valOf h x = Some xv -> valOf h u = Some uv -> h_arith h b x u name = (h', Ok id) ->
  exists v, v_arith b xv uv = Ok v /\ valOf h' id = Some v /\ length h <= id /\
    (forall i n, nth_error h i = Some n -> nth_error h' i = Some n) /\
    (forall i v0, valOf h i = Some v0 -> valOf h' i = Some v0).
Proof.
  intros Hx Hu E. pose proof (h_arith_tracks h b x u name xv uv Hx Hu) as H. rewrite E in H.
  destruct (v_arith b xv uv) as [v| |]; cbn [tracks] in H; try discriminate.
  exists v. split; [reflexivity|]. apply produces_inv in H as (h'' & id' & E' & Hv & Hle & Hn & Hvs & _).
  inversion E'; subst. auto.
Qed.

Corollary h_op1_ok_inv (h : heap) x f mk name xv h' id :
  valOf h x = Some xv -> h_op1 h x f mk name = (h', Ok id) ->
  exists v, f xv = Ok v /\ valOf h' id = Some v /\ length h <= id /\
    (forall i n, nth_error h i = Some n -> nth_error h' i = Some n) /\
    (forall i v0, valOf h i = Some v0 -> valOf h' i = Some v0).
Proof.
  intros Hx E. pose proof (h_op1_tracks h x f mk name xv Hx) as H. rewrite E in H.
  destruct (f xv) as [v| |]; cbn [tracks] in H; try discriminate.
  exists v. split; [reflexivity|]. apply produces_inv in H as (h'' & id' & E' & Hv & Hle & Hn & Hvs & _).
  inversion E'; subst. auto.
Qed.

Corollary h_elsel_ok_inv (h : heap) b x u name xv uv h' id :
  valOf h x = Some xv -> valOf h u = Some uv -> h_elsel h b x u name = (h', Ok id) ->
  exists v, v_same b xv uv = Ok v /\ valOf h' id = Some v /\ length h <= id /\
    (forall i n, nth_error h i = Some n -> nth_error h' i = Some n) /\
    (forall i v0, valOf h i = Some v0 -> valOf h' i = Some v0).
Proof.
  intros Hx Hu E. pose proof (h_elsel_tracks h b x u name xv uv Hx Hu) as H. rewrite E in H.
  destruct (v_same b xv uv) as [v| |]; cbn [tracks] in H; try discriminate.
  exists v. split; [reflexivity|]. apply produces_inv in H as (h'' & id' & E' & Hv & Hle & Hn & Hvs & _).
  inversion E'; subst. auto.
Qed.

(* ---- sequencing ---- *)
Lemma tracks_w_bind (h : heap) hr (r : res T) nm (f : heap -> nat -> hres) (k : T -> res T) name :
  tracks_w h hr r nm ->
  (forall h1 id v, extends h h1 -> length h <= id -> valOf h1 id = Some v -> r = Ok v ->
     tracks_w h1 (f h1 id) (k v) name) ->
  tracks_w h (hbind hr f) (res_bind r k) name.
Proof.
  intros H K. destruct r as [v| |]; cbn [tracks_w res_bind] in *.
  - destruct H as (h1 & id & -> & Hext & Hle & _ & Hv & _). cbn [hbind].
    eapply tracks_w_weaken; [exact Hext|]. apply K; auto.
  - destruct hr as [h1 r1]. cbn in H. subst r1. reflexivity.
  - destruct hr as [h1 r1]. cbn in H. subst r1. reflexivity.
Qed.

Lemma tracks_atomically (h : heap) hr r name : tracks_w h hr r name -> tracks h (atomically h hr) r name.
Proof.
  destruct r as [v| |]; cbn [tracks tracks_w].
  - intros (h1 & id & -> & H). cbn [atomically]. exists h1, id. split; [reflexivity|exact H].
  - destruct hr as [h1 r1]. cbn. intros ->. reflexivity.
  - destruct hr as [h1 r1]. cbn. intros ->. reflexivity.
Qed.

(* ================================================================== *)
(*  1. SGD (C17)                                                       *)
(* ================================================================== *)

Theorem sgd_update_spec (h : heap) (lr : A) (w : nat) name (wv g : T) :
  valOf h w = Some wv -> gradOf h w = Some g -> wf wv -> wf g -> dims g = dims wv ->
  exists n, sgd_update h lr (Some w) name = (h ++ [n], Ok (length h)) /\
    ntracked n = false /\ ndirty n = true /\ ngrad n = None /\ nedges n = [] /\ nname n = name /\
    dims (nval n) = dims wv /\ wf (nval n) /\
    forall idx, validIdx (dims wv) idx ->
      get (data (nval n)) idx =
      match get (data wv) idx, get (data g) idx with
      | Some x, Some gx => Some (ssub x (smul lr gx)) | _, _ => None end.
Proof.
  intros Hw Hg Wwv Wg Ed. unfold sgd_update. rewrite Hw, Hg.
  destruct (v_unary_spec (UScale lr) g Wg) as (delta & Edl & Hdd & Wd & Hgd).
  rewrite Edl. cbn [res_bind].
  destruct (v_arith_same_dims BiSub wv delta Wwv Wd ltac:(congruence)) as (r & Er & Hdr & Wr & Hgr).
  rewrite Er. cbn [alloc]. eexists. split; [reflexivity|]. cbn [ntracked ndirty ngrad nedges nname nval].
  repeat (split; [reflexivity|]). split; [exact Hdr|]. split; [exact Wr|].
  intros idx Hv. rewrite Hgr by exact Hv. rewrite Hgd by (rewrite Ed; exact Hv).
  destruct (get (data wv) idx); [|reflexivity]. destruct (get (data g) idx); reflexivity.
Qed.

(* the previous tensor and its gradient are still there; the new tensor is at the fresh id *)
Corollary sgd_update_frame (h : heap) (lr : A) (w : nat) name (wv g : T) :
  valOf h w = Some wv -> gradOf h w = Some g -> wf wv -> wf g -> dims g = dims wv ->
  exists h' r, sgd_update h lr (Some w) name = (h', Ok (length h)) /\
    valOf h' (length h) = Some r /\ valOf h' w = Some wv /\ gradOf h' w = Some g /\
    (forall i n, nth_error h i = Some n -> nth_error h' i = Some n) /\ length h' = S (length h).
Proof.
  intros Hw Hg Wwv Wg Ed. destruct (sgd_update_spec h lr w name wv g Hw Hg Wwv Wg Ed) as (n & E & _).
  exists (h ++ [n]), (nval n). split; [exact E|]. split; [apply valOf_new|].
  assert (Hext : extends h (h ++ [n])) by (eexists; reflexivity).
  split; [eapply extends_valOf; eauto|]. split; [eapply extends_gradOf; eauto|].
  split; [apply extends_nth, Hext|]. rewrite app_length. cbn. lia.
Qed.

(* nil cell, or a tensor without gradient: error, nothing allocated *)
Theorem sgd_update_errors (h : heap) (lr : A) name :
  sgd_update h lr None name = (h, Err) /\
  (forall w wv, valOf h w = Some wv -> gradOf h w = None -> sgd_update h lr (Some w) name = (h, Err)).
Proof.
  split; [reflexivity|]. intros w wv Hw Hg. unfold sgd_update. rewrite Hw, Hg. reflexivity.
Qed.

(* whatever the arguments: a call that does not return a tensor leaves the heap as it was *)
Theorem sgd_update_fail_frame (h : heap) (lr : A) cell name h' r :
  sgd_update h lr cell name = (h', r) -> (forall id, r <> Ok id) -> h' = h.
Proof.
  unfold sgd_update. destruct cell as [w|]; [|intros E; inversion E; reflexivity].
  destruct (valOf h w) as [wv|]; [destruct (gradOf h w) as [g|]|]; try (intros E; inversion E; reflexivity).
  destruct (dor delta <- v_unary (UScale lr) g; v_arith BiSub wv delta) as [v| |];
    try (intros E; inversion E; reflexivity).
  cbn [alloc]. intros E Hr. inversion E; subst. exfalso. apply (Hr (length h)). reflexivity.
Qed.

(* ================================================================== *)
(*  3. activations (C14)                                               *)
(* ================================================================== *)

Notation c0 := (sconst 0 0).
Notation cm1 := (sconst (-1) 0).

(* the compositions at the value level, in the order of the Go code *)
Definition relu_val (xv : T) : res T :=
  dor z <- v_unary (UScale c0) xv; v_same BiElMax z xv.
Definition leaky_val (m : A) (xv : T) : res T :=
  dor z <- v_unary (UScale c0) xv;
  dor p1 <- v_same BiElMax z xv;
  dor p2 <- v_same BiElMin z xv;
  dor p3 <- v_unary (UScale m) p2;
  v_arith BiAdd p1 p3.
Definition sigmoid_val (xv : T) : res T :=
  dor one <- v_unary (UPow c0) xv;
  dor nx <- v_unary (UScale cm1) xv;
  dor ex <- v_unary UExpo nx;
  dor y <- v_arith BiAdd one ex;
  v_unary (UPow cm1) y.
Definition tanh_val (xv : T) : res T := v_unary UTanH xv.

(* element functions *)
Definition reluF (e : A) : A := smax (smul c0 e) e.
Definition leakyF (m e : A) : A := sadd (smax (smul c0 e) e) (smul m (smin (smul c0 e) e)).
Definition sigmoidF (e : A) : A := spow (sadd (spow e c0) (sexp (smul cm1 e))) cm1.

(* ---- heap level: the layer is its value-level composition (no hypothesis on the values) ---- *)
Theorem relu_forward_tracks (h : heap) x name xv : valOf h x = Some xv ->
  tracks h (relu_forward h [Some x] name) (relu_val xv) name.
Proof.
  intros Hx. unfold relu_forward, relu_val. cbn [oneInput]. apply tracks_atomically.
  eapply tracks_w_bind; [apply tracks_is_w, h_scale_tracks, Hx|].
  intros h1 z zv X1 _ Hz _. apply tracks_is_w, h_elsel_tracks; [exact Hz|eapply extends_valOf; eauto].
Qed.

Theorem leaky_forward_tracks (h : heap) m x name xv : valOf h x = Some xv ->
  tracks h (leaky_forward h m [Some x] name) (leaky_val m xv) name.
Proof.
  intros Hx. unfold leaky_forward, leaky_val. cbn [oneInput]. apply tracks_atomically.
  eapply tracks_w_bind; [apply tracks_is_w, h_scale_tracks, Hx|].
  intros h1 z zv X1 _ Hz _. pose proof (extends_valOf _ _ _ _ X1 Hx) as Hx1.
  eapply tracks_w_bind; [apply tracks_is_w, h_elsel_tracks; [exact Hz|exact Hx1]|].
  intros h2 p1 p1v X2 _ Hp1 _.
  eapply tracks_w_bind;
    [apply tracks_is_w, h_elsel_tracks; [exact (extends_valOf _ _ _ _ X2 Hz)|exact (extends_valOf _ _ _ _ X2 Hx1)]|].
  intros h3 p2 p2v X3 _ Hp2 _.
  eapply tracks_w_bind; [apply tracks_is_w, h_scale_tracks, Hp2|].
  intros h4 p3 p3v X4 _ Hp3 _.
  apply tracks_is_w, h_arith_tracks; [|exact Hp3].
  exact (extends_valOf _ _ _ _ X4 (extends_valOf _ _ _ _ X3 Hp1)).
Qed.

Theorem sigmoid_forward_tracks (h : heap) x name xv : valOf h x = Some xv ->
  tracks h (sigmoid_forward h [Some x] name) (sigmoid_val xv) name.
Proof.
  intros Hx. unfold sigmoid_forward, sigmoid_val. cbn [oneInput]. apply tracks_atomically.
  eapply tracks_w_bind; [apply tracks_is_w, h_pow_tracks, Hx|].
  intros h1 one onev X1 _ Hone _. pose proof (extends_valOf _ _ _ _ X1 Hx) as Hx1.
  eapply tracks_w_bind; [apply tracks_is_w, h_scale_tracks, Hx1|].
  intros h2 nx nxv X2 _ Hnx _.
  eapply tracks_w_bind; [apply tracks_is_w, (h_math_tracks h2 FExp), Hnx|].
  intros h3 ex exv X3 _ Hex _.
  eapply tracks_w_bind;
    [apply tracks_is_w, h_arith_tracks; [exact (extends_valOf _ _ _ _ X3 (extends_valOf _ _ _ _ X2 Hone))|exact Hex]|].
  intros h4 y yv X4 _ Hy _.
  apply tracks_is_w, h_pow_tracks, Hy.
Qed.

Theorem tanh_forward_tracks (h : heap) x name xv : valOf h x = Some xv ->
  tracks h (tanh_forward h [Some x] name) (tanh_val xv) name.
Proof. intros Hx. unfold tanh_forward, tanh_val. cbn [oneInput]. apply (h_math_tracks h FTanh), Hx. Qed.

(* ---- value level: exact element-wise expressions, for a well-formed input ---- *)
Theorem relu_val_spec (xv : T) : wf xv -> exists r, relu_val xv = Ok r /\ pw1 reluF xv r.
Proof.
  intros W. pose proof (pw2_fst xv xv W W eq_refl) as Hx. unfold relu_val.
  destruct (pw2_unary (UScale c0) _ _ _ _ Hx) as (z & Ez & Hz). rewrite Ez. cbn [res_bind].
  destruct (pw2_same BiElMax _ _ _ _ _ _ Hz Hx) as (r & Er & Hr). rewrite Er.
  exists r. split; [reflexivity|]. apply pw2_diag in Hr. exact Hr.
Qed.

Theorem leaky_val_spec (m : A) (xv : T) : wf xv -> exists r, leaky_val m xv = Ok r /\ pw1 (leakyF m) xv r.
Proof.
  intros W. pose proof (pw2_fst xv xv W W eq_refl) as Hx. unfold leaky_val.
  destruct (pw2_unary (UScale c0) _ _ _ _ Hx) as (z & Ez & Hz). rewrite Ez. cbn [res_bind].
  destruct (pw2_same BiElMax _ _ _ _ _ _ Hz Hx) as (p1 & E1 & H1). rewrite E1. cbn [res_bind].
  destruct (pw2_same BiElMin _ _ _ _ _ _ Hz Hx) as (p2 & E2 & H2). rewrite E2. cbn [res_bind].
  destruct (pw2_unary (UScale m) _ _ _ _ H2) as (p3 & E3 & H3). rewrite E3. cbn [res_bind].
  destruct (pw2_arith BiAdd _ _ _ _ _ _ H1 H3) as (r & Er & Hr). rewrite Er.
  exists r. split; [reflexivity|]. apply pw2_diag in Hr. exact Hr.
Qed.

Theorem sigmoid_val_spec (xv : T) : wf xv -> exists r, sigmoid_val xv = Ok r /\ pw1 sigmoidF xv r.
Proof.
  intros W. pose proof (pw2_fst xv xv W W eq_refl) as Hx. unfold sigmoid_val.
  destruct (pw2_unary (UPow c0) _ _ _ _ Hx) as (one & E1 & H1). rewrite E1. cbn [res_bind].
  destruct (pw2_unary (UScale cm1) _ _ _ _ Hx) as (nx & E2 & H2). rewrite E2. cbn [res_bind].
  destruct (pw2_unary UExpo _ _ _ _ H2) as (ex & E3 & H3). rewrite E3. cbn [res_bind].
  destruct (pw2_arith BiAdd _ _ _ _ _ _ H1 H3) as (y & E4 & H4). rewrite E4. cbn [res_bind].
  destruct (pw2_unary (UPow cm1) _ _ _ _ H4) as (r & Er & Hr). rewrite Er.
  exists r. split; [reflexivity|]. apply pw2_diag in Hr. exact Hr.
Qed.

Theorem tanh_val_spec (xv : T) : wf xv -> exists r, tanh_val xv = Ok r /\ pw1 stanh xv r.
Proof.
  intros W. pose proof (pw2_fst xv xv W W eq_refl) as Hx. unfold tanh_val.
  destruct (pw2_unary UTanH _ _ _ _ Hx) as (r & Er & Hr). exists r. split; [exact Er|].
  apply pw2_diag in Hr. exact Hr.
Qed.

(* ---- the user-facing statements ---- *)
Theorem relu_forward_spec (h : heap) x name xv : valOf h x = Some xv -> wf xv ->
  exists r, produces h (relu_forward h [Some x] name) r name /\ pw1 reluF xv r.
Proof.
  intros Hx W. destruct (relu_val_spec xv W) as (r & Er & Hr). exists r. split; [|exact Hr].
  pose proof (relu_forward_tracks h x name xv Hx) as H. rewrite Er in H. exact H.
Qed.

Theorem leaky_forward_spec (h : heap) m x name xv : valOf h x = Some xv -> wf xv ->
  exists r, produces h (leaky_forward h m [Some x] name) r name /\ pw1 (leakyF m) xv r.
Proof.
  intros Hx W. destruct (leaky_val_spec m xv W) as (r & Er & Hr). exists r. split; [|exact Hr].
  pose proof (leaky_forward_tracks h m x name xv Hx) as H. rewrite Er in H. exact H.
Qed.

Theorem sigmoid_forward_spec (h : heap) x name xv : valOf h x = Some xv -> wf xv ->
  exists r, produces h (sigmoid_forward h [Some x] name) r name /\ pw1 sigmoidF xv r.
Proof.
  intros Hx W. destruct (sigmoid_val_spec xv W) as (r & Er & Hr). exists r. split; [|exact Hr].
  pose proof (sigmoid_forward_tracks h x name xv Hx) as H. rewrite Er in H. exact H.
Qed.

Theorem tanh_forward_spec (h : heap) x name xv : valOf h x = Some xv -> wf xv ->
  exists r, produces h (tanh_forward h [Some x] name) r name /\ pw1 stanh xv r.
Proof.
  intros Hx W. destruct (tanh_val_spec xv W) as (r & Er & Hr). exists r. split; [|exact Hr].
  pose proof (tanh_forward_tracks h x name xv Hx) as H. rewrite Er in H. exact H.
Qed.

(* anything but exactly one non-nil input: error, heap unchanged *)
Theorem activations_reject (h : heap) (m : A) xs name : oneInput xs = None ->
  relu_forward h xs name = (h, Err) /\ leaky_forward h m xs name = (h, Err) /\
  sigmoid_forward h xs name = (h, Err) /\ tanh_forward h xs name = (h, Err).
Proof.
  intros E. unfold relu_forward, leaky_forward, sigmoid_forward, tanh_forward. rewrite E. auto.
Qed.

(* [oneInput] rejects exactly the lists that are not a singleton non-nil tensor *)
Lemma oneInput_none_iff (xs : list targ) : oneInput xs = None <-> forall x, xs <> [Some x].
Proof.
  split.
  - intros E x ->. discriminate.
  - intros H. destruct (oneInput xs) as [x|] eqn:E; [|reflexivity].
    apply oneInput_spec in E. exfalso. apply (H x E).
Qed.

(* whatever happens, a call that does not return a tensor leaves the heap as it was *)
Theorem activations_fail_frame (h : heap) (m : A) xs name :
  let unchanged (hr : hres) := (forall id, snd hr <> Ok id) -> fst hr = h in
  unchanged (relu_forward h xs name) /\ unchanged (leaky_forward h m xs name) /\
  unchanged (sigmoid_forward h xs name) /\ unchanged (tanh_forward h xs name).
Proof.
  cbv zeta.
  assert (At : forall hr : hres, (forall id, snd (atomically h hr) <> Ok id) -> fst (atomically h hr) = h).
  { intros [h1 [id| |]]; cbn; intros H; [exfalso; apply (H id); reflexivity|reflexivity|reflexivity]. }
  unfold relu_forward, leaky_forward, sigmoid_forward, tanh_forward.
  destruct (oneInput xs) as [x|]; [|cbn; auto].
  repeat split; try apply At.
  intros H. pose proof (h_math_frame h FTanh x name) as (_ & _ & _ & F).
  apply F. destruct (snd (h_math h FTanh x name)) as [id| |]; [exfalso; apply (H id); reflexivity|auto|auto].
Qed.

End CompP.

(* ================================================================== *)
(*  non-vacuity: a throw-away Scalar on Z                              *)
(* ================================================================== *)
Module CompExamples.
Open Scope Z_scope.
Definition b2z (b : bool) : Z := if b then 1 else 0.
#[export] Instance z_scalar : Scalar Z := {|
  s0 := 0; s1 := 1;
  sadd := Z.add; ssub := Z.sub; smul := Z.mul; sdiv := Z.div; spow := Z.pow;
  sexp := fun a => 2 ^ a; slog := Z.log2; ssin := fun a => a; scos := fun a => a; stan := fun a => a;
  ssinh := fun a => a; scosh := fun a => a; stanh := fun a => a + 1000; ssqrt := Z.sqrt;
  smax := Z.max; smin := Z.min;
  sselgt := fun a b => if b <? a then a else b; ssellt := fun a b => if a <? b then a else b;
  seqt := fun a b => b2z (a =? b); snet := fun a b => b2z (negb (a =? b));
  sgt := fun a b => b2z (b <? a); sge := fun a b => b2z (b <=? a);
  slt := fun a b => b2z (a <? b); sle := fun a b => b2z (a <=? b);
  sgeb := fun a b => b2z (b <=? a); strunc := fun a => a; sofnat := Z.of_nat;
  sconst := fun m e => m * 10 ^ e; sneginf := -1000000; sposinf := 1000000; srnd := fun _ k => Z.of_nat k
|}.

Definition tw : tensor Z := mkT [2; 2]%nat (Vec [Vec [Sc 10; Sc (-20)]; Vec [Sc 30; Sc 40]]).
Definition tg : tensor Z := mkT [2; 2]%nat (Vec [Vec [Sc 1; Sc 2]; Vec [Sc (-3); Sc 4]]).
Lemma wf_tw : wf tw. Proof. split; [apply wfndb_spec; reflexivity|repeat constructor]. Qed.
Lemma wf_tg : wf tg. Proof. split; [apply wfndb_spec; reflexivity|repeat constructor]. Qed.

(* a weight with a gradient (as after a backward pass), and one without *)
Definition hg : @heap Z := [mkNode tw true false (Some tg) [] (Some 7%nat)].
Definition hl : @heap Z := fst (leaf [] tw true (Some 7%nat)).

Example sgd_ex :
  sgd_update hg 3 (Some 0%nat) (Some 8%nat)
  = (hg ++ [mkNode (mkT [2; 2]%nat (Vec [Vec [Sc 7; Sc (-26)]; Vec [Sc 39; Sc 28]])) false true None [] (Some 8%nat)],
     Ok 1%nat).
Proof. vm_compute. reflexivity. Qed.

Example sgd_spec_inst :
  exists n, sgd_update hg 3 (Some 0%nat) None = (hg ++ [n], Ok 1%nat) /\
            get (data (nval n)) [1; 0]%nat = Some (30 - 3 * (-3)).
Proof.
  destruct (sgd_update_spec hg 3 0%nat None tw tg eq_refl eq_refl wf_tw wf_tg eq_refl) as (n & E & _ & _ & _ & _ & _ & _ & _ & Hg).
  exists n. split; [exact E|]. rewrite Hg by (repeat constructor). reflexivity.
Qed.

Example sgd_err_ex :
  sgd_update hl 3 (Some 0%nat) None = (hl, Err) /\ sgd_update hl 3 None None = (hl, Err) /\
  sgd_update hl 3 (Some 5%nat) None = (hl, Panic).
Proof. vm_compute. auto. Qed.

Example arith_same_ex : v_arith BiSub tw tg = Ok (mkT [2; 2]%nat (Vec [Vec [Sc 9; Sc (-22)]; Vec [Sc 33; Sc 36]])).
Proof. vm_compute. reflexivity. Qed.

Example relu_ex :
  exists h', relu_forward hl [Some 0%nat] (Some 9%nat) = (h', Ok 2%nat) /\
    valOf h' 2 = Some (mkT [2; 2]%nat (Vec [Vec [Sc 10; Sc 0]; Vec [Sc 30; Sc 40]])) /\ length h' = 3%nat.
Proof. eexists. vm_compute. auto. Qed.

Example leaky_ex :
  exists h', leaky_forward hl 3 [Some 0%nat] None = (h', Ok 7%nat) /\
    valOf h' 7 = Some (mkT [2; 2]%nat (Vec [Vec [Sc 10; Sc (-60)]; Vec [Sc 30; Sc 40]])).
Proof. eexists. vm_compute. auto. Qed.

Example relu_spec_inst :
  exists r, produces hl (relu_forward hl [Some 0%nat] None) r None /\ get (data r) [0; 1]%nat = Some (Z.max (0 * -20) (-20)).
Proof.
  destruct (relu_forward_spec hl 0%nat None tw eq_refl wf_tw) as (r & H & _ & _ & Hg).
  exists r. split; [exact H|]. rewrite Hg by (repeat constructor). reflexivity.
Qed.

Example tanh_ex :
  exists h', tanh_forward hl [Some 0%nat] None = (h', Ok 1%nat) /\
    valOf h' 1 = Some (mkT [2; 2]%nat (Vec [Vec [Sc 1010; Sc 980]; Vec [Sc 1030; Sc 1040]])).
Proof. eexists. vm_compute. auto. Qed.

Example sigmoid_ex :
  exists h' id, sigmoid_forward hl [Some 0%nat] None = (h', Ok id).
Proof. eexists. eexists. vm_compute. reflexivity. Qed.

Example reject_ex :
  relu_forward hl [] None = (hl, Err) /\ relu_forward hl [None] None = (hl, Err) /\
  relu_forward hl [Some 0%nat; Some 0%nat] None = (hl, Err) /\ relu_forward hl [Some 4%nat] None = (hl, Panic).
Proof. vm_compute. auto. Qed.

End CompExamples.

Print Assumptions v_arith_same_dims.
Print Assumptions h_op1_tracks.
Print Assumptions h_elsel_tracks.
Print Assumptions h_arith_tracks.
Print Assumptions sgd_update_spec.
Print Assumptions sgd_update_frame.
Print Assumptions sgd_update_errors.
Print Assumptions sgd_update_fail_frame.
Print Assumptions relu_forward_spec.
Print Assumptions leaky_forward_spec.
Print Assumptions sigmoid_forward_spec.
Print Assumptions tanh_forward_spec.
Print Assumptions relu_forward_tracks.
Print Assumptions leaky_forward_tracks.
Print Assumptions sigmoid_forward_tracks.
Print Assumptions activations_reject.
Print Assumptions activations_fail_frame.
