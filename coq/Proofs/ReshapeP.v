(* ReshapeP.v — reshape / unSqueeze / squeeze / flatten (shape_modifiers.go) preserve the
   row-major element sequence, and the public methods return Ok exactly when the validator
   accepts, Err otherwise, never Panic. *)
From Coq Require Import List Arith ZArith Bool Lia.
From Qeep Require Import Model.Scalar Model.Nd Model.Fill Model.Data Model.Valid Model.Api.
From Qeep Require Import Proofs.NdP Proofs.FillP Proofs.OdometerP.
Import ListNotations.

Definition allpos (ds : list nat) : Prop := Forall (fun d => 0 < d) ds.

(* ---------- validators over Z vs. naturals ---------- *)

Lemma fold_left_Zmul_nat ds : forall a, fold_left Z.mul (map Z.of_nat ds) a = (a * Z.of_nat (prodn ds))%Z.
Proof.
  induction ds as [|d ds IH]; intros a; cbn [map fold_left].
  - cbn. lia.
  - rewrite IH, prodn_cons, Nat2Z.inj_mul. lia.
Qed.

Lemma dimsToNumElems_nat ds : dimsToNumElems (map Z.of_nat ds) = Z.of_nat (prodn ds).
Proof. unfold dimsToNumElems. rewrite fold_left_Zmul_nat. lia. Qed.

Lemma validateInputDims_iff shape : validateInputDims shape = true <-> Forall (fun z => (0 < z)%Z) shape.
Proof.
  unfold validateInputDims. rewrite forallb_forall, Forall_forall.
  split; intros H z Hz; specialize (H z Hz).
  - apply negb_true_iff in H. apply Z.leb_gt in H. exact H.
  - apply negb_true_iff. apply Z.leb_gt. exact H.
Qed.

Lemma natsOf_id shape : Forall (fun z => (0 < z)%Z) shape -> map Z.of_nat (natsOf shape) = shape.
Proof.
  induction 1 as [|z l Hz _ IH]; [reflexivity|]. unfold natsOf in *. cbn [map]. rewrite IH.
  f_equal. apply Z2Nat.id. lia.
Qed.

Lemma natsOf_pos shape : Forall (fun z => (0 < z)%Z) shape -> allpos (natsOf shape).
Proof.
  induction 1 as [|z l Hz _ IH]; [constructor|]. unfold natsOf in *. cbn [map].
  constructor; [lia|exact IH].
Qed.

Lemma natsOf_of_nat ds : natsOf (map Z.of_nat ds) = ds.
Proof. unfold natsOf. rewrite map_map. rewrite <- (map_id ds) at 2. apply map_ext. intros d. apply Nat2Z.id. Qed.

Lemma of_nat_pos ds : allpos ds -> Forall (fun z => (0 < z)%Z) (map Z.of_nat ds).
Proof. induction 1 as [|d l Hd _ IH]; cbn [map]; constructor; [lia|exact IH]. Qed.

(* the two validators of Reshape say: a positive shape with the same number of elements *)
Lemma validateReshape_iff {A} (t : tensor A) shape :
  validateInputDims shape && validateReshape (zdims t) shape = true <->
  exists ns, shape = map Z.of_nat ns /\ allpos ns /\ prodn ns = prodn (dims t).
Proof.
  rewrite andb_true_iff, validateInputDims_iff. unfold validateReshape, zdims. split.
  - intros [Hp He]. exists (natsOf shape). split; [symmetry; apply natsOf_id, Hp|].
    split; [apply natsOf_pos, Hp|]. apply Z.eqb_eq in He.
    rewrite <- (natsOf_id shape Hp) in He. rewrite !dimsToNumElems_nat in He. lia.
  - intros (ns & -> & Hp & He). split; [apply of_nat_pos, Hp|].
    apply Z.eqb_eq. rewrite !dimsToNumElems_nat. lia.
Qed.

(* ---------- shape functions ---------- *)

Lemma allpos_split n ds : allpos ds -> allpos (firstn n ds) /\ allpos (skipn n ds).
Proof. unfold allpos. intros H. rewrite <- (firstn_skipn n ds) in H. apply Forall_app in H. exact H. Qed.

Lemma prodn_split n ds : prodn ds = prodn (firstn n ds) * prodn (skipn n ds).
Proof. rewrite <- prodn_app, firstn_skipn. reflexivity. Qed.

Lemma skipn_nth_error {T} (l : list T) : forall n x, nth_error l n = Some x -> skipn n l = x :: skipn (S n) l.
Proof.
  induction l as [|a l IH]; intros [|n] x H; cbn in H; try discriminate.
  - inversion H; reflexivity.
  - cbn [skipn]. rewrite (IH n x H). reflexivity.
Qed.

Lemma unsqueezeDims_prodn dim ds : prodn (unsqueezeDims dim ds) = prodn ds.
Proof. unfold unsqueezeDims. rewrite prodn_app, prodn_cons, (prodn_split dim ds). lia. Qed.

Lemma unsqueezeDims_pos dim ds : allpos ds -> allpos (unsqueezeDims dim ds).
Proof.
  intros H. destruct (allpos_split dim ds H) as [H1 H2]. unfold unsqueezeDims, allpos.
  apply Forall_app. split; [exact H1|constructor; [lia|exact H2]].
Qed.

Lemma squeezeDims_prodn dim ds : nth_error ds dim = Some 1 -> prodn (squeezeDims dim ds) = prodn ds.
Proof.
  intros H. unfold squeezeDims. rewrite prodn_app, (prodn_split dim ds), (skipn_nth_error ds dim 1 H), prodn_cons. lia.
Qed.

Lemma squeezeDims_pos dim ds : allpos ds -> allpos (squeezeDims dim ds).
Proof.
  intros H. destruct (allpos_split dim ds H) as [H1 _]. destruct (allpos_split (S dim) ds H) as [_ H2].
  unfold squeezeDims, allpos. apply Forall_app. split; assumption.
Qed.

Lemma flattenDims_prodn dim ds : prodn (flattenDims dim ds) = prodn ds.
Proof. unfold flattenDims. rewrite prodn_app, (prodn_split dim ds). cbn. lia. Qed.

Lemma flattenDims_pos dim ds : allpos ds -> allpos (flattenDims dim ds).
Proof.
  intros H. destruct (allpos_split dim ds H) as [H1 H2]. unfold flattenDims, allpos.
  apply Forall_app. split; [exact H1|constructor; [apply prodn_pos, H2|constructor]].
Qed.

(* ---------- the linear generator ---------- *)
Section Reshape.
Variable A : Type.
Notation T := (tensor A).

Lemma wfnd_inhabited ds (x : nd A) : wfnd ds x -> allpos ds -> exists a : A, get x (repeat 0 (length ds)) = Some a.
Proof.
  intros Hw Hp. apply (get_wf A ds); [exact Hw|]. apply ovalid_validIdx, ovalid_zeros, Hp.
Qed.

Lemma linGen_ok ds (x : nd A) st : wfnd ds x -> ovalid (rev ds) st ->
  exists a, get x (rev st) = Some a /\ linGen ds x st = Some (Sc a, incr (rev ds) st).
Proof.
  intros Hw Hv.
  assert (Hi : validIdx ds (rev st)).
  { apply ovalid_validIdx in Hv. apply validIdx_rev in Hv. rewrite rev_involutive in Hv. exact Hv. }
  rewrite <- (app_nil_r ds) in Hw.
  destruct (dataAt_wf A ds [] x (rev st) Hw Hi) as (y & Ey & Hy).
  apply wfnd_nil in Hy as (a & ->). exists a. unfold get, linGen. rewrite Ey. cbn. split; reflexivity.
Qed.

(* the data-layer core: any positive target shape with the same number of elements *)
Lemma reshape_data ds (x : nd A) shape :
  wfnd ds x -> allpos ds -> allpos shape -> prodn shape = prodn ds ->
  exists d, initWith shape (linGen ds x) (linInit ds) = Some d /\ wfnd shape d /\ flat d = flat x.
Proof.
  intros Hw Hp Hps Hn.
  destruct (wfnd_inhabited ds x Hw Hp) as (a0 & _).
  set (outA := fun st : list nat => match get x (rev st) with Some a => a | None => a0 end).
  assert (Hg : forall st, ovalid (rev ds) st -> linGen ds x st = Some (Sc (outA st), incr (rev ds) st)).
  { intros st Hst. destruct (linGen_ok ds x st Hw Hst) as (a & Ea & Eg). unfold outA. rewrite Ea. exact Eg. }
  assert (Hinit : ovalid (rev ds) (linInit ds)).
  { unfold linInit. rewrite <- (rev_length ds). apply ovalid_zeros, Forall_rev, Hp. }
  pose proof (initWith_spec A (list nat) (linGen ds x) (fun st => Sc (outA st)) (incr (rev ds))
                (ovalid (rev ds)) Hg (incr_valid (rev ds)) shape (linInit ds) Hinit) as HI.
  rewrite (tabS_tab A (list nat) (fun st => Sc (outA st)) (incr (rev ds)) outA (fun s => eq_refl)) in HI.
  eexists. split; [exact HI|]. split; [apply wfnd_tab|].
  apply (flat_ext_by_idx shape); [exact Hps|apply wfnd_tab|rewrite (flat_length A ds x Hw); lia|].
  intros idx Hv. rewrite get_tab by exact Hv.
  pose proof (flatIdx_lt shape idx Hv) as Hk. rewrite Hn in Hk.
  set (k := flatIdx shape idx) in *.
  pose proof (unflatIdx_valid ds k Hp) as Hv'.
  pose proof (flatIdx_unflatIdx ds k Hp Hk) as Ek.
  unfold linInit. rewrite <- Ek at 1. rewrite (iter_incr_flatIdx ds _ Hv').
  unfold outA. rewrite rev_involutive.
  rewrite <- (flat_nth A ds x _ Hw Hv'), Ek.
  destruct (nth_error (flat x) k) as [a|] eqn:E; [reflexivity|].
  apply nth_error_None in E. rewrite (flat_length A ds x Hw) in E. lia.
Qed.

(* what "r is t reshaped to shape" means *)
Definition reshaped (t r : T) (shape : list nat) : Prop :=
  dims r = shape /\ wf r /\ flat (data r) = flat (data t).

(* 1. reshape *)
Theorem reshape_spec (t : T) shape :
  wf t -> allpos shape -> prodn shape = prodn (dims t) ->
  exists r, reshape t shape = Some r /\ dims r = shape /\ wf r /\ flat (data r) = flat (data t).
Proof.
  intros [Hw Hp] Hps Hn.
  destruct (reshape_data (dims t) (data t) shape Hw Hp Hps Hn) as (d & Ed & Hd & Hf).
  exists (mkT shape d). unfold reshape. rewrite Ed. cbn.
  split; [reflexivity|]. split; [reflexivity|]. split; [split; assumption|exact Hf].
Qed.

(* 3. element-level restatement *)
Theorem reshape_get (t : T) shape :
  wf t -> allpos shape -> prodn shape = prodn (dims t) ->
  exists r, reshape t shape = Some r /\ dims r = shape /\ wf r /\
    forall idx, validIdx shape idx -> get (data r) idx = nth_error (flat (data t)) (flatIdx shape idx).
Proof.
  intros Ht Hps Hn. destruct (reshape_spec t shape Ht Hps Hn) as (r & Er & Hd & Hr & Hf).
  exists r. repeat (split; [assumption|]). intros idx Hv.
  rewrite <- Hf. symmetry. apply (flat_nth A shape); [|exact Hv]. destruct Hr as [Hr _]. rewrite Hd in Hr. exact Hr.
Qed.

(* ... and between multi-indices of the two shapes *)
Corollary reshape_get_idx (t : T) shape :
  wf t -> allpos shape -> prodn shape = prodn (dims t) ->
  exists r, reshape t shape = Some r /\
    forall idx, validIdx shape idx ->
      get (data r) idx = get (data t) (unflatIdx (dims t) (flatIdx shape idx)).
Proof.
  intros Ht Hps Hn. destruct (reshape_get t shape Ht Hps Hn) as (r & Er & _ & _ & Hg).
  exists r. split; [exact Er|]. intros idx Hv. rewrite (Hg idx Hv). destruct Ht as [Hw Hp].
  pose proof (flatIdx_lt shape idx Hv) as Hk. rewrite Hn in Hk.
  rewrite <- (flat_nth A (dims t) (data t) _ Hw (unflatIdx_valid (dims t) _ Hp)).
  rewrite flatIdx_unflatIdx by assumption. reflexivity.
Qed.

(* 2. corollaries.  The numeric side conditions [dim <= rank] (unSqueeze) and [dim < rank]
   (flatten) of the validators are not needed by the data layer: beyond the rank the shape
   functions append a trailing 1, so these statements are stronger than asked. *)
Theorem unSqueeze_spec (t : T) dim : wf t ->
  exists r, unSqueeze t dim = Some r /\ reshaped t r (unsqueezeDims dim (dims t)).
Proof.
  intros Ht. unfold unSqueeze, reshaped. apply reshape_spec; [exact Ht| |apply unsqueezeDims_prodn].
  apply unsqueezeDims_pos. exact (proj2 Ht).
Qed.

Theorem squeeze_spec (t : T) dim : wf t -> nth_error (dims t) dim = Some 1 ->
  exists r, squeeze t dim = Some r /\ reshaped t r (squeezeDims dim (dims t)).
Proof.
  intros Ht H1. unfold squeeze, reshaped. apply reshape_spec; [exact Ht| |apply squeezeDims_prodn, H1].
  apply squeezeDims_pos. exact (proj2 Ht).
Qed.

Theorem flatten_spec (t : T) dim : wf t ->
  exists r, flatten t dim = Some r /\ reshaped t r (flattenDims dim (dims t)).
Proof.
  intros Ht. unfold flatten, reshaped. apply reshape_spec; [exact Ht| |apply flattenDims_prodn].
  apply flattenDims_pos. exact (proj2 Ht).
Qed.

(* ---------- API level ---------- *)

Theorem v_reshape_spec (t : T) (shape : list Z) : wf t ->
  (validateInputDims shape && validateReshape (zdims t) shape = true ->
     exists r, v_reshape t shape = Ok r /\ reshaped t r (natsOf shape)) /\
  (validateInputDims shape && validateReshape (zdims t) shape = false -> v_reshape t shape = Err).
Proof.
  intros Ht. split; intros H.
  - pose proof H as H'. apply validateReshape_iff in H' as (ns & -> & Hp & Hn).
    apply andb_true_iff in H as [H1 H2]. unfold v_reshape, guard. rewrite H1, H2.
    rewrite natsOf_of_nat. destruct (reshape_spec t ns Ht Hp Hn) as (r & Er & Hr).
    exists r. rewrite Er. split; [reflexivity|exact Hr].
  - unfold v_reshape, guard. destruct (validateInputDims shape); [|reflexivity].
    cbn [andb] in H. rewrite H. reflexivity.
Qed.

Lemma zlen_zdims (t : T) : zlen (zdims t) = Z.of_nat (length (dims t)).
Proof. unfold zlen, zdims. rewrite map_length. reflexivity. Qed.

Lemma validateUnSqueezeDim_iff (t : T) dim :
  validateUnSqueezeDim dim (zdims t) = true <-> (0 <= dim <= Z.of_nat (length (dims t)))%Z.
Proof. unfold validateUnSqueezeDim. rewrite zlen_zdims, andb_true_iff, !Z.leb_le. tauto. Qed.

Lemma validateFlattenDim_iff (t : T) dim :
  validateFlattenDim dim (zdims t) = true <-> (0 <= dim < Z.of_nat (length (dims t)))%Z.
Proof. unfold validateFlattenDim. rewrite zlen_zdims, andb_true_iff, Z.leb_le, Z.ltb_lt. tauto. Qed.

Lemma validateSqueezeDim_iff (t : T) dim :
  validateSqueezeDim dim (zdims t) = true <->
  (0 <= dim < Z.of_nat (length (dims t)))%Z /\ nth_error (dims t) (Z.to_nat dim) = Some 1.
Proof.
  unfold validateSqueezeDim. rewrite zlen_zdims, !andb_true_iff, Z.leb_le, Z.ltb_lt.
  unfold zdims. rewrite nth_error_map.
  destruct (nth_error (dims t) (Z.to_nat dim)) as [d|]; cbn [option_map].
  - rewrite Z.eqb_eq. split.
    + intros [H1 H2]. split; [tauto|]. f_equal. lia.
    + intros [H1 H2]. inversion H2; subst. split; [tauto|reflexivity].
  - split; [intros [_ H]; discriminate|intros [_ H]; discriminate].
Qed.

Theorem v_unsqueeze_spec (t : T) (dim : Z) : wf t ->
  (validateUnSqueezeDim dim (zdims t) = true ->
     exists r, v_unsqueeze t dim = Ok r /\ reshaped t r (unsqueezeDims (Z.to_nat dim) (dims t))) /\
  (validateUnSqueezeDim dim (zdims t) = false -> v_unsqueeze t dim = Err).
Proof.
  intros Ht. unfold v_unsqueeze, guard. split; intros H; rewrite H; [|reflexivity].
  destruct (unSqueeze_spec t (Z.to_nat dim) Ht) as (r & Er & Hr). exists r. rewrite Er. split; [reflexivity|exact Hr].
Qed.

Theorem v_squeeze_spec (t : T) (dim : Z) : wf t ->
  (validateSqueezeDim dim (zdims t) = true ->
     exists r, v_squeeze t dim = Ok r /\ reshaped t r (squeezeDims (Z.to_nat dim) (dims t))) /\
  (validateSqueezeDim dim (zdims t) = false -> v_squeeze t dim = Err).
Proof.
  intros Ht. unfold v_squeeze, guard. split; intros H; rewrite H; [|reflexivity].
  apply validateSqueezeDim_iff in H as [_ H1].
  destruct (squeeze_spec t (Z.to_nat dim) Ht H1) as (r & Er & Hr). exists r. rewrite Er. split; [reflexivity|exact Hr].
Qed.

Theorem v_flatten_spec (t : T) (dim : Z) : wf t ->
  (validateFlattenDim dim (zdims t) = true ->
     exists r, v_flatten t dim = Ok r /\ reshaped t r (flattenDims (Z.to_nat dim) (dims t))) /\
  (validateFlattenDim dim (zdims t) = false -> v_flatten t dim = Err).
Proof.
  intros Ht. unfold v_flatten, guard. split; intros H; rewrite H; [|reflexivity].
  destruct (flatten_spec t (Z.to_nat dim) Ht) as (r & Er & Hr). exists r. rewrite Er. split; [reflexivity|exact Hr].
Qed.

(* never Panic, in one line each *)
Corollary v_reshape_no_panic (t : T) shape : wf t -> v_reshape t shape <> Panic.
Proof.
  intros Ht E. destruct (v_reshape_spec t shape Ht) as [H1 H2].
  destruct (validateInputDims shape && validateReshape (zdims t) shape).
  - destruct (H1 eq_refl) as (r & Er & _). congruence.
  - rewrite (H2 eq_refl) in E. discriminate.
Qed.

End Reshape.

(* ---------- non-vacuity ---------- *)
Definition t23 : tensor nat := mkT [2; 3] (Vec [Vec [Sc 1; Sc 2; Sc 3]; Vec [Sc 4; Sc 5; Sc 6]]).
Definition t213 : tensor nat := mkT [2; 1; 3] (Vec [Vec [Vec [Sc 1; Sc 2; Sc 3]]; Vec [Vec [Sc 4; Sc 5; Sc 6]]]).
Definition t0 : tensor nat := mkT [] (Sc 7).

Example t23_wf : wf t23.
Proof. split; [apply wfndb_spec; reflexivity|repeat constructor]. Qed.
Example t0_wf : wf t0.
Proof. split; [exact I|constructor]. Qed.

Example reshape_ex :
  reshape t23 [3; 2] = Some (mkT [3; 2] (Vec [Vec [Sc 1; Sc 2]; Vec [Sc 3; Sc 4]; Vec [Sc 5; Sc 6]])).
Proof. vm_compute. reflexivity. Qed.
Example reshape_ex_hyps : allpos [3; 2] /\ prodn [3; 2] = prodn (dims t23).
Proof. split; [repeat constructor|reflexivity]. Qed.
(* rank 0 *)
Example reshape_rank0_ex : reshape t0 [1; 1] = Some (mkT [1; 1] (Vec [Vec [Sc 7]])).
Proof. vm_compute. reflexivity. Qed.
Example reshape_to_rank0_ex : reshape (mkT [1; 1] (Vec [Vec [Sc 7]])) [] = Some t0.
Proof. vm_compute. reflexivity. Qed.
Example v_reshape_ex :
  v_reshape t23 [6%Z] = Ok (mkT [6] (Vec [Sc 1; Sc 2; Sc 3; Sc 4; Sc 5; Sc 6])) /\
  v_reshape t23 [4%Z] = Err /\ v_reshape t23 [(-2)%Z; (-3)%Z] = Err /\ v_reshape t23 [6%Z; 0%Z] = Err.
Proof. vm_compute. auto. Qed.
Example v_unsqueeze_ex : v_unsqueeze t23 1 = Ok t213 /\ v_unsqueeze t23 3 = Err /\ v_unsqueeze t23 (-1) = Err.
Proof. vm_compute. auto. Qed.
Example v_squeeze_ex : v_squeeze t213 1 = Ok t23 /\ v_squeeze t213 0 = Err /\ v_squeeze t213 3 = Err.
Proof. vm_compute. auto. Qed.
Example v_flatten_ex :
  v_flatten t213 1 = Ok t23 /\ v_flatten t23 0 = Ok (mkT [6] (Vec [Sc 1; Sc 2; Sc 3; Sc 4; Sc 5; Sc 6])) /\
  v_flatten t23 2 = Err.
Proof. vm_compute. auto. Qed.

Print Assumptions reshape_spec.
Print Assumptions reshape_get.
Print Assumptions unSqueeze_spec.
Print Assumptions squeeze_spec.
Print Assumptions flatten_spec.
Print Assumptions v_reshape_spec.
Print Assumptions v_unsqueeze_spec.
Print Assumptions v_squeeze_spec.
Print Assumptions v_flatten_spec.
