(* DataConcatP.v — initConcatResultTensor (tensor/internal/cputensor/initializers.go) with its recursive closure
   fillCat, as translated by harness/gox into the DataIR program GoData.d_initConcatResultTensor, against the model
   Data.fillCat / Data.concatD. *)
From Coq Require Import String List ZArith Bool Lia Arith.
From Qeep Require Import Model.Scalar Model.Nd Model.Fill Model.Data Model.DataIR Model.GoData Proofs.DataIRP.
From Qeep Require Model.GoIR.
Import ListNotations.
Local Open Scope string_scope.
Local Open Scope Z_scope.
Local Open Scope list_scope.

Section DataConcat.
Context {A : Type} {SA : Scalar A}.
Variable fapp : string -> list A -> option A.
Variables (St : Type) (ext : string -> list (@dval A) -> St -> option (list (@dval A) * St)).
Notation dval := (@dval A).
Notation denv := (@denv A).
Notation locals := (plocals d_initConcatResultTensor).

(* ---------- generic facts ---------- *)

Lemma emb_Vec (l : list (nd A)) : emb (Vec l) = DL (map emb l).
Proof. cbn [emb]. apply f_equal. induction l as [|y r IH]; cbn [map]; [reflexivity | f_equal; exact IH]. Qed.

Lemma dlookup_dupd_ne (e : denv) x y (v : dval) : y <> x -> dlookup (dupd e x v) y = dlookup e y.
Proof. intros H. rewrite dlookup_dupd. apply String.eqb_neq in H. now rewrite H. Qed.

Lemma dlookup_dupd_eq (e : denv) x (v : dval) : dlookup (dupd e x v) x = Some v.
Proof. rewrite dlookup_dupd. now rewrite String.eqb_refl. Qed.

(* assignment to an existing local inside a closure (atMain = false) *)
Lemma vassign_false_local (g l : denv) x (v w : dval) :
  dlookup l x = Some w -> vassign false g l x v = (g, dupd l x v).
Proof. intros H. unfold vassign, dhas. now rewrite H. Qed.

(* assignment at main level (l = []) *)
Lemma vassign_main (g : denv) x (v : dval) : vassign true g [] x v = (dupd g x v, []).
Proof. unfold vassign. cbn [dhas dlookup]. destruct (dhas g x); reflexivity. Qed.

Definition frame (xs : list string) (l l1 : denv) : Prop := forall y, ~ In y xs -> dlookup l1 y = dlookup l y.

Lemma frame_refl xs l : frame xs l l.
Proof. intros y _. reflexivity. Qed.
Lemma frame_trans xs l l1 l2 : frame xs l l1 -> frame xs l1 l2 -> frame xs l l2.
Proof. intros H1 H2 y Hy. now rewrite H2, H1. Qed.
Lemma frame_dupd xs l x (v : dval) : In x xs -> frame xs l (dupd l x v).
Proof. intros Hx y Hy. apply dlookup_dupd_ne. intros ->. contradiction. Qed.

Lemma vlookup_frame xs (g l l1 : denv) y : frame xs l l1 -> ~ In y xs -> vlookup g l1 y = vlookup g l y.
Proof. intros Hf Hy. unfold vlookup. now rewrite (Hf y Hy). Qed.
Lemma vlookup_local (g l : denv) x (v : dval) : dlookup l x = Some v -> vlookup g l x = Some v.
Proof. intros H. unfold vlookup. now rewrite H. Qed.
Lemma vlookup_captured (g l : denv) x : dlookup l x = None -> vlookup g l x = dlookup g x.
Proof. intros H. unfold vlookup. now rewrite H. Qed.

Lemma mapM_nth {T U} (f : T -> option U) (l : list T) (out : list U) :
  mapM f l = Some out ->
  length out = length l /\
  forall i x, nth_error l i = Some x -> exists y, f x = Some y /\ nth_error out i = Some y.
Proof.
  revert out. induction l as [|a l IH]; intros out H; cbn [mapM] in H.
  - inversion H. split; [reflexivity|]. intros [|i] x Hx; discriminate.
  - destruct (f a) as [y|] eqn:Ea; cbn [obind] in H; [|discriminate].
    destruct (mapM f l) as [ys|] eqn:El; cbn [obind] in H; [|discriminate].
    inversion H; subst out. destruct (IH ys eq_refl) as [Hl Hn].
    split; [cbn; now rewrite Hl|].
    intros [|i] x Hx; cbn in Hx |- *.
    + inversion Hx; subst. eauto.
    + now apply Hn.
Qed.

Lemma setNthD_app (a b : list dval) (x v : dval) :
  setNthD (a ++ x :: b) (length a) v = Some (a ++ v :: b).
Proof. induction a as [|h a IH]; cbn; [reflexivity | now rewrite IH]. Qed.

Lemma nth_error_app_mid {T} (a b : list T) (x : T) j : length a = j -> nth_error (a ++ x :: b) j = Some x.
Proof. intros <-. induction a; cbn; auto. Qed.
Lemma setNthD_app' (a b : list dval) (x v : dval) j :
  length a = j -> setNthD (a ++ x :: b) j v = Some (a ++ v :: b).
Proof. intros <-. apply setNthD_app. Qed.

Lemma firstn_S_nth {T} (l : list T) k x : nth_error l k = Some x -> firstn (S k) l = firstn k l ++ [x].
Proof.
  revert k. induction l as [|a l IH]; intros [|k] H; cbn in H; try discriminate.
  - inversion H. reflexivity.
  - change (a :: firstn (S k) l = a :: (firstn k l ++ [x])). f_equal. now apply IH.
Qed.

Lemma nth_error_seq_lt a n j : (j < n)%nat -> nth_error (seq a n) j = Some (a + j)%nat.
Proof.
  revert a j. induction n as [|n IH]; intros a [|j] H; try lia; cbn [seq nth_error].
  - f_equal; lia.
  - rewrite IH by lia. f_equal; lia.
Qed.

Lemma nth_error_repeat_inv {T} (a v : T) n j : nth_error (repeat a n) j = Some v -> v = a /\ (j < n)%nat.
Proof.
  intros H. split.
  - apply nth_error_In in H. now apply repeat_spec in H.
  - rewrite <- (repeat_length a n). apply nth_error_Some. congruence.
Qed.

(* the slots of a slice being filled from the left: j done, the others still nil *)
Definition partial (done : list (nd A)) (n j : nat) : list dval := map emb (firstn j done) ++ repeat DNil (n - j).

Lemma partial_nth done n j : length done = n -> (j < n)%nat -> nth_error (partial done n j) j = Some DNil.
Proof.
  intros Hl Hj. unfold partial.
  replace (n - j)%nat with (S (n - S j)) by lia. cbn [repeat].
  assert (Ha : length (map emb (firstn j done)) = j) by (rewrite map_length, firstn_length; lia).
  now apply nth_error_app_mid.
Qed.

Lemma partial_set done n j y :
  length done = n -> nth_error done j = Some y ->
  setNthD (partial done n j) j (emb y) = Some (partial done n (S j)).
Proof.
  intros Hl Hy. assert (Hj : (j < n)%nat) by (rewrite <- Hl; apply nth_error_Some; congruence).
  unfold partial.
  replace (n - j)%nat with (S (n - S j)) by lia. cbn [repeat].
  assert (Ha : length (map emb (firstn j done)) = j) by (rewrite map_length, firstn_length; lia).
  rewrite (setNthD_app' _ _ _ _ j Ha). rewrite (firstn_S_nth done j y Hy), map_app. cbn [map].
  now rewrite <- app_assoc.
Qed.

Lemma partial_full done n : length done = n -> partial done n n = map emb done.
Proof. intros Hl. unfold partial. rewrite Nat.sub_diag. cbn [repeat]. rewrite app_nil_r. subst n. now rewrite firstn_all. Qed.

Lemma partial_0 done n : partial done n 0 = repeat DNil n.
Proof. unfold partial. cbn [firstn map app]. now rewrite Nat.sub_0_r. Qed.

Lemma sub1 (a : dval) (m : list dval) :
  (if (0 <=? 1) && (1 <=? dlen (a :: m)) && (dlen (a :: m) <=? dlen (a :: m))
   then Some (DL (firstn (Z.to_nat (dlen (a :: m) - 1)) (skipn (Z.to_nat 1) (a :: m))))
   else @None dval) = Some (DL m).
Proof.
  unfold dlen. cbn [length].
  replace (1 <=? Z.of_nat (S (length m))) with true by (symmetry; apply Z.leb_le; lia).
  rewrite Z.leb_refl. cbn [Z.leb Z.compare andb].
  replace (Z.to_nat 1) with 1%nat by reflexivity. cbn [skipn].
  replace (Z.to_nat (Z.of_nat (S (length m)) - 1)) with (length m) by lia.
  now rewrite firstn_all.
Qed.

Lemma dlen_nonneg (m : list dval) : (0 <=? dlen m) = true.
Proof. apply Z.leb_le. unfold dlen. lia. Qed.

Ltac names := cbn [In]; intuition discriminate.
(* solve  dlookup L x = ?v  for L a chain of updates / framed loop results over an environment with known slots *)
Ltac lk :=
  repeat first [ rewrite dlookup_dupd; cbn [String.eqb Ascii.eqb Bool.eqb]
               | match goal with Hf : frame _ _ ?l1 |- context [dlookup ?l1 ?x] => rewrite (Hf x) by names end ];
  first [eassumption | reflexivity].

Lemma callLD_S locals' fuel d f vs s g :
  callLD fapp St ext locals' fuel (S d) f vs s g =
  match dlookupFn locals' f with
  | Some fd =>
      match dbind (dparams fd) vs with
      | Some l0 =>
          match dexec fapp St ext (callLD fapp St ext locals' fuel d) fuel false (dbody fd) s g l0 with
          | DNormal _ s1 g1 l1 | DRet _ _ s1 g1 l1 =>
              match ptrOuts (dparams fd) l1 with Some outs => CRet St outs s1 g1 | None => CPanic St end
          | DFuel _ => CFuel St
          | _ => CPanic St
          end
      | None => CPanic St
      end
  | None => CPanic St
  end.
Proof. reflexivity. Qed.

(* ---------- loop of the base case:  catData = append(catData, seed.([]any)...) ---------- *)
Lemma cat_loop (g : denv) (body : St -> denv -> denv -> @doutcome A St)
      (assign : denv -> denv -> Z -> dval -> denv * denv) :
  (forall s l k (p : list (nd A)) acc,
      dlookup l "catData" = Some (DL acc) ->
      let '(g0, l0) := assign g l k (emb (Vec p)) in
      exists l1, body s g0 l0 = DNormal St s g l1 /\
                 dlookup l1 "catData" = Some (DL (acc ++ map emb p)) /\
                 frame ["catData"; "_"; "seed"] l l1) ->
  forall (seeds : list (nd A)) parts acc k s l,
  dlookup l "catData" = Some (DL acc) ->
  mapM asV seeds = Some parts ->
  exists l1, drangeLoop St body assign (map emb seeds) k s g l = DNormal St s g l1 /\
             dlookup l1 "catData" = Some (DL (acc ++ map emb (concat parts))) /\
             frame ["catData"; "_"; "seed"] l l1.
Proof.
  intros Hb. induction seeds as [|x seeds IH]; intros parts acc k s l Hc Hm; cbn [mapM] in Hm.
  - inversion Hm; subst parts. cbn. rewrite app_nil_r. exists l.
    split; [reflexivity|]. split; [exact Hc | apply frame_refl].
  - destruct x as [a|p]; cbn [asV obind] in Hm; [discriminate|].
    destruct (mapM asV seeds) as [ps|] eqn:Em; cbn [obind] in Hm; [|discriminate].
    inversion Hm; subst parts. cbn [map drangeLoop].
    pose proof (Hb s l k p acc Hc) as H1.
    destruct (assign g l k (emb (Vec p))) as [g0 l0].
    destruct H1 as [l1 [Hb1 [Hc1 Hf1]]]. rewrite Hb1.
    destruct (IH ps (acc ++ map emb p) (k + 1) s l1 Hc1 eq_refl) as [l2 [HL [Hc2 Hf2]]].
    exists l2. split; [exact HL|]. split.
    + rewrite Hc2. cbn [concat]. now rewrite map_app, app_assoc.
    + eapply frame_trans; eauto.
Qed.

(* ---------- inner loop of the recursive case:  seedRows = append(seedRows, seed.([]any)[i]) ---------- *)
Lemma rows_loop (g : denv) (i : nat) (body : St -> denv -> denv -> @doutcome A St)
      (assign : denv -> denv -> Z -> dval -> denv * denv) :
  (forall s l k (x y : nd A) acc,
      dlookup l "seedRows" = Some (DL acc) ->
      dlookup l "i" = Some (DI (Z.of_nat i)) ->
      (do p <- asV x; nth_error p i) = Some y ->
      let '(g0, l0) := assign g l k (emb x) in
      exists l1, body s g0 l0 = DNormal St s g l1 /\
                 dlookup l1 "seedRows" = Some (DL (acc ++ [emb y])) /\
                 frame ["seedRows"; "_"; "seed"] l l1) ->
  forall (seeds : list (nd A)) sr acc k s l,
  dlookup l "seedRows" = Some (DL acc) ->
  dlookup l "i" = Some (DI (Z.of_nat i)) ->
  mapM (fun x => do p <- asV x; nth_error p i) seeds = Some sr ->
  exists l1, drangeLoop St body assign (map emb seeds) k s g l = DNormal St s g l1 /\
             dlookup l1 "seedRows" = Some (DL (acc ++ map emb sr)) /\
             frame ["seedRows"; "_"; "seed"] l l1.
Proof.
  intros Hb. induction seeds as [|x seeds IH]; intros sr acc k s l Hc Hi Hm; cbn [mapM] in Hm.
  - inversion Hm; subst sr. cbn. rewrite app_nil_r. exists l.
    split; [reflexivity|]. split; [exact Hc | apply frame_refl].
  - destruct (do p <- asV x; nth_error p i) as [y|] eqn:Ex; cbn [obind] in Hm; [|discriminate].
    destruct (mapM (fun x => do p <- asV x; nth_error p i) seeds) as [ys|] eqn:Em; cbn [obind] in Hm; [|discriminate].
    inversion Hm; subst sr. cbn [map drangeLoop].
    pose proof (Hb s l k x y acc Hc Hi Ex) as H1.
    destruct (assign g l k (emb x)) as [g0 l0].
    destruct H1 as [l1 [Hb1 [Hc1 Hf1]]]. rewrite Hb1.
    assert (Hi1 : dlookup l1 "i" = Some (DI (Z.of_nat i))) by (rewrite (Hf1 "i") by names; exact Hi).
    destruct (IH ys (acc ++ [emb y]) (k + 1) s l1 Hc1 Hi1 eq_refl) as [l2 [HL [Hc2 Hf2]]].
    exists l2. split; [exact HL|]. split.
    + rewrite Hc2. now rewrite <- app_assoc.
    + eapply frame_trans; eauto.
Qed.

(* ---------- the closure fillCat ---------- *)
Variable dim : nat.

(* base case: depth = dim *)
Lemma fillCat_base fuel d (ds : list nat) (dv : dval) (seeds : list (nd A)) parts s g :
  dlookup g "dim" = Some (DI (Z.of_nat dim)) -> ds <> [] -> mapM asV seeds = Some parts ->
  callLD fapp St ext locals fuel (S d) "fillCat" [dnats ds; dv; DL (map emb seeds); DI (Z.of_nat dim)] s g =
  CRet St [emb (Vec (concat parts))] s g.
Proof.
  intros Hdim Hds Hm.
  destruct ds as [|d0 ds]; [congruence|].
  rewrite callLD_S.
  generalize (callLD fapp St ext locals fuel d) as cl. intros cl.
  cbn [plocals d_initConcatResultTensor dlookupFn String.eqb Ascii.eqb Bool.eqb dparams dbody dbind].
  dxs. rewrite Hdim. dxs. rewrite Z.eqb_refl. dxs.
  unfold dnats. cbn [map didx Z.leb Z.compare Z.to_nat nth_error].
  replace (0 <=? Z.of_nat d0) with true by (symmetry; apply Z.leb_le; lia).
  dxs.
  match goal with |- context [drangeLoop St ?b ?asg _ _ _ ?g0 ?l0] =>
    pose proof (cat_loop g b asg) as HL
  end.
  match type of HL with ?P -> _ => assert (Hspec : P) end.
  { intros s0 l k p acc Hc. cbv beta. cbn [vdefine].
    autorewrite with dataexec. cbn [deval].
    erewrite vlookup_local by lk. erewrite vlookup_local by lk. rewrite emb_Vec.
    erewrite vassign_false_local by lk.
    eexists. split; [reflexivity|]. split; [apply dlookup_dupd_eq|].
    eapply frame_trans; [|apply frame_dupd; names].
    eapply frame_trans; apply frame_dupd; names. }
  match goal with |- context [drangeLoop St _ _ _ _ _ g ?l0] =>
    destruct (HL Hspec seeds parts [] 0 s l0 eq_refl Hm) as [l1 [HL1 [Hc1 Hf1]]]
  end. clear HL Hspec.
  rewrite HL1. cbn [app] in Hc1.
  autorewrite with dataexec. cbn [deval devals].
  erewrite vlookup_local by lk.
  erewrite vassign_false_local by lk.
  autorewrite with dataexec. cbn [devals ptrOuts]. rewrite dlookup_dupd_eq. rewrite emb_Vec. reflexivity.
Qed.

(* (1) the closure is the model's fillCat; k = dim - depth.  [k < length ds]: Go reads dims[0] also when depth = dim *)
Lemma fillCat_call : forall k ds seeds r depth0 dv d fuel s g,
  (depth0 + k = dim)%nat -> (k < length ds)%nat -> (k <= d)%nat ->
  dlookup g "dim" = Some (DI (Z.of_nat dim)) ->
  Data.fillCat k ds seeds = Some r ->
  callLD fapp St ext locals fuel (S d) "fillCat"
         [dnats ds; dv; DL (map emb seeds); DI (Z.of_nat depth0)] s g = CRet St [emb r] s g.
Proof.
  induction k as [|k IH]; intros ds seeds r depth0 dv d fuel s g Hdk Hlen Hd Hdim Hf.
  - cbn [Data.fillCat] in Hf.
    destruct (mapM asV seeds) as [parts|] eqn:Em; cbn [obind] in Hf; [|discriminate].
    inversion Hf; subst r.
    replace depth0 with dim by lia.
    assert (Hne : ds <> []) by (destruct ds; cbn in Hlen; [lia|discriminate]).
    exact (fillCat_base fuel d ds dv seeds parts s g Hdim Hne Em).
  - cbn [Data.fillCat] in Hf. destruct ds as [|d0 ds]; [discriminate|].
    match type of Hf with (do rows <- mapM ?F0 _; _) = _ => set (F := F0) in * end.
    destruct (mapM F (seq 0 d0)) as [rows|] eqn:Em; cbn [obind] in Hf; [|discriminate].
    inversion Hf; subst r. clear Hf.
    destruct (mapM_nth F (seq 0 d0) rows Em) as [Hrl Hrn]. rewrite seq_length in Hrl.
    destruct d as [|d]; [lia|].
    assert (Hcl : forall seeds' r' dv' s',
              Data.fillCat k ds seeds' = Some r' ->
              callLD fapp St ext locals fuel (S d) "fillCat"
                [dnats ds; dv'; DL (map emb seeds'); DI (Z.of_nat depth0 + 1)] s' g = CRet St [emb r'] s' g).
    { intros seeds' r' dv' s' Hf1.
      replace (Z.of_nat depth0 + 1) with (Z.of_nat (S depth0)) by lia.
      apply IH; auto; try lia. cbn in Hlen; lia. }
    clear IH. rewrite callLD_S. revert Hcl.
    generalize (callLD fapp St ext locals fuel (S d)) as cl. intros cl Hcl.
    cbn [plocals d_initConcatResultTensor dlookupFn String.eqb Ascii.eqb Bool.eqb dparams dbody dbind].
    dxs. rewrite Hdim. dxs.
    replace (Z.of_nat depth0 =? Z.of_nat dim) with false by (symmetry; apply Z.eqb_neq; lia).
    dxs. unfold dnats. cbn [map didx Z.leb Z.compare Z.to_nat nth_error].
    replace (0 <=? Z.of_nat d0) with true by (symmetry; apply Z.leb_le; lia).
    dxs. rewrite sub1. dxs. rewrite Nat2Z.id.
    fold (@dnats A ds).
    pose (P := fun (j : nat) (s' : St) (gj lj : denv) =>
      s' = s /\ gj = g /\
      dlookup lj "rows" = Some (DL (partial rows d0 j)) /\
      dlookup lj "dims" = Some (dnats ds) /\
      dlookup lj "seeds" = Some (DL (map emb seeds)) /\
      dlookup lj "depth" = Some (DI (Z.of_nat depth0 + 1)) /\
      dlookup lj "data" = Some dv).
    pose (Q := fun o : @doutcome A St => exists l', o = DNormal St s g l' /\ P d0 s g l').
    match goal with |- context [drangeLoop St ?b ?asg ?m 0 s g ?l0] =>
      assert (HQ : Q (drangeLoop St b asg m 0 s g l0));
      [ refine (drangeLoop_rule St P Q b asg m _ _ 0%nat s g l0 _ _) | ]
    end.
    + (* one iteration *)
      intros j s' gj lj v (-> & -> & Hr & Hds & Hse & Hde & Hda) Hn.
      apply nth_error_repeat_inv in Hn. destruct Hn as [-> Hj].
      cbv beta. cbn [vdefine]. left.
      destruct (Hrn j j (nth_error_seq_lt 0 d0 j Hj)) as [y [HFj Hy]].
      unfold F in HFj.
      destruct (mapM (fun x => do p <- asV x; nth_error p j) seeds) as [sr|] eqn:Esr; cbn [obind] in HFj; [|discriminate].
      match goal with |- exists s1 g1 l1, (?b = _ \/ _) /\ _ =>
        assert (Hb : exists l5, b = DNormal St s g l5 /\ P (S j) s g l5)
      end.
      2:{ destruct Hb as [l5 [Hb HP]]. exists s, g, l5. split; [left; exact Hb | exact HP]. }
      autorewrite with dataexec. cbn [deval].
      erewrite vlookup_local by lk. cbn beta iota. rewrite dlen_nonneg. cbn [vdefine].
      autorewrite with dataexec. cbn [deval].
      erewrite vlookup_local by lk. cbn beta iota.
      match goal with |- context [drangeLoop St ?b ?asg _ _ _ g ?l0] =>
        pose proof (rows_loop g j b asg) as HL
      end.
      match type of HL with ?P0 -> _ => assert (Hspec : P0) end.
      { intros s0 l k0 x y0 acc Hc Hi Hx. cbv beta. cbn [vdefine].
        destruct x as [a|p]; cbn [asV obind] in Hx; [discriminate|].
        autorewrite with dataexec. cbn [deval].
        erewrite vlookup_local by lk. erewrite (vlookup_local _ _ "seed") by lk.
        erewrite (vlookup_local _ _ "i") by lk.
        rewrite emb_Vec. cbn beta iota. rewrite didx_nat, (map_nth_error emb _ _ Hx).
        erewrite vassign_false_local by lk.
        eexists. split; [reflexivity|]. split; [apply dlookup_dupd_eq|].
        eapply frame_trans; [|apply frame_dupd; names].
        eapply frame_trans; apply frame_dupd; names. }
      match goal with |- context [drangeLoop St _ _ _ _ _ g ?l0] =>
        destruct (HL Hspec seeds sr [] 0 s l0) as [l4 [HL4 [Hc4 Hf4]]]; [lk | lk | exact Esr |]
      end. clear HL Hspec.
      rewrite HL4. cbn [app] in Hc4.
      autorewrite with dataexec. cbn [argVals deval].
      erewrite (vlookup_local _ _ "dims") by lk. erewrite (vlookup_local _ _ "rows") by lk.
      erewrite (vlookup_local _ _ "i") by lk. erewrite (vlookup_local _ _ "seedRows") by lk.
      erewrite (vlookup_local _ _ "depth") by lk.
      cbn beta iota. rewrite didx_nat, (partial_nth rows d0 j Hrl Hj). cbn beta iota.
      rewrite (Hcl sr y DNil s HFj).
      cbn [copyOut deval].
      erewrite (vlookup_local _ _ "i") by lk. cbn beta iota. rewrite didx_nat.
      unfold setSlot. erewrite (vlookup_local _ _ "rows") by lk. cbn beta iota.
      rewrite (partial_set rows d0 j y Hrl Hy).
      erewrite vassign_false_local by lk.
      eexists. split; [reflexivity|].
      unfold P. repeat split; lk.
    + intros s0 g0 l HP. rewrite repeat_length in HP.
      assert (s0 = s /\ g0 = g) as [-> ->] by (destruct HP as (? & ? & _); auto).
      exists l. split; [reflexivity | exact HP].
    + lia.
    + unfold P. rewrite partial_0. repeat split; reflexivity.
    + destruct HQ as [l' [HQ (_ & _ & Hr & Hds & Hse & Hde & Hda)]]. rewrite HQ.
      rewrite (partial_full rows d0 Hrl) in Hr.
      autorewrite with dataexec. cbn [deval].
      erewrite vlookup_local by lk.
      erewrite vassign_false_local by lk.
      cbn [ptrOuts]. rewrite dlookup_dupd_eq. rewrite emb_Vec. reflexivity.
Qed.






(* ---------- the main function ---------- *)

(* a []*CPUTensor: every tensor value is the pair [dims; data] *)
Definition etensor (t : tensor A) : dval := DL [dnats (dims t); emb (data t)].
Definition etensors (ts : list (tensor A)) : dval := DL (map etensor ts).

(* the outside calls: t.slice(nil) and getConcatDims(ts, dim) are their models *)
Hypothesis ext_slice : forall (t c : tensor A) s,
  Data.slice t [] = Some c -> ext "slice" [etensor t; DL []] s = Some ([etensor c], s).
Hypothesis ext_getConcatDims : forall (ts : list (tensor A)) (dm : nat) r s,
  Data.getConcatDims ts dm = Some r -> ext "getConcatDims" [etensors ts; DI (Z.of_nat dm)] s = Some ([dnats r], s).

Lemma vlookup_main_eq (g : denv) x (v : dval) : dlookup g x = Some v -> vlookup g [] x = Some v.
Proof. intros H. unfold vlookup. cbn [dlookup]. exact H. Qed.

Lemma nth_error_map_inv {T U} (f : T -> U) (l : list T) j v :
  nth_error (map f l) j = Some v -> exists x, nth_error l j = Some x /\ v = f x.
Proof.
  revert j. induction l as [|a l IH]; intros [|j] H; cbn in H; try discriminate.
  - inversion H. exists a. split; reflexivity.
  - apply IH in H. exact H.
Qed.

Lemma setNth_length {X} (l : list X) i v r : setNth l i v = Some r -> (i < length r)%nat.
Proof.
  revert i r. induction l as [|a l IH]; intros [|i] r H; cbn [setNth] in H; try discriminate.
  - inversion H. cbn. lia.
  - destruct (setNth l i v) as [r'|] eqn:E; cbn [obind] in H; [|discriminate].
    inversion H. cbn. apply IH in E. lia.
Qed.

Lemma getConcatDims_length (ts : list (tensor A)) dm r : Data.getConcatDims ts dm = Some r -> (dm < length r)%nat.
Proof.
  unfold Data.getConcatDims. intros H.
  destruct (foldM _ ts 0%nat) as [c|]; cbn [obind] in H; [|discriminate].
  destruct (nth_error ts 0) as [t0|]; cbn [obind] in H; [|discriminate].
  destruct (setNth (dims t0) dm c) as [r'|] eqn:E; cbn [obind] in H; [|discriminate].
  inversion H; subst. eapply setNth_length; eauto.
Qed.

Theorem data_initConcatResultTensor (ts : list (tensor A)) (ds : list nat) (r : nd A) fuel depth (s : St) :
  (dim < depth)%nat ->
  Data.concatD ts dim = Some (mkT ds r) ->
  exists g l,
    dexec fapp St ext (callLD fapp St ext locals fuel depth) fuel true (dbody (pmain d_initConcatResultTensor)) s
          [("ts", etensors ts); ("dim", DI (Z.of_nat dim))] [] = DRet St [dnats ds; emb r] s g l.
Proof.
  intros Hdepth Hc. unfold Data.concatD in Hc.
  match type of Hc with (do copies <- mapM ?F0 _; _) = _ => set (F := F0) in * end.
  destruct (mapM F ts) as [copies|] eqn:Em; cbn [obind] in Hc; [|discriminate].
  destruct (Data.getConcatDims ts dim) as [ds'|] eqn:Eg; cbn [obind] in Hc; [|discriminate].
  destruct (Data.fillCat dim ds' copies) as [r'|] eqn:Ef; cbn [obind] in Hc; [|discriminate].
  inversion Hc; subst ds' r'. clear Hc.
  destruct (mapM_nth F ts copies Em) as [Hcl Hcn].
  destruct depth as [|d]; [lia|].
  generalize (fillCat_call dim ds copies r 0 DNil d fuel).
  generalize (callLD fapp St ext locals fuel (S d)) as cl. intros cl Hcall.
  unfold d_initConcatResultTensor. cbn [pmain dbody]. dxs.
  unfold etensors. rewrite dlen_nonneg. dxs. rewrite dlen_map, Nat2Z.id.
  set (n := length ts).
  pose (P := fun (j : nat) (s' : St) (gj lj : denv) =>
    s' = s /\ lj = [] /\
    dlookup gj "ts" = Some (DL (map etensor ts)) /\
    dlookup gj "dim" = Some (DI (Z.of_nat dim)) /\
    dlookup gj "o.data" = Some DNil /\
    dlookup gj "tsDataCopy" = Some (DL (partial copies n j))).
  pose (Q := fun o : @doutcome A St => exists g', o = DNormal St s g' [] /\ P n s g' []).
  match goal with |- context [drangeLoop St ?b ?asg ?m 0 s ?g0 []] =>
    assert (HQ : Q (drangeLoop St b asg m 0 s g0 []));
    [ refine (drangeLoop_rule St P Q b asg m _ _ 0%nat s g0 [] _ _) | ]
  end.
  - intros j s' gj lj v (-> & -> & Hts & Hdm & Hod & Htd) Hn.
    apply nth_error_map_inv in Hn. destruct Hn as [t [Ht ->]].
    destruct (Hcn j t Ht) as [y [HFt Hy]]. unfold F in HFt.
    destruct (Data.slice t []) as [c|] eqn:Es; cbn [obind] in HFt; [|discriminate].
    inversion HFt; subst y. clear HFt.
    cbv beta. left.
    match goal with |- exists s1 g1 l1, (?b = _ \/ _) /\ _ =>
      assert (Hb : exists g5, b = DNormal St s g5 [] /\ P (S j) s g5 [])
    end.
    2:{ destruct Hb as [g5 [Hb HP]]. exists s, g5, []. split; [left; exact Hb | exact HP]. }
    autorewrite with dataexec. cbn [devals deval].
    erewrite vlookup_main_eq by lk.
    rewrite (ext_slice t c s Es). cbn [dassignAll vdefine].
    autorewrite with dataexec. cbn [deval].
    erewrite (vlookup_main_eq _ "tc") by lk. erewrite (vlookup_main_eq _ "i") by lk.
    unfold etensor at 1. cbn beta iota.
    change (didx 1) with (Some 1%nat). cbn [nth_error]. rewrite didx_nat.
    unfold setSlot. erewrite (vlookup_main_eq _ "tsDataCopy") by lk. cbn beta iota.
    rewrite (partial_set copies n j (data c) Hcl Hy). rewrite vassign_main.
    eexists. split; [reflexivity|].
    unfold P. repeat split; lk.
  - intros s0 g0 l HP. rewrite map_length in HP. fold n in HP.
    assert (s0 = s /\ l = []) as [-> ->] by (destruct HP as (? & ? & _); auto).
    exists g0. split; [reflexivity | exact HP].
  - lia.
  - unfold P. rewrite partial_0. repeat split; reflexivity.
  - destruct HQ as [g1 [HQ (_ & _ & Hts & Hdm & Hod & Htd)]]. rewrite HQ. clear HQ P Q.
    rewrite (partial_full copies n Hcl) in Htd.
    autorewrite with dataexec. cbn [devals deval].
    erewrite (vlookup_main_eq _ "ts") by lk. erewrite (vlookup_main_eq _ "dim") by lk.
    fold (etensors ts). rewrite (ext_getConcatDims ts dim ds s Eg).
    cbn [dassignAll]. rewrite vassign_main.
    autorewrite with dataexec. cbn [argVals deval].
    erewrite (vlookup_main_eq _ "o.dims") by lk. erewrite (vlookup_main_eq _ "o.data") by lk.
    erewrite (vlookup_main_eq _ "tsDataCopy") by lk. cbn beta iota.
    change (@DI A 0) with (@DI A (Z.of_nat 0)).
    rewrite Hcall; [| lia | eapply getConcatDims_length; eauto | lia | lk | exact Ef].
    cbn [copyOut]. rewrite vassign_main.
    autorewrite with dataexec. cbn [devals deval].
    erewrite (vlookup_main_eq _ "o.dims") by lk. erewrite (vlookup_main_eq _ "o.data") by lk.
    eexists. eexists. reflexivity.
Qed.

(* the same through [drun] *)
Corollary drun_initConcatResultTensor (ts : list (tensor A)) (ds : list nat) (r : nd A) fuel depth (s : St) :
  (dim < depth)%nat ->
  Data.concatD ts dim = Some (mkT ds r) ->
  exists g l,
    drun fapp St ext d_initConcatResultTensor fuel depth [etensors ts; DI (Z.of_nat dim)] s =
    DRet St [dnats ds; emb r] s g l.
Proof. intros Hd Hc. unfold drun. cbn [pmain d_initConcatResultTensor dparams dbind]. exact (data_initConcatResultTensor ts ds r fuel depth s Hd Hc). Qed.




End DataConcat.

Check @fillCat_call.
Check @data_initConcatResultTensor.
Check @drun_initConcatResultTensor.
Print Assumptions fillCat_call.
Print Assumptions data_initConcatResultTensor.
Print Assumptions drun_initConcatResultTensor.

(* ---------- concrete runs over the free term algebra ---------- *)
Module ConcatExample.
Definition tt1 (n : nat) : tensor term :=
  mkT [2; 2; 1]%nat (Vec [Vec [Vec [Sc (TNat n)]; Vec [Sc (TNat (n + 1))]];
                          Vec [Vec [Sc (TNat (n + 2))]; Vec [Sc (TNat (n + 3))]]]).
(* toy oracle: slice(nil) of a well-formed tensor is a copy; getConcatDims answers with the model's value *)
Definition ext0 (cd : option (list nat)) (f : string) (vs : list (@dval term)) (s : unit)
  : option (list (@dval term) * unit) :=
  if String.eqb f "slice" then match vs with [t; _] => Some ([t], s) | _ => None end
  else if String.eqb f "getConcatDims" then match cd with Some ds => Some ([dnats ds], s) | None => None end
  else None.
Definition run (ts : list (tensor term)) (dm : nat) :=
  drun (fun _ _ => None) unit (ext0 (getConcatDims ts dm)) d_initConcatResultTensor 10 10
       [DL (map (fun t => DL [dnats (dims t); emb (data t)]) ts); DI (Z.of_nat dm)] tt.
Example concat_dim0 : exists g l, run [tt1 0; tt1 10] 0 =
  DRet unit (match concatD [tt1 0; tt1 10] 0 with Some t => [dnats (dims t); emb (data t)] | None => [] end) tt g l.
Proof. vm_compute. eauto. Qed.
Example concat_dim1 : exists g l, run [tt1 0; tt1 10] 1 =
  DRet unit (match concatD [tt1 0; tt1 10] 1 with Some t => [dnats (dims t); emb (data t)] | None => [] end) tt g l.
Proof. vm_compute. eauto. Qed.
Example concat_dim2 : exists g l, run [tt1 0; tt1 10] 2 =
  DRet unit (match concatD [tt1 0; tt1 10] 2 with Some t => [dnats (dims t); emb (data t)] | None => [] end) tt g l.
Proof. vm_compute. eauto. Qed.

(* model / Go discrepancy outside the reach of concatD: with depth = dim the Go closure reads dims[0]
   (make([]any, 0, dims[0])) and panics on empty dims, Data.fillCat 0 [] does not look at the dims *)
Example fillCat_empty_dims_model : fillCat (A := term) 0 [] [Vec []] = Some (Vec []).
Proof. reflexivity. Qed.
Example fillCat_empty_dims_go :
  callLD (fun _ _ => None) unit (ext0 None) (plocals d_initConcatResultTensor) 10 10 "fillCat"
         [dnats []; DNil; DL [DL []]; DI 0] tt [("dim", DI 0)] = CPanic unit.
Proof. vm_compute. reflexivity. Qed.
End ConcatExample.
