(* GradFcP.v — property C16, gradients of the fully connected layer (component/layers/fc.go):
   back-propagation through  y = W.UnSqueeze(1).MatMul(x.UnSqueeze(1)).SumAlong(2).Add(B)
   delivers to W, B and to a tracked input x the derivatives of
        y[b][o] = W[o] * Σ_d x[b][d] + B[o]
   contracted with the upstream gradient gy (shape [B;O]) that reached y:
        dW[o]    = c * Σ_b gy[b][o] * Σ_d x[b][d]
        dB[o]    = c * Σ_b gy[b][o]
        dx[b][d] =     Σ_o gy[b][o] * W[o]
   where c = 1 for the summing Broadcast back edge ([RedSum], what the property demands) and
   c = 1 / B (B the batch size) for the averaging one ([RedAvg], the pinned library, known finding D2).

   FORMULATION.  [h] is any heap; w, b are tracked, not spent nodes of it with values of shape [O],
   x a not spent node with a value of shape [B;F], tracked or not (a leaf OR the result of earlier
   operations: nothing is assumed about the edges of w, b, x); [(h1, Ok y)] the outcome of
   [fc_forward h w b [Some x] name].  [hh] is ANY heap with the structure of [h1] ([sameS h1 hh])
   in which a back-propagation from some root above y has already delivered the final gradient
   [gy] to [y], the eight internal nodes hold no gradient yet, and w, b, x hold arbitrary prior
   gradients (none, or a well-formed tensor of the node's shape).  The theorem runs the model's
   own [process_node rd (fun _ g => g)] over the nine nodes of the layer in decreasing id order,
   concludes that the fold is [Ok] (no rule evaluation and no accumulation fails), that the
   structure is unchanged, that every other old node keeps its gradient, and gives the gradients
   of w, b, x element by element (prior + the formula above).  If x is not tracked the edge to
   it is skipped and x keeps what it had.

   HYPOTHESES worth noticing: [w <> b] (two distinct parameter tensors; x differs from both because
   the shapes differ), x not spent (a spent input makes the whole result untracked).

   1. generic (any scalar): symbolic execution of [process_edge]/[process_node] on a heap seen
      through its observers ([HS h0 G hh]): [edges_run], [node_run], [node_skip], [node_run1],
      [node_run2], [node_run2u]; back edges to untracked targets are skipped.
   2. generic: the exact heap built by [fc_forward]: [fc_structure] (the nine nodes [fc_heap]).
   3. reals: the values stored in the nodes ([fc_values]); the rule evaluations along the graph
      ([bcast_bias_eval], [bcast_weight_eval]: the two Broadcast back edges that reduce over the
      batch, factor [rdc rd B] = 1 (RedSum) or 1/B (RedAvg); [reshape_w_eval], [reshape_x_eval];
      one lemma per node [step_*]); all nine nodes [fc_core];
      MAIN THEOREM [fc_backward]; its readings [fc_grad_B], [fc_grad_x], [fc_grad_W] (both
      variants spelled out); [fc_fresh_upstream] (the hypotheses about hh hold on the fresh graph
      with an upstream gradient put on y); [fcY_dW], [fcY_dB], [fcY_dX]: the factors in the
      formulas are the partial derivatives of y[b][o] = W[o] * Σ_d x[b][d] + B[o];
      [fc_backward_ex]: a concrete instance with numbers. *)
From Coq Require Import List Arith ZArith Bool Lia Reals Lra.
From Coquelicot Require Import Coquelicot.
From Qeep Require Import Model.Scalar Model.Nd Model.Fill Model.Data Model.Valid Model.Api Model.Grad
  Model.Backprop Model.Components.
From Qeep Require Import Proofs.NdP Proofs.ElemP Proofs.ReshapeP Proofs.BroadcastP Proofs.ReduceP Proofs.ArithP
  Proofs.MatMulP Proofs.TrackP Proofs.BackpropP Proofs.CompP Proofs.FcP.
From Qeep Require Import Spec.RScalar Spec.VjpSpec Proofs.VjpElemP Proofs.VjpGatherP Proofs.VjpReduceP
  Proofs.VjpLinalgP Proofs.ReduceRP.
Import ListNotations.
Local Open Scope nat_scope.

Lemma Forall2_impl_fc {X Y} (P Q : X -> Y -> Prop) l r :
  (forall a b, P a b -> Q a b) -> Forall2 P l r -> Forall2 Q l r.
Proof. intros H F. induction F; constructor; auto. Qed.

(* ===================================================================================== *)
(* 1. generic part: running process_node on a heap seen through its observers             *)
(* ===================================================================================== *)
Section Gen.
Context {A : Type} {SA : Scalar A}.
Notation T := (tensor A).
Notation heap := (@heap A).
Notation rule := (@rule A).
Notation node := (@node A).
Notation hres := (@hres A).

Definition upd (G : nat -> option T) (t : nat) (o : option T) : nat -> option T :=
  fun i => if i =? t then o else G i.

(* hh has the structure of h0 (values, flags, edges, size) and the gradients G *)
Definition HS (h0 : heap) (G : nat -> option T) (hh : heap) : Prop :=
  sameS h0 hh /\ forall i, gradOf hh i = G i.

Lemma HS_init (h0 hh : heap) : sameS h0 hh -> HS h0 (gradOf hh) hh.
Proof. intros H. split; [exact H|reflexivity]. Qed.

Lemma HS_ext (h0 : heap) G G' hh : (forall i, G i = G' i) -> HS h0 G hh -> HS h0 G' hh.
Proof. intros E [S Hg]. split; [exact S|]. intros i. rewrite Hg. apply E. Qed.

Lemma HS_len (h0 : heap) G hh : HS h0 G hh -> length hh = length h0.
Proof. intros [[L _] _]. symmetry. exact L. Qed.

Lemma HS_val (h0 : heap) G hh i : HS h0 G hh -> valOf hh i = valOf h0 i.
Proof. intros [S _]. symmetry. apply (sameS_val _ _ S). Qed.

Lemma HS_grad (h0 : heap) G hh i : HS h0 G hh -> gradOf hh i = G i.
Proof. intros [_ H]. apply H. Qed.

Lemma HS_setGrad (h0 : heap) G hh t o : HS h0 G hh -> t < length h0 -> HS h0 (upd G t o) (setGrad hh t o).
Proof.
  intros [S Hg] Hl. split; [eapply sameS_trans; [exact S|apply sameS_setGrad]|].
  intros i. rewrite gradOf_setGrad. unfold upd. destruct (i =? t); [|apply Hg].
  rewrite <- (proj1 S). apply Nat.ltb_lt in Hl. rewrite Hl. reflexivity.
Qed.

Lemma HS_eval rd (h0 : heap) G hh1 hh2 r : HS h0 G hh1 -> HS h0 G hh2 -> eval_rule rd hh1 r = eval_rule rd hh2 r.
Proof.
  intros [S1 G1] [S2 G2]. apply eval_rule_ext.
  - intros i. rewrite <- (sameS_val _ _ S1), <- (sameS_val _ _ S2). reflexivity.
  - rewrite G1, G2. reflexivity.
Qed.

Section Run.
Variable rd : bred.
Notation idseal := (fun (_ : option nat) (g : T) => g).

(* accumulateGrad on the gradient map; [None] = the edge is skipped (untracked target) *)
Fixpoint accEdges (G : nat -> option T) (l : list (nat * option T)) : option (nat -> option T) :=
  match l with
  | [] => Some G
  | (t, None) :: r => accEdges G r
  | (t, Some g) :: r => match acc1 (G t) g with Some o => accEdges (upd G t o) r | None => None end
  end.

(* edge e of node c: either its target is untracked (skipped), or it is tracked, is not c itself,
   the rule reads the gradient of c, and evaluates (in hh) to the paired gradient *)
Definition edge_ev (h0 hh : heap) (c : nat) (e : nat * rule) (tg : nat * option T) : Prop :=
  fst tg = fst e /\
  match snd tg with
  | None => trackedOf h0 (fst e) = false
  | Some g => trackedOf h0 (fst e) = true /\ fst e <> c /\ rule_y (snd e) = c /\ eval_rule rd hh (snd e) = Ok g
  end.

Lemma edges_run (h0 : heap) c es : forall G hh tgs G',
  HS h0 G hh -> Forall2 (edge_ev h0 hh c) es tgs -> accEdges G tgs = Some G' ->
  exists hh', fold_left (process_edge rd c) es (hh, Ok tt) = (hh', Ok tt) /\ HS h0 G' hh' /\ G' c = G c.
Proof.
  induction es as [|e es IH]; intros G hh tgs G' H F Hacc.
  - inversion F; subst. cbn in Hacc. inversion Hacc; subst. exists hh. auto.
  - inversion F as [|e0 tg es0 tgs0 He Frest]; subst. destruct tg as [t og]. destruct e as [t' r].
    destruct He as (Et & Hcase). cbn [fst snd] in *. subst t.
    destruct og as [g|].
    + destruct Hcase as (Htr & Hne & Hy & Hev).
      cbn [accEdges] in Hacc. destruct (acc1 (G t') g) as [o|] eqn:Ea; [|discriminate].
      assert (Hlt : t' < length h0) by (apply tracked_lt; exact Htr).
      pose proof (HS_setGrad h0 G hh t' o H Hlt) as H1.
      assert (Estep : process_edge rd c (hh, Ok tt) (t', r) = (setGrad hh t' o, Ok tt)).
      { cbn [process_edge fst snd]. rewrite <- (sameS_trk _ _ (proj1 H)), Htr, Hev.
        unfold accumulate. rewrite (proj2 H t'). unfold acc1 in Ea. destruct (G t') as [g0|].
        - destruct (v_arith BiAdd g0 g) as [s| |]; inversion Ea; reflexivity.
        - inversion Ea; reflexivity. }
      assert (Ec : upd G t' o c = G c).
      { unfold upd. destruct (c =? t') eqn:E; [apply Nat.eqb_eq in E; congruence|reflexivity]. }
      destruct (IH (upd G t' o) (setGrad hh t' o) tgs0 G' H1) as (hh' & Ef & H' & Ec'); [|exact Hacc|].
      * eapply Forall2_impl_fc; [|exact Frest]. intros e1 tg1 (a1 & a2). split; [exact a1|].
        destruct (snd tg1) as [g1|]; [|exact a2]. destruct a2 as (b1 & b2 & b3 & b4).
        repeat (split; [assumption|]). rewrite <- b4. apply eval_rule_ext.
        -- intros i. rewrite (HS_val _ _ _ i H1), (HS_val _ _ _ i H). reflexivity.
        -- rewrite b3, (proj2 H1 c), (proj2 H c). exact Ec.
      * exists hh'. split; [cbn [fold_left]; rewrite Estep; exact Ef|]. split; [exact H'|congruence].
    + cbn [accEdges] in Hacc.
      assert (Estep : process_edge rd c (hh, Ok tt) (t', r) = (hh, Ok tt)).
      { cbn [process_edge fst snd]. rewrite <- (sameS_trk _ _ (proj1 H)), Hcase. reflexivity. }
      destruct (IH G hh tgs0 G' H Frest Hacc) as (hh' & Ef & H' & Ec').
      exists hh'. split; [cbn [fold_left]; rewrite Estep; exact Ef|]. split; assumption.
Qed.

(* one node holding a gradient: seal (identity), then every edge once *)
Lemma node_run (h0 : heap) G hh log c g tgs G' :
  HS h0 G hh -> c < length h0 -> G c = Some g ->
  Forall2 (edge_ev h0 hh c) (edgesOf h0 c) tgs -> accEdges G tgs = Some G' ->
  exists hh', process_node rd idseal (hh, log, Ok tt) c = (hh', (c, g) :: log, Ok tt) /\ HS h0 G' hh' /\ G' c = Some g.
Proof.
  intros H Hl Hg F Hacc. cbn [process_node].
  assert (Hl' : c < length hh) by (rewrite (HS_len _ _ _ H); exact Hl).
  destruct (nth_error hh c) as [nd|] eqn:En; [|apply nth_error_None in En; lia].
  assert (Eg : ngrad nd = Some g).
  { rewrite <- Hg, <- (proj2 H c). unfold gradOf. rewrite En. reflexivity. }
  assert (Ee : nedges nd = edgesOf h0 c).
  { rewrite (sameS_edges _ _ (proj1 H)). unfold edgesOf. rewrite En. reflexivity. }
  rewrite Eg, Ee.
  assert (H1 : HS h0 G (setGrad hh c (Some g))).
  { apply (HS_ext h0 (upd G c (Some g))); [|apply HS_setGrad; assumption].
    intros i. unfold upd. destruct (i =? c) eqn:E; [apply Nat.eqb_eq in E; congruence|reflexivity]. }
  destruct (edges_run h0 c (edgesOf h0 c) G (setGrad hh c (Some g)) tgs G' H1) as (hh' & Ef & H' & Ec); [|exact Hacc|].
  - eapply Forall2_impl_fc; [|exact F]. intros e1 tg1 (a1 & a2). split; [exact a1|].
    destruct (snd tg1) as [g1|]; [|exact a2]. destruct a2 as (b1 & b2 & b3 & b4).
    repeat (split; [assumption|]). rewrite <- b4. apply (HS_eval rd h0 G); assumption.
  - exists hh'. rewrite Ef. split; [reflexivity|]. split; [exact H'|congruence].
Qed.

(* a node that received no gradient (its only consumers were skipped) is passed over *)
Lemma node_skip (h0 : heap) G hh (log : list (nat * T)) c :
  HS h0 G hh -> c < length h0 -> G c = None ->
  process_node rd idseal (hh, log, Ok tt) c = (hh, log, Ok tt).
Proof.
  intros H Hl Hg. cbn [process_node].
  assert (Hl' : c < length hh) by (rewrite (HS_len _ _ _ H); exact Hl).
  destruct (nth_error hh c) as [nd|] eqn:En; [|apply nth_error_None in En; lia].
  assert (Eg : ngrad nd = None).
  { rewrite <- Hg, <- (proj2 H c). unfold gradOf. rewrite En. reflexivity. }
  rewrite Eg. reflexivity.
Qed.

(* the shapes that occur in the layer *)
Lemma node_run1 (h0 : heap) G hh log c g t r gr o :
  HS h0 G hh -> c < length h0 -> G c = Some g -> edgesOf h0 c = [(t, r)] ->
  trackedOf h0 t = true -> t <> c -> rule_y r = c ->
  eval_rule rd hh r = Ok gr -> acc1 (G t) gr = Some o ->
  exists hh', process_node rd idseal (hh, log, Ok tt) c = (hh', (c, g) :: log, Ok tt) /\ HS h0 (upd G t o) hh'.
Proof.
  intros H Hl Hg He Ht Hn Hy Hev Ha.
  destruct (node_run h0 G hh log c g [(t, Some gr)] (upd G t o) H Hl Hg) as (hh' & E & H' & _).
  - rewrite He. constructor; [|constructor]. split; [reflexivity|]. cbn [fst snd]. repeat split; assumption.
  - cbn [accEdges]. rewrite Ha. reflexivity.
  - exists hh'. auto.
Qed.

Lemma node_run2 (h0 : heap) G hh log c g t1 r1 t2 r2 g1 o1 g2 o2 :
  HS h0 G hh -> c < length h0 -> G c = Some g -> edgesOf h0 c = [(t1, r1); (t2, r2)] ->
  trackedOf h0 t1 = true -> t1 <> c -> rule_y r1 = c ->
  trackedOf h0 t2 = true -> t2 <> c -> rule_y r2 = c ->
  eval_rule rd hh r1 = Ok g1 -> acc1 (G t1) g1 = Some o1 ->
  eval_rule rd hh r2 = Ok g2 -> acc1 (upd G t1 o1 t2) g2 = Some o2 ->
  exists hh', process_node rd idseal (hh, log, Ok tt) c = (hh', (c, g) :: log, Ok tt) /\
              HS h0 (upd (upd G t1 o1) t2 o2) hh'.
Proof.
  intros H Hl Hg He Ht1 Hn1 Hy1 Ht2 Hn2 Hy2 Hev1 Ha1 Hev2 Ha2.
  destruct (node_run h0 G hh log c g [(t1, Some g1); (t2, Some g2)] (upd (upd G t1 o1) t2 o2) H Hl Hg) as (hh' & E & H' & _).
  - rewrite He. constructor; [|constructor; [|constructor]]; (split; [reflexivity|]); cbn [fst snd]; repeat split; assumption.
  - cbn [accEdges]. rewrite Ha1, Ha2. reflexivity.
  - exists hh'. auto.
Qed.

(* two edges, the target of the second is untracked: the edge is skipped *)
Lemma node_run2u (h0 : heap) G hh log c g t1 r1 t2 r2 g1 o1 :
  HS h0 G hh -> c < length h0 -> G c = Some g -> edgesOf h0 c = [(t1, r1); (t2, r2)] ->
  trackedOf h0 t1 = true -> t1 <> c -> rule_y r1 = c ->
  trackedOf h0 t2 = false ->
  eval_rule rd hh r1 = Ok g1 -> acc1 (G t1) g1 = Some o1 ->
  exists hh', process_node rd idseal (hh, log, Ok tt) c = (hh', (c, g) :: log, Ok tt) /\
              HS h0 (upd G t1 o1) hh'.
Proof.
  intros H Hl Hg He Ht1 Hn1 Hy1 Ht2 Hev1 Ha1.
  destruct (node_run h0 G hh log c g [(t1, Some g1); (t2, None)] (upd G t1 o1) H Hl Hg) as (hh' & E & H' & _).
  - rewrite He. constructor; [|constructor; [|constructor]]; (split; [reflexivity|]); cbn [fst snd]; [repeat split; assumption|exact Ht2].
  - cbn [accEdges]. rewrite Ha1. reflexivity.
  - exists hh'. auto.
Qed.

End Run.

(* the Broadcast back edge between equal shapes hands the gradient through, whatever [rd] *)
Lemma bcDims_same rd (gy : T) : forall ds j, bcDims rd j ds ds gy = Ok gy.
Proof.
  induction ds as [|d ds IH]; intros j; cbn [bcDims]; [reflexivity|].
  rewrite Nat.eqb_refl. cbn [res_bind]. apply IH.
Qed.

Lemma bcastBack_same rd (gy : T) ds : bcastBack rd gy ds ds = Ok gy.
Proof. unfold bcastBack. rewrite Nat.sub_diag. cbn [bcLead res_bind skipn]. apply bcDims_same. Qed.

Lemma rbroadcast_same rd (h : heap) y x yv xv gy :
  valOf h y = Some yv -> valOf h x = Some xv -> gradOf h y = Some gy -> dims yv = dims xv ->
  eval_rule rd h (RBroadcast y x) = Ok gy.
Proof.
  intros Hy Hx Hg Ed. unfold eval_rule, gy_of, val_of. rewrite Hy, Hx, Hg. cbn [of_opt res_bind].
  rewrite Ed. apply bcastBack_same.
Qed.

End Gen.

(* ===================================================================================== *)
(* 2. the exact heap built by fc_forward                                                   *)
(* ===================================================================================== *)
Section Structure.
Context {A : Type} {SA : Scalar A}.
Notation T := (tensor A).
Notation heap := (@heap A).
Notation rule := (@rule A).
Notation node := (@node A).
Notation hres := (@hres A).

(* a node allocated from not-spent operands: tracked iff some operand is, edges only if tracked *)
Definition nd (v : T) (t : bool) (es : list (nat * rule)) (name : option nat) : node :=
  mkNode v t false None (if t then es else []) name.

Lemma mkCtx1 (h : heap) x es : dirtyOf h x = false ->
  mkCtx h [x] es = (trackedOf h x, false, if trackedOf h x then es else []).
Proof.
  intros Hd. unfold mkCtx. cbn [existsb]. rewrite Hd. cbn [orb]. rewrite orb_false_r.
  destruct (trackedOf h x); reflexivity.
Qed.

Lemma mkCtx2 (h : heap) x u es : dirtyOf h x = false -> dirtyOf h u = false ->
  mkCtx h [x; u] es = (trackedOf h x || trackedOf h u, false, if trackedOf h x || trackedOf h u then es else []).
Proof.
  intros Hd Hd2. unfold mkCtx. cbn [existsb]. rewrite Hd, Hd2. cbn [orb]. rewrite orb_false_r.
  destruct (trackedOf h x || trackedOf h u); reflexivity.
Qed.

(* observers of an appended suffix *)
Lemma nth_error_at (h l : heap) i k : i = length h + k -> nth_error (h ++ l) i = nth_error l k.
Proof. intros ->. rewrite nth_error_app2 by lia. f_equal. lia. Qed.

Lemma valOf_at (h l : heap) i k n : i = length h + k -> nth_error l k = Some n -> valOf (h ++ l) i = Some (nval n).
Proof. intros Hi Hn. unfold valOf. rewrite (nth_error_at h l i k Hi), Hn. reflexivity. Qed.
Lemma trackedOf_at (h l : heap) i k n : i = length h + k -> nth_error l k = Some n -> trackedOf (h ++ l) i = ntracked n.
Proof. intros Hi Hn. unfold trackedOf. rewrite (nth_error_at h l i k Hi), Hn. reflexivity. Qed.
Lemma dirtyOf_at (h l : heap) i k n : i = length h + k -> nth_error l k = Some n -> dirtyOf (h ++ l) i = ndirty n.
Proof. intros Hi Hn. unfold dirtyOf. rewrite (nth_error_at h l i k Hi), Hn. reflexivity. Qed.
Lemma edgesOf_at (h l : heap) i k n : i = length h + k -> nth_error l k = Some n -> edgesOf (h ++ l) i = nedges n.
Proof. intros Hi Hn. unfold edgesOf. rewrite (nth_error_at h l i k Hi), Hn. reflexivity. Qed.
Lemma gradOf_at (h l : heap) i k n : i = length h + k -> nth_error l k = Some n -> gradOf (h ++ l) i = ngrad n.
Proof. intros Hi Hn. unfold gradOf. rewrite (nth_error_at h l i k Hi), Hn. reflexivity. Qed.

Lemma gradOf_app (h l : heap) i : i < length h -> gradOf (h ++ l) i = gradOf h i.
Proof. intros Hi. unfold gradOf. rewrite nth_error_app1 by exact Hi. reflexivity. Qed.
Lemma edgesOf_app (h l : heap) i : i < length h -> edgesOf (h ++ l) i = edgesOf h i.
Proof. intros Hi. unfold edgesOf. rewrite nth_error_app1 by exact Hi. reflexivity. Qed.

Tactic Notation "at_rw" constr(lem) constr(i) constr(k) := erewrite (lem _ _ i k); [|lia|reflexivity].
Tactic Notation "at_rw" constr(lem) constr(i) constr(k) "in" hyp(H) := erewrite (lem _ _ i k) in H; [|lia|reflexivity].

Lemma op1_step (h : heap) x f mk name h' id :
  h_op1 h x f mk name = (h', Ok id) -> dirtyOf h x = false ->
  exists xv v, valOf h x = Some xv /\ f xv = Ok v /\ id = length h /\
               h' = h ++ [nd v (trackedOf h x) [(x, mk (length h))] name].
Proof.
  intros E Hd. apply h_op1_inv in E. destruct E as (xv & v & Hx & Hf & -> & ->). exists xv, v.
  rewrite (mkCtx1 h x _ Hd). auto.
Qed.

Lemma binop_step (h : heap) x u s1 s2 f edges name h' id :
  h_binop h x u s1 s2 f edges name = (h', Ok id) -> u < length h ->
  dirtyOf h x = false -> dirtyOf h u = false ->
  exists xv uv v1 v2 v, valOf h x = Some xv /\ v_broadcast xv s1 = Ok v1 /\
    valOf h u = Some uv /\ v_broadcast uv s2 = Ok v2 /\ f v1 v2 = Some v /\ id = S (S (length h)) /\
    h' = h ++ [nd v1 (trackedOf h x) [(x, RBroadcast (length h) x)] None;
               nd v2 (trackedOf h u) [(u, RBroadcast (S (length h)) u)] None;
               nd v (trackedOf h x || trackedOf h u) (edges (S (S (length h))) (length h) (S (length h))) name].
Proof.
  intros E Hul Dx Du. apply h_binop_inv in E.
  destruct E as (xv & uv & v1 & v2 & v & Hx & Hb1 & Hu & Hb2 & Hf & -> & ->).
  rewrite valOf_app in Hu by exact Hul.
  exists xv, uv, v1, v2, v. repeat (split; [assumption || reflexivity|]).
  assert (B1 : bnode1 h x v1 = nd v1 (trackedOf h x) [(x, RBroadcast (length h) x)] None).
  { unfold bnode1. rewrite (mkCtx1 h x _ Dx). reflexivity. }
  assert (B2 : bnode2 h x u v1 v2 = nd v2 (trackedOf h u) [(u, RBroadcast (S (length h)) u)] None).
  { unfold bnode2. rewrite mkCtx1 by (rewrite dirtyOf_app by exact Hul; exact Du).
    rewrite trackedOf_app by exact Hul. reflexivity. }
  assert (B3 : rnode h x u v1 v2 v edges name =
               nd v (trackedOf h x || trackedOf h u) (edges (S (S (length h))) (length h) (S (length h))) name).
  { unfold rnode. rewrite B1, B2. cbn [app].
    rewrite mkCtx2.
    - at_rw trackedOf_at (length h) 0.
      at_rw trackedOf_at (S (length h)) 1. reflexivity.
    - at_rw dirtyOf_at (length h) 0. reflexivity.
    - at_rw dirtyOf_at (S (length h)) 1. reflexivity. }
  rewrite B1, B2, B3. reflexivity.
Qed.

(* the nine nodes of the layer, appended to h; [tx] = the input is tracked *)
Definition fc_heap (h : heap) (w b x : nat) (tx : bool) (w1v x1v bwv bxv y1v y2v by2v bbv yv : T)
  (name : option nat) : heap :=
  let n := length h in
  let n1 := S n in let n2 := S n1 in let n3 := S n2 in let n4 := S n3 in
  let n5 := S n4 in let n6 := S n5 in let n7 := S n6 in let n8 := S n7 in
  h ++ [ nd w1v true [(w, RReshape n w)] None;
         nd x1v tx [(x, RReshape n1 x)] None;
         nd bwv true [(n, RBroadcast n2 n)] None;
         nd bxv tx [(n1, RBroadcast n3 n1)] None;
         nd y1v true [(n2, RMatMulA n4 n3); (n3, RMatMulB n4 n2)] None;
         nd y2v true [(n4, RSumAlong n5 n4 2%Z)] None;
         nd by2v true [(n5, RBroadcast n6 n5)] None;
         nd bbv true [(b, RBroadcast n7 b)] None;
         nd yv true [(n6, RId n8); (n7, RId n8)] name ].

(* the new nodes hold no gradient; the old nodes are untouched *)
Lemma fc_heap_grad_new (h : heap) w b x tx w1v x1v bwv bxv y1v y2v by2v bbv yv name i :
  length h <= i -> gradOf (fc_heap h w b x tx w1v x1v bwv bxv y1v y2v by2v bbv yv name) i = None.
Proof.
  intros Hi. unfold gradOf, fc_heap. rewrite nth_error_app2 by exact Hi.
  remember (i - length h) as k eqn:Ek. clear Ek Hi.
  do 9 (destruct k as [|k]; [reflexivity|]). destruct k; reflexivity.
Qed.

Lemma fc_heap_grad_old (h : heap) w b x tx w1v x1v bwv bxv y1v y2v by2v bbv yv name i :
  i < length h -> gradOf (fc_heap h w b x tx w1v x1v bwv bxv y1v y2v by2v bbv yv name) i = gradOf h i.
Proof. intros Hi. unfold fc_heap. apply gradOf_app. exact Hi. Qed.

Ltac norm_len := rewrite ?app_length; cbn [length]; rewrite ?Nat.add_succ_r, ?Nat.add_0_r.

Theorem fc_structure (h : heap) w b x name (wv bv xv : T) h1 y :
  valOf h w = Some wv -> valOf h b = Some bv -> valOf h x = Some xv ->
  trackedOf h w = true -> dirtyOf h w = false -> trackedOf h b = true -> dirtyOf h b = false ->
  dirtyOf h x = false ->
  fc_forward h w b [Some x] name = (h1, Ok y) ->
  exists w1v x1v bwv bxv y1v y2v by2v bbv yv,
    v_unsqueeze wv 1%Z = Ok w1v /\ v_unsqueeze xv 1%Z = Ok x1v /\
    v_broadcast w1v (map Z.of_nat (mmShape (targetBroadcastDims (dims w1v) (dims x1v)) (dims w1v))) = Ok bwv /\
    v_broadcast x1v (map Z.of_nat (mmShape (targetBroadcastDims (dims w1v) (dims x1v)) (dims x1v))) = Ok bxv /\
    matMul bwv bxv = Some y1v /\
    v_reduceAlong RdSum y1v 2%Z = Ok y2v /\
    v_broadcast y2v (map Z.of_nat (targetBroadcastDims (dims y2v) (dims bv))) = Ok by2v /\
    v_broadcast bv (map Z.of_nat (targetBroadcastDims (dims y2v) (dims bv))) = Ok bbv /\
    apply2 (binaryF BiAdd) by2v bbv = Some yv /\
    y = S (S (S (S (S (S (S (S (length h)))))))) /\
    h1 = fc_heap h w b x (trackedOf h x) w1v x1v bwv bxv y1v y2v by2v bbv yv name.
Proof.
  intros Vw Vb Vx Tw Dw Tb Db Dx E.
  assert (Lw : w < length h) by (eapply valOf_some_lt; eauto).
  assert (Lb : b < length h) by (eapply valOf_some_lt; eauto).
  assert (Lx : x < length h) by (eapply valOf_some_lt; eauto).
  unfold fc_forward in E. cbn [oneInput] in E.
  destruct (negb (rankOf h x =? 2)); [discriminate|].
  (* w1 = w.UnSqueeze(1) *)
  destruct (h_unsqueeze h w 1%Z None) as [ha ra] eqn:E1.
  destruct ra as [w1| |]; cbn [hbind atomically] in E; try discriminate.
  unfold h_unsqueeze in E1. apply op1_step in E1; [|exact Dw].
  destruct E1 as (wv' & w1v & Vw' & U1 & -> & ->). assert (wv' = wv) by congruence. subst wv'. rewrite Tw in E.
  (* x1 = x.UnSqueeze(1) *)
  match type of E with context [h_unsqueeze ?hh x 1%Z None] => destruct (h_unsqueeze hh x 1%Z None) as [hb rb] eqn:E2 end.
  destruct rb as [x1| |]; cbn [hbind atomically] in E; try discriminate.
  unfold h_unsqueeze in E2. apply op1_step in E2; [|rewrite dirtyOf_app by exact Lx; exact Dx].
  destruct E2 as (xv' & x1v & Vx' & U2 & -> & ->).
  rewrite valOf_app in Vx' by exact Lx. assert (xv' = xv) by congruence. subst xv'.
  rewrite trackedOf_app in E by exact Lx. rewrite <- app_assoc in E. cbn [app] in E.
  revert E. norm_len. intros E.
  (* y1 = w1.MatMul(x1) *)
  match type of E with context [h_matmul ?hh ?a ?c None] => destruct (h_matmul hh a c None) as [hc rc] eqn:E3 end.
  destruct rc as [y1| |]; cbn [hbind atomically] in E; try discriminate.
  unfold h_matmul in E3.
  at_rw valOf_at (length h) 0 in E3.
  at_rw valOf_at (S (length h)) 1 in E3. cbn [nval nd] in E3.
  destruct (validateMatMulDims (zdims w1v) (zdims x1v)); [|discriminate]. cbv zeta in E3.
  apply binop_step in E3.
  2:{ norm_len. lia. }
  2:{ at_rw dirtyOf_at (length h) 0. reflexivity. }
  2:{ at_rw dirtyOf_at (S (length h)) 1. reflexivity. }
  destruct E3 as (w1v' & x1v' & bwv & bxv & y1v & Vw1 & Bw & Vx1 & Bx & MM & -> & ->).
  at_rw valOf_at (length h) 0 in Vw1.
  at_rw valOf_at (S (length h)) 1 in Vx1. cbn [nval nd] in Vw1, Vx1.
  inversion Vw1; subst w1v'. inversion Vx1; subst x1v'. clear Vw1 Vx1.
  at_rw trackedOf_at (length h) 0 in E.
  at_rw trackedOf_at (S (length h)) 1 in E. cbn [ntracked nd orb] in E.
  rewrite <- app_assoc in E. cbn [app] in E. revert E. norm_len. intros E.
  (* y2 = y1.SumAlong(2) *)
  match type of E with context [h_reduceAlong ?hh RdSum ?a 2%Z None] =>
    destruct (h_reduceAlong hh RdSum a 2%Z None) as [hd rd'] eqn:E4 end.
  destruct rd' as [y2| |]; cbn [hbind atomically] in E; try discriminate.
  unfold h_reduceAlong in E4. apply op1_step in E4.
  2:{ at_rw dirtyOf_at (S (S (S (S (length h))))) 4. reflexivity. }
  destruct E4 as (y1v' & y2v & Vy1 & RS & -> & ->).
  at_rw valOf_at (S (S (S (S (length h))))) 4 in Vy1. cbn [nval nd] in Vy1.
  inversion Vy1; subst y1v'. clear Vy1.
  at_rw trackedOf_at (S (S (S (S (length h))))) 4 in E. cbn [ntracked nd] in E.
  rewrite <- app_assoc in E. cbn [app alongRule] in E. revert E. norm_len. intros E.
  (* y = y2.Add(b) *)
  match type of E with context [h_arith ?hh BiAdd ?a b name] => destruct (h_arith hh BiAdd a b name) as [he re] eqn:E5 end.
  destruct re as [yid| |]; cbn [hbind atomically] in E; try discriminate.
  inversion E; subst he yid. clear E.
  unfold h_arith in E5.
  at_rw valOf_at (S (S (S (S (S (length h)))))) 5 in E5. cbn [nval nd] in E5.
  rewrite valOf_app in E5 by exact Lb. rewrite Vb in E5. cbv zeta in E5.
  apply binop_step in E5.
  2:{ norm_len. lia. }
  2:{ at_rw dirtyOf_at (S (S (S (S (S (length h)))))) 5. reflexivity. }
  2:{ rewrite dirtyOf_app by exact Lb. exact Db. }
  destruct E5 as (y2v' & bv' & by2v & bbv & yv & Vy2 & By & Vb' & Bb & AD & -> & ->).
  at_rw valOf_at (S (S (S (S (S (length h)))))) 5 in Vy2. cbn [nval nd] in Vy2.
  inversion Vy2; subst y2v'. clear Vy2.
  rewrite valOf_app in Vb' by exact Lb. assert (bv' = bv) by congruence. subst bv'.
  at_rw trackedOf_at (S (S (S (S (S (length h)))))) 5. cbn [ntracked nd orb].
  rewrite trackedOf_app by exact Lb. rewrite Tb.
  rewrite <- app_assoc. cbn [app arithEdges]. norm_len.
  exists w1v, x1v, bwv, bxv, y1v, y2v, by2v, bbv, yv.
  repeat (split; [assumption || reflexivity|]). reflexivity.
Qed.

End Structure.

Tactic Notation "at_rw" uconstr(lem) constr(i) constr(k) := erewrite (lem _ _ i k); [|lia|reflexivity].
Tactic Notation "at_rw" uconstr(lem) constr(i) constr(k) "in" hyp(H) := erewrite (lem _ _ i k) in H; [|lia|reflexivity].

Lemma upd_same {A} (G : nat -> option (tensor A)) t o : upd G t o t = o.
Proof. unfold upd. rewrite Nat.eqb_refl. reflexivity. Qed.
Lemma upd_other {A} (G : nat -> option (tensor A)) t o i : i <> t -> upd G t o i = G i.
Proof. intros H. unfold upd. destruct (Nat.eqb_spec i t); [contradiction|reflexivity]. Qed.

(* a successful Broadcast call, read backwards *)
Lemma v_broadcast_ok_inv {A} {SA : Scalar A} (t r : tensor A) ns :
  wf t -> v_broadcast t (map Z.of_nat ns) = Ok r -> broadcasted A t r ns /\ bcompat (dims t) ns.
Proof.
  intros Wt E. destruct (v_broadcast_spec A t (map Z.of_nat ns) Wt) as [H1 H2].
  destruct (validateInputDims (map Z.of_nat ns) && validateBroadcast (zdims t) (map Z.of_nat ns)) eqn:V;
    [|rewrite (H2 eq_refl) in E; discriminate].
  destruct (H1 eq_refl) as (r' & Er & Hb). assert (r' = r) by congruence. subst r'.
  rewrite natsOf_of_nat in Hb. split; [exact Hb|].
  apply validateBroadcast_shape_iff in V as (ns' & Ens & _ & Hc).
  assert (ns' = ns).
  { rewrite <- (natsOf_of_nat ns), <- (natsOf_of_nat ns'). rewrite Ens. reflexivity. }
  subst ns'. exact Hc.
Qed.

(* ===================================================================================== *)
(* 3. the reals                                                                            *)
(* ===================================================================================== *)
Section FcGrad.
Variables (thr : R) (draw : bool -> nat -> R).
Local Hint Extern 0 (Scalar R) => exact (R_scalar thr draw) : typeclass_instances.
Notation T := (tensor R).
Notation heap := (@heap R).
Notation rule := (@rule R).
Notation idseal := (fun (_ : option nat) (g : T) => g).
Local Open Scope R_scope.

(* Σ_{k < n} f k *)
Definition SumN (n : nat) (f : nat -> R) : R := Rsum (map f (seq 0 n)).

Lemma SumN_sumN n f : SumN n f = VjpLinalgP.sumN n f.
Proof. reflexivity. Qed.

(* the gradient a node held before, read as an assignment (0 where there was none) *)
Definition prior (o : option T) : assignment := fun i => match o with Some g0 => elt g0 i | None => 0 end.
(* a prior gradient, if any, is a well-formed tensor of the node's shape *)
Definition okPrior (o : option T) (ds : list nat) : Prop := forall g0, o = Some g0 -> wf g0 /\ dims g0 = ds.

Lemma okPrior_None ds : okPrior None ds.
Proof. intros g0 E. discriminate. Qed.

(* accumulateGrad never fails on a prior of the right shape, and adds element by element *)
Lemma acc1_R (o : option T) (g : T) ds : okPrior o ds -> wf g -> dims g = ds ->
  exists s, acc1 o g = Some (Some s) /\ dims s = ds /\ wf s /\
    forall i, validIdx ds i -> elt s i = prior o i + elt g i.
Proof.
  intros Ho Wg Dg. destruct o as [g0|].
  - destruct (Ho g0 eq_refl) as [W0 D0].
    destruct (ArithP.v_arith_same_dims BiAdd g0 g W0 Wg ltac:(congruence)) as (_ & _ & s & Es & Ds & Ws & Hs).
    exists s. unfold acc1. rewrite Es. split; [reflexivity|]. split; [congruence|]. split; [exact Ws|].
    intros i Hi. rewrite <- D0 in Hi. destruct (Hs i Hi) as (a & c & Ea & Ec & Er).
    unfold prior, elt. rewrite Ea, Ec, Er. reflexivity.
  - exists g. split; [reflexivity|]. split; [exact Dg|]. split; [exact Wg|].
    intros i _. unfold prior. ring.
Qed.

(* ---------- the Broadcast back edges that reduce over the batch ---------- *)

(* bias: [O] was broadcast to [B;O] *)
Lemma bcast_bias_eval rd (hh : heap) y x (xv yv gy : T) O B :
  valOf hh x = Some xv -> valOf hh y = Some yv -> gradOf hh y = Some gy ->
  dims xv = [O] -> dims yv = [B; O] -> wf gy -> dims gy = [B; O] ->
  exists g, eval_rule rd hh (RBroadcast y x) = Ok g /\ dims g = [O] /\ wf g /\
    forall o, (o < O)%nat -> elt g [o] = rdc rd B * SumN B (fun bi => elt gy [bi; o]).
Proof.
  intros Vx Vy Gy Dx Dy Wg Dg. cbn [eval_rule]. unfold gy_of, val_of. rewrite Gy, Vx, Vy. cbn [of_opt res_bind].
  rewrite Dx, Dy.
  assert (Hc : bcompat [O] [B; O]).
  { split; [cbn; lia|]. cbn. constructor; [left; reflexivity|constructor]. }
  destruct (bcastBack_char thr draw rd gy [O] [B; O] Wg Dg Hc) as (g & Eg & Dgg & Wgg & Hel).
  exists g. split; [exact Eg|]. split; [exact Dgg|]. split; [exact Wgg|].
  intros o Ho. rewrite (Hel [o]) by (apply validIdx1; exact Ho).
  assert (Ef : bfac rd [O] [B; O] = rdc rd B).
  { unfold bfac. cbn [length Nat.sub firstn skipn redDims rdcs]. rewrite Nat.eqb_refl. cbn [app rdcs]. ring. }
  rewrite Ef. f_equal. rewrite VjpLinalgP.sumIdx_cons. apply (VjpLinalgP.sumN_ext B). intros bi Hbi.
  rewrite VjpLinalgP.sumIdx_cons.
  rewrite (VjpLinalgP.sumN_ext O _ (fun p => if (p =? o)%nat then elt gy [bi; p] else 0)).
  - apply VjpLinalgP.sumN_single. exact Ho.
  - intros p Hp. rewrite VjpLinalgP.sumIdx_nil. unfold bproj. cbn [length Nat.sub skipn combine map fst snd].
    assert (Ep : (if (O =? 1)%nat then 0%nat else p) = p).
    { destruct (Nat.eqb_spec O 1); [lia|reflexivity]. }
    rewrite Ep. destruct (Nat.eqb_spec p o) as [->|Hne].
    + rewrite VjpGatherP.idx_eqb_refl. reflexivity.
    + rewrite VjpGatherP.idx_eqb_neq by congruence. reflexivity.
Qed.

(* weight: [O;1] was broadcast to [B;O;1] *)
Lemma bcast_weight_eval rd (hh : heap) y x (xv yv gy : T) O B :
  valOf hh x = Some xv -> valOf hh y = Some yv -> gradOf hh y = Some gy ->
  dims xv = [O; 1%nat] -> dims yv = [B; O; 1%nat] -> wf gy -> dims gy = [B; O; 1%nat] ->
  exists g, eval_rule rd hh (RBroadcast y x) = Ok g /\ dims g = [O; 1%nat] /\ wf g /\
    forall o, (o < O)%nat -> elt g [o; 0%nat] = rdc rd B * SumN B (fun bi => elt gy [bi; o; 0%nat]).
Proof.
  intros Vx Vy Gy Dx Dy Wg Dg. cbn [eval_rule]. unfold gy_of, val_of. rewrite Gy, Vx, Vy. cbn [of_opt res_bind].
  rewrite Dx, Dy.
  assert (Hc : bcompat [O; 1%nat] [B; O; 1%nat]).
  { split; [cbn; lia|]. cbn. constructor; [left; reflexivity|constructor; [left; reflexivity|constructor]]. }
  destruct (bcastBack_char thr draw rd gy [O; 1%nat] [B; O; 1%nat] Wg Dg Hc) as (g & Eg & Dgg & Wgg & Hel).
  exists g. split; [exact Eg|]. split; [exact Dgg|]. split; [exact Wgg|].
  intros o Ho. rewrite (Hel [o; 0%nat]) by (apply validIdx2; lia).
  assert (Ef : bfac rd [O; 1%nat] [B; O; 1%nat] = rdc rd B).
  { unfold bfac. cbn [length Nat.sub firstn skipn redDims rdcs]. rewrite !Nat.eqb_refl. cbn [app rdcs]. ring. }
  rewrite Ef. f_equal. rewrite VjpLinalgP.sumIdx_cons. apply (VjpLinalgP.sumN_ext B). intros bi Hbi.
  rewrite VjpLinalgP.sumIdx_cons.
  rewrite (VjpLinalgP.sumN_ext O _ (fun p => if (p =? o)%nat then elt gy [bi; p; 0%nat] else 0)).
  - apply VjpLinalgP.sumN_single. exact Ho.
  - intros p Hp. rewrite VjpLinalgP.sumIdx_cons. unfold VjpLinalgP.sumN. cbn [seq map fold_right].
    rewrite VjpLinalgP.sumIdx_nil. unfold bproj. cbn [length Nat.sub skipn combine map fst snd Nat.eqb].
    assert (Ep : (if (O =? 1)%nat then 0%nat else p) = p).
    { destruct (Nat.eqb_spec O 1); [lia|reflexivity]. }
    rewrite Ep. destruct (Nat.eqb_spec p o) as [->|Hne].
    + rewrite VjpGatherP.idx_eqb_refl. ring.
    + rewrite VjpGatherP.idx_eqb_neq by congruence. ring.
Qed.

(* ---------- the values stored in the layer's nodes ---------- *)
Lemma fc_values (wv bv xv w1v x1v bwv bxv y1v y2v by2v bbv : T) O B F :
  wf wv -> wf bv -> wf xv -> dims wv = [O] -> dims bv = [O] -> dims xv = [B; F] ->
  v_unsqueeze wv 1%Z = Ok w1v -> v_unsqueeze xv 1%Z = Ok x1v ->
  v_broadcast w1v (map Z.of_nat (mmShape (targetBroadcastDims (dims w1v) (dims x1v)) (dims w1v))) = Ok bwv ->
  v_broadcast x1v (map Z.of_nat (mmShape (targetBroadcastDims (dims w1v) (dims x1v)) (dims x1v))) = Ok bxv ->
  matMul bwv bxv = Some y1v ->
  v_reduceAlong RdSum y1v 2%Z = Ok y2v ->
  v_broadcast y2v (map Z.of_nat (targetBroadcastDims (dims y2v) (dims bv))) = Ok by2v ->
  v_broadcast bv (map Z.of_nat (targetBroadcastDims (dims y2v) (dims bv))) = Ok bbv ->
  dims w1v = [O; 1%nat] /\
  (wf x1v /\ dims x1v = [B; 1%nat; F] /\
   forall bi d, (bi < B)%nat -> (d < F)%nat -> elt x1v [bi; 0%nat; d] = elt xv [bi; d]) /\
  (wf bwv /\ dims bwv = [B; O; 1%nat] /\
   forall bi o, (bi < B)%nat -> (o < O)%nat -> elt bwv [bi; o; 0%nat] = elt wv [o]) /\
  bxv = x1v /\ (wf y1v /\ dims y1v = [B; O; F]) /\ (wf y2v /\ dims y2v = [B; O]) /\ by2v = y2v /\
  dims bbv = [B; O].
Proof.
  intros Ww Wb Wx Dw Db Dx U1 U2 Bw Bx MM RS By Bb.
  (* w1, x1 *)
  pose proof (repr_self wv Ww) as Rw. rewrite Dw in Rw.
  destruct (unsqueeze_repr wv [O] (elt wv) 1 Rw ltac:(cbn; lia)) as (r1 & Er1 & Dw1 & Ww1 & Ew1).
  change (Z.of_nat 1) with 1%Z in Er1. assert (r1 = w1v) by congruence. subst r1.
  cbn [ins firstn skipn app] in Dw1, Ew1.
  pose proof (repr_self xv Wx) as Rx. rewrite Dx in Rx.
  destruct (unsqueeze_repr xv [B; F] (elt xv) 1 Rx ltac:(cbn; lia)) as (r2 & Er2 & Dx1 & Wx1 & Ex1).
  change (Z.of_nat 1) with 1%Z in Er2. assert (r2 = x1v) by congruence. subst r2.
  cbn [ins firstn skipn app] in Dx1, Ex1.
  (* bw, bx *)
  rewrite Dw1, Dx1 in Bw, Bx.
  change (mmShape (targetBroadcastDims [O; 1%nat] [B; 1%nat; F]) [O; 1%nat]) with [B; O; 1%nat] in Bw.
  change (mmShape (targetBroadcastDims [O; 1%nat] [B; 1%nat; F]) [B; 1%nat; F]) with [B; 1%nat; F] in Bx.
  destruct (v_broadcast_ok_inv w1v bwv [B; O; 1%nat] Ww1 Bw) as [(Dbw & Wbw & Gbw) _].
  rewrite <- Dx1 in Bx. rewrite (v_broadcast_id x1v Wx1) in Bx. inversion Bx; subst bxv. clear Bx.
  (* y1 *)
  destruct (matMul_spec bwv x1v [B] O 1 F Wbw Wx1 Dbw Dx1) as (r3 & Er3 & Dy1 & Wy1 & _).
  assert (r3 = y1v) by congruence. subst r3. cbn [app] in Dy1.
  (* y2 *)
  destruct (v_reduceAlong_elems RdSum y1v 2%Z Wy1 ltac:(rewrite Dy1; cbn; lia)) as (r4 & Er4 & Dy2 & Wy2 & _).
  assert (r4 = y2v) by congruence. subst r4.
  change (Z.to_nat 2) with 2%nat in Dy2. rewrite Dy1 in Dy2. cbn [squeezeDims firstn skipn app] in Dy2.
  (* by2, bb *)
  rewrite Dy2, Db in By, Bb.
  assert (Et : targetBroadcastDims [B; O] [O] = [B; O])
    by (unfold targetBroadcastDims; cbn; rewrite Nat.max_id; reflexivity).
  rewrite Et in By, Bb.
  rewrite <- Dy2 in By. rewrite (v_broadcast_id y2v Wy2) in By. inversion By; subst by2v. clear By.
  destruct (v_broadcast_ok_inv bv bbv [B; O] Wb Bb) as [(Dbb & _ & _) _].
  split; [exact Dw1|]. split.
  { split; [exact Wx1|]. split; [exact Dx1|]. intros bi d Hbi Hd.
    rewrite (Ex1 [bi; 0%nat; d]) by (repeat constructor; lia). reflexivity. }
  split.
  { split; [exact Wbw|]. split; [exact Dbw|]. intros bi o Hbi Ho.
    assert (Hv : validIdx [B; O; 1%nat] [bi; o; 0%nat]) by (repeat constructor; lia).
    unfold elt at 1. rewrite (Gbw _ Hv). rewrite Dw1. unfold bproj.
    cbn [length Nat.sub skipn combine map fst snd Nat.eqb].
    assert (Ep : (if (O =? 1)%nat then 0%nat else o) = o) by (destruct (Nat.eqb_spec O 1); [lia|reflexivity]).
    rewrite Ep. fold (elt w1v [o; 0%nat]). rewrite (Ew1 [o; 0%nat]) by (apply validIdx2; lia). reflexivity. }
  split; [reflexivity|]. split; [split; assumption|]. split; [split; assumption|]. split; [reflexivity|exact Dbb].
Qed.

(* ---------- the reshape back edges of the two UnSqueeze calls ---------- *)
Lemma reshape_w_eval rd (hh : heap) y x (xv gy : T) O :
  valOf hh x = Some xv -> gradOf hh y = Some gy -> wf xv -> wf gy -> dims xv = [O] -> dims gy = [O; 1%nat] ->
  exists g, eval_rule rd hh (RReshape y x) = Ok g /\ dims g = [O] /\ wf g /\
    forall o, (o < O)%nat -> elt g [o] = elt gy [o; 0%nat].
Proof.
  intros Vx Gy Wx Wg Dx Dg.
  destruct (vjp_reshape thr draw rd hh y x xv gy Vx Gy Wx Wg) as (g & Eg & Dgg & Wgg & Hel & _).
  { rewrite Dx, Dg. cbn. ring. }
  exists g. split; [exact Eg|]. split; [congruence|]. split; [exact Wgg|].
  intros o Ho. rewrite Dx, Dg in Hel. rewrite (Hel [o]) by (apply validIdx1; exact Ho).
  replace (flatIdx [O] [o]) with (flatIdx [O; 1%nat] [o; 0%nat]) by (cbn; ring).
  rewrite unflatIdx_flatIdx by (apply validIdx2; lia). reflexivity.
Qed.

Lemma reshape_x_eval rd (hh : heap) y x (xv gy : T) B F :
  valOf hh x = Some xv -> gradOf hh y = Some gy -> wf xv -> wf gy ->
  dims xv = [B; F] -> dims gy = [B; 1%nat; F] ->
  exists g, eval_rule rd hh (RReshape y x) = Ok g /\ dims g = [B; F] /\ wf g /\
    forall bi d, (bi < B)%nat -> (d < F)%nat -> elt g [bi; d] = elt gy [bi; 0%nat; d].
Proof.
  intros Vx Gy Wx Wg Dx Dg.
  destruct (vjp_reshape thr draw rd hh y x xv gy Vx Gy Wx Wg) as (g & Eg & Dgg & Wgg & Hel & _).
  { rewrite Dx, Dg. cbn. ring. }
  exists g. split; [exact Eg|]. split; [congruence|]. split; [exact Wgg|].
  intros bi d Hbi Hd. rewrite Dx, Dg in Hel. rewrite (Hel [bi; d]) by (apply validIdx2; lia).
  replace (flatIdx [B; F] [bi; d]) with (flatIdx [B; 1%nat; F] [bi; 0%nat; d]) by (cbn; ring).
  rewrite unflatIdx_flatIdx by (repeat constructor; lia). reflexivity.
Qed.

(* ---------- the nine nodes, one at a time ---------- *)
Section Core.
Variable rd : bred.
Variables (h : heap) (w b x : nat) (name : option nat) (tx : bool).
Variables (wv bv xv w1v x1v bwv y1v y2v bbv yv : T) (O B F : nat).
Local Notation n := (length h).
Local Notation n1 := (S n).
Local Notation n2 := (S (S n)).
Local Notation n3 := (S (S (S n))).
Local Notation n4 := (S (S (S (S n)))).
Local Notation n5 := (S (S (S (S (S n))))).
Local Notation n6 := (S (S (S (S (S (S n)))))).
Local Notation n7 := (S (S (S (S (S (S (S n))))))).
Local Notation n8 := (S (S (S (S (S (S (S (S n)))))))).
Local Notation h1 := (fc_heap h w b x tx w1v x1v bwv x1v y1v y2v y2v bbv yv name).
Hypotheses (Vw : valOf h w = Some wv) (Vb : valOf h b = Some bv) (Vx : valOf h x = Some xv).
Hypotheses (Tw : trackedOf h w = true) (Tb : trackedOf h b = true) (Tx : trackedOf h x = tx).
Hypothesis Nwb : w <> b.
Hypotheses (Ww : wf wv) (Wx : wf xv) (Dw : dims wv = [O]) (Db : dims bv = [O]) (Dx : dims xv = [B; F]).
Hypothesis Dw1 : dims w1v = [O; 1%nat].
Hypotheses (Wx1 : wf x1v) (Dx1 : dims x1v = [B; 1%nat; F])
  (Ex1 : forall bi d, (bi < B)%nat -> (d < F)%nat -> elt x1v [bi; 0%nat; d] = elt xv [bi; d]).
Hypotheses (Wbw : wf bwv) (Dbw : dims bwv = [B; O; 1%nat])
  (Ebw : forall bi o, (bi < B)%nat -> (o < O)%nat -> elt bwv [bi; o; 0%nat] = elt wv [o]).
Hypotheses (Wy1 : wf y1v) (Dy1 : dims y1v = [B; O; F]) (Dy2 : dims y2v = [B; O]) (Dbb : dims bbv = [B; O]).

Lemma Lw : (w < n)%nat.  Proof. eapply valOf_some_lt; eauto. Qed.
Lemma Lb : (b < n)%nat.  Proof. eapply valOf_some_lt; eauto. Qed.
Lemma Lx : (x < n)%nat.  Proof. eapply valOf_some_lt; eauto. Qed.
Lemma Nwx : w <> x.
Proof. intros E. subst x. assert (wv = xv) by congruence. subst xv. rewrite Dw in Dx. discriminate. Qed.
Lemma Nbx : b <> x.
Proof. intros E. subst x. assert (bv = xv) by congruence. subst xv. rewrite Db in Dx. discriminate. Qed.

Lemma L1 : length h1 = S n8.
Proof. unfold fc_heap. rewrite app_length. cbn [length]. lia. Qed.

Lemma old_val i : (i < n)%nat -> valOf h1 i = valOf h i.
Proof. intros Hi. unfold fc_heap. apply valOf_app. exact Hi. Qed.
Lemma old_trk i : (i < n)%nat -> trackedOf h1 i = trackedOf h i.
Proof. intros Hi. unfold fc_heap. apply trackedOf_app. exact Hi. Qed.

Tactic Notation "obs" uconstr(lem) constr(i) constr(k) := unfold fc_heap; at_rw lem i k; reflexivity.

(* y = y2 + b: both operands receive the gradient unchanged *)
Lemma step_y G hh log gy :
  HS h1 G hh -> G n8 = Some gy -> G n6 = None -> G n7 = None ->
  exists hh', process_node rd idseal (hh, log, Ok tt) n8 = (hh', (n8, gy) :: log, Ok tt) /\
              HS h1 (upd (upd G n6 (Some gy)) n7 (Some gy)) hh'.
Proof.
  intros H G8 G6 G7.
  apply (node_run2 rd h1 G hh log n8 gy n6 (RId n8) n7 (RId n8) gy (Some gy) gy (Some gy) H).
  - rewrite L1. lia.
  - exact G8.
  - obs edgesOf_at n8 8%nat.
  - obs trackedOf_at n6 6%nat.
  - lia.
  - reflexivity.
  - obs trackedOf_at n7 7%nat.
  - lia.
  - reflexivity.
  - apply rid_eval. rewrite (HS_grad _ _ _ _ H). exact G8.
  - rewrite G6. reflexivity.
  - apply rid_eval. rewrite (HS_grad _ _ _ _ H). exact G8.
  - rewrite upd_other by lia. rewrite G7. reflexivity.
Qed.

(* the Broadcast of the bias: reduced over the batch *)
Lemma step_bb G hh log g :
  HS h1 G hh -> G n7 = Some g -> wf g -> dims g = [B; O] -> okPrior (G b) [O] ->
  exists hh' s, process_node rd idseal (hh, log, Ok tt) n7 = (hh', (n7, g) :: log, Ok tt) /\
    HS h1 (upd G b (Some s)) hh' /\ dims s = [O] /\ wf s /\
    forall o, (o < O)%nat -> elt s [o] = prior (G b) [o] + rdc rd B * SumN B (fun bi => elt g [bi; o]).
Proof.
  intros H G7 Wg Dg Pb. pose proof Lb as Lb.
  destruct (bcast_bias_eval rd hh n7 b bv bbv g O B) as (gb & Egb & Dgb & Wgb & Hgb); try assumption.
  { rewrite (HS_val _ _ _ _ H), old_val by exact Lb. exact Vb. }
  { rewrite (HS_val _ _ _ _ H). obs valOf_at n7 7%nat. }
  { rewrite (HS_grad _ _ _ _ H). exact G7. }
  destruct (acc1_R (G b) gb [O] Pb Wgb Dgb) as (s & Es & Ds & Ws & Hs).
  destruct (node_run1 rd h1 G hh log n7 g b (RBroadcast n7 b) gb (Some s) H) as (hh' & E & H'); try assumption.
  { rewrite L1. lia. }
  { obs edgesOf_at n7 7%nat. }
  { rewrite old_trk by exact Lb. exact Tb. }
  { lia. }
  { reflexivity. }
  exists hh', s. split; [exact E|]. split; [exact H'|]. split; [exact Ds|]. split; [exact Ws|].
  intros o Ho. rewrite (Hs [o]) by (apply validIdx1; exact Ho). rewrite (Hgb o Ho). reflexivity.
Qed.

(* the Broadcast of y2 to its own shape *)
Lemma step_by2 G hh log g :
  HS h1 G hh -> G n6 = Some g -> G n5 = None ->
  exists hh', process_node rd idseal (hh, log, Ok tt) n6 = (hh', (n6, g) :: log, Ok tt) /\
              HS h1 (upd G n5 (Some g)) hh'.
Proof.
  intros H G6 G5.
  apply (node_run1 rd h1 G hh log n6 g n5 (RBroadcast n6 n5) g (Some g) H).
  - rewrite L1. lia.
  - exact G6.
  - obs edgesOf_at n6 6%nat.
  - obs trackedOf_at n5 5%nat.
  - lia.
  - reflexivity.
  - apply (rbroadcast_same rd hh n6 n5 y2v y2v g).
    + rewrite (HS_val _ _ _ _ H). obs valOf_at n6 6%nat.
    + rewrite (HS_val _ _ _ _ H). obs valOf_at n5 5%nat.
    + rewrite (HS_grad _ _ _ _ H). exact G6.
    + reflexivity.
  - rewrite G5. reflexivity.
Qed.

(* SumAlong(2): the gradient is repeated along the reduced dimension *)
Lemma step_y2 G hh log g :
  HS h1 G hh -> G n5 = Some g -> wf g -> dims g = [B; O] -> G n4 = None ->
  exists hh' g4, process_node rd idseal (hh, log, Ok tt) n5 = (hh', (n5, g) :: log, Ok tt) /\
    HS h1 (upd G n4 (Some g4)) hh' /\ dims g4 = [B; O; F] /\ wf g4 /\
    forall bi o d, (bi < B)%nat -> (o < O)%nat -> (d < F)%nat -> elt g4 [bi; o; d] = elt g [bi; o].
Proof.
  intros H G5 Wg Dg G4.
  destruct (rsum_eval thr draw rd hh n5 n4 2 y1v g) as (g4 & E4 & D4 & W4 & H4); try assumption.
  { rewrite (HS_val _ _ _ _ H). obs valOf_at n4 4%nat. }
  { rewrite (HS_grad _ _ _ _ H). exact G5. }
  { rewrite Dy1. cbn. lia. }
  { rewrite Dy1, Dg. reflexivity. }
  change (Z.of_nat 2) with 2%Z in E4.
  destruct (node_run1 rd h1 G hh log n5 g n4 (RSumAlong n5 n4 2%Z) g4 (Some g4) H) as (hh' & E & H'); try assumption.
  { rewrite L1. lia. }
  { obs edgesOf_at n5 5%nat. }
  { obs trackedOf_at n4 4%nat. }
  { lia. }
  { reflexivity. }
  { rewrite G4. reflexivity. }
  exists hh', g4. split; [exact E|]. split; [exact H'|]. split; [congruence|]. split; [exact W4|].
  intros bi o d Hbi Ho Hd. rewrite Dy1 in H4. rewrite (H4 [bi; o; d]) by (repeat constructor; lia). reflexivity.
Qed.

(* MatMul, first operand (the broadcast weight): gy.MatMul(bx^T) *)
Lemma matmul_a_eval hh g4 :
  valOf hh n3 = Some x1v -> gradOf hh n4 = Some g4 -> wf g4 -> dims g4 = [B; O; F] ->
  exists gA, eval_rule rd hh (RMatMulA n4 n3) = Ok gA /\ dims gA = [B; O; 1%nat] /\ wf gA /\
    forall bi o, (bi < B)%nat -> (o < O)%nat ->
      elt gA [bi; o; 0%nat] = SumN F (fun d => elt g4 [bi; o; d] * elt xv [bi; d]).
Proof.
  intros V3 G4 W4 D4.
  destruct (rmatmula_eval thr draw rd hh n4 n3 x1v g4 [B] O 1 F V3 G4 Wx1 W4 Dx1 D4) as (gA & EA & DA & WA & HA).
  exists gA. split; [exact EA|]. split; [exact DA|]. split; [exact WA|].
  intros bi o Hbi Ho. pose proof (HA [bi] o 0%nat ltac:(apply validIdx1; exact Hbi) Ho ltac:(lia)) as E.
  cbn [app] in E. rewrite E. apply (VjpLinalgP.sumN_ext F). intros d Hd. rewrite (Ex1 bi d Hbi Hd). reflexivity.
Qed.

(* MatMul, second operand (the broadcast input): bw^T.MatMul(gy) *)
Lemma matmul_b_eval hh g4 :
  valOf hh n2 = Some bwv -> gradOf hh n4 = Some g4 -> wf g4 -> dims g4 = [B; O; F] ->
  exists gB, eval_rule rd hh (RMatMulB n4 n2) = Ok gB /\ dims gB = [B; 1%nat; F] /\ wf gB /\
    forall bi d, (bi < B)%nat -> (d < F)%nat ->
      elt gB [bi; 0%nat; d] = SumN O (fun o => elt wv [o] * elt g4 [bi; o; d]).
Proof.
  intros V2 G4 W4 D4.
  destruct (rmatmulb_eval thr draw rd hh n4 n2 bwv g4 [B] O 1 F V2 G4 Wbw W4 Dbw D4) as (gB & EB & DB & WB & HB).
  exists gB. split; [exact EB|]. split; [exact DB|]. split; [exact WB|].
  intros bi d Hbi Hd. pose proof (HB [bi] 0%nat d ltac:(apply validIdx1; exact Hbi) ltac:(lia) Hd) as E.
  cbn [app] in E. rewrite E. apply (VjpLinalgP.sumN_ext O). intros o Ho. rewrite (Ebw bi o Hbi Ho). reflexivity.
Qed.

Lemma step_y1_t G hh log g4 : tx = true ->
  HS h1 G hh -> G n4 = Some g4 -> wf g4 -> dims g4 = [B; O; F] -> G n2 = None -> G n3 = None ->
  exists hh' gA gB, process_node rd idseal (hh, log, Ok tt) n4 = (hh', (n4, g4) :: log, Ok tt) /\
    HS h1 (upd (upd G n2 (Some gA)) n3 (Some gB)) hh' /\
    dims gA = [B; O; 1%nat] /\ wf gA /\
    (forall bi o, (bi < B)%nat -> (o < O)%nat ->
       elt gA [bi; o; 0%nat] = SumN F (fun d => elt g4 [bi; o; d] * elt xv [bi; d])) /\
    dims gB = [B; 1%nat; F] /\ wf gB /\
    (forall bi d, (bi < B)%nat -> (d < F)%nat ->
       elt gB [bi; 0%nat; d] = SumN O (fun o => elt wv [o] * elt g4 [bi; o; d])).
Proof.
  intros Et H G4 W4 D4 G2 G3.
  assert (Gh : gradOf hh n4 = Some g4) by (rewrite (HS_grad _ _ _ _ H); exact G4).
  destruct (matmul_a_eval hh g4) as (gA & EA & DA & WA & HA); try assumption.
  { rewrite (HS_val _ _ _ _ H). obs valOf_at n3 3%nat. }
  destruct (matmul_b_eval hh g4) as (gB & EB & DB & WB & HB); try assumption.
  { rewrite (HS_val _ _ _ _ H). obs valOf_at n2 2%nat. }
  destruct (node_run2 rd h1 G hh log n4 g4 n2 (RMatMulA n4 n3) n3 (RMatMulB n4 n2) gA (Some gA) gB (Some gB) H)
    as (hh' & E & H'); try assumption.
  { rewrite L1. lia. }
  { obs edgesOf_at n4 4%nat. }
  { obs trackedOf_at n2 2%nat. }
  { lia. }
  { reflexivity. }
  { unfold fc_heap. at_rw trackedOf_at n3 3%nat. exact Et. }
  { lia. }
  { reflexivity. }
  { rewrite G2. reflexivity. }
  { rewrite upd_other by lia. rewrite G3. reflexivity. }
  exists hh', gA, gB. repeat (split; [assumption|]). assumption.
Qed.

Lemma step_y1_u G hh log g4 : tx = false ->
  HS h1 G hh -> G n4 = Some g4 -> wf g4 -> dims g4 = [B; O; F] -> G n2 = None ->
  exists hh' gA, process_node rd idseal (hh, log, Ok tt) n4 = (hh', (n4, g4) :: log, Ok tt) /\
    HS h1 (upd G n2 (Some gA)) hh' /\
    dims gA = [B; O; 1%nat] /\ wf gA /\
    (forall bi o, (bi < B)%nat -> (o < O)%nat ->
       elt gA [bi; o; 0%nat] = SumN F (fun d => elt g4 [bi; o; d] * elt xv [bi; d])).
Proof.
  intros Et H G4 W4 D4 G2.
  assert (Gh : gradOf hh n4 = Some g4) by (rewrite (HS_grad _ _ _ _ H); exact G4).
  destruct (matmul_a_eval hh g4) as (gA & EA & DA & WA & HA); try assumption.
  { rewrite (HS_val _ _ _ _ H). obs valOf_at n3 3%nat. }
  destruct (node_run2u rd h1 G hh log n4 g4 n2 (RMatMulA n4 n3) n3 (RMatMulB n4 n2) gA (Some gA) H)
    as (hh' & E & H'); try assumption.
  { rewrite L1. lia. }
  { obs edgesOf_at n4 4%nat. }
  { obs trackedOf_at n2 2%nat. }
  { lia. }
  { reflexivity. }
  { unfold fc_heap. at_rw trackedOf_at n3 3%nat. exact Et. }
  { rewrite G2. reflexivity. }
  exists hh', gA. repeat (split; [assumption|]). assumption.
Qed.

(* the Broadcast of x1 to its own shape (only if the input is tracked) *)
Lemma step_bx_t G hh log g : tx = true ->
  HS h1 G hh -> G n3 = Some g -> G n1 = None ->
  exists hh', process_node rd idseal (hh, log, Ok tt) n3 = (hh', (n3, g) :: log, Ok tt) /\
              HS h1 (upd G n1 (Some g)) hh'.
Proof.
  intros Et H G3 G1.
  apply (node_run1 rd h1 G hh log n3 g n1 (RBroadcast n3 n1) g (Some g) H).
  - rewrite L1. lia.
  - exact G3.
  - unfold fc_heap. at_rw edgesOf_at n3 3%nat. rewrite Et. reflexivity.
  - unfold fc_heap. at_rw trackedOf_at n1 1%nat. exact Et.
  - lia.
  - reflexivity.
  - apply (rbroadcast_same rd hh n3 n1 x1v x1v g).
    + rewrite (HS_val _ _ _ _ H). obs valOf_at n3 3%nat.
    + rewrite (HS_val _ _ _ _ H). obs valOf_at n1 1%nat.
    + rewrite (HS_grad _ _ _ _ H). exact G3.
    + reflexivity.
  - rewrite G1. reflexivity.
Qed.

(* the Broadcast of w1 = W.UnSqueeze(1): reduced over the batch *)
Lemma step_bw G hh log g :
  HS h1 G hh -> G n2 = Some g -> wf g -> dims g = [B; O; 1%nat] -> G n = None ->
  exists hh' gw1, process_node rd idseal (hh, log, Ok tt) n2 = (hh', (n2, g) :: log, Ok tt) /\
    HS h1 (upd G n (Some gw1)) hh' /\ dims gw1 = [O; 1%nat] /\ wf gw1 /\
    forall o, (o < O)%nat -> elt gw1 [o; 0%nat] = rdc rd B * SumN B (fun bi => elt g [bi; o; 0%nat]).
Proof.
  intros H G2 Wg Dg G0.
  destruct (bcast_weight_eval rd hh n2 n w1v bwv g O B) as (gw1 & Eg & Dg1 & Wg1 & Hg1); try assumption.
  { rewrite (HS_val _ _ _ _ H). obs valOf_at n 0%nat. }
  { rewrite (HS_val _ _ _ _ H). obs valOf_at n2 2%nat. }
  { rewrite (HS_grad _ _ _ _ H). exact G2. }
  destruct (node_run1 rd h1 G hh log n2 g n (RBroadcast n2 n) gw1 (Some gw1) H) as (hh' & E & H'); try assumption.
  { rewrite L1. lia. }
  { obs edgesOf_at n2 2%nat. }
  { obs trackedOf_at n 0%nat. }
  { lia. }
  { reflexivity. }
  { rewrite G0. reflexivity. }
  exists hh', gw1. repeat (split; [assumption|]). assumption.
Qed.

(* x1 = x.UnSqueeze(1): reshape back to [B;F] and accumulate on x (only if the input is tracked) *)
Lemma step_x1_t G hh log g : tx = true ->
  HS h1 G hh -> G n1 = Some g -> wf g -> dims g = [B; 1%nat; F] -> okPrior (G x) [B; F] ->
  exists hh' s, process_node rd idseal (hh, log, Ok tt) n1 = (hh', (n1, g) :: log, Ok tt) /\
    HS h1 (upd G x (Some s)) hh' /\ dims s = [B; F] /\ wf s /\
    forall bi d, (bi < B)%nat -> (d < F)%nat -> elt s [bi; d] = prior (G x) [bi; d] + elt g [bi; 0%nat; d].
Proof.
  intros Et H G1 Wg Dg Px. pose proof Lx as Lx.
  destruct (reshape_x_eval rd hh n1 x xv g B F) as (gx & Egx & Dgx & Wgx & Hgx); try assumption.
  { rewrite (HS_val _ _ _ _ H), old_val by exact Lx. exact Vx. }
  { rewrite (HS_grad _ _ _ _ H). exact G1. }
  destruct (acc1_R (G x) gx [B; F] Px Wgx Dgx) as (s & Es & Ds & Ws & Hs).
  destruct (node_run1 rd h1 G hh log n1 g x (RReshape n1 x) gx (Some s) H) as (hh' & E & H'); try assumption.
  { rewrite L1. lia. }
  { unfold fc_heap. at_rw edgesOf_at n1 1%nat. rewrite Et. reflexivity. }
  { rewrite old_trk by exact Lx. rewrite Tx. exact Et. }
  { lia. }
  { reflexivity. }
  exists hh', s. split; [exact E|]. split; [exact H'|]. split; [exact Ds|]. split; [exact Ws|].
  intros bi d Hbi Hd. rewrite (Hs [bi; d]) by (apply validIdx2; lia). rewrite (Hgx bi d Hbi Hd). reflexivity.
Qed.

(* w1 = W.UnSqueeze(1): reshape back to [O] and accumulate on W *)
Lemma step_w1 G hh log g :
  HS h1 G hh -> G n = Some g -> wf g -> dims g = [O; 1%nat] -> okPrior (G w) [O] ->
  exists hh' s, process_node rd idseal (hh, log, Ok tt) n = (hh', (n, g) :: log, Ok tt) /\
    HS h1 (upd G w (Some s)) hh' /\ dims s = [O] /\ wf s /\
    forall o, (o < O)%nat -> elt s [o] = prior (G w) [o] + elt g [o; 0%nat].
Proof.
  intros H G0 Wg Dg Pw. pose proof Lw as Lw.
  destruct (reshape_w_eval rd hh n w wv g O) as (gw & Egw & Dgw & Wgw & Hgw); try assumption.
  { rewrite (HS_val _ _ _ _ H), old_val by exact Lw. exact Vw. }
  { rewrite (HS_grad _ _ _ _ H). exact G0. }
  destruct (acc1_R (G w) gw [O] Pw Wgw Dgw) as (s & Es & Ds & Ws & Hs).
  destruct (node_run1 rd h1 G hh log n g w (RReshape n w) gw (Some s) H) as (hh' & E & H'); try assumption.
  { rewrite L1. lia. }
  { obs edgesOf_at n 0%nat. }
  { rewrite old_trk by exact Lw. exact Tw. }
  { lia. }
  { reflexivity. }
  exists hh', s. split; [exact E|]. split; [exact H'|]. split; [exact Ds|]. split; [exact Ws|].
  intros o Ho. rewrite (Hs [o]) by (apply validIdx1; exact Ho). rewrite (Hgw o Ho). reflexivity.
Qed.

(* sums *)
Lemma SumN_ext m f g : (forall k, (k < m)%nat -> f k = g k) -> SumN m f = SumN m g.
Proof. apply (VjpLinalgP.sumN_ext m). Qed.
Lemma SumN_scal m c f : SumN m (fun k => c * f k) = c * SumN m f.
Proof. apply (VjpLinalgP.sumN_scal m). Qed.

Local Notation order := [n8; n7; n6; n5; n4; n3; n2; n1; n].

(* ---------- all nine nodes ---------- *)
Theorem fc_core (hh : heap) log gy :
  sameS h1 hh -> gradOf hh n8 = Some gy -> wf gy -> dims gy = [B; O] ->
  (forall k, (k < 8)%nat -> gradOf hh (n + k) = None) ->
  okPrior (gradOf hh w) [O] -> okPrior (gradOf hh b) [O] -> okPrior (gradOf hh x) [B; F] ->
  exists hh' log',
    fold_left (process_node rd idseal) order (hh, log, Ok tt) = (hh', log', Ok tt) /\
    sameS hh hh' /\
    (forall k, (k < n)%nat -> k <> w -> k <> b -> k <> x -> gradOf hh' k = gradOf hh k) /\
    (exists gw, gradOf hh' w = Some gw /\ dims gw = [O] /\ wf gw /\
       forall o, (o < O)%nat ->
         elt gw [o] = prior (gradOf hh w) [o] +
                      rdc rd B * SumN B (fun bi => elt gy [bi; o] * SumN F (fun d => elt xv [bi; d]))) /\
    (exists gb, gradOf hh' b = Some gb /\ dims gb = [O] /\ wf gb /\
       forall o, (o < O)%nat ->
         elt gb [o] = prior (gradOf hh b) [o] + rdc rd B * SumN B (fun bi => elt gy [bi; o])) /\
    (if tx
     then exists gx, gradOf hh' x = Some gx /\ dims gx = [B; F] /\ wf gx /\
            forall bi d, (bi < B)%nat -> (d < F)%nat ->
              elt gx [bi; d] = prior (gradOf hh x) [bi; d] + SumN O (fun o => elt gy [bi; o] * elt wv [o])
     else gradOf hh' x = gradOf hh x).
Proof.
  intros HSm Gy Wgy Dgy Gint Pw Pb Px.
  pose proof Lw as Lw. pose proof Lb as Lb. pose proof Lx as Lx. pose proof Nwx as Nwx. pose proof Nbx as Nbx.
  set (G0 := gradOf hh) in *.
  assert (H0 : HS h1 G0 hh) by (apply HS_init; exact HSm).
  assert (I0 : G0 n = None) by (rewrite <- (Gint 0%nat) by lia; unfold G0; f_equal; lia).
  assert (I1 : G0 n1 = None) by (rewrite <- (Gint 1%nat) by lia; unfold G0; f_equal; lia).
  assert (I2 : G0 n2 = None) by (rewrite <- (Gint 2%nat) by lia; unfold G0; f_equal; lia).
  assert (I3 : G0 n3 = None) by (rewrite <- (Gint 3%nat) by lia; unfold G0; f_equal; lia).
  assert (I4 : G0 n4 = None) by (rewrite <- (Gint 4%nat) by lia; unfold G0; f_equal; lia).
  assert (I5 : G0 n5 = None) by (rewrite <- (Gint 5%nat) by lia; unfold G0; f_equal; lia).
  assert (I6 : G0 n6 = None) by (rewrite <- (Gint 6%nat) by lia; unfold G0; f_equal; lia).
  assert (I7 : G0 n7 = None) by (rewrite <- (Gint 7%nat) by lia; unfold G0; f_equal; lia).
  (* y *)
  destruct (step_y G0 hh log gy H0 Gy I6 I7) as (hh8 & E8 & H8).
  (* bb *)
  destruct (step_bb _ hh8 ((n8, gy) :: log) gy H8) as (hh7 & sb & E7 & H7 & Dsb & Wsb & Hsb);
    [rewrite upd_same; reflexivity|exact Wgy|exact Dgy|rewrite !upd_other by lia; exact Pb|].
  rewrite !upd_other in Hsb by lia.
  (* by2 *)
  destruct (step_by2 _ hh7 ((n7, gy) :: (n8, gy) :: log) gy H7) as (hh6 & E6 & H6);
    [rewrite upd_other by lia; rewrite upd_other by lia; apply upd_same|rewrite !upd_other by lia; exact I5|].
  (* y2 *)
  destruct (step_y2 _ hh6 ((n6, gy) :: (n7, gy) :: (n8, gy) :: log) gy H6) as (hh5 & g4 & E5 & H5 & D4 & W4 & Hg4);
    [apply upd_same|exact Wgy|exact Dgy|rewrite !upd_other by lia; exact I4|].
  set (log5 := (n5, gy) :: (n6, gy) :: (n7, gy) :: (n8, gy) :: log) in *.
  (* the element formulas in terms of gy *)
  assert (FA : forall gA : T,
    (forall bi o, (bi < B)%nat -> (o < O)%nat -> elt gA [bi; o; 0%nat] = SumN F (fun d => elt g4 [bi; o; d] * elt xv [bi; d])) ->
    forall o, (o < O)%nat ->
      SumN B (fun bi => elt gA [bi; o; 0%nat]) = SumN B (fun bi => elt gy [bi; o] * SumN F (fun d => elt xv [bi; d]))).
  { intros gA HA o Ho. apply SumN_ext. intros bi Hbi. rewrite (HA bi o Hbi Ho). rewrite <- SumN_scal.
    apply SumN_ext. intros d Hd. rewrite (Hg4 bi o d Hbi Ho Hd). reflexivity. }
  assert (FB : forall gB : T,
    (forall bi d, (bi < B)%nat -> (d < F)%nat -> elt gB [bi; 0%nat; d] = SumN O (fun o => elt wv [o] * elt g4 [bi; o; d])) ->
    forall bi d, (bi < B)%nat -> (d < F)%nat ->
      elt gB [bi; 0%nat; d] = SumN O (fun o => elt gy [bi; o] * elt wv [o])).
  { intros gB HB bi d Hbi Hd. rewrite (HB bi d Hbi Hd). apply SumN_ext. intros o Ho.
    rewrite (Hg4 bi o d Hbi Ho Hd). ring. }
  assert (Ctx : tx = true \/ tx = false) by (clear; destruct tx; auto).
  destruct Ctx as [Etx|Etx]; rewrite Etx.
  - (* the input is tracked *)
    destruct (step_y1_t _ hh5 log5 g4 Etx H5) as (hh4 & gA & gB & E4 & H4 & DA & WA & HA & DB & WB & HB);
      [apply upd_same|exact W4|exact D4|rewrite !upd_other by lia; exact I2|rewrite !upd_other by lia; exact I3|].
    destruct (step_bx_t _ hh4 ((n4, g4) :: log5) gB Etx H4) as (hh3 & E3 & H3);
      [apply upd_same|rewrite !upd_other by lia; exact I1|].
    destruct (step_bw _ hh3 ((n3, gB) :: (n4, g4) :: log5) gA H3) as (hh2 & gw1 & E2 & H2 & Dw1' & Ww1' & Hw1');
      [rewrite !upd_other by lia; apply upd_same|exact WA|exact DA|rewrite !upd_other by lia; exact I0|].
    destruct (step_x1_t _ hh2 ((n2, gA) :: (n3, gB) :: (n4, g4) :: log5) gB Etx H2)
      as (hh1 & sx & E1 & H1 & Dsx & Wsx & Hsx);
      [rewrite !upd_other by lia; apply upd_same|exact WB|exact DB|rewrite !upd_other by lia; exact Px|].
    rewrite !upd_other in Hsx by lia.
    destruct (step_w1 _ hh1 ((n1, gB) :: (n2, gA) :: (n3, gB) :: (n4, g4) :: log5) gw1 H1)
      as (hhf & sw & E0 & Hf & Dsw & Wsw & Hsw);
      [rewrite !upd_other by lia; apply upd_same|exact Ww1'|exact Dw1'|rewrite !upd_other by lia; exact Pw|].
    rewrite !upd_other in Hsw by lia.
    exists hhf. eexists. split.
    { cbn [fold_left]. rewrite E8, E7, E6, E5, E4, E3, E2, E1, E0. reflexivity. }
    split; [eapply sameS_trans; [apply sameS_sym; exact HSm|exact (proj1 Hf)]|].
    split.
    { intros k Hk N1 N2 N3. rewrite (HS_grad _ _ _ _ Hf). rewrite !upd_other by lia. reflexivity. }
    split.
    { exists sw. split; [rewrite (HS_grad _ _ _ _ Hf); apply upd_same|]. split; [exact Dsw|]. split; [exact Wsw|].
      intros o Ho. rewrite (Hsw o Ho), (Hw1' o Ho), (FA gA HA o Ho). reflexivity. }
    split.
    { exists sb. split; [rewrite (HS_grad _ _ _ _ Hf); rewrite !upd_other by lia; apply upd_same|].
      split; [exact Dsb|]. split; [exact Wsb|]. exact Hsb. }
    exists sx. split; [rewrite (HS_grad _ _ _ _ Hf); rewrite upd_other by lia; apply upd_same|].
    split; [exact Dsx|]. split; [exact Wsx|].
    intros bi d Hbi Hd. rewrite (Hsx bi d Hbi Hd), (FB gB HB bi d Hbi Hd). reflexivity.
  - (* the input is not tracked: the edges to bx and x are skipped *)
    destruct (step_y1_u _ hh5 log5 g4 Etx H5) as (hh4 & gA & E4 & H4 & DA & WA & HA);
      [apply upd_same|exact W4|exact D4|rewrite !upd_other by lia; exact I2|].
    assert (E3 : process_node rd idseal (hh4, (n4, g4) :: log5, Ok tt) n3 = (hh4, (n4, g4) :: log5, Ok tt)).
    { apply (node_skip rd h1 _ hh4 _ n3 H4); [rewrite L1; lia|rewrite !upd_other by lia; exact I3]. }
    destruct (step_bw _ hh4 ((n4, g4) :: log5) gA H4) as (hh2 & gw1 & E2 & H2 & Dw1' & Ww1' & Hw1');
      [apply upd_same|exact WA|exact DA|rewrite !upd_other by lia; exact I0|].
    assert (E1 : process_node rd idseal (hh2, (n2, gA) :: (n4, g4) :: log5, Ok tt) n1 =
                 (hh2, (n2, gA) :: (n4, g4) :: log5, Ok tt)).
    { apply (node_skip rd h1 _ hh2 _ n1 H2); [rewrite L1; lia|rewrite !upd_other by lia; exact I1]. }
    destruct (step_w1 _ hh2 ((n2, gA) :: (n4, g4) :: log5) gw1 H2)
      as (hhf & sw & E0 & Hf & Dsw & Wsw & Hsw);
      [apply upd_same|exact Ww1'|exact Dw1'|rewrite !upd_other by lia; exact Pw|].
    rewrite !upd_other in Hsw by lia.
    exists hhf. eexists. split.
    { cbn [fold_left]. rewrite E8, E7, E6, E5, E4, E3, E2, E1, E0. reflexivity. }
    split; [eapply sameS_trans; [apply sameS_sym; exact HSm|exact (proj1 Hf)]|].
    split.
    { intros k Hk N1 N2 N3. rewrite (HS_grad _ _ _ _ Hf). rewrite !upd_other by lia. reflexivity. }
    split.
    { exists sw. split; [rewrite (HS_grad _ _ _ _ Hf); apply upd_same|]. split; [exact Dsw|]. split; [exact Wsw|].
      intros o Ho. rewrite (Hsw o Ho), (Hw1' o Ho), (FA gA HA o Ho). reflexivity. }
    split.
    { exists sb. split; [rewrite (HS_grad _ _ _ _ Hf); rewrite !upd_other by lia; apply upd_same|].
      split; [exact Dsb|]. split; [exact Wsb|]. exact Hsb. }
    rewrite (HS_grad _ _ _ _ Hf). rewrite !upd_other by lia. reflexivity.
Qed.

End Core.

(* ===================================================================================== *)
(* MAIN THEOREM                                                                            *)
(* ===================================================================================== *)
(* [rev (seq (length h) 9)]: the nine nodes of the layer, result first, in decreasing id order *)
Theorem fc_backward rd (h : heap) w b x name (wv bv xv : T) O B F h1 y (hh : heap) log gy :
  (* the layer's operands *)
  valOf h w = Some wv -> valOf h b = Some bv -> valOf h x = Some xv ->
  wf wv -> wf bv -> wf xv -> dims wv = [O] -> dims bv = [O] -> dims xv = [B; F] ->
  trackedOf h w = true -> dirtyOf h w = false -> trackedOf h b = true -> dirtyOf h b = false ->
  dirtyOf h x = false -> w <> b ->
  (* the forward call *)
  fc_forward h w b [Some x] name = (h1, Ok y) ->
  (* an upstream gradient has reached y; the internal nodes hold none; arbitrary priors on w, b, x *)
  sameS h1 hh -> gradOf hh y = Some gy -> wf gy -> dims gy = [B; O] ->
  (forall i, (length h <= i < y)%nat -> gradOf hh i = None) ->
  okPrior (gradOf hh w) [O] -> okPrior (gradOf hh b) [O] -> okPrior (gradOf hh x) [B; F] ->
  y = (length h + 8)%nat /\ length h1 = (length h + 9)%nat /\
  exists hh' log',
    fold_left (process_node rd idseal) (rev (seq (length h) 9)) (hh, log, Ok tt) = (hh', log', Ok tt) /\
    sameS hh hh' /\
    (forall k, (k < length h)%nat -> k <> w -> k <> b -> k <> x -> gradOf hh' k = gradOf hh k) /\
    (exists gw, gradOf hh' w = Some gw /\ dims gw = [O] /\ wf gw /\
       forall o, (o < O)%nat ->
         elt gw [o] = prior (gradOf hh w) [o] +
                      rdc rd B * SumN B (fun bi => elt gy [bi; o] * SumN F (fun d => elt xv [bi; d]))) /\
    (exists gb, gradOf hh' b = Some gb /\ dims gb = [O] /\ wf gb /\
       forall o, (o < O)%nat ->
         elt gb [o] = prior (gradOf hh b) [o] + rdc rd B * SumN B (fun bi => elt gy [bi; o])) /\
    (if trackedOf h x
     then exists gx, gradOf hh' x = Some gx /\ dims gx = [B; F] /\ wf gx /\
            forall bi d, (bi < B)%nat -> (d < F)%nat ->
              elt gx [bi; d] = prior (gradOf hh x) [bi; d] + SumN O (fun o => elt gy [bi; o] * elt wv [o])
     else gradOf hh' x = gradOf hh x).
Proof.
  intros Vw Vb Vx Ww Wb Wx Dw Db Dx Tw Dtw Tb Dtb Dtx Nwb E HSm Gy Wgy Dgy Gint Pw Pb Px.
  destruct (fc_structure h w b x name wv bv xv h1 y Vw Vb Vx Tw Dtw Tb Dtb Dtx E)
    as (w1v & x1v & bwv & bxv & y1v & y2v & by2v & bbv & yv & U1 & U2 & Bw & Bx & MM & RS & By & Bb & AD & Ey & Eh).
  destruct (fc_values wv bv xv w1v x1v bwv bxv y1v y2v by2v bbv O B F Ww Wb Wx Dw Db Dx U1 U2 Bw Bx MM RS By Bb)
    as (Dw1 & (Wx1 & Dx1 & Ex1) & (Wbw & Dbw & Ebw) & Ebx & (Wy1 & Dy1) & (Wy2 & Dy2) & Eby & Dbb).
  subst bxv by2v y h1.
  split; [lia|]. split; [unfold fc_heap; rewrite app_length; cbn [length]; lia|].
  cbn [seq rev app].
  apply (fc_core rd h w b x name (trackedOf h x) wv bv xv w1v x1v bwv y1v y2v bbv yv O B F); try assumption.
  - reflexivity.
  - intros k Hk. apply Gint. lia.
Qed.

(* ---------- the three gradients, each on its own, in both variants ---------- *)

(* the hypotheses of [fc_backward], bundled *)
Definition fc_setting (h : heap) w b x name (wv bv xv : T) O B F h1 y (hh : heap) (gy : T) : Prop :=
  valOf h w = Some wv /\ valOf h b = Some bv /\ valOf h x = Some xv /\
  wf wv /\ wf bv /\ wf xv /\ dims wv = [O] /\ dims bv = [O] /\ dims xv = [B; F] /\
  trackedOf h w = true /\ dirtyOf h w = false /\ trackedOf h b = true /\ dirtyOf h b = false /\
  dirtyOf h x = false /\ w <> b /\
  fc_forward h w b [Some x] name = (h1, Ok y) /\
  sameS h1 hh /\ gradOf hh y = Some gy /\ wf gy /\ dims gy = [B; O] /\
  (forall i, (length h <= i < y)%nat -> gradOf hh i = None) /\
  okPrior (gradOf hh w) [O] /\ okPrior (gradOf hh b) [O] /\ okPrior (gradOf hh x) [B; F].

Lemma fc_setting_run rd h w b x name wv bv xv O B F h1 y hh gy log :
  fc_setting h w b x name wv bv xv O B F h1 y hh gy ->
  exists hh' log',
    fold_left (process_node rd idseal) (rev (seq (length h) 9)) (hh, log, Ok tt) = (hh', log', Ok tt) /\
    sameS hh hh' /\
    (forall k, (k < length h)%nat -> k <> w -> k <> b -> k <> x -> gradOf hh' k = gradOf hh k) /\
    (exists gw, gradOf hh' w = Some gw /\ dims gw = [O] /\ wf gw /\
       forall o, (o < O)%nat ->
         elt gw [o] = prior (gradOf hh w) [o] +
                      rdc rd B * SumN B (fun bi => elt gy [bi; o] * SumN F (fun d => elt xv [bi; d]))) /\
    (exists gb, gradOf hh' b = Some gb /\ dims gb = [O] /\ wf gb /\
       forall o, (o < O)%nat ->
         elt gb [o] = prior (gradOf hh b) [o] + rdc rd B * SumN B (fun bi => elt gy [bi; o])) /\
    (if trackedOf h x
     then exists gx, gradOf hh' x = Some gx /\ dims gx = [B; F] /\ wf gx /\
            forall bi d, (bi < B)%nat -> (d < F)%nat ->
              elt gx [bi; d] = prior (gradOf hh x) [bi; d] + SumN O (fun o => elt gy [bi; o] * elt wv [o])
     else gradOf hh' x = gradOf hh x).
Proof.
  intros (a1 & a2 & a3 & a4 & a5 & a6 & a7 & a8 & a9 & a10 & a11 & a12 & a13 & a14 & a15 & a16 & a17 & a18 & a19 &
          a20 & a21 & a22 & a23 & a24).
  exact (proj2 (proj2 (fc_backward rd h w b x name wv bv xv O B F h1 y hh log gy
    a1 a2 a3 a4 a5 a6 a7 a8 a9 a10 a11 a12 a13 a14 a15 a16 a17 a18 a19 a20 a21 a22 a23 a24))).
Qed.

(* dB[o] = Σ_b gy[b][o]   (pinned library: divided by the batch size) *)
Theorem fc_grad_B rd h w b x name wv bv xv O B F h1 y hh gy log :
  fc_setting h w b x name wv bv xv O B F h1 y hh gy ->
  exists hh' log' gb,
    fold_left (process_node rd idseal) (rev (seq (length h) 9)) (hh, log, Ok tt) = (hh', log', Ok tt) /\
    gradOf hh' b = Some gb /\ dims gb = [O] /\ wf gb /\
    forall o, (o < O)%nat ->
      elt gb [o] = prior (gradOf hh b) [o] +
                   match rd with
                   | RedSum => SumN B (fun bi => elt gy [bi; o])
                   | RedAvg => SumN B (fun bi => elt gy [bi; o]) / INR B
                   end.
Proof.
  intros S. destruct (fc_setting_run rd _ _ _ _ _ _ _ _ _ _ _ _ _ _ _ log S)
    as (hh' & log' & E & _ & _ & _ & (gb & Gb & Db & Wb & Hb) & _).
  exists hh', log', gb. repeat (split; [assumption|]). intros o Ho. rewrite (Hb o Ho).
  destruct rd; unfold rdc; [ring|unfold Rdiv; ring].
Qed.

(* dx[b][d] = Σ_o gy[b][o] * W[o]   (both variants: x' is broadcast to its own shape) *)
Theorem fc_grad_x rd h w b x name wv bv xv O B F h1 y hh gy log :
  fc_setting h w b x name wv bv xv O B F h1 y hh gy ->
  exists hh' log',
    fold_left (process_node rd idseal) (rev (seq (length h) 9)) (hh, log, Ok tt) = (hh', log', Ok tt) /\
    (trackedOf h x = true ->
     exists gx, gradOf hh' x = Some gx /\ dims gx = [B; F] /\ wf gx /\
       forall bi d, (bi < B)%nat -> (d < F)%nat ->
         elt gx [bi; d] = prior (gradOf hh x) [bi; d] + SumN O (fun o => elt gy [bi; o] * elt wv [o])) /\
    (trackedOf h x = false -> gradOf hh' x = gradOf hh x).
Proof.
  intros S. destruct (fc_setting_run rd _ _ _ _ _ _ _ _ _ _ _ _ _ _ _ log S)
    as (hh' & log' & E & _ & _ & _ & _ & Hx).
  exists hh', log'. split; [exact E|]. split; intros Et; rewrite Et in Hx; exact Hx.
Qed.

(* dW[o] = Σ_b gy[b][o] * Σ_d x[b][d]   (pinned library: divided by the batch size) *)
Theorem fc_grad_W rd h w b x name wv bv xv O B F h1 y hh gy log :
  fc_setting h w b x name wv bv xv O B F h1 y hh gy ->
  exists hh' log' gw,
    fold_left (process_node rd idseal) (rev (seq (length h) 9)) (hh, log, Ok tt) = (hh', log', Ok tt) /\
    gradOf hh' w = Some gw /\ dims gw = [O] /\ wf gw /\
    forall o, (o < O)%nat ->
      elt gw [o] = prior (gradOf hh w) [o] +
                   match rd with
                   | RedSum => SumN B (fun bi => elt gy [bi; o] * SumN F (fun d => elt xv [bi; d]))
                   | RedAvg => SumN B (fun bi => elt gy [bi; o] * SumN F (fun d => elt xv [bi; d])) / INR B
                   end.
Proof.
  intros S. destruct (fc_setting_run rd _ _ _ _ _ _ _ _ _ _ _ _ _ _ _ log S)
    as (hh' & log' & E & _ & _ & (gw & Gw & Dw & Ww & Hw) & _ & _).
  exists hh', log', gw. repeat (split; [assumption|]). intros o Ho. rewrite (Hw o Ho).
  destruct rd; unfold rdc; [ring|unfold Rdiv; ring].
Qed.

(* the formulas are the derivatives of  y[b][o] = W[o] * Σ_d x[b][d] + B[o]  contracted with gy *)
Definition fcY (W Bs : nat -> R) (X : nat -> nat -> R) (F : nat) (bi o : nat) : R :=
  W o * SumN F (fun d => X bi d) + Bs o.

Lemma fcY_dW W Bs X F bi o : is_derive (fun t => fcY (fun o' => if (o' =? o)%nat then t else W o') Bs X F bi o) (W o)
                                       (SumN F (fun d => X bi d)).
Proof. unfold fcY. rewrite Nat.eqb_refl. auto_derive; [exact I|ring]. Qed.

Lemma fcY_dB W Bs X F bi o : is_derive (fun t => fcY W (fun o' => if (o' =? o)%nat then t else Bs o') X F bi o) (Bs o) 1.
Proof. unfold fcY. rewrite Nat.eqb_refl. auto_derive; [exact I|ring]. Qed.

Lemma fcY_dX W Bs X F bi o d : (d < F)%nat ->
  is_derive (fun t => fcY W Bs (fun b' d' => if (b' =? bi)%nat && (d' =? d)%nat then X b' d' + t else X b' d') F bi o) 0 (W o).
Proof.
  intros Hd. unfold fcY.
  apply (is_derive_ext (fun t => W o * (SumN F (fun d' => X bi d') + t) + Bs o)).
  - intros t. f_equal. f_equal.
    transitivity (VjpReduceP.sumN F (bump (fun d' => X bi d') d t));
      [symmetry; exact (VjpReduceP.sumN_bump F (fun d' => X bi d') d t Hd)|].
    apply SumN_ext. intros k Hk. unfold bump. rewrite Nat.eqb_refl. cbn [andb]. destruct (k =? d)%nat; ring.
  - auto_derive; [exact I|ring].
Qed.

(* the hypotheses about [hh] hold in particular right after the forward call, once an upstream
   gradient has been put on y: the new nodes hold no gradient, the old ones keep theirs *)
Lemma fc_fresh_upstream (h : heap) w b x name (wv bv xv : T) h1 y (gy : T) :
  valOf h w = Some wv -> valOf h b = Some bv -> valOf h x = Some xv ->
  trackedOf h w = true -> dirtyOf h w = false -> trackedOf h b = true -> dirtyOf h b = false ->
  dirtyOf h x = false ->
  fc_forward h w b [Some x] name = (h1, Ok y) ->
  let hh := setGrad h1 y (Some gy) in
  sameS h1 hh /\ gradOf hh y = Some gy /\
  (forall i, (length h <= i < y)%nat -> gradOf hh i = None) /\
  (forall i, (i < length h)%nat -> gradOf hh i = gradOf h i).
Proof.
  intros Vw Vb Vx Tw Dtw Tb Dtb Dtx E hh.
  destruct (fc_structure h w b x name wv bv xv h1 y Vw Vb Vx Tw Dtw Tb Dtb Dtx E)
    as (w1v & x1v & bwv & bxv & y1v & y2v & by2v & bbv & yv & _ & _ & _ & _ & _ & _ & _ & _ & _ & Ey & Eh).
  assert (L : length h1 = S y).
  { subst h1 y. unfold fc_heap. rewrite app_length. cbn [length]. lia. }
  split; [apply sameS_setGrad|]. unfold hh.
  split; [rewrite gradOf_setGrad, Nat.eqb_refl; destruct (Nat.ltb_spec y (length h1)); [reflexivity|lia]|].
  split.
  - intros i Hi. rewrite gradOf_setGrad. destruct (Nat.eqb_spec i y); [lia|].
    subst h1. apply fc_heap_grad_new. lia.
  - intros i Hi. rewrite gradOf_setGrad. destruct (Nat.eqb_spec i y); [lia|].
    subst h1. apply fc_heap_grad_old. exact Hi.
Qed.

End FcGrad.

(* ===================================================================================== *)
(* Example: W = [2;3], B = [10;20], x = [[1;5];[2;7]] (tracked leaves), upstream gradient  *)
(* gy = [[1;2];[3;4]] on the fresh graph                                                   *)
(* ===================================================================================== *)
Section Ex.
Variables (thr : R) (draw : bool -> nat -> R).
Local Hint Extern 0 (Scalar R) => exact (R_scalar thr draw) : typeclass_instances.
Local Open Scope R_scope.

Definition eW : tensor R := mkT [2%nat] (Vec [Sc 2; Sc 3]).
Definition eB : tensor R := mkT [2%nat] (Vec [Sc 10; Sc 20]).
Definition eX : tensor R := mkT [2%nat; 2%nat] (Vec [Vec [Sc 1; Sc 5]; Vec [Sc 2; Sc 7]]).
Definition eG : tensor R := mkT [2%nat; 2%nat] (Vec [Vec [Sc 1; Sc 2]; Vec [Sc 3; Sc 4]]).
Definition eh : @heap R :=
  [mkNode eW true false None [] None; mkNode eB true false None [] None; mkNode eX true false None [] None].

Lemma wf_eW : wf eW.  Proof. split; cbn; repeat constructor. Qed.
Lemma wf_eB : wf eB.  Proof. split; cbn; repeat constructor. Qed.
Lemma wf_eX : wf eX.  Proof. split; cbn; repeat constructor. Qed.
Lemma wf_eG : wf eG.  Proof. split; cbn; repeat constructor. Qed.

Example fc_backward_ex :
  exists h1 y, fc_forward eh 0 1 [Some 2%nat] None = (h1, Ok y) /\
  let hh := setGrad h1 y (Some eG) in
  fc_setting thr draw eh 0 1 2 None eW eB eX 2 2 2 h1 y hh eG /\
  forall rd log, exists hh' log' gw gb gx,
    fold_left (process_node rd (fun _ g => g)) (rev (seq 3 9)) (hh, log, Ok tt) = (hh', log', Ok tt) /\
    gradOf hh' 0%nat = Some gw /\ gradOf hh' 1%nat = Some gb /\ gradOf hh' 2%nat = Some gx /\
    elt gb [0%nat] = rdc rd 2 * 4 /\ elt gb [1%nat] = rdc rd 2 * 6 /\
    elt gw [0%nat] = rdc rd 2 * 33 /\ elt gw [1%nat] = rdc rd 2 * 48 /\
    elt gx [0%nat; 0%nat] = 8 /\ elt gx [1%nat; 1%nat] = 18.
Proof.
  destruct (fc_forward_spec eh 0 1 2 None eW eB eX 2 2 2 eq_refl eq_refl eq_refl wf_eW wf_eB wf_eX eq_refl eq_refl eq_refl)
    as (r & (h1 & y & E & _) & _).
  exists h1, y. split; [exact E|]. intros hh.
  destruct (fc_fresh_upstream thr draw eh 0 1 2 None eW eB eX h1 y eG
              eq_refl eq_refl eq_refl eq_refl eq_refl eq_refl eq_refl eq_refl E) as (S1 & S2 & S3 & S4).
  fold hh in S1, S2, S3, S4.
  assert (P0 : gradOf hh 0%nat = None) by (rewrite S4 by (cbn; lia); reflexivity).
  assert (P1 : gradOf hh 1%nat = None) by (rewrite S4 by (cbn; lia); reflexivity).
  assert (P2 : gradOf hh 2%nat = None) by (rewrite S4 by (cbn; lia); reflexivity).
  assert (St : fc_setting thr draw eh 0 1 2 None eW eB eX 2 2 2 h1 y hh eG).
  { unfold fc_setting.
    split; [reflexivity|]. split; [reflexivity|]. split; [reflexivity|].
    split; [exact wf_eW|]. split; [exact wf_eB|]. split; [exact wf_eX|].
    split; [reflexivity|]. split; [reflexivity|]. split; [reflexivity|].
    split; [reflexivity|]. split; [reflexivity|]. split; [reflexivity|]. split; [reflexivity|]. split; [reflexivity|].
    split; [lia|]. split; [exact E|]. split; [exact S1|]. split; [exact S2|]. split; [exact wf_eG|].
    split; [reflexivity|]. split; [exact S3|].
    split; [rewrite P0; apply okPrior_None|]. split; [rewrite P1; apply okPrior_None|].
    rewrite P2. apply okPrior_None. }
  split; [exact St|]. intros rd log.
  destruct (fc_setting_run thr draw rd _ _ _ _ _ _ _ _ _ _ _ _ _ _ _ log St)
    as (hh' & log' & Ef & _ & _ & (gw & Gw & _ & _ & Hw) & (gb & Gb & _ & _ & Hb) & Hx).
  change (trackedOf eh 2) with true in Hx. destruct Hx as (gx & Gx & _ & _ & Hx).
  exists hh', log', gw, gb, gx. split; [exact Ef|]. split; [exact Gw|]. split; [exact Gb|]. split; [exact Gx|].
  rewrite P0 in Hw. rewrite P1 in Hb. rewrite P2 in Hx.
  rewrite (Hb 0%nat), (Hb 1%nat), (Hw 0%nat), (Hw 1%nat), (Hx 0%nat 0%nat), (Hx 1%nat 1%nat) by lia.
  unfold SumN, Rsum, prior, elt. cbn.
  repeat split; ring.
Qed.

(* the two variants on the numbers of the example: RedSum gives dB = [4;6], RedAvg (pinned) [2;3] *)
Example rdc_values : rdc RedSum 2 * 4 = 4 /\ rdc RedAvg 2 * 4 = 2 /\ rdc RedSum 2 * 6 = 6 /\ rdc RedAvg 2 * 6 = 3.
Proof. unfold rdc. cbn [INR]. repeat split; field. Qed.

End Ex.

Print Assumptions fc_structure.
Print Assumptions fc_backward.
Print Assumptions fc_grad_B.
Print Assumptions fc_grad_x.
Print Assumptions fc_grad_W.
Print Assumptions fc_backward_ex.
