(* DataSliceP.v — CPUTensor.copiedSliceOf (tensor/internal/cputensor/accessors.go) with its recursive closure
   copyData, as translated by harness/gox into the DataIR program GoData.d_copiedSliceOf, against
   Model/Data.v sliceData / copiedSliceOf.
   Main results: [copyData_sliceData] (the closure is Data.sliceData, both directions, captured variables untouched),
   [data_copiedSliceOf_run] / [data_copiedSliceOf] (the function is Data.copiedSliceOf).  All need From <= To for
   every range (see [ex_slice_from_gt_to] for why); nothing else is assumed (any fuel, any captured environment,
   closure nesting depth > length index).  Written against the DataIR semantics with TDef/vdefine. *)
From Coq Require Import String List ZArith Bool Lia Arith.
From Qeep Require Import Model.Scalar Model.Nd Model.Fill Model.Data Model.DataIR Model.GoData Proofs.DataIRP.
From Qeep Require Model.GoIR.
Import ListNotations.
Local Open Scope string_scope.
Local Open Scope Z_scope.
Local Open Scope list_scope.

Section DataSlice.
Context {A : Type} {SA : Scalar A}.
Variable fapp : string -> list A -> option A.
Variables (St : Type) (ext : string -> list (@dval A) -> St -> option (list (@dval A) * St)).
Notation dval := (@dval A).
Notation denv := (@denv A).

(* ---------- small facts ---------- *)

(* the embedding of a vector is the list of the embeddings (as in Proofs/DataAtP.v) *)
Lemma emb_Vec (l : list (nd A)) : emb (Vec l) = DL (map emb l).
Proof. cbn [emb]. apply f_equal. induction l as [|y r IH]; cbn [map]; [reflexivity | f_equal; exact IH]. Qed.

Lemma nth_error_map_emb (l : list (nd A)) n : nth_error (map emb l) n = option_map emb (nth_error l n).
Proof. revert n; induction l as [|a l IH]; intros [|n]; cbn; auto. Qed.

(* an assignment to a variable of the local frame stays in the local frame *)
Lemma vassign_local (atMain : bool) (g l : denv) x (w v : dval) :
  dlookup l x = Some w -> vassign atMain g l x v = (g, dupd l x v).
Proof. intros Hl. unfold vassign, dhas. now rewrite Hl. Qed.

Lemma vlookup_local (g l : denv) y (v : dval) : dlookup l y = Some v -> vlookup g l y = Some v.
Proof. unfold vlookup; intros H; now rewrite H. Qed.

(* at main level (no local frame) every assignment goes to the frame of the function *)
Lemma vassign_main (g : denv) x (v : dval) : vassign true g [] x v = (dupd g x v, []).
Proof. unfold vassign. cbn [dhas dlookup]. destruct (dhas g x); reflexivity. Qed.

Lemma setNthD_same (m : list dval) n v : nth_error m n = Some v -> setNthD m n v = Some m.
Proof.
  revert n; induction m as [|a m IH]; intros [|n] H; cbn in *; try discriminate.
  - now inversion H.
  - now rewrite (IH n H).
Qed.

Lemma setNthD_app (pre : list dval) a tl v : setNthD (pre ++ a :: tl) (length pre) v = Some (pre ++ v :: tl).
Proof. induction pre as [|p pre IH]; cbn; [reflexivity | now rewrite IH]. Qed.

Lemma nth_error_app_len (pre : list dval) a tl : nth_error (pre ++ a :: tl) (length pre) = Some a.
Proof. induction pre as [|p pre IH]; cbn; auto. Qed.

Lemma tail_sub (a : dval) m : firstn (Z.to_nat (dlen (a :: m) - 1)) (skipn (Z.to_nat 1) (a :: m)) = m.
Proof.
  unfold dlen. cbn [length]. replace (Z.to_nat (Z.of_nat (S (length m)) - 1)) with (length m) by lia.
  change (Z.to_nat 1) with 1%nat. cbn [skipn]. apply firstn_all.
Qed.

(* ---------- the loop of copyData ---------- *)
Section Layer.
Variables (f t : nat) (index' : list (nat * nat)) (rows : list (nd A)) (src : nd A).

(* what the local frame of a copyData invocation holds while its loop runs *)
Definition LInv (l : denv) (drows : list dval) : Prop :=
  dlookup l "index" = Some (dranges index') /\ dlookup l "idx" = Some (DR (Z.of_nat f) (Z.of_nat t)) /\
  dlookup l "srcRows" = Some (DL (map emb rows)) /\ dlookup l "src" = Some (emb src) /\
  dlookup l "dstRows" = Some (DL drows) /\ dhas l "dst" = true.

(* row k of the result *)
Definition rowAt (k : nat) : option (nd A) := do r <- nth_error rows (k + f); sliceData index' r.

(* the loop for any body that behaves like  copyData(index, &srcRows[i+idx.From], &dstRows[i])  and leaves the
   captured variables alone *)
Lemma copyData_loop (body : St -> denv -> denv -> @doutcome A St)
      (assign : denv -> denv -> Z -> dval -> denv * denv) :
  (forall s g l (done : list (nd A)) (rest : list dval),
      LInv l (map emb done ++ DNil :: rest) ->
      let '(g0, l0) := assign g l (Z.of_nat (length done)) DNil in
      match rowAt (length done) with
      | Some r' => exists l1, body s g0 l0 = DNormal St s g l1 /\ LInv l1 (map emb (done ++ [r']) ++ rest)
      | None => body s g0 l0 = DPanic St
      end) ->
  forall (todo : nat) (done : list (nd A)) s g l,
  LInv l (map emb done ++ repeat DNil todo) ->
  match mapM rowAt (seq (length done) todo) with
  | Some out => exists l1, drangeLoop St body assign (repeat DNil todo) (Z.of_nat (length done)) s g l = DNormal St s g l1 /\
                           LInv l1 (map emb (done ++ out))
  | None => drangeLoop St body assign (repeat DNil todo) (Z.of_nat (length done)) s g l = DPanic St
  end.
Proof.
  intros Hb. induction todo as [|todo IH]; intros done s g l Hl.
  - cbn. exists l. split; [reflexivity|]. now rewrite !app_nil_r in *.
  - cbn [repeat seq mapM drangeLoop] in *.
    pose proof (Hb s g l done (repeat DNil todo) Hl) as H1.
    destruct (assign g l (Z.of_nat (length done)) DNil) as [g0 l0].
    destruct (rowAt (length done)) as [r'|]; cbn [obind].
    + destruct H1 as [l1 [Hb1 Hl1]]. rewrite Hb1.
      specialize (IH (done ++ [r']) s g l1 Hl1).
      rewrite app_length in IH. cbn [length] in IH.
      replace (length done + 1)%nat with (S (length done)) in IH by lia.
      replace (Z.of_nat (length done) + 1) with (Z.of_nat (S (length done))) by lia.
      destruct (mapM rowAt (seq (S (length done)) todo)) as [out|]; cbn [obind].
      * destruct IH as [l2 [H2 Hl2]]. exists l2. split; [exact H2|]. now rewrite <- app_assoc in Hl2.
      * exact IH.
    + rewrite H1. reflexivity.
Qed.
End Layer.

(* ---------- one invocation of a local closure ---------- *)
Definition runLocal (locals : list (string * dfn)) (callL : string -> list dval -> St -> denv -> cres St)
           (fuel : nat) (fn : string) (vs : list dval) (s : St) (g : denv) : cres St :=
  match dlookupFn locals fn with
  | Some fd =>
      match dbind (dparams fd) vs with
      | Some l0 =>
          match dexec fapp St ext callL fuel false (dbody fd) s g l0 with
          | DNormal _ s1 g1 l1 | DRet _ _ s1 g1 l1 =>
              match ptrOuts (dparams fd) l1 with Some outs => CRet St outs s1 g1 | None => CPanic St end
          | DFuel _ => CFuel St
          | _ => CPanic St
          end
      | None => CPanic St
      end
  | None => CPanic St
  end.

Lemma callLD_S locals fuel d fn vs s g :
  callLD fapp St ext locals fuel (S d) fn vs s g = runLocal locals (callLD fapp St ext locals fuel d) fuel fn vs s g.
Proof. reflexivity. Qed.

(* the expected result of copyData(index, &src, &dst): src is written back unchanged, dst receives the slice;
   the captured variables [g] are untouched *)
Definition sliceRes (index : list (nat * nat)) (src : nd A) (s : St) (g : denv) : cres St :=
  match sliceData index src with Some r => CRet St [emb src; emb r] s g | None => CPanic St end.

Lemma copyData_base callL fuel (src : nd A) v s g :
  runLocal (plocals d_copiedSliceOf) callL fuel "copyData" [dranges []; emb src; v] s g = sliceRes [] src s g.
Proof.
  unfold runLocal, sliceRes, d_copiedSliceOf, dranges.
  cbn [plocals dlookupFn String.eqb Ascii.eqb Bool.eqb dparams dbody dbind map].
  dxs. change (dlen (@nil dval) =? 0) with true. cbn iota.
  destruct src as [a|rows0].
  - cbn [emb]. dxs. cbn [ptrOuts dlookup String.eqb Ascii.eqb Bool.eqb sliceData asF obind emb]. reflexivity.
  - rewrite emb_Vec. cbn [sliceData asF obind]. reflexivity.
Qed.

Lemma copyData_layer callL fuel (f t : nat) (index' : list (nat * nat)) :
  (f <= t)%nat ->
  (forall (r : nd A) v s g, callL "copyData" [dranges index'; emb r; v] s g = sliceRes index' r s g) ->
  forall (src : nd A) v s g,
  runLocal (plocals d_copiedSliceOf) callL fuel "copyData" [dranges ((f, t) :: index'); emb src; v] s g =
  sliceRes ((f, t) :: index') src s g.
Proof.
  intros Hft Hin src v s g.
  unfold runLocal, sliceRes, d_copiedSliceOf, dranges.
  cbn [plocals dlookupFn String.eqb Ascii.eqb Bool.eqb dparams dbody dbind map fst snd].
  assert (Hlen : forall (a : dval) m, (dlen (a :: m) =? 0) = false).
  { intros a m. unfold dlen. cbn [length]. apply Z.eqb_neq. lia. }
  dxs. rewrite Hlen. cbn iota. dxs.
  change (didx 0) with (Some 0%nat). cbn [nth_error]. dxs.
  destruct src as [a|rows].
  { cbn [emb sliceData asV obind]. reflexivity. }
  rewrite emb_Vec. dxs.
  assert (Hsub : Z.of_nat t - Z.of_nat f = Z.of_nat (t - f)) by lia.
  rewrite Hsub.
  assert (Hnn : forall n, (0 <=? Z.of_nat n) = true) by (intros; apply Z.leb_le; lia).
  rewrite Hnn, Nat2Z.id. dxs.
  assert (Hcond : forall (a : dval) m, (0 <=? 1) && (1 <=? dlen (a :: m)) && (dlen (a :: m) <=? dlen (a :: m)) = true).
  { intros a0 m. unfold dlen. cbn [length]. rewrite !andb_true_iff, !Z.leb_le. lia. }
  rewrite Hcond, tail_sub. dxs.
  match goal with |- context [drangeLoop St ?b ?asg _ _ _ ?g0 ?l0] =>
    pose proof (copyData_loop f t index' rows (Vec rows) b asg) as HL
  end.
  match type of HL with ?P -> _ => assert (Hspec : P) end.
  { clear HL. intros s0 g0 l done rest Hl.
    destruct Hl as (L1 & L2 & L3 & L4 & L5 & L6).
    remember (length done) as k eqn:Ek.
    cbn [vdefine].
    remember (dupd (dupd l "i" (DI (Z.of_nat k))) "_" DNil) as l0 eqn:El0.
    assert (F : forall y, dlookup l0 y = if String.eqb y "_" then Some DNil else
                          if String.eqb y "i" then Some (DI (Z.of_nat k)) else dlookup l y).
    { intros y. subst l0. now rewrite !dlookup_dupd. }
    pose proof (F "index") as F1. pose proof (F "idx") as F2. pose proof (F "srcRows") as F3.
    pose proof (F "src") as F4. pose proof (F "dstRows") as F5. pose proof (F "i") as F6.
    cbn [String.eqb Ascii.eqb Bool.eqb] in F1, F2, F3, F4, F5, F6.
    rewrite L1 in F1. rewrite L2 in F2. rewrite L3 in F3. rewrite L4 in F4. rewrite L5 in F5.
    pose proof (fun g => vlookup_local g _ _ _ F1) as V1. pose proof (fun g => vlookup_local g _ _ _ F2) as V2.
    pose proof (fun g => vlookup_local g _ _ _ F3) as V3. pose proof (fun g => vlookup_local g _ _ _ F5) as V5.
    pose proof (fun g => vlookup_local g _ _ _ F6) as V6.
    unfold rowAt.
    dxs. rewrite !V1, !V3, !V6, !V2, !V5. dxs.
    rewrite <- Nat2Z.inj_add, !didx_nat, nth_error_map_emb.
    assert (Hk : k = length (map emb done)) by (subst k; now rewrite map_length).
    assert (Hn : nth_error (map emb done ++ DNil :: rest) k = Some DNil) by (rewrite Hk; apply nth_error_app_len).
    assert (Hset : forall v, setNthD (map emb done ++ DNil :: rest) k v = Some (map emb done ++ v :: rest))
      by (intros; rewrite Hk; apply setNthD_app).
    rewrite Hn.
    destruct (nth_error rows (k + f)) as [r|] eqn:Er; cbn [option_map obind]; [|reflexivity].
    rewrite (Hin r DNil s0 g0). unfold sliceRes.
    destruct (sliceData index' r) as [r'|]; [|reflexivity].
    dxs. rewrite V6, V2. dxs. rewrite <- Nat2Z.inj_add, didx_nat.
    unfold setSlot at 1. rewrite V3.
    rewrite (setNthD_same (map emb rows) (k + f) (emb r)) by (now rewrite nth_error_map_emb, Er).
    rewrite (vassign_local false g0 l0 "srcRows" _ _ F3).
    unfold setSlot, vlookup. rewrite !dlookup_dupd. cbn [String.eqb Ascii.eqb Bool.eqb].
    rewrite F6, didx_nat, F5, Hset.
    erewrite (vassign_local false g0 _ "dstRows") by (rewrite dlookup_dupd; cbn [String.eqb Ascii.eqb Bool.eqb]; exact F5).
    eexists. split; [reflexivity|].
    pose proof (F "dst") as F7. cbn [String.eqb Ascii.eqb Bool.eqb] in F7.
    unfold LInv, dhas in *. rewrite !dlookup_dupd. cbn [String.eqb Ascii.eqb Bool.eqb].
    rewrite F1, F2, F4, F7, map_app, <- app_assoc. cbn [map app]. repeat split; auto. }
  specialize (HL Hspec (t - f)%nat [] s g).
  match goal with |- context [drangeLoop St _ _ _ _ _ _ ?l0] => specialize (HL l0) end.
  match type of HL with ?P -> _ => assert (Hl0 : P) end.
  { unfold LInv, dhas. cbn [dlookup String.eqb Ascii.eqb Bool.eqb map app]. rewrite emb_Vec. repeat split; reflexivity. }
  specialize (HL Hl0). cbn [length map app Z.of_nat] in HL.
  cbn [sliceData asV obind]. fold (rowAt f index' rows).
  destruct (mapM (rowAt f index' rows) (seq 0 (t - f))) as [out|]; cbn [obind].
  - destruct HL as [l1 [HL (L1 & L2 & L3 & L4 & L5 & L6)]]. rewrite HL. dxs.
    rewrite (vlookup_local g l1 _ _ L5). unfold vassign. rewrite L6.
    cbn [ptrOuts]. rewrite !dlookup_dupd. cbn [String.eqb Ascii.eqb Bool.eqb]. rewrite L4, !emb_Vec. reflexivity.
  - rewrite HL. reflexivity.
Qed.

(* ---------- (1) the closure copyData computes Data.sliceData ---------- *)
(* From <= To is needed for every range: Go's make([]any, idx.To-idx.From) panics on a negative length, the model's
   natural subtraction yields an empty vector. *)
Theorem copyData_sliceData fuel (index : list (nat * nat)) :
  Forall (fun r => fst r <= snd r)%nat index ->
  forall (d : nat) (src : nd A) (v : dval) (s : St) (g : denv),
  (length index <= d)%nat ->
  callLD fapp St ext (plocals d_copiedSliceOf) fuel (S d) "copyData" [dranges index; emb src; v] s g =
  match sliceData index src with
  | Some r => CRet St [emb src; emb r] s g
  | None => CPanic St
  end.
Proof.
  induction index as [|[f t] index' IH]; intros HF d src v s g Hd.
  - rewrite callLD_S. apply copyData_base.
  - inversion HF as [|? ? Hft HF']; subst. cbn [fst snd] in Hft.
    destruct d as [|d]; [cbn [length] in Hd; lia|].
    rewrite callLD_S. apply copyData_layer; [exact Hft|].
    intros r v0 s0 g0. apply (IH HF'). cbn [length] in Hd. lia.
Qed.

(* ---------- the dims loop of the main function ---------- *)
Definition Keep (g g1 : denv) : Prop :=
  dlookup g1 "index" = dlookup g "index" /\ dlookup g1 "t.data" = dlookup g "t.data" /\
  dlookup g1 "o.data" = dlookup g "o.data".

Definition zdim (r : nat * nat) : dval := DI (Z.of_nat (snd r) - Z.of_nat (fst r)).

Lemma dims_loop (body : St -> denv -> denv -> @doutcome A St)
      (assign : denv -> denv -> Z -> dval -> denv * denv) :
  (forall s g (pre tl : list dval) (r : nat * nat),
      dlookup g "dims" = Some (DL (pre ++ DI 0 :: tl)) ->
      let '(g0, l0) := assign g [] (Z.of_nat (length pre)) (DR (Z.of_nat (fst r)) (Z.of_nat (snd r))) in
      exists g1, body s g0 l0 = DNormal St s g1 [] /\
                 dlookup g1 "dims" = Some (DL (pre ++ zdim r :: tl)) /\ Keep g g1) ->
  forall (rest : list (nat * nat)) (pre : list dval) s g,
  dlookup g "dims" = Some (DL (pre ++ repeat (DI 0) (length rest))) ->
  exists g1, drangeLoop St body assign (map (fun r => DR (Z.of_nat (fst r)) (Z.of_nat (snd r))) rest)
                        (Z.of_nat (length pre)) s g [] = DNormal St s g1 [] /\
             dlookup g1 "dims" = Some (DL (pre ++ map zdim rest)) /\ Keep g g1.
Proof.
  intros Hb. induction rest as [|r rest IH]; intros pre s g Hd.
  - cbn. exists g. repeat split; auto.
  - cbn [map drangeLoop length repeat] in *.
    pose proof (Hb s g pre (repeat (DI 0) (length rest)) r Hd) as H1.
    destruct (assign g [] (Z.of_nat (length pre)) (DR (Z.of_nat (fst r)) (Z.of_nat (snd r)))) as [g0 l0].
    destruct H1 as [g1 [Hb1 [Hd1 (K1 & K2 & K3)]]]. rewrite Hb1.
    specialize (IH (pre ++ [zdim r]) s g1).
    rewrite <- app_assoc in IH. cbn [app] in IH. specialize (IH Hd1).
    rewrite app_length in IH. cbn [length] in IH.
    replace (Z.of_nat (length pre) + 1) with (Z.of_nat (length pre + 1)) by lia.
    destruct IH as [g2 [H2 [Hd2 (K4 & K5 & K6)]]]. exists g2. split; [exact H2|].
    rewrite <- app_assoc in Hd2. cbn [app] in Hd2. split; [exact Hd2|].
    unfold Keep. rewrite K4, K5, K6. auto.
Qed.

(* ---------- (2) the main function computes Data.copiedSliceOf ---------- *)
Theorem data_copiedSliceOf_run fuel depth (ds : list nat) (x : nd A) (index : list (nat * nat)) (s : St) :
  Forall (fun r => fst r <= snd r)%nat index ->
  (length index < depth)%nat ->
  match sliceData index x with
  | Some r => exists g l, drun fapp St ext d_copiedSliceOf fuel depth [dnats ds; emb x; dranges index] s =
                          DRet St [dnats (map (fun r => snd r - fst r)%nat index); emb r] s g l
  | None => drun fapp St ext d_copiedSliceOf fuel depth [dnats ds; emb x; dranges index] s = DPanic St
  end.
Proof.
  intros HF Hdepth.
  destruct depth as [|d]; [lia|].
  assert (Hd : (length index <= d)%nat) by lia.
  pose proof (fun v s g => copyData_sliceData fuel index HF d x v s g Hd) as Hcall.
  unfold drun.
  remember (plocals d_copiedSliceOf) as locals eqn:Eloc.
  unfold d_copiedSliceOf. cbn [pmain dparams dbody dbind].
  unfold dranges in *.
  dxs. rewrite !dlen_map.
  assert (Hnn : forall n, (0 <=? Z.of_nat n) = true) by (intros; apply Z.leb_le; lia).
  rewrite !Hnn, !Nat2Z.id. dxs.
  match goal with |- context [drangeLoop St ?b ?asg _ _ _ ?g0 ?l0] =>
    pose proof (dims_loop b asg) as HL
  end.
  match type of HL with ?P -> _ => assert (Hspec : P) end.
  { clear HL. intros s0 g pre tl r Hdm. cbn [vdefine].
    autorewrite with dataexec. cbn [deval devalBin]. unfold vlookup. cbn [dlookup].
    rewrite !dlookup_dupd. cbn [String.eqb Ascii.eqb Bool.eqb]. rewrite didx_nat.
    unfold setSlot, vlookup. cbn [dlookup]. rewrite !dlookup_dupd. cbn [String.eqb Ascii.eqb Bool.eqb].
    rewrite Hdm. cbn [devalBin]. rewrite setNthD_app, vassign_main.
    eexists. split; [reflexivity|]. unfold Keep. rewrite !dlookup_dupd. cbn [String.eqb Ascii.eqb Bool.eqb].
    repeat split; reflexivity. }
  specialize (HL Hspec index [] s).
  match goal with |- context [drangeLoop St _ _ _ _ _ ?g0 _] => specialize (HL g0) end.
  match type of HL with ?P -> _ => assert (H0 : P) end.
  { cbn [dlookup String.eqb Ascii.eqb Bool.eqb app]. reflexivity. }
  specialize (HL H0). cbn [length Z.of_nat app] in HL.
  destruct HL as [g1 [HL [Hdims (K1 & K2 & K3)]]]. rewrite !HL.
  cbn [dlookup String.eqb Ascii.eqb Bool.eqb] in K1, K2, K3.
  clear HL Hspec H0.
  assert (if_same : forall (b : bool) (X : Type) (a : X), (if b then a else a) = a) by (intros [|]; reflexivity).
  dxs. rewrite !Hdims, !if_same. dxs.
  rewrite !dlookup_dupd. cbn [String.eqb Ascii.eqb Bool.eqb]. rewrite !K1, !K2, !K3. cbn iota.
  rewrite !Hcall.
  destruct (sliceData index x) as [r|]; [|reflexivity].
  repeat (progress (rewrite ?if_same; dxs)).
  rewrite !dlookup_dupd. cbn [String.eqb Ascii.eqb Bool.eqb].
  (* dims[i] = idx.To - idx.From over Z is the model's natural subtraction because From <= To *)
  assert (Hz : map zdim index = map (fun n => DI (Z.of_nat n)) (map (fun r0 => (snd r0 - fst r0)%nat) index)).
  { clear -HF. induction HF as [|r0 rest Hr _ IH]; cbn [map]; [reflexivity|].
    rewrite IH. unfold zdim. do 2 f_equal. lia. }
  rewrite Hz. unfold dnats. eauto.
Qed.

(* the same, stated with Data.copiedSliceOf on the tensor (ds, x) *)
Corollary data_copiedSliceOf fuel depth (ds : list nat) (x : nd A) (index : list (nat * nat)) (s : St) :
  Forall (fun r => fst r <= snd r)%nat index ->
  (length index < depth)%nat ->
  match copiedSliceOf (mkT ds x) index with
  | Some o => exists g l, drun fapp St ext d_copiedSliceOf fuel depth [dnats ds; emb x; dranges index] s =
                          DRet St [dnats (dims o); emb (data o)] s g l
  | None => drun fapp St ext d_copiedSliceOf fuel depth [dnats ds; emb x; dranges index] s = DPanic St
  end.
Proof.
  intros HF Hdepth. pose proof (data_copiedSliceOf_run fuel depth ds x index s HF Hdepth) as H.
  unfold copiedSliceOf. cbn [data].
  destruct (sliceData index x) as [r|]; cbn [obind dims data]; exact H.
Qed.


End DataSlice.

Print Assumptions copyData_sliceData.
Print Assumptions data_copiedSliceOf_run.
Print Assumptions data_copiedSliceOf.


(* ---------- concrete checks over the free scalar algebra [term] ---------- *)
Section Examples.
Let fa : string -> list term -> option term := fun _ _ => None.
Let ex : string -> list (@dval term) -> unit -> option (list (@dval term) * unit) := fun _ _ _ => None.
Let c (n : Z) : nd term := Sc (TConst n 0).
Let x22 : nd term := Vec [Vec [c 1; c 2]; Vec [c 3; c 4]].
Let outs (o : @doutcome term unit) : option (list (@dval term)) :=
  match o with DRet _ vs _ _ _ => Some vs | _ => None end.

(* rank 2 (the recursive closure shadows the loop variables i, idx of the main function) *)
Example ex_slice_rank2 :
  outs (drun fa unit ex d_copiedSliceOf 0 3 [dnats [2; 2]%nat; emb x22; dranges [(0, 2); (1, 2)]%nat] tt) =
  Some [dnats [2; 1]%nat; emb (Vec [Vec [c 2]; Vec [c 4]])]
  /\ sliceData [(0, 2); (1, 2)]%nat x22 = Some (Vec [Vec [c 2]; Vec [c 4]]).
Proof. split; vm_compute; reflexivity. Qed.

(* out of range: both panic *)
Example ex_slice_oob :
  drun fa unit ex d_copiedSliceOf 0 3 [dnats [2; 2]%nat; emb x22; dranges [(0, 3); (0, 2)]%nat] tt = DPanic unit
  /\ sliceData [(0, 3); (0, 2)]%nat x22 = None.
Proof. split; vm_compute; reflexivity. Qed.

(* the hypothesis From <= To is necessary: for From > To the Go code (make([]any, -1)) panics, the model's natural
   subtraction gives an empty vector *)
Example ex_slice_from_gt_to :
  drun fa unit ex d_copiedSliceOf 0 3 [dnats [2; 2]%nat; emb x22; dranges [(2, 1)]%nat] tt = DPanic unit
  /\ copiedSliceOf (mkT [2; 2]%nat x22) [(2, 1)]%nat = Some (mkT [0]%nat (Vec [])).
Proof. split; vm_compute; reflexivity. Qed.
End Examples.
