(* ElemP.v — element-wise operations (operators.go): calc1 / calc2 / apply1 / apply2,
   the public v_unary / v_same, and equalsD, against the index-level specification.
   All shapes and ranks (induction on the shape), arbitrary element type, no Scalar laws. *)
From Coq Require Import List Arith ZArith Bool Lia.
From Qeep Require Import Model.Scalar Model.Nd Model.Fill Model.Data Model.Valid Model.Api Proofs.NdP.
Import ListNotations.

(* ---------- generic helpers (also used by SliceP.v) ---------- *)

Lemma mapM_total {T U} (f : T -> option U) l :
  (forall x, In x l -> exists y, f x = Some y) -> exists r, mapM f l = Some r.
Proof.
  induction l as [|a l IH]; intros H; cbn.
  - eexists; reflexivity.
  - destruct (H a (or_introl eq_refl)) as (y & Ey). rewrite Ey. cbn.
    destruct IH as (r & Er).
    + intros x Hx. apply H. right. exact Hx.
    + rewrite Er. cbn. eexists; reflexivity.
Qed.

(* build the result of a mapM over positions 0..n-1 from a pointwise total specification *)
Lemma mapM_seq_build {U} (f : nat -> option U) n (P : nat -> U -> Prop) :
  (forall i, i < n -> exists y, f i = Some y /\ P i y) ->
  exists r, mapM f (seq 0 n) = Some r /\ length r = n /\
            forall i, i < n -> exists y, nth_error r i = Some y /\ f i = Some y /\ P i y.
Proof.
  intros H.
  destruct (mapM_total f (seq 0 n)) as (r & Er).
  - intros x Hx. apply in_seq in Hx. destruct (H x ltac:(lia)) as (y & Ey & _). exists y; exact Ey.
  - exists r. split; [exact Er|]. destruct (mapM_seq_inv _ _ _ Er) as (Hl & Hn). split; [exact Hl|].
    intros i Hi. destruct (Hn i Hi) as (y & Ey & Fy). exists y. split; [exact Ey|]. split; [exact Fy|].
    destruct (H i Hi) as (y' & Fy' & Py'). congruence.
Qed.

Lemma Forall_nth_error {T} (Q : T -> Prop) (l : list T) :
  (forall i y, nth_error l i = Some y -> Q y) -> Forall Q l.
Proof.
  intros H. apply Forall_forall. intros y Hy. apply In_nth_error in Hy as (i & Hi). eapply H; eauto.
Qed.

Lemma Forall_nth_error_inv {T} (Q : T -> Prop) (l : list T) i y :
  Forall Q l -> nth_error l i = Some y -> Q y.
Proof.
  intros H Hi. rewrite Forall_forall in H. apply H. eapply nth_error_In; eauto.
Qed.

Lemma nth_error_lt_some {T} (l : list T) i : i < length l -> exists y, nth_error l i = Some y.
Proof.
  intros Hi. destruct (nth_error l i) as [y|] eqn:E; [exists y; reflexivity|].
  apply nth_error_None in E. lia.
Qed.

Lemma combine_app_eq {T U} (a a' : list T) (b b' : list U) :
  length a = length b -> combine (a ++ a') (b ++ b') = combine a b ++ combine a' b'.
Proof.
  revert b. induction a as [|x a IH]; intros [|y b] Hl; cbn in Hl; try discriminate; cbn; [reflexivity|].
  f_equal. apply IH. lia.
Qed.

Section ElemP.
Context {A : Type} {SA : Scalar A}.
Notation T := (tensor A).
Implicit Types (a b : nd A) (ds idx : list nat).

(* ---------- calc1 ---------- *)

Theorem calc1_spec (f : A -> A) ds : forall a, wfnd ds a ->
  exists r, calc1 f ds a = Some r /\ wfnd ds r /\
            forall idx, validIdx ds idx -> get r idx = option_map f (get a idx).
Proof.
  induction ds as [|d ds IH]; intros a Hw.
  - apply wfnd_nil in Hw as (x & ->). exists (Sc (f x)). cbn. split; [reflexivity|]. split; [exact I|].
    intros idx Hv. apply validIdx_nil in Hv; subst. reflexivity.
  - apply wfnd_cons in Hw as (l & -> & Hl & Hf). cbn [calc1 asV obind].
    destruct (mapM_seq_build (fun i => do ai <- nth_error l i; calc1 f ds ai) d
                (fun i y => exists ai, nth_error l i = Some ai /\ wfnd ds y /\
                                       forall idx, validIdx ds idx -> get y idx = option_map f (get ai idx)))
      as (out & Eo & Hlo & Hn).
    + intros i Hi. destruct (nth_error_lt_some l i ltac:(lia)) as (ai & Ea). rewrite Ea. cbn.
      destruct (IH ai (Forall_nth_error_inv _ _ _ _ Hf Ea)) as (y & Ey & Hwy & Hg).
      exists y. split; [exact Ey|]. exists ai. auto.
    + rewrite Eo. cbn. exists (Vec out). split; [reflexivity|]. split.
      * cbn. split; [exact Hlo|]. apply Forall_nth_error. intros i y Hy.
        assert (Hi : i < d) by (rewrite <- Hlo; apply nth_error_Some; congruence).
        destruct (Hn i Hi) as (y' & Ey' & _ & (ai & _ & Hwy & _)). congruence.
      * intros idx Hv. apply validIdx_cons in Hv as (i & rr & -> & Hi & Hr). rewrite !get_cons.
        destruct (Hn i Hi) as (y & Ey & _ & (ai & Ea & _ & Hg)). rewrite Ey, Ea. apply Hg. exact Hr.
Qed.

(* closed form (needs an inhabitant of A to name the elements) *)
Definition getD (dflt : A) a idx : A := match get a idx with Some v => v | None => dflt end.

Corollary calc1_tab (dflt : A) (f : A -> A) ds a : wfnd ds a ->
  calc1 f ds a = Some (tab ds (fun idx => f (getD dflt a idx))).
Proof.
  intros Hw. destruct (calc1_spec f ds a Hw) as (r & Er & Hwr & Hg). rewrite Er. f_equal.
  apply (nd_ext A ds); [exact Hwr|apply wfnd_tab|]. intros idx Hv.
  rewrite Hg by exact Hv. rewrite get_tab by exact Hv. unfold getD.
  destruct (get_wf A ds a idx Hw Hv) as (x & ->). reflexivity.
Qed.

(* ---------- calc2 ---------- *)

Theorem calc2_spec (f : A -> A -> A) ds : forall a b, wfnd ds a -> wfnd ds b ->
  exists r, calc2 f ds a b = Some r /\ wfnd ds r /\
            forall idx, validIdx ds idx ->
              get r idx = match get a idx, get b idx with Some x, Some y => Some (f x y) | _, _ => None end.
Proof.
  induction ds as [|d ds IH]; intros a b Hwa Hwb.
  - apply wfnd_nil in Hwa as (x & ->). apply wfnd_nil in Hwb as (y & ->).
    exists (Sc (f x y)). cbn. split; [reflexivity|]. split; [exact I|].
    intros idx Hv. apply validIdx_nil in Hv; subst. reflexivity.
  - apply wfnd_cons in Hwa as (la & -> & Hla & Hfa). apply wfnd_cons in Hwb as (lb & -> & Hlb & Hfb).
    cbn [calc2 asV obind].
    destruct (mapM_seq_build
                (fun i => do ai <- nth_error la i; do bi <- nth_error lb i; calc2 f ds ai bi) d
                (fun i y => exists ai bi, nth_error la i = Some ai /\ nth_error lb i = Some bi /\ wfnd ds y /\
                   forall idx, validIdx ds idx ->
                     get y idx = match get ai idx, get bi idx with Some x, Some y => Some (f x y) | _, _ => None end))
      as (out & Eo & Hlo & Hn).
    + intros i Hi. destruct (nth_error_lt_some la i ltac:(lia)) as (ai & Ea).
      destruct (nth_error_lt_some lb i ltac:(lia)) as (bi & Eb). rewrite Ea, Eb. cbn.
      destruct (IH ai bi (Forall_nth_error_inv _ _ _ _ Hfa Ea) (Forall_nth_error_inv _ _ _ _ Hfb Eb))
        as (y & Ey & Hwy & Hg).
      exists y. split; [exact Ey|]. exists ai, bi. auto.
    + rewrite Eo. cbn. exists (Vec out). split; [reflexivity|]. split.
      * cbn. split; [exact Hlo|]. apply Forall_nth_error. intros i y Hy.
        assert (Hi : i < d) by (rewrite <- Hlo; apply nth_error_Some; congruence).
        destruct (Hn i Hi) as (y' & Ey' & _ & (ai & bi & _ & _ & Hwy & _)). congruence.
      * intros idx Hv. apply validIdx_cons in Hv as (i & rr & -> & Hi & Hr). rewrite !get_cons.
        destruct (Hn i Hi) as (y & Ey & _ & (ai & bi & Ea & Eb & _ & Hg)). rewrite Ey, Ea, Eb. apply Hg. exact Hr.
Qed.

Corollary calc2_tab (dflt : A) (f : A -> A -> A) ds a b : wfnd ds a -> wfnd ds b ->
  calc2 f ds a b = Some (tab ds (fun idx => f (getD dflt a idx) (getD dflt b idx))).
Proof.
  intros Hwa Hwb. destruct (calc2_spec f ds a b Hwa Hwb) as (r & Er & Hwr & Hg). rewrite Er. f_equal.
  apply (nd_ext A ds); [exact Hwr|apply wfnd_tab|]. intros idx Hv.
  rewrite Hg by exact Hv. rewrite get_tab by exact Hv. unfold getD.
  destruct (get_wf A ds a idx Hwa Hv) as (x & ->). destruct (get_wf A ds b idx Hwb Hv) as (y & ->). reflexivity.
Qed.

(* ---------- tensor level ---------- *)

Theorem apply1_spec (f : A -> A) (t : T) : wf t ->
  exists r, apply1 f t = Some r /\ dims r = dims t /\ wf r /\
            forall idx, validIdx (dims t) idx -> get (data r) idx = option_map f (get (data t) idx).
Proof.
  intros [Hw Hp]. unfold apply1. destruct (calc1_spec f (dims t) (data t) Hw) as (d & Ed & Hwd & Hg).
  rewrite Ed. cbn. eexists. split; [reflexivity|]. cbn. split; [reflexivity|]. split; [|exact Hg].
  split; cbn; assumption.
Qed.

Theorem apply2_spec (f : A -> A -> A) (t u : T) : wf t -> wf u -> dims t = dims u ->
  exists r, apply2 f t u = Some r /\ dims r = dims t /\ wf r /\
            forall idx, validIdx (dims t) idx ->
              get (data r) idx =
              match get (data t) idx, get (data u) idx with Some x, Some y => Some (f x y) | _, _ => None end.
Proof.
  intros [Hwt Hpt] [Hwu _] E. rewrite <- E in Hwu. unfold apply2.
  destruct (calc2_spec f (dims t) (data t) (data u) Hwt Hwu) as (d & Ed & Hwd & Hg).
  rewrite Ed. cbn. eexists. split; [reflexivity|]. cbn. split; [reflexivity|]. split; [|exact Hg].
  split; cbn; assumption.
Qed.

(* ---------- API level ---------- *)

Theorem v_unary_spec (u : unary) (t : T) : wf t ->
  exists r, v_unary u t = Ok r /\ dims r = dims t /\ wf r /\
            forall idx, validIdx (dims t) idx -> get (data r) idx = option_map (unaryF u) (get (data t) idx).
Proof.
  intros Hw. unfold v_unary. destruct (apply1_spec (unaryF u) t Hw) as (r & Er & H).
  rewrite Er. cbn. exists r. split; [reflexivity|exact H].
Qed.

Lemma dimsEq_spec (d1 d2 : list nat) : dimsEq (map Z.of_nat d1) (map Z.of_nat d2) = true <-> d1 = d2.
Proof.
  revert d2. induction d1 as [|x d1 IH]; intros [|y d2]; cbn; try (split; [discriminate|discriminate]).
  - split; reflexivity.
  - rewrite andb_true_iff, Z.eqb_eq, IH. split.
    + intros [H1 H2]. apply Nat2Z.inj in H1. congruence.
    + intros H. inversion H; subst. split; reflexivity.
Qed.

Lemma validateBinaryFuncDimsMatch_spec (t u : T) :
  validateBinaryFuncDimsMatch (zdims t) (zdims u) = true <-> dims t = dims u.
Proof. apply dimsEq_spec. Qed.

Theorem v_same_spec (b : binary) (t u : T) : wf t -> wf u ->
  (dims t = dims u ->
     exists r, v_same b t u = Ok r /\ dims r = dims t /\ wf r /\
               forall idx, validIdx (dims t) idx ->
                 get (data r) idx =
                 match get (data t) idx, get (data u) idx with
                 | Some x, Some y => Some (binaryF b x y) | _, _ => None end)
  /\ (dims t <> dims u -> v_same b t u = Err).
Proof.
  intros Hwt Hwu. unfold v_same, guard. split; intros E.
  - destruct (validateBinaryFuncDimsMatch (zdims t) (zdims u)) eqn:V.
    + destruct (apply2_spec (binaryF b) t u Hwt Hwu E) as (r & Er & H). rewrite Er. cbn.
      exists r. split; [reflexivity|exact H].
    + apply validateBinaryFuncDimsMatch_spec in E. congruence.
  - destruct (validateBinaryFuncDimsMatch (zdims t) (zdims u)) eqn:V; [|reflexivity].
    apply validateBinaryFuncDimsMatch_spec in V. contradiction.
Qed.

Corollary v_same_ok_iff (b : binary) (t u : T) : wf t -> wf u ->
  ((exists r, v_same b t u = Ok r) <-> dims t = dims u) /\ v_same b t u <> Panic.
Proof.
  intros Hwt Hwu. destruct (v_same_spec b t u Hwt Hwu) as [H1 H2].
  assert (Hdec : dims t = dims u \/ dims t <> dims u).
  { destruct (list_eq_dec Nat.eq_dec (dims t) (dims u)); auto. }
  split; [split|].
  - intros (r & Er). destruct Hdec as [E|N]; [exact E|]. rewrite (H2 N) in Er. discriminate.
  - intros E. destruct (H1 E) as (r & Er & _). exists r; exact Er.
  - destruct Hdec as [E|N].
    + destruct (H1 E) as (r & Er & _). rewrite Er. discriminate.
    + rewrite (H2 N). discriminate.
Qed.

(* ---------- reducers: trav is a left fold over the row-major element sequence ---------- *)

Lemma trav_spec (af : A -> A -> A) ds : forall x v, wfnd ds x -> trav af ds x v = Some (fold_left af (flat x) v).
Proof.
  induction ds as [|d ds IH]; intros x v Hw.
  - apply wfnd_nil in Hw as (a & ->). reflexivity.
  - apply wfnd_cons in Hw as (l & -> & _ & Hf). cbn [trav asV obind]. rewrite flat_Vec.
    clear d. revert v. induction Hf as [|y l Hy Hf IHl]; intros v; cbn [foldM flat_list]; [reflexivity|].
    rewrite IH by exact Hy. cbn [obind]. rewrite IHl. rewrite fold_left_app. reflexivity.
Qed.

Corollary reduceBy_spec (af : A -> A -> A) (e : A) (t : T) : wfnd (dims t) (data t) ->
  reduceBy af e t = Some (fold_left af (flat (data t)) e).
Proof. intros Hw. apply trav_spec. exact Hw. Qed.

(* ---------- row-major view of calc2 ---------- *)

Definition map2 (f : A -> A -> A) (l1 l2 : list A) : list A := map (fun p => f (fst p) (snd p)) (combine l1 l2).

Lemma flat_list_map2 (f : A -> A -> A) : forall (out la lb : list (nd A)),
  length la = length out -> length lb = length out ->
  (forall i x y z, nth_error la i = Some x -> nth_error lb i = Some y -> nth_error out i = Some z ->
     flat z = map2 f (flat x) (flat y) /\ length (flat x) = length (flat y)) ->
  flat_list A out = map2 f (flat_list A la) (flat_list A lb).
Proof.
  induction out as [|z out IH]; intros [|x la] [|y lb] H1 H2 H; cbn in H1, H2; try discriminate; [reflexivity|].
  cbn [flat_list]. destruct (H 0 x y z eq_refl eq_refl eq_refl) as [Hz Hl].
  unfold map2. rewrite combine_app_eq by exact Hl. rewrite map_app. f_equal; [exact Hz|].
  apply IH; [lia|lia|]. intros i x' y' z' Hx Hy Hz'. apply (H (S i)); assumption.
Qed.

Lemma calc2_flat (f : A -> A -> A) ds : forall a b r, wfnd ds a -> wfnd ds b ->
  calc2 f ds a b = Some r -> flat r = map2 f (flat a) (flat b).
Proof.
  induction ds as [|d ds IH]; intros a b r Hwa Hwb E.
  - apply wfnd_nil in Hwa as (x & ->). apply wfnd_nil in Hwb as (y & ->). cbn in E. inversion E; subst. reflexivity.
  - apply wfnd_cons in Hwa as (la & -> & Hla & Hfa). apply wfnd_cons in Hwb as (lb & -> & Hlb & Hfb).
    cbn [calc2 asV obind] in E. apply obind_some in E as (out & Eo & E). inversion E; subst r. clear E.
    destruct (mapM_seq_inv _ _ _ Eo) as (Hlo & Hn). rewrite !flat_Vec.
    apply flat_list_map2; [lia|lia|]. intros i x y z Hx Hy Hz.
    assert (Hi : i < d) by (rewrite <- Hlo; apply nth_error_Some; congruence).
    destruct (Hn i Hi) as (z' & Ez' & Ec). rewrite Hx, Hy in Ec. cbn in Ec.
    assert (z' = z) by congruence. subst z'.
    pose proof (Forall_nth_error_inv _ _ _ _ Hfa Hx) as Hwx.
    pose proof (Forall_nth_error_inv _ _ _ _ Hfb Hy) as Hwy. split.
    + apply (IH x y z Hwx Hwy Ec).
    + rewrite (flat_length A ds x Hwx), (flat_length A ds y Hwy). reflexivity.
Qed.

(* equals: sum of the element-wise equality indicators compared with the element count *)
Theorem equalsD_spec (t u : T) : wf t -> wf u -> dims t = dims u ->
  equalsD t u = Some (sgeb (fold_left sadd (map2 seqt (flat (data t)) (flat (data u))) s0)
                           (sofnat (prodn (dims t)))).
Proof.
  intros Hwt Hwu E. unfold equalsD.
  destruct (apply2_spec seqt t u Hwt Hwu E) as (o & Eo & Hd & [Hwo _] & _). rewrite Eo. cbn [obind].
  unfold r_sum. rewrite reduceBy_spec by exact Hwo. cbn [obind]. unfold numElems. rewrite Hd.
  unfold apply2 in Eo. apply obind_some in Eo as (d & Ed & Eo). inversion Eo; subst o. cbn [data].
  destruct Hwt as [Hwt _]. destruct Hwu as [Hwu _]. rewrite <- E in Hwu.
  rewrite (calc2_flat seqt (dims t) (data t) (data u) d Hwt Hwu Ed). reflexivity.
Qed.

Corollary v_equals_spec (t u : T) : wf t -> wf u ->
  (dims t = dims u ->
     v_equals t u = Ok (sgeb (fold_left sadd (map2 seqt (flat (data t)) (flat (data u))) s0)
                             (sofnat (prodn (dims t)))))
  /\ (dims t <> dims u -> v_equals t u = Err).
Proof.
  intros Hwt Hwu. unfold v_equals. split; intros E.
  - destruct (validateBinaryFuncDimsMatch (zdims t) (zdims u)) eqn:V.
    + rewrite (equalsD_spec t u Hwt Hwu E). reflexivity.
    + apply validateBinaryFuncDimsMatch_spec in E. congruence.
  - destruct (validateBinaryFuncDimsMatch (zdims t) (zdims u)) eqn:V; [|reflexivity].
    apply validateBinaryFuncDimsMatch_spec in V. contradiction.
Qed.

End ElemP.

(* ---------- examples: the hypotheses are satisfiable, the conclusions non-trivial ---------- *)
Module ElemExamples.

(* a throw-away instance: naturals, with eq/ge indicators *)
Definition b2n (b : bool) : nat := if b then 1 else 0.
#[local] Instance nat_scalar : Scalar nat := {|
  s0 := 0; s1 := 1;
  sadd := Nat.add; ssub := Nat.sub; smul := Nat.mul; sdiv := Nat.div; spow := Nat.pow;
  sexp := fun a => 2 ^ a; slog := Nat.log2; ssin := fun a => a; scos := fun a => a; stan := fun a => a;
  ssinh := fun a => a; scosh := fun a => a; stanh := fun a => a; ssqrt := Nat.sqrt;
  smax := Nat.max; smin := Nat.min;
  sselgt := fun a b => if b <? a then a else b; ssellt := fun a b => if a <? b then a else b;
  seqt := fun a b => b2n (a =? b); snet := fun a b => b2n (negb (a =? b));
  sgt := fun a b => b2n (b <? a); sge := fun a b => b2n (b <=? a);
  slt := fun a b => b2n (a <? b); sle := fun a b => b2n (a <=? b);
  sgeb := fun a b => b2n (b <=? a); strunc := fun a => a; sofnat := fun n => n;
  sconst := fun m e => Z.to_nat m; sneginf := 0; sposinf := 1000; srnd := fun _ k => k
|}.

(* [[0;1;2];[10;11;12]] and [[5;1;7];[10;0;12]] *)
Definition ex : tensor nat := mkT [2;3] (tab [2;3] (fun idx => match idx with [i;j] => 10 * i + j | _ => 0 end)).
Definition ey : tensor nat := mkT [2;3] (Vec [Vec [Sc 5; Sc 1; Sc 7]; Vec [Sc 10; Sc 0; Sc 12]]).
Definition ez : tensor nat := mkT [3] (Vec [Sc 1; Sc 2; Sc 3]).

Lemma wf_ex : wf ex. Proof. split; cbn; repeat constructor. Qed.
Lemma wf_ey : wf ey. Proof. split; cbn; repeat constructor. Qed.
Lemma wf_ez : wf ez. Proof. split; cbn; repeat constructor. Qed.

Example ex_data : data ex = Vec [Vec [Sc 0; Sc 1; Sc 2]; Vec [Sc 10; Sc 11; Sc 12]].
Proof. reflexivity. Qed.

Example calc1_ex : calc1 S [2;3] (data ex) = Some (Vec [Vec [Sc 1; Sc 2; Sc 3]; Vec [Sc 11; Sc 12; Sc 13]]).
Proof. vm_compute. reflexivity. Qed.

Example calc1_tab_ex : calc1 S [2;3] (data ex) = Some (tab [2;3] (fun idx => S (getD 0 (data ex) idx))).
Proof. apply calc1_tab. apply wf_ex. Qed.

Example calc2_ex : calc2 Nat.add [2;3] (data ex) (data ey)
                   = Some (Vec [Vec [Sc 5; Sc 2; Sc 9]; Vec [Sc 20; Sc 11; Sc 24]]).
Proof. vm_compute. reflexivity. Qed.

(* a value of the wrong nesting makes the data layer panic: well-formedness is needed *)
Example calc1_not_wf : calc1 S [2;3] (Vec [Sc 1; Sc 2]) = None.
Proof. vm_compute. reflexivity. Qed.

Example v_unary_ex : v_unary (UScale 2) ex = Ok (mkT [2;3] (Vec [Vec [Sc 0; Sc 2; Sc 4]; Vec [Sc 20; Sc 22; Sc 24]])).
Proof. vm_compute. reflexivity. Qed.

Example v_same_ex : v_same BiElMax ex ey = Ok (mkT [2;3] (Vec [Vec [Sc 5; Sc 1; Sc 7]; Vec [Sc 10; Sc 11; Sc 12]])).
Proof. vm_compute. reflexivity. Qed.

Example v_same_err : v_same BiElMax ex ez = Err.
Proof. apply (v_same_spec BiElMax ex ez wf_ex wf_ez). discriminate. Qed.

Example v_same_get : exists r, v_same BiEq ex ey = Ok r /\ get (data r) [1;2] = Some 1 /\ get (data r) [0;0] = Some 0.
Proof.
  destruct (v_same_spec BiEq ex ey wf_ex wf_ey) as [H _]. destruct (H eq_refl) as (r & Er & _ & _ & Hg).
  exists r. split; [exact Er|]. split; rewrite Hg by (repeat constructor); reflexivity.
Qed.

(* ex and ey agree at 3 of 6 positions: the sum of indicators is 3 < 6 *)
Example equalsD_ex : equalsD ex ey = Some 0.
Proof. rewrite (equalsD_spec ex ey wf_ex wf_ey eq_refl). vm_compute. reflexivity. Qed.
Example equalsD_refl_ex : equalsD ex ex = Some 1.
Proof. rewrite (equalsD_spec ex ex wf_ex wf_ex eq_refl). vm_compute. reflexivity. Qed.
Example v_equals_err : v_equals ex ez = Err.
Proof. apply (v_equals_spec ex ez wf_ex wf_ez). discriminate. Qed.

Example r_sum_ex : r_sum ex = Some 36.
Proof. unfold r_sum. rewrite reduceBy_spec by apply wf_ex. vm_compute. reflexivity. Qed.

End ElemExamples.

Print Assumptions calc1_spec.
Print Assumptions calc1_tab.
Print Assumptions calc2_spec.
Print Assumptions calc2_tab.
Print Assumptions apply1_spec.
Print Assumptions apply2_spec.
Print Assumptions v_unary_spec.
Print Assumptions v_same_spec.
Print Assumptions v_same_ok_iff.
Print Assumptions trav_spec.
Print Assumptions calc2_flat.
Print Assumptions equalsD_spec.
Print Assumptions v_equals_spec.
