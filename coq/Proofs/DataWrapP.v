(* DataWrapP.v — the WRAPPERS of tensor/internal/cputensor (shape helper + element generator + initWith, or a
   shape helper + a sibling function) as translated by harness/gox into the straight-line DataIR programs of
   Model/GoWrap.v, run with the oracle Model/DataExt.v ([dext red]), return exactly the model's operation
   (Model/Data.v): transpose, reshape, broadcast, unSqueeze, squeeze, flatten, slice, patch, dot, matMul,
   reduceAlong, constTensor, eyeMatrix. *)
From Coq Require Import String List ZArith Bool Lia Arith.
From Qeep Require Import Model.Scalar Model.Nd Model.Fill Model.Data Model.Valid Model.Api Model.Grad
     Model.DataIR Model.HeapExt Model.DataExt Model.GoWrap Proofs.NdP Proofs.DataIRP.
From Qeep Require Model.GoIR.
Import ListNotations.
Local Open Scope string_scope.
Local Open Scope Z_scope.
Local Open Scope list_scope.

Section DataWrap.
Context {A : Type} {SA : Scalar A}.
Variable fapp : string -> list A -> option A.
Variable red : reducer.
Notation T := (tensor A).
Notation dval := (@dval A).
Notation denv := (@denv A).
Notation NL l := (@DL A (map (fun n : nat => @DI A (Z.of_nat n)) l)).
Notation RL l := (@DL A (map (fun r : nat * nat => @DR A (Z.of_nat (fst r)) (Z.of_nat (snd r))) l)).

(* the outcome of a wrapper against the model's result *)
Definition returns (o : @doutcome A unit) (m : option T) : Prop :=
  match m with
  | Some t => exists g l, o = DRet unit [dnats (dims t); emb (data t)] tt g l
  | None => o = DPanic unit
  end.

(* ================= decoding lemmas ================= *)
(* [emb_Vec], [unemb_emb], [unnats_nats] are also in Proofs/DataAtP.v / Proofs/HeapAccP.v; they are re-proved here
   so that this file depends only on the model, Model/GoWrap.v and Proofs/DataIRP.v (not on the other generated
   program files those proofs import). *)

Lemma emb_Vec (l : list (nd A)) : emb (Vec l) = DL (map emb l).
Proof. cbn [emb]. apply f_equal. induction l as [|y r IH]; cbn [map]; [reflexivity | f_equal; exact IH]. Qed.

Definition unembs : list dval -> option (list (nd A)) :=
  fix go (l : list dval) : option (list (nd A)) :=
    match l with
    | [] => Some []
    | x :: r => match unemb x, go r with Some y, Some ys => Some (y :: ys) | _, _ => None end
    end.

Lemma unemb_DL (l : list dval) :
  unemb (DL l) = match unembs l with Some ys => Some (Vec ys) | None => None end.
Proof. reflexivity. Qed.

Lemma unembs_cons (x : dval) (r : list dval) :
  unembs (x :: r) = match unemb x, unembs r with Some y, Some ys => Some (y :: ys) | _, _ => None end.
Proof. reflexivity. Qed.

Lemma unemb_emb (x : nd A) : unemb (emb x) = Some x.
Proof.
  revert x. apply nd_ind'.
  - intros a. reflexivity.
  - intros l Hl. rewrite emb_Vec, unemb_DL.
    assert (H : unembs (map emb l) = Some l).
    { induction Hl as [|y r Hy Hr IH]; [reflexivity|].
      cbn [map]. rewrite unembs_cons, Hy, IH. reflexivity. }
    rewrite H. reflexivity.
Qed.

Lemma unnats_nats (l : list nat) : unnats (map (fun n => @DI A (Z.of_nat n)) l) = Some l.
Proof.
  induction l as [|n l IH]; [reflexivity|].
  cbn [map unnats]. destruct (0 <=? Z.of_nat n) eqn:E; [|apply Z.leb_gt in E; lia].
  rewrite IH, Nat2Z.id. reflexivity.
Qed.

Lemma Zle0_nat (n : nat) : (0 <=? Z.of_nat n) = true.
Proof. apply Z.leb_le. lia. Qed.

Lemma unnatsV_nats (l : list nat) : unnatsV (NL l) = Some l.
Proof. cbn [unnatsV]. apply unnats_nats. Qed.

Lemma unnatsV_dnats (l : list nat) : unnatsV (@dnats A l) = Some l.
Proof. apply unnatsV_nats. Qed.

Lemma unranges_ranges (l : list (nat * nat)) :
  unranges (map (fun r : nat * nat => @DR A (Z.of_nat (fst r)) (Z.of_nat (snd r))) l) = Some l.
Proof.
  induction l as [|[f t] l IH]; [reflexivity|].
  cbn [map unranges fst snd]. rewrite !Zle0_nat. cbn [andb]. rewrite IH, !Nat2Z.id. reflexivity.
Qed.

Lemma unrangesV_ranges (l : list (nat * nat)) : unrangesV (RL l) = Some l.
Proof. cbn [unrangesV]. apply unranges_ranges. Qed.

Lemma unrangesV_dranges (l : list (nat * nat)) : unrangesV (@dranges A l) = Some l.
Proof. apply unrangesV_ranges. Qed.

Lemma unnatV_nat (n : nat) : unnatV (@DI A (Z.of_nat n)) = Some n.
Proof. cbn [unnatV]. rewrite Zle0_nat, Nat2Z.id. reflexivity. Qed.

Lemma unnatV_neg (z : Z) : z < 0 -> unnatV (@DI A z) = None.
Proof. intros H. cbn [unnatV]. destruct (0 <=? z) eqn:E; [apply Z.leb_le in E; lia | reflexivity]. Qed.

Lemma dcopyInto_full (v : dval) (src : list dval) : dcopyInto (repeat v (length src)) src = src.
Proof. induction src as [|a src IH]; [reflexivity|]. cbn [length repeat dcopyInto]. now rewrite IH. Qed.

Lemma dcopyInto_nats (v : dval) (l : list nat) :
  dcopyInto (repeat v (length l)) (map (fun n : nat => @DI A (Z.of_nat n)) l) = map (fun n : nat => @DI A (Z.of_nat n)) l.
Proof. rewrite <- (map_length (fun n : nat => @DI A (Z.of_nat n)) l) at 1. apply dcopyInto_full. Qed.

(* ================= the oracle entries, one equation each ================= *)

Lemma dext_linGen tdv xv s : dext red "linearElemGenerator" [tdv; xv] s = Some ([DL [DI 0; tdv; xv]], tt).
Proof. reflexivity. Qed.
Lemma dext_trGen tdv xv s : dext red "transposeElemGenerator" [tdv; xv] s = Some ([DL [DI 1; tdv; xv]], tt).
Proof. reflexivity. Qed.
Lemma dext_bcGen tdv xv shv s : dext red "broadcastElemGenerator" [tdv; xv; shv] s = Some ([DL [DI 2; tdv; xv; shv]], tt).
Proof. reflexivity. Qed.
Lemma dext_redGen tdv xv dv trf s :
  dext red "linearElemGeneratorWithReducedDim" [tdv; xv; dv; trf] s = Some ([DL [DI 3; tdv; xv; dv]], tt).
Proof. reflexivity. Qed.
Lemma dext_dotGen tdv x1v d2v x2v s :
  dext red "linearLastDimDotProductElemGenerator" [tdv; x1v; d2v; x2v] s = Some ([DL [DI 4; tdv; x1v; x2v]], tt).
Proof. reflexivity. Qed.
Lemma dext_mmGen tdv x1v d2v x2v s :
  dext red "linearLast2DimsMatMulElemGenerator" [tdv; x1v; d2v; x2v] s = Some ([DL [DI 5; tdv; x1v; x2v]], tt).
Proof. reflexivity. Qed.
Lemma dext_eyeGen nv s : dext red "eyeElemGenerator" [nv] s = Some ([DL [DI 6; nv]], tt).
Proof. reflexivity. Qed.
Lemma dext_constGen (v : A) s : dext red "func() any { return value }" [DF v] s = Some ([DL [DI 7; DF v]], tt).
Proof. reflexivity. Qed.
Lemma dext_initWith dsv hd s :
  dext red "initWith" [dsv; hd] s = do ds <- unnatsV dsv; do d <- initWithHandle red ds hd; Some ([emb d], tt).
Proof. reflexivity. Qed.
Lemma dext_transposeDims dsv s :
  dext red "transposeDims" [dsv] s =
  do ds <- unnatsV dsv; if Nat.leb 2 (length ds) then Some ([dnats (transposeDims ds)], tt) else None.
Proof. reflexivity. Qed.
Lemma dext_unsqueezeDims dv dsv s :
  dext red "unsqueezeDims" [dv; dsv] s =
  do dim <- unnatV dv; do ds <- unnatsV dsv;
  if Nat.leb dim (length ds) then Some ([dnats (unsqueezeDims dim ds)], tt) else None.
Proof. reflexivity. Qed.
Lemma dext_squeezeDims dv dsv s :
  dext red "squeezeDims" [dv; dsv] s =
  do dim <- unnatV dv; do ds <- unnatsV dsv;
  if Nat.leb dim (length ds) then Some ([dnats (squeezeDims dim ds)], tt) else None.
Proof. reflexivity. Qed.
Lemma dext_flattenDims dv dsv s :
  dext red "flattenDims" [dv; dsv] s =
  do dim <- unnatV dv; do ds <- unnatsV dsv;
  if Nat.leb dim (length ds) then Some ([dnats (flattenDims dim ds)], tt) else None.
Proof. reflexivity. Qed.
Lemma dext_dotDims dsv s :
  dext red "dotDims" [dsv] s =
  do ds <- unnatsV dsv; if Nat.leb 1 (length ds) then Some ([dnats (dotDims ds)], tt) else None.
Proof. reflexivity. Qed.
Lemma dext_matMulDims d1v d2v s :
  dext red "matMulDims" [d1v; d2v] s =
  do d1 <- unnatsV d1v; do d2 <- unnatsV d2v;
  if Nat.leb 2 (length d1) then do r <- matMulDims d1 d2; Some ([dnats r], tt) else None.
Proof. reflexivity. Qed.
Lemma dext_completeIndex iv dsv s :
  dext red "completeIndex" [iv; dsv] s =
  do idx <- unrangesV iv; do ds <- unnatsV dsv; Some ([dranges (completeIndex idx ds)], tt).
Proof. reflexivity. Qed.
Lemma dext_copiedSliceOf dsv xv iv s :
  dext red "copiedSliceOf" [dsv; xv; iv] s =
  do ds <- unnatsV dsv; do x <- unemb xv; do idx <- unrangesV iv;
  if forallb (fun r => Nat.leb (fst r) (snd r)) idx then retTensor (copiedSliceOf (mkT ds x) idx) else None.
Proof. reflexivity. Qed.
Lemma dext_copiedWithPatchOf dsv xv iv udv uxv s :
  dext red "copiedWithPatchOf" [dsv; xv; iv; udv; uxv] s =
  do ds <- unnatsV dsv; do x <- unemb xv; do idx <- unrangesV iv; do uds <- unnatsV udv; do ux <- unemb uxv;
  retTensor (do o <- slice (mkT ds x) []; do d <- patchData idx ux (data o); Some (mkT (dims o) d)).
Proof. reflexivity. Qed.
Lemma dext_reshape dsv xv shv s :
  dext red "reshape" [dsv; xv; shv] s =
  do ds <- unnatsV dsv; do x <- unemb xv; do sh <- unnatsV shv; retTensor (reshape (mkT ds x) sh).
Proof. reflexivity. Qed.

(* the generator handles *)
Lemma iwh_lin ds tds (x : nd A) :
  initWithHandle red ds (DL [DI 0; NL tds; emb x]) = initWith ds (linGen tds x) (linInit tds).
Proof. cbn [initWithHandle]. rewrite unnatsV_nats, unemb_emb. reflexivity. Qed.
Lemma iwh_tr ds tds (x : nd A) :
  initWithHandle red ds (DL [DI 1; NL tds; emb x]) = initWith ds (trGen tds x) (linInit tds).
Proof. cbn [initWithHandle]. rewrite unnatsV_nats, unemb_emb. reflexivity. Qed.
Lemma iwh_bc ds tds (x : nd A) sh :
  initWithHandle red ds (DL [DI 2; NL tds; emb x; NL sh]) = initWith ds (bcGen x) (bcInit tds sh).
Proof. cbn [initWithHandle]. rewrite !unnatsV_nats, unemb_emb. reflexivity. Qed.
Lemma iwh_red ds tds (x : nd A) dim :
  initWithHandle red ds (DL [DI 3; NL tds; emb x; DI (Z.of_nat dim)]) =
  initWith ds (redGen red dim (mkT tds x)) (linInit tds).
Proof. cbn [initWithHandle]. rewrite unnatsV_nats, unemb_emb, unnatV_nat. reflexivity. Qed.
Lemma iwh_dot ds tds (x1 x2 : nd A) :
  initWithHandle red ds (DL [DI 4; NL tds; emb x1; emb x2]) =
  initWith ds (batchGen dot1d (dotDims tds) x1 x2) (linInit (dotDims tds)).
Proof. cbn [initWithHandle]. rewrite unnatsV_nats, !unemb_emb. reflexivity. Qed.
Lemma iwh_mm ds tds (x1 x2 : nd A) :
  initWithHandle red ds (DL [DI 5; NL tds; emb x1; emb x2]) =
  initWith ds (batchGen matmul2d (firstn (length tds - 2) tds) x1 x2) (linInit (firstn (length tds - 2) tds)).
Proof. cbn [initWithHandle]. rewrite unnatsV_nats, !unemb_emb. reflexivity. Qed.
Lemma iwh_eye ds n :
  initWithHandle red ds (DL [DI 6; DI (Z.of_nat n)]) = initWith ds (@eyeGen A SA n) 0%nat.
Proof. cbn [initWithHandle]. rewrite unnatV_nat. reflexivity. Qed.
Lemma iwh_const ds (v : A) :
  initWithHandle red ds (DL [DI 7; DF v]) = initWith ds (constGen v) tt.
Proof. reflexivity. Qed.

Lemma unnatsV_2 (n m : nat) : unnatsV (@DL A [DI (Z.of_nat n); DI (Z.of_nat m)]) = Some [n; m].
Proof. apply (unnatsV_nats [n; m]). Qed.

(* one oracle call: its equation, then the decoding of its (embedded) arguments *)
Ltac wdec := rewrite ?unnatsV_nats, ?unnatsV_2, ?unemb_emb, ?unrangesV_ranges, ?unnatV_nat.
Ltac wext :=
  lazymatch goal with
  | |- context [dext _ "linearElemGenerator" _ _] => rewrite dext_linGen
  | |- context [dext _ "transposeElemGenerator" _ _] => rewrite dext_trGen
  | |- context [dext _ "broadcastElemGenerator" _ _] => rewrite dext_bcGen
  | |- context [dext _ "linearElemGeneratorWithReducedDim" _ _] => rewrite dext_redGen
  | |- context [dext _ "linearLastDimDotProductElemGenerator" _ _] => rewrite dext_dotGen
  | |- context [dext _ "linearLast2DimsMatMulElemGenerator" _ _] => rewrite dext_mmGen
  | |- context [dext _ "eyeElemGenerator" _ _] => rewrite dext_eyeGen
  | |- context [dext _ "func() any { return value }" _ _] => rewrite dext_constGen
  | |- context [dext _ "initWith" _ _] =>
      rewrite dext_initWith; wdec; cbn [obind];
      rewrite ?iwh_lin, ?iwh_tr, ?iwh_bc, ?iwh_red, ?iwh_dot, ?iwh_mm, ?iwh_eye, ?iwh_const
  | |- context [dext _ "transposeDims" _ _] => rewrite dext_transposeDims; wdec
  | |- context [dext _ "unsqueezeDims" _ _] => rewrite dext_unsqueezeDims; wdec
  | |- context [dext _ "squeezeDims" _ _] => rewrite dext_squeezeDims; wdec
  | |- context [dext _ "flattenDims" _ _] => rewrite dext_flattenDims; wdec
  | |- context [dext _ "dotDims" _ _] => rewrite dext_dotDims; wdec
  | |- context [dext _ "matMulDims" _ _] => rewrite dext_matMulDims; wdec
  | |- context [dext _ "completeIndex" _ _] => rewrite dext_completeIndex; wdec
  | |- context [dext _ "copiedSliceOf" _ _] => rewrite dext_copiedSliceOf; wdec
  | |- context [dext _ "copiedWithPatchOf" _ _] => rewrite dext_copiedWithPatchOf; wdec
  | |- context [dext _ "reshape" _ _] => rewrite dext_reshape; wdec
  end.
(* make([]int, len(shape)); copy(dims, shape) *)
Ltac wlen :=
  match goal with
  | |- context [dlen (map _ _)] => rewrite !dlen_map, ?Zle0_nat, ?Nat2Z.id
  | |- context [dcopyInto _ _] => rewrite dcopyInto_nats
  end.

Ltac wx := repeat (progress (dxs; try unfold dnats, dranges; repeat wlen; try wext;
                             cbn [obind retTensor dims data app])).
Ltac wstart p := unfold returns, drun, p; cbn [pmain dbody plocals dparams dbind]; wx.
Ltac wfin :=
  match goal with
  | |- context [@initWith ?X ?S ?a ?b ?c] => destruct (@initWith X S a b c)
  | |- context [reshape ?a ?b] => destruct (reshape a b)
  | |- context [copiedSliceOf ?a ?b] => destruct (copiedSliceOf a b)
  end; wx; eauto.

(* ================= shape_modifiers.go ================= *)

(* the oracle's guard (transposeDims indexes dims[n-1], dims[n-2]): 2 <= rank *)
Theorem w_transpose_run fuel depth (ds : list nat) (x : nd A) :
  (2 <= length ds)%nat ->
  returns (drun fapp unit (dext red) w_transpose fuel depth [dnats ds; emb x] tt) (transpose (mkT ds x)).
Proof.
  intros H. apply Nat.leb_le in H. wstart w_transpose. rewrite H. wx.
  unfold transpose. cbn [dims data]. wfin.
Qed.

Theorem w_transpose_outside fuel depth (ds : list nat) (x : nd A) :
  (length ds < 2)%nat ->
  drun fapp unit (dext red) w_transpose fuel depth [dnats ds; emb x] tt = DPanic unit.
Proof.
  intros H. apply Nat.leb_gt in H. wstart w_transpose. rewrite H. reflexivity.
Qed.

Theorem w_reshape_run fuel depth (ds : list nat) (x : nd A) (shape : list nat) :
  returns (drun fapp unit (dext red) w_reshape fuel depth [dnats ds; emb x; dnats shape] tt)
          (reshape (mkT ds x) shape).
Proof. wstart w_reshape. unfold reshape. cbn [dims data]. wfin. Qed.

Theorem w_broadcast_run fuel depth (ds : list nat) (x : nd A) (shape : list nat) :
  returns (drun fapp unit (dext red) w_broadcast fuel depth [dnats ds; emb x; dnats shape] tt)
          (broadcast (mkT ds x) shape).
Proof. wstart w_broadcast. unfold broadcast. cbn [dims data]. wfin. Qed.

Theorem w_unSqueeze_run fuel depth (ds : list nat) (x : nd A) (dim : nat) :
  (dim <= length ds)%nat ->
  returns (drun fapp unit (dext red) w_unSqueeze fuel depth [dnats ds; emb x; DI (Z.of_nat dim)] tt)
          (unSqueeze (mkT ds x) dim).
Proof.
  intros H. apply Nat.leb_le in H. wstart w_unSqueeze. rewrite H. wx.
  unfold unSqueeze. cbn [dims data]. wfin.
Qed.

Theorem w_squeeze_run fuel depth (ds : list nat) (x : nd A) (dim : nat) :
  (dim <= length ds)%nat ->
  returns (drun fapp unit (dext red) w_squeeze fuel depth [dnats ds; emb x; DI (Z.of_nat dim)] tt)
          (squeeze (mkT ds x) dim).
Proof.
  intros H. apply Nat.leb_le in H. wstart w_squeeze. rewrite H. wx.
  unfold squeeze. cbn [dims data]. wfin.
Qed.

Theorem w_flatten_run fuel depth (ds : list nat) (x : nd A) (dim : nat) :
  (dim <= length ds)%nat ->
  returns (drun fapp unit (dext red) w_flatten fuel depth [dnats ds; emb x; DI (Z.of_nat dim)] tt)
          (flatten (mkT ds x) dim).
Proof.
  intros H. apply Nat.leb_le in H. wstart w_flatten. rewrite H. wx.
  unfold flatten. cbn [dims data]. wfin.
Qed.

(* outside the guard of the shape helper (dim > rank, or a negative dim) the three programs panic *)
Theorem w_unSqueeze_outside fuel depth (ds : list nat) (x : nd A) (dim : nat) :
  (length ds < dim)%nat ->
  drun fapp unit (dext red) w_unSqueeze fuel depth [dnats ds; emb x; DI (Z.of_nat dim)] tt = DPanic unit.
Proof. intros H. apply Nat.leb_gt in H. wstart w_unSqueeze. rewrite H. reflexivity. Qed.
Theorem w_squeeze_outside fuel depth (ds : list nat) (x : nd A) (dim : nat) :
  (length ds < dim)%nat ->
  drun fapp unit (dext red) w_squeeze fuel depth [dnats ds; emb x; DI (Z.of_nat dim)] tt = DPanic unit.
Proof. intros H. apply Nat.leb_gt in H. wstart w_squeeze. rewrite H. reflexivity. Qed.
Theorem w_flatten_outside fuel depth (ds : list nat) (x : nd A) (dim : nat) :
  (length ds < dim)%nat ->
  drun fapp unit (dext red) w_flatten fuel depth [dnats ds; emb x; DI (Z.of_nat dim)] tt = DPanic unit.
Proof. intros H. apply Nat.leb_gt in H. wstart w_flatten. rewrite H. reflexivity. Qed.

Theorem w_unSqueeze_negative fuel depth (dsv xv : dval) (z : Z) :
  z < 0 -> drun fapp unit (dext red) w_unSqueeze fuel depth [dsv; xv; DI z] tt = DPanic unit.
Proof. intros H. wstart w_unSqueeze. rewrite (unnatV_neg _ H). reflexivity. Qed.
Theorem w_squeeze_negative fuel depth (dsv xv : dval) (z : Z) :
  z < 0 -> drun fapp unit (dext red) w_squeeze fuel depth [dsv; xv; DI z] tt = DPanic unit.
Proof. intros H. wstart w_squeeze. rewrite (unnatV_neg _ H). reflexivity. Qed.
Theorem w_flatten_negative fuel depth (dsv xv : dval) (z : Z) :
  z < 0 -> drun fapp unit (dext red) w_flatten fuel depth [dsv; xv; DI z] tt = DPanic unit.
Proof. intros H. wstart w_flatten. rewrite (unnatV_neg _ H). reflexivity. Qed.

(* ================= accessors.go ================= *)

Lemma forallb_le (l : list (nat * nat)) :
  Forall (fun r => (fst r <= snd r)%nat) l -> forallb (fun r => Nat.leb (fst r) (snd r)) l = true.
Proof. induction 1 as [|r l Hr Hl IH]; [reflexivity|]. cbn [forallb]. apply Nat.leb_le in Hr. now rewrite Hr, IH. Qed.

(* the oracle entry copiedSliceOf checks From <= To for every range of the completed index *)
Theorem w_slice_run fuel depth (ds : list nat) (x : nd A) (index : list (nat * nat)) :
  Forall (fun r => (fst r <= snd r)%nat) (completeIndex index ds) ->
  returns (drun fapp unit (dext red) w_slice fuel depth [dnats ds; emb x; dranges index] tt)
          (slice (mkT ds x) index).
Proof.
  intros H. apply forallb_le in H. wstart w_slice. rewrite H. wx.
  unfold slice. cbn [dims data]. wfin.
Qed.

Theorem w_slice_outside fuel depth (ds : list nat) (x : nd A) (index : list (nat * nat)) :
  forallb (fun r => Nat.leb (fst r) (snd r)) (completeIndex index ds) = false ->
  drun fapp unit (dext red) w_slice fuel depth [dnats ds; emb x; dranges index] tt = DPanic unit.
Proof. intros H. wstart w_slice. rewrite H. reflexivity. Qed.

Theorem w_patch_run fuel depth (ds : list nat) (x : nd A) (index : list (nat * nat)) (uds : list nat) (ux : nd A) :
  returns (drun fapp unit (dext red) w_patch fuel depth [dnats ds; emb x; dranges index; dnats uds; emb ux] tt)
          (patch (mkT ds x) index (mkT uds ux)).
Proof.
  wstart w_patch. unfold patch. cbn [dims data].
  destruct (slice (mkT ds x) []) as [o|]; cbn [obind]; [|reflexivity].
  destruct (patchData (completeIndex index uds) ux (data o)) as [d|]; wx; eauto.
Qed.

(* ================= operators.go ================= *)

Theorem w_dot_run fuel depth (d1 : list nat) (x1 : nd A) (d2 : list nat) (x2 : nd A) :
  (1 <= length d1)%nat ->
  returns (drun fapp unit (dext red) w_dot fuel depth [dnats d1; emb x1; dnats d2; emb x2] tt)
          (dot (mkT d1 x1) (mkT d2 x2)).
Proof.
  intros H. apply Nat.leb_le in H. wstart w_dot. rewrite H. wx.
  unfold dot. cbn [dims data]. wfin.
Qed.

Theorem w_dot_outside fuel depth (x1 : nd A) (d2 : list nat) (x2 : nd A) :
  drun fapp unit (dext red) w_dot fuel depth [dnats []; emb x1; dnats d2; emb x2] tt = DPanic unit.
Proof. wstart w_dot. reflexivity. Qed.

(* ================= reducers.go ================= *)

Theorem w_reduceDimUsingFunc_run fuel depth (ds : list nat) (x : nd A) (dim : nat) (trf : dval) :
  (dim <= length ds)%nat ->
  returns (drun fapp unit (dext red) w_reduceDimUsingFunc fuel depth [dnats ds; emb x; DI (Z.of_nat dim); trf] tt)
          (reduceAlong red (mkT ds x) dim).
Proof.
  intros H. apply Nat.leb_le in H. wstart w_reduceDimUsingFunc. rewrite H. wx.
  unfold reduceAlong. cbn [dims data]. wfin.
Qed.

Theorem w_reduceDimUsingFunc_outside fuel depth (ds : list nat) (x : nd A) (dim : nat) (trf : dval) :
  (length ds < dim)%nat ->
  drun fapp unit (dext red) w_reduceDimUsingFunc fuel depth [dnats ds; emb x; DI (Z.of_nat dim); trf] tt = DPanic unit.
Proof. intros H. apply Nat.leb_gt in H. wstart w_reduceDimUsingFunc. rewrite H. reflexivity. Qed.

(* ================= initializers.go ================= *)

Theorem w_constTensor_run fuel depth (v : A) (ds : list nat) :
  returns (drun fapp unit (dext red) w_constTensor fuel depth [DF v; dnats ds] tt) (constTensor v ds).
Proof. wstart w_constTensor. unfold constTensor. wfin. Qed.

Theorem w_eyeMatrix_run fuel depth (n : nat) :
  returns (drun fapp unit (dext red) w_eyeMatrix fuel depth [DI (Z.of_nat n)] tt) (eyeMatrix n).
Proof. wstart w_eyeMatrix. unfold eyeMatrix. wfin. Qed.

(* ================= operators.go: matMul ================= *)

(* dims[:td-2] of the result of matMulDims are the batch dimensions of t1 *)
Lemma matMul_sub (d1 d2 r : list nat) :
  (2 <= length d1)%nat -> matMulDims d1 d2 = Some r ->
  (if (0 <=? 0) && (0 <=? Z.of_nat (length d1) - 2) && (Z.of_nat (length d1) - 2 <=? Z.of_nat (length r))
   then Some (@DL A (firstn (Z.to_nat (Z.of_nat (length d1) - 2 - 0))
                            (skipn (Z.to_nat 0) (map (fun n : nat => @DI A (Z.of_nat n)) r))))
   else None)
  = Some (NL (firstn (length d1 - 2) d1)).
Proof.
  intros H Er. unfold matMulDims in Er.
  destruct (nth_error d1 (length d1 - 2)) as [m|]; cbn [obind] in Er; [|discriminate].
  destruct (nth_error d2 (length d1 - 1)) as [k|]; cbn [obind] in Er; [|discriminate].
  inversion Er; subst r; clear Er.
  assert (Hl : length (firstn (length d1 - 2) d1) = (length d1 - 2)%nat) by (rewrite firstn_length; lia).
  rewrite app_length, Hl. cbn [length].
  replace ((0 <=? 0) && (0 <=? Z.of_nat (length d1) - 2) &&
           (Z.of_nat (length d1) - 2 <=? Z.of_nat (length d1 - 2 + 2))) with true.
  2:{ symmetry. rewrite !andb_true_iff. repeat split; apply Z.leb_le; lia. }
  replace (Z.to_nat (Z.of_nat (length d1) - 2 - 0)) with (length d1 - 2)%nat by lia.
  change (Z.to_nat 0) with 0%nat. cbn [skipn].
  rewrite firstn_map, firstn_app, Hl, Nat.sub_diag. cbn [firstn]. rewrite app_nil_r, firstn_firstn, Nat.min_id.
  reflexivity.
Qed.

Theorem w_matMul_run fuel depth (d1 : list nat) (x1 : nd A) (d2 : list nat) (x2 : nd A) :
  (2 <= length d1)%nat ->
  returns (drun fapp unit (dext red) w_matMul fuel depth [dnats d1; emb x1; dnats d2; emb x2] tt)
          (matMul (mkT d1 x1) (mkT d2 x2)).
Proof.
  intros H. pose proof H as Hb. apply Nat.leb_le in Hb. wstart w_matMul. rewrite Hb. wx.
  unfold matMul. cbn [dims data].
  destruct (matMulDims d1 d2) as [r|] eqn:Er; cbn [obind]; [|reflexivity].
  wx. rewrite (matMul_sub _ _ _ H Er). wx. wfin.
Qed.

Theorem w_matMul_outside fuel depth (d1 : list nat) (x1 : nd A) (d2 : list nat) (x2 : nd A) :
  (length d1 < 2)%nat ->
  drun fapp unit (dext red) w_matMul fuel depth [dnats d1; emb x1; dnats d2; emb x2] tt = DPanic unit.
Proof. intros H. apply Nat.leb_gt in H. wstart w_matMul. rewrite H. reflexivity. Qed.

End DataWrap.

Print Assumptions w_transpose_run.
Print Assumptions w_reshape_run.
Print Assumptions w_broadcast_run.
Print Assumptions w_unSqueeze_run.
Print Assumptions w_squeeze_run.
Print Assumptions w_flatten_run.
Print Assumptions w_slice_run.
Print Assumptions w_patch_run.
Print Assumptions w_dot_run.
Print Assumptions w_matMul_run.
Print Assumptions w_reduceDimUsingFunc_run.
Print Assumptions w_constTensor_run.
Print Assumptions w_eyeMatrix_run.
Print Assumptions w_transpose_outside.
Print Assumptions w_unSqueeze_outside.
Print Assumptions w_squeeze_outside.
Print Assumptions w_flatten_outside.
Print Assumptions w_unSqueeze_negative.
Print Assumptions w_squeeze_negative.
Print Assumptions w_flatten_negative.
Print Assumptions w_slice_outside.
Print Assumptions w_dot_outside.
Print Assumptions w_matMul_outside.
Print Assumptions w_reduceDimUsingFunc_outside.
Print Assumptions unemb_emb.
Print Assumptions unrangesV_dranges.
Print Assumptions unnatsV_dnats.

(* ---- concrete runs over the free term algebra ---- *)
Definition ex_fapp : string -> list term -> option term := fun _ _ => None.
Definition ex_m : nd term := Vec [Vec [Sc (TVal 0 0); Sc (TVal 0 1); Sc (TVal 0 2)]; Vec [Sc (TVal 0 3); Sc (TVal 0 4); Sc (TVal 0 5)]].

Example transpose_example :
  match drun ex_fapp unit (dext RdSum) w_transpose 1 1 [dnats [2; 3]%nat; emb ex_m] tt with
  | DRet _ [d; v] _ _ _ =>
      d = dnats [3; 2]%nat /\
      v = emb (Vec [Vec [Sc (TVal 0 0); Sc (TVal 0 3)]; Vec [Sc (TVal 0 1); Sc (TVal 0 4)]; Vec [Sc (TVal 0 2); Sc (TVal 0 5)]])
  | _ => False
  end.
Proof. vm_compute. split; reflexivity. Qed.

Example slice_matMul_reduce_example :
  (match drun ex_fapp unit (dext RdSum) w_slice 1 1 [dnats [2; 3]%nat; emb ex_m; dranges [(1, 2); (0, 2)]%nat] tt with
   | DRet _ [d; v] _ _ _ => d = dnats [1; 2]%nat /\ v = emb (Vec [Vec [Sc (TVal 0 3); Sc (TVal 0 4)]])
   | _ => False
   end) /\
  (match drun ex_fapp unit (dext RdSum) w_matMul 1 1 [dnats [2; 3]%nat; emb ex_m; dnats [2; 3]%nat; emb ex_m] tt,
         matMul (mkT [2; 3]%nat ex_m) (mkT [2; 3]%nat ex_m) with
   | DPanic _, None => True      (* inner dimensions 3 and 2: the Go code indexes out of range *)
   | _, _ => False
   end) /\
  (match drun ex_fapp unit (dext RdSum) w_reduceDimUsingFunc 1 1 [dnats [2; 3]%nat; emb ex_m; DI 0; DNil] tt,
         reduceAlong RdSum (mkT [2; 3]%nat ex_m) 0 with
   | DRet _ [d; v] _ _ _, Some o => d = dnats [3]%nat /\ d = dnats (dims o) /\ v = emb (data o)
   | _, _ => False
   end).
Proof. vm_compute. repeat split; reflexivity. Qed.

(* outside the guards the programs panic although the model's data-layer function (which assumes validated
   arguments) still returns a value: a rank-1 transpose and an unSqueeze at dim > rank *)
Example outside_examples :
  let v : nd term := Vec [Sc (TVal 0 0); Sc (TVal 0 1)] in
  (drun ex_fapp unit (dext RdSum) w_transpose 1 1 [dnats [2]%nat; emb v] tt = DPanic unit /\
   transpose (mkT [2]%nat v) = Some (mkT [2]%nat v)) /\
  (drun ex_fapp unit (dext RdSum) w_unSqueeze 1 1 [dnats [2]%nat; emb v; DI 5] tt = DPanic unit /\
   unSqueeze (mkT [2]%nat v) 5 = Some (mkT [2; 1]%nat (Vec [Vec [Sc (TVal 0 0)]; Vec [Sc (TVal 0 1)]]))).
Proof. vm_compute. repeat split; reflexivity. Qed.
