(* InitP.v — constructors filled from a stateless or counting generator: Full/Zeros/Ones,
   RandU/RandN and the seven initializers (C18, and the constructor part of C06/C09). *)
From Coq Require Import List Arith ZArith Bool Lia.
From Qeep Require Import Model.Scalar Model.Nd Model.Fill Model.Data Model.Valid Model.Api
     Model.Grad Model.Components Proofs.NdP Proofs.FillP.
Import ListNotations.

Section Init.
Context {A : Type} {SA : Scalar A}.

Lemma iter_S k : forall p, iter nat S k p = p + k.
Proof. induction k as [|k IH]; intros p; cbn; [lia|rewrite IH; lia]. Qed.

Lemma iter_tt k : forall s, iter unit (fun s => s) k s = s.
Proof. induction k as [|k IH]; intros s; cbn; [reflexivity|apply IH]. Qed.

Lemma all_pos_natsOf (ds : list Z) : validateInputDims ds = true ->
  Forall (fun d => 0 < d) (natsOf ds) /\ map Z.of_nat (natsOf ds) = ds.
Proof.
  unfold validateInputDims, natsOf. induction ds as [|d ds IH]; cbn; intros H; [split; constructor|].
  apply andb_true_iff in H as [Hd H]. destruct (IH H) as [IH1 IH2]. split.
  - constructor; [lia|exact IH1].
  - f_equal; [lia|exact IH2].
Qed.

Lemma validateInputDims_false (ds : list Z) : validateInputDims ds = false <-> Exists (fun d => (d <= 0)%Z) ds.
Proof.
  unfold validateInputDims. induction ds as [|d ds IH]; cbn.
  - split; [discriminate|intros H; inversion H].
  - rewrite andb_false_iff, IH. split.
    + intros [H|H]; [left; lia|right; exact H].
    + intros H; inversion H; subst; [left; lia|right; assumption].
Qed.

(* ---- constTensor: Full / Zeros / Ones ---- *)
Theorem constTensor_spec (v : A) (ds : list nat) :
  constTensor v ds = Some (mkT ds (tab ds (fun _ => v))).
Proof.
  unfold constTensor.
  rewrite (initWith_spec A unit (constGen v) (fun _ => Sc v) (fun s => s) (fun _ => True)); [|intros; reflexivity|auto|exact I].
  cbn [obind]. do 2 f_equal.
  rewrite (tabS_tab A unit (fun _ => Sc v) (fun s => s) (fun _ => v)); [reflexivity|reflexivity].
Qed.

Theorem v_full_spec (ds : list Z) (v : A) :
  (validateInputDims ds = true ->
     exists t, v_full ds v = Ok t /\ dims t = natsOf ds /\ wf t /\
               forall idx, validIdx (natsOf ds) idx -> get (data t) idx = Some v) /\
  (validateInputDims ds = false -> v_full ds v = Err).
Proof.
  unfold v_full, guard. split; intros H; rewrite H; [|reflexivity].
  rewrite constTensor_spec. cbn [of_opt]. eexists; split; [reflexivity|]. cbn [dims data].
  split; [reflexivity|]. split.
  - split; [apply wfnd_tab|apply all_pos_natsOf; exact H].
  - intros idx Hv. apply get_tab. exact Hv.
Qed.

(* ---- RandU / RandN: element k (row-major) is the affine image of draw number pos + k ---- *)
Theorem uniformRandomTensor_spec (l u : A) (ds : list nat) (pos : nat) :
  uniformRandomTensor l u ds pos =
  Some (mkT ds (tab ds (fun idx => sadd (smul (srnd false (pos + flatIdx ds idx)) (ssub u l)) l))).
Proof.
  unfold uniformRandomTensor.
  rewrite (initWith_spec A nat (uniformGen l u)
             (fun p => Sc (sadd (smul (srnd false p) (ssub u l)) l)) S (fun _ => True)); [|intros; reflexivity|auto|exact I].
  cbn [obind]. do 2 f_equal.
  rewrite (tabS_tab A nat _ S (fun p => sadd (smul (srnd false p) (ssub u l)) l)); [|reflexivity].
  apply tab_ext. intros idx _. rewrite iter_S. reflexivity.
Qed.

Theorem normalRandomTensor_spec (m s : A) (ds : list nat) (pos : nat) :
  normalRandomTensor m s ds pos =
  Some (mkT ds (tab ds (fun idx => sadd (smul (srnd true (pos + flatIdx ds idx)) s) m))).
Proof.
  unfold normalRandomTensor.
  rewrite (initWith_spec A nat (normalGen m s)
             (fun p => Sc (sadd (smul (srnd true p) s) m)) S (fun _ => True)); [|intros; reflexivity|auto|exact I].
  cbn [obind]. do 2 f_equal.
  rewrite (tabS_tab A nat _ S (fun p => sadd (smul (srnd true p) s) m)); [|reflexivity].
  apply tab_ext. intros idx _. rewrite iter_S. reflexivity.
Qed.

(* the public constructors: parameter check, then shape check, then the tensor above *)
Theorem v_randu_spec (ds : list Z) (l u : A) (lt_ok : bool) (pos : nat) :
  v_randu ds l u lt_ok pos =
  if lt_ok && validateInputDims ds
  then Ok (mkT (natsOf ds) (tab (natsOf ds) (fun idx => sadd (smul (srnd false (pos + flatIdx (natsOf ds) idx)) (ssub u l)) l)))
  else Err.
Proof.
  unfold v_randu, guard. destruct lt_ok; cbn [andb]; [|reflexivity].
  destruct (validateInputDims ds); [|reflexivity]. rewrite uniformRandomTensor_spec. reflexivity.
Qed.

Theorem v_randn_spec (ds : list Z) (m s : A) (pos_ok : bool) (pos : nat) :
  v_randn ds m s pos_ok pos =
  if pos_ok && validateInputDims ds
  then Ok (mkT (natsOf ds) (tab (natsOf ds) (fun idx => sadd (smul (srnd true (pos + flatIdx (natsOf ds) idx)) s) m)))
  else Err.
Proof.
  unfold v_randn, guard. destruct pos_ok; cbn [andb]; [|reflexivity].
  destruct (validateInputDims ds); [|reflexivity]. rewrite normalRandomTensor_spec. reflexivity.
Qed.

(* ---- the initializers ---- *)
Variables (dFull dUniL dUniU dNorM dNorS : dec).

Definition is_uniform_of (t : tensor A) (shape : list Z) (lo hi : A) (pos : nat) : Prop :=
  dims t = natsOf shape /\ wf t /\
  forall idx, validIdx (natsOf shape) idx ->
    get (data t) idx = Some (sadd (smul (srnd false (pos + flatIdx (natsOf shape) idx)) (ssub hi lo)) lo).

Definition is_normal_of (t : tensor A) (shape : list Z) (mu sigma : A) (pos : nat) : Prop :=
  dims t = natsOf shape /\ wf t /\
  forall idx, validIdx (natsOf shape) idx ->
    get (data t) idx = Some (sadd (smul (srnd true (pos + flatIdx (natsOf shape) idx)) sigma) mu).

Lemma tab_wf_pos (shape : list Z) (f : list nat -> A) :
  validateInputDims shape = true -> wf (mkT (natsOf shape) (tab (natsOf shape) f)).
Proof. intros H. split; [apply wfnd_tab|apply all_pos_natsOf; exact H]. Qed.

(* which distribution, with which parameters, every valid initializer draws from *)
Definition init_params (s : initSpec) : option (bool * A * A) :=   (* (normal?, first, second) *)
  match s with
  | IFull _ => None
  | IUniform lu => let '(l, u) := match lu with Some p => p | None => (dUniL, dUniU) end in Some (false, dcst l, dcst u)
  | INormal ms => let '(m, sd) := match ms with Some p => p | None => (dNorM, dNorS) end in Some (true, dcst m, dcst sd)
  | IHeUniform (Some f) => Some (false, ssub (cst 0 0) (sqrtOver 6 f), sqrtOver 6 f)
  | IHeNormal (Some f) => Some (true, cst 0 0, sqrtOver 2 f)
  | IXavierUniform (Some (fi, fo)) => Some (false, ssub (cst 0 0) (sqrtOver 6 (fi + fo)), sqrtOver 6 (fi + fo))
  | IXavierNormal (Some (fi, fo)) => Some (true, cst 0 0, sqrtOver 2 (fi + fo))
  | _ => None
  end.

Theorem init_value_spec (s : initSpec) (shape : list Z) (pos : nat) :
  init_valid dUniL dUniU dNorS s = true ->
  (validateInputDims shape = false -> init_value dFull dUniL dUniU dNorM dNorS s shape pos = Err) /\
  (validateInputDims shape = true ->
     exists t, init_value dFull dUniL dUniU dNorM dNorS s shape pos = Ok t /\
       match s, init_params s with
       | IFull v, _ => dims t = natsOf shape /\ wf t /\
                       forall idx, validIdx (natsOf shape) idx ->
                         get (data t) idx = Some (dcst (match v with Some d => d | None => dFull end))
       | _, Some (false, lo, hi) => is_uniform_of t shape lo hi pos
       | _, Some (true, mu, sigma) => is_normal_of t shape mu sigma pos
       | _, None => False
       end).
Proof.
  intros Hvalid. split; intros Hs.
  - destruct s as [v|[[l u]|]|[[m sd]|]|[f|]|[f|]|[[fi fo]|]|[[fi fo]|]]; cbn [init_valid init_value init_params] in Hvalid |- *; try discriminate;
      try (unfold v_full, guard; rewrite Hs; reflexivity);
      try (rewrite v_randu_spec, Hs, andb_false_r; reflexivity);
      try (rewrite v_randn_spec, Hs, andb_false_r; reflexivity).
  - destruct s as [v|[[l u]|]|[[m sd]|]|[f|]|[f|]|[[fi fo]|]|[[fi fo]|]]; cbn [init_valid init_value init_params] in Hvalid |- *; try discriminate.
    + destruct (v_full_spec shape (dcst (match v with Some d => d | None => dFull end))) as [H1 _].
      destruct (H1 Hs) as (t & E & Hd & Hw & Hg). exists t. split; [exact E|]. repeat split; try assumption; apply Hw.
    + rewrite v_randu_spec, Hvalid, Hs. cbn [andb]. eexists; split; [reflexivity|].
      split; [reflexivity|]. split; [apply tab_wf_pos; exact Hs|]. intros idx Hv. apply get_tab; exact Hv.
    + rewrite v_randu_spec, Hvalid, Hs. cbn [andb]. eexists; split; [reflexivity|].
      split; [reflexivity|]. split; [apply tab_wf_pos; exact Hs|]. intros idx Hv. apply get_tab; exact Hv.
    + rewrite v_randn_spec, Hvalid, Hs. cbn [andb]. eexists; split; [reflexivity|].
      split; [reflexivity|]. split; [apply tab_wf_pos; exact Hs|]. intros idx Hv. apply get_tab; exact Hv.
    + rewrite v_randn_spec, Hvalid, Hs. cbn [andb]. eexists; split; [reflexivity|].
      split; [reflexivity|]. split; [apply tab_wf_pos; exact Hs|]. intros idx Hv. apply get_tab; exact Hv.
    + rewrite v_randu_spec, Hs. cbn [andb]. eexists; split; [reflexivity|].
      split; [reflexivity|]. split; [apply tab_wf_pos; exact Hs|]. intros idx Hv. apply get_tab; exact Hv.
    + rewrite v_randn_spec, Hs. cbn [andb]. eexists; split; [reflexivity|].
      split; [reflexivity|]. split; [apply tab_wf_pos; exact Hs|]. intros idx Hv. apply get_tab; exact Hv.
    + rewrite v_randu_spec, Hs. cbn [andb]. eexists; split; [reflexivity|].
      split; [reflexivity|]. split; [apply tab_wf_pos; exact Hs|]. intros idx Hv. apply get_tab; exact Hv.
    + rewrite v_randn_spec, Hs. cbn [andb]. eexists; split; [reflexivity|].
      split; [reflexivity|]. split; [apply tab_wf_pos; exact Hs|]. intros idx Hv. apply get_tab; exact Hv.
Qed.

End Init.
