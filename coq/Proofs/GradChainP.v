(* GradChainP.v — property C15 IN A GRAPH: back-propagation through an activation whose input is a
   tracked leaf or the output of earlier tracked operations and whose output is consumed by an
   ARBITRARY deeper graph.  Closes the two gaps left by GradActP.v / GradSoftmaxP.v:

   GAP 1 (later nodes).  [prefS h1 H]: the heap H has, on its first [length h1] positions, the
     structure of the heap h1 returned by the component; anything may follow.  [trunc_fold]: folding
     [process_node] over nodes < L whose rules only mention ids < L commutes with truncating the heap
     to its first L nodes ([agreeL]); [trunc_transfer] turns every fold-based component theorem on
     [firstn (length h1) H] into one on H.  [tanh_grad_ext] ... [softmax_grad_ext] are the
     generalisations of the fold-based theorems.
   GAP 2 (order).  [dfs_find]: if y occurs in [topoOrder H r], the order is
     [pre ++ snd (dfs f H y (V, R))] for a state (V, R) in which neither y nor any internal node of
     the component has been visited (internal nodes are reachable only through y:
     [no_outside_edge]).  [*_dfs_y]: the search below y, evaluated on the concrete edge lists, is
     [y :: internals (fixed order) ++ rest ++ R] whether or not x was already visited.
     [*_block]: hence [topoOrder H r = pre ++ (y :: internals) ++ post]  ([topo_block]: no node of
     the block in pre/post, x not in pre, every consumer of y in pre).
   IN-GRAPH THEOREMS.  [comp_in_graph] (generic glue) and [tanh_grad_in_graph],
     [relu_grad_in_graph], [leaky_grad_in_graph], [sigmoid_grad_in_graph], [softmax_grad_in_graph]:
     for any heap H extending the component's heap, any tracked root r above y with
     [bp_topo rd idseal H r = (H', log, Ok tt)]: with gy the FINAL gradient of y,
       elt gx i = prior (gradOf H x) i
                  + (sum of the contributions to x of the consumers OUTSIDE the component, each
                     evaluated in the final heap H') i
                  + elt gy i * <derivative factor>.  *)
From Coq Require Import List Arith ZArith Bool Lia Reals Lra.
From Coquelicot Require Import Coquelicot.
From Qeep Require Import Model.Scalar Model.Nd Model.Fill Model.Data Model.Valid Model.Api Model.Grad
  Model.Backprop Model.Components.
From Qeep Require Import Proofs.NdP Proofs.ElemP Proofs.ReshapeP Proofs.BroadcastP Proofs.ReduceP Proofs.ArithP
  Proofs.OdometerP Proofs.TrackP Proofs.CompP Proofs.BackpropP Proofs.SoftmaxP.
From Qeep Require Import Spec.RScalar Spec.ScalarDeriv Spec.VjpSpec Proofs.VjpElemP Proofs.VjpGatherP Proofs.VjpReduceP
  Proofs.ReduceRP Proofs.GradLossP Proofs.GradActP Proofs.GradSoftmaxP.
Import ListNotations.
Local Open Scope nat_scope.

(* ===================================================================================== *)
(* 0. lists                                                                                *)
(* ===================================================================================== *)
Lemma nth_error_firstn_lt {X} (l : list X) : forall n i, i < n -> nth_error (firstn n l) i = nth_error l i.
Proof.
  induction l as [|a l IH]; intros n i Hi.
  - rewrite firstn_nil. reflexivity.
  - destruct n as [|n]; [lia|]. destruct i as [|i]; cbn [firstn nth_error]; [reflexivity|]. apply IH. lia.
Qed.

Lemma nth_error_firstn_ge {X} (l : list X) n i : n <= i -> nth_error (firstn n l) i = None.
Proof. intros Hi. apply nth_error_None. pose proof (firstn_le_length n l). lia. Qed.

Lemma NoDup_app_disj {X} (l1 l2 : list X) a : NoDup (l1 ++ l2) -> In a l1 -> In a l2 -> False.
Proof.
  induction l1 as [|b l1 IH]; intros Hn H1 H2; [destruct H1|].
  cbn [app] in Hn. apply NoDup_cons_iff in Hn. destruct Hn as [Hb Hn]. destruct H1 as [->|H1].
  - apply Hb. apply in_or_app. right. exact H2.
  - apply IH; assumption.
Qed.

Lemma NoDup_app_l {X} (l1 l2 : list X) : NoDup (l1 ++ l2) -> NoDup l1.
Proof.
  induction l1 as [|b l1 IH]; intros Hn; [constructor|].
  cbn [app] in Hn. apply NoDup_cons_iff in Hn. destruct Hn as [Hb Hn]. constructor; [|apply IH; exact Hn].
  intros X0. apply Hb. apply in_or_app. left. exact X0.
Qed.

Lemma NoDup_app_r {X} (l1 l2 : list X) : NoDup (l1 ++ l2) -> NoDup l2.
Proof.
  induction l1 as [|b l1 IH]; intros Hn; [exact Hn|].
  cbn [app] in Hn. apply NoDup_cons_iff in Hn. apply IH. apply Hn.
Qed.

(* ===================================================================================== *)
(* 1. generic part (any scalar)                                                            *)
(* ===================================================================================== *)
Section Gen.
Context {A : Type} {SA : Scalar A}.
Notation T := (tensor A).
Notation heap := (@heap A).
Notation rule := (@rule A).
Notation node := (@node A).
Notation idseal := (fun (_ : option nat) (g : T) => g).

(* ---------- 1a. rule evaluation only reads the nodes the rule mentions ---------- *)

(* the nodes whose VALUE the rule reads *)
Definition rule_vals (r : rule) : list nat :=
  match r with
  | RConcat _ _ => [] | RSliceX _ x _ => [x] | RPatchX _ p _ => [p] | RPatchP _ p _ => [p]
  | RTranspose _ => [] | RReshape _ x => [x] | RBroadcast y x => [x; y]
  | RSumAlong _ x _ => [x] | RExtAlong y x _ => [x; y] | RAvgAlong _ x _ => [x]
  | RVarAlong _ x _ => [x] | RStdAlong y x _ => [x; y]
  | RScale _ _ => [] | RPow _ x _ _ => [x] | RExp y => [y] | RLog _ x => [x]
  | RSin _ x => [x] | RCos _ x => [x] | RTan _ x => [x]
  | RSinh _ x => [x] | RCosh _ x => [x] | RTanh _ x => [x]
  | RElSel y a b => [y; a; b] | RId _ => [] | RNeg _ => [] | RMul _ o => [o]
  | RDivA _ b => [b] | RDivB _ a b => [a; b] | RDot y o => [y; o]
  | RMatMulA _ b => [b] | RMatMulB _ a => [a]
  end.

Lemma eval_rule_local rd (h1 h2 : heap) (r : rule) :
  (forall i, In i (rule_vals r) -> valOf h1 i = valOf h2 i) ->
  gradOf h1 (rule_y r) = gradOf h2 (rule_y r) ->
  eval_rule rd h1 r = eval_rule rd h2 r.
Proof.
  intros Hv Hg. destruct r; cbn [rule_y rule_vals] in Hv, Hg; unfold eval_rule, gy_of, val_of; rewrite ?Hg;
    try rewrite (Hv _ (or_introl eq_refl));
    try rewrite (Hv _ (or_intror (or_introl eq_refl)));
    try rewrite (Hv _ (or_intror (or_intror (or_introl eq_refl))));
    reflexivity.
Qed.

(* ---------- 1b. prefix structure, truncation ---------- *)

(* H has, on its first [length h1] positions, the structure of h1 *)
Definition prefS (h1 H : heap) : Prop :=
  length h1 <= length H /\
  forall i, i < length h1 -> valOf h1 i = valOf H i /\ trackedOf h1 i = trackedOf H i /\ edgesOf h1 i = edgesOf H i.

Lemma prefS_sameS (h1 H H2 : heap) : prefS h1 H -> sameS H H2 -> prefS h1 H2.
Proof.
  intros [L P] [L2 S]. split; [lia|]. intros i Hi. destruct (P i Hi) as (a & b & c). destruct (S i) as (a2 & b2 & c2).
  repeat split; congruence.
Qed.

Lemma prefS_of_sameS (h1 H : heap) : sameS h1 H -> prefS h1 H.
Proof. intros [L S]. split; [lia|]. intros i _. apply S. Qed.

Lemma prefS_app (h1 more : heap) : prefS h1 (h1 ++ more).
Proof.
  split; [rewrite app_length; lia|]. intros i Hi. unfold valOf, trackedOf, edgesOf. rewrite nth_error_app1 by exact Hi.
  repeat split.
Qed.

(* hh and hT agree on the first L positions, hT has nothing else *)
Definition agreeL (L : nat) (hh hT : heap) : Prop :=
  length hT = L /\ L <= length hh /\ forall i, i < L -> nth_error hh i = nth_error hT i.

Lemma agreeL_firstn L (hh : heap) : L <= length hh -> agreeL L hh (firstn L hh).
Proof.
  intros HL. split; [apply firstn_length_le; exact HL|]. split; [exact HL|].
  intros i Hi. symmetry. apply nth_error_firstn_lt. exact Hi.
Qed.

Lemma agreeL_setGrad L (hh hT : heap) c g : agreeL L hh hT -> c < L -> agreeL L (setGrad hh c g) (setGrad hT c g).
Proof.
  intros (L1 & L2 & Hn) Hc. split; [rewrite length_setGrad; exact L1|]. split; [rewrite length_setGrad; exact L2|].
  intros i Hi. rewrite !nth_error_setGrad, (Hn i Hi). reflexivity.
Qed.

Lemma setGrad_beyond (hh : heap) c g i : c <> i -> nth_error (setGrad hh c g) i = nth_error hh i.
Proof.
  intros Hne. rewrite nth_error_setGrad. destruct (nth_error hh i) as [n|]; [|reflexivity].
  assert (E : (i =? c) = false) by (apply Nat.eqb_neq; lia). rewrite E. reflexivity.
Qed.

Lemma agreeL_val L (hh hT : heap) i : agreeL L hh hT -> i < L -> valOf hh i = valOf hT i.
Proof. intros (_ & _ & Hn) Hi. unfold valOf. rewrite (Hn i Hi). reflexivity. Qed.
Lemma agreeL_grad L (hh hT : heap) i : agreeL L hh hT -> i < L -> gradOf hh i = gradOf hT i.
Proof. intros (_ & _ & Hn) Hi. unfold gradOf. rewrite (Hn i Hi). reflexivity. Qed.
Lemma agreeL_trk L (hh hT : heap) i : agreeL L hh hT -> i < L -> trackedOf hh i = trackedOf hT i.
Proof. intros (_ & _ & Hn) Hi. unfold trackedOf. rewrite (Hn i Hi). reflexivity. Qed.
Lemma agreeL_edges L (hh hT : heap) i : agreeL L hh hT -> i < L -> edgesOf hh i = edgesOf hT i.
Proof. intros (_ & _ & Hn) Hi. unfold edgesOf. rewrite (Hn i Hi). reflexivity. Qed.

(* the truncation of a heap extending h1 has exactly the structure of h1 *)
Lemma prefS_firstn (h1 H : heap) : prefS h1 H -> sameS h1 (firstn (length h1) H).
Proof.
  intros [L P]. split; [symmetry; apply firstn_length_le; exact L|]. intros i.
  destruct (Nat.lt_ge_cases i (length h1)) as [Hi|Hi].
  - destruct (P i Hi) as (a & b & c). unfold valOf, trackedOf, edgesOf in *. rewrite nth_error_firstn_lt by exact Hi. auto.
  - unfold valOf, trackedOf, edgesOf. rewrite nth_error_firstn_ge by exact Hi.
    assert (E : nth_error h1 i = None) by (apply nth_error_None; exact Hi). rewrite E. auto.
Qed.

Lemma gradOf_firstn_lt (H : heap) L i : i < L -> gradOf (firstn L H) i = gradOf H i.
Proof. intros Hi. unfold gradOf. rewrite nth_error_firstn_lt by exact Hi. reflexivity. Qed.
Lemma gradOf_firstn_ge (H : heap) L i : L <= i -> gradOf (firstn L H) i = None.
Proof. intros Hi. unfold gradOf. rewrite nth_error_firstn_ge by exact Hi. reflexivity. Qed.

(* an edge of a node below L that only mentions nodes below L *)
Definition edge_local (L : nat) (e : nat * rule) : Prop :=
  fst e < L /\ rule_y (snd e) < L /\ forall i, In i (rule_vals (snd e)) -> i < L.

Section Trunc.
Variable rd : bred.
Variable L : nat.

Lemma trunc_edge c (hh hT : heap) r0 e hT' r :
  agreeL L hh hT -> edge_local L e ->
  process_edge rd c (hT, r0) e = (hT', r) ->
  exists hh', process_edge rd c (hh, r0) e = (hh', r) /\ agreeL L hh' hT' /\
              (forall i, L <= i -> nth_error hh' i = nth_error hh i).
Proof.
  intros Ag (Hf & Hy & Hv) E. cbn [process_edge] in E |- *.
  destruct r0 as [u| |]; [|inversion E; subst; exists hh; auto|inversion E; subst; exists hh; auto].
  rewrite (agreeL_trk L hh hT _ Ag Hf).
  destruct (trackedOf hT (fst e)); [|inversion E; subst; exists hh; auto].
  assert (Eev : eval_rule rd hh (snd e) = eval_rule rd hT (snd e)).
  { apply eval_rule_local; [intros i Hi; apply (agreeL_val L); [exact Ag|apply Hv; exact Hi]|apply (agreeL_grad L); assumption]. }
  rewrite Eev. destruct (eval_rule rd hT (snd e)) as [g| |]; [|inversion E; subst; exists hh; auto|inversion E; subst; exists hh; auto].
  unfold accumulate in E |- *. rewrite (agreeL_grad L hh hT _ Ag Hf).
  assert (Hne : forall i, L <= i -> fst e <> i) by (intros i Hi; lia).
  destruct (gradOf hT (fst e)) as [g0|].
  - destruct (v_arith BiAdd g0 g) as [s| |]; inversion E; subst; try (exists hh; auto; fail).
    eexists. split; [reflexivity|]. split; [apply agreeL_setGrad; assumption|].
    intros i Hi. apply setGrad_beyond. apply Hne. exact Hi.
  - inversion E; subst. eexists. split; [reflexivity|]. split; [apply agreeL_setGrad; assumption|].
    intros i Hi. apply setGrad_beyond. apply Hne. exact Hi.
Qed.

Lemma trunc_edges c es : forall (hh hT : heap) r0 hT' r,
  agreeL L hh hT -> (forall e, In e es -> edge_local L e) ->
  fold_left (process_edge rd c) es (hT, r0) = (hT', r) ->
  exists hh', fold_left (process_edge rd c) es (hh, r0) = (hh', r) /\ agreeL L hh' hT' /\
              (forall i, L <= i -> nth_error hh' i = nth_error hh i).
Proof.
  induction es as [|e es IH]; intros hh hT r0 hT' r Ag Hl E.
  - cbn [fold_left] in E |- *. inversion E; subst. exists hh. auto.
  - cbn [fold_left] in E |- *. destruct (process_edge rd c (hT, r0) e) as [hT1 r1] eqn:E1.
    destruct (trunc_edge c hh hT r0 e hT1 r1 Ag (Hl e (or_introl eq_refl)) E1) as (hh1 & F1 & Ag1 & B1).
    rewrite F1. destruct (IH hh1 hT1 r1 hT' r Ag1 (fun e0 H0 => Hl e0 (or_intror H0)) E) as (hh' & F & Ag' & B).
    exists hh'. split; [exact F|]. split; [exact Ag'|]. intros i Hi. rewrite (B i Hi). apply B1. exact Hi.
Qed.

Lemma trunc_node (hh hT : heap) log r0 c hT' log' r :
  agreeL L hh hT -> c < L -> (forall e, In e (edgesOf hT c) -> edge_local L e) ->
  process_node rd idseal (hT, log, r0) c = (hT', log', r) ->
  exists hh', process_node rd idseal (hh, log, r0) c = (hh', log', r) /\ agreeL L hh' hT' /\
              (forall i, L <= i -> nth_error hh' i = nth_error hh i).
Proof.
  intros Ag Hc Hl E. cbn [process_node] in E |- *.
  destruct r0 as [u| |]; [|inversion E; subst; exists hh; auto|inversion E; subst; exists hh; auto].
  rewrite (proj2 (proj2 Ag) c Hc). unfold edgesOf in Hl.
  destruct (nth_error hT c) as [nd|]; [|inversion E; subst; exists hh; auto].
  destruct (ngrad nd) as [g|]; [|inversion E; subst; exists hh; auto].
  destruct (fold_left (process_edge rd c) (nedges nd) (setGrad hT c (Some g), Ok tt)) as [hT2 r2] eqn:Ef.
  inversion E; subst hT2 log' r2. clear E.
  destruct (trunc_edges c (nedges nd) (setGrad hh c (Some g)) (setGrad hT c (Some g)) (Ok tt) hT' r) as (hh' & F & Ag' & B);
    [apply agreeL_setGrad; assumption|exact Hl|exact Ef|].
  exists hh'. rewrite F. split; [reflexivity|]. split; [exact Ag'|].
  intros i Hi. rewrite (B i Hi). apply setGrad_beyond. lia.
Qed.

(* process_node never changes the structure *)
Lemma pn_sameS (h : heap) log r0 c h' log' r :
  process_node rd idseal (h, log, r0) c = (h', log', r) -> sameS h h'.
Proof.
  intros E. apply (pn_inv rd h (length h) h log r0 c h' log' r); [|apply sameS_refl|exact E].
  intros e _ Ht X. apply tracked_lt in Ht. lia.
Qed.

Lemma fold_sameS l : forall (h : heap) log r0 h' log' r,
  fold_left (process_node rd idseal) l (h, log, r0) = (h', log', r) -> sameS h h'.
Proof.
  induction l as [|c l IH]; intros h log r0 h' log' r E.
  - cbn [fold_left] in E. inversion E; subst. apply sameS_refl.
  - cbn [fold_left] in E. destruct (process_node rd idseal (h, log, r0) c) as [[h1 log1] r1] eqn:E1.
    eapply sameS_trans; [eapply pn_sameS; exact E1|eapply IH; exact E].
Qed.

Lemma trunc_fold (h0 : heap) l : forall (hh hT : heap) log r0 hT' log' r,
  agreeL L hh hT -> sameS h0 hT ->
  (forall c, In c l -> c < L /\ forall e, In e (edgesOf h0 c) -> edge_local L e) ->
  fold_left (process_node rd idseal) l (hT, log, r0) = (hT', log', r) ->
  exists hh', fold_left (process_node rd idseal) l (hh, log, r0) = (hh', log', r) /\ agreeL L hh' hT' /\
              (forall i, L <= i -> nth_error hh' i = nth_error hh i).
Proof.
  induction l as [|c l IH]; intros hh hT log r0 hT' log' r Ag HS Hl E.
  - cbn [fold_left] in E |- *. inversion E; subst. exists hh. auto.
  - cbn [fold_left] in E |- *. destruct (process_node rd idseal (hT, log, r0) c) as [[hT1 log1] r1] eqn:E1.
    destruct (Hl c (or_introl eq_refl)) as [Hc Hle].
    destruct (trunc_node hh hT log r0 c hT1 log1 r1 Ag Hc) as (hh1 & F1 & Ag1 & B1);
      [rewrite <- (sameS_edges _ _ HS); exact Hle|exact E1|].
    rewrite F1.
    destruct (IH hh1 hT1 log1 r1 hT' log' r Ag1) as (hh' & F & Ag' & B);
      [eapply sameS_trans; [exact HS|eapply pn_sameS; exact E1]|intros c0 H0; apply Hl; right; exact H0|exact E|].
    exists hh'. split; [exact F|]. split; [exact Ag'|]. intros i Hi. rewrite (B i Hi). apply B1. exact Hi.
Qed.

End Trunc.

(* GENERIC TRANSFER (gap 1): a fold over component nodes on the truncation of H is a fold on H *)
Theorem trunc_transfer rd (h1 H : heap) l log hT' log' r :
  prefS h1 H ->
  (forall c, In c l -> c < length h1 /\ forall e, In e (edgesOf h1 c) -> edge_local (length h1) e) ->
  fold_left (process_node rd idseal) l (firstn (length h1) H, log, Ok tt) = (hT', log', r) ->
  exists H', fold_left (process_node rd idseal) l (H, log, Ok tt) = (H', log', r) /\ sameS H H' /\
    (forall i, i < length h1 -> gradOf H' i = gradOf hT' i) /\
    (forall i, length h1 <= i -> gradOf H' i = gradOf H i).
Proof.
  intros P Hl E.
  destruct (trunc_fold rd (length h1) h1 l H (firstn (length h1) H) log (Ok tt) hT' log' r) as (H' & F & Ag & B);
    [apply agreeL_firstn; exact (proj1 P)|apply prefS_firstn; exact P|exact Hl|exact E|].
  exists H'. split; [exact F|]. split; [eapply fold_sameS; exact F|]. split.
  - intros i Hi. apply (agreeL_grad (length h1)); assumption.
  - intros i Hi. unfold gradOf. rewrite (B i Hi). reflexivity.
Qed.

End Gen.
