(* GradChainP.v — property C15 IN A GRAPH: back-propagation through an activation whose input is a
   tracked leaf or the output of earlier tracked operations and whose output is consumed by an
   ARBITRARY deeper graph.  Closes the two gaps left by GradActP.v / GradSoftmaxP.v.

   GAP 1 (later nodes).  [prefS h1 H]: the heap H has, on its first [length h1] positions, the
     structure of the heap h1 returned by the component; anything may follow.  [eval_rule_local]: a
     rule only reads the values of the nodes it mentions ([rule_vals]) and the gradient of its owner.
     [trunc_fold]/[trunc_transfer] (generic): folding [process_node] over nodes < L whose rules only
     mention ids < L commutes with truncating the heap to its first L nodes; so every fold-based
     component theorem on [firstn (length h1) H] is one on H.  [tanh_grad_ext], [relu_grad_ext],
     [leaky_grad_ext], [sigmoid_grad_ext], [softmax_grad_ext]: the fold-based theorems with [prefS]
     in place of [sameS].
   GAP 2 (order).  [dfs_find]/[topo_find]: if y occurs in [topoOrder H r], the order is
     [pre ++ snd (dfs f H y (V, R))] for a state (V, R) in which neither y nor any internal node of the
     component has been visited (internal nodes are reachable only through the component:
     [no_outside_edge]; [*_noe]: true when no later node points at an internal node).
     [tanh_dfs_y] ... [softmax_dfs_y]: the search below y, evaluated on the concrete edge lists, posts
     [y :: internals (fixed order) ++ rest] whether or not x was already visited.  Hence
     [tanh_block] ... [softmax_block]: [topo_block H r x y ints], i.e.
     [topoOrder H r = pre ++ (y :: ints) ++ post], no node of the block in pre/post, x not in pre,
     every consumer of y in pre.
   IN-GRAPH THEOREMS.  [bp_fold_seg]: [bp_fold_spec] for a SEGMENT of the order.  [comp_in_graph]
     (generic glue: bp_topo = fold over pre, over the block, over post) and [tanh_grad_in_graph],
     [relu_grad_in_graph], [leaky_grad_in_graph], [sigmoid_grad_in_graph], [softmax_grad_in_graph]:
     for any heap H extending the component's heap ([prefS], [no_outside_edge], [rules_own],
     [wf_heap]), any root r with y in its order and [bp_topo rd idseal H r = (H', log, Ok tt)], the
     internal nodes holding no gradient in H and x an arbitrary well-shaped prior: with gy the FINAL
     gradient of y (assumed well formed, of x's shape — as are the contributions of x's other
     consumers; no global shape invariant of the rules is proved in this development),
       elt gx i = prior (gradOf H x) i
                  + sumC (contributions rd H' H (outsideOf H r y ints) x) i
                  + elt gy i * <derivative factor>
     where the middle term is the element-wise sum of the contributions of the consumers of x
     OUTSIDE the component, each evaluated in the final heap H'.
   EXAMPLES (non-vacuity): w leaf, x = w.Scale(2) interior, y = Tanh/Relu/Sigmoid(x), root
     r = y.Scale(3); and a Tanh whose input x has a second consumer created after the component. *)
From Coq Require Import List Arith ZArith Bool Lia Reals Lra.
From Coquelicot Require Import Coquelicot.
From Qeep Require Import Model.Scalar Model.Nd Model.Fill Model.Data Model.Valid Model.Api Model.Grad
  Model.Backprop Model.Components.
From Qeep Require Import Proofs.NdP Proofs.ElemP Proofs.ReshapeP Proofs.BroadcastP Proofs.ReduceP Proofs.ArithP
  Proofs.OdometerP Proofs.TrackP Proofs.CompP Proofs.BackpropP Proofs.SoftmaxP.
From Qeep Require Import Spec.RScalar Spec.ScalarDeriv Spec.VjpSpec Proofs.VjpElemP Proofs.VjpGatherP Proofs.VjpReduceP
  Proofs.ReduceRP Proofs.GradLossP Proofs.GradActP Proofs.GradSoftmaxP.
Import ListNotations.
Local Open Scope nat_scope.

(* ===================================================================================== *)
(* 0. lists                                                                                *)
(* ===================================================================================== *)
Lemma nth_error_firstn_lt {X} (l : list X) : forall n i, i < n -> nth_error (firstn n l) i = nth_error l i.
Proof.
  induction l as [|a l IH]; intros n i Hi.
  - rewrite firstn_nil. reflexivity.
  - destruct n as [|n]; [lia|]. destruct i as [|i]; cbn [firstn nth_error]; [reflexivity|]. apply IH. lia.
Qed.

Lemma nth_error_firstn_ge {X} (l : list X) n i : n <= i -> nth_error (firstn n l) i = None.
Proof. intros Hi. apply nth_error_None. pose proof (firstn_le_length n l). lia. Qed.

Lemma NoDup_app_disj {X} (l1 l2 : list X) a : NoDup (l1 ++ l2) -> In a l1 -> In a l2 -> False.
Proof.
  induction l1 as [|b l1 IH]; intros Hn H1 H2; [destruct H1|].
  cbn [app] in Hn. apply NoDup_cons_iff in Hn. destruct Hn as [Hb Hn]. destruct H1 as [->|H1].
  - apply Hb. apply in_or_app. right. exact H2.
  - apply IH; assumption.
Qed.

Lemma NoDup_app_l {X} (l1 l2 : list X) : NoDup (l1 ++ l2) -> NoDup l1.
Proof.
  induction l1 as [|b l1 IH]; intros Hn; [constructor|].
  cbn [app] in Hn. apply NoDup_cons_iff in Hn. destruct Hn as [Hb Hn]. constructor; [|apply IH; exact Hn].
  intros X0. apply Hb. apply in_or_app. left. exact X0.
Qed.

Lemma NoDup_app_r {X} (l1 l2 : list X) : NoDup (l1 ++ l2) -> NoDup l2.
Proof.
  induction l1 as [|b l1 IH]; intros Hn; [exact Hn|].
  cbn [app] in Hn. apply NoDup_cons_iff in Hn. apply IH. apply Hn.
Qed.

(* ===================================================================================== *)
(* 1. generic part (any scalar)                                                            *)
(* ===================================================================================== *)
Section Gen.
Context {A : Type} {SA : Scalar A}.
Notation T := (tensor A).
Notation heap := (@heap A).
Notation rule := (@rule A).
Notation node := (@node A).
Notation idseal := (fun (_ : option nat) (g : T) => g).

(* ---------- 1a. rule evaluation only reads the nodes the rule mentions ---------- *)

(* the nodes whose VALUE the rule reads *)
Definition rule_vals (r : rule) : list nat :=
  match r with
  | RConcat _ _ => [] | RSliceX _ x _ => [x] | RPatchX _ p _ => [p] | RPatchP _ p _ => [p]
  | RTranspose _ => [] | RReshape _ x => [x] | RBroadcast y x => [x; y]
  | RSumAlong _ x _ => [x] | RExtAlong y x _ => [x; y] | RAvgAlong _ x _ => [x]
  | RVarAlong _ x _ => [x] | RStdAlong y x _ => [x; y]
  | RScale _ _ => [] | RPow _ x _ _ => [x] | RExp y => [y] | RLog _ x => [x]
  | RSin _ x => [x] | RCos _ x => [x] | RTan _ x => [x]
  | RSinh _ x => [x] | RCosh _ x => [x] | RTanh _ x => [x]
  | RElSel y a b => [y; a; b] | RId _ => [] | RNeg _ => [] | RMul _ o => [o]
  | RDivA _ b => [b] | RDivB _ a b => [a; b] | RDot y o => [y; o]
  | RMatMulA _ b => [b] | RMatMulB _ a => [a]
  end.

Lemma eval_rule_local rd (h1 h2 : heap) (r : rule) :
  (forall i, In i (rule_vals r) -> valOf h1 i = valOf h2 i) ->
  gradOf h1 (rule_y r) = gradOf h2 (rule_y r) ->
  eval_rule rd h1 r = eval_rule rd h2 r.
Proof.
  intros Hv Hg. destruct r; cbn [rule_y rule_vals] in Hv, Hg; unfold eval_rule, gy_of, val_of; rewrite ?Hg;
    try rewrite (Hv _ (or_introl eq_refl));
    try rewrite (Hv _ (or_intror (or_introl eq_refl)));
    try rewrite (Hv _ (or_intror (or_intror (or_introl eq_refl))));
    reflexivity.
Qed.

(* ---------- 1b. prefix structure, truncation ---------- *)

(* H has, on its first [length h1] positions, the structure of h1 *)
Definition prefS (h1 H : heap) : Prop :=
  length h1 <= length H /\
  forall i, i < length h1 -> valOf h1 i = valOf H i /\ trackedOf h1 i = trackedOf H i /\ edgesOf h1 i = edgesOf H i.

Lemma prefS_sameS (h1 H H2 : heap) : prefS h1 H -> sameS H H2 -> prefS h1 H2.
Proof.
  intros [L P] [L2 S]. split; [lia|]. intros i Hi. destruct (P i Hi) as (a & b & c). destruct (S i) as (a2 & b2 & c2).
  repeat split; congruence.
Qed.

Lemma prefS_of_sameS (h1 H : heap) : sameS h1 H -> prefS h1 H.
Proof. intros [L S]. split; [lia|]. intros i _. apply S. Qed.

Lemma prefS_app (h1 more : heap) : prefS h1 (h1 ++ more).
Proof.
  split; [rewrite app_length; lia|]. intros i Hi. unfold valOf, trackedOf, edgesOf. rewrite nth_error_app1 by exact Hi.
  repeat split.
Qed.

(* hh and hT agree on the first L positions, hT has nothing else *)
Definition agreeL (L : nat) (hh hT : heap) : Prop :=
  length hT = L /\ L <= length hh /\ forall i, i < L -> nth_error hh i = nth_error hT i.

Lemma agreeL_firstn L (hh : heap) : L <= length hh -> agreeL L hh (firstn L hh).
Proof.
  intros HL. split; [apply firstn_length_le; exact HL|]. split; [exact HL|].
  intros i Hi. symmetry. apply nth_error_firstn_lt. exact Hi.
Qed.

Lemma agreeL_setGrad L (hh hT : heap) c g : agreeL L hh hT -> c < L -> agreeL L (setGrad hh c g) (setGrad hT c g).
Proof.
  intros (L1 & L2 & Hn) Hc. split; [rewrite length_setGrad; exact L1|]. split; [rewrite length_setGrad; exact L2|].
  intros i Hi. rewrite !nth_error_setGrad, (Hn i Hi). reflexivity.
Qed.

Lemma setGrad_beyond (hh : heap) c g i : c <> i -> nth_error (setGrad hh c g) i = nth_error hh i.
Proof.
  intros Hne. rewrite nth_error_setGrad. destruct (nth_error hh i) as [n|]; [|reflexivity].
  assert (E : (i =? c) = false) by (apply Nat.eqb_neq; lia). rewrite E. reflexivity.
Qed.

Lemma agreeL_val L (hh hT : heap) i : agreeL L hh hT -> i < L -> valOf hh i = valOf hT i.
Proof. intros (_ & _ & Hn) Hi. unfold valOf. rewrite (Hn i Hi). reflexivity. Qed.
Lemma agreeL_grad L (hh hT : heap) i : agreeL L hh hT -> i < L -> gradOf hh i = gradOf hT i.
Proof. intros (_ & _ & Hn) Hi. unfold gradOf. rewrite (Hn i Hi). reflexivity. Qed.
Lemma agreeL_trk L (hh hT : heap) i : agreeL L hh hT -> i < L -> trackedOf hh i = trackedOf hT i.
Proof. intros (_ & _ & Hn) Hi. unfold trackedOf. rewrite (Hn i Hi). reflexivity. Qed.
Lemma agreeL_edges L (hh hT : heap) i : agreeL L hh hT -> i < L -> edgesOf hh i = edgesOf hT i.
Proof. intros (_ & _ & Hn) Hi. unfold edgesOf. rewrite (Hn i Hi). reflexivity. Qed.

(* the truncation of a heap extending h1 has exactly the structure of h1 *)
Lemma prefS_firstn (h1 H : heap) : prefS h1 H -> sameS h1 (firstn (length h1) H).
Proof.
  intros [L P]. split; [symmetry; apply firstn_length_le; exact L|]. intros i.
  destruct (Nat.lt_ge_cases i (length h1)) as [Hi|Hi].
  - destruct (P i Hi) as (a & b & c). unfold valOf, trackedOf, edgesOf in *. rewrite nth_error_firstn_lt by exact Hi. auto.
  - unfold valOf, trackedOf, edgesOf. rewrite nth_error_firstn_ge by exact Hi.
    assert (E : nth_error h1 i = None) by (apply nth_error_None; exact Hi). rewrite E. auto.
Qed.

Lemma gradOf_firstn_lt (H : heap) L i : i < L -> gradOf (firstn L H) i = gradOf H i.
Proof. intros Hi. unfold gradOf. rewrite nth_error_firstn_lt by exact Hi. reflexivity. Qed.
Lemma gradOf_firstn_ge (H : heap) L i : L <= i -> gradOf (firstn L H) i = None.
Proof. intros Hi. unfold gradOf. rewrite nth_error_firstn_ge by exact Hi. reflexivity. Qed.

(* an edge of a node below L that only mentions nodes below L *)
Definition edge_local (L : nat) (e : nat * rule) : Prop :=
  fst e < L /\ rule_y (snd e) < L /\ forall i, In i (rule_vals (snd e)) -> i < L.

Section Trunc.
Variable rd : bred.
Variable L : nat.

Lemma trunc_edge c (hh hT : heap) r0 e hT' r :
  agreeL L hh hT -> edge_local L e ->
  process_edge rd c (hT, r0) e = (hT', r) ->
  exists hh', process_edge rd c (hh, r0) e = (hh', r) /\ agreeL L hh' hT' /\
              (forall i, L <= i -> nth_error hh' i = nth_error hh i).
Proof.
  intros Ag (Hf & Hy & Hv) E. cbn [process_edge] in E |- *.
  destruct r0 as [u| |]; [|inversion E; subst; exists hh; auto|inversion E; subst; exists hh; auto].
  rewrite (agreeL_trk L hh hT _ Ag Hf).
  destruct (trackedOf hT (fst e)); [|inversion E; subst; exists hh; auto].
  assert (Eev : eval_rule rd hh (snd e) = eval_rule rd hT (snd e)).
  { apply eval_rule_local; [intros i Hi; apply (agreeL_val L); [exact Ag|apply Hv; exact Hi]|apply (agreeL_grad L); assumption]. }
  rewrite Eev. destruct (eval_rule rd hT (snd e)) as [g| |]; [|inversion E; subst; exists hh; auto|inversion E; subst; exists hh; auto].
  unfold accumulate in E |- *. rewrite (agreeL_grad L hh hT _ Ag Hf).
  assert (Hne : forall i, L <= i -> fst e <> i) by (intros i Hi; lia).
  destruct (gradOf hT (fst e)) as [g0|].
  - destruct (v_arith BiAdd g0 g) as [s| |]; inversion E; subst; try (exists hh; auto; fail).
    eexists. split; [reflexivity|]. split; [apply agreeL_setGrad; assumption|].
    intros i Hi. apply setGrad_beyond. apply Hne. exact Hi.
  - inversion E; subst. eexists. split; [reflexivity|]. split; [apply agreeL_setGrad; assumption|].
    intros i Hi. apply setGrad_beyond. apply Hne. exact Hi.
Qed.

Lemma trunc_edges c es : forall (hh hT : heap) r0 hT' r,
  agreeL L hh hT -> (forall e, In e es -> edge_local L e) ->
  fold_left (process_edge rd c) es (hT, r0) = (hT', r) ->
  exists hh', fold_left (process_edge rd c) es (hh, r0) = (hh', r) /\ agreeL L hh' hT' /\
              (forall i, L <= i -> nth_error hh' i = nth_error hh i).
Proof.
  induction es as [|e es IH]; intros hh hT r0 hT' r Ag Hl E.
  - cbn [fold_left] in E |- *. inversion E; subst. exists hh. auto.
  - cbn [fold_left] in E |- *. destruct (process_edge rd c (hT, r0) e) as [hT1 r1] eqn:E1.
    destruct (trunc_edge c hh hT r0 e hT1 r1 Ag (Hl e (or_introl eq_refl)) E1) as (hh1 & F1 & Ag1 & B1).
    rewrite F1. destruct (IH hh1 hT1 r1 hT' r Ag1 (fun e0 H0 => Hl e0 (or_intror H0)) E) as (hh' & F & Ag' & B).
    exists hh'. split; [exact F|]. split; [exact Ag'|]. intros i Hi. rewrite (B i Hi). apply B1. exact Hi.
Qed.

Lemma trunc_node (hh hT : heap) log r0 c hT' log' r :
  agreeL L hh hT -> c < L -> (forall e, In e (edgesOf hT c) -> edge_local L e) ->
  process_node rd idseal (hT, log, r0) c = (hT', log', r) ->
  exists hh', process_node rd idseal (hh, log, r0) c = (hh', log', r) /\ agreeL L hh' hT' /\
              (forall i, L <= i -> nth_error hh' i = nth_error hh i).
Proof.
  intros Ag Hc Hl E. cbn [process_node] in E |- *.
  destruct r0 as [u| |]; [|inversion E; subst; exists hh; auto|inversion E; subst; exists hh; auto].
  rewrite (proj2 (proj2 Ag) c Hc). unfold edgesOf in Hl.
  destruct (nth_error hT c) as [nd|]; [|inversion E; subst; exists hh; auto].
  destruct (ngrad nd) as [g|]; [|inversion E; subst; exists hh; auto].
  destruct (fold_left (process_edge rd c) (nedges nd) (setGrad hT c (Some g), Ok tt)) as [hT2 r2] eqn:Ef.
  inversion E; subst hT2 log' r2. clear E.
  destruct (trunc_edges c (nedges nd) (setGrad hh c (Some g)) (setGrad hT c (Some g)) (Ok tt) hT' r) as (hh' & F & Ag' & B);
    [apply agreeL_setGrad; assumption|exact Hl|exact Ef|].
  exists hh'. rewrite F. split; [reflexivity|]. split; [exact Ag'|].
  intros i Hi. rewrite (B i Hi). apply setGrad_beyond. lia.
Qed.

(* process_node never changes the structure *)
Lemma pn_sameS (h : heap) log r0 c h' log' r :
  process_node rd idseal (h, log, r0) c = (h', log', r) -> sameS h h'.
Proof.
  intros E. apply (pn_inv rd h (length h) h log r0 c h' log' r); [|apply sameS_refl|exact E].
  intros e _ Ht X. apply tracked_lt in Ht. lia.
Qed.

Lemma fold_sameS l : forall (h : heap) log r0 h' log' r,
  fold_left (process_node rd idseal) l (h, log, r0) = (h', log', r) -> sameS h h'.
Proof.
  induction l as [|c l IH]; intros h log r0 h' log' r E.
  - cbn [fold_left] in E. inversion E; subst. apply sameS_refl.
  - cbn [fold_left] in E. destruct (process_node rd idseal (h, log, r0) c) as [[h1 log1] r1] eqn:E1.
    eapply sameS_trans; [eapply pn_sameS; exact E1|eapply IH; exact E].
Qed.

Lemma trunc_fold (h0 : heap) l : forall (hh hT : heap) log r0 hT' log' r,
  agreeL L hh hT -> sameS h0 hT ->
  (forall c, In c l -> c < L /\ forall e, In e (edgesOf h0 c) -> edge_local L e) ->
  fold_left (process_node rd idseal) l (hT, log, r0) = (hT', log', r) ->
  exists hh', fold_left (process_node rd idseal) l (hh, log, r0) = (hh', log', r) /\ agreeL L hh' hT' /\
              (forall i, L <= i -> nth_error hh' i = nth_error hh i).
Proof.
  induction l as [|c l IH]; intros hh hT log r0 hT' log' r Ag HS Hl E.
  - cbn [fold_left] in E |- *. inversion E; subst. exists hh. auto.
  - cbn [fold_left] in E |- *. destruct (process_node rd idseal (hT, log, r0) c) as [[hT1 log1] r1] eqn:E1.
    destruct (Hl c (or_introl eq_refl)) as [Hc Hle].
    destruct (trunc_node hh hT log r0 c hT1 log1 r1 Ag Hc) as (hh1 & F1 & Ag1 & B1);
      [rewrite <- (sameS_edges _ _ HS); exact Hle|exact E1|].
    rewrite F1.
    destruct (IH hh1 hT1 log1 r1 hT' log' r Ag1) as (hh' & F & Ag' & B);
      [eapply sameS_trans; [exact HS|eapply pn_sameS; exact E1]|intros c0 H0; apply Hl; right; exact H0|exact E|].
    exists hh'. split; [exact F|]. split; [exact Ag'|]. intros i Hi. rewrite (B i Hi). apply B1. exact Hi.
Qed.

End Trunc.

(* GENERIC TRANSFER (gap 1): a fold over component nodes on the truncation of H is a fold on H *)
Theorem trunc_transfer rd (h1 H : heap) l log hT' log' r :
  prefS h1 H ->
  (forall c, In c l -> c < length h1 /\ forall e, In e (edgesOf h1 c) -> edge_local (length h1) e) ->
  fold_left (process_node rd idseal) l (firstn (length h1) H, log, Ok tt) = (hT', log', r) ->
  exists H', fold_left (process_node rd idseal) l (H, log, Ok tt) = (H', log', r) /\ sameS H H' /\
    (forall i, i < length h1 -> gradOf H' i = gradOf hT' i) /\
    (forall i, length h1 <= i -> gradOf H' i = gradOf H i).
Proof.
  intros P Hl E.
  destruct (trunc_fold rd (length h1) h1 l H (firstn (length h1) H) log (Ok tt) hT' log' r) as (H' & F & Ag & B);
    [apply agreeL_firstn; exact (proj1 P)|apply prefS_firstn; exact P|exact Hl|exact E|].
  exists H'. split; [exact F|]. split; [eapply fold_sameS; exact F|]. split.
  - intros i Hi. apply (agreeL_grad (length h1)); assumption.
  - intros i Hi. unfold gradOf. rewrite (B i Hi). reflexivity.
Qed.

End Gen.

(* ===================================================================================== *)
(* 2. the processing order: segments of an ordered duplicate-free list, the search below y  *)
(* ===================================================================================== *)
Section Order.
Context {A : Type} {SA : Scalar A}.
Notation T := (tensor A).
Notation heap := (@heap A).
Notation rule := (@rule A).
Notation idseal := (fun (_ : option nat) (g : T) => g).

Lemma ordered_app_r (h : heap) : forall l1 l2, ordered h (l1 ++ l2) -> ordered h l2.
Proof. induction l1 as [|a l1 IH]; intros l2 Ho; [exact Ho|]. cbn [app ordered] in Ho. apply IH. apply Ho. Qed.

(* in an ordered duplicate-free list no node of a later segment has a tracked edge into an earlier one *)
Lemma ord_split (h : heap) l1 l2 c e :
  NoDup (l1 ++ l2) -> ordered h (l1 ++ l2) -> In c l2 -> In e (edgesOf h c) -> trackedOf h (fst e) = true ->
  ~ In (fst e) l1.
Proof.
  intros Hn Ho Hc He Ht X. apply (NoDup_app_disj l1 l2 (fst e) Hn X).
  eapply ordered_in; [eapply ordered_app_r; exact Ho|exact Hc|exact He|exact Ht].
Qed.

(* no node of the rest has a tracked edge into the head: what [bp_fold_spec] really needs *)
Fixpoint noback (h : heap) (l : list nat) : Prop :=
  match l with
  | [] => True
  | c :: rest => (forall c' e, In c' rest -> In e (edgesOf h c') -> trackedOf h (fst e) = true -> fst e <> c) /\ noback h rest
  end.

Lemma noback_sameS (h1 h2 : heap) l : sameS h1 h2 -> noback h1 l -> noback h2 l.
Proof.
  intros HS. induction l as [|c l IH]; cbn [noback]; [trivial|]. intros [Hc Hl]. split; [|auto].
  intros c' e Hc' He Ht. rewrite <- (sameS_edges _ _ HS) in He. rewrite <- (sameS_trk _ _ HS) in Ht. eauto.
Qed.

Lemma noback_of_ordered (h : heap) : forall l, NoDup l -> ordered h l -> noback h l.
Proof.
  induction l as [|c l IH]; intros Hn Ho; cbn [noback]; [trivial|].
  apply NoDup_cons_iff in Hn. destruct Hn as [Hc Hn]. destruct Ho as [_ Ho]. split; [|apply IH; assumption].
  intros c' e Hc' He Ht X. apply Hc. rewrite <- X. eapply ordered_in; eauto.
Qed.

Lemma noback_app_r (h : heap) : forall l1 l2, noback h (l1 ++ l2) -> noback h l2.
Proof. induction l1 as [|a l1 IH]; intros l2 Hb; [exact Hb|]. cbn [app noback] in Hb. apply IH. apply Hb. Qed.

Lemma noback_app_l (h : heap) : forall l1 l2, noback h (l1 ++ l2) -> noback h l1.
Proof.
  induction l1 as [|a l1 IH]; intros l2 Hb; cbn [noback]; [trivial|]. cbn [app noback] in Hb. destruct Hb as [Ha Hb].
  split; [|eapply IH; exact Hb]. intros c' e Hc'. apply Ha. apply in_or_app. left. exact Hc'.
Qed.

Section Run.
Variable rd : bred.

Lemma fold_app_ok l1 l2 (h : heap) log h' log' :
  fold_left (process_node rd idseal) (l1 ++ l2) (h, log, Ok tt) = (h', log', Ok tt) ->
  exists h1 log1, fold_left (process_node rd idseal) l1 (h, log, Ok tt) = (h1, log1, Ok tt) /\
                  fold_left (process_node rd idseal) l2 (h1, log1, Ok tt) = (h', log', Ok tt).
Proof.
  rewrite fold_left_app. destruct (fold_left (process_node rd idseal) l1 (h, log, Ok tt)) as [[h1 log1] r1].
  intros E. destruct r1 as [[]| |].
  - exists h1, log1. auto.
  - rewrite pn_sticky in E by discriminate. inversion E.
  - rewrite pn_sticky in E by discriminate. inversion E.
Qed.

(* [bp_fold_spec] for a SEGMENT of the order: the targets of the segment's edges may lie outside it *)
Lemma bp_fold_seg l : forall (h : heap) log h' log',
  rules_own h -> wf_heap h -> NoDup l -> noback h l ->
  fold_left (process_node rd idseal) l (h, log, Ok tt) = (h', log', Ok tt) ->
  sameS h h' /\
  (forall n, trackedOf h n = true -> accAll (gradOf h n) (contributions rd h' h l n) = Some (gradOf h' n)) /\
  (forall n, trackedOf h n = false -> gradOf h' n = gradOf h n).
Proof.
  induction l as [|c l IH]; intros h log h' log' Hown Hwf Hnd Hnb E.
  - cbn [fold_left] in E. inversion E; subst h' log'. split; [apply sameS_refl|]. split; intros n _; reflexivity.
  - destruct (pn_fold_cons rd _ _ _ _ _ _ E) as (h1 & log1 & E1 & E2).
    destruct (process_node_spec rd _ _ _ _ _ Hown Hwf E1) as (NS & Nc & Nacc & Nun & _ & _).
    apply NoDup_cons_iff in Hnd. destruct Hnd as [Hnc Hnd']. destruct Hnb as [Hc Hnb'].
    assert (Hown1 : rules_own h1) by (eapply rules_own_sameS; eauto).
    assert (Hwf1 : wf_heap h1) by (eapply wf_heap_sameS; eauto).
    assert (Hnb1 : noback h1 l) by (eapply noback_sameS; eauto).
    destruct (IH h1 log1 h' log' Hown1 Hwf1 Hnd' Hnb1 E2) as (IS & Iacc & Iun). clear IH.
    assert (Hfin : gradOf h' c = gradOf h c).
    { rewrite <- Nc. destruct (trackedOf h1 c) eqn:Hct1; [|apply Iun; exact Hct1].
      assert (Hct : trackedOf h c = true) by (rewrite (sameS_trk _ _ NS); exact Hct1).
      specialize (Iacc c Hct1). unfold contributions in Iacc. rewrite flat_map_nil' in Iacc; [cbn [accAll] in Iacc; congruence|].
      intros c' Hc'. apply flat_map_nil'. intros e He. unfold contrib_e.
      destruct (fst e =? c) eqn:Ee; [|reflexivity]. apply Nat.eqb_eq in Ee. exfalso.
      apply (Hc c' e Hc'); [rewrite (sameS_edges _ _ NS); exact He|rewrite Ee; exact Hct|exact Ee]. }
    assert (HSf : sameS h h') by (eapply sameS_trans; eauto).
    assert (Hextc : forall n e, In e (edgesOf h c) -> contrib_e rd h' n e = contrib_e rd h n e).
    { intros n e He. apply contrib_e_ext; [intros i; symmetry; apply (sameS_val _ _ HSf)|].
      rewrite (rules_own_edgesOf _ Hown _ _ He). exact Hfin. }
    split; [exact HSf|]. split.
    + intros n Hn. unfold contributions. cbn [flat_map]. fold (contributions rd h' h l n).
      rewrite accAll_app. rewrite (flat_map_ext_in' _ _ _ (Hextc n)). rewrite (Nacc n Hn).
      rewrite (contributions_sameS rd h' h h1 l n NS). apply Iacc. rewrite <- (sameS_trk _ _ NS). exact Hn.
    + intros n Hn. rewrite Iun; [apply Nun; exact Hn|]. rewrite <- (sameS_trk _ _ NS). exact Hn.
Qed.

(* contributions evaluated in two heaps in which the consumers hold the same gradients *)
Lemma contributions_ext (hf1 hf2 hs : heap) l n :
  rules_own hs -> (forall i, valOf hf1 i = valOf hf2 i) -> (forall c, In c l -> gradOf hf1 c = gradOf hf2 c) ->
  contributions rd hf1 hs l n = contributions rd hf2 hs l n.
Proof.
  intros Hown Hv Hg. unfold contributions. apply flat_map_ext_in'. intros c Hc. apply flat_map_ext_in'. intros e He.
  apply contrib_e_ext; [exact Hv|]. rewrite (rules_own_edgesOf _ Hown _ _ He). apply Hg. exact Hc.
Qed.

Lemma contributions_app (hf hs : heap) l1 l2 n :
  contributions rd hf hs (l1 ++ l2) n = contributions rd hf hs l1 n ++ contributions rd hf hs l2 n.
Proof. unfold contributions. apply flat_map_app. Qed.

End Run.

(* ---------- the search reaches y from a state in which the component is untouched ---------- *)
Section Find.
Variable H : heap.
Hypothesis W : wf_heap H.
Variables (y : nat) (ints : list nat).

(* internal nodes are reachable only through the component *)
Definition no_outside_edge : Prop :=
  forall c e, In e (edgesOf H c) -> In (fst e) ints -> In c (y :: ints).
Hypothesis NE : no_outside_edge.

(* an internal node is visited only after y *)
Definition Iv (V : list nat) : Prop := forall n, In n ints -> In n V -> In y V.

Lemma dfs_mono fuel n st : incl (fst st) (fst (dfs fuel H n st)).
Proof.
  destruct (dfs_grow H W fuel n st) as (nv & nr & E & _). rewrite E. cbn [fst]. intros a Ha. apply in_or_app. right. exact Ha.
Qed.

Lemma dfs_snd_grow fuel n st : exists nr, snd (dfs fuel H n st) = nr ++ snd st.
Proof. destruct (dfs_grow H W fuel n st) as (nv & nr & E & _). rewrite E. exists nr. reflexivity. Qed.

Lemma dfs_fold_snd_grow fuel (es : list (nat * rule)) : forall s,
  exists nr, snd (fold_left (fun s e => dfs fuel H (fst e) s) es s) = nr ++ snd s.
Proof.
  induction es as [|e es IH]; intros s; cbn [fold_left]; [exists []; reflexivity|].
  destruct (IH (dfs fuel H (fst e) s)) as (nr2 & E2). destruct (dfs_snd_grow fuel (fst e) s) as (nr1 & E1).
  exists (nr2 ++ nr1). rewrite E2, E1, app_assoc. reflexivity.
Qed.

Lemma dfs_Iv fuel : forall n st, Iv (fst st) -> (In n ints -> In y (fst st)) -> Iv (fst (dfs fuel H n st)).
Proof.
  induction fuel as [|f IH]; intros n st HI Hn; [exact HI|]. cbn [dfs].
  destruct (negb (trackedOf H n) || memb n (fst st)); [exact HI|]. cbn [fst].
  assert (Hfold : forall (es : list (nat * rule)) s, (forall e, In e es -> In e (edgesOf H n)) ->
            Iv (fst s) -> In n (fst s) -> (In n ints -> In y (fst s)) ->
            Iv (fst (fold_left (fun s e => dfs f H (fst e) s) es s))).
  { induction es as [|e es IHes]; intros s Hes HIs Hns Hys; cbn [fold_left]; [exact HIs|].
    apply IHes.
    - intros e0 H0. apply Hes. right. exact H0.
    - apply IH; [exact HIs|]. intros Hi. destruct (NE n e (Hes e (or_introl eq_refl)) Hi) as [<-|Hni]; [exact Hns|apply Hys; exact Hni].
    - apply dfs_mono. exact Hns.
    - intros Hni. apply dfs_mono. apply Hys. exact Hni. }
  apply Hfold.
  - intros e He. exact He.
  - intros m Hm [<-|Hv]; [right; apply Hn; exact Hm|right; exact (HI m Hm Hv)].
  - left. reflexivity.
  - intros Hni. right. apply Hn. exact Hni.
Qed.

(* FIRST VISIT: if y is posted during a call, the posted list is [pre ++ (what the call at y posts)] and
   that call starts from a state satisfying the invariant in which y is not visited *)
Lemma dfs_find fuel : forall n st,
  Iv (fst st) -> (In n ints -> In y (fst st)) -> n < fuel ->
  In y (snd (dfs fuel H n st)) -> ~ In y (snd st) ->
  exists f V R pre, y < f /\ memb y V = false /\ trackedOf H y = true /\ Iv V /\
    snd (dfs fuel H n st) = pre ++ snd (dfs f H y (V, R)).
Proof.
  induction fuel as [|f IH]; intros n st HI Hn Hlt Hin Hnot; [lia|].
  cbn [dfs] in Hin |- *.
  destruct (negb (trackedOf H n) || memb n (fst st)) eqn:Ec; [contradiction|].
  apply orb_false_iff in Ec. destruct Ec as [Et Em]. apply negb_false_iff in Et.
  cbn [snd] in Hin |- *.
  destruct (Nat.eq_dec n y) as [->|Hny].
  - exists (S f), (fst st), (snd st), []. split; [exact Hlt|]. split; [exact Em|]. split; [exact Et|]. split; [exact HI|].
    cbn [app dfs fst snd]. rewrite Et, Em. reflexivity.
  - destruct Hin as [Hin|Hin]; [congruence|].
    assert (Hfold : forall (es : list (nat * rule)) s, (forall e, In e es -> In e (edgesOf H n)) ->
              Iv (fst s) -> In n (fst s) -> (In n ints -> In y (fst s)) ->
              In y (snd (fold_left (fun s e => dfs f H (fst e) s) es s)) -> ~ In y (snd s) ->
              exists f' V R pre, y < f' /\ memb y V = false /\ trackedOf H y = true /\ Iv V /\
                snd (fold_left (fun s e => dfs f H (fst e) s) es s) = pre ++ snd (dfs f' H y (V, R))).
    { induction es as [|e es IHes]; intros s Hes HIs Hns Hys Hiny Hnoty; cbn [fold_left] in Hiny |- *; [contradiction|].
      assert (Hpre : In (fst e) ints -> In y (fst s)).
      { intros Hi. destruct (NE n e (Hes e (or_introl eq_refl)) Hi) as [<-|Hni]; [exact Hns|apply Hys; exact Hni]. }
      destruct (in_dec Nat.eq_dec y (snd (dfs f H (fst e) s))) as [Hy1|Hy1].
      - destruct (IH (fst e) s HIs Hpre) as (f' & V & R & pre & A1 & A2 & A3 & A4 & A5); [|exact Hy1|exact Hnoty|].
        { pose proof (wf_heap_edgesOf _ W _ _ (Hes e (or_introl eq_refl))). lia. }
        destruct (dfs_fold_snd_grow f es (dfs f H (fst e) s)) as (nr & Enr).
        exists f', V, R, (nr ++ pre). repeat (split; [assumption|]). rewrite Enr, A5, app_assoc. reflexivity.
      - apply IHes.
        + intros e0 H0. apply Hes. right. exact H0.
        + apply dfs_Iv; assumption.
        + apply dfs_mono. exact Hns.
        + intros Hni. apply dfs_mono. apply Hys. exact Hni.
        + exact Hiny.
        + exact Hy1. }
    destruct (Hfold (edgesOf H n) (n :: fst st, snd st)) as (f' & V & R & pre & A1 & A2 & A3 & A4 & A5).
    + intros e He. exact He.
    + cbn [fst]. intros m Hm [<-|Hv]; [right; apply Hn; exact Hm|right; exact (HI m Hm Hv)].
    + left. reflexivity.
    + intros Hni. right. apply Hn. exact Hni.
    + exact Hin.
    + exact Hnot.
    + exists f', V, R, (n :: pre). repeat (split; [assumption|]). rewrite A5. reflexivity.
Qed.

Hypothesis Hlow : forall n, In n ints -> n < y.

Theorem topo_find r : In y (topoOrder H r) ->
  exists f V R pre, y < f /\ ~ In y V /\ (forall n, In n ints -> ~ In n V) /\ trackedOf H y = true /\
    topoOrder H r = pre ++ snd (dfs f H y (V, R)).
Proof.
  intros Hin. unfold topoOrder in *.
  assert (Hyr : y <= r).
  { destruct (dfs_new H W (S r) r ([], [])) as (new & En & Hnew). rewrite En in Hin. cbn [snd] in Hin. rewrite app_nil_r in Hin.
    apply (Hnew y Hin). }
  destruct (dfs_find (S r) r ([], [])) as (f & V & R & pre & A1 & A2 & A3 & A4 & A5).
  - intros n _ [].
  - intros Hi. specialize (Hlow r Hi). lia.
  - lia.
  - exact Hin.
  - intros [].
  - exists f, V, R, pre. split; [exact A1|]. assert (Hyv : ~ In y V) by (intros X; apply memb_in in X; congruence).
    split; [exact Hyv|]. split; [intros n Hn X; apply Hyv; apply (A4 n Hn X)|]. split; [exact A3|exact A5].
Qed.

End Find.

(* ---------- what a block in the order entails ---------- *)
Definition topo_block (H : heap) (r x y : nat) (ints : list nat) : Prop :=
  exists pre post,
    topoOrder H r = pre ++ (y :: ints) ++ post /\
    (forall n, In n (y :: ints) -> ~ In n pre /\ ~ In n post) /\
    ~ In x pre /\
    (forall c e, In c (topoOrder H r) -> In e (edgesOf H c) -> fst e = y -> In c pre).

Lemma topo_block_intro (H : heap) r x y ints pre post cx ex :
  wf_heap H -> trackedOf H r = true ->
  topoOrder H r = pre ++ (y :: ints) ++ post ->
  In cx (y :: ints) -> In ex (edgesOf H cx) -> fst ex = x -> trackedOf H x = true ->
  topo_block H r x y ints.
Proof.
  intros W Hr E Hcx Hex Hfx Tx.
  destruct (topoOrder_facts H r W Hr) as (Hnd & Htr & Hord & _). cbv zeta in *. rewrite E in Hnd, Hord, Htr.
  exists pre, post. split; [exact E|]. split; [|split].
  - intros n Hn. split; intros X.
    + apply (NoDup_app_disj pre ((y :: ints) ++ post) n Hnd X). apply in_or_app. left. exact Hn.
    + rewrite app_assoc in Hnd. apply (NoDup_app_disj (pre ++ y :: ints) post n Hnd); [apply in_or_app; right; exact Hn|exact X].
  - intros X. subst x. apply (ord_split H pre ((y :: ints) ++ post) cx ex Hnd Hord); [apply in_or_app; left; exact Hcx|exact Hex|exact Tx|exact X].
  - intros c e Hc He Hfe. rewrite E in Hc. apply in_app_or in Hc. destruct Hc as [Hc|Hc]; [exact Hc|exfalso].
    assert (Ty : trackedOf H y = true) by (apply Htr; apply in_or_app; right; left; reflexivity).
    destruct Hc as [<-|Hc].
    + pose proof (wf_heap_edgesOf _ W _ _ He). lia.
    + change (pre ++ (y :: ints) ++ post) with (pre ++ [y] ++ (ints ++ post)) in Hnd, Hord. rewrite app_assoc in Hnd, Hord.
      apply (ord_split H (pre ++ [y]) (ints ++ post) c e Hnd Hord Hc He); [rewrite Hfe; exact Ty|].
      rewrite Hfe. apply in_or_app. right. left. reflexivity.
Qed.

End Order.

(* ===================================================================================== *)
(* 3. the search below y on the concrete edge lists of the five components                  *)
(* ===================================================================================== *)
Lemma memb_notin n l : ~ In n l -> memb n l = false.
Proof. intros Hn. destruct (memb n l) eqn:E; [|reflexivity]. apply memb_in in E. contradiction. Qed.

(* [lia] on the arithmetic hypotheses only *)
Ltac nlia :=
  repeat match goal with
         | H : ?P |- _ =>
             lazymatch type of P with Prop => idtac end;
             lazymatch P with
             | @eq nat _ _ => fail | lt _ _ => fail | le _ _ => fail | not (@eq nat _ _) => fail
             | or _ _ => fail | and _ _ => fail | _ => idtac
             end; clear H
         end; lia.

Ltac in_solve :=
  repeat match goal with
         | Hyp : ?G |- ?G => exact Hyp
         | |- In _ (_ :: _) => first [left; reflexivity | right]
         | |- In _ (_ ++ _) => apply in_or_app; right
         end.

(* X : a membership in an explicit list  c1 :: ... :: nv ++ ... :: V ; Bv bounds the elements of nv *)
Ltac kill X Bv :=
  lazymatch type of X with
  | _ \/ _ => let X1 := fresh "X" in destruct X as [X1|X]; [kill X1 Bv | kill X Bv]
  | False => destruct X
  | @eq nat _ _ => nlia
  | In _ _ => first [ contradiction | apply Bv in X; nlia ]
  end.
Ltac notin_solve Bv :=
  apply memb_notin; let X := fresh "X" in intro X; repeat (cbn [In] in X || rewrite in_app_iff in X); kill X Bv.

Section DfsEval.
Context {A : Type} {SA : Scalar A}.
Notation heap := (@heap A).
Notation rule := (@rule A).
Variable H : heap.
Hypothesis W : wf_heap H.

Lemma dfs_node1 f n t (r : rule) V R : trackedOf H n = true -> memb n V = false -> edgesOf H n = [(t, r)] ->
  dfs (S f) H n (V, R) = post n (dfs f H t (n :: V, R)).
Proof. intros Et Em Ee. cbn [dfs fst snd]. rewrite Et, Em, Ee. reflexivity. Qed.

Lemma dfs_node2 f n t1 (r1 : rule) t2 (r2 : rule) V R :
  trackedOf H n = true -> memb n V = false -> edgesOf H n = [(t1, r1); (t2, r2)] ->
  dfs (S f) H n (V, R) = post n (dfs f H t2 (dfs f H t1 (n :: V, R))).
Proof. intros Et Em Ee. cbn [dfs fst snd]. rewrite Et, Em, Ee. reflexivity. Qed.

(* the input x: visited now or before; either way it is visited afterwards and only nodes <= x are added *)
Lemma dfs_at f x V R : x < f -> trackedOf H x = true ->
  exists nv nr, dfs f H x (V, R) = (nv ++ V, nr ++ R) /\
    (forall m, In m nv -> m <= x) /\ (forall m, In m nr -> m <= x) /\ In x (nv ++ V).
Proof.
  intros Hf Tx. destruct (memb x V) eqn:Em.
  - exists [], []. rewrite dfs_v by exact Em. cbn [app]. split; [reflexivity|]. split; [intros m []|]. split; [intros m []|].
    apply memb_in. exact Em.
  - destruct (dfs_cut H W f x V R Hf Tx Em) as (nv & rest & E & Bv & Hx & Br & _).
    exists nv, (x :: rest). rewrite E. split; [reflexivity|]. split; [exact Bv|]. split.
    + intros m [<-|Hm]; [lia|]. specialize (Br m Hm). lia.
    + apply in_or_app. left. exact Hx.
Qed.

Ltac step1 n r Tn En Bv := erewrite (dfs_node1 _ n _ r); [|exact Tn|notin_solve Bv|exact En].
Ltac step2 n r r' Tn En Bv := erewrite (dfs_node2 _ n _ r _ r'); [|exact Tn|notin_solve Bv|exact En].
Ltac seen n := rewrite (dfs_v H _ n) by (cbn [fst]; apply memb_in; in_solve).

Lemma tanh_dfs_y f x y (r1 : rule) V R :
  edgesOf H y = [(x, r1)] -> trackedOf H y = true -> y < f -> ~ In y V ->
  exists V' rest, dfs f H y (V, R) = (V', y :: rest ++ R).
Proof.
  intros Ey Ty Hf Ny. destruct f as [|f]; [lia|].
  rewrite (dfs_node1 f y x r1 V R Ty (memb_notin _ _ Ny) Ey).
  destruct (dfs_grow H W f x (y :: V, R)) as (nv & nr & E & _). rewrite E, post_pair. cbn [fst snd].
  eexists _, nr. reflexivity.
Qed.

Lemma relu_dfs_y f x z y (r1 r2 r3 : rule) V R :
  edgesOf H y = [(z, r1); (x, r2)] -> edgesOf H z = [(x, r3)] ->
  trackedOf H y = true -> trackedOf H z = true -> trackedOf H x = true ->
  x < z -> z < y -> y < f -> ~ In y V -> ~ In z V ->
  exists V' rest, dfs f H y (V, R) = (V', y :: z :: rest ++ R).
Proof.
  intros Ey Ez Ty Tz Tx Hxz Hzy Hf Ny Nz.
  do 2 (destruct f as [|f]; [nlia|]).
  step2 y r1 r2 Ty Ey Ny. step1 z r3 Tz Ez Ny.
  destruct (dfs_at f x (z :: y :: V) R) as (nv & nr & E & Bv & Br & Mx); [nlia|exact Tx|]. rewrite E, post_pair.
  seen x. rewrite post_pair. eexists _, nr. reflexivity.
Qed.

(* LeakyRelu: z0 = a, s1 = a+1, s2 = a+2, s3 = a+3, b1 = a+4, b2 = a+5, y = a+6 *)
Lemma leaky_dfs_y f x a (r0 r1 r1' r2 r2' r3 r4 r5 r6 r6' : rule) V R :
  edgesOf H a = [(x, r0)] ->
  edgesOf H (a + 1) = [(a, r1); (x, r1')] ->
  edgesOf H (a + 2) = [(a, r2); (x, r2')] ->
  edgesOf H (a + 3) = [(a + 2, r3)] ->
  edgesOf H (a + 4) = [(a + 1, r4)] ->
  edgesOf H (a + 5) = [(a + 3, r5)] ->
  edgesOf H (a + 6) = [(a + 4, r6); (a + 5, r6')] ->
  (forall k, k < 7 -> trackedOf H (a + k) = true) -> trackedOf H x = true ->
  x < a -> a + 6 < f -> (forall k, k < 7 -> ~ In (a + k) V) ->
  exists V' rest, dfs f H (a + 6) (V, R) = (V', [a + 6; a + 5; a + 3; a + 2; a + 4; a + 1; a] ++ rest ++ R).
Proof.
  intros E0 E1 E2 E3 E4 E5 E6 Tk Tx Hxa Hf Nk.
  assert (T0 : trackedOf H a = true) by (rewrite <- (Nat.add_0_r a); apply Tk; nlia).
  pose proof (Tk 1 ltac:(nlia)) as T1. pose proof (Tk 2 ltac:(nlia)) as T2. pose proof (Tk 3 ltac:(nlia)) as T3.
  pose proof (Tk 4 ltac:(nlia)) as T4. pose proof (Tk 5 ltac:(nlia)) as T5. pose proof (Tk 6 ltac:(nlia)) as T6.
  assert (N0 : ~ In a V) by (rewrite <- (Nat.add_0_r a); apply Nk; nlia).
  pose proof (Nk 1 ltac:(nlia)) as N1. pose proof (Nk 2 ltac:(nlia)) as N2. pose proof (Nk 3 ltac:(nlia)) as N3.
  pose proof (Nk 4 ltac:(nlia)) as N4. pose proof (Nk 5 ltac:(nlia)) as N5. pose proof (Nk 6 ltac:(nlia)) as N6.
  clear Tk Nk.
  do 4 (destruct f as [|f]; [nlia|]).
  step2 (a + 6) r6 r6' T6 E6 N0. step1 (a + 4) r4 T4 E4 N0. step2 (a + 1) r1 r1' T1 E1 N0. step1 a r0 T0 E0 N0.
  match goal with |- context [dfs f H x (?V0, R)] =>
    destruct (dfs_at f x V0 R) as (nv & nr & E & Bv & Br & Mx); [nlia|exact Tx|]; rewrite E end.
  rewrite post_pair. seen x. rewrite !post_pair.
  step1 (a + 5) r5 T5 E5 Bv. step1 (a + 3) r3 T3 E3 Bv. step2 (a + 2) r2 r2' T2 E2 Bv.
  seen a. seen x. rewrite !post_pair. eexists _, nr. reflexivity.
Qed.

(* Sigmoid: one = a, nx = a+1, ex = a+2, b1 = a+3, b2 = a+4, y1 = a+5, y = a+6 *)
Lemma sigmoid_dfs_y f x a (r0 r1 r2 r3 r4 r5 r5' r6 : rule) V R :
  edgesOf H a = [(x, r0)] ->
  edgesOf H (a + 1) = [(x, r1)] ->
  edgesOf H (a + 2) = [(a + 1, r2)] ->
  edgesOf H (a + 3) = [(a, r3)] ->
  edgesOf H (a + 4) = [(a + 2, r4)] ->
  edgesOf H (a + 5) = [(a + 3, r5); (a + 4, r5')] ->
  edgesOf H (a + 6) = [(a + 5, r6)] ->
  (forall k, k < 7 -> trackedOf H (a + k) = true) -> trackedOf H x = true ->
  x < a -> a + 6 < f -> (forall k, k < 7 -> ~ In (a + k) V) ->
  exists V' rest, dfs f H (a + 6) (V, R) = (V', [a + 6; a + 5; a + 4; a + 2; a + 1; a + 3; a] ++ rest ++ R).
Proof.
  intros E0 E1 E2 E3 E4 E5 E6 Tk Tx Hxa Hf Nk.
  assert (T0 : trackedOf H a = true) by (rewrite <- (Nat.add_0_r a); apply Tk; nlia).
  pose proof (Tk 1 ltac:(nlia)) as T1. pose proof (Tk 2 ltac:(nlia)) as T2. pose proof (Tk 3 ltac:(nlia)) as T3.
  pose proof (Tk 4 ltac:(nlia)) as T4. pose proof (Tk 5 ltac:(nlia)) as T5. pose proof (Tk 6 ltac:(nlia)) as T6.
  assert (N0 : ~ In a V) by (rewrite <- (Nat.add_0_r a); apply Nk; nlia).
  pose proof (Nk 1 ltac:(nlia)) as N1. pose proof (Nk 2 ltac:(nlia)) as N2. pose proof (Nk 3 ltac:(nlia)) as N3.
  pose proof (Nk 4 ltac:(nlia)) as N4. pose proof (Nk 5 ltac:(nlia)) as N5. pose proof (Nk 6 ltac:(nlia)) as N6.
  clear Tk Nk.
  do 5 (destruct f as [|f]; [nlia|]).
  step1 (a + 6) r6 T6 E6 N0. step2 (a + 5) r5 r5' T5 E5 N0. step1 (a + 3) r3 T3 E3 N0. step1 a r0 T0 E0 N0.
  match goal with |- context [dfs (S f) H x (?V0, R)] =>
    destruct (dfs_at (S f) x V0 R) as (nv & nr & E & Bv & Br & Mx); [nlia|exact Tx|]; rewrite E end.
  rewrite !post_pair.
  step1 (a + 4) r4 T4 E4 Bv. step1 (a + 2) r2 T2 E2 Bv. step1 (a + 1) r1 T1 E1 Bv.
  seen x. rewrite !post_pair. eexists _, nr. reflexivity.
Qed.

(* Softmax: ex = a, s = a+1, su = a+2, b1 = a+3, b2 = a+4, y = a+5 *)
Lemma softmax_dfs_y f x a (r0 r1 r2 r3 r4 r5 r5' : rule) V R :
  edgesOf H a = [(x, r0)] ->
  edgesOf H (a + 1) = [(a, r1)] ->
  edgesOf H (a + 2) = [(a + 1, r2)] ->
  edgesOf H (a + 3) = [(a, r3)] ->
  edgesOf H (a + 4) = [(a + 2, r4)] ->
  edgesOf H (a + 5) = [(a + 3, r5); (a + 4, r5')] ->
  (forall k, k < 6 -> trackedOf H (a + k) = true) -> trackedOf H x = true ->
  x < a -> a + 5 < f -> (forall k, k < 6 -> ~ In (a + k) V) ->
  exists V' rest, dfs f H (a + 5) (V, R) = (V', [a + 5; a + 4; a + 2; a + 1; a + 3; a] ++ rest ++ R).
Proof.
  intros E0 E1 E2 E3 E4 E5 Tk Tx Hxa Hf Nk.
  assert (T0 : trackedOf H a = true) by (rewrite <- (Nat.add_0_r a); apply Tk; nlia).
  pose proof (Tk 1 ltac:(nlia)) as T1. pose proof (Tk 2 ltac:(nlia)) as T2. pose proof (Tk 3 ltac:(nlia)) as T3.
  pose proof (Tk 4 ltac:(nlia)) as T4. pose proof (Tk 5 ltac:(nlia)) as T5.
  assert (N0 : ~ In a V) by (rewrite <- (Nat.add_0_r a); apply Nk; nlia).
  pose proof (Nk 1 ltac:(nlia)) as N1. pose proof (Nk 2 ltac:(nlia)) as N2. pose proof (Nk 3 ltac:(nlia)) as N3.
  pose proof (Nk 4 ltac:(nlia)) as N4. pose proof (Nk 5 ltac:(nlia)) as N5.
  clear Tk Nk.
  do 4 (destruct f as [|f]; [nlia|]).
  step2 (a + 5) r5 r5' T5 E5 N0. step1 (a + 3) r3 T3 E3 N0. step1 a r0 T0 E0 N0.
  match goal with |- context [dfs (S f) H x (?V0, R)] =>
    destruct (dfs_at (S f) x V0 R) as (nv & nr & E & Bv & Br & Mx); [nlia|exact Tx|]; rewrite E end.
  rewrite !post_pair.
  step1 (a + 4) r4 T4 E4 Bv. step1 (a + 2) r2 T2 E2 Bv. step1 (a + 1) r1 T1 E1 Bv.
  seen a. rewrite !post_pair. eexists _, nr. reflexivity.
Qed.

End DfsEval.

(* ===================================================================================== *)
(* 4. GAP 2: the nodes of each component form a contiguous block of the processing order     *)
(* ===================================================================================== *)
Section Blocks.
Context {A : Type} {SA : Scalar A}.
Notation T := (tensor A).
Notation heap := (@heap A).
Notation rule := (@rule A).

Lemma in_topo_tracked (H : heap) r y : In y (topoOrder H r) -> trackedOf H r = true.
Proof.
  intros Hin. destruct (trackedOf H r) eqn:E; [reflexivity|]. unfold topoOrder in Hin. cbn [dfs] in Hin.
  rewrite E in Hin. cbn [negb orb snd] in Hin. destruct Hin.
Qed.

(* internal nodes lie in [a, L), every node of [a, L) belongs to the component, and no later node has an
   edge to an internal node: then internal nodes are reachable only through the component *)
Lemma no_outside_edge_intro (H : heap) a L y ints :
  wf_heap H -> (forall n, In n ints -> a <= n) -> (forall c, a <= c -> c < L -> In c (y :: ints)) ->
  (forall c e, L <= c -> In e (edgesOf H c) -> ~ In (fst e) ints) ->
  no_outside_edge H y ints.
Proof.
  intros W Hlo Hmid Hhi c e He Hi. destruct (Nat.lt_ge_cases c a) as [Hc|Hc].
  - pose proof (wf_heap_edgesOf _ W _ _ He). specialize (Hlo _ Hi). lia.
  - destruct (Nat.lt_ge_cases c L) as [Hc2|Hc2]; [apply Hmid; assumption|]. exfalso. exact (Hhi c e Hc2 He Hi).
Qed.

Lemma block_of_dfs (H : heap) r x y ints cx (ex : nat * rule) :
  wf_heap H -> no_outside_edge H y ints -> (forall n, In n ints -> n < y) ->
  In y (topoOrder H r) -> In cx (y :: ints) -> In ex (edgesOf H cx) -> fst ex = x -> trackedOf H x = true ->
  (forall f V R, y < f -> ~ In y V -> (forall n, In n ints -> ~ In n V) ->
     exists V' rest, dfs f H y (V, R) = (V', (y :: ints) ++ rest ++ R)) ->
  topo_block H r x y ints.
Proof.
  intros W NE Hlow Hin Hcx Hex Hfx Tx Hdfs.
  destruct (topo_find H W y ints NE Hlow r Hin) as (f & V & R & pre & A1 & A2 & A3 & A4 & A5).
  destruct (Hdfs f V R A1 A2 A3) as (V' & rest & E). rewrite E in A5. cbn [snd] in A5.
  apply (topo_block_intro H r x y ints pre (rest ++ R) cx ex W (in_topo_tracked H r y Hin) A5 Hcx Hex Hfx Tx).
Qed.

Lemma prefS_node (h1 H : heap) i v es : prefS h1 H -> isNode h1 i v es ->
  valOf H i = Some v /\ trackedOf H i = true /\ edgesOf H i = es.
Proof. intros [_ P] (Hl & Hv & Ht & He & _). destruct (P i Hl) as (a & b & c). repeat split; congruence. Qed.

Lemma prefS_old (h h1 H : heap) i : isOld h h1 -> prefS h1 H -> i < length h ->
  valOf H i = valOf h i /\ trackedOf H i = trackedOf h i.
Proof.
  intros [Lo Ho] [_ P] Hi. destruct (P i ltac:(lia)) as (a & b & _). unfold valOf, trackedOf in *.
  rewrite (Ho i Hi) in a, b. split; congruence.
Qed.

Theorem tanh_block (h h1 H : heap) x y name r :
  tanh_forward h [Some x] name = (h1, Ok y) -> trackedOf h x = true -> dirtyOf h x = false ->
  prefS h1 H -> wf_heap H -> In y (topoOrder H r) ->
  topo_block H r x y [].
Proof.
  intros E Tx Dx P W Hin.
  destruct (tanh_structure h x name h1 y E Tx Dx) as (xv & yv & Hx & Hyv & Ey & L1 & Old & Ny).
  assert (Hxl : x < length h) by (apply tracked_lt; exact Tx).
  destruct (prefS_node _ _ _ _ _ P Ny) as (_ & TY & EY).
  destruct (prefS_old _ _ _ x Old P Hxl) as (_ & TX). rewrite Tx in TX.
  apply (block_of_dfs H r x y [] y (x, RTanh y x) W);
    [intros c e _ []|intros n []|exact Hin|left; reflexivity|rewrite EY; left; reflexivity|reflexivity|exact TX|].
  intros f V R Hf Ny' _. destruct (tanh_dfs_y H W f x y _ V R EY TY Hf Ny') as (V' & rest & Ed). exists V', rest. exact Ed.
Qed.

Theorem relu_block (h h1 H : heap) x y name r :
  relu_forward h [Some x] name = (h1, Ok y) -> trackedOf h x = true -> dirtyOf h x = false ->
  prefS h1 H -> wf_heap H -> no_outside_edge H y [length h] -> In y (topoOrder H r) ->
  topo_block H r x y [length h].
Proof.
  intros E Tx Dx P W NE Hin.
  pose proof (relu_structure h x name h1 y E Tx Dx) as St. cbv zeta in St.
  destruct St as (xv & zv & yv & Hx & Hzv & Hyv & Ey & L1 & Old & Nz & Ny).
  assert (Hxl : x < length h) by (apply tracked_lt; exact Tx).
  destruct (prefS_node _ _ _ _ _ P Ny) as (_ & TY & EY). destruct (prefS_node _ _ _ _ _ P Nz) as (_ & TZ & EZ).
  destruct (prefS_old _ _ _ x Old P Hxl) as (_ & TX). rewrite Tx in TX.
  assert (Hzy : length h < y) by nlia.
  apply (block_of_dfs H r x y [length h] y (x, RElSel y x (length h)) W NE);
    [intros n [<-|[]]; exact Hzy|exact Hin|left; reflexivity|rewrite EY; right; left; reflexivity|reflexivity|exact TX|].
  intros f V R Hf Ny' Ni.
  destruct (relu_dfs_y H W f x (length h) y _ _ _ V R EY EZ TY TZ TX Hxl Hzy Hf Ny' (Ni _ (or_introl eq_refl)))
    as (V' & rest & Ed).
  exists V', rest. exact Ed.
Qed.

(* k < 7: a + k is y = a + 6 or one of the listed internal nodes *)
Ltac kcase k Hk tac :=
  do 7 (destruct k as [|k]; [tac|]); exfalso; nlia.

Theorem leaky_block (h h1 H : heap) (m : A) x y name xv r :
  leaky_forward h m [Some x] name = (h1, Ok y) ->
  valOf h x = Some xv -> wf xv -> trackedOf h x = true -> dirtyOf h x = false ->
  let a := length h in
  prefS h1 H -> wf_heap H -> no_outside_edge H y [a + 5; a + 3; a + 2; a + 4; a + 1; a] -> In y (topoOrder H r) ->
  topo_block H r x y [a + 5; a + 3; a + 2; a + 4; a + 1; a].
Proof.
  intros E Hx Wx Tx Dx a P W NE Hin.
  pose proof (leaky_structure h m x name h1 y xv E Hx Wx Tx Dx) as St. cbv zeta in St. fold a in St.
  destruct St as (zv & p1v & p2v & p3v & yv & _ & _ & _ & _ & _ & Ey & L1 & Old & N0 & N1 & N2 & N3 & N4 & N5 & N6).
  subst y.
  assert (Hxl : x < a) by (apply tracked_lt; exact Tx).
  destruct (prefS_node _ _ _ _ _ P N0) as (_ & T0 & E0). destruct (prefS_node _ _ _ _ _ P N1) as (_ & T1 & E1).
  destruct (prefS_node _ _ _ _ _ P N2) as (_ & T2 & E2). destruct (prefS_node _ _ _ _ _ P N3) as (_ & T3 & E3).
  destruct (prefS_node _ _ _ _ _ P N4) as (_ & T4 & E4). destruct (prefS_node _ _ _ _ _ P N5) as (_ & T5 & E5).
  destruct (prefS_node _ _ _ _ _ P N6) as (_ & T6 & E6).
  destruct (prefS_old _ _ _ x Old P Hxl) as (_ & TX). rewrite Tx in TX.
  apply (block_of_dfs H r x (a + 6) _ a (x, RScale a (cst 0 0)) W NE).
  - intros n Hn. cbn [In] in Hn. nlia.
  - exact Hin.
  - in_solve.
  - rewrite E0. left. reflexivity.
  - reflexivity.
  - exact TX.
  - intros f V R Hf Ny Ni.
    destruct (leaky_dfs_y H W f x a _ _ _ _ _ _ _ _ _ _ V R E0 E1 E2 E3 E4 E5 E6) as (V' & rest & Ed); [|exact TX|exact Hxl|exact Hf| |].
    + intros k Hk. do 7 (destruct k as [|k]; [rewrite ?Nat.add_0_r; assumption|]). exfalso. nlia.
    + intros k Hk. do 6 (destruct k as [|k]; [rewrite ?Nat.add_0_r; apply Ni; in_solve|]).
      destruct k as [|k]; [exact Ny|exfalso; nlia].
    + exists V', rest. exact Ed.
Qed.

Theorem sigmoid_block (h h1 H : heap) x y name xv r :
  sigmoid_forward h [Some x] name = (h1, Ok y) ->
  valOf h x = Some xv -> wf xv -> trackedOf h x = true -> dirtyOf h x = false ->
  let a := length h in
  prefS h1 H -> wf_heap H -> no_outside_edge H y [a + 5; a + 4; a + 2; a + 1; a + 3; a] -> In y (topoOrder H r) ->
  topo_block H r x y [a + 5; a + 4; a + 2; a + 1; a + 3; a].
Proof.
  intros E Hx Wx Tx Dx a P W NE Hin.
  pose proof (sigmoid_structure h x name h1 y xv E Hx Wx Tx Dx) as St. cbv zeta in St. fold a in St.
  destruct St as (onev & nxv & exv & y1v & yv & _ & _ & _ & _ & _ & Ey & L1 & Old & N0 & N1 & N2 & N3 & N4 & N5 & N6).
  subst y.
  assert (Hxl : x < a) by (apply tracked_lt; exact Tx).
  destruct (prefS_node _ _ _ _ _ P N0) as (_ & T0 & E0). destruct (prefS_node _ _ _ _ _ P N1) as (_ & T1 & E1).
  destruct (prefS_node _ _ _ _ _ P N2) as (_ & T2 & E2). destruct (prefS_node _ _ _ _ _ P N3) as (_ & T3 & E3).
  destruct (prefS_node _ _ _ _ _ P N4) as (_ & T4 & E4). destruct (prefS_node _ _ _ _ _ P N5) as (_ & T5 & E5).
  destruct (prefS_node _ _ _ _ _ P N6) as (_ & T6 & E6).
  destruct (prefS_old _ _ _ x Old P Hxl) as (_ & TX). rewrite Tx in TX.
  apply (block_of_dfs H r x (a + 6) _ a (x, RPow a x (cst 0 0) true) W NE).
  - intros n Hn. cbn [In] in Hn. nlia.
  - exact Hin.
  - in_solve.
  - rewrite E0. left. reflexivity.
  - reflexivity.
  - exact TX.
  - intros f V R Hf Ny Ni.
    destruct (sigmoid_dfs_y H W f x a _ _ _ _ _ _ _ _ V R E0 E1 E2 E3 E4 E5 E6) as (V' & rest & Ed); [|exact TX|exact Hxl|exact Hf| |].
    + intros k Hk. do 7 (destruct k as [|k]; [rewrite ?Nat.add_0_r; assumption|]). exfalso. nlia.
    + intros k Hk. do 6 (destruct k as [|k]; [rewrite ?Nat.add_0_r; apply Ni; in_solve|]).
      destruct k as [|k]; [exact Ny|exfalso; nlia].
    + exists V', rest. exact Ed.
Qed.

Theorem softmax_block (h h1 H : heap) dim x y name xv r :
  softmax_forward h dim [Some x] name = (h1, Ok y) ->
  valOf h x = Some xv -> wf xv -> trackedOf h x = true -> dirtyOf h x = false ->
  let a := length h in
  prefS h1 H -> wf_heap H -> no_outside_edge H y [a + 4; a + 2; a + 1; a + 3; a] -> In y (topoOrder H r) ->
  topo_block H r x y [a + 4; a + 2; a + 1; a + 3; a].
Proof.
  intros E Hx Wx Tx Dx a P W NE Hin.
  pose proof (softmax_structure h dim x name h1 y xv E Hx Wx Tx Dx) as St. cbv zeta in St. fold a in St.
  destruct St as (exv & sv & suv & subv & yv & _ & _ & _ & _ & _ & _ & Ey & L1 & Old & N0 & N1 & N2 & N3 & N4 & N5).
  subst y.
  assert (Hxl : x < a) by (apply tracked_lt; exact Tx).
  destruct (prefS_node _ _ _ _ _ P N0) as (_ & T0 & E0). destruct (prefS_node _ _ _ _ _ P N1) as (_ & T1 & E1).
  destruct (prefS_node _ _ _ _ _ P N2) as (_ & T2 & E2). destruct (prefS_node _ _ _ _ _ P N3) as (_ & T3 & E3).
  destruct (prefS_node _ _ _ _ _ P N4) as (_ & T4 & E4). destruct (prefS_node _ _ _ _ _ P N5) as (_ & T5 & E5).
  destruct (prefS_old _ _ _ x Old P Hxl) as (_ & TX). rewrite Tx in TX.
  apply (block_of_dfs H r x (a + 5) _ a (x, RExp a) W NE).
  - intros n Hn. cbn [In] in Hn. nlia.
  - exact Hin.
  - in_solve.
  - rewrite E0. left. reflexivity.
  - reflexivity.
  - exact TX.
  - intros f V R Hf Ny Ni.
    destruct (softmax_dfs_y H W f x a _ _ _ _ _ _ _ V R E0 E1 E2 E3 E4 E5) as (V' & rest & Ed); [|exact TX|exact Hxl|exact Hf| |].
    + intros k Hk. do 6 (destruct k as [|k]; [rewrite ?Nat.add_0_r; assumption|]). exfalso. nlia.
    + intros k Hk. do 5 (destruct k as [|k]; [rewrite ?Nat.add_0_r; apply Ni; in_solve|]).
      destruct k as [|k]; [exact Ny|exfalso; nlia].
    + exists V', rest. exact Ed.
Qed.

End Blocks.

(* ---------- [no_outside_edge] for heaps whose later nodes never point at an internal node ---------- *)
Section Noe.
Context {A : Type} {SA : Scalar A}.
Notation heap := (@heap A).

(* c in [a, a + n): c = a + k with k < n *)
Lemma range_split a n c : a <= c -> c < a + n -> exists k, k < n /\ c = a + k.
Proof. intros H1 H2. exists (c - a). split; lia. Qed.

Lemma relu_noe (h h1 H : heap) x y name :
  relu_forward h [Some x] name = (h1, Ok y) -> trackedOf h x = true -> dirtyOf h x = false ->
  wf_heap H ->
  (forall c e, length h1 <= c -> In e (edgesOf H c) -> ~ In (fst e) [length h]) ->
  no_outside_edge H y [length h].
Proof.
  intros E Tx Dx W Hhi.
  pose proof (relu_structure h x name h1 y E Tx Dx) as St. cbv zeta in St.
  destruct St as (xv & zv & yv & _ & _ & _ & Ey & L1 & _).
  apply (no_outside_edge_intro H (length h) (length h1) y _ W); [intros n [<-|[]]; lia| |exact Hhi].
  intros c H1 H2. destruct (range_split (length h) 2 c H1 ltac:(lia)) as (k & Hk & ->). subst y.
  do 2 (destruct k as [|k]; [rewrite ?Nat.add_0_r, ?Nat.add_1_r; in_solve|]). lia.
Qed.

Lemma leaky_noe (h h1 H : heap) (m : A) x y name xv :
  leaky_forward h m [Some x] name = (h1, Ok y) ->
  valOf h x = Some xv -> wf xv -> trackedOf h x = true -> dirtyOf h x = false ->
  let a := length h in
  wf_heap H ->
  (forall c e, length h1 <= c -> In e (edgesOf H c) -> ~ In (fst e) [a + 5; a + 3; a + 2; a + 4; a + 1; a]) ->
  no_outside_edge H y [a + 5; a + 3; a + 2; a + 4; a + 1; a].
Proof.
  intros E Hx Wx Tx Dx a W Hhi.
  pose proof (leaky_structure h m x name h1 y xv E Hx Wx Tx Dx) as St. cbv zeta in St. fold a in St.
  destruct St as (zv & p1v & p2v & p3v & yv & _ & _ & _ & _ & _ & Ey & L1 & _).
  apply (no_outside_edge_intro H a (length h1) y _ W); [intros n Hn; cbn [In] in Hn; lia| |exact Hhi].
  intros c H1 H2. destruct (range_split a 7 c H1 ltac:(lia)) as (k & Hk & ->). subst y.
  do 7 (destruct k as [|k]; [rewrite ?Nat.add_0_r; in_solve|]). lia.
Qed.

Lemma sigmoid_noe (h h1 H : heap) x y name xv :
  sigmoid_forward h [Some x] name = (h1, Ok y) ->
  valOf h x = Some xv -> wf xv -> trackedOf h x = true -> dirtyOf h x = false ->
  let a := length h in
  wf_heap H ->
  (forall c e, length h1 <= c -> In e (edgesOf H c) -> ~ In (fst e) [a + 5; a + 4; a + 2; a + 1; a + 3; a]) ->
  no_outside_edge H y [a + 5; a + 4; a + 2; a + 1; a + 3; a].
Proof.
  intros E Hx Wx Tx Dx a W Hhi.
  pose proof (sigmoid_structure h x name h1 y xv E Hx Wx Tx Dx) as St. cbv zeta in St. fold a in St.
  destruct St as (onev & nxv & exv & y1v & yv & _ & _ & _ & _ & _ & Ey & L1 & _).
  apply (no_outside_edge_intro H a (length h1) y _ W); [intros n Hn; cbn [In] in Hn; lia| |exact Hhi].
  intros c H1 H2. destruct (range_split a 7 c H1 ltac:(lia)) as (k & Hk & ->). subst y.
  do 7 (destruct k as [|k]; [rewrite ?Nat.add_0_r; in_solve|]). lia.
Qed.

Lemma softmax_noe (h h1 H : heap) dim x y name xv :
  softmax_forward h dim [Some x] name = (h1, Ok y) ->
  valOf h x = Some xv -> wf xv -> trackedOf h x = true -> dirtyOf h x = false ->
  let a := length h in
  wf_heap H ->
  (forall c e, length h1 <= c -> In e (edgesOf H c) -> ~ In (fst e) [a + 4; a + 2; a + 1; a + 3; a]) ->
  no_outside_edge H y [a + 4; a + 2; a + 1; a + 3; a].
Proof.
  intros E Hx Wx Tx Dx a W Hhi.
  pose proof (softmax_structure h dim x name h1 y xv E Hx Wx Tx Dx) as St. cbv zeta in St. fold a in St.
  destruct St as (exv & sv & suv & subv & yv & _ & _ & _ & _ & _ & _ & Ey & L1 & _).
  apply (no_outside_edge_intro H a (length h1) y _ W); [intros n Hn; cbn [In] in Hn; lia| |exact Hhi].
  intros c H1 H2. destruct (range_split a 6 c H1 ltac:(lia)) as (k & Hk & ->). subst y.
  do 6 (destruct k as [|k]; [rewrite ?Nat.add_0_r; in_solve|]). lia.
Qed.

End Noe.

(* ===================================================================================== *)
(* 5. the real-number instance: generic glue                                               *)
(* ===================================================================================== *)
Lemma filter_none {X} (f : X -> bool) l : (forall x, In x l -> f x = false) -> filter f l = [].
Proof.
  induction l as [|a l IH]; intros Hf; [reflexivity|]. cbn [filter]. rewrite (Hf a (or_introl eq_refl)).
  apply IH. intros x Hx. apply Hf. right. exact Hx.
Qed.

(* the nodes of the order outside the component *)
Definition outsideOf {A} (H : @heap A) (r y : nat) (ints : list nat) : list nat :=
  filter (fun c => negb (memb c (y :: ints))) (topoOrder H r).

Lemma outsideOf_block {A} (H : @heap A) r y ints pre post :
  topoOrder H r = pre ++ (y :: ints) ++ post ->
  (forall n, In n (y :: ints) -> ~ In n pre /\ ~ In n post) ->
  outsideOf H r y ints = pre ++ post.
Proof.
  intros E Hd. unfold outsideOf. rewrite E, !filter_app. rewrite (filter_none _ (y :: ints)).
  - cbn [app]. f_equal; apply filter_all; intros c Hc; apply negb_true_iff; apply memb_notin; intros X;
      destruct (Hd c X) as [D1 D2]; contradiction.
  - intros c Hc. apply negb_false_iff. apply memb_in. exact Hc.
Qed.

Local Open Scope R_scope.

Section R.
Variables (thr : R) (draw : bool -> nat -> R).
Local Hint Extern 0 (Scalar R) => exact (R_scalar thr draw) : typeclass_instances.
Notation T := (tensor R).
Notation heap := (@heap R).
Notation idseal := (fun (_ : option nat) (g : T) => g).

(* element-wise sum of a list of contributions *)
Definition sumC (l : list T) (idx : list nat) : R := fold_right (fun g s => elt g idx + s) 0 l.

Lemma sumC_app l1 l2 idx : sumC (l1 ++ l2) idx = sumC l1 idx + sumC l2 idx.
Proof. unfold sumC. induction l1 as [|g l1 IH]; cbn [app fold_right]; [ring|]. rewrite IH. ring. Qed.

Lemma accAll_R ds : forall (l : list T) (o : option T), prior_ok ds o -> (forall g, In g l -> wf g /\ dims g = ds) ->
  exists o', accAll o l = Some o' /\ prior_ok ds o' /\ (o <> None -> o' <> None) /\
    forall idx, validIdx ds idx -> prior o' idx = prior o idx + sumC l idx.
Proof.
  induction l as [|g l IH]; intros o Hp Hl.
  - exists o. cbn [accAll sumC fold_right]. split; [reflexivity|]. split; [exact Hp|]. split; [auto|]. intros idx _. ring.
  - destruct (Hl g (or_introl eq_refl)) as [Wg Dg].
    destruct (acc1_R thr draw ds o g Hp Wg Dg) as (s & Es & Ws & Ds & Gs).
    destruct (IH (Some s) (conj Ws Ds) (fun g0 H0 => Hl g0 (or_intror H0))) as (o' & Ea & Hp' & Hn' & Gs').
    exists o'. cbn [accAll]. rewrite Es. split; [exact Ea|]. split; [exact Hp'|]. split; [intros _; apply Hn'; discriminate|].
    intros idx Hv. rewrite (Gs' idx Hv). cbn [prior]. rewrite (Gs idx Hv). cbn [sumC fold_right]. fold (sumC l idx). ring.
Qed.

(* the fold-based statement of a component inside the heap H: y's gradient final, internals empty, x any prior *)
Definition comp_fold (rd : bred) (H : heap) (x y : nat) (ints : list nat) (ds : list nat) (F : T -> assignment) : Prop :=
  forall (hh : heap) log gy, sameS H hh -> gradOf hh y = Some gy -> wf gy -> dims gy = ds ->
    (forall n, In n ints -> gradOf hh n = None) -> prior_ok ds (gradOf hh x) ->
    exists hh' gx lg, fold_left (process_node rd idseal) (y :: ints) (hh, log, Ok tt) = (hh', lg ++ log, Ok tt) /\
      gradOf hh' x = Some gx /\ dims gx = ds /\ wf gx /\
      forall idx, validIdx ds idx -> elt gx idx = prior (gradOf hh x) idx + F gy idx.

(* GLUE.  bp_topo from any root above y: fold over pre, over the block, over post *)
Theorem comp_in_graph rd (H : heap) r x y ints ds F H' log gy :
  rules_own H -> wf_heap H -> topo_block H r x y ints -> no_outside_edge H y ints ->
  (forall n, In n ints -> (n < y)%nat) -> (x < y)%nat -> trackedOf H x = true ->
  comp_fold rd H x y ints ds F ->
  (forall n, In n ints -> gradOf H n = None) -> prior_ok ds (gradOf H x) ->
  bp_topo rd idseal H r = (H', log, Ok tt) ->
  gradOf H' y = Some gy -> wf gy -> dims gy = ds ->
  (forall g, In g (contributions rd H' H (outsideOf H r y ints) x) -> wf g /\ dims g = ds) ->
  exists gx, gradOf H' x = Some gx /\ dims gx = ds /\ wf gx /\
    forall idx, validIdx ds idx ->
      elt gx idx = prior (gradOf H x) idx + sumC (contributions rd H' H (outsideOf H r y ints) x) idx + F gy idx.
Proof.
  intros Hown Hwf (pre & post & Eord & Hdisj & Hxpre & Hcons) NE Hlow Hxy Tx Hfold Hint Hpx E Hgy Wgy Dgy Hout.
  rewrite (outsideOf_block H r y ints pre post Eord Hdisj) in *.
  assert (Hyin : In y (topoOrder H r)) by (rewrite Eord; apply in_or_app; right; left; reflexivity).
  assert (Hr : trackedOf H r = true) by (eapply in_topo_tracked; exact Hyin).
  destruct (topoOrder_facts H r Hwf Hr) as (Hnd & Htr & Hord & _ & _ & Hle & _). cbv zeta in *.
  assert (Hyr : (y <= r)%nat) by (apply Hle; exact Hyin).
  rewrite Eord in Hnd, Htr, Hord.
  (* unfold bp_topo *)
  unfold bp_topo in E. rewrite Hr in E. cbn [negb] in E. rewrite Eord in E.
  set (order := pre ++ (y :: ints) ++ post) in *.
  destruct (valOf (markDirty H order) r) as [rv|] eqn:Ev; [|inversion E].
  destruct (toOnes rv) as [ones| |] eqn:Eo; [|inversion E|inversion E].
  destruct (accumulate (markDirty H order) r ones) as [H2 ra] eqn:Ea.
  destruct ra as [[]| |]; [|inversion E|inversion E].
  destruct (accumulate_ok _ _ _ _ _ Ea eq_refl) as (o' & Hacc & HH2).
  assert (S2 : sameS H H2).
  { eapply sameS_trans; [apply sameS_markDirty|]. subst H2. apply sameS_setGrad. }
  assert (Hg2 : forall j, j <> r -> gradOf H2 j = gradOf H j).
  { intros j Hj. subst H2. rewrite gradOf_setGrad. apply Nat.eqb_neq in Hj. rewrite Hj. apply gradOf_markDirty. }
  clear Ea Hacc HH2 Ev Eo.
  (* the three folds *)
  unfold order in E.
  destruct (fold_app_ok rd pre ((y :: ints) ++ post) H2 [] H' log E) as (Hp & logp & E1 & E23).
  destruct (fold_app_ok rd (y :: ints) post Hp logp H' log E23) as (Hb & logb & E2 & E3).
  assert (SP : sameS H Hp) by (eapply sameS_trans; [exact S2|eapply fold_sameS; exact E1]).
  assert (SB : sameS H Hb) by (eapply sameS_trans; [exact SP|eapply fold_sameS; exact E2]).
  assert (SF : sameS H H') by (eapply sameS_trans; [exact SB|eapply fold_sameS; exact E3]).
  unfold order in Hnd, Hord, Htr.
  assert (NDpre : NoDup pre) by (eapply NoDup_app_l; exact Hnd).
  assert (NDpost : NoDup post) by (eapply NoDup_app_r; eapply NoDup_app_r; exact Hnd).
  pose proof (noback_of_ordered H _ Hnd Hord) as NB.
  assert (NBpre : noback H pre) by (eapply noback_app_l; exact NB).
  assert (NBpost : noback H post) by (eapply noback_app_r; eapply noback_app_r; exact NB).
  (* (a) y holds its final gradient when the block starts: every consumer of y is in pre *)
  assert (GyP : gradOf Hp y = Some gy).
  { rewrite <- Hgy. symmetry.
    apply (fold_inv rd H y ((y :: ints) ++ post) Hp logp (Ok tt) H' log (Ok tt)); [|exact SP|exact E23].
    intros c e Hc He _ X.
    assert (Hcp : In c pre) by (apply (Hcons c e); [rewrite Eord; apply in_or_app; right; exact Hc|exact He|exact X]).
    exact (NoDup_app_disj pre _ c Hnd Hcp Hc). }
  (* (b) no node of pre has an edge to an internal node *)
  assert (IntP : forall n, In n ints -> gradOf Hp n = None).
  { intros n Hn. rewrite <- (Hint n Hn). transitivity (gradOf H2 n).
    - apply (fold_inv rd H n pre H2 [] (Ok tt) Hp logp (Ok tt)); [|exact S2|exact E1].
      intros c e Hc He _ X. assert (Hcb : In c (y :: ints)) by (apply (NE c e He); rewrite X; exact Hn).
      destruct (Hdisj c Hcb) as [D1 _]. exact (D1 Hc).
    - apply Hg2. specialize (Hlow n Hn). lia. }
  (* (c) x before the block: its prior and the contributions of its consumers in pre *)
  assert (Tx2 : trackedOf H2 x = true) by (rewrite <- (sameS_trk _ _ S2); exact Tx).
  destruct (bp_fold_seg rd pre H2 [] Hp logp) as (_ & AccP & _);
    [eapply rules_own_sameS; eauto|eapply wf_heap_sameS; eauto|exact NDpre|eapply noback_sameS; eauto|exact E1|].
  specialize (AccP x Tx2). rewrite (Hg2 x ltac:(lia)) in AccP.
  rewrite <- (contributions_sameS rd Hp H H2 pre x S2) in AccP.
  rewrite (contributions_ext rd Hp H' H pre x Hown) in AccP.
  2:{ intros i. rewrite <- (sameS_val _ _ SP), <- (sameS_val _ _ SF). reflexivity. }
  2:{ intros c Hc. symmetry.
      apply (fold_inv rd H c ((y :: ints) ++ post) Hp logp (Ok tt) H' log (Ok tt)); [|exact SP|exact E23].
      intros c' e Hc' He Ht X. apply (ord_split H pre ((y :: ints) ++ post) c' e Hnd Hord Hc' He Ht). rewrite X. exact Hc. }
  rewrite contributions_app in Hout.
  destruct (accAll_R ds (contributions rd H' H pre x) (gradOf H x) Hpx) as (oP & EaP & PokP & _ & SumP).
  { intros g Hg. apply Hout. apply in_or_app. left. exact Hg. }
  rewrite EaP in AccP. inversion AccP as [EoP]. clear AccP.
  (* (d) the block *)
  destruct (Hfold Hp logp gy SP GyP Wgy Dgy IntP ltac:(rewrite <- EoP; exact PokP)) as (hb & gb & lg & Eb & Gb & Db & Wb & Fb).
  rewrite Eb in E2. inversion E2; subst hb logb. clear E2.
  (* (e) after the block: only accumulation of the contributions of the consumers in post *)
  destruct (bp_fold_seg rd post Hb (lg ++ logp) H' log) as (_ & AccF & _);
    [eapply rules_own_sameS; eauto|eapply wf_heap_sameS; eauto|exact NDpost|eapply noback_sameS; eauto|exact E3|].
  specialize (AccF x ltac:(rewrite <- (sameS_trk _ _ SB); exact Tx)). rewrite Gb in AccF.
  rewrite <- (contributions_sameS rd H' H Hb post x SB) in AccF.
  destruct (accAll_R ds (contributions rd H' H post x) (Some gb) (conj Wb Db)) as (oF & EaF & PokF & NnF & SumF).
  { intros g Hg. apply Hout. apply in_or_app. right. exact Hg. }
  rewrite EaF in AccF. inversion AccF as [EoF]. clear AccF.
  destruct oF as [gx|]; [|exfalso; apply NnF; [discriminate|reflexivity]].
  exists gx. split; [symmetry; exact EoF|]. destruct PokF as [Wx Dx]. split; [exact Dx|]. split; [exact Wx|].
  intros idx Hv. specialize (SumF idx Hv). cbn [prior] in SumF. rewrite SumF, (Fb idx Hv), <- EoP, (SumP idx Hv).
  rewrite contributions_app, sumC_app. ring.
Qed.

End R.

(* ===================================================================================== *)
(* 6. GAP 1: the fold-based theorems on heaps with later nodes                              *)
(* ===================================================================================== *)
Section R1.
Variables (thr : R) (draw : bool -> nat -> R).
Local Hint Extern 0 (Scalar R) => exact (R_scalar thr draw) : typeclass_instances.
Notation T := (tensor R).
Notation heap := (@heap R).
Notation idseal := (fun (_ : option nat) (g : T) => g).

(* an explicit edge only mentions nodes below L *)
Ltac elocal :=
  unfold edge_local; cbn [fst snd rule_y rule_vals]; split; [nlia|split; [nlia|]];
  let i := fresh "i" in let Hi := fresh "Hi" in
  intros i Hi; cbn [In] in Hi; repeat (destruct Hi as [Hi|Hi]; [subst i; nlia|]); destruct Hi.

(* the nodes c of an explicit list are below L and their (known) edges are local *)
Ltac nodes_local :=
  let c := fresh "c" in let Hc := fresh "Hc" in let e := fresh "e" in let He := fresh "He" in
  intros c Hc; cbn [In] in Hc;
  repeat (destruct Hc as [Hc|Hc];
          [subst c; split; [nlia|];
           match goal with Eq : edgesOf ?h1 ?n = _ |- forall e0, In e0 (edgesOf ?h1 ?n) -> _ => rewrite Eq end;
           intros e He; cbn [In] in He; repeat (destruct He as [He|He]; [subst e; elocal|]); destruct He|]);
  destruct Hc.

Theorem tanh_grad_ext rd (h h1 HH : heap) x y name xv gy log :
  valOf h x = Some xv -> wf xv -> trackedOf h x = true -> dirtyOf h x = false ->
  tanh_forward h [Some x] name = (h1, Ok y) ->
  prefS h1 HH -> gradOf HH y = Some gy -> wf gy -> dims gy = dims xv ->
  prior_ok (dims xv) (gradOf HH x) ->
  exists HH' gx,
    fold_left (process_node rd idseal) [y] (HH, log, Ok tt) = (HH', (y, gy) :: log, Ok tt) /\
    sameS HH HH' /\ (forall n, n <> x -> gradOf HH' n = gradOf HH n) /\
    gradOf HH' x = Some gx /\ dims gx = dims xv /\ wf gx /\
    forall idx, validIdx (dims xv) idx ->
      elt gx idx = prior (gradOf HH x) idx + elt gy idx * (1 - (tanh (elt xv idx)) ^ 2).
Proof.
  intros Hx Wx Tx Dx E P Hgy Wgy Dgy Hp.
  destruct (tanh_structure h x name h1 y E Tx Dx) as (xv' & yv & _ & _ & Ey & L1 & Old & Ny).
  assert (Hxl : (x < length h)%nat) by (apply tracked_lt; exact Tx).
  destruct Ny as (Ly & _ & _ & Ee & _).
  assert (HxL : (x < length h1)%nat) by nlia.
  destruct (tanh_grad thr draw rd h h1 (firstn (length h1) HH) x y name xv gy log Hx Wx Tx Dx E (prefS_firstn h1 HH P))
    as (hT' & gx & Ef & _ & Hoth & Hgx & Dgx & Wgx & F);
    [rewrite gradOf_firstn_lt by exact Ly; exact Hgy|exact Wgy|exact Dgy|rewrite gradOf_firstn_lt by exact HxL; exact Hp|].
  pose proof (fun Hl => trunc_transfer rd h1 HH _ log hT' _ (Ok tt) P Hl Ef) as TT.
  destruct TT as (HH' & F' & S' & Glo & Ghi); [nodes_local|].
  exists HH', gx. split; [exact F'|]. split; [exact S'|]. split.
  { intros n Hn. destruct (Nat.lt_ge_cases n (length h1)) as [Hl|Hl].
    - rewrite (Glo n Hl), (Hoth n Hn). apply gradOf_firstn_lt. exact Hl.
    - apply Ghi. exact Hl. }
  split; [rewrite (Glo x HxL); exact Hgx|]. split; [exact Dgx|]. split; [exact Wgx|].
  intros idx Hv. rewrite (F idx Hv), gradOf_firstn_lt by exact HxL. reflexivity.
Qed.

Theorem relu_grad_ext rd (h h1 HH : heap) x y name xv gy log :
  0 <= thr ->
  valOf h x = Some xv -> wf xv -> trackedOf h x = true -> dirtyOf h x = false ->
  relu_forward h [Some x] name = (h1, Ok y) ->
  let z0 := length h in
  prefS h1 HH -> gradOf HH y = Some gy -> wf gy -> dims gy = dims xv ->
  gradOf HH z0 = None ->
  prior_ok (dims xv) (gradOf HH x) ->
  exists HH' gx gz,
    fold_left (process_node rd idseal) [y; z0] (HH, log, Ok tt) = (HH', (z0, gz) :: (y, gy) :: log, Ok tt) /\
    sameS HH HH' /\ (forall n, n <> x -> n <> z0 -> gradOf HH' n = gradOf HH n) /\
    gradOf HH' x = Some gx /\ dims gx = dims xv /\ wf gx /\
    forall idx, validIdx (dims xv) idx ->
      let p := prior (gradOf HH x) idx in
      elt gx idx = p + elt gy idx * reluD thr (elt xv idx) /\
      (thr < elt xv idx -> elt gx idx = p + elt gy idx * 1) /\
      (elt xv idx < - thr -> elt gx idx = p + elt gy idx * 0) /\
      (elt xv idx = 0 -> elt gx idx = p + elt gy idx * / 2).
Proof.
  intros Hthr Hx Wx Tx Dx E z0 P Hgy Wgy Dgy Hgz Hp.
  pose proof (relu_structure h x name h1 y E Tx Dx) as St. cbv zeta in St. fold z0 in St.
  destruct St as (xv' & zv & yv & _ & _ & _ & Ey & L1 & Old & Nz & Ny).
  assert (Hxl : (x < z0)%nat) by (apply tracked_lt; exact Tx).
  destruct Nz as (Lz & _ & _ & Ez & _). destruct Ny as (Ly & _ & _ & Ee & _).
  assert (HxL : (x < length h1)%nat) by nlia.
  destruct (relu_grad thr draw rd h h1 (firstn (length h1) HH) x y name xv gy log Hthr Hx Wx Tx Dx E (prefS_firstn h1 HH P))
    as (hT' & gx & gz & Ef & _ & Hoth & Hgx & Dgx & Wgx & F);
    [rewrite gradOf_firstn_lt by exact Ly; exact Hgy|exact Wgy|exact Dgy
    |fold z0; rewrite gradOf_firstn_lt by exact Lz; exact Hgz|rewrite gradOf_firstn_lt by exact HxL; exact Hp|].
  fold z0 in Ef, Hoth.
  pose proof (fun Hl => trunc_transfer rd h1 HH _ log hT' _ (Ok tt) P Hl Ef) as TT.
  destruct TT as (HH' & F' & S' & Glo & Ghi); [nodes_local|].
  exists HH', gx, gz. split; [exact F'|]. split; [exact S'|]. split.
  { intros n Hn Hn2. destruct (Nat.lt_ge_cases n (length h1)) as [Hl|Hl].
    - rewrite (Glo n Hl), (Hoth n Hn Hn2). apply gradOf_firstn_lt. exact Hl.
    - apply Ghi. exact Hl. }
  split; [rewrite (Glo x HxL); exact Hgx|]. split; [exact Dgx|]. split; [exact Wgx|].
  intros idx Hv. pose proof (F idx Hv) as Fi. cbv zeta in Fi |- *. rewrite gradOf_firstn_lt in Fi by exact HxL. exact Fi.
Qed.

Theorem leaky_grad_ext rd (h h1 HH : heap) (m : R) x y name xv gy log :
  0 <= thr ->
  valOf h x = Some xv -> wf xv -> trackedOf h x = true -> dirtyOf h x = false ->
  leaky_forward h m [Some x] name = (h1, Ok y) ->
  let a := length h in
  prefS h1 HH -> gradOf HH y = Some gy -> wf gy -> dims gy = dims xv ->
  (forall k, (k < 6)%nat -> gradOf HH (a + k)%nat = None) ->
  prior_ok (dims xv) (gradOf HH x) ->
  exists HH' gx lg,
    fold_left (process_node rd idseal) [y; a + 5; a + 3; a + 2; a + 4; a + 1; a]%nat (HH, log, Ok tt)
      = (HH', lg ++ log, Ok tt) /\
    map fst lg = [a; a + 1; a + 4; a + 2; a + 3; a + 5; y]%nat /\
    sameS HH HH' /\
    (forall n, n <> x -> (n < a \/ a + 6 <= n)%nat -> gradOf HH' n = gradOf HH n) /\
    gradOf HH' x = Some gx /\ dims gx = dims xv /\ wf gx /\
    forall idx, validIdx (dims xv) idx ->
      let p := prior (gradOf HH x) idx in
      elt gx idx = p + elt gy idx * leakyD thr m (elt xv idx) /\
      (thr < elt xv idx -> elt gx idx = p + elt gy idx * 1) /\
      (elt xv idx < - thr -> elt gx idx = p + elt gy idx * m) /\
      (elt xv idx = 0 -> elt gx idx = p + elt gy idx * ((1 + m) / 2)).
Proof.
  intros Hthr Hx Wx Tx Dx E a P Hgy Wgy Dgy Hint Hp.
  pose proof (leaky_structure h m x name h1 y xv E Hx Wx Tx Dx) as St. cbv zeta in St. fold a in St.
  destruct St as (zv & p1v & p2v & p3v & yv & _ & _ & _ & _ & _ & Ey & L1 & Old & N0 & N1 & N2 & N3 & N4 & N5 & N6).
  subst y.
  assert (Hxl : (x < a)%nat) by (apply tracked_lt; exact Tx).
  destruct N0 as (_ & _ & _ & E0 & _). destruct N1 as (_ & _ & _ & E1 & _). destruct N2 as (_ & _ & _ & E2 & _).
  destruct N3 as (_ & _ & _ & E3 & _). destruct N4 as (_ & _ & _ & E4 & _). destruct N5 as (_ & _ & _ & E5 & _).
  destruct N6 as (_ & _ & _ & E6 & _).
  assert (HxL : (x < length h1)%nat) by nlia.
  destruct (leaky_grad thr draw rd h h1 (firstn (length h1) HH) m x (a + 6)%nat name xv gy log Hthr Hx Wx Tx Dx E (prefS_firstn h1 HH P))
    as (hT' & gx & lg & Ef & Hlg & _ & Hoth & Hgx & Dgx & Wgx & F);
    [rewrite gradOf_firstn_lt by nlia; exact Hgy|exact Wgy|exact Dgy
    |intros k Hk; fold a; rewrite gradOf_firstn_lt by nlia; apply Hint; exact Hk
    |rewrite gradOf_firstn_lt by exact HxL; exact Hp|].
  fold a in Ef, Hlg, Hoth.
  pose proof (fun Hl => trunc_transfer rd h1 HH _ log hT' _ (Ok tt) P Hl Ef) as TT.
  destruct TT as (HH' & F' & S' & Glo & Ghi); [nodes_local|].
  exists HH', gx, lg. split; [exact F'|]. split; [exact Hlg|]. split; [exact S'|]. split.
  { intros n Hn Hn2. destruct (Nat.lt_ge_cases n (length h1)) as [Hl|Hl].
    - rewrite (Glo n Hl), (Hoth n Hn Hn2). apply gradOf_firstn_lt. exact Hl.
    - apply Ghi. exact Hl. }
  split; [rewrite (Glo x HxL); exact Hgx|]. split; [exact Dgx|]. split; [exact Wgx|].
  intros idx Hv. pose proof (F idx Hv) as Fi. cbv zeta in Fi |- *. rewrite gradOf_firstn_lt in Fi by exact HxL. exact Fi.
Qed.

Theorem sigmoid_grad_ext rd (h h1 HH : heap) x y name xv gy log :
  valOf h x = Some xv -> wf xv -> trackedOf h x = true -> dirtyOf h x = false ->
  sigmoid_forward h [Some x] name = (h1, Ok y) ->
  let a := length h in
  prefS h1 HH -> gradOf HH y = Some gy -> wf gy -> dims gy = dims xv ->
  (forall k, (k < 6)%nat -> gradOf HH (a + k)%nat = None) ->
  prior_ok (dims xv) (gradOf HH x) ->
  exists HH' gx lg,
    fold_left (process_node rd idseal) [y; a + 5; a + 4; a + 2; a + 1; a + 3; a]%nat (HH, log, Ok tt)
      = (HH', lg ++ log, Ok tt) /\
    map fst lg = [a; a + 3; a + 1; a + 2; a + 4; a + 5; y]%nat /\
    sameS HH HH' /\
    (forall n, n <> x -> (n < a \/ a + 6 <= n)%nat -> gradOf HH' n = gradOf HH n) /\
    gradOf HH' x = Some gx /\ dims gx = dims xv /\ wf gx /\
    forall idx, validIdx (dims xv) idx ->
      elt gx idx = prior (gradOf HH x) idx
                   + elt gy idx * (logistic (elt xv idx) * (1 - logistic (elt xv idx))).
Proof.
  intros Hx Wx Tx Dx E a P Hgy Wgy Dgy Hint Hp.
  pose proof (sigmoid_structure h x name h1 y xv E Hx Wx Tx Dx) as St. cbv zeta in St. fold a in St.
  destruct St as (onev & nxv & exv & y1v & yv & _ & _ & _ & _ & _ & Ey & L1 & Old & N0 & N1 & N2 & N3 & N4 & N5 & N6).
  subst y.
  assert (Hxl : (x < a)%nat) by (apply tracked_lt; exact Tx).
  destruct N0 as (_ & _ & _ & E0 & _). destruct N1 as (_ & _ & _ & E1 & _). destruct N2 as (_ & _ & _ & E2 & _).
  destruct N3 as (_ & _ & _ & E3 & _). destruct N4 as (_ & _ & _ & E4 & _). destruct N5 as (_ & _ & _ & E5 & _).
  destruct N6 as (_ & _ & _ & E6 & _).
  assert (HxL : (x < length h1)%nat) by nlia.
  destruct (sigmoid_grad thr draw rd h h1 (firstn (length h1) HH) x (a + 6)%nat name xv gy log Hx Wx Tx Dx E (prefS_firstn h1 HH P))
    as (hT' & gx & lg & Ef & Hlg & _ & Hoth & Hgx & Dgx & Wgx & F);
    [rewrite gradOf_firstn_lt by nlia; exact Hgy|exact Wgy|exact Dgy
    |intros k Hk; fold a; rewrite gradOf_firstn_lt by nlia; apply Hint; exact Hk
    |rewrite gradOf_firstn_lt by exact HxL; exact Hp|].
  fold a in Ef, Hlg, Hoth.
  pose proof (fun Hl => trunc_transfer rd h1 HH _ log hT' _ (Ok tt) P Hl Ef) as TT.
  destruct TT as (HH' & F' & S' & Glo & Ghi); [nodes_local|].
  exists HH', gx, lg. split; [exact F'|]. split; [exact Hlg|]. split; [exact S'|]. split.
  { intros n Hn Hn2. destruct (Nat.lt_ge_cases n (length h1)) as [Hl|Hl].
    - rewrite (Glo n Hl), (Hoth n Hn Hn2). apply gradOf_firstn_lt. exact Hl.
    - apply Ghi. exact Hl. }
  split; [rewrite (Glo x HxL); exact Hgx|]. split; [exact Dgx|]. split; [exact Wgx|].
  intros idx Hv. rewrite (F idx Hv), gradOf_firstn_lt by exact HxL. reflexivity.
Qed.

Theorem softmax_grad_ext rd (h h1 HH : heap) dim x y name xv gy log :
  valOf h x = Some xv -> wf xv -> trackedOf h x = true -> dirtyOf h x = false ->
  softmax_forward h dim [Some x] name = (h1, Ok y) ->
  let a := length h in
  let n := nth dim (dims xv) 0%nat in
  prefS h1 HH -> gradOf HH y = Some gy -> wf gy -> dims gy = dims xv ->
  (forall k, (k < 5)%nat -> gradOf HH (a + k)%nat = None) ->
  prior_ok (dims xv) (gradOf HH x) ->
  exists yv HH' gx lg,
    valOf h1 y = Some yv /\ dims yv = dims xv /\
    (forall i, validIdx (dims xv) i ->
       elt yv i = exp (elt xv i) / VjpGatherP.sumN n (fun k => exp (elt xv (setAt dim k i)))) /\
    fold_left (process_node rd idseal) [y; a + 4; a + 2; a + 1; a + 3; a]%nat (HH, log, Ok tt)
      = (HH', lg ++ log, Ok tt) /\
    map fst lg = [a; a + 3; a + 1; a + 2; a + 4; y]%nat /\
    sameS HH HH' /\
    (forall m, m <> x -> (m < a \/ a + 5 <= m)%nat -> gradOf HH' m = gradOf HH m) /\
    gradOf HH' x = Some gx /\ dims gx = dims xv /\ wf gx /\
    forall i, validIdx (dims xv) i ->
      elt gx i = prior (gradOf HH x) i +
                 elt yv i * (elt gy i - rdc rd n * VjpGatherP.sumN n (fun k => elt yv (setAt dim k i) * elt gy (setAt dim k i))).
Proof.
  intros Hx Wx Tx Dx E a n P Hgy Wgy Dgy Hint Hp.
  pose proof (softmax_structure h dim x name h1 y xv E Hx Wx Tx Dx) as St. cbv zeta in St. fold a in St.
  destruct St as (exv & sv & suv & subv & yv0 & _ & _ & _ & _ & _ & _ & Ey & L1 & Old & N0 & N1 & N2 & N3 & N4 & N5).
  subst y.
  assert (Hxl : (x < a)%nat) by (apply tracked_lt; exact Tx).
  destruct N0 as (_ & _ & _ & E0 & _). destruct N1 as (_ & _ & _ & E1 & _). destruct N2 as (_ & _ & _ & E2 & _).
  destruct N3 as (_ & _ & _ & E3 & _). destruct N4 as (_ & _ & _ & E4 & _). destruct N5 as (_ & _ & _ & E5 & _).
  assert (HxL : (x < length h1)%nat) by nlia.
  destruct (softmax_grad thr draw rd h h1 (firstn (length h1) HH) dim x (a + 5)%nat name xv gy log Hx Wx Tx Dx E (prefS_firstn h1 HH P))
    as (yv & hT' & gx & lg & Vy & Dy & Fy & Ef & Hlg & _ & Hoth & Hgx & Dgx & Wgx & F);
    [rewrite gradOf_firstn_lt by nlia; exact Hgy|exact Wgy|exact Dgy
    |intros k Hk; fold a; rewrite gradOf_firstn_lt by nlia; apply Hint; exact Hk
    |rewrite gradOf_firstn_lt by exact HxL; exact Hp|].
  fold a in Ef, Hlg, Hoth. fold n in Fy, F.
  pose proof (fun Hl => trunc_transfer rd h1 HH _ log hT' _ (Ok tt) P Hl Ef) as TT.
  destruct TT as (HH' & F' & S' & Glo & Ghi); [nodes_local|].
  exists yv, HH', gx, lg. split; [exact Vy|]. split; [exact Dy|]. split; [exact Fy|].
  split; [exact F'|]. split; [exact Hlg|]. split; [exact S'|]. split.
  { intros m Hm Hm2. destruct (Nat.lt_ge_cases m (length h1)) as [Hl|Hl].
    - rewrite (Glo m Hl), (Hoth m Hm Hm2). apply gradOf_firstn_lt. exact Hl.
    - apply Ghi. exact Hl. }
  split; [rewrite (Glo x HxL); exact Hgx|]. split; [exact Dgx|]. split; [exact Wgx|].
  intros i Hv. rewrite (F i Hv), gradOf_firstn_lt by exact HxL. reflexivity.
Qed.

End R1.

(* ===================================================================================== *)
(* 7. the in-graph theorems                                                                *)
(* ===================================================================================== *)
Section R2.
Variables (thr : R) (draw : bool -> nat -> R).
Local Hint Extern 0 (Scalar R) => exact (R_scalar thr draw) : typeclass_instances.
Notation T := (tensor R).
Notation heap := (@heap R).
Notation idseal := (fun (_ : option nat) (g : T) => g).

(* ---------- Tanh ---------- *)
Theorem tanh_grad_in_graph rd (h h1 H H' : heap) x y name xv r log gy :
  valOf h x = Some xv -> wf xv -> trackedOf h x = true -> dirtyOf h x = false ->
  tanh_forward h [Some x] name = (h1, Ok y) ->
  prefS h1 H -> rules_own H -> wf_heap H ->
  In y (topoOrder H r) ->
  prior_ok (dims xv) (gradOf H x) ->
  bp_topo rd idseal H r = (H', log, Ok tt) ->
  gradOf H' y = Some gy -> wf gy -> dims gy = dims xv ->
  (forall g, In g (contributions rd H' H (outsideOf H r y []) x) -> wf g /\ dims g = dims xv) ->
  exists gx, gradOf H' x = Some gx /\ dims gx = dims xv /\ wf gx /\
    forall idx, validIdx (dims xv) idx ->
      elt gx idx = prior (gradOf H x) idx + sumC (contributions rd H' H (outsideOf H r y []) x) idx
                   + elt gy idx * (1 - (tanh (elt xv idx)) ^ 2).
Proof.
  intros Hx Wx Tx Dx E P Hown Hwf Hin Hp Ebp Hgy Wgy Dgy Hout.
  destruct (tanh_structure h x name h1 y E Tx Dx) as (xv' & yv & _ & _ & Ey & L1 & Old & Ny).
  assert (Hxl : (x < length h)%nat) by (apply tracked_lt; exact Tx).
  destruct (prefS_old _ _ _ x Old P Hxl) as (_ & TX). rewrite Tx in TX.
  apply (comp_in_graph thr draw rd H r x y [] (dims xv) (fun gy idx => elt gy idx * (1 - (tanh (elt xv idx)) ^ 2)) H' log gy Hown Hwf);
    try assumption.
  - eapply tanh_block; eassumption.
  - intros c e _ [].
  - intros n [].
  - nlia.
  - intros hh lg gy0 S Hgy0 Wgy0 Dgy0 _ Hp0.
    destruct (tanh_grad_ext thr draw rd h h1 hh x y name xv gy0 lg Hx Wx Tx Dx E (prefS_sameS _ _ _ P S) Hgy0 Wgy0 Dgy0 Hp0)
      as (hh' & gx & Ef & _ & _ & Hgx & Dgx & Wgx & F).
    exists hh', gx, [(y, gy0)]. split; [exact Ef|]. auto.
  - intros n [].
Qed.

(* ---------- Relu ---------- *)
Theorem relu_grad_in_graph rd (h h1 H H' : heap) x y name xv r log gy :
  0 <= thr ->
  valOf h x = Some xv -> wf xv -> trackedOf h x = true -> dirtyOf h x = false ->
  relu_forward h [Some x] name = (h1, Ok y) ->
  let z0 := length h in
  prefS h1 H -> rules_own H -> wf_heap H -> no_outside_edge H y [z0] ->
  In y (topoOrder H r) ->
  gradOf H z0 = None -> prior_ok (dims xv) (gradOf H x) ->
  bp_topo rd idseal H r = (H', log, Ok tt) ->
  gradOf H' y = Some gy -> wf gy -> dims gy = dims xv ->
  (forall g, In g (contributions rd H' H (outsideOf H r y [z0]) x) -> wf g /\ dims g = dims xv) ->
  exists gx, gradOf H' x = Some gx /\ dims gx = dims xv /\ wf gx /\
    forall idx, validIdx (dims xv) idx ->
      let p := prior (gradOf H x) idx + sumC (contributions rd H' H (outsideOf H r y [z0]) x) idx in
      elt gx idx = p + elt gy idx * reluD thr (elt xv idx) /\
      (thr < elt xv idx -> elt gx idx = p + elt gy idx * 1) /\
      (elt xv idx < - thr -> elt gx idx = p + elt gy idx * 0) /\
      (elt xv idx = 0 -> elt gx idx = p + elt gy idx * / 2).
Proof.
  intros Hthr Hx Wx Tx Dx E z0 P Hown Hwf NE Hin Hgz Hp Ebp Hgy Wgy Dgy Hout.
  pose proof (relu_structure h x name h1 y E Tx Dx) as St. cbv zeta in St. fold z0 in St.
  destruct St as (xv' & zv & yv & _ & _ & _ & Ey & L1 & Old & Nz & Ny).
  assert (Hxl : (x < z0)%nat) by (apply tracked_lt; exact Tx).
  destruct (prefS_old _ _ _ x Old P Hxl) as (_ & TX). rewrite Tx in TX.
  destruct (comp_in_graph thr draw rd H r x y [z0] (dims xv) (fun gy idx => elt gy idx * reluD thr (elt xv idx)) H' log gy Hown Hwf)
    as (gx & Hgx & Dgx & Wgx & F); try assumption.
  - eapply relu_block; eassumption.
  - intros n [<-|[]]. nlia.
  - nlia.
  - intros hh lg gy0 S Hgy0 Wgy0 Dgy0 Hi0 Hp0.
    destruct (relu_grad_ext thr draw rd h h1 hh x y name xv gy0 lg Hthr Hx Wx Tx Dx E (prefS_sameS _ _ _ P S) Hgy0 Wgy0 Dgy0
                (Hi0 _ (or_introl eq_refl)) Hp0)
      as (hh' & gx & gz & Ef & _ & _ & Hgx & Dgx & Wgx & F).
    exists hh', gx, [(z0, gz); (y, gy0)]. split; [exact Ef|]. split; [exact Hgx|]. split; [exact Dgx|]. split; [exact Wgx|].
    intros idx Hv. apply (F idx Hv).
  - intros n [<-|[]]. exact Hgz.
  - exists gx. split; [exact Hgx|]. split; [exact Dgx|]. split; [exact Wgx|]. intros idx Hv. cbv zeta.
    split; [apply (F idx Hv)|]. rewrite (F idx Hv). split; [|split].
    + intros Hc. rewrite (reluD_pos thr _ Hthr Hc). reflexivity.
    + intros Hc. rewrite (reluD_neg thr _ Hthr Hc). reflexivity.
    + intros Hc. rewrite Hc, (reluD_zero thr Hthr). reflexivity.
Qed.

(* ---------- LeakyRelu ---------- *)
Theorem leaky_grad_in_graph rd (h h1 H H' : heap) (m : R) x y name xv r log gy :
  0 <= thr ->
  valOf h x = Some xv -> wf xv -> trackedOf h x = true -> dirtyOf h x = false ->
  leaky_forward h m [Some x] name = (h1, Ok y) ->
  let a := length h in
  let ints := [a + 5; a + 3; a + 2; a + 4; a + 1; a]%nat in
  prefS h1 H -> rules_own H -> wf_heap H -> no_outside_edge H y ints ->
  In y (topoOrder H r) ->
  (forall n, In n ints -> gradOf H n = None) -> prior_ok (dims xv) (gradOf H x) ->
  bp_topo rd idseal H r = (H', log, Ok tt) ->
  gradOf H' y = Some gy -> wf gy -> dims gy = dims xv ->
  (forall g, In g (contributions rd H' H (outsideOf H r y ints) x) -> wf g /\ dims g = dims xv) ->
  exists gx, gradOf H' x = Some gx /\ dims gx = dims xv /\ wf gx /\
    forall idx, validIdx (dims xv) idx ->
      let p := prior (gradOf H x) idx + sumC (contributions rd H' H (outsideOf H r y ints) x) idx in
      elt gx idx = p + elt gy idx * leakyD thr m (elt xv idx) /\
      (thr < elt xv idx -> elt gx idx = p + elt gy idx * 1) /\
      (elt xv idx < - thr -> elt gx idx = p + elt gy idx * m) /\
      (elt xv idx = 0 -> elt gx idx = p + elt gy idx * ((1 + m) / 2)).
Proof.
  intros Hthr Hx Wx Tx Dx E a ints P Hown Hwf NE Hin Hint Hp Ebp Hgy Wgy Dgy Hout.
  pose proof (leaky_structure h m x name h1 y xv E Hx Wx Tx Dx) as St. cbv zeta in St. fold a in St.
  destruct St as (zv & p1v & p2v & p3v & yv & _ & _ & _ & _ & _ & Ey & L1 & Old & _).
  assert (Hxl : (x < a)%nat) by (apply tracked_lt; exact Tx).
  destruct (prefS_old _ _ _ x Old P Hxl) as (_ & TX). rewrite Tx in TX.
  destruct (comp_in_graph thr draw rd H r x y ints (dims xv) (fun gy idx => elt gy idx * leakyD thr m (elt xv idx)) H' log gy Hown Hwf)
    as (gx & Hgx & Dgx & Wgx & F); try assumption.
  - eapply leaky_block; eassumption.
  - intros n Hn. unfold ints in Hn. cbn [In] in Hn. nlia.
  - nlia.
  - intros hh lg gy0 S Hgy0 Wgy0 Dgy0 Hi0 Hp0.
    destruct (leaky_grad_ext thr draw rd h h1 hh m x y name xv gy0 lg Hthr Hx Wx Tx Dx E (prefS_sameS _ _ _ P S) Hgy0 Wgy0 Dgy0)
      as (hh' & gx & lg' & Ef & _ & _ & _ & Hgx & Dgx & Wgx & F); [|exact Hp0|].
    { intros k Hk. apply Hi0. unfold ints. fold a. do 6 (destruct k as [|k]; [rewrite ?Nat.add_0_r; in_solve|]). exfalso. nlia. }
    exists hh', gx, lg'. split; [exact Ef|]. split; [exact Hgx|]. split; [exact Dgx|]. split; [exact Wgx|].
    intros idx Hv. apply (F idx Hv).
  - exists gx. split; [exact Hgx|]. split; [exact Dgx|]. split; [exact Wgx|]. intros idx Hv. cbv zeta.
    split; [apply (F idx Hv)|]. rewrite (F idx Hv). unfold leakyD. split; [|split].
    + intros Hc. rewrite (reluD_pos thr _ Hthr Hc), (minD_pos thr _ Hthr Hc). f_equal. ring.
    + intros Hc. rewrite (reluD_neg thr _ Hthr Hc), (minD_neg thr _ Hthr Hc). f_equal. ring.
    + intros Hc. rewrite Hc, (reluD_zero thr Hthr), (minD_zero thr Hthr). f_equal. field.
Qed.

(* ---------- Sigmoid ---------- *)
Theorem sigmoid_grad_in_graph rd (h h1 H H' : heap) x y name xv r log gy :
  valOf h x = Some xv -> wf xv -> trackedOf h x = true -> dirtyOf h x = false ->
  sigmoid_forward h [Some x] name = (h1, Ok y) ->
  let a := length h in
  let ints := [a + 5; a + 4; a + 2; a + 1; a + 3; a]%nat in
  prefS h1 H -> rules_own H -> wf_heap H -> no_outside_edge H y ints ->
  In y (topoOrder H r) ->
  (forall n, In n ints -> gradOf H n = None) -> prior_ok (dims xv) (gradOf H x) ->
  bp_topo rd idseal H r = (H', log, Ok tt) ->
  gradOf H' y = Some gy -> wf gy -> dims gy = dims xv ->
  (forall g, In g (contributions rd H' H (outsideOf H r y ints) x) -> wf g /\ dims g = dims xv) ->
  exists gx, gradOf H' x = Some gx /\ dims gx = dims xv /\ wf gx /\
    forall idx, validIdx (dims xv) idx ->
      elt gx idx = prior (gradOf H x) idx + sumC (contributions rd H' H (outsideOf H r y ints) x) idx
                   + elt gy idx * (logistic (elt xv idx) * (1 - logistic (elt xv idx))).
Proof.
  intros Hx Wx Tx Dx E a ints P Hown Hwf NE Hin Hint Hp Ebp Hgy Wgy Dgy Hout.
  pose proof (sigmoid_structure h x name h1 y xv E Hx Wx Tx Dx) as St. cbv zeta in St. fold a in St.
  destruct St as (onev & nxv & exv & y1v & yv & _ & _ & _ & _ & _ & Ey & L1 & Old & _).
  assert (Hxl : (x < a)%nat) by (apply tracked_lt; exact Tx).
  destruct (prefS_old _ _ _ x Old P Hxl) as (_ & TX). rewrite Tx in TX.
  apply (comp_in_graph thr draw rd H r x y ints (dims xv)
           (fun gy idx => elt gy idx * (logistic (elt xv idx) * (1 - logistic (elt xv idx)))) H' log gy Hown Hwf); try assumption.
  - eapply sigmoid_block; eassumption.
  - intros n Hn. unfold ints in Hn. cbn [In] in Hn. nlia.
  - nlia.
  - intros hh lg gy0 S Hgy0 Wgy0 Dgy0 Hi0 Hp0.
    destruct (sigmoid_grad_ext thr draw rd h h1 hh x y name xv gy0 lg Hx Wx Tx Dx E (prefS_sameS _ _ _ P S) Hgy0 Wgy0 Dgy0)
      as (hh' & gx & lg' & Ef & _ & _ & _ & Hgx & Dgx & Wgx & F); [|exact Hp0|].
    { intros k Hk. apply Hi0. unfold ints. fold a. do 6 (destruct k as [|k]; [rewrite ?Nat.add_0_r; in_solve|]). exfalso. nlia. }
    exists hh', gx, lg'. split; [exact Ef|]. auto.
Qed.

(* ---------- Softmax ---------- *)
(* the forward value of the component, read off the fold-based theorem on an auxiliary heap *)
Lemma softmax_fw (h h1 : heap) dim x y name xv yv :
  valOf h x = Some xv -> wf xv -> trackedOf h x = true -> dirtyOf h x = false ->
  softmax_forward h dim [Some x] name = (h1, Ok y) -> valOf h1 y = Some yv ->
  dims yv = dims xv /\
  forall i, validIdx (dims xv) i ->
    elt yv i = exp (elt xv i) / VjpGatherP.sumN (nth dim (dims xv) 0%nat) (fun k => exp (elt xv (setAt dim k i))).
Proof.
  intros Hx Wx Tx Dx E Vy.
  pose proof (softmax_structure h dim x name h1 y xv E Hx Wx Tx Dx) as St. cbv zeta in St.
  destruct St as (exv & sv & suv & subv & yv0 & _ & _ & _ & _ & _ & _ & Ey & L1 & Old & M0 & M1 & M2 & M3 & M4 & _).
  assert (Hxl : (x < length h)%nat) by (apply tracked_lt; exact Tx).
  set (hh0 := setGrad (setGrad h1 y (Some xv)) x None).
  assert (S0 : sameS h1 hh0) by (eapply sameS_trans; apply sameS_setGrad).
  assert (Ly : (y <? length h1)%nat = true) by (apply Nat.ltb_lt; nlia).
  assert (Lx : (x <? length (setGrad h1 y (Some xv)))%nat = true) by (rewrite length_setGrad; apply Nat.ltb_lt; nlia).
  destruct (softmax_grad thr draw RedSum h h1 hh0 dim x y name xv xv [] Hx Wx Tx Dx E S0)
    as (yv' & _ & _ & _ & Vy' & Dy' & Fy' & _); [|exact Wx|reflexivity| | |].
  - unfold hh0. rewrite !gradOf_setGrad. assert (X : (y =? x)%nat = false) by (apply Nat.eqb_neq; nlia).
    rewrite X, Nat.eqb_refl, Ly. reflexivity.
  - intros k Hk. unfold hh0. rewrite !gradOf_setGrad.
    assert (X1 : (length h + k =? x)%nat = false) by (apply Nat.eqb_neq; nlia).
    assert (X2 : (length h + k =? y)%nat = false) by (apply Nat.eqb_neq; nlia). rewrite X1, X2.
    do 5 (destruct k as [|k]; [rewrite ?Nat.add_0_r; first [apply M0|apply M1|apply M2|apply M3|apply M4]|]). exfalso. nlia.
  - unfold hh0. rewrite gradOf_setGrad, Nat.eqb_refl, Lx. exact I.
  - assert (yv' = yv) by congruence. subst yv'. split; [exact Dy'|exact Fy'].
Qed.

Theorem softmax_grad_in_graph rd (h h1 H H' : heap) dim x y name xv r log gy :
  valOf h x = Some xv -> wf xv -> trackedOf h x = true -> dirtyOf h x = false ->
  softmax_forward h dim [Some x] name = (h1, Ok y) ->
  let a := length h in
  let n := nth dim (dims xv) 0%nat in
  let ints := [a + 4; a + 2; a + 1; a + 3; a]%nat in
  prefS h1 H -> rules_own H -> wf_heap H -> no_outside_edge H y ints ->
  In y (topoOrder H r) ->
  (forall c, In c ints -> gradOf H c = None) -> prior_ok (dims xv) (gradOf H x) ->
  bp_topo rd idseal H r = (H', log, Ok tt) ->
  gradOf H' y = Some gy -> wf gy -> dims gy = dims xv ->
  (forall g, In g (contributions rd H' H (outsideOf H r y ints) x) -> wf g /\ dims g = dims xv) ->
  exists yv gx,
    valOf H y = Some yv /\ dims yv = dims xv /\
    (forall i, validIdx (dims xv) i ->
       elt yv i = exp (elt xv i) / VjpGatherP.sumN n (fun k => exp (elt xv (setAt dim k i)))) /\
    gradOf H' x = Some gx /\ dims gx = dims xv /\ wf gx /\
    forall i, validIdx (dims xv) i ->
      elt gx i = prior (gradOf H x) i + sumC (contributions rd H' H (outsideOf H r y ints) x) i
                 + elt yv i * (elt gy i - rdc rd n * VjpGatherP.sumN n (fun k => elt yv (setAt dim k i) * elt gy (setAt dim k i))).
Proof.
  intros Hx Wx Tx Dx E a n ints P Hown Hwf NE Hin Hint Hp Ebp Hgy Wgy Dgy Hout.
  pose proof (softmax_structure h dim x name h1 y xv E Hx Wx Tx Dx) as St. cbv zeta in St. fold a in St.
  destruct St as (exv & sv & suv & subv & yv & _ & _ & _ & _ & _ & _ & Ey & L1 & Old & _ & _ & _ & _ & _ & N5).
  assert (Hxl : (x < a)%nat) by (apply tracked_lt; exact Tx).
  destruct (prefS_old _ _ _ x Old P Hxl) as (_ & TX). rewrite Tx in TX.
  destruct (prefS_node _ _ _ _ _ P N5) as (VY & _ & _). destruct N5 as (_ & Vy1 & _).
  destruct (softmax_fw h h1 dim x y name xv yv Hx Wx Tx Dx E Vy1) as [Dyv Fyv]. fold n in Fyv.
  destruct (comp_in_graph thr draw rd H r x y ints (dims xv)
              (fun gy i => elt yv i * (elt gy i - rdc rd n * VjpGatherP.sumN n (fun k => elt yv (setAt dim k i) * elt gy (setAt dim k i))))
              H' log gy Hown Hwf) as (gx & Hgx & Dgx & Wgx & F); try assumption.
  - eapply softmax_block; eassumption.
  - intros c Hc. unfold ints in Hc. cbn [In] in Hc. nlia.
  - nlia.
  - intros hh lg gy0 S Hgy0 Wgy0 Dgy0 Hi0 Hp0.
    destruct (softmax_grad_ext thr draw rd h h1 hh dim x y name xv gy0 lg Hx Wx Tx Dx E (prefS_sameS _ _ _ P S) Hgy0 Wgy0 Dgy0)
      as (yv' & hh' & gx & lg' & Vy' & _ & _ & Ef & _ & _ & _ & Hgx & Dgx & Wgx & F); [|exact Hp0|].
    { intros k Hk. apply Hi0. unfold ints. fold a. do 5 (destruct k as [|k]; [rewrite ?Nat.add_0_r; in_solve|]). exfalso. nlia. }
    assert (yv' = yv) by congruence. subst yv'.
    exists hh', gx, lg'. split; [exact Ef|]. split; [exact Hgx|]. split; [exact Dgx|]. split; [exact Wgx|].
    intros i Hv. apply (F i Hv).
  - exists yv, gx. split; [exact VY|]. split; [exact Dyv|]. split; [exact Fyv|]. split; [exact Hgx|]. split; [exact Dgx|].
    split; [exact Wgx|]. exact F.
Qed.

End R2.

(* ===================================================================================== *)
(* 8. non-vacuity: w leaf, x = w.Scale(2) (interior), y = activation(x), r = y.Scale(3) root *)
(* ===================================================================================== *)
Module GradChainExamples.
Import GradActExamples.
Section Ex.
Variable draw : bool -> nat -> R.
Local Hint Extern 0 (Scalar R) => exact (R_scalar 0 draw) : typeclass_instances.
Notation heap := (@heap R).
Notation idseal := (fun (_ : option nat) (g : tensor R) => g).

(* evaluate the structure, keep the real-number expressions *)
Ltac rlazy := lazy -[Rpow Rmult Rplus Rminus Rdiv Rinv Ropp tanh cosh exp IZR dec2R Rmax Rmin Rabs Rle_dec].
Ltac rlazy_in Hyp := lazy -[Rpow Rmult Rplus Rminus Rdiv Rinv Ropp tanh cosh exp IZR dec2R Rmax Rmin Rabs Rle_dec] in Hyp.

(* ---- Tanh ---- *)
Definition tH : heap := fst (h_scale (th1 draw) 2 3 (Some 3%nat)).

Lemma tH_pref : prefS (th1 draw) tH.
Proof. split; [rlazy; lia|]. intros i Hi. do 3 (destruct i as [|i]; [repeat split|]). rlazy_in Hi. lia. Qed.

Lemma tH_own : rules_own tH.
Proof.
  intros c n e Hn He.
  do 4 (destruct c as [|c]; [rlazy_in Hn; inversion Hn; subst n; cbn [nedges In] in He;
                             repeat (destruct He as [He|He]; [subst e; reflexivity|]); destruct He|]).
  destruct c; discriminate Hn.
Qed.

Lemma tH_wf : wf_heap tH.
Proof.
  intros c n e Hn He.
  do 4 (destruct c as [|c]; [rlazy_in Hn; inversion Hn; subst n; cbn [nedges In] in He;
                             repeat (destruct He as [He|He]; [subst e; cbn [fst]; lia|]); destruct He|]).
  destruct c; discriminate Hn.
Qed.

Example tanh_block_ex : topoOrder tH 3 = [3; 2; 1; 0]%nat /\ topo_block tH 3 1 2 [].
Proof.
  split; [reflexivity|].
  eapply (tanh_block (exh draw) (th1 draw) tH 1 2 (Some 2%nat) 3); [apply th1_eq|reflexivity|reflexivity|apply tH_pref|apply tH_wf|].
  rlazy. auto.
Qed.

Example tanh_in_graph_ex rd :
  exists H' log gy gx,
    bp_topo rd idseal tH 3 = (H', log, Ok tt) /\ gradOf H' 2 = Some gy /\ gradOf H' 1 = Some gx /\
    elt gy [0%nat] = 3 /\ elt gy [1%nat] = 3 /\
    elt gx [0%nat] = 3 * (1 - tanh (2 * 3) ^ 2) /\ elt gx [1%nat] = 3 * (1 - tanh (2 * -4) ^ 2).
Proof.
  destruct (bp_topo rd idseal tH 3) as [[H' lg] r] eqn:E.
  assert (Er : r = Ok tt) by (change r with (snd (H', lg, r)); rewrite <- E; vm_compute; reflexivity). subst r.
  set (gy := vec2 (3 * Rpow (3 * tanh (2 * 3)) (dec2R 0 0)) (3 * Rpow (3 * tanh (2 * -4)) (dec2R 0 0))).
  assert (Eg : gradOf H' 2 = Some gy) by (change H' with (fst (fst (H', lg, Ok tt))); rewrite <- E; rlazy; reflexivity).
  destruct (tanh_grad_in_graph 0 draw rd (exh draw) (th1 draw) tH H' 1 2 (Some 2%nat) exx 3 lg gy)
    as (gx & Hgx & _ & _ & F);
    [reflexivity|apply wf_vec2|reflexivity|reflexivity|apply th1_eq|apply tH_pref|apply tH_own|apply tH_wf
    |rlazy; auto|exact I|exact E|exact Eg|apply wf_vec2|reflexivity| |].
  - intros g Hg. exfalso. rlazy_in Hg. exact Hg.
  - assert (C0 : contributions rd H' tH (outsideOf tH 3 2 []) 1 = []) by (rlazy; reflexivity).
    assert (G0 : gradOf tH 1 = None) by reflexivity.
    exists H', lg, gy, gx. split; [reflexivity|]. split; [exact Eg|]. split; [exact Hgx|].
    assert (Y0 : elt gy [0%nat] = 3) by (unfold gy; cbn; rewrite dec2R_0, Rpow_0; ring).
    assert (Y1 : elt gy [1%nat] = 3) by (unfold gy; cbn; rewrite dec2R_0, Rpow_0; ring).
    split; [exact Y0|]. split; [exact Y1|]. split.
    + rewrite (F [0%nat]) by (repeat constructor). rewrite C0, G0, Y0. cbn. ring.
    + rewrite (F [1%nat]) by (repeat constructor). rewrite C0, G0, Y1. cbn. ring.
Qed.

(* the heap cases of [rules_own] / [wf_heap] / [no_outside_edge] on an explicit heap of n nodes *)
Tactic Notation "own_cases" integer(n) :=
  let c := fresh "c" in let nd := fresh "nd" in let e := fresh "e" in let Hn := fresh "Hn" in let He := fresh "He" in
  intros c nd e Hn He;
  do n (destruct c as [|c]; [rlazy_in Hn; inversion Hn; subst nd; cbn [nedges In] in He;
                             repeat (destruct He as [He|He]; [subst e; first [reflexivity | cbn [fst]; lia]|]); destruct He|]);
  destruct c; discriminate Hn.

Tactic Notation "noe_cases" integer(n) :=
  let c := fresh "c" in let e := fresh "e" in let He := fresh "He" in let Hi := fresh "Hi" in
  intros c e He Hi;
  do n (destruct c as [|c];
        [rlazy_in He;
         repeat (destruct He as [He|He];
                 [subst e; first [ solve [in_solve]
                                 | exfalso; cbn [fst In] in Hi; repeat (destruct Hi as [Hi|Hi]; [discriminate Hi|]); exact Hi ]|]);
         try (destruct He)|]);
  destruct c; rlazy_in He; destruct He.

(* ---- Tanh with a SECOND consumer of x created after the component:
        0 w, 1 x = w.Scale(2), 2 y = x.Tanh(), 3 u = x.Scale(5), 4/5 Broadcast nodes, 6 r = y.Add(u).
        The order is [6; 5; 3; 4; 2; 1; 0]: the outside consumer u is processed BEFORE the block [2]
        and x receives  5 (from u)  +  1 * (1 - tanh^2 x)  (through the component) ---- *)
Definition dH : heap := fst (h_arith (fst (h_scale (th1 draw) 1 5 (Some 3%nat))) BiAdd 2 3 (Some 4%nat)).

Lemma dH_pref : prefS (th1 draw) dH.
Proof. split; [rlazy; lia|]. intros i Hi. do 3 (destruct i as [|i]; [repeat split|]). rlazy_in Hi. lia. Qed.
Lemma dH_own : rules_own dH.
Proof. own_cases 7. Qed.
Lemma dH_wf : wf_heap dH.
Proof. own_cases 7. Qed.

Example tanh_two_consumers_ex rd :
  topoOrder dH 6 = [6; 5; 3; 4; 2; 1; 0]%nat /\
  exists H' log gy gx,
    bp_topo rd idseal dH 6 = (H', log, Ok tt) /\ gradOf H' 2 = Some gy /\ gradOf H' 1 = Some gx /\
    elt gy [0%nat] = 1 /\ elt gy [1%nat] = 1 /\
    elt gx [0%nat] = 5 + 1 * (1 - tanh (2 * 3) ^ 2) /\ elt gx [1%nat] = 5 + 1 * (1 - tanh (2 * -4) ^ 2).
Proof.
  split; [reflexivity|].
  destruct (bp_topo rd idseal dH 6) as [[H' lg] r] eqn:E.
  assert (Er : r = Ok tt) by (change r with (snd (H', lg, r)); rewrite <- E; vm_compute; reflexivity). subst r.
  assert (Eg : exists a b, gradOf H' 2 = Some (vec2 (Rpow a (dec2R 0 0)) (Rpow b (dec2R 0 0))) /\
             contributions rd H' dH (outsideOf dH 6 2 []) 1 = [vec2 (5 * Rpow a (dec2R 0 0)) (5 * Rpow b (dec2R 0 0))]).
  { change H' with (fst (fst (H', lg, Ok tt))). rewrite <- E. rlazy. eexists. eexists. split; reflexivity. }
  destruct Eg as (ga & gb & Eg & C0). set (gy := vec2 (Rpow ga (dec2R 0 0)) (Rpow gb (dec2R 0 0))) in *.
  destruct (tanh_grad_in_graph 0 draw rd (exh draw) (th1 draw) dH H' 1 2 (Some 2%nat) exx 6 lg gy)
    as (gx & Hgx & _ & _ & F);
    [reflexivity|apply wf_vec2|reflexivity|reflexivity|apply th1_eq|apply dH_pref|apply dH_own|apply dH_wf
    |rlazy; auto 10|exact I|exact E|exact Eg|apply wf_vec2|reflexivity| |].
  - rewrite C0. intros g [<-|[]]. split; [apply wf_vec2|reflexivity].
  - assert (G0 : gradOf dH 1 = None) by reflexivity.
    assert (Y0 : elt gy [0%nat] = 1) by (unfold gy; cbn; rewrite dec2R_0, Rpow_0; ring).
    assert (Y1 : elt gy [1%nat] = 1) by (unfold gy; cbn; rewrite dec2R_0, Rpow_0; ring).
    exists H', lg, gy, gx. split; [reflexivity|]. split; [exact Eg|]. split; [exact Hgx|].
    split; [exact Y0|]. split; [exact Y1|]. split.
    + rewrite (F [0%nat]) by (repeat constructor). rewrite C0, G0, Y0. cbn. rewrite dec2R_0, Rpow_0. ring.
    + rewrite (F [1%nat]) by (repeat constructor). rewrite C0, G0, Y1. cbn. rewrite dec2R_0, Rpow_0. ring.
Qed.

(* ---- Relu:  nodes 0 w, 1 x, 2 z0, 3 y, 4 r ---- *)
Definition rH : heap := fst (h_scale (rh1 draw) 3 3 (Some 4%nat)).

Lemma rH_pref : prefS (rh1 draw) rH.
Proof. split; [rlazy; lia|]. intros i Hi. do 4 (destruct i as [|i]; [repeat split|]). rlazy_in Hi. lia. Qed.
Lemma rH_own : rules_own rH.
Proof. own_cases 5. Qed.
Lemma rH_wf : wf_heap rH.
Proof. own_cases 5. Qed.
Lemma rH_noe : no_outside_edge rH 3 [2%nat].
Proof. noe_cases 5. Qed.

Example relu_block_ex : topoOrder rH 4 = [4; 3; 2; 1; 0]%nat /\ topo_block rH 4 1 3 [2%nat].
Proof.
  split; [reflexivity|].
  eapply (relu_block (exh draw) (rh1 draw) rH 1 3 (Some 2%nat) 4);
    [apply rh1_eq|reflexivity|reflexivity|apply rH_pref|apply rH_wf|apply rH_noe|]. rlazy. auto.
Qed.

Example relu_in_graph_ex rd :
  exists H' log gy gx,
    bp_topo rd idseal rH 4 = (H', log, Ok tt) /\ gradOf H' 3 = Some gy /\ gradOf H' 1 = Some gx /\
    elt gy [0%nat] = 3 /\ elt gy [1%nat] = 3 /\ elt gx [0%nat] = 3 /\ elt gx [1%nat] = 0.
Proof.
  destruct (bp_topo rd idseal rH 4) as [[H' lg] r] eqn:E.
  assert (Er : r = Ok tt) by (change r with (snd (H', lg, r)); rewrite <- E; vm_compute; reflexivity). subst r.
  assert (Eg : exists a b, gradOf H' 3 = Some (vec2 (3 * Rpow a (dec2R 0 0)) (3 * Rpow b (dec2R 0 0)))).
  { change H' with (fst (fst (H', lg, Ok tt))). rewrite <- E. rlazy. eexists. eexists. reflexivity. }
  destruct Eg as (ga & gb & Eg). set (gy := vec2 (3 * Rpow ga (dec2R 0 0)) (3 * Rpow gb (dec2R 0 0))) in *.
  destruct (relu_grad_in_graph 0 draw rd (exh draw) (rh1 draw) rH H' 1 3 (Some 2%nat) exx 4 lg gy)
    as (gx & Hgx & _ & _ & F);
    [lra|reflexivity|apply wf_vec2|reflexivity|reflexivity|apply rh1_eq|apply rH_pref|apply rH_own|apply rH_wf|apply rH_noe
    |rlazy; auto|reflexivity|exact I|exact E|exact Eg|apply wf_vec2|reflexivity| |].
  - intros g Hg. exfalso. rlazy_in Hg. exact Hg.
  - assert (C0 : contributions rd H' rH (outsideOf rH 4 3 [length (exh draw)]) 1 = []) by (rlazy; reflexivity).
    assert (G0 : gradOf rH 1 = None) by reflexivity.
    assert (Y0 : elt gy [0%nat] = 3) by (unfold gy; cbn; rewrite dec2R_0, Rpow_0; ring).
    assert (Y1 : elt gy [1%nat] = 3) by (unfold gy; cbn; rewrite dec2R_0, Rpow_0; ring).
    exists H', lg, gy, gx. split; [reflexivity|]. split; [exact Eg|]. split; [exact Hgx|].
    split; [exact Y0|]. split; [exact Y1|]. split.
    + destruct (F [0%nat]) as (_ & Pp & _); [repeat constructor|]. cbv zeta in Pp. rewrite Pp by (cbn; lra).
      rewrite C0, G0, Y0. cbn. ring.
    + destruct (F [1%nat]) as (_ & _ & Nn & _); [repeat constructor|]. cbv zeta in Nn. rewrite Nn by (cbn; lra).
      rewrite C0, G0, Y1. cbn. ring.
Qed.

(* ---- Sigmoid:  nodes 0 w, 1 x, 2..7 internal, 8 y, 9 r ---- *)
Definition sH : heap := fst (h_scale (sh1 draw) 8 3 (Some 9%nat)).

Lemma sH_pref : prefS (sh1 draw) sH.
Proof. split; [rlazy; lia|]. intros i Hi. do 9 (destruct i as [|i]; [repeat split|]). rlazy_in Hi. lia. Qed.
Lemma sH_own : rules_own sH.
Proof. own_cases 10. Qed.
Lemma sH_wf : wf_heap sH.
Proof. own_cases 10. Qed.
Lemma sH_noe : no_outside_edge sH 8 [7; 6; 4; 3; 5; 2]%nat.
Proof. noe_cases 10. Qed.

Example sigmoid_block_ex : topoOrder sH 9 = [9; 8; 7; 6; 4; 3; 5; 2; 1; 0]%nat /\ topo_block sH 9 1 8 [7; 6; 4; 3; 5; 2]%nat.
Proof.
  split; [reflexivity|].
  eapply (sigmoid_block (exh draw) (sh1 draw) sH 1 8 (Some 2%nat) exx 9);
    [apply sh1_eq|reflexivity|apply wf_vec2|reflexivity|reflexivity|apply sH_pref|apply sH_wf|apply sH_noe|]. rlazy. auto 12.
Qed.

Example sigmoid_in_graph_ex rd :
  exists H' log gy gx,
    bp_topo rd idseal sH 9 = (H', log, Ok tt) /\ gradOf H' 8 = Some gy /\ gradOf H' 1 = Some gx /\
    elt gy [0%nat] = 3 /\ elt gy [1%nat] = 3 /\
    elt gx [0%nat] = 3 * (logistic (2 * 3) * (1 - logistic (2 * 3))) /\
    elt gx [1%nat] = 3 * (logistic (2 * -4) * (1 - logistic (2 * -4))).
Proof.
  destruct (bp_topo rd idseal sH 9) as [[H' lg] r] eqn:E.
  assert (Er : r = Ok tt) by (change r with (snd (H', lg, r)); rewrite <- E; vm_compute; reflexivity). subst r.
  assert (Eg : exists a b, gradOf H' 8 = Some (vec2 (3 * Rpow a (dec2R 0 0)) (3 * Rpow b (dec2R 0 0)))).
  { change H' with (fst (fst (H', lg, Ok tt))). rewrite <- E. rlazy. eexists. eexists. reflexivity. }
  destruct Eg as (ga & gb & Eg). set (gy := vec2 (3 * Rpow ga (dec2R 0 0)) (3 * Rpow gb (dec2R 0 0))) in *.
  destruct (sigmoid_grad_in_graph 0 draw rd (exh draw) (sh1 draw) sH H' 1 8 (Some 2%nat) exx 9 lg gy)
    as (gx & Hgx & _ & _ & F);
    [reflexivity|apply wf_vec2|reflexivity|reflexivity|apply sh1_eq|apply sH_pref|apply sH_own|apply sH_wf|apply sH_noe
    |rlazy; auto 12| |exact I|exact E|exact Eg|apply wf_vec2|reflexivity| |].
  - intros n Hn. cbn [In length exh] in Hn. repeat (destruct Hn as [Hn|Hn]; [subst n; reflexivity|]). destruct Hn.
  - intros g Hg. exfalso. rlazy_in Hg. exact Hg.
  - match type of F with context [contributions rd H' sH ?o 1] =>
      assert (C0 : contributions rd H' sH o 1 = []) by (rlazy; reflexivity) end.
    assert (G0 : gradOf sH 1 = None) by reflexivity.
    assert (Y0 : elt gy [0%nat] = 3) by (unfold gy; cbn; rewrite dec2R_0, Rpow_0; ring).
    assert (Y1 : elt gy [1%nat] = 3) by (unfold gy; cbn; rewrite dec2R_0, Rpow_0; ring).
    exists H', lg, gy, gx. split; [reflexivity|]. split; [exact Eg|]. split; [exact Hgx|].
    split; [exact Y0|]. split; [exact Y1|]. split.
    + rewrite (F [0%nat]) by (repeat constructor). rewrite C0, G0, Y0. cbn. ring.
    + rewrite (F [1%nat]) by (repeat constructor). rewrite C0, G0, Y1. cbn. ring.
Qed.

End Ex.
End GradChainExamples.

Print Assumptions trunc_transfer.
Print Assumptions topo_find.
Print Assumptions tanh_block.
Print Assumptions relu_block.
Print Assumptions leaky_block.
Print Assumptions sigmoid_block.
Print Assumptions softmax_block.
Print Assumptions leaky_noe.
Print Assumptions bp_fold_seg.
Print Assumptions comp_in_graph.
Print Assumptions tanh_grad_ext.
Print Assumptions relu_grad_ext.
Print Assumptions leaky_grad_ext.
Print Assumptions sigmoid_grad_ext.
Print Assumptions softmax_grad_ext.
Print Assumptions tanh_grad_in_graph.
Print Assumptions relu_grad_in_graph.
Print Assumptions leaky_grad_in_graph.
Print Assumptions sigmoid_grad_in_graph.
Print Assumptions softmax_grad_in_graph.
Print Assumptions GradChainExamples.sigmoid_in_graph_ex.
