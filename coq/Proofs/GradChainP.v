(* GradChainP.v — property C15 IN A GRAPH: back-propagation through an activation whose input is a
   tracked leaf or the output of earlier tracked operations and whose output is consumed by an
   ARBITRARY deeper graph.  Closes the two gaps left by GradActP.v / GradSoftmaxP.v:

   GAP 1 (later nodes).  [prefS h1 H]: the heap H has, on its first [length h1] positions, the
     structure of the heap h1 returned by the component; anything may follow.  [trunc_fold]: folding
     [process_node] over nodes < L whose rules only mention ids < L commutes with truncating the heap
     to its first L nodes ([agreeL]); [trunc_transfer] turns every fold-based component theorem on
     [firstn (length h1) H] into one on H.  [tanh_grad_ext] ... [softmax_grad_ext] are the
     generalisations of the fold-based theorems.
   GAP 2 (order).  [dfs_find]: if y occurs in [topoOrder H r], the order is
     [pre ++ snd (dfs f H y (V, R))] for a state (V, R) in which neither y nor any internal node of
     the component has been visited (internal nodes are reachable only through y:
     [no_outside_edge]).  [*_dfs_y]: the search below y, evaluated on the concrete edge lists, is
     [y :: internals (fixed order) ++ rest ++ R] whether or not x was already visited.
     [*_block]: hence [topoOrder H r = pre ++ (y :: internals) ++ post]  ([topo_block]: no node of
     the block in pre/post, x not in pre, every consumer of y in pre).
   IN-GRAPH THEOREMS.  [comp_in_graph] (generic glue) and [tanh_grad_in_graph],
     [relu_grad_in_graph], [leaky_grad_in_graph], [sigmoid_grad_in_graph], [softmax_grad_in_graph]:
     for any heap H extending the component's heap, any tracked root r above y with
     [bp_topo rd idseal H r = (H', log, Ok tt)]: with gy the FINAL gradient of y,
       elt gx i = prior (gradOf H x) i
                  + (sum of the contributions to x of the consumers OUTSIDE the component, each
                     evaluated in the final heap H') i
                  + elt gy i * <derivative factor>.  *)
From Coq Require Import List Arith ZArith Bool Lia Reals Lra.
From Coquelicot Require Import Coquelicot.
From Qeep Require Import Model.Scalar Model.Nd Model.Fill Model.Data Model.Valid Model.Api Model.Grad
  Model.Backprop Model.Components.
From Qeep Require Import Proofs.NdP Proofs.ElemP Proofs.ReshapeP Proofs.BroadcastP Proofs.ReduceP Proofs.ArithP
  Proofs.OdometerP Proofs.TrackP Proofs.CompP Proofs.BackpropP Proofs.SoftmaxP.
From Qeep Require Import Spec.RScalar Spec.ScalarDeriv Spec.VjpSpec Proofs.VjpElemP Proofs.VjpGatherP Proofs.VjpReduceP
  Proofs.ReduceRP Proofs.GradLossP Proofs.GradActP Proofs.GradSoftmaxP.
Import ListNotations.
Local Open Scope nat_scope.

(* ===================================================================================== *)
(* 0. lists                                                                                *)
(* ===================================================================================== *)
Lemma nth_error_firstn_lt {X} (l : list X) : forall n i, i < n -> nth_error (firstn n l) i = nth_error l i.
Proof.
  induction l as [|a l IH]; intros n i Hi.
  - rewrite firstn_nil. reflexivity.
  - destruct n as [|n]; [lia|]. destruct i as [|i]; cbn [firstn nth_error]; [reflexivity|]. apply IH. lia.
Qed.

Lemma nth_error_firstn_ge {X} (l : list X) n i : n <= i -> nth_error (firstn n l) i = None.
Proof. intros Hi. apply nth_error_None. pose proof (firstn_le_length n l). lia. Qed.

Lemma NoDup_app_disj {X} (l1 l2 : list X) a : NoDup (l1 ++ l2) -> In a l1 -> In a l2 -> False.
Proof.
  induction l1 as [|b l1 IH]; intros Hn H1 H2; [destruct H1|].
  cbn [app] in Hn. apply NoDup_cons_iff in Hn. destruct Hn as [Hb Hn]. destruct H1 as [->|H1].
  - apply Hb. apply in_or_app. right. exact H2.
  - apply IH; assumption.
Qed.

Lemma NoDup_app_l {X} (l1 l2 : list X) : NoDup (l1 ++ l2) -> NoDup l1.
Proof.
  induction l1 as [|b l1 IH]; intros Hn; [constructor|].
  cbn [app] in Hn. apply NoDup_cons_iff in Hn. destruct Hn as [Hb Hn]. constructor; [|apply IH; exact Hn].
  intros X0. apply Hb. apply in_or_app. left. exact X0.
Qed.

Lemma NoDup_app_r {X} (l1 l2 : list X) : NoDup (l1 ++ l2) -> NoDup l2.
Proof.
  induction l1 as [|b l1 IH]; intros Hn; [exact Hn|].
  cbn [app] in Hn. apply NoDup_cons_iff in Hn. apply IH. apply Hn.
Qed.

(* ===================================================================================== *)
(* 1. generic part (any scalar)                                                            *)
(* ===================================================================================== *)
Section Gen.
Context {A : Type} {SA : Scalar A}.
Notation T := (tensor A).
Notation heap := (@heap A).
Notation rule := (@rule A).
Notation node := (@node A).
Notation idseal := (fun (_ : option nat) (g : T) => g).

(* ---------- 1a. rule evaluation only reads the nodes the rule mentions ---------- *)

(* the nodes whose VALUE the rule reads *)
Definition rule_vals (r : rule) : list nat :=
  match r with
  | RConcat _ _ => [] | RSliceX _ x _ => [x] | RPatchX _ p _ => [p] | RPatchP _ p _ => [p]
  | RTranspose _ => [] | RReshape _ x => [x] | RBroadcast y x => [x; y]
  | RSumAlong _ x _ => [x] | RExtAlong y x _ => [x; y] | RAvgAlong _ x _ => [x]
  | RVarAlong _ x _ => [x] | RStdAlong y x _ => [x; y]
  | RScale _ _ => [] | RPow _ x _ _ => [x] | RExp y => [y] | RLog _ x => [x]
  | RSin _ x => [x] | RCos _ x => [x] | RTan _ x => [x]
  | RSinh _ x => [x] | RCosh _ x => [x] | RTanh _ x => [x]
  | RElSel y a b => [y; a; b] | RId _ => [] | RNeg _ => [] | RMul _ o => [o]
  | RDivA _ b => [b] | RDivB _ a b => [a; b] | RDot y o => [y; o]
  | RMatMulA _ b => [b] | RMatMulB _ a => [a]
  end.

Lemma eval_rule_local rd (h1 h2 : heap) (r : rule) :
  (forall i, In i (rule_vals r) -> valOf h1 i = valOf h2 i) ->
  gradOf h1 (rule_y r) = gradOf h2 (rule_y r) ->
  eval_rule rd h1 r = eval_rule rd h2 r.
Proof.
  intros Hv Hg. destruct r; cbn [rule_y rule_vals] in Hv, Hg; unfold eval_rule, gy_of, val_of; rewrite ?Hg;
    try rewrite (Hv _ (or_introl eq_refl));
    try rewrite (Hv _ (or_intror (or_introl eq_refl)));
    try rewrite (Hv _ (or_intror (or_intror (or_introl eq_refl))));
    reflexivity.
Qed.

(* ---------- 1b. prefix structure, truncation ---------- *)

(* H has, on its first [length h1] positions, the structure of h1 *)
Definition prefS (h1 H : heap) : Prop :=
  length h1 <= length H /\
  forall i, i < length h1 -> valOf h1 i = valOf H i /\ trackedOf h1 i = trackedOf H i /\ edgesOf h1 i = edgesOf H i.

Lemma prefS_sameS (h1 H H2 : heap) : prefS h1 H -> sameS H H2 -> prefS h1 H2.
Proof.
  intros [L P] [L2 S]. split; [lia|]. intros i Hi. destruct (P i Hi) as (a & b & c). destruct (S i) as (a2 & b2 & c2).
  repeat split; congruence.
Qed.

Lemma prefS_of_sameS (h1 H : heap) : sameS h1 H -> prefS h1 H.
Proof. intros [L S]. split; [lia|]. intros i _. apply S. Qed.

Lemma prefS_app (h1 more : heap) : prefS h1 (h1 ++ more).
Proof.
  split; [rewrite app_length; lia|]. intros i Hi. unfold valOf, trackedOf, edgesOf. rewrite nth_error_app1 by exact Hi.
  repeat split.
Qed.

(* hh and hT agree on the first L positions, hT has nothing else *)
Definition agreeL (L : nat) (hh hT : heap) : Prop :=
  length hT = L /\ L <= length hh /\ forall i, i < L -> nth_error hh i = nth_error hT i.

Lemma agreeL_firstn L (hh : heap) : L <= length hh -> agreeL L hh (firstn L hh).
Proof.
  intros HL. split; [apply firstn_length_le; exact HL|]. split; [exact HL|].
  intros i Hi. symmetry. apply nth_error_firstn_lt. exact Hi.
Qed.

Lemma agreeL_setGrad L (hh hT : heap) c g : agreeL L hh hT -> c < L -> agreeL L (setGrad hh c g) (setGrad hT c g).
Proof.
  intros (L1 & L2 & Hn) Hc. split; [rewrite length_setGrad; exact L1|]. split; [rewrite length_setGrad; exact L2|].
  intros i Hi. rewrite !nth_error_setGrad, (Hn i Hi). reflexivity.
Qed.

Lemma setGrad_beyond (hh : heap) c g i : c <> i -> nth_error (setGrad hh c g) i = nth_error hh i.
Proof.
  intros Hne. rewrite nth_error_setGrad. destruct (nth_error hh i) as [n|]; [|reflexivity].
  assert (E : (i =? c) = false) by (apply Nat.eqb_neq; lia). rewrite E. reflexivity.
Qed.

Lemma agreeL_val L (hh hT : heap) i : agreeL L hh hT -> i < L -> valOf hh i = valOf hT i.
Proof. intros (_ & _ & Hn) Hi. unfold valOf. rewrite (Hn i Hi). reflexivity. Qed.
Lemma agreeL_grad L (hh hT : heap) i : agreeL L hh hT -> i < L -> gradOf hh i = gradOf hT i.
Proof. intros (_ & _ & Hn) Hi. unfold gradOf. rewrite (Hn i Hi). reflexivity. Qed.
Lemma agreeL_trk L (hh hT : heap) i : agreeL L hh hT -> i < L -> trackedOf hh i = trackedOf hT i.
Proof. intros (_ & _ & Hn) Hi. unfold trackedOf. rewrite (Hn i Hi). reflexivity. Qed.
Lemma agreeL_edges L (hh hT : heap) i : agreeL L hh hT -> i < L -> edgesOf hh i = edgesOf hT i.
Proof. intros (_ & _ & Hn) Hi. unfold edgesOf. rewrite (Hn i Hi). reflexivity. Qed.

(* the truncation of a heap extending h1 has exactly the structure of h1 *)
Lemma prefS_firstn (h1 H : heap) : prefS h1 H -> sameS h1 (firstn (length h1) H).
Proof.
  intros [L P]. split; [symmetry; apply firstn_length_le; exact L|]. intros i.
  destruct (Nat.lt_ge_cases i (length h1)) as [Hi|Hi].
  - destruct (P i Hi) as (a & b & c). unfold valOf, trackedOf, edgesOf in *. rewrite nth_error_firstn_lt by exact Hi. auto.
  - unfold valOf, trackedOf, edgesOf. rewrite nth_error_firstn_ge by exact Hi.
    assert (E : nth_error h1 i = None) by (apply nth_error_None; exact Hi). rewrite E. auto.
Qed.

Lemma gradOf_firstn_lt (H : heap) L i : i < L -> gradOf (firstn L H) i = gradOf H i.
Proof. intros Hi. unfold gradOf. rewrite nth_error_firstn_lt by exact Hi. reflexivity. Qed.
Lemma gradOf_firstn_ge (H : heap) L i : L <= i -> gradOf (firstn L H) i = None.
Proof. intros Hi. unfold gradOf. rewrite nth_error_firstn_ge by exact Hi. reflexivity. Qed.

(* an edge of a node below L that only mentions nodes below L *)
Definition edge_local (L : nat) (e : nat * rule) : Prop :=
  fst e < L /\ rule_y (snd e) < L /\ forall i, In i (rule_vals (snd e)) -> i < L.

Section Trunc.
Variable rd : bred.
Variable L : nat.

Lemma trunc_edge c (hh hT : heap) r0 e hT' r :
  agreeL L hh hT -> edge_local L e ->
  process_edge rd c (hT, r0) e = (hT', r) ->
  exists hh', process_edge rd c (hh, r0) e = (hh', r) /\ agreeL L hh' hT' /\
              (forall i, L <= i -> nth_error hh' i = nth_error hh i).
Proof.
  intros Ag (Hf & Hy & Hv) E. cbn [process_edge] in E |- *.
  destruct r0 as [u| |]; [|inversion E; subst; exists hh; auto|inversion E; subst; exists hh; auto].
  rewrite (agreeL_trk L hh hT _ Ag Hf).
  destruct (trackedOf hT (fst e)); [|inversion E; subst; exists hh; auto].
  assert (Eev : eval_rule rd hh (snd e) = eval_rule rd hT (snd e)).
  { apply eval_rule_local; [intros i Hi; apply (agreeL_val L); [exact Ag|apply Hv; exact Hi]|apply (agreeL_grad L); assumption]. }
  rewrite Eev. destruct (eval_rule rd hT (snd e)) as [g| |]; [|inversion E; subst; exists hh; auto|inversion E; subst; exists hh; auto].
  unfold accumulate in E |- *. rewrite (agreeL_grad L hh hT _ Ag Hf).
  assert (Hne : forall i, L <= i -> fst e <> i) by (intros i Hi; lia).
  destruct (gradOf hT (fst e)) as [g0|].
  - destruct (v_arith BiAdd g0 g) as [s| |]; inversion E; subst; try (exists hh; auto; fail).
    eexists. split; [reflexivity|]. split; [apply agreeL_setGrad; assumption|].
    intros i Hi. apply setGrad_beyond. apply Hne. exact Hi.
  - inversion E; subst. eexists. split; [reflexivity|]. split; [apply agreeL_setGrad; assumption|].
    intros i Hi. apply setGrad_beyond. apply Hne. exact Hi.
Qed.

Lemma trunc_edges c es : forall (hh hT : heap) r0 hT' r,
  agreeL L hh hT -> (forall e, In e es -> edge_local L e) ->
  fold_left (process_edge rd c) es (hT, r0) = (hT', r) ->
  exists hh', fold_left (process_edge rd c) es (hh, r0) = (hh', r) /\ agreeL L hh' hT' /\
              (forall i, L <= i -> nth_error hh' i = nth_error hh i).
Proof.
  induction es as [|e es IH]; intros hh hT r0 hT' r Ag Hl E.
  - cbn [fold_left] in E |- *. inversion E; subst. exists hh. auto.
  - cbn [fold_left] in E |- *. destruct (process_edge rd c (hT, r0) e) as [hT1 r1] eqn:E1.
    destruct (trunc_edge c hh hT r0 e hT1 r1 Ag (Hl e (or_introl eq_refl)) E1) as (hh1 & F1 & Ag1 & B1).
    rewrite F1. destruct (IH hh1 hT1 r1 hT' r Ag1 (fun e0 H0 => Hl e0 (or_intror H0)) E) as (hh' & F & Ag' & B).
    exists hh'. split; [exact F|]. split; [exact Ag'|]. intros i Hi. rewrite (B i Hi). apply B1. exact Hi.
Qed.

Lemma trunc_node (hh hT : heap) log r0 c hT' log' r :
  agreeL L hh hT -> c < L -> (forall e, In e (edgesOf hT c) -> edge_local L e) ->
  process_node rd idseal (hT, log, r0) c = (hT', log', r) ->
  exists hh', process_node rd idseal (hh, log, r0) c = (hh', log', r) /\ agreeL L hh' hT' /\
              (forall i, L <= i -> nth_error hh' i = nth_error hh i).
Proof.
  intros Ag Hc Hl E. cbn [process_node] in E |- *.
  destruct r0 as [u| |]; [|inversion E; subst; exists hh; auto|inversion E; subst; exists hh; auto].
  rewrite (proj2 (proj2 Ag) c Hc). unfold edgesOf in Hl.
  destruct (nth_error hT c) as [nd|]; [|inversion E; subst; exists hh; auto].
  destruct (ngrad nd) as [g|]; [|inversion E; subst; exists hh; auto].
  destruct (fold_left (process_edge rd c) (nedges nd) (setGrad hT c (Some g), Ok tt)) as [hT2 r2] eqn:Ef.
  inversion E; subst hT2 log' r2. clear E.
  destruct (trunc_edges c (nedges nd) (setGrad hh c (Some g)) (setGrad hT c (Some g)) (Ok tt) hT' r) as (hh' & F & Ag' & B);
    [apply agreeL_setGrad; assumption|exact Hl|exact Ef|].
  exists hh'. rewrite F. split; [reflexivity|]. split; [exact Ag'|].
  intros i Hi. rewrite (B i Hi). apply setGrad_beyond. lia.
Qed.

(* process_node never changes the structure *)
Lemma pn_sameS (h : heap) log r0 c h' log' r :
  process_node rd idseal (h, log, r0) c = (h', log', r) -> sameS h h'.
Proof.
  intros E. apply (pn_inv rd h (length h) h log r0 c h' log' r); [|apply sameS_refl|exact E].
  intros e _ Ht X. apply tracked_lt in Ht. lia.
Qed.

Lemma fold_sameS l : forall (h : heap) log r0 h' log' r,
  fold_left (process_node rd idseal) l (h, log, r0) = (h', log', r) -> sameS h h'.
Proof.
  induction l as [|c l IH]; intros h log r0 h' log' r E.
  - cbn [fold_left] in E. inversion E; subst. apply sameS_refl.
  - cbn [fold_left] in E. destruct (process_node rd idseal (h, log, r0) c) as [[h1 log1] r1] eqn:E1.
    eapply sameS_trans; [eapply pn_sameS; exact E1|eapply IH; exact E].
Qed.

Lemma trunc_fold (h0 : heap) l : forall (hh hT : heap) log r0 hT' log' r,
  agreeL L hh hT -> sameS h0 hT ->
  (forall c, In c l -> c < L /\ forall e, In e (edgesOf h0 c) -> edge_local L e) ->
  fold_left (process_node rd idseal) l (hT, log, r0) = (hT', log', r) ->
  exists hh', fold_left (process_node rd idseal) l (hh, log, r0) = (hh', log', r) /\ agreeL L hh' hT' /\
              (forall i, L <= i -> nth_error hh' i = nth_error hh i).
Proof.
  induction l as [|c l IH]; intros hh hT log r0 hT' log' r Ag HS Hl E.
  - cbn [fold_left] in E |- *. inversion E; subst. exists hh. auto.
  - cbn [fold_left] in E |- *. destruct (process_node rd idseal (hT, log, r0) c) as [[hT1 log1] r1] eqn:E1.
    destruct (Hl c (or_introl eq_refl)) as [Hc Hle].
    destruct (trunc_node hh hT log r0 c hT1 log1 r1 Ag Hc) as (hh1 & F1 & Ag1 & B1);
      [rewrite <- (sameS_edges _ _ HS); exact Hle|exact E1|].
    rewrite F1.
    destruct (IH hh1 hT1 log1 r1 hT' log' r Ag1) as (hh' & F & Ag' & B);
      [eapply sameS_trans; [exact HS|eapply pn_sameS; exact E1]|intros c0 H0; apply Hl; right; exact H0|exact E|].
    exists hh'. split; [exact F|]. split; [exact Ag'|]. intros i Hi. rewrite (B i Hi). apply B1. exact Hi.
Qed.

End Trunc.

(* GENERIC TRANSFER (gap 1): a fold over component nodes on the truncation of H is a fold on H *)
Theorem trunc_transfer rd (h1 H : heap) l log hT' log' r :
  prefS h1 H ->
  (forall c, In c l -> c < length h1 /\ forall e, In e (edgesOf h1 c) -> edge_local (length h1) e) ->
  fold_left (process_node rd idseal) l (firstn (length h1) H, log, Ok tt) = (hT', log', r) ->
  exists H', fold_left (process_node rd idseal) l (H, log, Ok tt) = (H', log', r) /\ sameS H H' /\
    (forall i, i < length h1 -> gradOf H' i = gradOf hT' i) /\
    (forall i, length h1 <= i -> gradOf H' i = gradOf H i).
Proof.
  intros P Hl E.
  destruct (trunc_fold rd (length h1) h1 l H (firstn (length h1) H) log (Ok tt) hT' log' r) as (H' & F & Ag & B);
    [apply agreeL_firstn; exact (proj1 P)|apply prefS_firstn; exact P|exact Hl|exact E|].
  exists H'. split; [exact F|]. split; [eapply fold_sameS; exact F|]. split.
  - intros i Hi. apply (agreeL_grad (length h1)); assumption.
  - intros i Hi. unfold gradOf. rewrite (B i Hi). reflexivity.
Qed.

End Gen.

(* ===================================================================================== *)
(* 2. the processing order: segments of an ordered duplicate-free list, the search below y  *)
(* ===================================================================================== *)
Section Order.
Context {A : Type} {SA : Scalar A}.
Notation T := (tensor A).
Notation heap := (@heap A).
Notation rule := (@rule A).
Notation idseal := (fun (_ : option nat) (g : T) => g).

Lemma ordered_app_r (h : heap) : forall l1 l2, ordered h (l1 ++ l2) -> ordered h l2.
Proof. induction l1 as [|a l1 IH]; intros l2 Ho; [exact Ho|]. cbn [app ordered] in Ho. apply IH. apply Ho. Qed.

(* in an ordered duplicate-free list no node of a later segment has a tracked edge into an earlier one *)
Lemma ord_split (h : heap) l1 l2 c e :
  NoDup (l1 ++ l2) -> ordered h (l1 ++ l2) -> In c l2 -> In e (edgesOf h c) -> trackedOf h (fst e) = true ->
  ~ In (fst e) l1.
Proof.
  intros Hn Ho Hc He Ht X. apply (NoDup_app_disj l1 l2 (fst e) Hn X).
  eapply ordered_in; [eapply ordered_app_r; exact Ho|exact Hc|exact He|exact Ht].
Qed.

(* no node of the rest has a tracked edge into the head: what [bp_fold_spec] really needs *)
Fixpoint noback (h : heap) (l : list nat) : Prop :=
  match l with
  | [] => True
  | c :: rest => (forall c' e, In c' rest -> In e (edgesOf h c') -> trackedOf h (fst e) = true -> fst e <> c) /\ noback h rest
  end.

Lemma noback_sameS (h1 h2 : heap) l : sameS h1 h2 -> noback h1 l -> noback h2 l.
Proof.
  intros HS. induction l as [|c l IH]; cbn [noback]; [trivial|]. intros [Hc Hl]. split; [|auto].
  intros c' e Hc' He Ht. rewrite <- (sameS_edges _ _ HS) in He. rewrite <- (sameS_trk _ _ HS) in Ht. eauto.
Qed.

Lemma noback_of_ordered (h : heap) : forall l, NoDup l -> ordered h l -> noback h l.
Proof.
  induction l as [|c l IH]; intros Hn Ho; cbn [noback]; [trivial|].
  apply NoDup_cons_iff in Hn. destruct Hn as [Hc Hn]. destruct Ho as [_ Ho]. split; [|apply IH; assumption].
  intros c' e Hc' He Ht X. apply Hc. rewrite <- X. eapply ordered_in; eauto.
Qed.

Lemma noback_app_r (h : heap) : forall l1 l2, noback h (l1 ++ l2) -> noback h l2.
Proof. induction l1 as [|a l1 IH]; intros l2 Hb; [exact Hb|]. cbn [app noback] in Hb. apply IH. apply Hb. Qed.

Lemma noback_app_l (h : heap) : forall l1 l2, noback h (l1 ++ l2) -> noback h l1.
Proof.
  induction l1 as [|a l1 IH]; intros l2 Hb; cbn [noback]; [trivial|]. cbn [app noback] in Hb. destruct Hb as [Ha Hb].
  split; [|eapply IH; exact Hb]. intros c' e Hc'. apply Ha. apply in_or_app. left. exact Hc'.
Qed.

Section Run.
Variable rd : bred.

Lemma fold_app_ok l1 l2 (h : heap) log h' log' :
  fold_left (process_node rd idseal) (l1 ++ l2) (h, log, Ok tt) = (h', log', Ok tt) ->
  exists h1 log1, fold_left (process_node rd idseal) l1 (h, log, Ok tt) = (h1, log1, Ok tt) /\
                  fold_left (process_node rd idseal) l2 (h1, log1, Ok tt) = (h', log', Ok tt).
Proof.
  rewrite fold_left_app. destruct (fold_left (process_node rd idseal) l1 (h, log, Ok tt)) as [[h1 log1] r1].
  intros E. destruct r1 as [[]| |].
  - exists h1, log1. auto.
  - rewrite pn_sticky in E by discriminate. inversion E.
  - rewrite pn_sticky in E by discriminate. inversion E.
Qed.

(* [bp_fold_spec] for a SEGMENT of the order: the targets of the segment's edges may lie outside it *)
Lemma bp_fold_seg l : forall (h : heap) log h' log',
  rules_own h -> wf_heap h -> NoDup l -> noback h l -> (forall c, In c l -> trackedOf h c = true) ->
  fold_left (process_node rd idseal) l (h, log, Ok tt) = (h', log', Ok tt) ->
  sameS h h' /\
  (forall n, trackedOf h n = true -> accAll (gradOf h n) (contributions rd h' h l n) = Some (gradOf h' n)) /\
  (forall n, trackedOf h n = false -> gradOf h' n = gradOf h n).
Proof.
  induction l as [|c l IH]; intros h log h' log' Hown Hwf Hnd Hnb Htr E.
  - cbn [fold_left] in E. inversion E; subst h' log'. split; [apply sameS_refl|]. split; intros n _; reflexivity.
  - destruct (pn_fold_cons rd _ _ _ _ _ _ E) as (h1 & log1 & E1 & E2).
    destruct (process_node_spec rd _ _ _ _ _ Hown Hwf E1) as (NS & Nc & Nacc & Nun & _ & _).
    apply NoDup_cons_iff in Hnd. destruct Hnd as [Hnc Hnd']. destruct Hnb as [Hc Hnb'].
    assert (Hown1 : rules_own h1) by (eapply rules_own_sameS; eauto).
    assert (Hwf1 : wf_heap h1) by (eapply wf_heap_sameS; eauto).
    assert (Hnb1 : noback h1 l) by (eapply noback_sameS; eauto).
    assert (Htr1 : forall c0, In c0 l -> trackedOf h1 c0 = true).
    { intros c0 H0. rewrite <- (sameS_trk _ _ NS). apply Htr. right. exact H0. }
    destruct (IH h1 log1 h' log' Hown1 Hwf1 Hnd' Hnb1 Htr1 E2) as (IS & Iacc & Iun). clear IH.
    assert (Hct : trackedOf h c = true) by (apply Htr; left; reflexivity).
    assert (Hfin : gradOf h' c = gradOf h c).
    { rewrite <- Nc. assert (Hct1 : trackedOf h1 c = true) by (rewrite <- (sameS_trk _ _ NS); exact Hct).
      specialize (Iacc c Hct1). unfold contributions in Iacc. rewrite flat_map_nil' in Iacc; [cbn [accAll] in Iacc; congruence|].
      intros c' Hc'. apply flat_map_nil'. intros e He. unfold contrib_e.
      destruct (fst e =? c) eqn:Ee; [|reflexivity]. apply Nat.eqb_eq in Ee. exfalso.
      apply (Hc c' e Hc'); [rewrite (sameS_edges _ _ NS); exact He|rewrite Ee; exact Hct|exact Ee]. }
    assert (HSf : sameS h h') by (eapply sameS_trans; eauto).
    assert (Hextc : forall n e, In e (edgesOf h c) -> contrib_e rd h' n e = contrib_e rd h n e).
    { intros n e He. apply contrib_e_ext; [intros i; symmetry; apply (sameS_val _ _ HSf)|].
      rewrite (rules_own_edgesOf _ Hown _ _ He). exact Hfin. }
    split; [exact HSf|]. split.
    + intros n Hn. unfold contributions. cbn [flat_map]. fold (contributions rd h' h l n).
      rewrite accAll_app. rewrite (flat_map_ext_in' _ _ _ (Hextc n)). rewrite (Nacc n Hn).
      rewrite (contributions_sameS rd h' h h1 l n NS). apply Iacc. rewrite <- (sameS_trk _ _ NS). exact Hn.
    + intros n Hn. rewrite Iun; [apply Nun; exact Hn|]. rewrite <- (sameS_trk _ _ NS). exact Hn.
Qed.

(* contributions evaluated in two heaps in which the consumers hold the same gradients *)
Lemma contributions_ext (hf1 hf2 hs : heap) l n :
  rules_own hs -> (forall i, valOf hf1 i = valOf hf2 i) -> (forall c, In c l -> gradOf hf1 c = gradOf hf2 c) ->
  contributions rd hf1 hs l n = contributions rd hf2 hs l n.
Proof.
  intros Hown Hv Hg. unfold contributions. apply flat_map_ext_in'. intros c Hc. apply flat_map_ext_in'. intros e He.
  apply contrib_e_ext; [exact Hv|]. rewrite (rules_own_edgesOf _ Hown _ _ He). apply Hg. exact Hc.
Qed.

Lemma contributions_app (hf hs : heap) l1 l2 n :
  contributions rd hf hs (l1 ++ l2) n = contributions rd hf hs l1 n ++ contributions rd hf hs l2 n.
Proof. unfold contributions. apply flat_map_app. Qed.

End Run.

(* ---------- the search reaches y from a state in which the component is untouched ---------- *)
Section Find.
Variable H : heap.
Hypothesis W : wf_heap H.
Variables (y : nat) (ints : list nat).

(* internal nodes are reachable only through the component *)
Definition no_outside_edge : Prop :=
  forall c e, In e (edgesOf H c) -> In (fst e) ints -> In c (y :: ints).
Hypothesis NE : no_outside_edge.

(* an internal node is visited only after y *)
Definition Iv (V : list nat) : Prop := forall n, In n ints -> In n V -> In y V.

Lemma dfs_mono fuel n st : incl (fst st) (fst (dfs fuel H n st)).
Proof.
  destruct (dfs_grow H W fuel n st) as (nv & nr & E & _). rewrite E. cbn [fst]. intros a Ha. apply in_or_app. right. exact Ha.
Qed.

Lemma dfs_snd_grow fuel n st : exists nr, snd (dfs fuel H n st) = nr ++ snd st.
Proof. destruct (dfs_grow H W fuel n st) as (nv & nr & E & _). rewrite E. exists nr. reflexivity. Qed.

Lemma dfs_fold_snd_grow fuel (es : list (nat * rule)) : forall s,
  exists nr, snd (fold_left (fun s e => dfs fuel H (fst e) s) es s) = nr ++ snd s.
Proof.
  induction es as [|e es IH]; intros s; cbn [fold_left]; [exists []; reflexivity|].
  destruct (IH (dfs fuel H (fst e) s)) as (nr2 & E2). destruct (dfs_snd_grow fuel (fst e) s) as (nr1 & E1).
  exists (nr2 ++ nr1). rewrite E2, E1, app_assoc. reflexivity.
Qed.

Lemma dfs_Iv fuel : forall n st, Iv (fst st) -> (In n ints -> In y (fst st)) -> Iv (fst (dfs fuel H n st)).
Proof.
  induction fuel as [|f IH]; intros n st HI Hn; [exact HI|]. cbn [dfs].
  destruct (negb (trackedOf H n) || memb n (fst st)); [exact HI|]. cbn [fst].
  assert (Hfold : forall (es : list (nat * rule)) s, (forall e, In e es -> In e (edgesOf H n)) ->
            Iv (fst s) -> In n (fst s) -> (In n ints -> In y (fst s)) ->
            Iv (fst (fold_left (fun s e => dfs f H (fst e) s) es s))).
  { induction es as [|e es IHes]; intros s Hes HIs Hns Hys; cbn [fold_left]; [exact HIs|].
    apply IHes.
    - intros e0 H0. apply Hes. right. exact H0.
    - apply IH; [exact HIs|]. intros Hi. destruct (NE n e (Hes e (or_introl eq_refl)) Hi) as [<-|Hni]; [exact Hns|apply Hys; exact Hni].
    - apply dfs_mono. exact Hns.
    - intros Hni. apply dfs_mono. apply Hys. exact Hni. }
  apply Hfold.
  - intros e He. exact He.
  - intros m Hm [<-|Hv]; [right; apply Hn; exact Hm|right; exact (HI m Hm Hv)].
  - left. reflexivity.
  - intros Hni. right. apply Hn. exact Hni.
Qed.

(* FIRST VISIT: if y is posted during a call, the posted list is [pre ++ (what the call at y posts)] and
   that call starts from a state satisfying the invariant in which y is not visited *)
Lemma dfs_find fuel : forall n st,
  Iv (fst st) -> (In n ints -> In y (fst st)) -> n < fuel ->
  In y (snd (dfs fuel H n st)) -> ~ In y (snd st) ->
  exists f V R pre, y < f /\ memb y V = false /\ trackedOf H y = true /\ Iv V /\
    snd (dfs fuel H n st) = pre ++ snd (dfs f H y (V, R)).
Proof.
  induction fuel as [|f IH]; intros n st HI Hn Hlt Hin Hnot; [lia|].
  cbn [dfs] in Hin |- *.
  destruct (negb (trackedOf H n) || memb n (fst st)) eqn:Ec; [contradiction|].
  apply orb_false_iff in Ec. destruct Ec as [Et Em]. apply negb_false_iff in Et.
  cbn [snd] in Hin |- *.
  destruct (Nat.eq_dec n y) as [->|Hny].
  - exists (S f), (fst st), (snd st), []. split; [exact Hlt|]. split; [exact Em|]. split; [exact Et|]. split; [exact HI|].
    cbn [app dfs fst snd]. rewrite Et, Em. reflexivity.
  - destruct Hin as [Hin|Hin]; [congruence|].
    assert (Hfold : forall (es : list (nat * rule)) s, (forall e, In e es -> In e (edgesOf H n)) ->
              Iv (fst s) -> In n (fst s) -> (In n ints -> In y (fst s)) ->
              In y (snd (fold_left (fun s e => dfs f H (fst e) s) es s)) -> ~ In y (snd s) ->
              exists f' V R pre, y < f' /\ memb y V = false /\ trackedOf H y = true /\ Iv V /\
                snd (fold_left (fun s e => dfs f H (fst e) s) es s) = pre ++ snd (dfs f' H y (V, R))).
    { induction es as [|e es IHes]; intros s Hes HIs Hns Hys Hiny Hnoty; cbn [fold_left] in Hiny |- *; [contradiction|].
      assert (Hpre : In (fst e) ints -> In y (fst s)).
      { intros Hi. destruct (NE n e (Hes e (or_introl eq_refl)) Hi) as [<-|Hni]; [exact Hns|apply Hys; exact Hni]. }
      destruct (in_dec Nat.eq_dec y (snd (dfs f H (fst e) s))) as [Hy1|Hy1].
      - destruct (IH (fst e) s HIs Hpre) as (f' & V & R & pre & A1 & A2 & A3 & A4 & A5); [|exact Hy1|exact Hnoty|].
        { pose proof (wf_heap_edgesOf _ W _ _ (Hes e (or_introl eq_refl))). lia. }
        destruct (dfs_fold_snd_grow f es (dfs f H (fst e) s)) as (nr & Enr).
        exists f', V, R, (nr ++ pre). repeat (split; [assumption|]). rewrite Enr, A5, app_assoc. reflexivity.
      - apply IHes.
        + intros e0 H0. apply Hes. right. exact H0.
        + apply dfs_Iv; assumption.
        + apply dfs_mono. exact Hns.
        + intros Hni. apply dfs_mono. apply Hys. exact Hni.
        + exact Hiny.
        + exact Hy1. }
    destruct (Hfold (edgesOf H n) (n :: fst st, snd st)) as (f' & V & R & pre & A1 & A2 & A3 & A4 & A5).
    + intros e He. exact He.
    + cbn [fst]. intros m Hm [<-|Hv]; [right; apply Hn; exact Hm|right; exact (HI m Hm Hv)].
    + left. reflexivity.
    + intros Hni. right. apply Hn. exact Hni.
    + exact Hin.
    + exact Hnot.
    + exists f', V, R, (n :: pre). repeat (split; [assumption|]). rewrite A5. reflexivity.
Qed.

Hypothesis Hlow : forall n, In n ints -> n < y.

Theorem topo_find r : In y (topoOrder H r) ->
  exists f V R pre, y < f /\ ~ In y V /\ (forall n, In n ints -> ~ In n V) /\ trackedOf H y = true /\
    topoOrder H r = pre ++ snd (dfs f H y (V, R)).
Proof.
  intros Hin. unfold topoOrder in *.
  assert (Hyr : y <= r).
  { destruct (dfs_new H W (S r) r ([], [])) as (new & En & Hnew). rewrite En in Hin. cbn [snd] in Hin. rewrite app_nil_r in Hin.
    apply (Hnew y Hin). }
  destruct (dfs_find (S r) r ([], [])) as (f & V & R & pre & A1 & A2 & A3 & A4 & A5).
  - intros n _ [].
  - intros Hi. specialize (Hlow r Hi). lia.
  - lia.
  - exact Hin.
  - intros [].
  - exists f, V, R, pre. split; [exact A1|]. assert (Hyv : ~ In y V) by (intros X; apply memb_in in X; congruence).
    split; [exact Hyv|]. split; [intros n Hn X; apply Hyv; apply (A4 n Hn X)|]. split; [exact A3|exact A5].
Qed.

End Find.

(* ---------- what a block in the order entails ---------- *)
Definition topo_block (H : heap) (r x y : nat) (ints : list nat) : Prop :=
  exists pre post,
    topoOrder H r = pre ++ (y :: ints) ++ post /\
    (forall n, In n (y :: ints) -> ~ In n pre /\ ~ In n post) /\
    ~ In x pre /\
    (forall c e, In c (topoOrder H r) -> In e (edgesOf H c) -> fst e = y -> In c pre).

Lemma topo_block_intro (H : heap) r x y ints pre post ex :
  wf_heap H -> trackedOf H r = true ->
  topoOrder H r = pre ++ (y :: ints) ++ post ->
  In ex (edgesOf H y) -> fst ex = x -> trackedOf H x = true ->
  topo_block H r x y ints.
Proof.
  intros W Hr E Hex Hfx Tx.
  destruct (topoOrder_facts H r W Hr) as (Hnd & Htr & Hord & _). cbv zeta in *. rewrite E in Hnd, Hord, Htr.
  exists pre, post. split; [exact E|]. split; [|split].
  - intros n Hn. split; intros X.
    + apply (NoDup_app_disj pre ((y :: ints) ++ post) n Hnd X). apply in_or_app. left. exact Hn.
    + rewrite app_assoc in Hnd. apply (NoDup_app_disj (pre ++ y :: ints) post n Hnd); [apply in_or_app; right; exact Hn|exact X].
  - intros X. subst x. apply (ord_split H pre ((y :: ints) ++ post) y ex Hnd Hord); [left; reflexivity|exact Hex|exact Tx|exact X].
  - intros c e Hc He Hfe. rewrite E in Hc. apply in_app_or in Hc. destruct Hc as [Hc|Hc]; [exact Hc|exfalso].
    assert (Ty : trackedOf H y = true) by (apply Htr; apply in_or_app; right; left; reflexivity).
    destruct Hc as [<-|Hc].
    + pose proof (wf_heap_edgesOf _ W _ _ He). lia.
    + change (pre ++ (y :: ints) ++ post) with (pre ++ [y] ++ (ints ++ post)) in Hnd, Hord. rewrite app_assoc in Hnd, Hord.
      apply (ord_split H (pre ++ [y]) (ints ++ post) c e Hnd Hord Hc He); [rewrite Hfe; exact Ty|].
      rewrite Hfe. apply in_or_app. right. left. reflexivity.
Qed.

End Order.
