(* LossP.v — component/losses (C12): clip, MSE, BCE, CE against exact expressions, for an
   arbitrary [Scalar A] with no laws.  Each loss is (a) on the heap, the composition of the
   value-level methods in the order of the Go code ([*_tracks]: Ok/Err/Panic correspond, a failing
   call leaves the heap unchanged), and (b) at the value level, for well-formed accepted inputs,
   a rank-0 tensor whose single element is the stated expression ([*_val_spec]).
   MeanAlong(0) of a rank-1 tensor is the mean of all its elements ([mean0_rank1], from
   ReduceP.v_reduceAlong_elems). *)
From Coq Require Import List Arith ZArith Bool Lia.
From Qeep Require Import Model.Scalar Model.Nd Model.Fill Model.Data Model.Valid Model.Api Model.Grad Model.Components.
From Qeep Require Import Proofs.NdP Proofs.ReduceP Proofs.ElemP Proofs.TrackP Spec.ValidSpec Proofs.ValidP Proofs.CompP.
Import ListNotations.

Lemma map_Some_inj {X} (l1 l2 : list X) : map Some l1 = map Some l2 -> l1 = l2.
Proof.
  revert l2. induction l1 as [|a l1 IH]; intros [|b l2] H; cbn in H; try discriminate; [reflexivity|].
  inversion H; subst. f_equal. apply IH. assumption.
Qed.

(* move the known values along a heap extension *)
Ltac carry X :=
  match type of X with
  | extends ?h ?h1 =>
      repeat match goal with H : valOf h _ = Some _ |- _ => apply (extends_valOf _ _ _ _ X) in H end
  end.

Section LossP.
Context {A : Type} {SA : Scalar A}.
Notation T := (tensor A).
Notation heap := (@heap A).
Notation hres := (@hres A).

Notation c0 := (sconst 0 0).
Notation c1 := (sconst 1 0).
Notation c2 := (sconst 2 0).
Notation cm1 := (sconst (-1) 0).

(* ================================================================== *)
(*  rank-1 tensors and MeanAlong(0)                                    *)
(* ================================================================== *)

Lemma rank1_elems (x : nd A) n : wfnd [n] x ->
  map Some (flat x) = map (fun k => get x [k]) (seq 0 n).
Proof.
  intros H. apply wfnd_cons in H as (l & -> & Hl & Hf). subst n. rewrite flat_Vec.
  induction Hf as [|y l Hy Hf IH]; [reflexivity|].
  apply wfnd_nil in Hy as (a & ->). cbn [flat_list flat app length seq map]. f_equal.
  rewrite IH. rewrite <- seq_shift, map_map. apply map_ext. intros k. rewrite !get_cons. reflexivity.
Qed.

Lemma rank1_flat_len (x : T) n : wf x -> dims x = [n] -> length (flat (data x)) = n.
Proof. intros [Hw _] E. rewrite (flat_length A _ _ Hw), E. cbn. lia. Qed.

(* MeanAlong(0) of a rank-1 tensor: a rank-0 tensor holding  (sum of the elements) / n *)
Theorem mean0_rank1 (d : T) n : wf d -> dims d = [n] ->
  exists r, v_reduceAlong RdMean d 0%Z = Ok r /\ dims r = [] /\ wf r /\
    get (data r) [] = Some (sdiv (fold_left sadd (flat (data d)) s0) (sofnat n)).
Proof.
  intros Hw Ed.
  destruct (v_reduceAlong_elems RdMean d 0%Z Hw ltac:(rewrite Ed; cbn; lia)) as (r & Er & Hd & Hwr & Hel).
  cbn [Z.to_nat] in Hd, Hel. rewrite Ed in Hd, Hel. cbn in Hd.
  exists r. split; [exact Er|]. split; [exact Hd|]. split; [exact Hwr|].
  destruct (Hel [] ltac:(constructor)) as (fibre & Hf & Hg). cbn [firstn skipn app nth] in Hf.
  destruct Hw as [Hwd _]. rewrite Ed in Hwd. rewrite <- (rank1_elems (data d) n Hwd) in Hf.
  apply map_Some_inj in Hf. subst fibre. rewrite Hg. cbn [redL]. unfold meanL, sumL.
  rewrite (flat_length A _ _ Hwd). cbn [prodn fold_right]. rewrite Nat.mul_1_r. reflexivity.
Qed.

(* SumAlong(1) of a rank-2 tensor: row sums *)
Theorem sum1_rank2 (s : T) m k (E : nat -> nat -> A) : wf s -> dims s = [m; k] ->
  (forall i j, i < m -> j < k -> get (data s) [i; j] = Some (E i j)) ->
  exists r, v_reduceAlong RdSum s 1%Z = Ok r /\ dims r = [m] /\ wf r /\
    forall i, i < m -> get (data r) [i] = Some (fold_left sadd (map (E i) (seq 0 k)) s0).
Proof.
  intros Hw Ed HE.
  destruct (v_reduceAlong_elems RdSum s 1%Z Hw ltac:(rewrite Ed; cbn; lia)) as (r & Er & Hd & Hwr & Hel).
  change (Z.to_nat 1) with 1 in Hd, Hel. rewrite Ed in Hd, Hel. cbn in Hd.
  exists r. split; [exact Er|]. split; [exact Hd|]. split; [exact Hwr|].
  intros i Hi. destruct (Hel [i] ltac:(repeat constructor; exact Hi)) as (fibre & Hf & Hg).
  cbn [firstn skipn app nth] in Hf.
  assert (fibre = map (E i) (seq 0 k)) as ->.
  { apply map_Some_inj. rewrite Hf, map_map. apply map_ext_in. intros j Hj. apply in_seq in Hj. apply HE; lia. }
  rewrite Hg. reflexivity.
Qed.

(* ================================================================== *)
(*  clip                                                               *)
(* ================================================================== *)

Definition clipF (l u e : A) : A := smax (smul l (spow e c0)) (smin e (smul u (spow e c0))).

Definition clip_val (xv : T) (l u : A) : res T :=
  dor one <- v_unary (UPow c0) xv;
  dor lower <- v_unary (UScale l) one;
  dor upper <- v_unary (UScale u) one;
  dor y <- v_same BiElMin xv upper;
  v_same BiElMax lower y.

Theorem clip_tracks_w (h : heap) x l u xv : valOf h x = Some xv ->
  tracks_w h (clip h x l u) (clip_val xv l u) None.
Proof.
  intros Hx. unfold clip, clip_val.
  eapply tracks_w_bind; [apply tracks_is_w, h_pow_tracks, Hx|]. intros h1 one onev X1 _ Hone _. carry X1.
  eapply tracks_w_bind; [apply tracks_is_w, h_scale_tracks, Hone|]. intros h2 lo lov X2 _ Hlo _. carry X2.
  eapply tracks_w_bind; [apply tracks_is_w, h_scale_tracks, Hone|]. intros h3 up upv X3 _ Hup _. carry X3.
  eapply tracks_w_bind; [apply tracks_is_w, h_elsel_tracks; [exact Hx|exact Hup]|].
  intros h4 y yv X4 _ Hy _. carry X4.
  apply tracks_is_w, h_elsel_tracks; [exact Hlo|exact Hy].
Qed.

Lemma clip_val_pw F (p t a : T) l u : pw2 F p t a ->
  exists r, clip_val a l u = Ok r /\ pw2 (fun x y => clipF l u (F x y)) p t r.
Proof.
  intros Ha. unfold clip_val.
  destruct (pw2_unary (UPow c0) _ _ _ _ Ha) as (one & E1 & H1). rewrite E1. cbn [res_bind].
  destruct (pw2_unary (UScale l) _ _ _ _ H1) as (lo & E2 & H2). rewrite E2. cbn [res_bind].
  destruct (pw2_unary (UScale u) _ _ _ _ H1) as (up & E3 & H3). rewrite E3. cbn [res_bind].
  destruct (pw2_same BiElMin _ _ _ _ _ _ Ha H3) as (y & E4 & H4). rewrite E4. cbn [res_bind].
  destruct (pw2_same BiElMax _ _ _ _ _ _ H2 H4) as (r & Er & Hr). rewrite Er.
  exists r. split; [reflexivity|exact Hr].
Qed.

(* clip on its own: element-wise  max(l*x^0, min(x, u*x^0)), shape of the input *)
Theorem clip_spec (h : heap) x l u xv : valOf h x = Some xv -> wf xv ->
  exists r, produces h (clip h x l u) r None /\ pw1 (clipF l u) xv r.
Proof.
  intros Hx W. destruct (clip_val_pw _ _ _ _ l u (pw2_fst xv xv W W eq_refl)) as (r & Er & Hr).
  exists r. split; [|apply pw2_diag in Hr; exact Hr].
  pose proof (clip_tracks_w h x l u xv Hx) as H. rewrite Er in H. exact H.
Qed.

(* ================================================================== *)
(*  MSE                                                                *)
(* ================================================================== *)

Definition mseF (p t : A) : A := spow (ssub t p) c2.

Definition mse_val (pv tv : T) : res T :=
  dor d <- v_arith BiSub tv pv;
  dor d2 <- v_unary (UPow c2) d;
  v_reduceAlong RdMean d2 0%Z.

Theorem mse_compute_tracks (h : heap) yp yt p t name pv tv :
  lossArgs1 h yp yt = Some (p, t) -> valOf h p = Some pv -> valOf h t = Some tv ->
  tracks h (mse_compute h yp yt name) (mse_val pv tv) name.
Proof.
  intros E Hp Ht. unfold mse_compute, mse_val. rewrite E. apply tracks_atomically.
  eapply tracks_w_bind; [apply tracks_is_w, h_arith_tracks; [exact Ht|exact Hp]|].
  intros h1 d dv X1 _ Hd _.
  eapply tracks_w_bind; [apply tracks_is_w, h_pow_tracks, Hd|]. intros h2 d2 d2v X2 _ Hd2 _.
  apply tracks_is_w, h_reduceAlong_tracks, Hd2.
Qed.

(* mean of a pw2-described rank-1 tensor *)
Lemma mean_pw2 F (pv tv d : T) n : wf pv -> wf tv -> dims pv = [n] -> dims tv = [n] -> pw2 F pv tv d ->
  exists r, v_reduceAlong RdMean d 0%Z = Ok r /\ dims r = [] /\ wf r /\
    get (data r) [] = Some (sdiv (fold_left sadd (map2 F (flat (data pv)) (flat (data tv))) s0) (sofnat n)).
Proof.
  intros Wp Wt Ep Et Hd. pose proof Hd as (Edd & Wd & _).
  destruct (mean0_rank1 d n Wd ltac:(congruence)) as (r & Er & Hdr & Wr & Hg).
  exists r. split; [exact Er|]. split; [exact Hdr|]. split; [exact Wr|].
  rewrite Hg. rewrite (pw2_flat F pv tv d Wp Wt ltac:(congruence) Hd). reflexivity.
Qed.

Theorem mse_val_spec (pv tv : T) n : wf pv -> wf tv -> dims pv = [n] -> dims tv = [n] ->
  exists r, mse_val pv tv = Ok r /\ dims r = [] /\ wf r /\
    get (data r) [] = Some (sdiv (fold_left sadd (map2 mseF (flat (data pv)) (flat (data tv))) s0) (sofnat n)).
Proof.
  intros Wp Wt Ep Et. assert (Edm : dims pv = dims tv) by congruence.
  pose proof (pw2_fst pv tv Wp Wt Edm) as Hp. pose proof (pw2_snd pv tv Wp Wt Edm) as Ht. unfold mse_val.
  destruct (pw2_arith BiSub _ _ _ _ _ _ Ht Hp) as (d & E1 & H1). rewrite E1. cbn [res_bind].
  destruct (pw2_unary (UPow c2) _ _ _ _ H1) as (d2 & E2 & H2). rewrite E2. cbn [res_bind].
  exact (mean_pw2 _ pv tv d2 n Wp Wt Ep Et H2).
Qed.

(* accepted arguments as hypotheses: the check, and well-formed values *)
Lemma lossArgs1_dims (h : heap) yp yt p t pv tv :
  lossArgs1 h yp yt = Some (p, t) -> valOf h p = Some pv -> valOf h t = Some tv ->
  exists n, dims pv = [n] /\ dims tv = [n].
Proof.
  intros E Hp Ht. apply lossArgs1_spec in E as (_ & _ & vp & vt & n & Hvp & Hvt & Hdp & Hdt).
  exists n. split; congruence.
Qed.

Theorem mse_compute_spec (h : heap) yp yt p t name pv tv :
  lossArgs1 h yp yt = Some (p, t) -> valOf h p = Some pv -> valOf h t = Some tv -> wf pv -> wf tv ->
  exists n r, dims pv = [n] /\ dims tv = [n] /\
    produces h (mse_compute h yp yt name) r name /\ dims r = [] /\ wf r /\
    get (data r) [] = Some (sdiv (fold_left sadd (map2 mseF (flat (data pv)) (flat (data tv))) s0) (sofnat n)).
Proof.
  intros E Hp Ht Wp Wt. destruct (lossArgs1_dims h yp yt p t pv tv E Hp Ht) as (n & Ep & Et).
  destruct (mse_val_spec pv tv n Wp Wt Ep Et) as (r & Er & Hr). exists n, r.
  split; [exact Ep|]. split; [exact Et|]. split; [|exact Hr].
  pose proof (mse_compute_tracks h yp yt p t name pv tv E Hp Ht) as H. rewrite Er in H. exact H.
Qed.

(* ================================================================== *)
(*  BCE                                                                *)
(* ================================================================== *)
Variables (eps ome : A).    (* losses.epsilon and 1 - epsilon *)

Definition bceF (p t : A) : A :=
  let tc := clipF c0 c1 t in
  let pc := clipF eps ome p in
  let one := spow pc c0 in
  smul cm1 (sadd (smul tc (slog pc)) (smul (ssub one tc) (slog (ssub one pc)))).

Definition bce_val (pv tv : T) : res T :=
  dor ytc <- clip_val tv c0 c1;
  dor ypc <- clip_val pv eps ome;
  dor lp <- v_unary ULn ypc;
  dor sA <- v_arith BiMul ytc lp;
  dor one <- v_unary (UPow c0) ypc;
  dor t2 <- v_arith BiSub one ytc;
  dor y2 <- v_arith BiSub one ypc;
  dor ly2 <- v_unary ULn y2;
  dor sB <- v_arith BiMul t2 ly2;
  dor l <- v_arith BiAdd sA sB;
  dor ln <- v_unary (UScale cm1) l;
  v_reduceAlong RdMean ln 0%Z.

Theorem bce_compute_tracks (h : heap) yp yt p t name pv tv :
  lossArgs1 h yp yt = Some (p, t) -> valOf h p = Some pv -> valOf h t = Some tv ->
  tracks h (bce_compute eps ome h yp yt name) (bce_val pv tv) name.
Proof.
  intros E Hp Ht. unfold bce_compute, bce_val. rewrite E. apply tracks_atomically.
  eapply tracks_w_bind; [apply clip_tracks_w, Ht|]. intros h1 ytc ytcv X1 _ Hytc _. carry X1.
  eapply tracks_w_bind; [apply clip_tracks_w, Hp|]. intros h2 ypc ypcv X2 _ Hypc _. carry X2.
  eapply tracks_w_bind; [apply tracks_is_w, (h_math_tracks h2 FLog), Hypc|]. intros h3 lp lpv X3 _ Hlp _. carry X3.
  eapply tracks_w_bind; [apply tracks_is_w, h_arith_tracks; [exact Hytc|exact Hlp]|].
  intros h4 sA sAv X4 _ HsA _. carry X4.
  eapply tracks_w_bind; [apply tracks_is_w, h_pow_tracks, Hypc|]. intros h5 one onev X5 _ Hone _. carry X5.
  eapply tracks_w_bind; [apply tracks_is_w, h_arith_tracks; [exact Hone|exact Hytc]|].
  intros h6 t2 t2v X6 _ Ht2 _. carry X6.
  eapply tracks_w_bind; [apply tracks_is_w, h_arith_tracks; [exact Hone|exact Hypc]|].
  intros h7 y2 y2v X7 _ Hy2 _. carry X7.
  eapply tracks_w_bind; [apply tracks_is_w, (h_math_tracks h7 FLog), Hy2|]. intros h8 ly2 ly2v X8 _ Hly2 _. carry X8.
  eapply tracks_w_bind; [apply tracks_is_w, h_arith_tracks; [exact Ht2|exact Hly2]|].
  intros h9 sB sBv X9 _ HsB _. carry X9.
  eapply tracks_w_bind; [apply tracks_is_w, h_arith_tracks; [exact HsA|exact HsB]|].
  intros h10 l lv X10 _ Hl _. carry X10.
  eapply tracks_w_bind; [apply tracks_is_w, h_scale_tracks, Hl|]. intros h11 ln lnv X11 _ Hln _.
  apply tracks_is_w, h_reduceAlong_tracks, Hln.
Qed.

(* the element-wise part of BCE and CE share the first four calls *)
Theorem bce_val_spec (pv tv : T) n : wf pv -> wf tv -> dims pv = [n] -> dims tv = [n] ->
  exists r, bce_val pv tv = Ok r /\ dims r = [] /\ wf r /\
    get (data r) [] = Some (sdiv (fold_left sadd (map2 bceF (flat (data pv)) (flat (data tv))) s0) (sofnat n)).
Proof.
  intros Wp Wt Ep Et. assert (Edm : dims pv = dims tv) by congruence.
  pose proof (pw2_fst pv tv Wp Wt Edm) as Hp. pose proof (pw2_snd pv tv Wp Wt Edm) as Ht. unfold bce_val.
  destruct (clip_val_pw _ _ _ _ c0 c1 Ht) as (ytc & E1 & H1). rewrite E1. cbn [res_bind].
  destruct (clip_val_pw _ _ _ _ eps ome Hp) as (ypc & E2 & H2). rewrite E2. cbn [res_bind].
  destruct (pw2_unary ULn _ _ _ _ H2) as (lp & E3 & H3). rewrite E3. cbn [res_bind].
  destruct (pw2_arith BiMul _ _ _ _ _ _ H1 H3) as (sA & E4 & H4). rewrite E4. cbn [res_bind].
  destruct (pw2_unary (UPow c0) _ _ _ _ H2) as (one & E5 & H5). rewrite E5. cbn [res_bind].
  destruct (pw2_arith BiSub _ _ _ _ _ _ H5 H1) as (t2 & E6 & H6). rewrite E6. cbn [res_bind].
  destruct (pw2_arith BiSub _ _ _ _ _ _ H5 H2) as (y2 & E7 & H7). rewrite E7. cbn [res_bind].
  destruct (pw2_unary ULn _ _ _ _ H7) as (ly2 & E8 & H8). rewrite E8. cbn [res_bind].
  destruct (pw2_arith BiMul _ _ _ _ _ _ H6 H8) as (sB & E9 & H9). rewrite E9. cbn [res_bind].
  destruct (pw2_arith BiAdd _ _ _ _ _ _ H4 H9) as (l & E10 & H10). rewrite E10. cbn [res_bind].
  destruct (pw2_unary (UScale cm1) _ _ _ _ H10) as (ln & E11 & H11). rewrite E11. cbn [res_bind].
  exact (mean_pw2 _ pv tv ln n Wp Wt Ep Et H11).
Qed.

Theorem bce_compute_spec (h : heap) yp yt p t name pv tv :
  lossArgs1 h yp yt = Some (p, t) -> valOf h p = Some pv -> valOf h t = Some tv -> wf pv -> wf tv ->
  exists n r, dims pv = [n] /\ dims tv = [n] /\
    produces h (bce_compute eps ome h yp yt name) r name /\ dims r = [] /\ wf r /\
    get (data r) [] = Some (sdiv (fold_left sadd (map2 bceF (flat (data pv)) (flat (data tv))) s0) (sofnat n)).
Proof.
  intros E Hp Ht Wp Wt. destruct (lossArgs1_dims h yp yt p t pv tv E Hp Ht) as (n & Ep & Et).
  destruct (bce_val_spec pv tv n Wp Wt Ep Et) as (r & Er & Hr). exists n, r.
  split; [exact Ep|]. split; [exact Et|]. split; [|exact Hr].
  pose proof (bce_compute_tracks h yp yt p t name pv tv E Hp Ht) as H. rewrite Er in H. exact H.
Qed.

(* ================================================================== *)
(*  CE                                                                 *)
(* ================================================================== *)

(* the argument check of CE.Compute as a function, and what it accepts *)
Definition ceArgs (h : heap) (yp yt : targ) : option (nat * nat) :=
  match yp, yt with
  | Some p, Some t =>
      if (rankOf h p =? 2) && (rankOf h t =? 2) && (dim0Of h p =? dim0Of h t) && (dim1Of h p =? dim1Of h t)
      then Some (p, t) else None
  | _, _ => None
  end.

Definition ceArgsPre (h : heap) (yp yt : targ) (p t : nat) : Prop :=
  yp = Some p /\ yt = Some t /\
  exists vp vt m k, valOf h p = Some vp /\ valOf h t = Some vt /\ dims vp = [m; k] /\ dims vt = [m; k].

Lemma rank2_inv (h : heap) (p : nat) : rankOf h p = 2 ->
  exists v a b, valOf h p = Some v /\ dims v = [a; b] /\ dim0Of h p = a /\ dim1Of h p = b.
Proof.
  unfold rankOf, dim0Of, dim1Of. destruct (valOf h p) as [v|]; [|discriminate].
  destruct (dims v) as [|a [|b [|c r]]] eqn:Ed; cbn [length]; intros H; try discriminate.
  exists v, a, b. repeat split. exact Ed.
Qed.

Theorem ceArgs_spec (h : heap) yp yt p t : ceArgs h yp yt = Some (p, t) <-> ceArgsPre h yp yt p t.
Proof.
  unfold ceArgs, ceArgsPre. split.
  - destruct yp as [p'|]; [|discriminate]. destruct yt as [t'|]; [|discriminate].
    destruct ((rankOf h p' =? 2) && (rankOf h t' =? 2) && (dim0Of h p' =? dim0Of h t') && (dim1Of h p' =? dim1Of h t')) eqn:E;
      [|discriminate].
    intros H; inversion H; subst p' t'.
    apply andb_true_iff in E as [E E4]. apply andb_true_iff in E as [E E3]. apply andb_true_iff in E as [E1 E2].
    apply Nat.eqb_eq in E1, E2, E3, E4.
    destruct (rank2_inv h p E1) as (vp & a & b & Hvp & Hdp & Ha & Hb).
    destruct (rank2_inv h t E2) as (vt & a' & b' & Hvt & Hdt & Ha' & Hb').
    repeat split. exists vp, vt, a, b. repeat split; try assumption. congruence.
  - intros (-> & -> & vp & vt & m & k & Hvp & Hvt & Hdp & Hdt).
    unfold rankOf, dim0Of, dim1Of. rewrite Hvp, Hvt, Hdp, Hdt. cbn [length nth].
    rewrite !Nat.eqb_refl. reflexivity.
Qed.

Definition ceElF (p t : A) : A := smul (clipF c0 c1 t) (slog (clipF eps ome p)).

Definition ce_val (pv tv : T) : res T :=
  dor ytc <- clip_val tv c0 c1;
  dor ypc <- clip_val pv eps ome;
  dor lp <- v_unary ULn ypc;
  dor s <- v_arith BiMul ytc lp;
  dor l <- v_reduceAlong RdSum s 1%Z;
  dor ln <- v_unary (UScale cm1) l;
  v_reduceAlong RdMean ln 0%Z.

Lemma ce_compute_unfold (h : heap) yp yt name :
  ce_compute eps ome h yp yt name =
  match ceArgs h yp yt with
  | None => (h, Err)
  | Some (p, t) => atomically h (
        hbind (clip h t (cst 0 0) (cst 1 0)) (fun h1 ytc =>
        hbind (clip h1 p eps ome) (fun h2 ypc =>
        hbind (h_math h2 FLog ypc None) (fun h3 lp =>
        hbind (h_arith h3 BiMul ytc lp None) (fun h4 s =>
        hbind (h_reduceAlong h4 RdSum s 1%Z None) (fun h5 l =>
        hbind (h_scale h5 l (cst (-1) 0) None) (fun h6 ln =>
        h_reduceAlong h6 RdMean ln 0%Z name)))))))
  end.
Proof.
  unfold ce_compute, ceArgs. destruct yp as [p|]; [|reflexivity]. destruct yt as [t|]; [|reflexivity].
  destruct ((rankOf h p =? 2) && (rankOf h t =? 2) && (dim0Of h p =? dim0Of h t) && (dim1Of h p =? dim1Of h t));
    reflexivity.
Qed.

Theorem ce_compute_rejects (h : heap) yp yt name :
  (forall p t, ~ ceArgsPre h yp yt p t) -> ce_compute eps ome h yp yt name = (h, Err).
Proof.
  intros H. rewrite ce_compute_unfold. destruct (ceArgs h yp yt) as [[p t]|] eqn:E; [|reflexivity].
  apply ceArgs_spec in E. exfalso. apply (H p t E).
Qed.

Theorem ce_compute_tracks (h : heap) yp yt p t name pv tv :
  ceArgs h yp yt = Some (p, t) -> valOf h p = Some pv -> valOf h t = Some tv ->
  tracks h (ce_compute eps ome h yp yt name) (ce_val pv tv) name.
Proof.
  intros E Hp Ht. rewrite ce_compute_unfold, E. unfold ce_val. apply tracks_atomically.
  eapply tracks_w_bind; [apply clip_tracks_w, Ht|]. intros h1 ytc ytcv X1 _ Hytc _. carry X1.
  eapply tracks_w_bind; [apply clip_tracks_w, Hp|]. intros h2 ypc ypcv X2 _ Hypc _. carry X2.
  eapply tracks_w_bind; [apply tracks_is_w, (h_math_tracks h2 FLog), Hypc|]. intros h3 lp lpv X3 _ Hlp _. carry X3.
  eapply tracks_w_bind; [apply tracks_is_w, h_arith_tracks; [exact Hytc|exact Hlp]|].
  intros h4 s sv X4 _ Hs _.
  eapply tracks_w_bind; [apply tracks_is_w, h_reduceAlong_tracks, Hs|]. intros h5 l lv X5 _ Hl _.
  eapply tracks_w_bind; [apply tracks_is_w, h_scale_tracks, Hl|]. intros h6 ln lnv X6 _ Hln _.
  apply tracks_is_w, h_reduceAlong_tracks, Hln.
Qed.

(* CE of [m; k] inputs with elements P i j / Tm i j:
     ( sum_i  -1 * ( sum_j  clip(t_ij, 0, 1) * log(clip(p_ij, eps, 1-eps)) ) ) / m       (left folds from 0) *)
Theorem ce_val_spec (pv tv : T) m k (P Tm : nat -> nat -> A) :
  wf pv -> wf tv -> dims pv = [m; k] -> dims tv = [m; k] ->
  (forall i j, i < m -> j < k -> get (data pv) [i; j] = Some (P i j)) ->
  (forall i j, i < m -> j < k -> get (data tv) [i; j] = Some (Tm i j)) ->
  exists r, ce_val pv tv = Ok r /\ dims r = [] /\ wf r /\
    get (data r) [] =
    Some (sdiv (fold_left sadd
                  (map (fun i => smul cm1 (fold_left sadd (map (fun j => ceElF (P i j) (Tm i j)) (seq 0 k)) s0))
                       (seq 0 m)) s0)
               (sofnat m)).
Proof.
  intros Wp Wt Ep Et HP HT. assert (Edm : dims pv = dims tv) by congruence.
  pose proof (pw2_fst pv tv Wp Wt Edm) as Hp. pose proof (pw2_snd pv tv Wp Wt Edm) as Ht. unfold ce_val.
  destruct (clip_val_pw _ _ _ _ c0 c1 Ht) as (ytc & E1 & H1). rewrite E1. cbn [res_bind].
  destruct (clip_val_pw _ _ _ _ eps ome Hp) as (ypc & E2 & H2). rewrite E2. cbn [res_bind].
  destruct (pw2_unary ULn _ _ _ _ H2) as (lp & E3 & H3). rewrite E3. cbn [res_bind].
  destruct (pw2_arith BiMul _ _ _ _ _ _ H1 H3) as (s & E4 & H4). rewrite E4. cbn [res_bind].
  destruct H4 as (Hds & Ws & Hgs).
  destruct (sum1_rank2 s m k (fun i j => ceElF (P i j) (Tm i j)) Ws ltac:(congruence)) as (l & E5 & Hdl & Wl & Hgl).
  { intros i j Hi Hj. rewrite Hgs by (rewrite Ep; repeat constructor; assumption).
    rewrite (HP i j Hi Hj), (HT i j Hi Hj). reflexivity. }
  rewrite E5. cbn [res_bind].
  destruct (v_unary_spec (UScale cm1) l Wl) as (ln & E6 & Hdn & Wn & Hgn). rewrite E6. cbn [res_bind].
  destruct (mean0_rank1 ln m Wn ltac:(congruence)) as (r & Er & Hdr & Wr & Hg).
  exists r. split; [exact Er|]. split; [exact Hdr|]. split; [exact Wr|]. rewrite Hg. do 3 f_equal.
  apply map_Some_inj. destruct Wn as [Wnd _]. rewrite Hdn, Hdl in Wnd. rewrite (rank1_elems (data ln) m Wnd).
  rewrite map_map. apply map_ext_in. intros i Hi. apply in_seq in Hi.
  rewrite Hgn by (rewrite Hdl; repeat constructor; lia). rewrite Hgl by lia. reflexivity.
Qed.

Theorem ce_compute_spec (h : heap) yp yt p t name pv tv m k (P Tm : nat -> nat -> A) :
  ceArgs h yp yt = Some (p, t) -> valOf h p = Some pv -> valOf h t = Some tv -> wf pv -> wf tv ->
  dims pv = [m; k] ->
  (forall i j, i < m -> j < k -> get (data pv) [i; j] = Some (P i j)) ->
  (forall i j, i < m -> j < k -> get (data tv) [i; j] = Some (Tm i j)) ->
  exists r, produces h (ce_compute eps ome h yp yt name) r name /\ dims r = [] /\ wf r /\
    get (data r) [] =
    Some (sdiv (fold_left sadd
                  (map (fun i => smul cm1 (fold_left sadd (map (fun j => ceElF (P i j) (Tm i j)) (seq 0 k)) s0))
                       (seq 0 m)) s0)
               (sofnat m)).
Proof.
  intros E Hp Ht Wp Wt Ep HP HT.
  assert (Et : dims tv = [m; k]).
  { pose proof E as E'. apply ceArgs_spec in E' as (_ & _ & vp & vt & m' & k' & Hvp & Hvt & Hdp & Hdt). congruence. }
  destruct (ce_val_spec pv tv m k P Tm Wp Wt Ep Et HP HT) as (r & Er & Hr). exists r. split; [|exact Hr].
  pose proof (ce_compute_tracks h yp yt p t name pv tv E Hp Ht) as H. rewrite Er in H. exact H.
Qed.

(* ================================================================== *)
(*  rejected / failing calls                                           *)
(* ================================================================== *)

Theorem losses1_reject (h : heap) yp yt name : lossArgs1 h yp yt = None ->
  mse_compute h yp yt name = (h, Err) /\ bce_compute eps ome h yp yt name = (h, Err).
Proof. intros E. unfold mse_compute, bce_compute. rewrite E. auto. Qed.

(* whatever happens, a call that does not return a tensor leaves the heap as it was *)
Theorem losses_fail_frame (h : heap) yp yt name :
  let unchanged (hr : hres) := (forall id, snd hr <> Ok id) -> fst hr = h in
  unchanged (mse_compute h yp yt name) /\ unchanged (bce_compute eps ome h yp yt name) /\
  unchanged (ce_compute eps ome h yp yt name).
Proof.
  cbv zeta.
  assert (At : forall hr : hres, (forall id, snd (atomically h hr) <> Ok id) -> fst (atomically h hr) = h).
  { intros [h1 [id| |]]; cbn; intros H; [exfalso; apply (H id); reflexivity|reflexivity|reflexivity]. }
  rewrite ce_compute_unfold. unfold mse_compute, bce_compute.
  destruct (lossArgs1 h yp yt) as [[p t]|]; destruct (ceArgs h yp yt) as [[p' t']|];
    repeat split; try apply At; reflexivity.
Qed.

End LossP.

(* ================================================================== *)
(*  non-vacuity                                                        *)
(* ================================================================== *)
Module LossExamples.
Import CompExamples.
Open Scope Z_scope.

Definition v3 (a b c : Z) : tensor Z := mkT [3%nat] (Vec [Sc a; Sc b; Sc c]).
Definition m22 (a b c d : Z) : tensor Z := mkT [2; 2]%nat (Vec [Vec [Sc a; Sc b]; Vec [Sc c; Sc d]]).
(* 0: predictions, 1: targets, 2: a rank-2 pair, 3 *)
Definition hL : @heap Z :=
  [mkNode (v3 1 5 9) true false None [] None; mkNode (v3 2 3 3) false false None [] None;
   mkNode (m22 4 8 16 32) true false None [] None; mkNode (m22 1 0 0 1) false false None [] None].
Lemma wf_v3 a b c : wf (v3 a b c). Proof. split; [apply wfndb_spec; reflexivity|repeat constructor]. Qed.
Lemma wf_m22 a b c d : wf (m22 a b c d). Proof. split; [apply wfndb_spec; reflexivity|repeat constructor]. Qed.

(* ((2-1)^2 + (3-5)^2 + (3-9)^2) / 3 = 41 / 3 = 13 *)
Example mse_ex :
  exists h', mse_compute hL (Some 0%nat) (Some 1%nat) (Some 5%nat) = (h', Ok 8%nat) /\
             valOf h' 8 = Some (mkT [] (Sc 13)) /\ length h' = 9%nat.
Proof. eexists. vm_compute. auto. Qed.

Example mse_spec_inst :
  exists r, produces hL (mse_compute hL (Some 0%nat) (Some 1%nat) None) r None /\
            get (data r) [] = Some ((((0 + (2 - 1) ^ 2) + (3 - 5) ^ 2) + (3 - 9) ^ 2) / 3).
Proof.
  destruct (mse_compute_spec hL (Some 0%nat) (Some 1%nat) 0%nat 1%nat None (v3 1 5 9) (v3 2 3 3)
              eq_refl eq_refl eq_refl (wf_v3 _ _ _) (wf_v3 _ _ _)) as (n & r & En & _ & H & _ & _ & Hg).
  exists r. split; [exact H|]. rewrite Hg. inversion En; subst n. reflexivity.
Qed.

Example mse_reject_ex :
  mse_compute hL (Some 0%nat) (Some 2%nat) None = (hL, Err) /\ mse_compute hL None (Some 1%nat) None = (hL, Err) /\
  mse_compute hL (Some 2%nat) (Some 3%nat) None = (hL, Err).
Proof. vm_compute. auto. Qed.

Example clip_ex :
  exists h', clip hL 0 4 6 = (h', Ok 8%nat) /\ valOf h' 8 = Some (v3 4 5 6).
Proof. eexists. vm_compute. auto. Qed.

Example bce_ex : exists h' id, bce_compute 1 8 hL (Some 0%nat) (Some 1%nat) None = (h', Ok id).
Proof. eexists. eexists. vm_compute. reflexivity. Qed.

(* with log := log2, eps := 1, 1-eps := 64:  rows  -(1*log2 4 + 0) = -2,  -(0 + 1*log2 32) = -5;  mean = -7/2 = -4 *)
Example ce_ex :
  exists h', ce_compute 1 64 hL (Some 2%nat) (Some 3%nat) None = (h', Ok 20%nat) /\
             valOf h' 20 = Some (mkT [] (Sc (-4))).
Proof. eexists. vm_compute. auto. Qed.

Example ce_spec_inst :
  exists r, produces hL (ce_compute 1 64 hL (Some 2%nat) (Some 3%nat) None) r None /\ get (data r) [] = Some (-4).
Proof.
  destruct (ce_compute_spec 1 64 hL (Some 2%nat) (Some 3%nat) 2%nat 3%nat None (m22 4 8 16 32) (m22 1 0 0 1) 2 2
              (fun i j => match i, j with O, O => 4 | O, _ => 8 | _, O => 16 | _, _ => 32 end)
              (fun i j => match i, j with O, O => 1 | O, _ => 0 | _, O => 0 | _, _ => 1 end)
              eq_refl eq_refl eq_refl (wf_m22 _ _ _ _) (wf_m22 _ _ _ _) eq_refl) as (r & H & _ & _ & Hg).
  - intros [|[|i]] [|[|j]] Hi Hj; try lia; reflexivity.
  - intros [|[|i]] [|[|j]] Hi Hj; try lia; reflexivity.
  - exists r. split; [exact H|]. rewrite Hg. vm_compute. reflexivity.
Qed.

Example ce_reject_ex :
  ce_compute 1 64 hL (Some 0%nat) (Some 1%nat) None = (hL, Err) /\ ce_compute 1 64 hL (Some 2%nat) None None = (hL, Err).
Proof. vm_compute. auto. Qed.

End LossExamples.

Print Assumptions mean0_rank1.
Print Assumptions clip_spec.
Print Assumptions mse_compute_tracks.
Print Assumptions mse_val_spec.
Print Assumptions mse_compute_spec.
Print Assumptions bce_compute_tracks.
Print Assumptions bce_val_spec.
Print Assumptions bce_compute_spec.
Print Assumptions ceArgs_spec.
Print Assumptions ce_compute_tracks.
Print Assumptions ce_val_spec.
Print Assumptions ce_compute_spec.
Print Assumptions ce_compute_rejects.
Print Assumptions losses1_reject.
Print Assumptions losses_fail_frame.
