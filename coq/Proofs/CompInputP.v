(* CompInputP.v — layers/input.go by translation (Model/GoComp.v: c_Input_NewInput, c_Input_validateInputs,
   c_Input_Forward): the Input layer accepts no input tensors, needs a seed function, and returns what it returns. *)
From Coq Require Import String List ZArith Bool Arith Lia.
From Qeep Require Import Model.Scalar Model.Nd Model.Fill Model.Data Model.Valid Model.Api Model.Grad Model.Backprop
  Model.Components Model.DataIR Model.HeapExt Model.GoComp Model.CompExt.
From Qeep Require Import Proofs.DataIRP.
Import ListNotations.
Local Open Scope string_scope.
Local Open Scope Z_scope.
Local Open Scope list_scope.

Section CompInput.
Context {A : Type} {SA : Scalar A}.
Notation heap := (@heap A).
Notation dval := (@dval A).
Variables (fltb fleb : A -> A -> bool) (lib : string -> list dval -> heap -> option (list dval * heap)).
Notation run0 p := (drun cfapp heap (cext0 fltb fleb lib) p).
Notation run p := (drun cfapp heap (cext fltb fleb lib) p).

Definition outcome (o : @doutcome A heap) : option (list dval * heap) :=
  match o with DRet _ vs s _ _ => Some (vs, s) | _ => None end.

Lemma dlen_eqb0 (l : list dval) : (dlen l =? 0) = match l with [] => true | _ => false end.
Proof. destruct l; unfold dlen; cbn [length]; [reflexivity|]. apply Z.eqb_neq. lia. Qed.

Theorem NewInput_run fuel depth (h : heap) :
  outcome (run0 c_Input_NewInput fuel depth [] h) = Some ([DL [DNil]], h).
Proof. unfold c_Input_NewInput, drun. cbn [pmain dbody dparams plocals dbind]. dxs. reflexivity. Qed.

(* validateInputs: error exactly when a tensor is passed *)
Theorem Input_validateInputs_spec fuel depth (h : heap) (seed : dval) (xs : list dval) :
  outcome (run0 c_Input_validateInputs fuel depth [seed; DL xs] h) =
  Some ([DI (match xs with [] => 0 | _ => 1 end)], h).
Proof.
  unfold c_Input_validateInputs, drun. cbn [pmain dbody dparams plocals dbind].
  dxs. rewrite dlen_eqb0. destruct xs; cbn [negb]; dxs; reflexivity.
Qed.

Lemma cext_Input_validate (h : heap) (seed : dval) (xs : list dval) :
  cext fltb fleb lib "Input.validateInputs" [seed; DL xs] h = Some ([DI (match xs with [] => 0 | _ => 1 end)], h).
Proof.
  change (cext fltb fleb lib "Input.validateInputs" [seed; DL xs] h)
    with (outcome (run0 c_Input_validateInputs sibFuel sibFuel [seed; DL xs] h)).
  apply Input_validateInputs_spec.
Qed.

(* Forward: [nil; error] when a tensor is passed or the seed function is unset; otherwise the value the seed
   function returns (the oracle entry "call" applied to the field's value), with a nil error *)
Theorem Input_Forward_run fuel depth (h : heap) (seed : dval) (xs : list dval) :
  let o := run c_Input_Forward fuel depth [seed; DL xs] h in
  match xs with
  | _ :: _ => outcome o = Some ([DNil; DI 1], h)
  | [] =>
      match seed with
      | DNil => outcome o = Some ([DNil; DI 1], h)
      | _ => match lib "call" [seed] h with
             | Some ([y], h') => outcome o = Some ([y; DI 0], h')
             | _ => o = DPanic heap
             end
      end
  end.
Proof.
  unfold c_Input_Forward, drun. cbn [pmain dbody dparams plocals dbind]. cbv zeta.
  dxs. rewrite cext_Input_validate.
  destruct xs as [|x r]; dxs; cbn [Z.eqb negb]; dxs; [|reflexivity].
  assert (Hc : cext fltb fleb lib "call" [seed] h = lib "call" [seed] h) by reflexivity.
  destruct seed; dxs; try reflexivity; rewrite Hc;
    (destruct (lib "call" _ h) as [[[|y [|z' rs]] h']|]; dxs; reflexivity).
Qed.

End CompInput.

Print Assumptions NewInput_run.
Print Assumptions Input_validateInputs_spec.
Print Assumptions Input_Forward_run.
