(* GoGenP1.v — the integer code of the element generators eyeElemGenerator (initializers.go),
   linearElemGenerator (shape_modifiers.go), linearLastDimDotProductElemGenerator and
   linearLast2DimsMatMulElemGenerator (operators.go) of tensor/internal/cputensor, as translated by
   harness/gox (Model/GoFns.v), computes the generator steps / initial states of Model/Fill.v
   (eyeGen, incr / linGen, linInit).  See coq/GOIR_NOTES.md. *)
From Coq Require Import String List ZArith Bool Lia Arith.
From Qeep Require Import Model.GoIR Model.GoFns Model.Fill Proofs.GoIRP.
Import ListNotations.
Local Open Scope string_scope.
Local Open Scope Z_scope.
Local Open Scope list_scope.

(* ---------- small list facts ---------- *)

Notation natV := (fun n : nat => VI (Z.of_nat n)).

Lemma nth_error_nats (l : list nat) (k : nat) :
  nth_error (map natV l) k = option_map natV (nth_error l k).
Proof. revert k; induction l as [|a l IH]; intros [|k]; cbn; auto. Qed.

(* G with position k replaced by v *)
Definition setn (k : nat) (v : nat) (G : list nat) : list nat := firstn k G ++ v :: skipn (S k) G.

Lemma setNthV_nats (l : list nat) (k v : nat) :
  (k < length l)%nat -> setNthV (map natV l) k (natV v) = Some (map natV (setn k v l)).
Proof.
  revert k; induction l as [|a l IH]; intros [|k] H; cbn in H; try lia.
  - reflexivity.
  - cbn [map setNthV]. rewrite IH by lia. reflexivity.
Qed.

Lemma firstn_S_nth {T} (l : list T) (k : nat) (a : T) :
  nth_error l k = Some a -> firstn (S k) l = firstn k l ++ [a].
Proof.
  revert k; induction l as [|b l IH]; intros [|k] H; cbn in H; try discriminate.
  - now inversion H.
  - cbn [firstn app]. f_equal. now apply IH.
Qed.

Lemma setn_length k v G : (k < length G)%nat -> length (setn k v G) = length G.
Proof.
  intros H. unfold setn. rewrite app_length. cbn [length]. rewrite firstn_length, skipn_length. lia.
Qed.

Lemma setn_firstn k v G : (k <= length G)%nat -> firstn k (setn k v G) = firstn k G.
Proof.
  intros H. unfold setn. rewrite firstn_app, firstn_firstn, firstn_length.
  replace (Nat.min k k) with k by lia. replace (k - Nat.min k (length G))%nat with 0%nat by lia.
  cbn. apply app_nil_r.
Qed.

Lemma setn_skipn k v G : (k <= length G)%nat -> skipn k (setn k v G) = v :: skipn (S k) G.
Proof.
  intros H. unfold setn. rewrite skipn_app, firstn_length.
  replace (k - Nat.min k (length G))%nat with 0%nat by lia.
  rewrite skipn_firstn_comm. replace (k - k)%nat with 0%nat by lia. reflexivity.
Qed.

Lemma map_repeat_natV (n : nat) : repeat (VI 0) n = map natV (repeat 0%nat n).
Proof. induction n; cbn; [reflexivity | now f_equal]. Qed.

Lemma lookup_upd_ne (e : env) (x y : string) (v : val) : y <> x -> lookup (upd e x v) y = lookup e y.
Proof. intros H. rewrite lookup_upd. apply String.eqb_neq in H. now rewrite H. Qed.

(* ---------- the carry loop
      for i >= 0 { if state[i] < dims[i]-1 { state[i]++; break } else { state[i] = 0; i-- } }
   for an arbitrary loop (condition, body, post statement) that behaves like the Go one; [dn] is the
   name of the variable holding the dimensions ---------- *)
Section Carry.
Variables (dn : string) (cond : env -> option val) (body post : env -> outcome).
Hypothesis Hcond : forall e z, lookup e "i" = Some (VI z) -> cond e = Some (VB (z >=? 0)).
Hypothesis Hpost : forall e, post e = ONormal e.
Hypothesis Hbody : forall e k D G d x,
  lookup e "i" = Some (VI (Z.of_nat k)) -> lookup e dn = Some (nats D) -> lookup e "state" = Some (nats G) ->
  nth_error D k = Some d -> nth_error G k = Some x ->
  body e = if (S x <? d)%nat
           then OBreak (upd e "state" (nats (setn k (S x) G)))
           else ONormal (upd (upd e "state" (nats (setn k 0%nat G))) "i" (VI (Z.of_nat k - 1))).
Hypothesis Hdn1 : dn <> "state".
Hypothesis Hdn2 : dn <> "i".

Lemma carry_loop : forall (k : nat) (D G : list nat) (e : env) (fuel : nat),
  (k <= length G)%nat -> (k <= length D)%nat ->
  lookup e "i" = Some (VI (Z.of_nat k - 1)) -> lookup e dn = Some (nats D) -> lookup e "state" = Some (nats G) ->
  (k < fuel)%nat ->
  exists e', forLoop fuel cond body post e = ONormal e' /\
    lookup e' "state" = Some (nats (rev (incr (rev (firstn k D)) (rev (firstn k G))) ++ skipn k G)) /\
    forall y, y <> "state" -> y <> "i" -> lookup e' y = lookup e y.
Proof.
  induction k as [|k IH]; intros D G e fuel HG HD Hi Hd Hs Hf; (destruct fuel as [|fuel]; [lia|]);
    cbn [forLoop]; rewrite (Hcond _ _ Hi).
  - cbn. exists e. repeat split; auto.
  - replace (Z.of_nat (S k) - 1) with (Z.of_nat k) in * by lia.
    replace (Z.of_nat k >=? 0) with true by (symmetry; rewrite Z.geb_leb; apply Z.leb_le; lia).
    destruct (nth_error D k) as [d|] eqn:ED; [| apply nth_error_None in ED; lia].
    destruct (nth_error G k) as [x|] eqn:EG; [| apply nth_error_None in EG; lia].
    rewrite (Hbody e k D G d x Hi Hd Hs ED EG).
    rewrite (firstn_S_nth _ _ _ ED), (firstn_S_nth _ _ _ EG), !rev_app_distr. cbn [rev app incr].
    destruct (S x <? d)%nat eqn:E.
    + eexists. split; [reflexivity|]. split.
      * lk. cbn [rev]. rewrite rev_involutive, <- app_assoc. reflexivity.
      * intros y H1 H2. now rewrite lookup_upd_ne.
    + rewrite Hpost.
      destruct (IH D (setn k 0%nat G) (upd (upd e "state" (nats (setn k 0%nat G))) "i" (VI (Z.of_nat k - 1))) fuel)
        as [e' [He' [Hs' Hfr]]].
      * rewrite setn_length; lia.
      * lia.
      * now lk.
      * rewrite !lookup_upd_ne; auto.
      * now lk.
      * lia.
      * exists e'. split; [exact He'|]. split.
        -- rewrite Hs'. rewrite setn_firstn, setn_skipn by lia. cbn [rev]. rewrite <- app_assoc. reflexivity.
        -- intros y H1 H2. rewrite Hfr by assumption. rewrite !lookup_upd_ne; auto.
Qed.
End Carry.

Lemma setElem_state_i (e : env) (k : nat) (G : list nat) (v x : nat) :
  lookup e "state" = Some (nats G) -> lookup e "i" = Some (VI (Z.of_nat k)) -> nth_error G k = Some x ->
  setElem e "state" (EVar "i") (fun _ => Some (VI (Z.of_nat v))) = ONormal (upd e "state" (nats (setn k v G))).
Proof.
  intros Hs Hi HG. unfold setElem. cbn [eval]. rewrite Hs, Hi. cbn [nats]. rewrite idxOf_nat, nth_error_nats, HG.
  cbn [option_map]. rewrite (setNthV_nats G k v); [reflexivity|].
  apply nth_error_Some. congruence.
Qed.

(* discharges the body specification of [carry_loop] for the generated loop bodies (names "i", "state", dims variable) *)
Ltac carry_body_spec Hi Hd Hs HD HG :=
  repeat (gxs; rewrite ?Hi, ?Hd, ?Hs);
  rewrite ?idxOf_nat, ?nth_error_nats, ?HD, ?HG; cbn [option_map];
  repeat (gxs; rewrite ?Hi, ?Hd, ?Hs);
  match goal with |- context [Z.of_nat ?x <? Z.of_nat ?d - 1] =>
    replace (Z.of_nat x <? Z.of_nat d - 1) with (S x <? d)%nat
      by (destruct (S x <? d)%nat eqn:E;
          [apply Nat.ltb_lt in E; symmetry; apply Z.ltb_lt; lia
          |apply Nat.ltb_ge in E; symmetry; apply Z.ltb_ge; lia]);
    replace (Z.of_nat x + 1) with (Z.of_nat (S x)) by lia;
    change (VI 0) with (VI (Z.of_nat 0));
    rewrite !(setElem_state_i _ _ _ _ _ Hs Hi HG);
    destruct (S x <? d)%nat; gxs; rewrite ?Hi; gxs; reflexivity
  end.

(* ================= linearElemGenerator ================= *)

Lemma shape_linearElemGenerator_outer :
  itemShape linearElemGenerator_outer = [None; Some "return <closure>"].
Proof. reflexivity. Qed.
Lemma shape_linearElemGenerator_step :
  itemShape linearElemGenerator_step = [Some "elem := t.dataAt(state)"; None; Some "return elem"].
Proof. reflexivity. Qed.

Definition linearElemGenerator_outer_code : stmt := nth 0 (codeOf linearElemGenerator_outer) SSkip.
Definition linearElemGenerator_step_code : stmt := nth 0 (codeOf linearElemGenerator_step) SSkip.

Theorem go_linearElemGenerator_step call fuel (ds gs : list nat) (e : env) :
  (S (length ds) <= fuel)%nat -> length gs = length ds ->
  lookup e "t.dims" = Some (nats ds) -> lookup e "state" = Some (nats gs) ->
  exists e', exec call fuel linearElemGenerator_step_code e = ONormal e' /\
    lookup e' "state" = Some (nats (rev (incr (rev ds) (rev gs)))) /\
    lookup e' "t.dims" = Some (nats ds) /\
    forall y, y <> "state" -> y <> "i" -> lookup e' y = lookup e y.
Proof.
  intros Hf Hl Ht Hs.
  unfold linearElemGenerator_step_code, linearElemGenerator_step. cbn [codeOf nth].
  gxs. rewrite Ht. gxs. rewrite zlenV_map.
  match goal with |- context [forLoop _ ?c ?b ?p ?e0] =>
    assert (Hc : forall e z, lookup e "i" = Some (VI z) -> c e = Some (VB (z >=? 0)));
    [| assert (Hp : forall e, p e = ONormal e);
       [| assert (Hb : forall e k D G d x,
            lookup e "i" = Some (VI (Z.of_nat k)) -> lookup e "t.dims" = Some (nats D) -> lookup e "state" = Some (nats G) ->
            nth_error D k = Some d -> nth_error G k = Some x ->
            b e = if (S x <? d)%nat
                  then OBreak (upd e "state" (nats (setn k (S x) G)))
                  else ONormal (upd (upd e "state" (nats (setn k 0%nat G))) "i" (VI (Z.of_nat k - 1))));
          [| destruct (carry_loop "t.dims" c b p Hc Hp Hb ltac:(discriminate) ltac:(discriminate)
                        (length ds) ds gs e0 fuel) as [e' [He' [Hs' Hfr]]] ]]]
  end.
  - intros e1 z Hi. gxs. rewrite Hi. gxs. reflexivity.
  - intros e1. gxs. reflexivity.
  - intros e1 k D G d x Hi Hd Hs1 HD HG.
    carry_body_spec Hi Hd Hs1 HD HG.
  - lia.
  - lia.
  - now lk.
  - lk. exact Ht.
  - lk. exact Hs.
  - lia.
  - exists e'. split; [exact He'|]. split; [|split].
    + rewrite Hs'. rewrite firstn_all. rewrite <- Hl. rewrite firstn_all, skipn_all, app_nil_r. reflexivity.
    + rewrite Hfr by discriminate. lk. exact Ht.
    + intros y H1 H2. rewrite Hfr by assumption. now rewrite lookup_upd_ne.
Qed.

Theorem go_linearElemGenerator_outer call fuel (ds : list nat) (e : env) :
  lookup e "t.dims" = Some (nats ds) ->
  exists e', exec call fuel linearElemGenerator_outer_code e = ONormal e' /\
    lookup e' "state" = Some (nats (linInit ds)) /\
    forall y, y <> "state" -> lookup e' y = lookup e y.
Proof.
  intros Ht.
  unfold linearElemGenerator_outer_code, linearElemGenerator_outer, linInit. cbn [codeOf nth].
  gxs. rewrite Ht. gxs. rewrite zlenV_map.
  replace (0 <=? Z.of_nat (length ds)) with true by (symmetry; apply Z.leb_le; lia).
  rewrite Nat2Z.id, map_repeat_natV.
  eexists. split; [reflexivity|]. split; [now lk|].
  intros y H. now rewrite lookup_upd_ne.
Qed.

(* ================= eyeElemGenerator ================= *)

Lemma shape_eyeElemGenerator_outer :
  itemShape eyeElemGenerator_outer = [None; Some "return <closure>"].
Proof. reflexivity. Qed.
Lemma shape_eyeElemGenerator_step :
  itemShape eyeElemGenerator_step = [None; Some "if atDiag { return 1. } else { return 0. }"].
Proof. reflexivity. Qed.

Definition eyeElemGenerator_outer_code : stmt := nth 0 (codeOf eyeElemGenerator_outer) SSkip.
Definition eyeElemGenerator_step_code : stmt := nth 0 (codeOf eyeElemGenerator_step) SSkip.

Theorem go_eyeElemGenerator_step_env call fuel (n s : nat) (e : env) :
  lookup e "n" = Some (VI (Z.of_nat n)) -> lookup e "state" = Some (VI (Z.of_nat s)) ->
  exists e', exec call fuel eyeElemGenerator_step_code e = ONormal e' /\
    lookup e' "state" = Some (VI (Z.of_nat (S s))) /\
    lookup e' "atDiag" = Some (VB ((s mod (n + 1)) =? 0)%nat) /\
    forall y, y <> "state" -> y <> "atDiag" -> lookup e' y = lookup e y.
Proof.
  intros Hn Hs.
  unfold eyeElemGenerator_step_code, eyeElemGenerator_step. cbn [codeOf nth].
  gxs. rewrite Hs, Hn. gxs.
  replace (Z.of_nat n + 1 =? 0) with false by (symmetry; apply Z.eqb_neq; lia).
  gxs. rewrite Hs. gxs.
  eexists. split; [reflexivity|]. split; [|split].
  - lk. f_equal. f_equal. lia.
  - lk. f_equal. f_equal.
    rewrite Z.rem_mod_nonneg by lia.
    replace (Z.of_nat n + 1) with (Z.of_nat (n + 1)) by lia.
    rewrite <- Nat2Z.inj_mod.
    destruct ((s mod (n + 1)) =? 0)%nat eqn:E.
    + apply Nat.eqb_eq in E. apply Z.eqb_eq. lia.
    + apply Nat.eqb_neq in E. apply Z.eqb_neq. lia.
  - intros y H1 H2. now rewrite !lookup_upd_ne.
Qed.

Theorem go_eyeElemGenerator_step call fuel (n s : nat) :
  exists e', exec call fuel eyeElemGenerator_step_code [("n", VI (Z.of_nat n)); ("state", VI (Z.of_nat s))] = ONormal e' /\
    lookup e' "state" = Some (VI (Z.of_nat (S s))) /\
    lookup e' "atDiag" = Some (VB ((s mod (n + 1)) =? 0)%nat) /\
    lookup e' "n" = Some (VI (Z.of_nat n)).
Proof.
  destruct (go_eyeElemGenerator_step_env call fuel n s [("n", VI (Z.of_nat n)); ("state", VI (Z.of_nat s))] eq_refl eq_refl)
    as [e' [H1 [H2 [H3 H4]]]].
  exists e'. repeat split; auto. rewrite H4 by discriminate. reflexivity.
Qed.

Theorem go_eyeElemGenerator_outer call fuel (e : env) :
  exists e', exec call fuel eyeElemGenerator_outer_code e = ONormal e' /\
    lookup e' "state" = Some (VI (Z.of_nat 0)) /\
    forall y, y <> "state" -> lookup e' y = lookup e y.
Proof.
  unfold eyeElemGenerator_outer_code, eyeElemGenerator_outer. cbn [codeOf nth]. gxs.
  eexists. split; [reflexivity|]. split; [now lk|].
  intros y H. now rewrite lookup_upd_ne.
Qed.

(* ================= linearLastDimDotProductElemGenerator / linearLast2DimsMatMulElemGenerator ================= *)

(* step code  i := n-1; <carry loop over "dims">  with captured "dims", "n", "state" *)
Ltac prove_n_step Hf Hl Hn Hdm Hnv Hs ds gs n :=
  gxs; rewrite Hnv; gxs;
  match goal with |- context [forLoop ?fuel ?c ?b ?p ?e0] =>
    assert (Hc : forall e z, lookup e "i" = Some (VI z) -> c e = Some (VB (z >=? 0)));
    [ intros e1 z Hi; gxs; rewrite Hi; gxs; reflexivity
    | assert (Hp : forall e, p e = ONormal e);
       [ intros e1; gxs; reflexivity
       | assert (Hb : forall e k D G d x,
            lookup e "i" = Some (VI (Z.of_nat k)) -> lookup e "dims" = Some (nats D) -> lookup e "state" = Some (nats G) ->
            nth_error D k = Some d -> nth_error G k = Some x ->
            b e = if (S x <? d)%nat
                  then OBreak (upd e "state" (nats (setn k (S x) G)))
                  else ONormal (upd (upd e "state" (nats (setn k 0%nat G))) "i" (VI (Z.of_nat k - 1))));
          [ intros e1 k D G d x Hi Hd Hs1 HD HG; carry_body_spec Hi Hd Hs1 HD HG
          | destruct (carry_loop "dims" c b p Hc Hp Hb ltac:(discriminate) ltac:(discriminate)
                        n ds gs e0 fuel) as [e' [He' [Hs' Hfr]]];
            [ lia | lia | now lk | lk; exact Hdm | lk; exact Hs | lia
            | exists e'; split; [exact He'|]; split; [|split; [|split]];
              [ rewrite Hs'; rewrite <- Hl; rewrite firstn_all, skipn_all, app_nil_r; rewrite Hl; reflexivity
              | rewrite Hfr by discriminate; lk; exact Hdm
              | rewrite Hfr by discriminate; lk; exact Hnv
              | intros y H1 H2; rewrite Hfr by assumption; now rewrite lookup_upd_ne ] ] ] ] ]
  end.

Lemma shape_linearLastDimDotProductElemGenerator_outer :
  itemShape linearLastDimDotProductElemGenerator_outer = [None; Some "return <closure>"].
Proof. reflexivity. Qed.
Lemma shape_linearLastDimDotProductElemGenerator_step :
  itemShape linearLastDimDotProductElemGenerator_step =
  [Some "data1 := t1.dataAt(state)"; Some "data2 := t2.dataAt(state)";
   Some "prodRes := dotProductOf1DInputs(data1, data2)"; None; Some "return prodRes"].
Proof. reflexivity. Qed.

Definition linearLastDimDotProductElemGenerator_outer_code : stmt :=
  nth 0 (codeOf linearLastDimDotProductElemGenerator_outer) SSkip.
Definition linearLastDimDotProductElemGenerator_step_code : stmt :=
  nth 0 (codeOf linearLastDimDotProductElemGenerator_step) SSkip.

Theorem go_linearLastDimDotProductElemGenerator_step call fuel (ds gs : list nat) (n : nat) (e : env) :
  (S n <= fuel)%nat -> length gs = n -> (n <= length ds)%nat ->
  lookup e "dims" = Some (nats ds) -> lookup e "n" = Some (VI (Z.of_nat n)) -> lookup e "state" = Some (nats gs) ->
  exists e', exec call fuel linearLastDimDotProductElemGenerator_step_code e = ONormal e' /\
    lookup e' "state" = Some (nats (rev (incr (rev (firstn n ds)) (rev gs)))) /\
    lookup e' "dims" = Some (nats ds) /\
    lookup e' "n" = Some (VI (Z.of_nat n)) /\
    forall y, y <> "state" -> y <> "i" -> lookup e' y = lookup e y.
Proof.
  intros Hf Hl Hn Hdm Hnv Hs.
  unfold linearLastDimDotProductElemGenerator_step_code, linearLastDimDotProductElemGenerator_step. cbn [codeOf nth].
  prove_n_step Hf Hl Hn Hdm Hnv Hs ds gs n.
Qed.

(* outer code  dims := t1.dims; n := len(dims) - c; state := make([]int, n) *)
Ltac prove_n_outer Ht Hl ds c :=
  gxs; rewrite Ht; gxs; rewrite zlenV_map;
  replace (Z.of_nat (length ds) - Z.of_nat c) with (Z.of_nat (length ds - c)) by lia;
  replace (0 <=? Z.of_nat (length ds - c)) with true by (symmetry; apply Z.leb_le; lia);
  rewrite Nat2Z.id, map_repeat_natV;
  eexists; split; [reflexivity|]; split; [now lk|]; split; [now lk|]; split; [now lk|];
  intros y H1 H2 H3; now rewrite !lookup_upd_ne.

Ltac prove_n_outer_panic Ht Hl ds c :=
  gxs; rewrite Ht; gxs; rewrite zlenV_map;
  replace (0 <=? Z.of_nat (length ds) - Z.of_nat c) with false by (symmetry; apply Z.leb_gt; lia);
  reflexivity.

Theorem go_linearLastDimDotProductElemGenerator_outer call fuel (ds : list nat) (e : env) :
  (1 <= length ds)%nat -> lookup e "t1.dims" = Some (nats ds) ->
  exists e', exec call fuel linearLastDimDotProductElemGenerator_outer_code e = ONormal e' /\
    lookup e' "dims" = Some (nats ds) /\
    lookup e' "n" = Some (VI (Z.of_nat (length ds - 1))) /\
    lookup e' "state" = Some (nats (repeat 0%nat (length ds - 1))) /\
    forall y, y <> "dims" -> y <> "n" -> y <> "state" -> lookup e' y = lookup e y.
Proof.
  intros Hl Ht.
  unfold linearLastDimDotProductElemGenerator_outer_code, linearLastDimDotProductElemGenerator_outer. cbn [codeOf nth].
  change 1 with (Z.of_nat 1).
  prove_n_outer Ht Hl ds 1%nat.
Qed.

(* without the precondition (a 0-dimensional t1) make([]int, -1) panics *)
Theorem go_linearLastDimDotProductElemGenerator_outer_panic call fuel (ds : list nat) (e : env) :
  (length ds < 1)%nat -> lookup e "t1.dims" = Some (nats ds) ->
  exec call fuel linearLastDimDotProductElemGenerator_outer_code e = OPanic.
Proof.
  intros Hl Ht.
  unfold linearLastDimDotProductElemGenerator_outer_code, linearLastDimDotProductElemGenerator_outer. cbn [codeOf nth].
  change 1 with (Z.of_nat 1).
  prove_n_outer_panic Ht Hl ds 1%nat.
Qed.

Lemma shape_linearLast2DimsMatMulElemGenerator_outer :
  itemShape linearLast2DimsMatMulElemGenerator_outer = [None; Some "return <closure>"].
Proof. reflexivity. Qed.
Lemma shape_linearLast2DimsMatMulElemGenerator_step :
  itemShape linearLast2DimsMatMulElemGenerator_step =
  [Some "data1 := t1.dataAt(state)"; Some "data2 := t2.dataAt(state)";
   Some "mulRes := matMulDataOf2DInputs(data1, data2)"; None; Some "return mulRes"].
Proof. reflexivity. Qed.

Definition linearLast2DimsMatMulElemGenerator_outer_code : stmt :=
  nth 0 (codeOf linearLast2DimsMatMulElemGenerator_outer) SSkip.
Definition linearLast2DimsMatMulElemGenerator_step_code : stmt :=
  nth 0 (codeOf linearLast2DimsMatMulElemGenerator_step) SSkip.

Theorem go_linearLast2DimsMatMulElemGenerator_step call fuel (ds gs : list nat) (n : nat) (e : env) :
  (S n <= fuel)%nat -> length gs = n -> (n <= length ds)%nat ->
  lookup e "dims" = Some (nats ds) -> lookup e "n" = Some (VI (Z.of_nat n)) -> lookup e "state" = Some (nats gs) ->
  exists e', exec call fuel linearLast2DimsMatMulElemGenerator_step_code e = ONormal e' /\
    lookup e' "state" = Some (nats (rev (incr (rev (firstn n ds)) (rev gs)))) /\
    lookup e' "dims" = Some (nats ds) /\
    lookup e' "n" = Some (VI (Z.of_nat n)) /\
    forall y, y <> "state" -> y <> "i" -> lookup e' y = lookup e y.
Proof.
  intros Hf Hl Hn Hdm Hnv Hs.
  unfold linearLast2DimsMatMulElemGenerator_step_code, linearLast2DimsMatMulElemGenerator_step. cbn [codeOf nth].
  prove_n_step Hf Hl Hn Hdm Hnv Hs ds gs n.
Qed.

Theorem go_linearLast2DimsMatMulElemGenerator_outer call fuel (ds : list nat) (e : env) :
  (2 <= length ds)%nat -> lookup e "t1.dims" = Some (nats ds) ->
  exists e', exec call fuel linearLast2DimsMatMulElemGenerator_outer_code e = ONormal e' /\
    lookup e' "dims" = Some (nats ds) /\
    lookup e' "n" = Some (VI (Z.of_nat (length ds - 2))) /\
    lookup e' "state" = Some (nats (repeat 0%nat (length ds - 2))) /\
    forall y, y <> "dims" -> y <> "n" -> y <> "state" -> lookup e' y = lookup e y.
Proof.
  intros Hl Ht.
  unfold linearLast2DimsMatMulElemGenerator_outer_code, linearLast2DimsMatMulElemGenerator_outer. cbn [codeOf nth].
  change 2 with (Z.of_nat 2).
  prove_n_outer Ht Hl ds 2%nat.
Qed.

Theorem go_linearLast2DimsMatMulElemGenerator_outer_panic call fuel (ds : list nat) (e : env) :
  (length ds < 2)%nat -> lookup e "t1.dims" = Some (nats ds) ->
  exec call fuel linearLast2DimsMatMulElemGenerator_outer_code e = OPanic.
Proof.
  intros Hl Ht.
  unfold linearLast2DimsMatMulElemGenerator_outer_code, linearLast2DimsMatMulElemGenerator_outer. cbn [codeOf nth].
  change 2 with (Z.of_nat 2).
  prove_n_outer_panic Ht Hl ds 2%nat.
Qed.

(* ---------- the [_code] definitions are ALL the integer code of the generators ---------- *)
Lemma codeOf_eyeElemGenerator :
  codeOf eyeElemGenerator_outer = [eyeElemGenerator_outer_code] /\
  codeOf eyeElemGenerator_step = [eyeElemGenerator_step_code].
Proof. split; reflexivity. Qed.
Lemma codeOf_linearElemGenerator :
  codeOf linearElemGenerator_outer = [linearElemGenerator_outer_code] /\
  codeOf linearElemGenerator_step = [linearElemGenerator_step_code].
Proof. split; reflexivity. Qed.
Lemma codeOf_linearLastDimDotProductElemGenerator :
  codeOf linearLastDimDotProductElemGenerator_outer = [linearLastDimDotProductElemGenerator_outer_code] /\
  codeOf linearLastDimDotProductElemGenerator_step = [linearLastDimDotProductElemGenerator_step_code].
Proof. split; reflexivity. Qed.
Lemma codeOf_linearLast2DimsMatMulElemGenerator :
  codeOf linearLast2DimsMatMulElemGenerator_outer = [linearLast2DimsMatMulElemGenerator_outer_code] /\
  codeOf linearLast2DimsMatMulElemGenerator_step = [linearLast2DimsMatMulElemGenerator_step_code].
Proof. split; reflexivity. Qed.

(* ---------- in the model's representation (Fill.linGen keeps the state least significant digit first):
   if the Go state is [rev st], the Go state after the step is [rev] of the model's next state ---------- *)
Corollary go_linearElemGenerator_step_model call fuel (ds st : list nat) (e : env) :
  (S (length ds) <= fuel)%nat -> length st = length ds ->
  lookup e "t.dims" = Some (nats ds) -> lookup e "state" = Some (nats (rev st)) ->
  exists e', exec call fuel linearElemGenerator_step_code e = ONormal e' /\
    lookup e' "state" = Some (nats (rev (incr (rev ds) st))) /\
    lookup e' "t.dims" = Some (nats ds).
Proof.
  intros Hf Hl Ht Hs.
  destruct (go_linearElemGenerator_step call fuel ds (rev st) e Hf ltac:(now rewrite rev_length) Ht Hs)
    as [e' [H1 [H2 [H3 _]]]].
  exists e'. rewrite rev_involutive in H2. auto.
Qed.

(* with n = len(dims)-1 resp. len(dims)-2 as set up by the outer code *)
Corollary go_linearLastDimDotProductElemGenerator_step_model call fuel (ds st : list nat) (e : env) :
  (length ds <= fuel)%nat -> (1 <= length ds)%nat -> length st = (length ds - 1)%nat ->
  lookup e "dims" = Some (nats ds) -> lookup e "n" = Some (VI (Z.of_nat (length ds - 1))) ->
  lookup e "state" = Some (nats (rev st)) ->
  exists e', exec call fuel linearLastDimDotProductElemGenerator_step_code e = ONormal e' /\
    lookup e' "state" = Some (nats (rev (incr (rev (firstn (length ds - 1) ds)) st))) /\
    lookup e' "dims" = Some (nats ds) /\ lookup e' "n" = Some (VI (Z.of_nat (length ds - 1))).
Proof.
  intros Hf H1 Hl Hd Hn Hs.
  destruct (go_linearLastDimDotProductElemGenerator_step call fuel ds (rev st) (length ds - 1) e
              ltac:(lia) ltac:(now rewrite rev_length) ltac:(lia) Hd Hn Hs) as [e' [A [B [C [D _]]]]].
  exists e'. rewrite rev_involutive in B. auto.
Qed.

Corollary go_linearLast2DimsMatMulElemGenerator_step_model call fuel (ds st : list nat) (e : env) :
  (length ds - 1 <= fuel)%nat -> (2 <= length ds)%nat -> length st = (length ds - 2)%nat ->
  lookup e "dims" = Some (nats ds) -> lookup e "n" = Some (VI (Z.of_nat (length ds - 2))) ->
  lookup e "state" = Some (nats (rev st)) ->
  exists e', exec call fuel linearLast2DimsMatMulElemGenerator_step_code e = ONormal e' /\
    lookup e' "state" = Some (nats (rev (incr (rev (firstn (length ds - 2) ds)) st))) /\
    lookup e' "dims" = Some (nats ds) /\ lookup e' "n" = Some (VI (Z.of_nat (length ds - 2))).
Proof.
  intros Hf H1 Hl Hd Hn Hs.
  destruct (go_linearLast2DimsMatMulElemGenerator_step call fuel ds (rev st) (length ds - 2) e
              ltac:(lia) ltac:(now rewrite rev_length) ltac:(lia) Hd Hn Hs) as [e' [A [B [C [D _]]]]].
  exists e'. rewrite rev_involutive in B. auto.
Qed.

(* ---------- concrete runs of the translated code ---------- *)
Definition stateAfter (o : outcome) : option val := match o with ONormal e => lookup e "state" | _ => None end.
Definition noCall : string -> list val -> outcome := fun _ _ => OPanic.

Example ex_linear_step_carry :
  stateAfter (exec noCall 4 linearElemGenerator_step_code
                [("t.dims", nats [2; 3; 4]%nat); ("state", nats [0; 2; 3]%nat)]) = Some (nats [1; 0; 0]%nat).
Proof. vm_compute. reflexivity. Qed.
Example ex_linear_step_wrap :
  stateAfter (exec noCall 4 linearElemGenerator_step_code
                [("t.dims", nats [2; 3; 4]%nat); ("state", nats [1; 2; 3]%nat)]) = Some (nats [0; 0; 0]%nat).
Proof. vm_compute. reflexivity. Qed.
Example ex_linear_step_fuel :   (* the bound S (length ds) is needed when every digit carries *)
  exec noCall 3 linearElemGenerator_step_code
       [("t.dims", nats [2; 3; 4]%nat); ("state", nats [1; 2; 3]%nat)] = OFuel.
Proof. vm_compute. reflexivity. Qed.
Example ex_linear_outer :
  stateAfter (exec noCall 0 linearElemGenerator_outer_code [("t.dims", nats [2; 3; 4]%nat)]) = Some (nats [0; 0; 0]%nat).
Proof. vm_compute. reflexivity. Qed.
Example ex_eye_step :
  exec noCall 0 eyeElemGenerator_step_code [("n", VI 3); ("state", VI 8)]
  = ONormal [("n", VI 3); ("state", VI 9); ("atDiag", VB true)].
Proof. vm_compute. reflexivity. Qed.
Example ex_dot_outer_step :
  match exec noCall 0 linearLastDimDotProductElemGenerator_outer_code [("t1.dims", nats [2; 3; 5]%nat)] with
  | ONormal e => stateAfter (exec noCall 3 linearLastDimDotProductElemGenerator_step_code
                               (upd e "state" (nats [0; 2]%nat)))
  | _ => None
  end = Some (nats [1; 0]%nat).
Proof. vm_compute. reflexivity. Qed.
Example ex_matmul_outer_step :
  match exec noCall 0 linearLast2DimsMatMulElemGenerator_outer_code [("t1.dims", nats [2; 3; 5; 7]%nat)] with
  | ONormal e => stateAfter (exec noCall 3 linearLast2DimsMatMulElemGenerator_step_code
                               (upd e "state" (nats [0; 2]%nat)))
  | _ => None
  end = Some (nats [1; 0]%nat).
Proof. vm_compute. reflexivity. Qed.

Print Assumptions carry_loop.
Print Assumptions go_eyeElemGenerator_step_env.
Print Assumptions go_eyeElemGenerator_step.
Print Assumptions go_eyeElemGenerator_outer.
Print Assumptions go_linearElemGenerator_step.
Print Assumptions go_linearElemGenerator_step_model.
Print Assumptions go_linearElemGenerator_outer.
Print Assumptions go_linearLastDimDotProductElemGenerator_step.
Print Assumptions go_linearLastDimDotProductElemGenerator_step_model.
Print Assumptions go_linearLastDimDotProductElemGenerator_outer.
Print Assumptions go_linearLastDimDotProductElemGenerator_outer_panic.
Print Assumptions go_linearLast2DimsMatMulElemGenerator_step.
Print Assumptions go_linearLast2DimsMatMulElemGenerator_step_model.
Print Assumptions go_linearLast2DimsMatMulElemGenerator_outer.
Print Assumptions go_linearLast2DimsMatMulElemGenerator_outer_panic.
