(* BroadcastP.v — broadcast (shape_modifiers.go, broadcastElemGenerator): one generator step
   is one increment of the TARGET-shape odometer and the source index read is the
   broadcasting projection of the target digits; hence element idx of the result is element
   [bproj (dims t) shape idx] of the source.  Public method: Ok iff the validators accept,
   Err otherwise, never Panic.  targetBroadcastDims is the right-aligned maximum. *)
From Coq Require Import List Arith ZArith Bool Lia.
From Qeep Require Import Model.Scalar Model.Nd Model.Fill Model.Data Model.Valid Model.Api.
From Qeep Require Import Proofs.NdP Proofs.FillP Proofs.OdometerP Proofs.ReshapeP.
Import ListNotations.

Lemma Forall2_len {T U} (R : T -> U -> Prop) l r : Forall2 R l r -> length l = length r.
Proof. induction 1 as [|a b l r _ _ IH]; cbn; congruence. Qed.

(* ---------- compatibility ---------- *)

(* least-significant-first form (the form the validator and the generator work with) *)
Fixpoint compatR (rsrc rsh : list nat) : Prop :=
  match rsrc, rsh with
  | [], _ => True
  | d :: rs, sh :: rsh' => (d = sh \/ d = 1) /\ compatR rs rsh'
  | _ :: _, [] => False
  end.

(* most-significant-first statement: right-aligned, each source dim equals the target dim or is 1 *)
Definition bcompat (src shape : list nat) : Prop :=
  length src <= length shape /\
  Forall2 (fun d sh => d = sh \/ d = 1) src (skipn (length shape - length src) shape).

(* the source index of target index idx: drop the leading components, 0 where the source dim is 1 *)
Definition bproj (src shape idx : list nat) : list nat :=
  map (fun p => if fst p =? 1 then 0 else snd p) (combine src (skipn (length shape - length src) idx)).

Lemma compatR_length rsrc : forall rsh, compatR rsrc rsh -> length rsrc <= length rsh.
Proof.
  induction rsrc as [|d rs IH]; intros [|sh rsh] H; cbn [compatR] in H; cbn [length]; try lia; try contradiction.
  destruct H as [_ H]. specialize (IH _ H). lia.
Qed.

Lemma compatR_of_Forall2 a b c : Forall2 (fun d sh => d = sh \/ d = 1) a b -> compatR a (b ++ c).
Proof. induction 1 as [|d sh a b Hd _ IH]; cbn [app compatR]; [exact I|split; assumption]. Qed.

Lemma compatR_firstn a : forall b, compatR a b -> Forall2 (fun d sh => d = sh \/ d = 1) a (firstn (length a) b).
Proof.
  induction a as [|d a IH]; intros [|sh b] H; cbn [compatR] in H; try contradiction; cbn [length firstn]; try constructor.
  - tauto.
  - apply IH. tauto.
Qed.

Lemma bcompat_compatR src shape : bcompat src shape <-> compatR (rev src) (rev shape).
Proof.
  split.
  - intros [Hl HF]. rewrite <- (firstn_skipn (length shape - length src) shape) at 1.
    rewrite rev_app_distr. apply compatR_of_Forall2, Forall2_rev', HF.
  - intros H. pose proof (compatR_length _ _ H) as Hl. rewrite !rev_length in Hl. split; [exact Hl|].
    apply compatR_firstn in H. rewrite firstn_rev, rev_length in H.
    apply Forall2_rev' in H. rewrite !rev_involutive in H. exact H.
Qed.

Lemma compatR_refl l : compatR l l.
Proof. induction l as [|d l IH]; cbn; auto. Qed.

(* validator = compatibility *)
Lemma bcastOkRev_iff a : forall b, bcastOkRev (map Z.of_nat a) (map Z.of_nat b) = true <-> compatR a b.
Proof.
  induction a as [|d a IH]; intros [|sh b]; cbn [map bcastOkRev compatR]; try tauto.
  - split; [discriminate|contradiction].
  - rewrite andb_true_iff, orb_true_iff, !Z.eqb_eq, IH. split; intros [H1 H2]; (split; [lia|exact H2]).
Qed.

Lemma validateBroadcast_iff src shape :
  validateBroadcast (map Z.of_nat src) (map Z.of_nat shape) = true <-> bcompat src shape.
Proof.
  unfold validateBroadcast. rewrite bcompat_compatR, andb_true_iff, <- !map_rev, bcastOkRev_iff, !map_length.
  split; [tauto|]. intros H. split; [|exact H]. apply Nat.leb_le.
  apply compatR_length in H. rewrite !rev_length in H. exact H.
Qed.

(* ---------- the generator state as a function of the target digits ---------- *)

Fixpoint mkps (rsrc rsh rd : list nat) : list bpos :=
  match rsh, rd with
  | sh :: rsh', i :: rd' =>
      match rsrc with
      | d :: rs' => mkBpos (Some d) sh (if d =? sh then i else 0) (if d =? sh then 0 else i) :: mkps rs' rsh' rd'
      | [] => mkBpos None sh 0 i :: mkps [] rsh' rd'
      end
  | _, _ => []
  end.

Fixpoint bprojR (rsrc rsh rd : list nat) : list nat :=
  match rsrc, rsh, rd with
  | d :: rs', sh :: rsh', i :: rd' => (if d =? sh then i else 0) :: bprojR rs' rsh' rd'
  | _, _, _ => []
  end.

Lemma mkbpos_mkps rsh : forall rsrc, mkbpos rsrc rsh = mkps rsrc rsh (repeat 0 (length rsh)).
Proof.
  induction rsh as [|sh rsh IH]; intros rsrc; cbn [mkbpos mkps length repeat]; [reflexivity|].
  destruct rsrc as [|d rs]; rewrite IH; [reflexivity|]. destruct (d =? sh); reflexivity.
Qed.

(* one generator step = one increment of the target odometer *)
Lemma bstep_mkps rsh : forall rsrc rd, compatR rsrc rsh -> ovalid rsh rd ->
  bstep (mkps rsrc rsh rd) = mkps rsrc rsh (incr rsh rd).
Proof.
  induction rsh as [|sh rsh IH]; intros rsrc [|i rd] Hc Hv; cbn [ovalid] in Hv; try contradiction.
  - reflexivity.
  - destruct Hv as [Hi Hr]. destruct rsrc as [|d rs].
    + specialize (IH [] rd I Hr).
      cbn [mkps bstep bsrc bshp bstt brpt incr].
      destruct (Nat.eqb_spec (S i) sh) as [E1|E1]; destruct (Nat.ltb_spec (S i) sh) as [E2|E2]; try lia.
      * cbn [mkps]. rewrite IH. reflexivity.
      * cbn [mkps]. reflexivity.
    + cbn [compatR] in Hc. destruct Hc as [Hd Hc]. specialize (IH rs rd Hc Hr).
      cbn [mkps]. destruct (Nat.eqb_spec d sh) as [Ed|Ed].
      * subst d. cbn [bstep bsrc bshp bstt brpt incr].
        destruct (Nat.ltb_spec (S i) sh) as [E2|E2].
        -- cbn [mkps]. rewrite ?Nat.eqb_refl. reflexivity.
        -- rewrite ?Nat.eqb_refl. cbn [orb]. cbn [mkps]. rewrite ?Nat.eqb_refl, IH. reflexivity.
      * destruct Hd as [Hd|Hd]; [contradiction|]. subst d.
        assert (E0 : (1 =? sh) = false) by (apply Nat.eqb_neq; exact Ed).
        cbn [bstep bsrc bshp bstt brpt incr].
        replace (1 <? 1) with false by reflexivity. rewrite E0. cbn [orb].
        destruct (Nat.eqb_spec (S i) sh) as [E1|E1]; destruct (Nat.ltb_spec (S i) sh) as [E2|E2]; try lia.
        -- cbn [mkps]. rewrite ?E0, IH. reflexivity.
        -- cbn [mkps]. rewrite ?E0. reflexivity.
Qed.

Lemma iter_bstep_mkps rsrc rsh k : forall rd, compatR rsrc rsh -> ovalid rsh rd ->
  iter _ bstep k (mkps rsrc rsh rd) = mkps rsrc rsh (iter _ (incr rsh) k rd).
Proof.
  induction k as [|k IH]; intros rd Hc Hv; cbn [iter]; [reflexivity|].
  rewrite bstep_mkps by assumption. apply IH; [exact Hc|apply incr_valid, Hv].
Qed.

(* the source index read in a state *)
Lemma bsrcidx_mkps_nil rsh : forall rd, bsrcidx (mkps [] rsh rd) = [].
Proof.
  unfold bsrcidx. induction rsh as [|sh rsh IH]; intros [|i rd]; cbn [mkps filter bsrc map rev]; try reflexivity.
  apply IH.
Qed.

Lemma bsrcidx_mkps rsh : forall rsrc rd, bsrcidx (mkps rsrc rsh rd) = rev (bprojR rsrc rsh rd).
Proof.
  induction rsh as [|sh rsh IH]; intros rsrc [|i rd].
  - destruct rsrc; reflexivity.
  - destruct rsrc; reflexivity.
  - destruct rsrc; reflexivity.
  - destruct rsrc as [|d rs].
    + rewrite bsrcidx_mkps_nil. reflexivity.
    + specialize (IH rs rd). unfold bsrcidx in *. cbn [mkps filter bsrc map bstt rev bprojR]. rewrite IH. reflexivity.
Qed.

Lemma bprojR_valid rsrc : forall rsh rd, compatR rsrc rsh -> ovalid rsh rd -> ovalid rsrc (bprojR rsrc rsh rd).
Proof.
  induction rsrc as [|d rs IH]; intros [|sh rsh] [|i rd] Hc Hv; cbn [compatR ovalid] in Hc, Hv; try contradiction;
    cbn [bprojR ovalid]; try exact I.
  destruct Hc as [Hd Hc]. destruct Hv as [Hi Hv]. split; [|apply IH; assumption].
  destruct (Nat.eqb_spec d sh) as [E|E]; lia.
Qed.

(* the reversed projection is the most-significant-first [bproj] *)
Lemma bprojR_app rs : forall a b a' b', length a = length rs -> length b = length rs ->
  bprojR rs (a ++ a') (b ++ b') = bprojR rs a b.
Proof.
  induction rs as [|d rs IH]; intros [|sh a] [|i b] a' b' Ha Hb; cbn in Ha, Hb; try discriminate.
  - destruct a'; reflexivity.
  - cbn [app bprojR]. rewrite IH by lia. reflexivity.
Qed.

Lemma bprojR_snoc rs : forall a b d sh i, length a = length rs -> length b = length rs ->
  bprojR (rs ++ [d]) (a ++ [sh]) (b ++ [i]) = bprojR rs a b ++ [if d =? sh then i else 0].
Proof.
  induction rs as [|d0 rs IH]; intros [|sh0 a] [|i0 b] d sh i Ha Hb; cbn in Ha, Hb; try discriminate.
  - reflexivity.
  - cbn [app bprojR]. rewrite IH by lia. reflexivity.
Qed.

Lemma bprojR_rev_aligned src : forall suf isuf,
  Forall2 (fun d sh => d = sh \/ d = 1) src suf -> validIdx suf isuf ->
  rev (bprojR (rev src) (rev suf) (rev isuf)) =
  map (fun p => if fst p =? 1 then 0 else snd p) (combine src isuf).
Proof.
  induction src as [|d src IH]; intros suf isuf HF Hv.
  - reflexivity.
  - inversion HF as [|? sh ? suf' Hd HF']; subst.
    apply validIdx_cons in Hv as (i & isuf' & -> & Hi & Hv').
    cbn [rev combine map fst snd].
    pose proof (Forall2_len _ _ _ HF') as L1. pose proof (validIdx_length _ _ Hv') as L2.
    rewrite bprojR_snoc by (rewrite !rev_length; lia).
    rewrite rev_app_distr. cbn [rev app]. rewrite (IH suf' isuf' HF' Hv'). f_equal.
    destruct (Nat.eqb_spec d sh) as [E1|E1]; destruct (Nat.eqb_spec d 1) as [E2|E2]; lia.
Qed.

Lemma bprojR_bproj src shape idx : bcompat src shape -> validIdx shape idx ->
  rev (bprojR (rev src) (rev shape) (rev idx)) = bproj src shape idx.
Proof.
  intros [Hl HF] Hv. unfold bproj.
  set (k := length shape - length src) in *.
  pose proof (validIdx_length _ _ Hv) as Li.
  assert (Lk : length (firstn k idx) = length (firstn k shape)) by (rewrite !firstn_length; lia).
  pose proof Hv as Hv2. unfold validIdx in Hv2.
  rewrite <- (firstn_skipn k shape), <- (firstn_skipn k idx) in Hv2.
  apply Forall2_app_inv_len in Hv2 as [_ Hvs]; [|exact Lk].
  rewrite <- (firstn_skipn k shape) at 1. rewrite <- (firstn_skipn k idx) at 1.
  rewrite !rev_app_distr.
  pose proof (Forall2_len _ _ _ HF) as L1.
  rewrite bprojR_app.
  - apply bprojR_rev_aligned; assumption.
  - rewrite !rev_length. lia.
  - rewrite !rev_length. rewrite (validIdx_length _ _ Hvs). lia.
Qed.

Lemma bproj_valid src shape idx : bcompat src shape -> validIdx shape idx -> validIdx src (bproj src shape idx).
Proof.
  intros Hc Hv. rewrite <- (bprojR_bproj src shape idx Hc Hv).
  pose proof (bprojR_valid (rev src) (rev shape) (rev idx) (proj1 (bcompat_compatR _ _) Hc) (ovalid_rev _ _ Hv)) as H.
  apply (proj1 (ovalid_validIdx _ _)) in H. apply (proj1 (validIdx_rev _ _)) in H.
  rewrite rev_involutive in H. exact H.
Qed.

(* ---------- the probe lemma: steps as increments of the digit vector ---------- *)

Definition digit (p : bpos) : nat :=
  match bsrc p with Some d => if d =? bshp p then bstt p else brpt p | None => brpt p end.

Definition okpos (p : bpos) : Prop :=
  match bsrc p with
  | Some d => (d = bshp p /\ bstt p < d /\ brpt p = 0) \/ (d = 1 /\ 1 < bshp p /\ bstt p = 0 /\ brpt p < bshp p)
  | None => bstt p = 0 /\ brpt p < bshp p /\ 0 < bshp p
  end.

Lemma digit_mk src sh st rp :
  digit (mkBpos src sh st rp) = match src with Some d => if d =? sh then st else rp | None => rp end.
Proof. reflexivity. Qed.

Lemma bstep_digits ps : Forall okpos ps ->
  map digit (bstep ps) = incr (map bshp ps) (map digit ps) /\ Forall okpos (bstep ps) /\
  map bshp (bstep ps) = map bshp ps /\ map bsrc (bstep ps) = map bsrc ps.
Proof.
  induction 1 as [|p ps Hp Hps IH]; [cbn; auto|].
  destruct IH as (I1 & I2 & I3 & I4).
  destruct p as [src sh st rp]. unfold okpos in Hp. cbn [bsrc bshp bstt brpt] in Hp.
  cbn [bstep bsrc bshp bstt brpt map incr]. rewrite digit_mk.
  destruct src as [d|].
  - destruct Hp as [(-> & Hst & ->)|(-> & Hsh & -> & Hrp)].
    + rewrite Nat.eqb_refl. cbn [orb].
      destruct (Nat.ltb_spec (S st) sh) as [E|E]; cbn [map bsrc bshp]; rewrite digit_mk, ?Nat.eqb_refl.
      * split; [reflexivity|]. split; [|split; reflexivity].
        constructor; [|exact Hps]. unfold okpos; cbn. left. lia.
      * rewrite I1, I3, I4. split; [reflexivity|]. split; [|split; reflexivity].
        constructor; [|exact I2]. unfold okpos; cbn. left. lia.
    + replace (1 <? 1) with false by reflexivity.
      assert (E1 : (1 =? sh) = false) by (apply Nat.eqb_neq; lia). rewrite E1. cbn [orb].
      destruct (Nat.eqb_spec (S rp) sh) as [E2|E2]; destruct (Nat.ltb_spec (S rp) sh) as [E3|E3]; try lia;
        cbn [map bsrc bshp]; rewrite digit_mk, ?E1.
      * rewrite I1, I3, I4. split; [reflexivity|]. split; [|split; reflexivity].
        constructor; [|exact I2]. unfold okpos; cbn. right. lia.
      * split; [reflexivity|]. split; [|split; reflexivity].
        constructor; [|exact Hps]. unfold okpos; cbn. right. lia.
  - destruct Hp as (-> & Hrp & Hsh).
    destruct (Nat.eqb_spec (S rp) sh) as [E2|E2]; destruct (Nat.ltb_spec (S rp) sh) as [E3|E3]; try lia;
      cbn [map bsrc bshp]; rewrite digit_mk.
    + rewrite I1, I3, I4. split; [reflexivity|]. split; [|split; reflexivity].
      constructor; [|exact I2]. unfold okpos; cbn. lia.
    + split; [reflexivity|]. split; [|split; reflexivity].
      constructor; [|exact Hps]. unfold okpos; cbn. lia.
Qed.

(* ---------- the data layer ---------- *)
Section Broadcast.
Variable A : Type.
Notation T := (tensor A).

Lemma dataAt_full ds (x : nd A) idx : wfnd ds x -> validIdx ds idx ->
  exists a, dataAt x idx = Some (Sc a) /\ get x idx = Some a.
Proof.
  intros Hw Hi. rewrite <- (app_nil_r ds) in Hw.
  destruct (dataAt_wf A ds [] x idx Hw Hi) as (y & Ey & Hy).
  apply wfnd_nil in Hy as (a & ->). exists a. unfold get. rewrite Ey. split; reflexivity.
Qed.

Lemma broadcast_data src (x : nd A) shape :
  wfnd src x -> allpos src -> allpos shape -> compatR (rev src) (rev shape) ->
  exists d, initWith shape (bcGen x) (bcInit src shape) = Some d /\ wfnd shape d /\
    forall idx, validIdx shape idx -> get d idx = get x (rev (bprojR (rev src) (rev shape) (rev idx))).
Proof.
  intros Hw Hp Hps Hc.
  destruct (wfnd_inhabited A src x Hw Hp) as (a0 & _).
  set (rsrc := rev src) in *. set (rsh := rev shape) in *.
  set (Inv := fun ps : list bpos => exists rd, ovalid rsh rd /\ ps = mkps rsrc rsh rd).
  set (outA := fun ps : list bpos => match get x (bsrcidx ps) with Some a => a | None => a0 end).
  assert (Hread : forall rd, ovalid rsh rd -> exists a,
            dataAt x (rev (bprojR rsrc rsh rd)) = Some (Sc a) /\ get x (rev (bprojR rsrc rsh rd)) = Some a).
  { intros rd Hrd. apply (dataAt_full src); [exact Hw|].
    pose proof (bprojR_valid rsrc rsh rd Hc Hrd) as H.
    apply (proj1 (ovalid_validIdx _ _)) in H. apply (proj1 (validIdx_rev _ _)) in H.
    unfold rsrc in H at 1. rewrite rev_involutive in H. exact H. }
  assert (Hg : forall ps, Inv ps -> bcGen x ps = Some (Sc (outA ps), bstep ps)).
  { intros ps (rd & Hrd & ->). unfold bcGen, outA. rewrite bsrcidx_mkps.
    destruct (Hread rd Hrd) as (a & E1 & E2). rewrite E1, E2. reflexivity. }
  assert (Hnext : forall ps, Inv ps -> Inv (bstep ps)).
  { intros ps (rd & Hrd & ->). exists (incr rsh rd). split; [apply incr_valid, Hrd|].
    apply bstep_mkps; assumption. }
  assert (Hz : ovalid rsh (repeat 0 (length rsh))) by (apply ovalid_zeros, Forall_rev, Hps).
  assert (Hinit : Inv (bcInit src shape)).
  { exists (repeat 0 (length rsh)). split; [exact Hz|]. unfold bcInit. apply mkbpos_mkps. }
  pose proof (initWith_spec A (list bpos) (bcGen x) (fun ps => Sc (outA ps)) bstep Inv Hg Hnext shape
                (bcInit src shape) Hinit) as HI.
  rewrite (tabS_tab A (list bpos) (fun ps => Sc (outA ps)) bstep outA (fun s => eq_refl)) in HI.
  eexists. split; [exact HI|]. split; [apply wfnd_tab|].
  intros idx Hv. rewrite get_tab by exact Hv. unfold bcInit. fold rsrc rsh.
  rewrite mkbpos_mkps, iter_bstep_mkps by assumption.
  assert (Ei : iter _ (incr rsh) (flatIdx shape idx) (repeat 0 (length rsh)) = rev idx).
  { unfold rsh. rewrite rev_length. apply iter_incr_flatIdx, Hv. }
  rewrite Ei.
  unfold outA. rewrite bsrcidx_mkps.
  destruct (Hread (rev idx) (ovalid_rev shape idx Hv)) as (a & _ & E2). rewrite E2. reflexivity.
Qed.

(* main theorem *)
Theorem broadcast_spec (t : T) shape :
  wf t -> allpos shape -> bcompat (dims t) shape ->
  exists r, broadcast t shape = Some r /\ dims r = shape /\ wf r /\
    forall idx, validIdx shape idx -> get (data r) idx = get (data t) (bproj (dims t) shape idx).
Proof.
  intros [Hw Hp] Hps Hc.
  destruct (broadcast_data (dims t) (data t) shape Hw Hp Hps (proj1 (bcompat_compatR _ _) Hc)) as (d & Ed & Hd & Hg).
  exists (mkT shape d). unfold broadcast. rewrite Ed. cbn [obind dims data].
  split; [reflexivity|]. split; [reflexivity|]. split; [split; assumption|].
  intros idx Hv. rewrite (Hg idx Hv), (bprojR_bproj (dims t) shape idx Hc Hv). reflexivity.
Qed.

Definition broadcasted (t r : T) (shape : list nat) : Prop :=
  dims r = shape /\ wf r /\
  forall idx, validIdx shape idx -> get (data r) idx = get (data t) (bproj (dims t) shape idx).

(* the two validators of Broadcast say: a positive shape, compatible with the source dims *)
Lemma validateBroadcast_shape_iff (t : T) shape :
  validateInputDims shape && validateBroadcast (zdims t) shape = true <->
  exists ns, shape = map Z.of_nat ns /\ allpos ns /\ bcompat (dims t) ns.
Proof.
  rewrite andb_true_iff, validateInputDims_iff. unfold zdims. split.
  - intros [Hpz Hb]. exists (natsOf shape). split; [symmetry; apply natsOf_id, Hpz|].
    split; [apply natsOf_pos, Hpz|]. rewrite <- (natsOf_id shape Hpz) in Hb.
    apply validateBroadcast_iff, Hb.
  - intros (ns & -> & Hpn & Hc). split; [apply of_nat_pos, Hpn|apply validateBroadcast_iff, Hc].
Qed.

Theorem v_broadcast_spec (t : T) (shape : list Z) : wf t ->
  (validateInputDims shape && validateBroadcast (zdims t) shape = true ->
     exists r, v_broadcast t shape = Ok r /\ broadcasted t r (natsOf shape)) /\
  (validateInputDims shape && validateBroadcast (zdims t) shape = false -> v_broadcast t shape = Err).
Proof.
  intros Ht. split; intros H.
  - pose proof H as H'. apply validateBroadcast_shape_iff in H' as (ns & -> & Hp & Hc).
    apply andb_true_iff in H as [H1 H2]. unfold v_broadcast, guard. rewrite H1, H2.
    rewrite natsOf_of_nat. destruct (broadcast_spec t ns Ht Hp Hc) as (r & Er & Hr).
    exists r. rewrite Er. split; [reflexivity|exact Hr].
  - unfold v_broadcast, guard. destruct (validateInputDims shape); [|reflexivity].
    cbn [andb] in H. rewrite H. reflexivity.
Qed.

Corollary v_broadcast_no_panic (t : T) shape : wf t -> v_broadcast t shape <> Panic.
Proof.
  intros Ht E. destruct (v_broadcast_spec t shape Ht) as [H1 H2].
  destruct (validateInputDims shape && validateBroadcast (zdims t) shape).
  - destruct (H1 eq_refl) as (r & Er & _). congruence.
  - rewrite (H2 eq_refl) in E. discriminate.
Qed.

End Broadcast.

(* ---------- targetBroadcastDims ---------- *)

(* NumPy compatibility of two shapes, least significant first *)
Fixpoint compat2R (r1 r2 : list nat) : Prop :=
  match r1, r2 with
  | a :: r1', b :: r2' => (a = b \/ a = 1 \/ b = 1) /\ compat2R r1' r2'
  | _, _ => True
  end.
Definition bcompat2 (d1 d2 : list nat) : Prop := compat2R (rev d1) (rev d2).

Lemma tbdRev_length r1 : forall r2, length (tbdRev r1 r2) = Nat.max (length r1) (length r2).
Proof.
  induction r1 as [|a r1 IH]; intros [|b r2]; cbn [tbdRev length]; try lia.
  rewrite IH. lia.
Qed.

(* entry i from the right is the maximum of the two entries (a missing entry counts as 0) *)
Lemma tbdRev_nth r1 : forall r2 i, nth i (tbdRev r1 r2) 0 = Nat.max (nth i r1 0) (nth i r2 0).
Proof.
  induction r1 as [|a r1 IH]; intros [|b r2] [|i]; cbn [tbdRev nth]; try lia.
  apply IH.
Qed.

Lemma allpos_nth1 l : allpos l -> forall i, 1 <= nth i l 1.
Proof. induction 1 as [|d l Hd _ IH]; intros [|i]; cbn [nth]; try lia. apply IH. Qed.

(* NumPy's formulation: pad the shorter shape with 1s *)
Lemma tbdRev_nth1 r1 : forall r2 i, allpos r1 -> allpos r2 ->
  nth i (tbdRev r1 r2) 1 = Nat.max (nth i r1 1) (nth i r2 1).
Proof.
  induction r1 as [|a r1 IH]; intros [|b r2] i H1 H2; cbn [tbdRev].
  - destruct i; reflexivity.
  - pose proof (allpos_nth1 _ H2 i). destruct i; cbn [nth] in *; lia.
  - pose proof (allpos_nth1 _ H1 i). destruct i; cbn [nth] in *; lia.
  - inversion H1; subst. inversion H2; subst. destruct i as [|i]; cbn [nth]; [reflexivity|]. apply IH; assumption.
Qed.

Theorem targetBroadcastDims_spec d1 d2 :
  length (targetBroadcastDims d1 d2) = Nat.max (length d1) (length d2) /\
  (forall i, nth i (rev (targetBroadcastDims d1 d2)) 0 = Nat.max (nth i (rev d1) 0) (nth i (rev d2) 0)) /\
  (allpos d1 -> allpos d2 ->
     allpos (targetBroadcastDims d1 d2) /\
     forall i, nth i (rev (targetBroadcastDims d1 d2)) 1 = Nat.max (nth i (rev d1) 1) (nth i (rev d2) 1)).
Proof.
  unfold targetBroadcastDims. rewrite rev_length, tbdRev_length, !rev_length, rev_involutive.
  split; [reflexivity|]. split; [intros i; apply tbdRev_nth|].
  intros H1 H2. apply Forall_rev in H1. apply Forall_rev in H2. split; [|intros i; apply tbdRev_nth1; assumption].
  apply Forall_rev. revert H1 H2. generalize (rev d1) (rev d2). clear d1 d2.
  intros r1. induction r1 as [|a r1 IH]; intros [|b r2] H1 H2; cbn [tbdRev]; try assumption.
  inversion H1; subst. inversion H2; subst. constructor; [lia|apply IH; assumption].
Qed.

Lemma tbdRev_compat r1 : forall r2, allpos r1 -> allpos r2 ->
  (compat2R r1 r2 <-> compatR r1 (tbdRev r1 r2) /\ compatR r2 (tbdRev r1 r2)).
Proof.
  induction r1 as [|a r1 IH]; intros [|b r2] H1 H2; cbn [tbdRev compat2R].
  - cbn. tauto.
  - split; [intros _; split; [exact I|apply compatR_refl]|tauto].
  - split; [intros _; split; [apply compatR_refl|exact I]|tauto].
  - inversion H1; subst. inversion H2; subst. cbn [compatR]. rewrite (IH r2) by assumption.
    split.
    + intros [Hab [Hc1 Hc2]]. repeat split; try assumption; lia.
    + intros [[Ha Hc1] [Hb Hc2]]. repeat split; try assumption; lia.
Qed.

(* two shapes are NumPy-compatible iff both pass the Broadcast validator against the target *)
Theorem targetBroadcastDims_compat d1 d2 : allpos d1 -> allpos d2 ->
  (bcompat2 d1 d2 <->
   bcompat d1 (targetBroadcastDims d1 d2) /\ bcompat d2 (targetBroadcastDims d1 d2)).
Proof.
  intros H1 H2. unfold bcompat2, targetBroadcastDims. rewrite !bcompat_compatR, rev_involutive.
  apply tbdRev_compat; apply Forall_rev; assumption.
Qed.

Corollary targetBroadcastDims_validates d1 d2 : allpos d1 -> allpos d2 -> bcompat2 d1 d2 ->
  let target := map Z.of_nat (targetBroadcastDims d1 d2) in
  validateInputDims target = true /\
  validateBroadcast (map Z.of_nat d1) target = true /\ validateBroadcast (map Z.of_nat d2) target = true.
Proof.
  intros H1 H2 Hc target. subst target.
  apply (targetBroadcastDims_compat d1 d2 H1 H2) in Hc as [Hc1 Hc2].
  destruct (targetBroadcastDims_spec d1 d2) as (_ & _ & Hp). destruct (Hp H1 H2) as [Hpos _].
  split; [apply validateInputDims_iff, of_nat_pos, Hpos|]. split; apply validateBroadcast_iff; assumption.
Qed.

(* broadcastForBinaryOp *)
Theorem v_bcast2_spec {A} (t u : tensor A) : wf t -> wf u ->
  let target := targetBroadcastDims (dims t) (dims u) in
  (bcompat2 (dims t) (dims u) ->
     exists t1 u1, v_bcast2 t u = Ok (t1, u1) /\ broadcasted A t t1 target /\ broadcasted A u u1 target) /\
  (~ bcompat2 (dims t) (dims u) -> v_bcast2 t u = Err).
Proof.
  intros Ht Hu target. pose proof (proj2 Ht) as Hpt. pose proof (proj2 Hu) as Hpu.
  destruct (targetBroadcastDims_spec (dims t) (dims u)) as (_ & _ & Hp). destruct (Hp Hpt Hpu) as [Hpos _].
  assert (Hin : validateInputDims (map Z.of_nat target) = true) by (apply validateInputDims_iff, of_nat_pos, Hpos).
  unfold v_bcast2. fold target.
  destruct (v_broadcast_spec A t (map Z.of_nat target) Ht) as [Ht1 Ht2].
  destruct (v_broadcast_spec A u (map Z.of_nat target) Hu) as [Hu1 Hu2].
  rewrite Hin in Ht1, Ht2, Hu1, Hu2. cbn [andb] in Ht1, Ht2, Hu1, Hu2. unfold zdims in *.
  rewrite natsOf_of_nat in Ht1, Hu1.
  split.
  - intros Hc. apply (targetBroadcastDims_compat _ _ Hpt Hpu) in Hc as [Hc1 Hc2]. fold target in Hc1, Hc2.
    apply validateBroadcast_iff in Hc1, Hc2.
    destruct (Ht1 Hc1) as (t1 & Et & Hbt). destruct (Hu1 Hc2) as (u1 & Eu & Hbu).
    exists t1, u1. rewrite Et. cbn [res_bind]. rewrite Eu. cbn [res_bind]. auto.
  - intros Hn.
    destruct (validateBroadcast (map Z.of_nat (dims t)) (map Z.of_nat target)) eqn:E1.
    + destruct (validateBroadcast (map Z.of_nat (dims u)) (map Z.of_nat target)) eqn:E2.
      * exfalso. apply Hn. apply (targetBroadcastDims_compat _ _ Hpt Hpu). fold target.
        split; apply validateBroadcast_iff; assumption.
      * destruct (Ht1 eq_refl) as (t1 & Et & _). rewrite Et. cbn [res_bind]. rewrite (Hu2 eq_refl). reflexivity.
    + rewrite (Ht2 eq_refl). reflexivity.
Qed.

(* ---------- non-vacuity ---------- *)
Definition b13 : tensor nat := mkT [1; 3] (Vec [Vec [Sc 1; Sc 2; Sc 3]]).
Definition b21 : tensor nat := mkT [2; 1] (Vec [Vec [Sc 10]; Vec [Sc 20]]).
Definition b3 : tensor nat := mkT [3] (Vec [Sc 1; Sc 2; Sc 3]).

Example b13_wf : wf b13.
Proof. split; [apply wfndb_spec; reflexivity|repeat constructor]. Qed.
Example b13_compat : allpos [2; 2; 3] /\ bcompat (dims b13) [2; 2; 3].
Proof.
  split; [repeat constructor|]. split; [cbn; lia|]. cbn.
  constructor; [right; reflexivity|]. constructor; [left; reflexivity|constructor].
Qed.
Example broadcast_ex :
  broadcast b13 [2; 2; 3] =
  Some (mkT [2; 2; 3] (Vec [Vec [Vec [Sc 1; Sc 2; Sc 3]; Vec [Sc 1; Sc 2; Sc 3]];
                            Vec [Vec [Sc 1; Sc 2; Sc 3]; Vec [Sc 1; Sc 2; Sc 3]]])).
Proof. vm_compute. reflexivity. Qed.
Example bproj_ex : bproj [1; 3] [2; 2; 3] [1; 1; 2] = [0; 2] /\ bproj [2; 1] [2; 3] [1; 2] = [1; 0].
Proof. vm_compute. auto. Qed.
Example broadcast_ex2 :
  broadcast b21 [2; 3] = Some (mkT [2; 3] (Vec [Vec [Sc 10; Sc 10; Sc 10]; Vec [Sc 20; Sc 20; Sc 20]])).
Proof. vm_compute. reflexivity. Qed.
Example broadcast_rank0_ex : broadcast (mkT [] (Sc 7)) [2; 2] = Some (mkT [2; 2] (Vec [Vec [Sc 7; Sc 7]; Vec [Sc 7; Sc 7]])).
Proof. vm_compute. reflexivity. Qed.
Example v_broadcast_ex :
  v_broadcast b3 [2%Z; 3%Z] = Ok (mkT [2; 3] (Vec [Vec [Sc 1; Sc 2; Sc 3]; Vec [Sc 1; Sc 2; Sc 3]])) /\
  v_broadcast b3 [3%Z; 2%Z] = Err /\ v_broadcast b13 [3%Z] = Err /\ v_broadcast b3 [0%Z; 3%Z] = Err.
Proof. vm_compute. auto. Qed.
Example tbd_ex : targetBroadcastDims [2; 1] [4; 1; 3] = [4; 2; 3] /\ bcompat2 [2; 1] [4; 1; 3] /\ ~ bcompat2 [2; 3] [3; 2].
Proof. split; [reflexivity|]. split; [cbn; auto|]. cbn. intros [[H|[H|H]] _]; discriminate. Qed.
Example v_bcast2_ex :
  v_bcast2 b21 b13 = Ok (mkT [2; 3] (Vec [Vec [Sc 10; Sc 10; Sc 10]; Vec [Sc 20; Sc 20; Sc 20]]),
                         mkT [2; 3] (Vec [Vec [Sc 1; Sc 2; Sc 3]; Vec [Sc 1; Sc 2; Sc 3]])).
Proof. vm_compute. reflexivity. Qed.

Print Assumptions bstep_digits.
Print Assumptions broadcast_spec.
Print Assumptions v_broadcast_spec.
Print Assumptions targetBroadcastDims_spec.
Print Assumptions targetBroadcastDims_compat.
Print Assumptions v_bcast2_spec.
